// Table of property C12, regenerated from the working tree of the repository on every run
// (`vh gen-tables`): the facts of the source that the hand-written model of C12 assumes.
//
//   - acr/parsimony.go, asr/parsimony.go: the ALGO_* constants; for each `case` of the `switch algo` of
//     ParsimonyAcr / ParsimonyAsr the passes called and the randomResolve argument each receives; the condition
//     that moves the start of the passes to the root's neighbour; for every pass function the SHAPE of the
//     selection predicates (the comparisons of every `if` condition with their operators and literal operands,
//     the Tip() tests; variable names replaced by `_`), the constants stored (`_ := literal`, `_ = literal`)
//     and the counters incremented, in source order;
//   - cmd/acr.go, cmd/asr.go: the `switch strings.ToLower(parsimonyAlgo)` (literal -> constant, what the default
//     clause does), the flags with their defaults, the library function called on each tree;
//   - goalign (as linked into this binary): align.IupacCode, the amino-acid alphabet, align.ALL_AMINO,
//     the nucleotide alphabet — the VALUES the code under test reads at run time.
//
// Output: <out>/C12Sites.lean.  go/parser only.
package c12

import (
	"fmt"
	"go/ast"
	"go/parser"
	"go/token"
	"go/types"
	"os"
	"path/filepath"
	"sort"
	"strings"

	"github.com/evolbioinfo/goalign/align"
)

func lq(s string) string {
	return "\"" + strings.ReplaceAll(strings.ReplaceAll(s, "\\", "\\\\"), "\"", "\\\"") + "\""
}

func lqs(l []string) string {
	q := make([]string, len(l))
	for i, s := range l {
		q[i] = lq(s)
	}
	return "[" + strings.Join(q, ", ") + "]"
}

func nats(l []uint8) string {
	q := make([]string, len(l))
	for i, b := range l {
		q[i] = fmt.Sprint(int(b))
	}
	return "[" + strings.Join(q, ", ") + "]"
}

func parseOne(repo, rel string) (*ast.File, error) {
	return parser.ParseFile(token.NewFileSet(), filepath.Join(repo, rel), nil, 0)
}

func funcsOf(f *ast.File) map[string]*ast.FuncDecl {
	m := map[string]*ast.FuncDecl{}
	for _, d := range f.Decls {
		if fd, ok := d.(*ast.FuncDecl); ok && fd.Body != nil {
			m[fd.Name.Name] = fd
		}
	}
	return m
}

// the first const block using iota: names in order (value = position)
func iotaConsts(f *ast.File) []string {
	for _, d := range f.Decls {
		gd, ok := d.(*ast.GenDecl)
		if !ok || gd.Tok != token.CONST || len(gd.Specs) == 0 {
			continue
		}
		vs := gd.Specs[0].(*ast.ValueSpec)
		if len(vs.Values) != 1 {
			continue
		}
		if id, ok := vs.Values[0].(*ast.Ident); !ok || id.Name != "iota" {
			continue
		}
		var names []string
		for i, s := range gd.Specs {
			v := s.(*ast.ValueSpec)
			if i > 0 && len(v.Values) != 0 {
				names = append(names, "?"+types.ExprString(v.Values[0]))
			}
			for _, n := range v.Names {
				names = append(names, n.Name)
			}
		}
		return names
	}
	return nil
}

// operand of a comparison: a literal (or nil / true / false / an exported constant pkg.NAME) is kept, anything else is `_`
func operand(e ast.Expr) string {
	switch x := e.(type) {
	case *ast.BasicLit:
		return x.Value
	case *ast.Ident:
		if x.Name == "true" || x.Name == "false" || x.Name == "nil" {
			return x.Name
		}
	case *ast.SelectorExpr:
		if id, ok := x.X.(*ast.Ident); ok && strings.ToUpper(x.Sel.Name) == x.Sel.Name {
			return id.Name + "." + x.Sel.Name
		}
	}
	return "_"
}

// the shape of a condition: its boolean structure with every comparison replaced by `#` (the comparisons themselves
// are collected in `atoms` as (left operand, operator, right operand) and are EVALUATED on probes by the Lean side, so
// that `c > 1` and `c >= 2`, or `max < c` and `c > max`, are the same row) and its Tip() tests; variable names play no part
func shape(e ast.Expr, atoms *[][3]string) string {
	switch x := e.(type) {
	case *ast.ParenExpr:
		return "(" + shape(x.X, atoms) + ")"
	case *ast.UnaryExpr:
		if x.Op == token.NOT {
			return "!" + shape(x.X, atoms)
		}
	case *ast.BinaryExpr:
		switch x.Op {
		case token.LAND, token.LOR:
			return shape(x.X, atoms) + " " + x.Op.String() + " " + shape(x.Y, atoms)
		case token.EQL, token.NEQ, token.LSS, token.LEQ, token.GTR, token.GEQ:
			*atoms = append(*atoms, [3]string{operand(x.X), x.Op.String(), operand(x.Y)})
			return "#"
		}
	case *ast.CallExpr:
		if sel, ok := x.Fun.(*ast.SelectorExpr); ok && sel.Sel.Name == "Tip" {
			return "Tip()"
		}
	}
	return "_"
}

func isLit(e ast.Expr) bool {
	switch x := e.(type) {
	case *ast.BasicLit:
		return true
	case *ast.Ident:
		return x.Name == "true" || x.Name == "false" || x.Name == "nil"
	}
	return false
}

type skelRow struct {
	text  string
	atoms [][3]string
}

// selection predicates, stored constants, counters of one function, in source order; conditions without
// comparison or Tip() test (`if ok`, `if randomResolve`) are left out
func skeleton(fd *ast.FuncDecl) []skelRow {
	var out []skelRow
	loopStep := map[ast.Node]bool{} // the init / post statements of a `for` clause are loop plumbing, not counters
	ast.Inspect(fd.Body, func(n ast.Node) bool {
		if n != nil && loopStep[n] {
			return false
		}
		switch x := n.(type) {
		case *ast.ForStmt:
			if x.Init != nil {
				loopStep[x.Init] = true
			}
			if x.Post != nil {
				loopStep[x.Post] = true
			}
		case *ast.IfStmt:
			var atoms [][3]string
			if sh := shape(x.Cond, &atoms); sh != "_" && sh != "!_" {
				out = append(out, skelRow{"if " + sh, atoms})
			}
		case *ast.AssignStmt:
			if len(x.Lhs) == 1 && len(x.Rhs) == 1 && isLit(x.Rhs[0]) {
				out = append(out, skelRow{"set", [][3]string{{"_", x.Tok.String(), types.ExprString(x.Rhs[0])}}})
			}
		case *ast.IncDecStmt:
			out = append(out, skelRow{"_" + x.Tok.String(), nil})
		}
		return true
	})
	return out
}

func leanRows(rows []skelRow) string {
	q := make([]string, len(rows))
	for i, r := range rows {
		a := make([]string, len(r.atoms))
		for k, t := range r.atoms {
			a[k] = fmt.Sprintf("(%s, %s, %s)", lq(t[0]), lq(t[1]), lq(t[2]))
		}
		q[i] = fmt.Sprintf("(%s, [%s])", lq(r.text), strings.Join(a, ", "))
	}
	return "[" + strings.Join(q, ", ") + "]"
}

// the `switch algo` of ParsimonyAcr / ParsimonyAsr: (case label, callee, last argument); a clause without call gives
// (label, "", ""), a clause assigning `err` gives (label, "error", "")
func dispatch(fd *ast.FuncDecl) [][3]string {
	var rows [][3]string
	ast.Inspect(fd.Body, func(n ast.Node) bool {
		sw, ok := n.(*ast.SwitchStmt)
		if !ok {
			return true
		}
		if id, ok := sw.Tag.(*ast.Ident); !ok || id.Name != "algo" {
			return true
		}
		for _, st := range sw.Body.List {
			cc := st.(*ast.CaseClause)
			label := "default"
			if cc.List != nil {
				var ls []string
				for _, e := range cc.List {
					ls = append(ls, types.ExprString(e))
				}
				label = strings.Join(ls, ",")
			}
			n0 := len(rows)
			for _, s := range cc.Body {
				switch y := s.(type) {
				case *ast.ExprStmt:
					if call, ok := y.X.(*ast.CallExpr); ok {
						last := ""
						if len(call.Args) > 0 {
							last = types.ExprString(call.Args[len(call.Args)-1])
						}
						rows = append(rows, [3]string{label, types.ExprString(call.Fun), last})
					}
				case *ast.AssignStmt:
					if len(y.Lhs) == 1 && types.ExprString(y.Lhs[0]) == "err" {
						rows = append(rows, [3]string{label, "error", ""})
					}
				}
			}
			if len(rows) == n0 {
				rows = append(rows, [3]string{label, "", ""})
			}
		}
		return false
	})
	return rows
}

// cmd/acr.go, cmd/asr.go: the RunE literal of the command variable and the init function
func cmdFacts(f *ast.File, cmdVar string) (tag string, algos [][2]string, deflt []string, flags [][2]string, calls []string) {
	var run *ast.FuncLit
	for _, d := range f.Decls {
		gd, ok := d.(*ast.GenDecl)
		if !ok || gd.Tok != token.VAR {
			continue
		}
		for _, s := range gd.Specs {
			vs := s.(*ast.ValueSpec)
			if len(vs.Names) != 1 || vs.Names[0].Name != cmdVar || len(vs.Values) != 1 {
				continue
			}
			ast.Inspect(vs.Values[0], func(n ast.Node) bool {
				if kv, ok := n.(*ast.KeyValueExpr); ok {
					if id, ok := kv.Key.(*ast.Ident); ok && id.Name == "RunE" {
						if fl, ok := kv.Value.(*ast.FuncLit); ok {
							run = fl
						}
					}
				}
				return true
			})
		}
	}
	if run != nil {
		ast.Inspect(run.Body, func(n ast.Node) bool {
			switch x := n.(type) {
			case *ast.SwitchStmt:
				if x.Tag == nil || !strings.Contains(types.ExprString(x.Tag), "parsimonyAlgo") {
					return true
				}
				tag = types.ExprString(x.Tag)
				for _, st := range x.Body.List {
					cc := st.(*ast.CaseClause)
					if cc.List == nil {
						// what the default clause does: the statements, one line each
						for _, s := range cc.Body {
							switch y := s.(type) {
							case *ast.ExprStmt:
								if call, ok := y.X.(*ast.CallExpr); ok {
									deflt = append(deflt, "call "+types.ExprString(call.Fun))
								}
							case *ast.AssignStmt:
								deflt = append(deflt, "assign "+types.ExprString(y.Lhs[0]))
							case *ast.ReturnStmt:
								deflt = append(deflt, "return")
							}
						}
						continue
					}
					for _, e := range cc.List {
						for _, s := range cc.Body {
							if as, ok := s.(*ast.AssignStmt); ok && len(as.Lhs) == 1 && types.ExprString(as.Lhs[0]) == "algo" {
								algos = append(algos, [2]string{types.ExprString(e), types.ExprString(as.Rhs[0])})
							}
						}
					}
				}
			case *ast.CallExpr:
				fn := types.ExprString(x.Fun)
				if strings.HasPrefix(fn, "acr.") || strings.HasPrefix(fn, "asr.") {
					var a []string
					for _, y := range x.Args {
						a = append(a, types.ExprString(y))
					}
					calls = append(calls, fn+"("+strings.Join(a, ", ")+")")
				}
			}
			return true
		})
	}
	if in := funcsOf(f)["init"]; in != nil {
		ast.Inspect(in.Body, func(n ast.Node) bool {
			call, ok := n.(*ast.CallExpr)
			if !ok {
				return true
			}
			sel, ok := call.Fun.(*ast.SelectorExpr)
			if !ok || !strings.Contains(sel.Sel.Name, "Var") || len(call.Args) < 4 {
				return true
			}
			// XxxVar(&v, name, default, usage) / XxxVarP(&v, name, short, default, usage)
			name, def := call.Args[1], call.Args[2]
			if strings.HasSuffix(sel.Sel.Name, "P") {
				def = call.Args[3]
			}
			flags = append(flags, [2]string{strings.Trim(types.ExprString(name), "\""), strings.Trim(types.ExprString(def), "\"")})
			return true
		})
	}
	return
}

// the numeric passes; the three output functions (assignStatesToTree, assignSequencesToTree,
// buildInternalNamesToStatesMap) are tied by their exact output instead
var passFuncs = []string{"parsimonyUPPASS", "parsimonyDOWNPASS", "computeParsimony", "parsimonyDELTRAN", "parsimonyACCTRAN",
	"randomlyResolveNodeStates"}

// GenTables writes <out>/C12Sites.lean
func GenTables(repo, out string) error {
	var b strings.Builder
	b.WriteString("-- GENERATED by harness/c12/extract.go (vh gen-tables) from acr/parsimony.go, asr/parsimony.go, cmd/acr.go, cmd/asr.go\n")
	b.WriteString("-- and from the goalign tables linked into the harness; do not edit\n")
	b.WriteString("namespace Gotree.Gen.C12\n\n")
	var consts, disp, start, skel []string
	for _, pkg := range []string{"acr", "asr"} {
		f, err := parseOne(repo, pkg+"/parsimony.go")
		if err != nil {
			return err
		}
		for i, n := range iotaConsts(f) {
			consts = append(consts, fmt.Sprintf("(%s, %s, %d)", lq(pkg), lq(n), i))
		}
		fs := funcsOf(f)
		entry := fs["ParsimonyAcr"]
		if pkg == "asr" {
			entry = fs["ParsimonyAsr"]
		}
		if entry == nil {
			return fmt.Errorf("entry function of %s not found", pkg)
		}
		for _, r := range dispatch(entry) {
			disp = append(disp, fmt.Sprintf("(%s, %s, %s, %s)", lq(pkg), lq(r[0]), lq(r[1]), lq(r[2])))
		}
		start = append(start, fmt.Sprintf("(%s, %s)", lq(pkg), leanRows(skeleton(entry))))
		for _, fn := range passFuncs {
			if fd := fs[fn]; fd != nil {
				skel = append(skel, fmt.Sprintf("(%s, %s, %s)", lq(pkg), lq(fn), leanRows(skeleton(fd))))
			}
		}
	}
	fmt.Fprintf(&b, "/-- (package, constant, value) -/\ndef algoConsts : List (String × String × Nat) := [\n  %s]\n\n", strings.Join(consts, ",\n  "))
	fmt.Fprintf(&b, "/-- `switch algo`: (package, case, function called, its last argument) -/\ndef dispatch : List (String × String × String × String) := [\n  %s]\n\n", strings.Join(disp, ",\n  "))
	fmt.Fprintf(&b, "/-- predicates / constants of ParsimonyAcr, ParsimonyAsr themselves -/\ndef entry : List (String × List (String × List (String × String × String))) := [\n  %s]\n\n", strings.Join(start, ",\n  "))
	fmt.Fprintf(&b, "/-- (package, function, rows in source order); a row = (text, comparisons): `if <boolean structure, # = a comparison>`, `set` (a constant stored: (_, := or =, literal)), `_++` -/\ndef skeleton : List (String × String × List (String × List (String × String × String))) := [\n  %s]\n\n", strings.Join(skel, ",\n  "))
	var tags, algos, deflts, flags, calls []string
	for _, c := range []string{"acr", "asr"} {
		f, err := parseOne(repo, "cmd/"+c+".go")
		if err != nil {
			return err
		}
		tag, al, df, fl, cl := cmdFacts(f, c+"Cmd")
		tags = append(tags, fmt.Sprintf("(%s, %s)", lq(c), lq(tag)))
		for _, r := range al {
			algos = append(algos, fmt.Sprintf("(%s, %s, %s)", lq(c), lq(strings.Trim(r[0], "\"")), lq(r[1])))
		}
		deflts = append(deflts, fmt.Sprintf("(%s, %s)", lq(c), lqs(df)))
		for _, r := range fl {
			flags = append(flags, fmt.Sprintf("(%s, %s, %s)", lq(c), lq(r[0]), lq(r[1])))
		}
		calls = append(calls, fmt.Sprintf("(%s, %s)", lq(c), lqs(cl)))
	}
	fmt.Fprintf(&b, "/-- the expression the `--algo` switch of each command tests -/\ndef cliTag : List (String × String) := [%s]\n\n", strings.Join(tags, ", "))
	fmt.Fprintf(&b, "/-- (command, literal, constant assigned to algo) -/\ndef cliAlgos : List (String × String × String) := [\n  %s]\n\n", strings.Join(algos, ",\n  "))
	fmt.Fprintf(&b, "/-- statements of the default clause of that switch -/\ndef cliDefault : List (String × List String) := [\n  %s]\n\n", strings.Join(deflts, ",\n  "))
	fmt.Fprintf(&b, "/-- (command, flag, default) -/\ndef flagDefaults : List (String × String × String) := [\n  %s]\n\n", strings.Join(flags, ",\n  "))
	fmt.Fprintf(&b, "/-- library calls of each command -/\ndef cliCalls : List (String × List String) := [\n  %s]\n\n", strings.Join(calls, ",\n  "))
	// goalign values, as linked
	var keys []int
	for k := range align.IupacCode {
		keys = append(keys, int(k))
	}
	sort.Ints(keys)
	var iu []string
	for _, k := range keys {
		iu = append(iu, fmt.Sprintf("(%d, %s)", k, nats(align.IupacCode[uint8(k)])))
	}
	fmt.Fprintf(&b, "/-- align.IupacCode (bytes) -/\ndef iupacCode : List (Nat × List Nat) := [\n  %s]\n\n", strings.Join(iu, ",\n  "))
	fmt.Fprintf(&b, "def nucAlphabet : List Nat := %s\n", nats(align.NewAlign(align.NUCLEOTIDS).AlphabetCharacters()))
	fmt.Fprintf(&b, "def aminoAlphabet : List Nat := %s\n", nats(align.NewAlign(align.AMINOACIDS).AlphabetCharacters()))
	fmt.Fprintf(&b, "def allAmino : Nat := %d\n", int(align.ALL_AMINO))
	fmt.Fprintf(&b, "def alphabetCodes : List (String × Nat) := [(\"AMINOACIDS\", %d), (\"NUCLEOTIDS\", %d)]\n", align.AMINOACIDS, align.NUCLEOTIDS)
	b.WriteString("\nend Gotree.Gen.C12\n")
	path := filepath.Join(out, "C12Sites.lean")
	if old, err := os.ReadFile(path); err == nil && string(old) == b.String() {
		return nil // unchanged: keep the time stamp (no rebuild)
	}
	return os.WriteFile(path, []byte(b.String()), 0644)
}
