/-
  C17 — the property theorems about the model of `tree/rearrange.go`
  (`Gotree/Model/C17.lean`, the functions the driver runs against the code).
-/
import Gotree.Model.C17
import Gotree.Spec.C17
import Gotree.Lemmas.C17
import Gotree.Lemmas.C17Count
import Gotree.Lemmas.C17Sim
import Gotree.Lemmas.C17Split
import Gotree.Lemmas.C17Twin
import Gotree.Lemmas.C17ApartLocal
import Gotree.Lemmas.C17OneSplit
import Gotree.Lemmas.C17TwinApart
import Gotree.Lemmas.C17Distinct
import Gotree.Lemmas.C17Aux
import Gotree.Lemmas.C17Nodup
import Gotree.Lemmas.C17CountSplits
import Gotree.Lemmas.C17NoSingle
import Gotree.Lemmas.C17HeapT
import Gotree.Model.C17Cli
import Gotree.Model.C17Global
import Gotree.Model.C17Code
import Gotree.Lemmas.C17Global

namespace Gotree.C17
open Gotree

/-- ★ `Undo` after `Apply` restores the tree exactly (equality of `T`: shape, child order,
    parent positions, names, comments, every branch datum — hence identical text), for every
    rearrangement `Rearrange` proposes, on every tree (binary or not, rooted or not, any
    root position) whose parent positions are positions (true of every α image). -/
theorem undo_apply (t : T) (r : NNI) (hpos : pposOK t = true) (h : r ∈ rearrangements t) :
    ∃ t', apply t r = some t' ∧ undo t' r = some t := by
  obtain ⟨S, hs, S', ha, hu⟩ := rearrangements_generic
    (fun S r => ∃ S', applyLocal r.path.isEmpty r S = some S' ∧ undoLocal r.path.isEmpty r S' = some S)
    (by
      intro path isRoot d1 p1 k1 j e d2 p2 u v cross site
      have hr : (newNNI path isRoot p1 j p2 cross).path.isEmpty = isRoot := by
        simp [newNNI, site.root]
      rw [hr]
      exact local_undo_apply d1 cross site)
    t hpos r h
  exact modAt_roundtrip _ _ r.path t S S' hs ha hu

/-- Applying a proposed rearrangement gives a tree on the same tips (`Tree.Tips()` names,
    the root included when it is a tip), each as often as before. -/
theorem apply_tips (t t' : T) (r : NNI) (hpos : pposOK t = true) (h : r ∈ rearrangements t)
    (ha : apply t r = some t') : t'.tipNames.Perm t.tipNames := by
  have hk := apply_RK t t' r hpos h ha
  have hn := hk.nkids
  unfold T.tipNames
  rw [hn]
  by_cases h1 : t.kids.length = 1
  · have hd := hk.data (by omega)
    simp only [h1, beq_self_eq_true, if_true, T.name, hd]
    exact List.Perm.append_left _ hk.leaves
  · have : (t.kids.length == 1) = false := by simpa using h1
    simp only [this, Bool.false_eq_true, if_false, List.nil_append]
    exact hk.leaves

/-- Applying a proposed rearrangement gives a well-formed tree of the same kind: binary if `t`
    is, rooted iff `t` is, parent positions still positions, unique tip names if `t` has
    (that the heap is oriented away from the root is part of `apply t r = some t'`). -/
theorem apply_wf (t t' : T) (r : NNI) (hpos : pposOK t = true) (h : r ∈ rearrangements t)
    (ha : apply t r = some t') :
    (t.binary = true → t'.binary = true) ∧ t'.rooted = t.rooted ∧ pposOK t' = true ∧
    (t.tipNames.Nodup → t'.tipNames.Nodup) := by
  have hk := apply_RK t t' r hpos h ha
  have hn := hk.nkids
  refine ⟨?_, ?_, ?_, ?_⟩
  · intro hb
    simp only [T.binary, Bool.and_eq_true] at hb ⊢
    exact ⟨by rw [hn]; exact hb.1, hk.bin hb.2⟩
  · simp only [T.rooted, hn]
  · exact hk.ppos hpos
  · intro hnd
    exact (apply_tips t t' r hpos h ha).nodup_iff.mpr hnd

/-- what C03's history invariant needs: an NNI relates the tree before and after by `RN`
    (same number of children at the root; no single-child node afterwards if none before) -/
theorem apply_RN (t t' : T) (r : NNI) (hpos : pposOK t = true) (h : r ∈ rearrangements t)
    (ha : apply t r = some t') : RN t t' := by
  obtain ⟨S, hs, hP⟩ := rearrangements_generic
    (fun S r => ∀ S', applyLocal r.path.isEmpty r S = some S' → RN S S')
    (by
      intro path isRoot d1 p1 k1 j e d2 p2 u v cross site
      have hr : (newNNI path isRoot p1 j p2 cross).path.isEmpty = isRoot := by
        simp [newNNI, site.root]
      rw [hr]
      exact local_RN d1 cross site)
    t hpos r h
  exact RN.lift _ r.path t t' S hs ha hP

/-- Applying a proposed rearrangement to ANY tree (binary or not) creates no single-child inner
    node: `noSingleL t.kids → noSingleL t'.kids`, i.e. `T.noSingle` is kept. -/
theorem apply_noSingle (t t' : T) (r : NNI) (hpos : pposOK t = true) (h : r ∈ rearrangements t)
    (ha : apply t r = some t') (hn : noSingleL t.kids = true) : noSingleL t'.kids = true :=
  (apply_RN t t' r hpos h ha).ns hn

theorem apply_noSingle_tree (t t' : T) (r : NNI) (hpos : pposOK t = true) (h : r ∈ rearrangements t)
    (ha : apply t r = some t') (hn : t.noSingle = true) : t'.noSingle = true :=
  apply_noSingle t t' r hpos h ha hn

/-- The same fact on the split list itself (`T.splits`: one entry per branch with the tips below
    it and its data), branch data included — what the canonical split set forgets: one inner
    branch `c` of `t` and one inner branch `c'` of `t'` carry the same data and define different
    splits of the tips (`DifferentSplit`: neither the same side nor complementary sides); all the
    other branches correspond one to one with the same data and the same tips below. -/
theorem apply_one_branch_apart (t t' : T) (r : NNI) (hpos : pposOK t = true) (hu : t.tipNames.Nodup)
    (h : r ∈ rearrangements t) (ha : apply t r = some t') :
    Spec.OneBranchApart t.splits t'.splits := by
  obtain ⟨S, hs, hne, hP⟩ := rearrangements_generic
    (fun S r => S.kids ≠ [] ∧ ((leavesL S.kids).Nodup →
      ∀ S', applyLocal r.path.isEmpty r S = some S' →
        RK S S' ∧ Apart (leavesL S.kids) (lowerLeaves S.kids (lowIdx r S)) r.path.isEmpty (splitsL S.kids) (splitsL S'.kids)))
    (by
      intro path isRoot d1 p1 k1 j e d2 p2 u v cross site
      have hr : (newNNI path isRoot p1 j p2 cross).path.isEmpty = isRoot := by
        simp [newNNI, site.root]
      rw [hr, lowIdx_newNNI path isRoot site.root]
      refine ⟨?_, fun hnd S' hS' => ⟨local_RK d1 cross site S' hS', local_apart d1 cross site hnd S' hS'⟩⟩
      have := site.deg
      intro h0
      simp only [T.kids_node] at h0
      subst h0
      cases isRoot <;> simp at this)
    t hpos r h
  have hsub := sub_leaves_sublist r.path t S hs hne
  have hnd : (leavesL t.kids).Nodup := by
    unfold T.tipNames at hu
    exact (List.nodup_append.mp hu).2.1
  obtain ⟨_, hA, _⟩ := apart_lift (leavesL S.kids) _ r.path.isEmpty _ r.path t t' S hs ha hnd
    (hP (hnd.sublist hsub)) (fun x hx => hx)
  exact hA.oneBranchApart

/-- The split sets before and after, with the split that goes away named: it is the split of
    the central branch (the tips below its lower end), a non-trivial split of `t` that `t'` lacks. -/
theorem apply_split_sets (t t' : T) (r : NNI) (hb : t.binary = true) (hpos : pposOK t = true)
    (hu : t.tipNames.Nodup) (h : r ∈ rearrangements t) (ha : apply t r = some t') :
    ∃ S, subAt r.path t = some S ∧
      Spec.oneSplitApart t.usplitSet t'.usplitSet = true ∧
      canonSide t.tipNames (lowerLeaves S.kids (lowIdx r S)) ∈ t.usplitSet ∧
      canonSide t.tipNames (lowerLeaves S.kids (lowIdx r S)) ∉ t'.usplitSet := by
  obtain ⟨S, hs, hne, hP⟩ := rearrangements_generic
    (fun S r => S.kids ≠ [] ∧ ((leavesL S.kids).Nodup →
      ∀ S', applyLocal r.path.isEmpty r S = some S' →
        RK S S' ∧ Apart (leavesL S.kids) (lowerLeaves S.kids (lowIdx r S)) r.path.isEmpty (splitsL S.kids) (splitsL S'.kids)))
    (by
      intro path isRoot d1 p1 k1 j e d2 p2 u v cross site
      have hr : (newNNI path isRoot p1 j p2 cross).path.isEmpty = isRoot := by
        simp [newNNI, site.root]
      rw [hr, lowIdx_newNNI path isRoot site.root]
      refine ⟨?_, fun hnd S' hS' => ⟨local_RK d1 cross site S' hS', local_apart d1 cross site hnd S' hS'⟩⟩
      have := site.deg
      intro h0
      simp only [T.kids_node] at h0
      subst h0
      cases isRoot <;> simp at this)
    t hpos r h
  have hsub := sub_leaves_sublist r.path t S hs hne
  have hnd : (leavesL t.kids).Nodup := by
    unfold T.tipNames at hu
    exact (List.nodup_append.mp hu).2.1
  obtain ⟨_, hA, hZ⟩ := apart_lift (leavesL S.kids) _ r.path.isEmpty _ r.path t t' S hs ha hnd
    (hP (hnd.sublist hsub)) (fun x hx => hx)
  refine ⟨S, hs, oneSplitApart_of_apart t t' (leavesL S.kids) _ r.path.isEmpty (apply_tips t t' r hpos h ha) hu hA hZ ?_⟩
  intro hroot
  have hq : r.path ≠ [] := by
    intro h0
    rw [h0] at hroot
    simp at hroot
  have hk : 2 ≤ t.kids.length := by
    simp only [T.binary, Bool.and_eq_true, Bool.or_eq_true, beq_iff_eq] at hb
    rcases hb.1 with h2 | h3 <;> omega
  obtain ⟨z, hz1, hz2⟩ := outside_nonempty t S r.path hq hs hne hk hnd
  exact ⟨z, leavesL_sub_tipNames t z hz1, hz2⟩

/-- ★ Minimality, in the canonical presentation of `Spec/Splits.lean` (the form the driver
    evaluates on the implementation's neighbours): applying a proposed rearrangement to a binary
    tree with unique tip names gives a tree whose set of non-trivial splits differs from the
    original's by exactly one split each way: `|S' \ S| = 1 = |S \ S'|`. -/
theorem apply_one_split (t t' : T) (r : NNI) (hb : t.binary = true) (hpos : pposOK t = true)
    (hu : t.tipNames.Nodup) (h : r ∈ rearrangements t) (ha : apply t r = some t') :
    Spec.oneSplitApart t.usplitSet t'.usplitSet = true := by
  obtain ⟨_, _, h1, _⟩ := apply_split_sets t t' r hb hpos hu h ha
  exact h1

/-- The two neighbours proposed for one branch (`cross = false`, `cross = true`) are, in the
    canonical presentation, exactly one split apart from each other — hence different. -/
theorem twin_one_split (t t₁ t₂ : T) (r : NNI) (hb : t.binary = true) (hpos : pposOK t = true)
    (hu : t.tipNames.Nodup) (h : r ∈ rearrangements t) (h₁ : apply t { r with cross := false } = some t₁)
    (h₂ : apply t { r with cross := true } = some t₂) :
    Spec.oneSplitApart t₁.usplitSet t₂.usplitSet = true := by
  obtain ⟨S, hs, hne, hP⟩ := rearrangements_generic
    (fun S r => S.kids ≠ [] ∧ ((leavesL S.kids).Nodup →
      ∀ S1 S2, applyLocal r.path.isEmpty { r with cross := false } S = some S1 →
        applyLocal r.path.isEmpty { r with cross := true } S = some S2 →
        RK S S1 ∧ RK S S2 ∧ ∃ cb, Apart (leavesL S.kids) cb r.path.isEmpty (splitsL S1.kids) (splitsL S2.kids)))
    (by
      intro path isRoot d1 p1 k1 j e d2 p2 u v cross site
      have hr : (newNNI path isRoot p1 j p2 cross).path.isEmpty = isRoot := by
        simp [newNNI, site.root]
      rw [hr]
      have hf : { newNNI path isRoot p1 j p2 cross with cross := false } = newNNI path isRoot p1 j p2 false := rfl
      have ht : { newNNI path isRoot p1 j p2 cross with cross := true } = newNNI path isRoot p1 j p2 true := rfl
      rw [hf, ht]
      refine ⟨?_, fun hnd S1 S2 hS1 hS2 =>
        ⟨local_RK d1 false site S1 hS1, local_RK d1 true site S2 hS2, local_twin_apart d1 site hnd S1 S2 hS1 hS2⟩⟩
      have := site.deg
      intro h0
      simp only [T.kids_node] at h0
      subst h0
      cases isRoot <;> simp at this)
    t hpos r h
  have hsub := sub_leaves_sublist r.path t S hs hne
  have hnd : (leavesL t.kids).Nodup := by
    unfold T.tipNames at hu
    exact (List.nodup_append.mp hu).2.1
  have hloc := hP (hnd.sublist hsub)
  -- both neighbours against the original
  have hk1 : RK t t₁ := RK.lift _ r.path t t₁ S hs h₁ (fun S1 hS1 => by
    cases hS2 : applyLocal r.path.isEmpty { r with cross := true } S with
    | none =>
      exfalso
      have : ∀ (q : List Nat) (u : T) (S : T), subAt q u = some S → applyLocal r.path.isEmpty { r with cross := true } S = none →
          modAt q (applyLocal r.path.isEmpty { r with cross := true }) u = none := by
        intro q
        induction q with
        | nil => intro u S hs hn; simp only [subAt, Option.some.injEq] at hs; subst hs; simpa [modAt] using hn
        | cons i q ih =>
          intro u S hs hn
          obtain ⟨d, pp, k⟩ := u
          simp only [subAt] at hs
          cases hki : k[i]? with
          | none => simp [modAt, hki]
          | some ec =>
            obtain ⟨e, c⟩ := ec
            simp only [hki] at hs
            simp [modAt, hki, ih c S hs hn]
      have h0 := this r.path t S hs hS2
      rw [show modAt r.path (applyLocal r.path.isEmpty { r with cross := true }) t = apply t { r with cross := true } from rfl, h₂] at h0
      cases h0
    | some S2 => exact (hloc S1 S2 hS1 hS2).1)
  have hnd1 : (leavesL t₁.kids).Nodup := hk1.leaves.nodup_iff.mpr hnd
  obtain ⟨hl, hZ, cb, hA⟩ := apart_lift2 (leavesL S.kids) r.path.isEmpty _ _ r.path t t₁ t₂ S hs h₁ h₂ hnd1
    (fun S1 S2 hS1 hS2 => by
      obtain ⟨k1, k2, hA⟩ := hloc S1 S2 hS1 hS2
      exact ⟨RL.of_RK k1 k2, fun x hx => k1.leaves.mem_iff.mpr hx, hA⟩)
  have hall1 : t₁.tipNames.Perm t.tipNames := hk1.tipNames_perm
  have hall : t₂.tipNames.Perm t₁.tipNames := by
    have hn := hl.nkids
    unfold T.tipNames
    rw [hn]
    by_cases h1 : t₁.kids.length = 1
    · have hd := hl.data (by omega)
      simp only [h1, beq_self_eq_true, if_true, T.name, hd]
      exact List.Perm.append_left _ hl.leaves
    · have : (t₁.kids.length == 1) = false := by simpa using h1
      simp only [this, Bool.false_eq_true, if_false, List.nil_append]
      exact hl.leaves
  refine (oneSplitApart_of_apart t₁ t₂ (leavesL S.kids) cb r.path.isEmpty hall (hall1.nodup_iff.mpr hu) hA hZ ?_).1
  intro hroot
  have hq : r.path ≠ [] := by
    intro h0
    rw [h0] at hroot
    simp at hroot
  have hk : 2 ≤ t.kids.length := by
    simp only [T.binary, Bool.and_eq_true, Bool.or_eq_true, beq_iff_eq] at hb
    rcases hb.1 with h2 | h3 <;> omega
  obtain ⟨z, hz1, hz2⟩ := outside_nonempty t S r.path hq hs hne hk hnd
  exact ⟨z, leavesL_sub_tipNames t₁ z (hk1.leaves.mem_iff.mpr hz1), hz2⟩

/-- where a proposed rearrangement sits: the lower end of its central branch is child number
    `lowIdx r S` of the node `S` at `r.path`, both ends have three neighbours, and the
    rearrangement is determined by that place and `cross` -/
theorem rearrangement_site (t : T) (r : NNI) (hpos : pposOK t = true) (h : r ∈ rearrangements t) :
    ∃ S e c cross, subAt r.path t = some S ∧ S.kids[lowIdx r S]? = some (e, c) ∧ c.kids.length = 2 ∧
      (if r.path = [] then S.kids.length = 3 else S.kids.length = 2) ∧
      r = newNNI r.path r.path.isEmpty S.ppos (lowIdx r S) c.ppos cross := by
  obtain ⟨S, hs, hP⟩ := rearrangements_generic
    (fun S r => ∃ e c cross, S.kids[lowIdx r S]? = some (e, c) ∧ c.kids.length = 2 ∧
      (if r.path = [] then S.kids.length = 3 else S.kids.length = 2) ∧
      r = newNNI r.path r.path.isEmpty S.ppos (lowIdx r S) c.ppos cross)
    (by
      intro path isRoot d1 p1 k1 j e d2 p2 u v cross site
      rw [lowIdx_newNNI path isRoot site.root]
      refine ⟨e, .node d2 p2 [u, v], cross, site.kid, rfl, ?_, ?_⟩
      · have hd := site.deg
        have hr := site.root
        simp only [newNNI, T.kids_node]
        cases path with
        | nil => simp at hr; subst hr; simpa using hd
        | cons a p => simp at hr; subst hr; simp at hd ⊢; exact hd.1
      · have hr := site.root
        subst hr
        rfl)
    t hpos r h
  obtain ⟨e, c, cross, h1, h2, h3, h4⟩ := hP
  exact ⟨S, e, c, cross, hs, h1, h2, h3, h4⟩

/-- ★ All proposed neighbours are pairwise distinct, as sets of splits (the canonical
    presentation the driver compares): two different rearrangements proposed for a binary tree
    with unique tip names give trees one of which has a non-trivial split the other lacks. -/
theorem neighbours_distinct (t t₁ t₂ : T) (r₁ r₂ : NNI) (hb : t.binary = true) (hpos : pposOK t = true)
    (hu : t.tipNames.Nodup) (h₁ : r₁ ∈ rearrangements t) (h₂ : r₂ ∈ rearrangements t) (hne : r₁ ≠ r₂)
    (ha₁ : apply t r₁ = some t₁) (ha₂ : apply t r₂ = some t₂) :
    ∃ a, a ∈ t₁.usplitSet ∧ a ∉ t₂.usplitSet := by
  obtain ⟨S1, e1, c1, x1, hs1, hj1, hk1, hd1, hr1⟩ := rearrangement_site t r₁ hpos h₁
  obtain ⟨S2, e2, c2, x2, hs2, hj2, hk2, hd2, hr2⟩ := rearrangement_site t r₂ hpos h₂
  by_cases hsame : r₁.path = r₂.path ∧ lowIdx r₁ S1 = lowIdx r₂ S2
  · -- the two rearrangements of one branch
    obtain ⟨hp, hl⟩ := hsame
    rw [hp, hs2] at hs1
    simp only [Option.some.injEq] at hs1
    subst hs1
    rw [hl, hj2] at hj1
    simp only [Option.some.injEq, Prod.mk.injEq] at hj1
    obtain ⟨_, rfl⟩ := hj1
    rw [hp, hl] at hr1
    obtain ⟨p, ie, pp, j, q, hN1, hN2⟩ : ∃ p ie pp j q, r₁ = newNNI p ie pp j q x1 ∧ r₂ = newNNI p ie pp j q x2 :=
      ⟨_, _, _, _, _, hr1, hr2⟩
    have hx : x1 ≠ x2 := by
      intro hx
      apply hne
      rw [hN1, hN2, hx]
    cases hx1 : x1 with
    | false =>
      have hx2 : x2 = true := by
        cases h2 : x2 with
        | true => rfl
        | false => exact absurd (hx1.trans h2.symm) hx
      have e1' : { r₁ with cross := false } = r₁ := by rw [hN1, hx1]; rfl
      have e2' : { r₁ with cross := true } = r₂ := by rw [hN1, hN2, hx2]; rfl
      have := twin_one_split t t₁ t₂ r₁ hb hpos hu h₁ (by rw [e1']; exact ha₁) (by rw [e2']; exact ha₂)
      simp only [Spec.oneSplitApart, Bool.and_eq_true, beq_iff_eq] at this
      exact mem_of_diffCount_one this.2
    | true =>
      have hx2 : x2 = false := by
        cases h2 : x2 with
        | false => rfl
        | true => exact absurd (hx1.trans h2.symm) hx
      have e1' : { r₂ with cross := false } = r₂ := by rw [hN2, hx2]; rfl
      have e2' : { r₂ with cross := true } = r₁ := by rw [hN1, hN2, hx1]; rfl
      have := twin_one_split t t₂ t₁ r₂ hb hpos hu h₂ (by rw [e1']; exact ha₂) (by rw [e2']; exact ha₁)
      simp only [Spec.oneSplitApart, Bool.and_eq_true, beq_iff_eq] at this
      exact mem_of_diffCount_one this.1
  · -- two different branches: the split removed by `r₂` is still there after `r₁`
    have hk : 2 ≤ t.kids.length := by
      simp only [T.binary, Bool.and_eq_true, Bool.or_eq_true, beq_iff_eq] at hb
      rcases hb.1 with h2 | h3 <;> omega
    have hlow := low_ne t hu hk r₁.path r₂.path (lowIdx r₁ S1) (lowIdx r₂ S2) c1 c2
      ⟨S1, e1, hs1, hj1, hk1, hd1⟩ ⟨S2, e2, hs2, hj2, hk2, hd2⟩ hsame
    obtain ⟨S1', hs1', ho1, hin1, hout1⟩ := apply_split_sets t t₁ r₁ hb hpos hu h₁ ha₁
    obtain ⟨S2', hs2', ho2, hin2, hout2⟩ := apply_split_sets t t₂ r₂ hb hpos hu h₂ ha₂
    rw [hs1] at hs1'
    rw [hs2] at hs2'
    simp only [Option.some.injEq] at hs1' hs2'
    subst hs1'
    subst hs2'
    have hl1 : lowerLeaves S1.kids (lowIdx r₁ S1) = leavesL c1.kids := by simp [lowerLeaves, hj1]
    have hl2 : lowerLeaves S2.kids (lowIdx r₂ S2) = leavesL c2.kids := by simp [lowerLeaves, hj2]
    rw [hl1] at hin1 hout1
    rw [hl2] at hin2 hout2
    refine ⟨canonSide t.tipNames (leavesL c2.kids), ?_, ?_⟩
    · -- it is a split of `t` other than the one `r₁` removes
      apply Classical.byContradiction
      intro hnot
      simp only [Spec.oneSplitApart, Bool.and_eq_true, beq_iff_eq] at ho1
      exact hlow (eq_of_diffCount_one ho1.2 hin1 hout1 hin2 hnot)
    · -- `t₂` lacks it: careful, `t₂`'s own taxa list is a permutation of `t`'s
      exact hout2

/-- `Rearrange` never proposes the same rearrangement twice (any tree). -/
theorem proposals_nodup (t : T) : (rearrangements t).Nodup := rearrangements_nodup t

/-- … so the neighbours at two different positions of the enumeration are different trees:
    pairwise, in enumeration order. -/
theorem neighbours_pairwise_distinct (t : T) (hb : t.binary = true) (hpos : pposOK t = true) (hu : t.tipNames.Nodup) :
    (rearrangements t).Pairwise (fun r₁ r₂ => ∀ t₁ t₂, apply t r₁ = some t₁ → apply t r₂ = some t₂ →
      ∃ a, a ∈ t₁.usplitSet ∧ a ∉ t₂.usplitSet) := by
  have hn := rearrangements_nodup t
  rw [List.pairwise_iff_forall_sublist]
  intro r₁ r₂ hsub t₁ t₂ h₁ h₂
  have hm₁ : r₁ ∈ rearrangements t := hsub.subset (by simp)
  have hm₂ : r₂ ∈ rearrangements t := hsub.subset (by simp)
  have hne : r₁ ≠ r₂ := by
    intro h
    subst h
    have := hn.sublist hsub
    simp at this
  exact neighbours_distinct t t₁ t₂ r₁ r₂ hb hpos hu hm₁ hm₂ hne h₁ h₂

/-- … hence the two lists of splits are different lists. -/
theorem neighbours_distinct_ne (t t₁ t₂ : T) (r₁ r₂ : NNI) (hb : t.binary = true) (hpos : pposOK t = true)
    (hu : t.tipNames.Nodup) (h₁ : r₁ ∈ rearrangements t) (h₂ : r₂ ∈ rearrangements t) (hne : r₁ ≠ r₂)
    (ha₁ : apply t r₁ = some t₁) (ha₂ : apply t r₂ = some t₂) : t₁.usplitSet ≠ t₂.usplitSet := by
  obtain ⟨a, h1, h2⟩ := neighbours_distinct t t₁ t₂ r₁ r₂ hb hpos hu h₁ h₂ hne ha₁ ha₂
  intro h
  exact h2 (h ▸ h1)

/-- The two rearrangements proposed for one branch (`cross = false`, `cross = true`) give trees
    that are one branch apart, hence different. -/
theorem twin_one_branch_apart (t t₁ t₂ : T) (r : NNI) (hpos : pposOK t = true) (hu : t.tipNames.Nodup)
    (h : r ∈ rearrangements t) (h₁ : apply t { r with cross := false } = some t₁)
    (h₂ : apply t { r with cross := true } = some t₂) :
    Spec.OneBranchApart t₁.splits t₂.splits := by
  obtain ⟨S, hs, hne, hP⟩ := rearrangements_generic
    (fun S r => S.kids ≠ [] ∧ ((leavesL S.kids).Nodup →
      ∀ S1 S2, applyLocal r.path.isEmpty { r with cross := false } S = some S1 →
        applyLocal r.path.isEmpty { r with cross := true } S = some S2 →
        RK S S1 ∧ RK S S2 ∧ ∃ cb, Apart (leavesL S.kids) cb r.path.isEmpty (splitsL S1.kids) (splitsL S2.kids)))
    (by
      intro path isRoot d1 p1 k1 j e d2 p2 u v cross site
      have hr : (newNNI path isRoot p1 j p2 cross).path.isEmpty = isRoot := by
        simp [newNNI, site.root]
      rw [hr]
      have hf : { newNNI path isRoot p1 j p2 cross with cross := false } = newNNI path isRoot p1 j p2 false := rfl
      have ht : { newNNI path isRoot p1 j p2 cross with cross := true } = newNNI path isRoot p1 j p2 true := rfl
      rw [hf, ht]
      refine ⟨?_, fun hnd S1 S2 hS1 hS2 =>
        ⟨local_RK d1 false site S1 hS1, local_RK d1 true site S2 hS2, local_twin_apart d1 site hnd S1 S2 hS1 hS2⟩⟩
      have := site.deg
      intro h0
      simp only [T.kids_node] at h0
      subst h0
      cases isRoot <;> simp at this)
    t hpos r h
  have hsub := sub_leaves_sublist r.path t S hs hne
  have hnd : (leavesL t.kids).Nodup := by
    unfold T.tipNames at hu
    exact (List.nodup_append.mp hu).2.1
  have hloc := hP (hnd.sublist hsub)
  -- the first neighbour has the same leaves as `t`
  have hk1 : RK t t₁ := RK.lift _ r.path t t₁ S hs h₁ (fun S1 hS1 => by
    cases hS2 : applyLocal r.path.isEmpty { r with cross := true } S with
    | none =>
      exfalso
      have : ∀ (q : List Nat) (u : T) (S : T), subAt q u = some S → applyLocal r.path.isEmpty { r with cross := true } S = none →
          modAt q (applyLocal r.path.isEmpty { r with cross := true }) u = none := by
        intro q
        induction q with
        | nil => intro u S hs hn; simp only [subAt, Option.some.injEq] at hs; subst hs; simpa [modAt] using hn
        | cons i q ih =>
          intro u S hs hn
          obtain ⟨d, pp, k⟩ := u
          simp only [subAt] at hs
          cases hki : k[i]? with
          | none => simp [modAt, hki]
          | some ec =>
            obtain ⟨e, c⟩ := ec
            simp only [hki] at hs
            simp [modAt, hki, ih c S hs hn]
      have h0 := this r.path t S hs hS2
      rw [show modAt r.path (applyLocal r.path.isEmpty { r with cross := true }) t = apply t { r with cross := true } from rfl, h₂] at h0
      cases h0
    | some S2 => exact (hloc S1 S2 hS1 hS2).1)
  have hnd1 : (leavesL t₁.kids).Nodup := hk1.leaves.nodup_iff.mpr hnd
  obtain ⟨_, _, cb, hA⟩ := apart_lift2 (leavesL S.kids) r.path.isEmpty _ _ r.path t t₁ t₂ S hs h₁ h₂ hnd1
    (fun S1 S2 hS1 hS2 => by
      obtain ⟨k1, k2, hA⟩ := hloc S1 S2 hS1 hS2
      exact ⟨RL.of_RK k1 k2, fun x hx => k1.leaves.mem_iff.mpr hx, hA⟩)
  exact hA.oneBranchApart

/-- The loop of `cmd/nni.go` (apply, look, undo, next — in enumeration order) leaves the tree
    unchanged and sees exactly the neighbours `apply t r`. -/
theorem enumerate_unchanged (t : T) (hpos : pposOK t = true) :
    enumerate t = some ((rearrangements t).filterMap (apply t), t) := by
  have key : ∀ (l : List NNI) (seen : List T), (∀ r ∈ l, r ∈ rearrangements t) →
      l.foldl enumStep (some (seen, t))
      = some (seen ++ l.filterMap (apply t), t) := by
    intro l
    induction l with
    | nil => intro seen _; simp
    | cons r l ih =>
      intro seen hl
      obtain ⟨t', ha, hu⟩ := undo_apply t r hpos (hl r (by simp))
      simp only [List.foldl_cons, enumStep, ha, hu, List.filterMap_cons]
      rw [ih (seen ++ [t']) (fun r' hr' => hl r' (by simp [hr']))]
      simp
  simpa [enumerate] using key (rearrangements t) [] (fun _ h => h)

/-- On ANY tree: exactly two rearrangements per branch whose two ends both have three
    neighbours (`Nneigh() == 3`), no other. -/
theorem count (t : T) : (rearrangements t).length = 2 * Spec.deg3Branches t := by
  obtain ⟨d, p, k⟩ := t
  rw [rearrangements, enumT, Spec.deg3Branches, Spec.branchEnds]
  simp only [if_true, T.kids_node]
  exact enumL_length_general true [] p k.length k 0 (fun et _ pre' => enumT_length_general et.2 pre')

/-- Completeness for unrooted binary trees: exactly two rearrangements per inner branch
    (`internalEdges` = the branches whose lower end is not a tip). -/
theorem count_unrooted (t : T) (hb : t.binary = true) (hu : t.kids.length = 3) :
    (rearrangements t).length = 2 * t.internalEdges.length := by
  obtain ⟨d, p, k⟩ := t
  simp only [T.binary, Bool.and_eq_true, T.kids_node] at hb hu
  rw [internalEdges_length, rearrangements, enumT]
  simp only [if_true, T.kids_node, hu, beq_self_eq_true]
  exact enumL_length_par3 true [] p k 0 hb.2 (fun et _ pre' hbe => enumT_length_below et.2 pre' hbe)

/-- the split that a proposed rearrangement removes (canonical side of the tips below the lower
    end of its central branch) -/
def oldSide (t : T) (r : NNI) : List String :=
  match subAt r.path t with
  | some S => canonSide t.tipNames (lowerLeaves S.kids (lowIdx r S))
  | none => []

/-- the splits removed by the proposals with `cross = false` (one per branch with both ends of
    degree three) are pairwise different … -/
theorem oldSides_nodup (t : T) (hb : t.binary = true) (hpos : pposOK t = true) (hu : t.tipNames.Nodup) :
    (((rearrangements t).filter fun r => !r.cross).map (oldSide t)).Nodup := by
  have hk : 2 ≤ t.kids.length := by
    simp only [T.binary, Bool.and_eq_true, Bool.or_eq_true, beq_iff_eq] at hb
    rcases hb.1 with h2 | h3 <;> omega
  -- different proposals with `cross = false` sit on different branches
  rw [List.nodup_iff_pairwise_ne, List.pairwise_map]
  have hn : ((rearrangements t).filter fun r => !r.cross).Nodup := (rearrangements_nodup t).sublist List.filter_sublist
  rw [List.nodup_iff_pairwise_ne] at hn
  rw [List.pairwise_iff_forall_sublist] at hn ⊢
  intro r₁ r₂ hsub
  have hne := hn hsub
  have hm₁ := List.mem_filter.mp (hsub.subset (show r₁ ∈ [r₁, r₂] by simp))
  have hm₂ := List.mem_filter.mp (hsub.subset (show r₂ ∈ [r₁, r₂] by simp))
  obtain ⟨S1, e1, c1, x1, hs1, hj1, hk1, hd1, hr1⟩ := rearrangement_site t r₁ hpos hm₁.1
  obtain ⟨S2, e2, c2, x2, hs2, hj2, hk2, hd2, hr2⟩ := rearrangement_site t r₂ hpos hm₂.1
  have hdiff : ¬(r₁.path = r₂.path ∧ lowIdx r₁ S1 = lowIdx r₂ S2) := by
    rintro ⟨hp, hl⟩
    apply hne
    have hs1' := hs1
    rw [hp, hs2] at hs1'
    simp only [Option.some.injEq] at hs1'
    subst hs1'
    have hj1' := hj1
    rw [hl, hj2] at hj1'
    simp only [Option.some.injEq, Prod.mk.injEq] at hj1'
    obtain ⟨_, rfl⟩ := hj1'
    rw [hp, hl] at hr1
    obtain ⟨p, ie, pp, j, q, hN1, hN2⟩ : ∃ p ie pp j q, r₁ = newNNI p ie pp j q x1 ∧ r₂ = newNNI p ie pp j q x2 :=
      ⟨_, _, _, _, _, hr1, hr2⟩
    have hc1 : x1 = false := by
      have : r₁.cross = x1 := by rw [hN1]; rfl
      have h := hm₁.2
      rw [this] at h
      simpa using h
    have hc2 : x2 = false := by
      have : r₂.cross = x2 := by rw [hN2]; rfl
      have h := hm₂.2
      rw [this] at h
      simpa using h
    rw [hN1, hN2, hc1, hc2]
  have hlow := low_ne t hu hk r₁.path r₂.path (lowIdx r₁ S1) (lowIdx r₂ S2) c1 c2
    ⟨S1, e1, hs1, hj1, hk1, hd1⟩ ⟨S2, e2, hs2, hj2, hk2, hd2⟩ hdiff
  simp only [oldSide, hs1, hs2, lowerLeaves, hj1, hj2]
  exact hlow

/-- … and are non-trivial splits of `t` -/
theorem oldSides_subset (t : T) (hb : t.binary = true) (hpos : pposOK t = true) (hu : t.tipNames.Nodup) :
    ∀ a ∈ ((rearrangements t).filter fun r => !r.cross).map (oldSide t), a ∈ t.usplitSet := by
  -- each of them removes a non-trivial split of `t`
  intro a ha
  obtain ⟨r, hr, rfl⟩ := List.mem_map.mp ha
  have hm := (List.mem_filter.mp hr).1
  obtain ⟨t', hat, _⟩ := undo_apply t r hpos hm
  obtain ⟨S, hs, _, hin, _⟩ := apply_split_sets t t' r hb hpos hu hm hat
  simp only [oldSide, hs]
  exact hin

/-- hence there are at least as many non-trivial splits as such branches -/
theorem proposals_le_splits (t : T) (hb : t.binary = true) (hpos : pposOK t = true) (hu : t.tipNames.Nodup) :
    ((rearrangements t).filter fun r => !r.cross).length ≤ t.usplitSet.length := by
  rw [← List.length_map (f := oldSide t)]
  exact List.Nodup.length_le_of_subset (oldSides_nodup t hb hpos hu) (oldSides_subset t hb hpos hu)

/-- An unrooted binary tree with unique tip names has exactly as many non-trivial splits as
    branches whose lower end is not a tip … -/
theorem usplitSet_length_unrooted (t : T) (hb : t.binary = true) (h3 : t.kids.length = 3) (hpos : pposOK t = true)
    (hu : t.tipNames.Nodup) : t.usplitSet.length = t.internalEdges.length := by
  apply Nat.le_antisymm (usplitSet_length_le t hu)
  have hhalf : 2 * ((rearrangements t).filter fun r => !r.cross).length = (rearrangements t).length :=
    enumT_filter_cross t true []
  have hcount := count_unrooted t hb h3
  have := proposals_le_splits t hb hpos hu
  omega

/-- … hence completeness in terms of the Spec's own notion of inner branch: exactly two
    rearrangements per non-trivial split. -/
theorem count_unrooted_splits (t : T) (hb : t.binary = true) (h3 : t.kids.length = 3) (hpos : pposOK t = true)
    (hu : t.tipNames.Nodup) : (rearrangements t).length = 2 * Spec.innerBranches t := by
  rw [count_unrooted t hb h3, Spec.innerBranches, usplitSet_length_unrooted t hb h3 hpos hu]

/- FULL STATEMENT for rooted trees (false, finding F22; see `count_rooted_fails`):
     t.binary → t.rooted → (rearrangements t).length = 2 * innerBranchesShape t
   where the two branches at the root are ONE inner branch of the tree when both children of
   the root are inner nodes. -/

/-- Rooted binary trees, with the excluded region explicit: the branches at the root get no
    rearrangement, every other inner branch gets exactly two. -/
theorem count_rooted_partial (t : T) (hb : t.binary = true) (hr : t.rooted = true) :
    (rearrangements t).length + 2 * (t.kids.filter (fun et => !et.2.isLeaf)).length
      = 2 * t.internalEdges.length := by
  obtain ⟨d, p, k⟩ := t
  simp only [T.binary, Bool.and_eq_true, T.kids_node, T.rooted, beq_iff_eq] at hb hr
  rw [internalEdges_length, rearrangements, enumT]
  simp only [if_true, T.kids_node, hr]
  exact enumL_length_nopar true [] p k 0 hb.2 (fun et _ pre' hbe => enumT_length_below et.2 pre' hbe)

/-- … hence the count is right for a rooted tree with a tip at the root (the two root
    branches are then one tip branch of the unrooted tree) … -/
theorem count_rooted_tip_at_root (t : T) (hb : t.binary = true) (hr : t.rooted = true)
    (h1 : (t.kids.filter (fun et => !et.2.isLeaf)).length = 1) :
    (rearrangements t).length = 2 * Spec.innerBranchesShape t := by
  have := count_rooted_partial t hb hr
  simp only [Spec.innerBranchesShape, hr, if_true]
  omega

/-- … in the Spec's own terms (two per non-trivial split), for a rooted binary tree with unique
    tip names and a tip at the root. -/
theorem count_rooted_tip_at_root_splits (t : T) (hb : t.binary = true) (hr : t.rooted = true)
    (h1 : (t.kids.filter (fun et => !et.2.isLeaf)).length = 1) (hpos : pposOK t = true) (hu : t.tipNames.Nodup) :
    (rearrangements t).length = 2 * Spec.innerBranches t := by
  have hc := count_rooted_partial t hb hr
  have hhalf : 2 * ((rearrangements t).filter fun r => !r.cross).length = (rearrangements t).length :=
    enumT_filter_cross t true []
  have hlow := proposals_le_splits t hb hpos hu
  have hup := usplitSet_length_lt_rooted_tip t hu hr h1
  simp only [Spec.innerBranches]
  omega

/-- … and exactly the two rearrangements of the root branch are missing when both children
    of the root are inner nodes (F22). -/
theorem count_rooted_two_missing (t : T) (hb : t.binary = true) (hr : t.rooted = true)
    (h2 : (t.kids.filter (fun et => !et.2.isLeaf)).length = 2) :
    (rearrangements t).length + 2 = 2 * Spec.innerBranchesShape t := by
  have := count_rooted_partial t hb hr
  simp only [Spec.innerBranchesShape, hr, if_true]
  omega

/-- … in the Spec's own terms: a rooted binary tree with unique tip names whose root has two inner
    children gets exactly two rearrangements fewer than two per non-trivial split (F22). -/
theorem count_rooted_two_missing_splits (t : T) (hb : t.binary = true) (hr : t.rooted = true)
    (h2 : (t.kids.filter (fun et => !et.2.isLeaf)).length = 2) (hpos : pposOK t = true) (hu : t.tipNames.Nodup) :
    (rearrangements t).length + 2 = 2 * Spec.innerBranches t := by
  have hc := count_rooted_partial t hb hr
  have hhalf : 2 * ((rearrangements t).filter fun r => !r.cross).length = (rearrangements t).length :=
    enumT_filter_cross t true []
  have hup := usplitSet_length_lt_rooted_inner t hu hr h2
  -- the root split is one more non-trivial split, different from all those the proposals remove
  suffices hlow : ((rearrangements t).filter fun r => !r.cross).length + 1 ≤ t.usplitSet.length by
    simp only [Spec.innerBranches]
    omega
  obtain ⟨d, p, k⟩ := t
  simp only [T.rooted, T.kids_node, beq_iff_eq] at hr h2
  match k, hr, hb, hu, h2, hpos with
  | [(e1, a), (e2, b)], _, hb, hu, h2, hpos =>
    have hall : (T.node d p [(e1, a), (e2, b)]).tipNames = a.leaves ++ b.leaves := by
      simp [T.tipNames, leavesL]
    simp only [List.filter_cons, List.filter_nil] at h2
    have ha : a.isLeaf = false := by
      cases ha : a.isLeaf <;> cases hb' : b.isLeaf <;> simp [ha, hb'] at h2 ⊢
    have hbl : b.isLeaf = false := by
      cases ha' : a.isLeaf <;> cases hb' : b.isLeaf <;> simp [ha', hb'] at h2 ⊢
    -- both children of the root have two children
    simp only [T.binary, T.kids_node, binaryL, Bool.and_eq_true] at hb
    obtain ⟨_, hba, hbb, _⟩ := hb
    obtain ⟨da, pa, ka⟩ := a
    obtain ⟨db, pb, kb⟩ := b
    simp only [T.binaryBelow, Bool.and_eq_true, Bool.or_eq_true, beq_iff_eq] at hba hbb
    have hka : ka.length = 2 := by
      rcases hba.1 with h | h
      · have : ka = [] := List.length_eq_zero_iff.mp h
        subst this; simp [T.isLeaf] at ha
      · exact h
    have hkb : kb.length = 2 := by
      rcases hbb.1 with h | h
      · have : kb = [] := List.length_eq_zero_iff.mp h
        subst this; simp [T.isLeaf] at hbl
      · exact h
    match ka, hka, kb, hkb with
    | [(ea1, a1), (ea2, a2)], _, [(eb1, b1), (eb2, b2)], _ =>
      have hnd := hu
      rw [hall] at hnd
      simp only [T.leaves, leavesL, List.append_nil, List.nodup_append, List.mem_append] at hnd
      obtain ⟨x1, hx1⟩ := List.exists_mem_of_ne_nil _ (leaves_ne_nil a1)
      obtain ⟨x2, hx2⟩ := List.exists_mem_of_ne_nil _ (leaves_ne_nil a2)
      obtain ⟨y1, hy1⟩ := List.exists_mem_of_ne_nil _ (leaves_ne_nil b1)
      obtain ⟨y2, hy2⟩ := List.exists_mem_of_ne_nil _ (leaves_ne_nil b2)
      let tt : T := T.node d p [(e1, T.node da pa [(ea1, a1), (ea2, a2)]), (e2, T.node db pb [(eb1, b1), (eb2, b2)])]
      have hbin : tt.binary = true := by
        simp only [tt, T.binary, T.kids_node, binaryL, T.binaryBelow, Bool.and_eq_true, Bool.or_eq_true, beq_iff_eq]
        simp only [binaryL, Bool.and_eq_true] at hba hbb
        exact ⟨by simp, ⟨by simp, hba.2⟩, ⟨by simp, hbb.2⟩, trivial⟩
      -- the root split
      have hroot_in : canonSide tt.tipNames (a1.leaves ++ a2.leaves) ∈ tt.usplitSet := by
        rw [mem_usplitSet]
        refine ⟨⟨⟨a1.leaves ++ a2.leaves, e1, false⟩, by simp [tt, T.splits, splitsL, T.leaves, leavesL, T.isLeaf], rfl⟩, ?_⟩
        have hallt : tt.tipNames = (a1.leaves ++ a2.leaves) ++ (b1.leaves ++ b2.leaves) := by
          simp [tt, T.tipNames, leavesL, T.leaves]
        rw [hallt]
        have hnd' : ((a1.leaves ++ a2.leaves) ++ (b1.leaves ++ b2.leaves)).Nodup := by
          have := hu
          simp only [T.tipNames, T.kids_node, leavesL, T.leaves, List.append_nil] at this
          simpa using this
        apply lightSize_canonSide hnd' (by simp only [List.nodup_append]; exact hnd.1)
          (a := x1) (b := x2) (p := y1) (q := y2)
        all_goals (first | (simp only [List.mem_append]; grind) | grind)
      -- it differs from every split a proposal removes
      have hroot_out : canonSide tt.tipNames (a1.leaves ++ a2.leaves) ∉
          ((rearrangements tt).filter fun r => !r.cross).map (oldSide tt) := by
        intro hmem
        obtain ⟨r, hr, heq⟩ := List.mem_map.mp hmem
        have hm := (List.mem_filter.mp hr).1
        obtain ⟨S, e, c, x, hs, hj, hk, hd, _⟩ := rearrangement_site tt r hpos hm
        have hq : r.path ≠ [] := by
          intro h0
          rw [h0] at hs hd
          simp only [subAt, Option.some.injEq] at hs
          subst hs
          simp [tt] at hd
        have h1 : Low' tt [] 0 (T.node da pa [(ea1, a1), (ea2, a2)]) :=
          ⟨tt, e1, rfl, by simp [tt], rfl, by simp [tt]⟩
        have h2' : Low' tt r.path (lowIdx r S) c := (show Low tt r.path (lowIdx r S) c from ⟨S, e, hs, hj, hk, hd⟩).low'
        have := low_ne' tt hu (by simp [tt]) [] r.path 0 (lowIdx r S) _ c h1 h2'
          (fun h => hq h.1.symm) (fun _ h => absurd h hq)
        apply this
        simp only [oldSide, hs, lowerLeaves, hj] at heq
        simp only [T.kids_node, leavesL, List.append_nil]
        exact heq.symm
      have hnodup : (canonSide tt.tipNames (a1.leaves ++ a2.leaves) ::
          ((rearrangements tt).filter fun r => !r.cross).map (oldSide tt)).Nodup :=
        List.nodup_cons.mpr ⟨hroot_out, oldSides_nodup tt hbin hpos hu⟩
      have := List.Nodup.length_le_of_subset hnodup (l₂ := tt.usplitSet) (by
        intro x hx
        rcases List.mem_cons.mp hx with rfl | hx
        · exact hroot_in
        · exact oldSides_subset tt hbin hpos hu x hx)
      simpa using this

/- ## the same for every tree in which each proper subtree misses a tip (`ProperOutside`): the
   root has at least two children, or the root is itself a tip -/

theorem apply_split_sets_po (t t' : T) (r : NNI) (hpo : ProperOutside t) (hpos : pposOK t = true)
    (hu : t.tipNames.Nodup) (h : r ∈ rearrangements t) (ha : apply t r = some t') :
    ∃ S, subAt r.path t = some S ∧
      Spec.oneSplitApart t.usplitSet t'.usplitSet = true ∧
      canonSide t.tipNames (lowerLeaves S.kids (lowIdx r S)) ∈ t.usplitSet ∧
      canonSide t.tipNames (lowerLeaves S.kids (lowIdx r S)) ∉ t'.usplitSet := by
  obtain ⟨S, hs, hne, hP⟩ := rearrangements_generic
    (fun S r => S.kids ≠ [] ∧ ((leavesL S.kids).Nodup →
      ∀ S', applyLocal r.path.isEmpty r S = some S' →
        RK S S' ∧ Apart (leavesL S.kids) (lowerLeaves S.kids (lowIdx r S)) r.path.isEmpty (splitsL S.kids) (splitsL S'.kids)))
    (by
      intro path isRoot d1 p1 k1 j e d2 p2 u v cross site
      have hr : (newNNI path isRoot p1 j p2 cross).path.isEmpty = isRoot := by
        simp [newNNI, site.root]
      rw [hr, lowIdx_newNNI path isRoot site.root]
      refine ⟨?_, fun hnd S' hS' => ⟨local_RK d1 cross site S' hS', local_apart d1 cross site hnd S' hS'⟩⟩
      have := site.deg
      intro h0
      simp only [T.kids_node] at h0
      subst h0
      cases isRoot <;> simp at this)
    t hpos r h
  have hsub := sub_leaves_sublist r.path t S hs hne
  have hnd : (leavesL t.kids).Nodup := by
    unfold T.tipNames at hu
    exact (List.nodup_append.mp hu).2.1
  obtain ⟨_, hA, hZ⟩ := apart_lift (leavesL S.kids) _ r.path.isEmpty _ r.path t t' S hs ha hnd
    (hP (hnd.sublist hsub)) (fun x hx => hx)
  refine ⟨S, hs, oneSplitApart_of_apart t t' (leavesL S.kids) _ r.path.isEmpty (apply_tips t t' r hpos h ha) hu hA hZ ?_⟩
  intro hroot
  have hq : r.path ≠ [] := by
    intro h0
    rw [h0] at hroot
    simp at hroot
  exact hpo r.path S hq hs hne

theorem oldSides_nodup_po (t : T) (hpo : ProperOutside t) (hpos : pposOK t = true) (hu : t.tipNames.Nodup) :
    (((rearrangements t).filter fun r => !r.cross).map (oldSide t)).Nodup := by
  -- different proposals with `cross = false` sit on different branches
  rw [List.nodup_iff_pairwise_ne, List.pairwise_map]
  have hn : ((rearrangements t).filter fun r => !r.cross).Nodup := (rearrangements_nodup t).sublist List.filter_sublist
  rw [List.nodup_iff_pairwise_ne] at hn
  rw [List.pairwise_iff_forall_sublist] at hn ⊢
  intro r₁ r₂ hsub
  have hne := hn hsub
  have hm₁ := List.mem_filter.mp (hsub.subset (show r₁ ∈ [r₁, r₂] by simp))
  have hm₂ := List.mem_filter.mp (hsub.subset (show r₂ ∈ [r₁, r₂] by simp))
  obtain ⟨S1, e1, c1, x1, hs1, hj1, hk1, hd1, hr1⟩ := rearrangement_site t r₁ hpos hm₁.1
  obtain ⟨S2, e2, c2, x2, hs2, hj2, hk2, hd2, hr2⟩ := rearrangement_site t r₂ hpos hm₂.1
  have hdiff : ¬(r₁.path = r₂.path ∧ lowIdx r₁ S1 = lowIdx r₂ S2) := by
    rintro ⟨hp, hl⟩
    apply hne
    have hs1' := hs1
    rw [hp, hs2] at hs1'
    simp only [Option.some.injEq] at hs1'
    subst hs1'
    have hj1' := hj1
    rw [hl, hj2] at hj1'
    simp only [Option.some.injEq, Prod.mk.injEq] at hj1'
    obtain ⟨_, rfl⟩ := hj1'
    rw [hp, hl] at hr1
    obtain ⟨p, ie, pp, j, q, hN1, hN2⟩ : ∃ p ie pp j q, r₁ = newNNI p ie pp j q x1 ∧ r₂ = newNNI p ie pp j q x2 :=
      ⟨_, _, _, _, _, hr1, hr2⟩
    have hc1 : x1 = false := by
      have : r₁.cross = x1 := by rw [hN1]; rfl
      have h := hm₁.2
      rw [this] at h
      simpa using h
    have hc2 : x2 = false := by
      have : r₂.cross = x2 := by rw [hN2]; rfl
      have h := hm₂.2
      rw [this] at h
      simpa using h
    rw [hN1, hN2, hc1, hc2]
  have hlow := low_ne_po t hu hpo r₁.path r₂.path (lowIdx r₁ S1) (lowIdx r₂ S2) c1 c2
    (show Low t r₁.path (lowIdx r₁ S1) c1 from ⟨S1, e1, hs1, hj1, hk1, hd1⟩).low'
    (show Low t r₂.path (lowIdx r₂ S2) c2 from ⟨S2, e2, hs2, hj2, hk2, hd2⟩).low' hdiff
    (by
      intro h1 _
      have hs := hs1
      have hd := hd1
      rw [h1] at hs hd
      simp only [subAt, Option.some.injEq] at hs
      subst hs
      simpa using hd)
  simp only [oldSide, hs1, hs2, lowerLeaves, hj1, hj2]
  exact hlow

theorem oldSides_subset_po (t : T) (hpo : ProperOutside t) (hpos : pposOK t = true) (hu : t.tipNames.Nodup) :
    ∀ a ∈ ((rearrangements t).filter fun r => !r.cross).map (oldSide t), a ∈ t.usplitSet := by
  -- each of them removes a non-trivial split of `t`
  intro a ha
  obtain ⟨r, hr, rfl⟩ := List.mem_map.mp ha
  have hm := (List.mem_filter.mp hr).1
  obtain ⟨t', hat, _⟩ := undo_apply t r hpos hm
  obtain ⟨S, hs, _, hin, _⟩ := apply_split_sets_po t t' r hpo hpos hu hm hat
  simp only [oldSide, hs]
  exact hin

theorem proposals_le_splits_po (t : T) (hpo : ProperOutside t) (hpos : pposOK t = true) (hu : t.tipNames.Nodup) :
    ((rearrangements t).filter fun r => !r.cross).length ≤ t.usplitSet.length := by
  rw [← List.length_map (f := oldSide t)]
  exact List.Nodup.length_le_of_subset (oldSides_nodup_po t hpo hpos hu) (oldSides_subset_po t hpo hpos hu)

theorem twin_one_split_po (t t₁ t₂ : T) (r : NNI) (hpo : ProperOutside t) (hpos : pposOK t = true)
    (hu : t.tipNames.Nodup) (h : r ∈ rearrangements t) (h₁ : apply t { r with cross := false } = some t₁)
    (h₂ : apply t { r with cross := true } = some t₂) :
    Spec.oneSplitApart t₁.usplitSet t₂.usplitSet = true := by
  obtain ⟨S, hs, hne, hP⟩ := rearrangements_generic
    (fun S r => S.kids ≠ [] ∧ ((leavesL S.kids).Nodup →
      ∀ S1 S2, applyLocal r.path.isEmpty { r with cross := false } S = some S1 →
        applyLocal r.path.isEmpty { r with cross := true } S = some S2 →
        RK S S1 ∧ RK S S2 ∧ ∃ cb, Apart (leavesL S.kids) cb r.path.isEmpty (splitsL S1.kids) (splitsL S2.kids)))
    (by
      intro path isRoot d1 p1 k1 j e d2 p2 u v cross site
      have hr : (newNNI path isRoot p1 j p2 cross).path.isEmpty = isRoot := by
        simp [newNNI, site.root]
      rw [hr]
      have hf : { newNNI path isRoot p1 j p2 cross with cross := false } = newNNI path isRoot p1 j p2 false := rfl
      have ht : { newNNI path isRoot p1 j p2 cross with cross := true } = newNNI path isRoot p1 j p2 true := rfl
      rw [hf, ht]
      refine ⟨?_, fun hnd S1 S2 hS1 hS2 =>
        ⟨local_RK d1 false site S1 hS1, local_RK d1 true site S2 hS2, local_twin_apart d1 site hnd S1 S2 hS1 hS2⟩⟩
      have := site.deg
      intro h0
      simp only [T.kids_node] at h0
      subst h0
      cases isRoot <;> simp at this)
    t hpos r h
  have hsub := sub_leaves_sublist r.path t S hs hne
  have hnd : (leavesL t.kids).Nodup := by
    unfold T.tipNames at hu
    exact (List.nodup_append.mp hu).2.1
  have hloc := hP (hnd.sublist hsub)
  -- both neighbours against the original
  have hk1 : RK t t₁ := RK.lift _ r.path t t₁ S hs h₁ (fun S1 hS1 => by
    cases hS2 : applyLocal r.path.isEmpty { r with cross := true } S with
    | none =>
      exfalso
      have : ∀ (q : List Nat) (u : T) (S : T), subAt q u = some S → applyLocal r.path.isEmpty { r with cross := true } S = none →
          modAt q (applyLocal r.path.isEmpty { r with cross := true }) u = none := by
        intro q
        induction q with
        | nil => intro u S hs hn; simp only [subAt, Option.some.injEq] at hs; subst hs; simpa [modAt] using hn
        | cons i q ih =>
          intro u S hs hn
          obtain ⟨d, pp, k⟩ := u
          simp only [subAt] at hs
          cases hki : k[i]? with
          | none => simp [modAt, hki]
          | some ec =>
            obtain ⟨e, c⟩ := ec
            simp only [hki] at hs
            simp [modAt, hki, ih c S hs hn]
      have h0 := this r.path t S hs hS2
      rw [show modAt r.path (applyLocal r.path.isEmpty { r with cross := true }) t = apply t { r with cross := true } from rfl, h₂] at h0
      cases h0
    | some S2 => exact (hloc S1 S2 hS1 hS2).1)
  have hnd1 : (leavesL t₁.kids).Nodup := hk1.leaves.nodup_iff.mpr hnd
  obtain ⟨hl, hZ, cb, hA⟩ := apart_lift2 (leavesL S.kids) r.path.isEmpty _ _ r.path t t₁ t₂ S hs h₁ h₂ hnd1
    (fun S1 S2 hS1 hS2 => by
      obtain ⟨k1, k2, hA⟩ := hloc S1 S2 hS1 hS2
      exact ⟨RL.of_RK k1 k2, fun x hx => k1.leaves.mem_iff.mpr hx, hA⟩)
  have hall1 : t₁.tipNames.Perm t.tipNames := hk1.tipNames_perm
  have hall : t₂.tipNames.Perm t₁.tipNames := by
    have hn := hl.nkids
    unfold T.tipNames
    rw [hn]
    by_cases h1 : t₁.kids.length = 1
    · have hd := hl.data (by omega)
      simp only [h1, beq_self_eq_true, if_true, T.name, hd]
      exact List.Perm.append_left _ hl.leaves
    · have : (t₁.kids.length == 1) = false := by simpa using h1
      simp only [this, Bool.false_eq_true, if_false, List.nil_append]
      exact hl.leaves
  refine (oneSplitApart_of_apart t₁ t₂ (leavesL S.kids) cb r.path.isEmpty hall (hall1.nodup_iff.mpr hu) hA hZ ?_).1
  intro hroot
  have hq : r.path ≠ [] := by
    intro h0
    rw [h0] at hroot
    simp at hroot
  obtain ⟨z, hz1, hz2⟩ := hpo r.path S hq hs hne
  exact ⟨z, hall1.mem_iff.mpr hz1, hz2⟩

theorem neighbours_distinct_po (t t₁ t₂ : T) (r₁ r₂ : NNI) (hpo : ProperOutside t) (hpos : pposOK t = true)
    (hu : t.tipNames.Nodup) (h₁ : r₁ ∈ rearrangements t) (h₂ : r₂ ∈ rearrangements t) (hne : r₁ ≠ r₂)
    (ha₁ : apply t r₁ = some t₁) (ha₂ : apply t r₂ = some t₂) :
    ∃ a, a ∈ t₁.usplitSet ∧ a ∉ t₂.usplitSet := by
  obtain ⟨S1, e1, c1, x1, hs1, hj1, hk1, hd1, hr1⟩ := rearrangement_site t r₁ hpos h₁
  obtain ⟨S2, e2, c2, x2, hs2, hj2, hk2, hd2, hr2⟩ := rearrangement_site t r₂ hpos h₂
  by_cases hsame : r₁.path = r₂.path ∧ lowIdx r₁ S1 = lowIdx r₂ S2
  · -- the two rearrangements of one branch
    obtain ⟨hp, hl⟩ := hsame
    rw [hp, hs2] at hs1
    simp only [Option.some.injEq] at hs1
    subst hs1
    rw [hl, hj2] at hj1
    simp only [Option.some.injEq, Prod.mk.injEq] at hj1
    obtain ⟨_, rfl⟩ := hj1
    rw [hp, hl] at hr1
    obtain ⟨p, ie, pp, j, q, hN1, hN2⟩ : ∃ p ie pp j q, r₁ = newNNI p ie pp j q x1 ∧ r₂ = newNNI p ie pp j q x2 :=
      ⟨_, _, _, _, _, hr1, hr2⟩
    have hx : x1 ≠ x2 := by
      intro hx
      apply hne
      rw [hN1, hN2, hx]
    cases hx1 : x1 with
    | false =>
      have hx2 : x2 = true := by
        cases h2 : x2 with
        | true => rfl
        | false => exact absurd (hx1.trans h2.symm) hx
      have e1' : { r₁ with cross := false } = r₁ := by rw [hN1, hx1]; rfl
      have e2' : { r₁ with cross := true } = r₂ := by rw [hN1, hN2, hx2]; rfl
      have := twin_one_split_po t t₁ t₂ r₁ hpo hpos hu h₁ (by rw [e1']; exact ha₁) (by rw [e2']; exact ha₂)
      simp only [Spec.oneSplitApart, Bool.and_eq_true, beq_iff_eq] at this
      exact mem_of_diffCount_one this.2
    | true =>
      have hx2 : x2 = false := by
        cases h2 : x2 with
        | false => rfl
        | true => exact absurd (hx1.trans h2.symm) hx
      have e1' : { r₂ with cross := false } = r₂ := by rw [hN2, hx2]; rfl
      have e2' : { r₂ with cross := true } = r₁ := by rw [hN1, hN2, hx1]; rfl
      have := twin_one_split_po t t₂ t₁ r₂ hpo hpos hu h₂ (by rw [e1']; exact ha₂) (by rw [e2']; exact ha₁)
      simp only [Spec.oneSplitApart, Bool.and_eq_true, beq_iff_eq] at this
      exact mem_of_diffCount_one this.1
  · -- two different branches: the split removed by `r₂` is still there after `r₁`
    have hlow := low_ne_po t hu hpo r₁.path r₂.path (lowIdx r₁ S1) (lowIdx r₂ S2) c1 c2
      (show Low t r₁.path (lowIdx r₁ S1) c1 from ⟨S1, e1, hs1, hj1, hk1, hd1⟩).low'
      (show Low t r₂.path (lowIdx r₂ S2) c2 from ⟨S2, e2, hs2, hj2, hk2, hd2⟩).low' hsame
      (by
        intro h1 _
        have hs := hs1
        have hd := hd1
        rw [h1] at hs hd
        simp only [subAt, Option.some.injEq] at hs
        subst hs
        simpa using hd)
    obtain ⟨S1', hs1', ho1, hin1, hout1⟩ := apply_split_sets_po t t₁ r₁ hpo hpos hu h₁ ha₁
    obtain ⟨S2', hs2', ho2, hin2, hout2⟩ := apply_split_sets_po t t₂ r₂ hpo hpos hu h₂ ha₂
    rw [hs1] at hs1'
    rw [hs2] at hs2'
    simp only [Option.some.injEq] at hs1' hs2'
    subst hs1'
    subst hs2'
    have hl1 : lowerLeaves S1.kids (lowIdx r₁ S1) = leavesL c1.kids := by simp [lowerLeaves, hj1]
    have hl2 : lowerLeaves S2.kids (lowIdx r₂ S2) = leavesL c2.kids := by simp [lowerLeaves, hj2]
    rw [hl1] at hin1 hout1
    rw [hl2] at hin2 hout2
    refine ⟨canonSide t.tipNames (leavesL c2.kids), ?_, ?_⟩
    · -- it is a split of `t` other than the one `r₁` removes
      apply Classical.byContradiction
      intro hnot
      simp only [Spec.oneSplitApart, Bool.and_eq_true, beq_iff_eq] at ho1
      exact hlow (eq_of_diffCount_one ho1.2 hin1 hout1 hin2 hnot)
    · -- `t₂` lacks it: careful, `t₂`'s own taxa list is a permutation of `t`'s
      exact hout2

/-- ★ tip-rooted binary trees: all proposed neighbours are pairwise distinct -/
theorem neighbours_distinct_tip_rooted (t t₁ t₂ : T) (r₁ r₂ : NNI) (hb : Spec.tipRooted t = true) (hpos : pposOK t = true)
    (hu : t.tipNames.Nodup) (h₁ : r₁ ∈ rearrangements t) (h₂ : r₂ ∈ rearrangements t) (hne : r₁ ≠ r₂)
    (ha₁ : apply t r₁ = some t₁) (ha₂ : apply t r₂ = some t₂) :
    ∃ a, a ∈ t₁.usplitSet ∧ a ∉ t₂.usplitSet := by
  have hk : t.kids.length = 1 := by
    simp only [Spec.tipRooted, Bool.and_eq_true, beq_iff_eq] at hb
    exact hb.1.1
  exact neighbours_distinct_po t t₁ t₂ r₁ r₂ (properOutside_of_tipRoot t hu hk) hpos hu h₁ h₂ hne ha₁ ha₂

/-- ★ tip-rooted binary trees (`(((a,b),(c,d)))e;`: the root is a tip): a neighbour differs from the
    original by exactly one split each way -/
theorem apply_one_split_tip_rooted (t t' : T) (r : NNI) (hb : Spec.tipRooted t = true) (hpos : pposOK t = true)
    (hu : t.tipNames.Nodup) (h : r ∈ rearrangements t) (ha : apply t r = some t') :
    Spec.oneSplitApart t.usplitSet t'.usplitSet = true := by
  have hk : t.kids.length = 1 := by
    simp only [Spec.tipRooted, Bool.and_eq_true, beq_iff_eq] at hb
    exact hb.1.1
  obtain ⟨_, _, h1, _⟩ := apply_split_sets_po t t' r (properOutside_of_tipRoot t hu hk) hpos hu h ha
  exact h1

/-- the rooted quartet `((a,b),(c,d))` -/
def witnessRooted : T :=
  .node ⟨"", []⟩ 0
    [(EdgeD.blank, .node ⟨"", []⟩ 0 [(EdgeD.blank, T.leaf "a"), (EdgeD.blank, T.leaf "b")]),
     (EdgeD.blank, .node ⟨"", []⟩ 0 [(EdgeD.blank, T.leaf "c"), (EdgeD.blank, T.leaf "d")])]

/-- tip-rooted binary trees: the branch between the root (a tip) and its child gets no
    rearrangement, every other branch whose lower end is not a tip gets two -/
theorem count_tip_rooted (t : T) (hb : Spec.tipRooted t = true) :
    (rearrangements t).length + 2 = 2 * t.internalEdges.length := by
  obtain ⟨d, p, k⟩ := t
  simp only [Spec.tipRooted, Bool.and_eq_true, beq_iff_eq, T.kids_node] at hb
  obtain ⟨⟨hk, hbin⟩, hall⟩ := hb
  match k, hk, hbin, hall with
  | [(e, c)], _, hbin, hall =>
    have hc2 : c.kids.length = 2 := by simpa using hall
    have hcl : c.isLeaf = false := by
      obtain ⟨dc, pc, kc⟩ := c
      simp only [T.kids_node] at hc2
      cases kc with
      | nil => simp at hc2
      | cons _ _ => simp [T.isLeaf]
    rw [internalEdges_length, rearrangements, enumT]
    have := enumL_length_nopar true [] p [(e, c)] 0 hbin (fun et _ pre' hbe => enumT_length_below et.2 pre' hbe)
    simp only [if_true, T.kids_node, List.length_cons, List.length_nil]
    simp only [List.filter_cons, hcl, Bool.not_false, if_true, List.filter_nil, List.length_cons, List.length_nil] at this
    exact this

/-- ★ … and in the Spec's own terms: exactly two rearrangements per non-trivial split — here the
    root branch of the quartet `(((a,b),(c,d)))e;` does get its two (compare F22). -/
theorem count_tip_rooted_splits (t : T) (hb : Spec.tipRooted t = true) (hpos : pposOK t = true) (hu : t.tipNames.Nodup) :
    (rearrangements t).length = 2 * Spec.innerBranches t := by
  have hc := count_tip_rooted t hb
  have hb' := hb
  simp only [Spec.tipRooted, Bool.and_eq_true, beq_iff_eq] at hb'
  obtain ⟨⟨hk, _⟩, hall⟩ := hb'
  have hhalf : 2 * ((rearrangements t).filter fun r => !r.cross).length = (rearrangements t).length :=
    enumT_filter_cross t true []
  have hlow := proposals_le_splits_po t (properOutside_of_tipRoot t hu hk) hpos hu
  have hin : t.kids.all (fun et => !et.2.isLeaf) = true := by
    rw [List.all_eq_true] at hall ⊢
    intro et het
    have := hall et het
    simp only [beq_iff_eq] at this
    have hne : et.2.kids ≠ [] := by
      intro h0
      rw [h0] at this
      simp at this
    simp [T.isLeaf, hne]
  have hup := usplitSet_length_lt_tip_rooted t hu hk hin
  simp only [Spec.innerBranches]
  omega

/-- the tip-rooted tree `(((a,b),(c,d)))e`: five tips, two inner branches, four rearrangements -/
def witnessTipRooted : T :=
  .node ⟨"e", []⟩ 0 [(EdgeD.blank, witnessRooted)]

example : Spec.tipRooted witnessTipRooted = true ∧ pposOK witnessTipRooted = true ∧ witnessTipRooted.tipNames.Nodup ∧
    (rearrangements witnessTipRooted).length = 4 := by decide

/-- Negative theorem (F22): on the rooted quartet, which has one inner branch `ab|cd`, the
    model of `Rearrange` — tied to the code on every run — proposes nothing. -/
theorem count_rooted_fails :
    witnessRooted.binary = true ∧ witnessRooted.rooted = true ∧
    Spec.innerBranchesShape witnessRooted = 1 ∧ (rearrangements witnessRooted).length = 0 := by
  decide

/-- … the same in the Spec's own terms: the rooted quartet has one non-trivial split and gets no
    rearrangement, so "two per inner branch" fails on it. -/
theorem count_rooted_fails_splits :
    Spec.innerBranches witnessRooted = 1 ∧ (rearrangements witnessRooted).length ≠ 2 * Spec.innerBranches witnessRooted := by
  have h := count_rooted_two_missing_splits witnessRooted (by decide) (by decide) (by decide) (by decide) (by decide)
  have h0 : (rearrangements witnessRooted).length = 0 := by decide
  omega

/- ## `cmd/nni.go` -/

/-- the command on well-formed input: every neighbour of every tree, in order, no error … -/
theorem cliRun_ok : ∀ (ts : List T), (∀ t ∈ ts, pposOK t = true) →
    cliRun (ts.map some) = (ts.flatMap fun t => (rearrangements t).filterMap (apply t), false)
  | [], _ => rfl
  | t :: ts, h => by
    have ih := cliRun_ok ts (fun u hu => h u (by simp [hu]))
    simp only [List.map_cons, cliRun, enumerate_unchanged t (h t (by simp)), ih, List.flatMap_cons]

/-- … and with a record that is not a tree (commit 9333707): the neighbours of the trees before
    it, then an error (exit status 1), nothing of what follows -/
theorem cliRun_err (ts : List T) (rest : List (Option T)) (h : ∀ t ∈ ts, pposOK t = true) :
    cliRun (ts.map some ++ none :: rest) = (ts.flatMap fun t => (rearrangements t).filterMap (apply t), true) ∧
    cliExit (ts.map some ++ none :: rest) = 1 := by
  have key : cliRun (ts.map some ++ none :: rest) = (ts.flatMap fun t => (rearrangements t).filterMap (apply t), true) := by
    induction ts with
    | nil => simp [cliRun]
    | cons t ts ih =>
      have := ih (fun u hu => h u (by simp [hu]))
      simp only [List.map_cons, List.cons_append, cliRun, enumerate_unchanged t (h t (by simp)), this, List.flatMap_cons]
  exact ⟨key, by simp [cliExit, key]⟩

/- ## the pointer-level square (DESIGN §11, S1) -/

/-- ★ One proved simulation square under `apply`.  For every rearrangement `Rearrange` proposes,
    the six-node heap `H` that `apply` reads off the tree is the abstraction (`absH`) of a
    well-formed pointer piece `p` (records with `neigh`/`br` slices and `left`/`right`, any other
    neighbours `pre`/`post` of the outer nodes); running the Go statements of `nni.Apply` on `p`
    (`applyP`) succeeds, keeps the pairing `neigh[i]`↔`br[i]`, symmetric adjacency and the number
    of parent branches of each of the six nodes (at most one: the branches still point away from
    the root), and the abstraction of the result is what `apply` computes; the Go statements of
    `nni.Undo` (`undoP`) then give back the records of `p`. -/
theorem apply_heap_square (t : T) (r : NNI) (hpos : pposOK t = true) (h : r ∈ rearrangements t) :
    ∃ S H, subAt r.path t = some S ∧ extract S r.path.isEmpty r false = some H ∧
      ∀ pre post : Ref → List Nat,
        let p := mkP (slices1 r.i1 r.cross false) (slices2 r.i2 r.cross false) (upOf H) pre post
        absH (datOf H) p = H ∧ pairing p = true ∧ symmetric p = true ∧
        ∃ p', applyP p r.cross = some p' ∧ pairing p' = true ∧ symmetric p' = true ∧
          (∀ x, incoming p' x = incoming p x ∧ incoming p x ≤ 1) ∧
          applyH H r.cross = some (absH (datOf H) p') ∧
          applyLocal r.path.isEmpty r S =
            (if (absH (datOf H) p').oriented then some (rebuild (absH (datOf H) p')) else none) ∧
          ∃ p'', undoP p' r.cross = some p'' ∧ p''.same p ∧ undoH (absH (datOf H) p') r.cross = some H := by
  obtain ⟨S, hs, hF, S', ha, _⟩ := rearrangements_generic
    (fun S r => (∀ H, extract S r.path.isEmpty r false = some H → Fresh H r.i1 r.i2 r.cross) ∧
      ∃ S', applyLocal r.path.isEmpty r S = some S' ∧ undoLocal r.path.isEmpty r S' = some S)
    (by
      intro path isRoot d1 p1 k1 j e d2 p2 u v cross site
      have hr : (newNNI path isRoot p1 j p2 cross).path.isEmpty = isRoot := by
        simp [newNNI, site.root]
      rw [hr]
      exact ⟨extract_fresh d1 cross site, local_undo_apply d1 cross site⟩)
    t hpos r h
  -- `extract` succeeds, since `applyLocal` does
  cases hH : extract S r.path.isEmpty r false with
  | none => simp [applyLocal, hH] at ha
  | some H =>
    have hf := hF H hH
    refine ⟨S, H, hs, hH, fun pre post => ?_⟩
    have hup := upOf_cases H
    have habs := absH_mkP hf pre post
    obtain ⟨hpair, hsym⟩ := mkP_invariants r.i1 r.i2 hf.b1 hf.b2 r.cross false (upOf H) hup pre post
    obtain ⟨hpair', hsym'⟩ := mkP_invariants r.i1 r.i2 hf.b1 hf.b2 r.cross true (upOf H) hup pre post
    obtain ⟨p', hp', hsame'⟩ := applyP_mk r.i1 r.i2 hf.b1 hf.b2 r.cross (upOf H) hup pre post
    obtain ⟨q, hq, hsameq⟩ := undoP_mk r.i1 r.i2 hf.b1 hf.b2 r.cross (upOf H) hup pre post
    have hsq := applyP_absH (datOf H) r.i1 r.i2 hf.b1 hf.b2 r.cross (upOf H) hup pre post
    have hsu := undoP_absH (datOf H) r.i1 r.i2 hf.b1 hf.b2 r.cross (upOf H) hup pre post
    rw [habs] at hsq hsu
    have habs' : absH (datOf H) p' = absH (datOf H) (mkP (slices1 r.i1 r.cross true) (slices2 r.i2 r.cross true) (upOf H) pre post) :=
      same_absH _ hsame'
    refine ⟨habs, hpair, hsym, p', hp', ?_, ?_, ?_, ?_, ?_, ?_⟩
    · rw [same_pairing hsame']; exact hpair'
    · rw [same_symmetric hsame']; exact hsym'
    · intro x
      rw [same_incoming hsame' x]
      exact mkP_incoming r.i1 r.i2 hf.b1 hf.b2 r.cross (upOf H) hup pre post x
    · rw [habs']; exact hsq
    · simp only [applyLocal, hH, habs', hsq]
    · -- `undoP` on `p'`: the same records as on the constructed piece after `Apply`
      have hp'eq := same_eq hsame'
      rw [hp'eq]
      exact ⟨q, hq, hsameq, hsu⟩

/-- The same square for EVERY position of the root around the piece — nowhere (n1 is the root),
    or behind any of the four outer nodes, including `c`/`d` (the tree was re-rooted after
    `newNNI`, or between `Apply` and `Undo`: commit 48c858a) —, on the pointer records and their
    abstraction: the Go statements of `Apply` (`applyP`) lead from the well-formed piece before
    to the well-formed piece after, pairing, symmetric adjacency and every node's number of parent
    branches (≤ 1) are kept, the abstraction commutes (`applyH`), and `Undo` (`undoP`, `undoH`) leads back. -/
theorem heap_square_any_root (dat : HData) (i1 i2 : Nat) (h1 : i1 ≤ 2) (h2 : i2 ≤ 2) (cross : Bool) (up : Option Ref)
    (hup : up = none ∨ up = some .a ∨ up = some .b ∨ up = some .c ∨ up = some .d) (pre post : Ref → List Nat) :
    let p := mkP (slices1 i1 cross false) (slices2 i2 cross false) up pre post
    let q := mkP (slices1 i1 cross true) (slices2 i2 cross true) up pre post
    pairing p = true ∧ symmetric p = true ∧ pairing q = true ∧ symmetric q = true ∧
    (∀ x, incoming q x = incoming p x ∧ incoming p x ≤ 1) ∧
    (∃ p', applyP p cross = some p' ∧ p' = q) ∧ (∃ p'', undoP q cross = some p'' ∧ p'' = p) ∧
    applyH (absH dat p) cross = some (absH dat q) ∧ undoH (absH dat q) cross = some (absH dat p) := by
  obtain ⟨a1, a2⟩ := mkP_invariants i1 i2 h1 h2 cross false up hup pre post
  obtain ⟨b1, b2⟩ := mkP_invariants i1 i2 h1 h2 cross true up hup pre post
  obtain ⟨p', hp', hs'⟩ := applyP_mk i1 i2 h1 h2 cross up hup pre post
  obtain ⟨p'', hp'', hs''⟩ := undoP_mk i1 i2 h1 h2 cross up hup pre post
  exact ⟨a1, a2, b1, b2, fun x => mkP_incoming i1 i2 h1 h2 cross up hup pre post x,
    ⟨p', hp', same_eq hs'⟩, ⟨p'', hp'', same_eq hs''⟩,
    applyP_absH dat i1 i2 h1 h2 cross up hup pre post, undoP_absH dat i1 i2 h1 h2 cross up hup pre post⟩

/-- calling `Apply` on an applied NNI changes nothing -/
theorem obj_apply_applied (o : Obj) (t : T) (h : o.applied = true) : o.apply t = some (t, o) := by
  simp [Obj.apply, h]

/-- calling `Undo` on an NNI that is not applied changes nothing -/
theorem obj_undo_not_applied (o : Obj) (t : T) (h : o.applied = false) : o.undo t = some (t, o) := by
  simp [Obj.undo, h]

/-- `Apply` is idempotent through the `applied` flag: a second call changes nothing -/
theorem obj_apply_idempotent (o o₁ : Obj) (t t₁ : T) (h : o.apply t = some (t₁, o₁)) : o₁.apply t₁ = some (t₁, o₁) := by
  unfold Obj.apply at h
  split at h
  · rename_i ha
    simp only [Option.some.injEq, Prod.mk.injEq] at h
    obtain ⟨rfl, rfl⟩ := h
    simp [Obj.apply, ha]
  · split at h
    · cases h
    · simp only [Option.some.injEq, Prod.mk.injEq] at h
      obtain ⟨rfl, rfl⟩ := h
      simp [Obj.apply]

/-- the object as the callback uses it: `Apply` (twice), `Undo` (twice) on a fresh rearrangement
    proposed for `t` gives back `t` and a rearrangement that is not applied -/
theorem obj_roundtrip (t : T) (r : NNI) (hpos : pposOK t = true) (h : r ∈ rearrangements t) :
    ∃ t₁, (Obj.mk r false).apply t = some (t₁, ⟨r, true⟩) ∧ (Obj.mk r true).apply t₁ = some (t₁, ⟨r, true⟩) ∧
      (Obj.mk r true).undo t₁ = some (t, ⟨r, false⟩) ∧ (Obj.mk r false).undo t = some (t, ⟨r, false⟩) := by
  obtain ⟨t₁, ha, hu⟩ := undo_apply t r hpos h
  exact ⟨t₁, by simp [Obj.apply, ha], by simp [Obj.apply], by simp [Obj.undo, hu], by simp [Obj.undo]⟩

/- ## the hypotheses are satisfiable on non-trivial trees -/

private def lf (s : String) (p : Nat := 0) : T := .node ⟨s, []⟩ p []
private def nd (p : Nat) (k : Kids) : T := .node ⟨"", []⟩ p k
private def eb (i : Int) : EdgeD := ⟨1, NIL, NIL, [], i⟩

/-- unrooted `((a,b),(c,(d,f)),e)` with parent positions as a re-rooting leaves them -/
def witnessUnrooted : T :=
  nd 0 [(eb 0, nd 1 [(eb 1, lf "a"), (eb 2, lf "b" 0)]),
        (eb 3, nd 2 [(eb 4, lf "c"), (eb 5, nd 0 [(eb 6, lf "d"), (eb 7, lf "f")])]), (eb 8, lf "e")]

/-- rooted `(a,((b,c),(d,f)))`: a tip at the root, the NNI below it swaps the root side -/
def witnessRootedTip : T :=
  nd 0 [(eb 0, lf "a"), (eb 1, nd 0 [(eb 2, nd 1 [(eb 3, lf "b"), (eb 4, lf "c")]), (eb 5, nd 2 [(eb 6, lf "d"), (eb 7, lf "f")])])]

example : pposOK witnessUnrooted = true ∧ witnessUnrooted.binary = true ∧ witnessUnrooted.kids.length = 3 ∧
    (rearrangements witnessUnrooted).length = 6 := by decide
example : pposOK witnessRootedTip = true ∧ witnessRootedTip.binary = true ∧ witnessRootedTip.rooted = true ∧
    (witnessRootedTip.kids.filter (fun et => !et.2.isLeaf)).length = 1 ∧
    (rearrangements witnessRootedTip).length = 4 ∧ (rearrangements witnessRootedTip).any (·.bUp) = true := by decide
example : witnessUnrooted.tipNames.Nodup ∧ witnessRootedTip.tipNames.Nodup := by decide
/-- The orientation clause of `apply t r = some t'` has teeth: a variant of `Apply` that does not
    invert the central branch leaves a heap the α walk rejects, for the rearrangements of
    `witnessRootedTip` that swap the root side — while the model of the code succeeds on all. -/
theorem apply_no_inverse_fails :
    ((rearrangements witnessRootedTip).filter (·.bUp)).length = 2 ∧
    ((rearrangements witnessRootedTip).filter (·.bUp)).all (fun r => (applyNoInverse witnessRootedTip r).isNone) = true ∧
    (rearrangements witnessRootedTip).all (fun r => (apply witnessRootedTip r).isSome) = true := by
  decide

example : pposOK witnessRooted = true ∧ (witnessRooted.kids.filter (fun et => !et.2.isLeaf)).length = 2 := by decide


/- ## round 7: the whole-heap model of `Apply` / `Undo` for any history of calls (`Model/C17Global.lean`,
   tied by op `C17.hist`): what the `applied` flag does, that a failing call writes nothing, how many
   objects `Rearrange` builds, and a concrete history with a call that must fail -/

section Global
open Gotree.C17.G


theorem applyG_applied (g : GHeap) (n : GNNI) (h : n.applied = true) : applyG g n = (.ok, g, n) := by
  simp [applyG, h]

theorem undoG_not_applied (g : GHeap) (n : GNNI) (h : n.applied = false) : undoG g n = (.ok, g, n) := by
  simp [undoG, h]

theorem fail_out_ne_ok (f : Fail) : f.out ≠ .ok := by cases f <;> simp [Fail.out]

theorem applyG_err_unchanged (g : GHeap) (n : GNNI) (h : (applyG g n).1 ≠ .ok) : (applyG g n).2 = (g, n) := by
  unfold applyG at h ⊢
  cases ha : n.applied
  · simp only [ha] at h ⊢
    cases hc : applyCore g n with
    | ok g' => simp [hc] at h
    | error f => simp
  · simp

theorem undoG_err_unchanged (g : GHeap) (n : GNNI) (h : (undoG g n).1 ≠ .ok) : (undoG g n).2 = (g, n) := by
  unfold undoG at h ⊢
  cases ha : n.applied
  · simp
  · simp only [ha] at h ⊢
    cases hc : undoCore g n with
    | ok g' => simp [hc] at h
    | error f => simp

theorem applyG_ok_flag (g : GHeap) (n : GNNI) (h : (applyG g n).1 = .ok) : (applyG g n).2.2.applied = true := by
  unfold applyG at h ⊢
  cases ha : n.applied
  · simp only [ha] at h ⊢
    cases hc : applyCore g n with
    | ok g' => simp
    | error f => simp [hc] at h; exact absurd h (fail_out_ne_ok f)
  · simp [ha]

theorem undoG_ok_flag (g : GHeap) (n : GNNI) (h : (undoG g n).1 = .ok) : (undoG g n).2.2.applied = false := by
  unfold undoG at h ⊢
  cases ha : n.applied
  · simp [ha]
  · simp only [ha] at h ⊢
    cases hc : undoCore g n with
    | ok g' => simp
    | error f => simp [hc] at h; exact absurd h (fail_out_ne_ok f)

/-- a failing call of a history changes nothing -/
theorem step_err_unchanged (s : State) (st : Step) (h : (step s st).1 ≠ .ok) : (step s st).2 = s := by
  unfold step at h ⊢
  cases hn : s.objs[st.k]? with
  | none => simp
  | some n =>
    simp only [hn] at h ⊢
    have hk : st.k < s.objs.length := by
      rcases Nat.lt_or_ge st.k s.objs.length with h' | h'
      · exact h'
      · simp [List.getElem?_eq_none h'] at hn
    have hget : s.objs[st.k] = n := by
      have := List.getElem?_eq_getElem hk
      rw [this] at hn; exact Option.some.inj hn
    have key : ∀ r : Out × GHeap × GNNI, r.2 = (s.g, n) → (⟨r.2.1, s.objs.set st.k r.2.2⟩ : State) = s := by
      intro r hr
      rw [hr]; cases s; simp only [State.mk.injEq, true_and]
      rw [← hget]; exact List.set_getElem_self hk
    cases ha : st.isApply
    · simp only [ha] at h ⊢
      exact key _ (undoG_err_unchanged s.g n h)
    · simp only [ha] at h ⊢
      exact key _ (applyG_err_unchanged s.g n h)

def deg3G (g : GHeap) (e : GEdge) : Bool :=
  match g.nodes[e.left]?, g.nodes[e.right]? with
  | some L, some R => L.neigh.length == 3 && R.neigh.length == 3
  | _, _ => false

theorem proposeG_length (g : GHeap) (e : GEdge) : (proposeG g e).length = if deg3G g e then 2 else 0 := by
  unfold proposeG deg3G
  cases g.nodes[e.left]? <;> cases g.nodes[e.right]? <;> simp
  split <;> simp_all

theorem rearrangeG_length (g : GHeap) : (rearrangeG g).length = 2 * (g.edges.filter (deg3G g)).length := by
  unfold rearrangeG
  generalize g.edges = l
  induction l with
  | nil => rfl
  | cons e l ih =>
    simp only [List.flatMap_cons, List.length_append, ih, List.filter_cons, proposeG_length]
    split <;> simp <;> omega

theorem newNNIG_fields (g : GHeap) (n1 n2 : Nat) (c : Bool) (r : GNNI) (h : newNNIG g n1 n2 c = some r) :
    r.n1 = n1 ∧ r.n2 = n2 ∧ r.cross = c ∧ r.applied = false := by
  unfold newNNIG at h
  split at h
  · simp only at h
    split at h
    · cases h; exact ⟨rfl, rfl, rfl, rfl⟩
    · cases h
  · cases h

def quartet : GHeap :=
  ⟨[⟨[1, 2, 3], [0, 1, 2]⟩, ⟨[0], [0]⟩, ⟨[0], [1]⟩, ⟨[0, 4, 5], [2, 3, 4]⟩, ⟨[3], [3]⟩, ⟨[3], [4]⟩],
   [⟨0, 1⟩, ⟨0, 2⟩, ⟨0, 3⟩, ⟨3, 4⟩, ⟨3, 5⟩]⟩

def quartetObjs : List GNNI := [⟨0, 3, 1, 2, 4, 5, false, false⟩, ⟨0, 3, 1, 2, 4, 5, true, false⟩]

theorem hist_quartet :
    wfG quartet = true ∧ rearrangeG quartet = quartetObjs.map some ∧
    run ⟨quartet, quartetObjs⟩ [⟨0, true⟩, ⟨1, true⟩, ⟨0, true⟩, ⟨1, false⟩, ⟨0, false⟩] =
      ([.ok, .err "Cannot apply NNI with unconnected nodes n1 n1_2", .ok, .ok, .ok], ⟨quartet, quartetObjs⟩) := by
  decide

/-- frame: a successful `Apply` writes only the records of n1, n2, n1_2 and the swapped neighbour of n2;
    no record is created or lost -/
theorem applyCore_frame (g g' : GHeap) (n : GNNI) (h : applyCore g n = .ok g') :
    g'.nodes.length = g.nodes.length ∧ g'.edges.length = g.edges.length ∧
    ∀ y, y ≠ n.n1 → y ≠ n.n2 → y ≠ n.n12 → y ≠ (if n.cross then n.n21 else n.n22) → g'.nodes[y]? = g.nodes[y]? := by
  unfold applyCore at h
  simp only [errAt] at h
  repeat' (split at h)
  all_goals first
    | (cases h; done)
    | skip
  all_goals
    cases h
    refine ⟨?_, ?_, ?_⟩
    · simp [setNeigh_length, setBr_length]
    · simp only [reattach_length] <;> (first | (split <;> simp [inverse_length]) | simp [inverse_length])
    · intro y h1 h2 h3 h4
      split at h4
      all_goals first
        | contradiction
        | simp only [setNeigh_get_ne _ _ _ _ _ h1, setNeigh_get_ne _ _ _ _ _ h2, setNeigh_get_ne _ _ _ _ _ h3,
            setNeigh_get_ne _ _ _ _ _ h4, setBr_get_ne _ _ _ _ _ h1, setBr_get_ne _ _ _ _ _ h2]
/-- frame: a successful `Undo` writes only the records of the same four nodes;
    no record is created or lost -/
theorem undoCore_frame (g g' : GHeap) (n : GNNI) (h : undoCore g n = .ok g') :
    g'.nodes.length = g.nodes.length ∧ g'.edges.length = g.edges.length ∧
    ∀ y, y ≠ n.n1 → y ≠ n.n2 → y ≠ n.n12 → y ≠ (if n.cross then n.n21 else n.n22) → g'.nodes[y]? = g.nodes[y]? := by
  unfold undoCore at h
  simp only [errAt] at h
  repeat' (split at h)
  all_goals first
    | (cases h; done)
    | skip
  all_goals
    cases h
    refine ⟨?_, ?_, ?_⟩
    · simp [setNeigh_length, setBr_length]
    · simp only [reattach_length] <;> (first | (split <;> simp [inverse_length]) | simp [inverse_length])
    · intro y h1 h2 h3 h4
      split at h4
      all_goals first
        | contradiction
        | simp only [setNeigh_get_ne _ _ _ _ _ h1, setNeigh_get_ne _ _ _ _ _ h2, setNeigh_get_ne _ _ _ _ _ h3,
            setNeigh_get_ne _ _ _ _ _ h4, setBr_get_ne _ _ _ _ _ h1, setBr_get_ne _ _ _ _ _ h2]


/- the hypotheses of the theorems above are satisfiable: on the quartet both calls succeed, a call
   fails (the twin of a rearrangement in force), and the flag is set and cleared -/
example : ((applyCore quartet ⟨0, 3, 1, 2, 4, 5, false, false⟩).toOption.bind fun g' =>
    (undoCore g' ⟨0, 3, 1, 2, 4, 5, false, true⟩).toOption) = some quartet := by decide
example : (applyG quartet ⟨0, 3, 1, 2, 4, 5, false, false⟩).1 = .ok ∧
    (applyG (applyG quartet ⟨0, 3, 1, 2, 4, 5, false, false⟩).2.1 ⟨0, 3, 1, 2, 4, 5, true, false⟩).1 ≠ .ok := by decide
example : (g : GHeap) → g = quartet → (g.edges.filter (deg3G g)).length = 1 ∧ (rearrangeG g).length = 2 := by
  intro g h; subst h; decide

/-- ★ whole-heap round trip: on a heap where the six lookups of `Apply` succeed, the four nodes are
    distinct, n1_2 is not a neighbour of n2 nor the swapped node of n1 (a tree has no triangle), the
    three branches are distinct and join the nodes they sit between, `Undo` after `Apply` gives back
    the heap, record for record. -/
theorem undoCore_applyCore (g : GHeap) (n : GNNI) (x : Nat) (N1 N2 N12 X : GNode) (i0 i12 i1 i22 i2 e1 e2 ec : Nat) (E1 E2 EC : GEdge)
    (hx : x = if n.cross then n.n21 else n.n22)
    (g1 : g.nodes[n.n1]? = some N1) (g2 : g.nodes[n.n2]? = some N2) (g12 : g.nodes[n.n12]? = some N12) (gx : g.nodes[x]? = some X)
    (k0 : idx N1.neigh n.n2 = some i0) (k12 : idx N1.neigh n.n12 = some i12) (k1 : idx N12.neigh n.n1 = some i1)
    (k22 : idx N2.neigh x = some i22) (k2 : idx X.neigh n.n2 = some i2)
    (b1 : N1.br[i12]? = some e1) (b2 : N2.br[i22]? = some e2) (bc : N1.br[i0]? = some ec)
    (ge1 : g.edges[e1]? = some E1) (ge2 : g.edges[e2]? = some E2) (gec : g.edges[ec]? = some EC)
    (d1 : n.n1 ≠ n.n2) (d2 : n.n12 ≠ n.n1) (d3 : n.n12 ≠ n.n2) (d4 : x ≠ n.n1) (d5 : x ≠ n.n2) (d6 : x ≠ n.n12)
    (a1 : idx N2.neigh n.n12 = none) (a2 : idx N1.neigh x = none) (a3 : idx N12.neigh n.n2 = none) (a4 : idx X.neigh n.n1 = none)
    (c1 : e1 ≠ e2) (c2 : ec ≠ e1) (c3 : ec ≠ e2)
    (j1 : (E1.left = n.n1 ∧ E1.right = n.n12) ∨ (E1.left = n.n12 ∧ E1.right = n.n1))
    (j2 : (E2.left = n.n2 ∧ E2.right = x) ∨ (E2.left = x ∧ E2.right = n.n2)) :
    ∃ g', applyCore g n = .ok g' ∧ undoCore g' n = .ok g := by
  let inv : Bool := decide (E1.right = n.n1 ∨ E2.right = n.n2)
  refine ⟨applyRes g n x i12 i1 i22 i2 e1 e2 ec inv, applyCore_eq g n x N1 N2 N12 X i0 i12 i1 i22 i2 e1 e2 ec E1 E2 hx g1 g2 g12 gx k0 k12 k1 k22 k2 b1 b2 bc ge1 ge2, ?_⟩
  have hi : i12 ≠ i0 := by
    intro e; subst e
    have := idx_get _ _ _ k0; rw [idx_get _ _ _ k12] at this; exact d3 (Option.some.inj this)
  -- the records of the four nodes after Apply
  have g1' : (applyRes g n x i12 i1 i22 i2 e1 e2 ec inv).nodes[n.n1]? = some ⟨N1.neigh.set i12 x, N1.br.set i12 e2⟩ := by
    simp [applyRes, setNeigh_get, setBr_get, g1, d1, Ne.symm d2, Ne.symm d4]
  have g2' : (applyRes g n x i12 i1 i22 i2 e1 e2 ec inv).nodes[n.n2]? = some ⟨N2.neigh.set i22 n.n12, N2.br.set i22 e1⟩ := by
    simp [applyRes, setNeigh_get, setBr_get, g2, Ne.symm d1, Ne.symm d3, Ne.symm d5]
  have g12' : (applyRes g n x i12 i1 i22 i2 e1 e2 ec inv).nodes[n.n12]? = some ⟨N12.neigh.set i1 n.n2, N12.br⟩ := by
    simp [applyRes, setNeigh_get, setBr_get, g12, d2, d3, Ne.symm d6]
  have gx' : (applyRes g n x i12 i1 i22 i2 e1 e2 ec inv).nodes[x]? = some ⟨X.neigh.set i2 n.n1, X.br⟩ := by
    simp [applyRes, setNeigh_get, setBr_get, gx, d4, d5, d6]
  -- the branches after Apply
  have ge1' : (applyRes g n x i12 i1 i22 i2 e1 e2 ec inv).edges[e1]? = some (if E1.left = n.n1 then ⟨n.n2, E1.right⟩ else ⟨E1.left, n.n2⟩) := by
    simp only [applyRes]
    cases inv <;> simp [reattach_get, inverse_get, c1, Ne.symm c2, ge1]
  have ge2' : (applyRes g n x i12 i1 i22 i2 e1 e2 ec inv).edges[e2]? = some (if E2.left = n.n2 then ⟨n.n1, E2.right⟩ else ⟨E2.left, n.n1⟩) := by
    simp only [applyRes]
    cases inv <;> simp [reattach_get, inverse_get, Ne.symm c1, Ne.symm c3, ge2]
  have l12 : i12 < N1.br.length := (List.getElem?_eq_some_iff.mp b1).1
  have l22 : i22 < N2.br.length := (List.getElem?_eq_some_iff.mp b2).1
  have hu := undoCore_eq (applyRes g n x i12 i1 i22 i2 e1 e2 ec inv) n x _ _ _ _ i0 i22 i1 i12 i2 e2 e1 ec _ _ hx g1' g2' g12' gx'
    (idx_set_other _ _ _ _ _ k0 hi d5) (idx_set_new _ _ _ a1 (idx_lt _ _ _ k22)) (idx_set_new _ _ _ a3 (idx_lt _ _ _ k1))
    (idx_set_new _ _ _ a2 (idx_lt _ _ _ k12)) (idx_set_new _ _ _ a4 (idx_lt _ _ _ k2))
    (by simp [l12]) (by simp [l22]) (by simp [List.getElem?_set_ne hi, bc]) ge2' ge1'
  rw [hu]
  -- the test in front of Inverse gives the same answer
  have hinv : decide ((if E1.left = n.n1 then (⟨n.n2, E1.right⟩ : GEdge) else ⟨E1.left, n.n2⟩).right = n.n2 ∨
      (if E2.left = n.n2 then (⟨n.n1, E2.right⟩ : GEdge) else ⟨E2.left, n.n1⟩).right = n.n1) = inv := by
    rcases j1 with ⟨p, q⟩ | ⟨p, q⟩ <;> rcases j2 with ⟨r, t⟩ | ⟨r, t⟩ <;> simp [inv, p, q, r, t, d2, d3, d4, d5]
  rw [hinv]
  congr 1
  have hn := nodes_back g n x N1 N2 N12 X i12 i1 i22 i2 e1 e2 ec ec inv inv g1 g2 g12 gx d1 d2 d3 d4 d5 d6
    (idx_get _ _ _ k12) (idx_get _ _ _ k1) (idx_get _ _ _ k22) (idx_get _ _ _ k2) b1 b2
  have he := edges_back g n x i12 i1 i22 i2 e1 e2 ec E1 E2 EC inv ge1 ge2 gec d1 d2 d3 d4 d5 c1 c2 c3 j1 j2
  have ext : ∀ a b : GHeap, a.nodes = b.nodes → a.edges = b.edges → a = b := by
    intro a b h1 h2; cases a; cases b; simp_all
  exact ext _ _ hn he


theorem undoCore_applyCore_site (g : GHeap) (n : GNNI) (h : siteOK g n = true) :
    ∃ g', applyCore g n = .ok g' ∧ undoCore g' n = .ok g := by
  unfold siteOK at h
  split at h
  · split at h
    · split at h
      · split at h
        · rename_i N1 N2 N12 X g1 g2 g12 gx _ _ _ _ _ i0 i12 i1 i22 i2 k0 k12 k1 k22 k2 _ _ _ e1 e2 ec b1 b2 bc _ _ _ E1 E2 EC ge1 ge2 gec
          simp only [Bool.and_eq_true, bne_iff_ne, ne_eq, Option.isNone_iff_eq_none, Bool.or_eq_true, beq_iff_eq] at h
          obtain ⟨⟨⟨⟨⟨⟨⟨⟨⟨⟨⟨⟨⟨⟨d1, d2⟩, d3⟩, d4⟩, d5⟩, d6⟩, a1⟩, a2⟩, a3⟩, a4⟩, c1⟩, c2⟩, c3⟩, j1⟩, j2⟩ := h
          exact undoCore_applyCore g n _ N1 N2 N12 X i0 i12 i1 i22 i2 e1 e2 ec E1 E2 EC rfl g1 g2 g12 gx k0 k12 k1 k22 k2 b1 b2 bc
            ge1 ge2 gec d1 d2 d3 d4 d5 d6 a1 a2 a3 a4 c1 c2 c3 j1 j2
        · cases h
      · cases h
    · cases h
  · cases h


/-- in a history: `Apply` of rearrangement `k` directly followed by its `Undo` gives back the whole
    state (heap and objects), both calls answering ok -/
theorem run_apply_undo (s : State) (k : Nat) (n : GNNI) (hk : s.objs[k]? = some n) (hf : n.applied = false)
    (hs : siteOK s.g n = true) : run s [⟨k, true⟩, ⟨k, false⟩] = ([.ok, .ok], s) := by
  obtain ⟨g', ha, hu⟩ := undoCore_applyCore_site s.g n hs
  have hlt : k < s.objs.length := by
    rcases Nat.lt_or_ge k s.objs.length with h | h
    · exact h
    · simp [List.getElem?_eq_none h] at hk
  have hu' : undoCore g' { n with applied := true } = .ok s.g := by
    have : undoCore g' { n with applied := true } = undoCore g' n := by
      unfold undoCore; rfl
    rw [this]; exact hu
  have hn : { n with applied := false } = n := by cases n; simp_all
  have hset : s.objs.set k n = s.objs := by
    have := (List.getElem?_eq_some_iff.mp hk).2
    rw [← this]; exact List.set_getElem_self hlt
  simp only [run, step, hk, applyG, hf, ha, Bool.false_eq_true, if_false, List.getElem?_set_self hlt, undoG, List.set_set]
  cases s
  simp_all

example : siteOK quartet ⟨0, 3, 1, 2, 4, 5, false, false⟩ = true ∧ siteOK quartet ⟨0, 3, 1, 2, 4, 5, true, false⟩ = true := by decide

end Global

end Gotree.C17
