import Driver.Proto
import Gotree.Spec.C04
import Gotree.Model.C04Dump
import Gotree.Spec.Splits

namespace Gotree.Driver.C04
open Gotree Gotree.Driver Gotree.C04

/- ## small helpers (protocol) -/

def parseU64 (s : String) : Option UInt64 := s.toNat?.map UInt64.ofNat

def parseU64List (s : String) : Option (List UInt64) := (splitTerm "," s).mapM parseU64

def parseBits (s : String) : Option (List Bool) :=
  s.toList.mapM fun c => if c == '0' then some false else if c == '1' then some true else none

def parseBitRows (s : String) : Option (List (List Bool)) := (splitTerm ";" s).mapM parseBits

structure Obs where
  bits : List Bool
  nl : Int
  nr : Int
  td : Option Int
  hc : UInt64

def parseObs (s : String) : Option Obs :=
  match s.splitOn ":" with
  | [b, nl, nr, td, hc] =>
    match parseBits b, nl.toInt?, nr.toInt?, parseU64 hc with
    | some b, some nl, some nr, some hc =>
      if td == "e" then some ⟨b, nl, nr, none, hc⟩
      else match td.toInt? with
        | some d => some ⟨b, nl, nr, some d, hc⟩
        | none => none
    | _, _, _, _ => none
  | _ => none

mutual
def multifT : T → Bool
  | .node _ _ k => k.length > 2 || multifL k
def multifL : Kids → Bool
  | [] => false
  | (_, t) :: r => multifT t || multifL r
end

def treeTags (t : T) : List String :=
  tagIf t.rooted "rooted" ++ tagIf (t.kids.length == 1) "roottip" ++ tagIf (t.kids.length ≥ 3) "unrooted" ++
  tagIf (multifL t.kids) "multif" ++ tagIf (!t.noSingle) "singles" ++ tagIf (t.tipNames.length > 64) "over64tips"

def findIdx? {α : Type} (p : α → Bool) (l : List α) : Option Nat :=
  let rec go : List α → Nat → Option Nat
    | [], _ => none
    | a :: r, i => if p a then some i else go r (i + 1)
  go l 0

/- ## C04.index -/

/-- the per-branch oracle on one observation of the indexes (ranks, branch records) against the tree:
    `none` = all right, `some reason` otherwise -/
def judgeObs (t : T) (tips : List String) (rk : List String) (os : List Obs) : Option String :=
  let sp := t.splits
  if rk != sortNames tips then some "tip ranks are not the sorted tip names"
  else if os.length != sp.length then some "number of branch records"
  else
    match findIdx? (fun (so : SplitE × Obs) => !(branchOK tips so.1.below so.2.bits so.2.nl so.2.nr so.2.td)) (sp.zip os) with
    | some i => some ("branch " ++ toString i ++ ": recorded bitset/counts/depth differ from the split of the branch")
    | none =>
      let vs := (sp.map fun s => memVec tips s.below).zip (os.map (·.hc))
      if tips.length ≤ 80 && (vs.any fun (va, ha) => vs.any fun (vb, hb) => sameSplitV va vb && ha != hb) then
        some "two branches of the tree define the same split and have different hash codes"
      else none

/-- `Node.Depth()` of every node after the recompute against "distance to the closest tip"; `d0` = the depths the
    nodes carried before it (finding F98, repaired by 7dc6678: they no longer matter). -/
def judgeDepths (t : T) (d0 d1 : String) (tags : List String) : Verdict :=
  match parseIntList d0, parseIntList d1 with
  | some b, some a =>
    let want := specDepths t
    let stale := b.any (· != -1)
    let unrooted := t.kids.length != 2
    let tags := tags ++ tagIf stale "depths-set-before" ++ tagIf (stale && unrooted) "depths-set-before-unrooted" ++
      tagIf (unrooted && computeDepthsPinned t b != want) "pinned-depths-would-be-stale"
    let m := computeDepths t b
    if a != want then
      let i := (findIdx? (fun (p : Int × Int) => p.1 != p.2) (a.zip want)).getD 0
      ⟨.oracle, tags, "Node.Depth() of node " ++ toString i ++ " (pre-order) is " ++ toString (a.getD i (-9)) ++
        ", the closest tip is at " ++ toString (want.getD i (-9))⟩
    else if m != a then ⟨.tie, tags, "model ComputeDepths differs"⟩
    else ⟨.pass, tags, ""⟩
  | _, _ => bad "C04.index depths"

def handleIndex (script outcome dump ranks obs enum after2 rk0 obs0 d0 d1 : String) : Verdict :=
  if outcome == "malformed" then
    -- `dump` = the heap problems, `ranks` = the outcome of every step, `obs` = the first step after which
    -- the heap was malformed
    match parseStrList ranks, obs.toInt? with
    | some log, some fb =>
      let res := if fb < 0 then "?" else log.getD fb.toNat "?"
      if res == "err" || res.startsWith "panic" then
        ⟨.pass, ["skip-malformed-by-failed-edit"], ""⟩     -- the step that broke the heap returned an error: C03's business
      else ⟨.oracle, ["malformed-by-successful-edit"], "step " ++ toString fb ++ " reported success and left the heap malformed: " ++ dump⟩
    | _, _ => bad "C04.index malformed log"
  else
  match T.undump dump, parseStrList script with
  | some t, some sc =>
    let tips := t.tipNames
    let uniq : Bool := decide tips.Nodup
    let edited := sc.any fun s => s != "reinit" && s != "internal"
    let stale := sc.head? == some "reinit" && edited
    let inner := t.splits.any fun s => 2 ≤ specTopoDepth tips s.below
    let internal := sc.getLast? == some "internal"
    let tags := treeTags t ++ tagIf uniq "uniq" ++ tagIf edited "edited" ++ tagIf stale "stale-index-before-edit" ++ tagIf internal "ReinitInternalIndexes" ++
      tagIf (uniq && inner) "nontrivial" ++ tagIf (tips.length ≥ 3) "ge3tips"
    -- the model: ReinitIndexes, or ReinitInternalIndexes with the tip index of the earlier ReinitIndexes
    -- (the scripts that end with it do not touch the tips: that index is the sorted names)
    let model := if internal then reinitInternalLit fnv1a (sortNames tips) t else reinitLit3 fnv1a t
    if !uniq || tips.length == 0 then
      -- outside the property (names not unique / no tip): only the tie is looked at
      match model, outcome with
      | .err _, "err" => ⟨.pass, "refused" :: tags, ""⟩
      | _, _ => ⟨.tie, tags, "model and implementation disagree on refusing the tree: " ++ outcome⟩
    else if outcome != "ok" then ⟨.oracle, tags, "ReinitIndexes failed on a tree with unique tip names: " ++ outcome⟩
    else if after2 != dump then ⟨.oracle, tags, "re-indexing changed the tree itself"⟩
    else
    -- the indexes as the last edit left them by its own recompute (before the explicit re-index)
    let own : Option Verdict :=
      if obs0 == "" then none else
      let tags := "own-recompute" :: tags
      match parseStrList rk0, (splitTerm ";" obs0).mapM parseObs with
      | some rk, some os =>
        (match judgeObs t tips rk os with
         | some why => some ⟨.oracle, tags, "indexes left by the edit's own recompute: " ++ why⟩
         | none =>
           match model with
           | .ok (_, mi) =>
             if mi.length == os.length && (mi.zip os).all (fun (mo : EdgeIdx × Obs) => mo.1.bits == mo.2.bits &&
                 (mo.1.nleft : Int) == mo.2.nl && (mo.1.nright : Int) == mo.2.nr &&
                 mo.1.topoDepth.map (fun (x : Nat) => (x : Int)) == mo.2.td && mo.1.hashCode == mo.2.hc) then none
             else some ⟨.tie, tags, "model index differs from the indexes left by the edit's own recompute"⟩
           | .err _ => none)
      | _, _ => some ⟨.oracle, tags, "indexes left by the edit's own recompute are unreadable (nil / other width bitsets, ranks): " ++ String.ofList (obs0.toList.take 60)⟩
    match own with
    | some v => v
    | none =>
    let tags := tags ++ tagIf (obs0 != "") "own-recompute"
    match parseStrList ranks, (splitTerm ";" obs).mapM parseObs, (splitTerm ";" enum).mapM parseIntList with
    | some rk, some os, some [eAll, eInt, eTip] =>
      let sp := t.splits
      let idxs := (List.range sp.length).map fun (i : Nat) => (i : Int)
      let kinds := sp.map (·.tip)
      let expInt := (idxs.zip kinds).filterMap fun (i, tp) => if tp then none else some i
      let expTip := (idxs.zip kinds).filterMap fun (i, tp) => if tp then some i else none
      if eAll != idxs then ⟨.oracle, tags, "Edges() is not the list of the branches of the tree in pre-order"⟩
      else if eInt != expInt then ⟨.oracle, tags, "InternalEdges() is not the list of the branches above inner nodes"⟩
      else if eTip != expTip then ⟨.oracle, tags, "TipEdges() is not the list of the branches above tips"⟩
      else if rk != sortNames tips then ⟨.oracle, tags, "tip ranks are not the sorted tip names"⟩
      else if os.length != sp.length then ⟨.bad, tags, "number of branches"⟩
      else
        match findIdx? (fun (so : SplitE × Obs) => !(branchOK tips so.1.below so.2.bits so.2.nl so.2.nr so.2.td)) (sp.zip os) with
        | some i => ⟨.oracle, tags, "branch " ++ toString i ++ ": recorded bitset/counts/depth differ from the split of the branch"⟩
        | none =>
          -- equal splits inside the one tree (both root branches of a rooted tree, the two sides of a
          -- single-child node) must have the same hash code
          let vs := (sp.map fun s => memVec tips s.below).zip (os.map (·.hc))
          let small := tips.length ≤ 80
          let clash := if small then vs.any fun (va, ha) => vs.any fun (vb, hb) => sameSplitV va vb && ha != hb else false
          let twins := small && ((List.range vs.length).zip vs).any fun (i, (va, _)) =>
            ((List.range vs.length).zip vs).any fun (j, (vb, _)) => i != j && sameSplitV va vb
          let tags := tags ++ tagIf twins "equal-splits-in-one-tree"
          if clash then ⟨.oracle, tags, "two branches of the tree define the same split and have different hash codes"⟩ else
          match model with
          | .err m => ⟨.tie, tags, "model refuses: " ++ m⟩
          | .ok (ms, mi) =>
            if ms != rk then ⟨.tie, tags, "model ranks"⟩ else
            match findIdx? (fun (mo : EdgeIdx × Obs) =>
                !(mo.1.bits == mo.2.bits && (mo.1.nleft : Int) == mo.2.nl && (mo.1.nright : Int) == mo.2.nr &&
                  mo.1.topoDepth.map (fun (x : Nat) => (x : Int)) == mo.2.td && mo.1.hashCode == mo.2.hc)) (mi.zip os) with
            | some i => ⟨.tie, tags, "branch " ++ toString i ++ ": model index differs (hash code or fields)"⟩
            | none => if mi.length != os.length then ⟨.tie, tags, "model branch count"⟩ else judgeDepths t d0 d1 tags
    | _, _, _ =>
      -- a bitset of another width, a nil bitset, unusable ranks: the observation itself is wrong
      ⟨.oracle, tags, "unreadable index observation (bitset width / ranks / enumerations): " ++ String.ofList (ranks.toList.take 40)⟩
  | _, _ => bad "C04.index fields"

/- ## C04.pairs -/

def getD2 (m : List (List Bool)) (i j : Nat) : Bool := (m.getD i []).getD j false

def handlePairs (d1 d2 outcome hc1 hc2 heq sb fe ce : String) : Verdict :=
  match T.undump d1, T.undump d2 with
  | some t1, some t2 =>
    let tips1 := t1.tipNames
    let tips2 := t2.tipNames
    let uniq : Bool := decide tips1.Nodup && decide tips2.Nodup
    let sameTaxa := sortNames tips1 == sortNames tips2
    let b1 := t1.splits.map (·.below)
    let b2 := t2.splits.map (·.below)
    -- `sameSplit tips1 a b`, evaluated through membership vectors (theorem `sameSplit_vec`)
    let v1 := b1.map (memVec tips1)
    let v2 := b2.map (memVec tips1)
    let rel := v1.map fun a => v2.map fun b => sameSplitV a b
    let twoPres := ((b1.zip v1).any fun (a, va) => (b2.zip v2).any fun (b, vb) => sameSplitV va vb && a != b) && rel.any (·.any (!·))
    let tags := treeTags t1 ++ tagIf uniq "uniq" ++ tagIf sameTaxa "sametaxa" ++
      tagIf (uniq && sameTaxa && twoPres) "nontrivial" ++ tagIf (t1.rooted != t2.rooted) "rooted-vs-unrooted"
    let showCE (o : Option (Int × Int)) : String := match o with
      | none => "err;" | some (a, b) => toString a ++ "," ++ toString b ++ ";"
    if uniq && !sameTaxa && tips1.length != 0 && outcome == "ok" then
      -- other taxa: `CommonEdges` must refuse; the rest is meaningless
      let mce := match reinitLit3 fnv1a t1, reinitLit3 fnv1a t2 with
        | .ok (_, m1), .ok (_, m2) =>
          String.join ([false, true].map fun te => showCE (commonEdges tips1 tips2 (m1.zip (t1.splits.map (·.tip))) (m2.zip (t2.splits.map (·.tip))) te))
        | _, _ => "?"
      if ce != "err;err;" then ⟨.oracle, "other-taxa" :: tags, "CommonEdges accepts trees on different taxa: " ++ ce⟩
      else if mce != ce then ⟨.tie, "other-taxa" :: tags, "model CommonEdges " ++ mce⟩
      else ⟨.pass, "other-taxa" :: "refused" :: tags, ""⟩
    else
    if !uniq || !sameTaxa || tips1.length == 0 then ⟨.pass, "skip-outside" :: tags, ""⟩
    else if outcome != "ok" then ⟨.oracle, tags, "indexing or comparing failed on trees with unique tips: " ++ outcome⟩
    else
    match parseU64List hc1, parseU64List hc2, parseBitRows heq, parseBitRows sb with
    | some h1, some h2, some me, some ms =>
      if h1.length != b1.length || h2.length != b2.length || me.length != b1.length || ms.length != b1.length then bad "C04.pairs sizes" else
      let idx := (List.range b1.length).flatMap fun i => (List.range b2.length).map fun j => (i, j)
      let bad1 := idx.find? fun (i, j) =>
        let same := getD2 rel i j
        getD2 me i j != same || getD2 ms i j != same || (same && h1.getD i 0 != h2.getD j 1)
      match bad1 with
      | some (i, j) =>
        let same := getD2 rel i j
        let what := if same && h1.getD i 0 != h2.getD j 1 then "same split, different hash codes"
          else if getD2 me i j != same then "HashEquals differs from 'same split'"
          else "SameBipartition differs from 'same split'"
        ⟨.oracle, tags, "branches " ++ toString i ++ "/" ++ toString j ++ ": " ++ what⟩
      | none =>
        -- FindEdge: found iff the other tree has the same split on a branch of the same kind
        let feSpec := String.ofList ((t1.splits.zip v1).map fun (s, va) =>
          if (t2.splits.zip v2).any (fun (s2, vb) => s.tip == s2.tip && sameSplitV va vb) then '1' else '0')
        if fe != feSpec then ⟨.oracle, tags, "FindEdge differs from 'same split on a branch of the same kind': " ++ fe ++ " expected " ++ feSpec⟩ else
        let ceSpec := String.join ([false, true].map fun te => showCE (some (specCommon tips1 te t1.splits t2.splits)))
        if ce != ceSpec then ⟨.oracle, tags, "CommonEdges differs from the count of shared splits: " ++ ce ++ " expected " ++ ceSpec⟩ else
        match reinitLit3 fnv1a t1, reinitLit3 fnv1a t2 with
        | .ok (_, m1), .ok (_, m2) =>
          let ceModel := String.join ([false, true].map fun te =>
            showCE (commonEdges tips1 tips2 (m1.zip (t1.splits.map (·.tip))) (m2.zip (t2.splits.map (·.tip))) te))
          if ceModel != ce then ⟨.tie, tags, "model CommonEdges " ++ ceModel⟩ else
          let feModel := String.ofList ((m1.zip (t1.splits.map (·.tip))).map fun (e, tp) =>
            match findEdge e tp (m2.zip (t2.splits.map (·.tip))) with
            | none => 'e' | some true => '1' | some false => '0')
          if feModel != fe then ⟨.tie, tags, "model FindEdge differs"⟩ else
          if m1.map (·.hashCode) != h1 || m2.map (·.hashCode) != h2 then ⟨.tie, tags, "model hash codes differ"⟩
          else if (m1.map fun a => m2.map fun b => a.equals b) != me then ⟨.tie, tags, "model HashEquals relation differs"⟩
          else if (m1.map fun a => m2.map fun b => a.sameBipartition b) != ms then ⟨.tie, tags, "model SameBipartition relation differs"⟩
          else ⟨.pass, tags, ""⟩
        | _, _ => ⟨.tie, tags, "model refuses"⟩
    | _, _, _, _ => bad "C04.pairs observation"
  | _, _ => bad "C04.pairs dumps"

/- ## C04.hm -/

abbrev K := Nat × Nat

def hashOf (mode : Nat) (k : K) : UInt64 :=
  match mode with
  | 0 => UInt64.ofNat k.1
  | 1 => 0
  | 2 => UInt64.ofNat (k.1 % 3)
  | 3 => UInt64.ofNat k.1 * 128
  | 4 => (0 : UInt64) - 1 - UInt64.ofNat (k.1 % 2)
  | _ => UInt64.ofNat k.1 * 0x9E3779B97F4A7C15

def eqvK (a b : K) : Bool := a.1 == b.1

/-- the rehash decision with an exact (unrounded) product — only used for the evidence tag
    `float-rounding-decides` (cases where the rounding of `float64(capacity)*loadfactor` matters) -/
def policyRat (lf : Rat) (total cap : Nat) : Bool := (total : Rat) ≥ (cap : Rat) * lf

/-- the policy the driver runs: the code's own float computation (`goPolicy`) -/
def policyOf (lf : Rat) : Nat → Nat → Bool := goPolicy (floatOfRat lf)

def parseHMOp (s : String) : Option (HMOp K Int) :=
  match s.toList with
  | 'p' :: r =>
    match (String.ofList r).splitOn "." with
    | [a, b, v] => match a.toNat?, b.toNat?, v.toInt? with
      | some a, some b, some v => some (.put (a, b) v)
      | _, _, _ => none
    | _ => none
  | 'g' :: r =>
    match (String.ofList r).splitOn "." with
    | [a, b] => match a.toNat?, b.toNat? with
      | some a, some b => some (.get (a, b))
      | _, _ => none
    | _ => none
  | ['k'] => some .kvs
  | ['y'] => some .keys
  | _ => none

def parseKV (s : String) : Option (K × Int) :=
  match s.splitOn "." with
  | [a, b, v] => match a.toNat?, b.toNat?, v.toInt? with
    | some a, some b, some v => some ((a, b), v)
    | _, _, _ => none
  | _ => none

def parseHMOut (s : String) : Option (HMOut K Int) :=
  match s.toList with
  | ['u'] => some .unit
  | ['n'] => some (.val none)
  | 'v' :: r => (String.ofList r).toInt?.map fun v => .val (some v)
  | 'K' :: r =>
    -- a nil entry in the slice returned by `KeyValues` is reported like a panic
    match (splitTerm "/" (String.ofList r)).mapM parseKV with
    | some l => some (.kvs l)
    | none => some .panic
  | 'P' :: _ => some .panic
  | 'Y' :: r =>
    match (splitTerm "/" (String.ofList r)).mapM (fun s => match s.splitOn "." with
        | [a, b] => (match a.toNat?, b.toNat? with | some a, some b => some (a, b) | _, _ => none)
        | _ => none) with
    | some l => some (.keys l)
    | none => some .panic
  | _ => none

def simAll {κ ν : Type} [DecidableEq κ] [DecidableEq ν] (a b : List (HMOut κ ν)) : Bool :=
  a.length == b.length && (List.zipWith HMOut.simB a b).all id

/-- the final state of the model map (for the evidence tags) -/
def finalHM {κ ν : Type} (hash : κ → UInt64) (eqv : κ → κ → Bool) (policy : Nat → Nat → Bool) :
    List (κ × ν) → HM κ ν → HM κ ν
  | [], m => m
  | (k, v) :: r, m => match m.put hash eqv policy k v with
    | some m' => finalHM hash eqv policy r m'
    | none => m

def hmTags {κ ν : Type} (cap0 : Nat) (m : HM κ ν) : List String :=
  tagIf (m.cap > (if cap0 == 0 then 1 else cap0)) "rehash" ++ tagIf (m.buckets.any (·.length ≥ 2)) "collision" ++
  tagIf (cap0 == 0) "cap0"

def handleHM (caps lfs modes opss repliess : String) : Verdict :=
  match caps.toNat?, parseRat? lfs, modes.toNat?, parseStrList opss, parseStrList repliess with
  | some cap, some lf, some mode, some ops, some replies =>
    match ops.mapM parseHMOp, replies.mapM parseHMOut with
    | some ops, some outs =>
      let puts := ops.filterMap fun | .put k v => some (k, v) | _ => none
      let fin := finalHM (hashOf mode) eqvK (policyOf lf) puts (HM.new cap)
      let ht := hmTags cap fin
      let tags := ht ++ tagIf (ht.contains "rehash" && ht.contains "collision") "nontrivial" ++ ["mode" ++ toString mode]
      let spec := Assoc.run eqvK ops []
      let mouts := HM.run (hashOf mode) eqvK (policyOf lf) ops (HM.new cap)
      -- fidelity figure only: the model's KeyValues come in the very order of the implementation's
      let sameOrder := mouts.length == outs.length && (List.zipWith (fun (a b : HMOut K Int) =>
        match a, b with | .kvs x, .kvs y => x == y | _, _ => true) mouts outs).all id
      let finR := finalHM (hashOf mode) eqvK (policyRat lf) puts (HM.new cap)
      let tags := tags ++ tagIf sameOrder "kv-order-exact" ++ tagIf (!sameOrder) "kv-order-differs" ++
        tagIf (finR.cap != fin.cap) "float-rounding-decides"
      if !(simAll spec outs) then ⟨.oracle, tags, "map replies differ from a plain map"⟩
      else if !(simAll mouts outs) then ⟨.tie, tags, "model map replies differ"⟩
      else ⟨.pass, tags, ""⟩
    | _, _ => bad "C04.hm ops/replies"
  | _, _, _, _, _ => bad "C04.hm fields"

/- ## C04.ei -/

def parseEdgeRef (a b : String) : Option (Nat × Nat) :=
  match a.toNat?, b.toNat? with
  | some a, some b => some (a, b)
  | _, _ => none

/-- ops with keys = (tree, branch) references -/
def parseEIOp (lens : Nat × Nat → Rat) (s : String) : Option (EIOp (Nat × Nat)) :=
  match s.toList with
  | 'a' :: r =>
    match (String.ofList r).splitOn "." with
    | [a, b] => (parseEdgeRef a b).map fun k => .add k (lens k)
    | _ => none
  | 'p' :: r =>
    match (String.ofList r).splitOn "." with
    | [a, b, c, l] => match parseEdgeRef a b, c.toInt?, parseRat? l with
      | some k, some c, some l => some (.putv k c l)
      | _, _, _ => none
    | _ => none
  | 'v' :: r =>
    match (String.ofList r).splitOn "." with
    | [a, b] => (parseEdgeRef a b).map .value
    | _ => none
  | 'e' :: r =>
    match (String.ofList r).splitOn "." with
    | [a, b] => match a.toInt?, b.toInt? with
      | some a, some b => some (.edges a b)
      | _, _ => none
    | _ => none
  | ['u'] => some .unindexed
  | _ => none

def parseEIOut (s : String) : Option EIOut :=
  match s.toList with
  | ['u'] => some .unit
  | ['n'] => some (.val none)
  | 'v' :: r =>
    match (String.ofList r).splitOn "." with
    | [c, l] => match c.toInt?, parseRat? l with
      | some c, some l => some (.val (some ⟨c, l⟩))
      | _, _ => none
    | _ => none
  | 'E' :: r => (((String.ofList r).splitOn ":").head?.bind (·.toNat?)).map .nedges
  | ['e', 'r', 'r'] => some .err
  | 'P' :: _ => some .panic
  | _ => none

/-- what `EdgeIndex.Edges` must return at every `edges` op of a script, from the plain-map state:
    the kept entries as sorted `tree.branch_count_length` strings (key = the branch first inserted) -/
def specEdgesContents (eqv : Nat × Nat → Nat × Nat → Bool) :
    List (EIOp (Nat × Nat)) → List ((Nat × Nat) × EIInfo) → List (List String)
  | [], _ => []
  | .add k len :: r, a =>
    specEdgesContents eqv r (match Assoc.get eqv k a with
      | none => Assoc.put eqv k ⟨1, len⟩ a
      | some v => Assoc.put eqv k ⟨v.count + 1, v.len + len⟩ a)
  | .putv k c l :: r, a => specEdgesContents eqv r (Assoc.put eqv k ⟨c, l⟩ a)
  | .value _ :: r, a => specEdgesContents eqv r a
  | .edges mn mx :: r, a =>
    sortStrings ((a.filter fun kv => eiKeep mn mx kv.2).map fun kv =>
      toString kv.1.1 ++ "." ++ toString kv.1.2 ++ "_" ++ toString kv.2.count ++ "_" ++ showRat kv.2.len) ::
      specEdgesContents eqv r a
  | .unindexed :: r, a => specEdgesContents eqv r a

def mapKey {κ κ' : Type} (f : κ → κ') : EIOp κ → EIOp κ'
  | .add k l => .add (f k) l
  | .putv k c l => .putv (f k) c l
  | .value k => .value (f k)
  | .edges a b => .edges a b
  | .unindexed => .unindexed

def handleEI (dumps caps lfs opss outcome repliess : String) : Verdict :=
  match (splitTerm "|" dumps).mapM T.undump, caps.toNat?, parseRat? lfs, parseStrList opss, parseStrList repliess with
  | some ts, some cap, some lf, some ops, some replies =>
    match ts with
    | [] => bad "C04.ei no tree"
    | t0 :: _ =>
    let tips := t0.tipNames
    let uniq : Bool := ts.all fun t => decide t.tipNames.Nodup
    let sameTaxa := ts.all fun t => sortNames t.tipNames == sortNames tips
    if !uniq || !sameTaxa || tips.length == 0 then ⟨.pass, ["skip-outside"], ""⟩ else
    if outcome != "ok" then ⟨.oracle, [], "ReinitIndexes failed on a tree with unique tips"⟩ else
    let sps := ts.map (·.splits)
    let entry (k : Nat × Nat) : Option SplitE := (sps.getD k.1 [])[k.2]?
    let lens (k : Nat × Nat) : Rat := match entry k with | some s => s.e.len | none => 0
    let below (k : Nat × Nat) : List String := match entry k with | some s => s.below | none => []
    match ops.mapM (parseEIOp lens), replies.mapM parseEIOut with
    | some ops, some outs =>
      let eqvS (a b : Nat × Nat) : Bool := sameSplit tips (below a) (below b)
      let spec := Assoc.runEI eqvS ops []
      -- model: keys are the model's own index records
      let idxs := ts.map fun t => match reinitLit3 fnv1a t with | .ok (_, l) => l | .err _ => []
      let dflt : EdgeIdx := ⟨[], 0, 0, 0, 0⟩
      let keyOf (k : Nat × Nat) : EdgeIdx := ((idxs.getD k.1 [])[k.2]?).getD dflt
      let mops := ops.map (mapKey keyOf)
      let puts := mops.filterMap fun | .add k _ => some (k, (⟨0, 0⟩ : EIInfo)) | .putv k _ _ => some (k, ⟨0, 0⟩) | _ => none
      let fin := finalHM EdgeIdx.hashCode EdgeIdx.equals (policyOf lf) puts (HM.new cap)
      let ht := hmTags cap fin
      let twoPres := ops.any fun | .value k => (ops.any fun | .add k' _ => k != k' && eqvS k k' | _ => false) | _ => false
      let tags := ht ++ tagIf twoPres "two-presentations" ++ tagIf (ts.length ≥ 2) "several-trees" ++
        tagIf (twoPres && ht.contains "rehash") "nontrivial"
      -- the contents of every `Edges` reply (read by reflection in the harness)
      let contents := replies.filterMap fun r =>
        if r.startsWith "E" then some (match r.splitOn ":" with
          | [_, c] => sortStrings ((c.splitOn "|").filter (· != ""))
          | _ => []) else none
      if spec != outs then ⟨.oracle, tags, "EdgeIndex replies differ from a plain map keyed by the split"⟩
      else if contents != specEdgesContents eqvS ops [] then ⟨.oracle, tags, "EdgeIndex.Edges does not return the entries of the plain map within the count bounds"⟩
      else if EI.run EdgeIdx.hashCode EdgeIdx.equals (policyOf lf) mops (HM.new cap) != outs then ⟨.tie, tags, "model EdgeIndex replies differ"⟩
      else ⟨.pass, tags, ""⟩
    | _, _ => bad "C04.ei ops/replies"
  | _, _, _, _, _ => bad "C04.ei fields"

/- ## C04.quartet -/

def perms4 : List (Nat × Nat × Nat × Nat) :=
  (List.range 4).flatMap fun a => (List.range 4).flatMap fun b => (List.range 4).flatMap fun c =>
    (List.range 4).filterMap fun d =>
      if a != b && a != c && a != d && b != c && b != d && c != d then some (a, b, c, d) else none

def presentations (q : List Nat) : List Quartet :=
  perms4.map fun (a, b, c, d) => ⟨q.getD a 0, q.getD b 0, q.getD c 0, q.getD d 0⟩

def cmpChar : QCmp → Char
  | .equals => '0' | .conflict => '1' | .diff => '2'

def cmpStr (f : Quartet → Quartet → QCmp) (a b : List Quartet) : String :=
  String.ofList (a.flatMap fun x => b.map fun y => cmpChar (f x y))

def boolStr (f : Quartet → Quartet → Bool) (a b : List Quartet) : String :=
  String.ofList (a.flatMap fun x => b.map fun y => if f x y then '1' else '0')

def handleQuartet (qs q2s caps lfs hs1 hs2 c11 c12 e11 e12 repliess : String) : Verdict :=
  match parseNatList qs, parseNatList q2s, caps.toNat?, parseRat? lfs, parseU64List hs1, parseU64List hs2, parseStrList repliess with
  | some q, some q2, some cap, some lf, some h1, some h2, some replies =>
    if q.length != 4 || q2.length != 4 then bad "C04.quartet taxa" else
    let p1 := presentations q
    let p2 := presentations q2
    let qa : Quartet := ⟨q.getD 0 0, q.getD 1 0, q.getD 2 0, q.getD 3 0⟩
    let qb : Quartet := ⟨q2.getD 0 0, q2.getD 1 0, q2.getD 2 0, q2.getD 3 0⟩
    let dist := qa.distinct && qb.distinct
    let same := qa.sameTaxa qb
    let tags := tagIf dist "distinct" ++ tagIf (!dist) "repeated-taxon" ++ tagIf same "sametaxa" ++
      tagIf (!same && qa.hashCode == qb.hashCode) "hash-collision-other-taxa" ++ tagIf (cap == 0) "cap0" ++ tagIf dist "nontrivial"
    -- oracle
    if c11 != cmpStr Quartet.specCompare p1 p1 || c12 != cmpStr Quartet.specCompare p1 p2 then
      ⟨.oracle, tags, "Compare differs from same-topology / same-taxa"⟩
    else if e11 != boolStr Quartet.sameTaxa p1 p1 || e12 != boolStr Quartet.sameTaxa p1 p2 then
      ⟨.oracle, tags, "HashEquals differs from 'same four taxa'"⟩
    else if h1.length != 24 || h2.length != 24 then bad "C04.quartet hashes"
    else if !(h1.all (· == h1.getD 0 0)) || !(h2.all (· == h2.getD 0 0)) then
      ⟨.oracle, tags, "presentations of one quartet (HashEquals true) have different hash codes"⟩
    else if same && h1.getD 0 0 != h2.getD 0 1 then ⟨.oracle, tags, "same taxa, different hash codes"⟩
    else
      let expect : List String :=
        (if same then ["K1"] else ["K2"]) ++
        (List.range 48).map fun i => if same || i ≥ 24 then "v47" else "v23"
      if replies != expect then ⟨.oracle, tags, "quartet-keyed map does not behave like a plain map: " ++ (",".intercalate (replies.take 4))⟩
      else
        -- tie
        let all := p1 ++ p2
        let ops : List (HMOp Quartet Int) :=
          ((List.range 48).zip all).map (fun (i, x) => HMOp.put x (i : Int)) ++ [HMOp.kvs] ++ all.map (fun x => HMOp.get x)
        let mouts := HM.run Quartet.hashCode Quartet.hashEquals (policyOf lf) ops (HM.new cap)
        let mrep : List String := mouts.filterMap fun
          | .unit => none
          | .val none => some "n"
          | .val (some v) => some ("v" ++ toString v)
          | .kvs l => some ("K" ++ toString l.length)
          | .keys l => some ("Y" ++ toString l.length)
          | .panic => some "P"
        if p1.map (·.hashCode) != h1 || p2.map (·.hashCode) != h2 then ⟨.tie, tags, "model hash codes differ"⟩
        else if c11 != cmpStr Quartet.compare p1 p1 || c12 != cmpStr Quartet.compare p1 p2 then ⟨.tie, tags, "model Compare differs"⟩
        else if e12 != boolStr Quartet.hashEquals p1 p2 then ⟨.tie, tags, "model HashEquals differs"⟩
        else if mrep != replies then ⟨.tie, tags, "model map replies differ"⟩
        else ⟨.pass, tags, ""⟩
  | _, _, _, _, _, _, _ => bad "C04.quartet fields"

/- ## C04.quartets -/

def parseQ (s : String) : Option Quartet :=
  match (s.splitOn ".").mapM (·.toNat?) with
  | some [a, b, c, d] => some ⟨a, b, c, d⟩
  | _ => none

def parseQList (s : String) : Option (List Quartet) := (splitTerm "," s).mapM parseQ

def parseQKV (s : String) : Option (Quartet × Quartet) :=
  match s.splitOn ":" with
  | [k, v] => match parseQ k, parseQ v with
    | some k, some v => some (k, v)
    | _, _ => none
  | _ => none

def handleQuartets (dump sp wi outcome ql ix : String) : Verdict :=
  match T.undump dump with
  | none => bad "C04.quartets dump"
  | some t =>
    let tips := t.tipNames
    let uniq : Bool := decide tips.Nodup
    let specific := sp == "1"
    let roottip := t.kids.length == 1
    let sorted := sortNames tips
    let rank := fun x => sorted.idxOf x
    let tags0 := treeTags t ++ tagIf uniq "uniq" ++ tagIf specific "specific" ++ tagIf (!specific) "plain" ++ tagIf (wi == "1") "indexed"
    if !uniq || tips.length == 0 then
      (if outcome == "err" then ⟨.pass, "refused" :: tags0, ""⟩ else ⟨.tie, tags0, "duplicate names not refused"⟩)
    else if outcome != "ok" then ⟨.oracle, tags0, "Quartets failed on a tree with unique tips: " ++ outcome⟩
    else
    match parseQList ql with
    | none => bad "C04.quartets list"
    | some qs =>
      let model := quartets rank specific t
      let tags := tags0 ++ tagIf (qs.length > 0) "nontrivial" ++ tagIf (model == qs) "order-exact" ++
        tagIf (sortQs model == sortQs qs) "orientation-exact" ++ tagIf (qs.length != (qs.map Quartet.canon).eraseDups.length) "repeated-quartet"
      -- oracle: the quartets of the tree, as a multiset (a root that is a tip: only the tie — the code
      -- enumerates nothing there)
      -- (`Quartets()` is not in the property: judged as a multiset of quartets, whichever pair comes first)
      if !roottip && sortQsU qs != sortQsU (specQuartets rank specific t) then
        ⟨.oracle, tags, "Quartets does not deliver the quartets of the tree (" ++ toString qs.length ++ " delivered, " ++
          toString (specQuartets rank specific t).length ++ " expected)"⟩
      else
      -- IndexQuartets: a plain map over the quartets delivered
      let ixVerdict : Option Verdict :=
        if ix == "-" then none else
        match (splitTerm "," ix).mapM parseQKV with
        | none => some ⟨.oracle, tags, "IndexQuartets: nil entry"⟩
        | some kvs =>
          if !(kvs.isPerm (specIndexQuartets qs)) then some ⟨.oracle, tags, "IndexQuartets differs from a plain map keyed by the four taxa"⟩
          else
            -- the model map (any capacity gives the same entries, theorem hm_refines; 128 here)
            match (indexQuartets (goPolicy 0.75) 128 model).getLast? with
            | some (.kvs l) => if l.isPerm kvs then none else some ⟨.tie, tags, "model IndexQuartets differs"⟩
            | _ => some ⟨.tie, tags, "model IndexQuartets panics"⟩
      match ixVerdict with
      | some v => v
      | none =>
        if sortQsU model != sortQsU qs then ⟨.tie, tags, "model quartets differ (" ++ toString model.length ++ ")"⟩
        else ⟨.pass, tags, ""⟩

/- ## C04.splits : `Edge.DumpBitSet` on every branch and the command `gotree stats splits` -/

def handleSplits (dump copies outcome libdumps exit stdout : String) : Verdict :=
  match T.undump dump, parseStrList libdumps, unescape stdout, copies.toNat? with
  | some t, some lib, some out, some nc =>
    let tips := t.tipNames
    let uniq : Bool := decide tips.Nodup
    let inner := t.splits.any fun s => 2 ≤ specTopoDepth tips s.below
    let tags := treeTags t ++ tagIf uniq "uniq" ++ tagIf (uniq && inner) "nontrivial" ++ tagIf (tips.length > 128) "over128tips" ++
      tagIf (tips.length == 64) "exactly64tips" ++ tagIf (nc > 1) "several-trees-in-input"
    -- the command on an input holding the tree `nc` times: the bodies for the tree numbers 0 .. nc-1, one after the other
    let model : Res String := (List.range nc).foldl (fun acc id =>
      match acc, statsSplits id t with
      | .ok a, .ok b => .ok (a ++ b)
      | .err m, _ => .err m
      | _, .err m => .err m) (.ok "")
    if !uniq || tips.length == 0 then
      match model with
      | .err _ => if outcome == "err" && exit != "0" then ⟨.pass, "refused" :: tags, ""⟩
                  else ⟨.tie, tags, "model refuses the tree, the code does not: " ++ outcome ++ " exit " ++ exit⟩
      | .ok _ => ⟨.tie, tags, "model accepts a tree outside the property"⟩
    else if outcome != "ok" then ⟨.oracle, tags, "ReinitIndexes / DumpBitSet failed on a tree with unique tip names: " ++ outcome⟩
    else
    let want := t.splits.map fun s => specDumpLine tips s.below
    let wantOut := String.join ((List.range nc).map fun id =>
      specSplitsHeader tips ++ "\n" ++ String.join (want.map fun l => toString id ++ "\t" ++ l ++ "\n"))
    -- the model on the correct bitsets
    let mLines := t.splits.map fun s => dumpBitSet (some (specIdx fnv1a tips s.below).bits)
    if lib != want then
      let i := (findIdx? (fun (p : String × String) => p.1 != p.2) (lib.zip want)).getD 0
      ⟨.oracle, tags, "DumpBitSet of branch " ++ toString i ++ " is " ++ lib.getD i "?" ++ " (" ++ toString (lib.getD i "").length ++
        " characters), one digit per tip would be " ++ want.getD i "?"⟩
    else if exit != "0" then ⟨.oracle, tags, "gotree stats splits fails on a tree with unique tip names: exit " ++ exit⟩
    else if out != wantOut then
      ⟨.oracle, tags, "gotree stats splits does not print the header and one aligned digit per tip and branch: " ++
        escape (String.ofList (out.toList.take 200))⟩
    else
    match model with
    | .ok mo => if mo != out then ⟨.tie, tags, "model of gotree stats splits prints something else"⟩
                else if mLines != lib then ⟨.tie, tags, "model DumpBitSet differs"⟩ else ⟨.pass, tags, ""⟩
    | .err m => ⟨.tie, tags, "model refuses: " ++ m⟩
  | _, _, _, _ => bad "C04.splits fields"

def handle (op : String) (f : List String) : Verdict :=
  match op, f with
  | "index", [_, script, outcome, dump, ranks, obs, enum, after2, rk0, obs0, d0, d1] => handleIndex script outcome dump ranks obs enum after2 rk0 obs0 d0 d1
  | "pairs", [d1, d2, outcome, hc1, hc2, heq, sb, fe, ce] => handlePairs d1 d2 outcome hc1 hc2 heq sb fe ce
  | "hm", [cap, lf, mode, ops, replies] => handleHM cap lf mode ops replies
  | "ei", [dumps, cap, lf, ops, outcome, replies] => handleEI dumps cap lf ops outcome replies
  | "quartets", [dump, sp, wi, outcome, ql, ix] => handleQuartets dump sp wi outcome ql ix
  | "quartet", [q, q2, cap, lf, h1, h2, c11, c12, e11, e12, replies] => handleQuartet q q2 cap lf h1 h2 c11 c12 e11 e12 replies
  | "splits", [dump, copies, outcome, libdumps, exit, stdout] => handleSplits dump copies outcome libdumps exit stdout
  | _, _ => bad ("C04: unknown op or field count: " ++ op)

end Gotree.Driver.C04
