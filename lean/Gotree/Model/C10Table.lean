/-
  C10 — the facts about the Go source that the hand-written model (Model/C10.lean,
  Model/C10Cancel.lean) assumes, as data.  `Gotree.Gen.C10.facts` (Gen/C10Facts.lean) is regenerated
  from the working tree on every run by harness/c10/extract.go (`vh gen-tables`, go/ast);
  `expected` below is what the model was written against; the theorem `sourceFactsCheck` of
  Proofs/C10.lean re-decides `facts = expected`.  When it fails the driver still runs: the change
  is first looked for through the oracle on generated inputs.
  Core Lean only.
-/
namespace Gotree.C10

/-- one side of a comparison of the source -/
inductive Ex where
  | var (i : Nat)
  | lit (n : Int)
  | div (a b : Ex)
  | add (a b : Ex)
  | sub (a b : Ex)
  | opaque (s : String)
  deriving DecidableEq, Repr

/-- a comparison of the source: operator, sides, and its shape (operators, literals, conversions and
    upper-case constants kept, any other operand `_`) -/
structure Cmp where
  op : String
  l : Ex
  r : Ex
  shape : String
  deriving DecidableEq, Repr

/-- Go integer arithmetic (`/` truncates) -/
def Ex.eval (env : Nat → Int) : Ex → Option Int
  | .var i => some (env i)
  | .lit n => some n
  | .div a b => match a.eval env, b.eval env with
    | some x, some y => if y == 0 then none else some (Int.tdiv x y)
    | _, _ => none
  | .add a b => match a.eval env, b.eval env with
    | some x, some y => some (x + y)
    | _, _ => none
  | .sub a b => match a.eval env, b.eval env with
    | some x, some y => some (x - y)
    | _, _ => none
  | .opaque _ => none

def Cmp.eval (c : Cmp) (env : Nat → Int) : Option Bool :=
  match c.l.eval env, c.r.eval env with
  | some x, some y =>
    if c.op == "<" then some (decide (x < y)) else if c.op == "<=" then some (decide (x ≤ y))
    else if c.op == ">" then some (decide (x > y)) else if c.op == ">=" then some (decide (x ≥ y))
    else if c.op == "==" then some (x == y) else if c.op == "!=" then some (x != y) else none
  | _, _ => none

/-- the probes: every pair of values of the first two variables in -2 … 7 -/
def probes : List (Nat → Int) :=
  (List.range 10).flatMap fun (a : Nat) => (List.range 10).map fun (b : Nat) =>
    fun (i : Nat) => if i == 0 then ((a : Nat) : Int) - 2 else if i == 1 then ((b : Nat) : Int) - 2 else ((a + b : Nat) : Int) - 4

/-- the first two variables exchanged (their numbering follows the spelling of the operands: a renamed
    variable may exchange them) -/
def swapEnv (e : Nat → Int) : Nat → Int := fun i => if i == 0 then e 1 else if i == 1 then e 0 else e i

/-- the same predicate: equal on every probe (up to the numbering of the two variables) when both are integer
    comparisons, else the same shape -/
def Cmp.same (a b : Cmp) : Bool :=
  if probes.all (fun e => (a.eval e).isSome && (b.eval e).isSome) then
    (probes.all fun e => a.eval e == b.eval e) || (probes.all fun e => a.eval e == b.eval (swapEnv e))
  else a.shape == b.shape

def sameRows : List (String × List Cmp) → List (String × List Cmp) → Bool
  | [], [] => true
  | (f, as) :: r, (g, bs) :: r' => f == g && as.length == bs.length && (List.zipWith Cmp.same as bs).all id && sameRows r r'
  | _, _ => false

structure Facts where
  /-- function ↦ its comparisons (nil tests left out), in source order -/
  cmps : List (String × List Cmp)
  /-- function ↦ the set of its numeric literals (sorted) -/
  lits : List (String × List String)
  /-- [command function, callee, arguments…] in source order -/
  calls : List (List String)
  /-- [flag, shorthand, default] -/
  flags : List (List String)
  /-- [constant, value] -/
  consts : List (List String)
  deriving Repr

/-- the extracted facts are the expected ones: the comparisons as predicates (`Cmp.same`), the rest literally -/
def Facts.agree (a b : Facts) : Bool :=
  sameRows a.cmps b.cmps && a.lits == b.lits && a.calls == b.calls && a.flags == b.flags && a.consts == b.consts

/-- what the model was written against.  Where each row lives in the model:
    FBP `cpus < 1` → `atLeastOne`; `td > 1` (with `!Right().Tip()`) → `supported`;
    MinTransferDist `p == 1` (and the literal of `p - 1`) → `minTransferDist`; `ops_zeros… < ops_ones…` → `minTransferFull`;
    speciesToMoveRecursive → `stmNode`; minTransferDistRecur `r > ntips/2` → `lightOf`,
    `d > ntips/2` → `edgeDist`, `d < *dist`, `d <= *dist`, `d == 1` → `visitEdge` / `visitFull`;
    TBE `cpu < 1` → `atLeastOne`, `p > 1` → `tbeEdge`, `p >= mindepth`, the literals of `1.0/distcutoff + 1.0`, `nbranchclose > 0`,
    `* 100.0 / float64(nboot)` … → `minDepth`, `logStep`, `tbeLog`; ReformatAvgDistance → `tbeLog.raw`;
    NormalizeTransferDistancesByDepth → `normalize`; UpdateTaxaMoveArrays → `logStep`;
    calls: the readers → `cliReference` / `cliStream`, `refTree.ReinitIndexes` before `support.TBE` → `tbe` (vs `tbeNotIndexed`),
    `rootCpus` → `fbpCfg` / `tbeCfg`, `nil` Supporter → `fbp` / `tbe` (a Supporter: `fbpS` / `tbeS`), the raw tree is written first;
    flags: what harness/c10 passes and leaves out (`--dist-cutoff` 0.3 is the value of the library cases);
    consts: `NIL` of Model/Core.lean. -/
def expected : Facts := {
  cmps := [
    ("FBP", [⟨"<", (.var 0), (.lit 1), "_ < 1"⟩, ⟨">", (.var 0), (.var 1), "_ > _"⟩, ⟨"<", (.var 0), (.var 1), "_ < _"⟩, ⟨">", (.var 0), (.lit 1), "_ > 1"⟩]),
    ("MinTransferDist", [⟨"==", (.var 0), (.lit 1), "_ == 1"⟩, ⟨"<", (.var 1), (.var 0), "_ < _"⟩]),
    ("speciesToMoveRecursive", [⟨"==", (.var 1), (.var 0), "_ == _"⟩, ⟨"==", (.var 0), (.lit 0), "_ == 0"⟩, ⟨"==", (.var 0), (.lit 1), "_ == 1"⟩, ⟨"==", (.var 0), (.var 1), "_ == _"⟩, ⟨"==", (.var 0), (.lit 0), "_ == 0"⟩, ⟨"!=", (.var 0), (.var 1), "_ != _"⟩]),
    ("minTransferDistRecur", [⟨">", (.var 1), (.div (.var 0) (.lit 2)), "_ > _ / 2"⟩, ⟨"!=", (.var 0), (.var 1), "_ != _"⟩, ⟨">", (.var 0), (.div (.var 1) (.lit 2)), "_ > _ / 2"⟩, ⟨"<", (.var 1), (.var 0), "_ < _"⟩, ⟨"<=", (.var 1), (.var 0), "_ <= _"⟩, ⟨"==", (.var 0), (.lit 1), "_ == 1"⟩]),
    ("TBE", [⟨"<", (.var 0), (.lit 1), "_ < 1"⟩, ⟨"<", (.var 0), (.var 1), "_ < _"⟩, ⟨">", (.var 0), (.lit 1), "_ > 1"⟩, ⟨">=", (.var 1), (.var 0), "_ >= _"⟩, ⟨">", (.var 0), (.lit 0), "_ > 0"⟩]),
    ("ReformatAvgDistance", [⟨"!=", (.var 0), (.opaque "NIL_SUPPORT"), "_ != NIL_SUPPORT"⟩]),
    ("NormalizeTransferDistancesByDepth", [⟨"!=", (.var 0), (.opaque "NIL_SUPPORT"), "_ != NIL_SUPPORT"⟩]),
    ("UpdateTaxaMoveArrays", [⟨"<=", (.var 1), (.var 0), "_ <= _"⟩, ⟨">=", (.var 1), (.var 0), "_ >= _"⟩])
  ],
  lits := [
    ("FBP", ["0", "0.75", "1", "100", "2"]),
    ("MinTransferDist", ["0", "1", "2"]),
    ("speciesToMoveRecursive", ["0", "1"]),
    ("minTransferDistRecur", ["0", "1", "2"]),
    ("TBE", ["0", "0.0", "0.75", "1", "1.0", "10", "100.0", "2"]),
    ("ReformatAvgDistance", []),
    ("NormalizeTransferDistancesByDepth", ["1", "1.0"]),
    ("UpdateTaxaMoveArrays", ["1.0"])
  ],
  calls := [
    ["classical", "readTree", "supportIntree"],
    ["classical", "readTrees", "supportBoottrees"],
    ["classical", "support.FBP", "refTree", "boottreechan", "rootCpus", "nil"],
    ["classical", "supportOut.WriteString", "refTree.Newick() + \"\\n\""],
    ["booster", "readTree", "supportIntree"],
    ["booster", "readTrees", "supportBoottrees"],
    ["booster", "refTree.ReinitIndexes"],
    ["booster", "support.TBE", "refTree", "boottreechan", "rootCpus", "rawSupportOutputFile != \"none\"", "movedtaxa", "taxperbranches", "boosterdistcutoff", "supportLog", "nil"],
    ["booster", "rawSupportOut.WriteString", "rawtree.Newick() + \"\\n\""],
    ["booster", "supportOut.WriteString", "refTree.Newick() + \"\\n\""]
  ],
  flags := [
    ["reftree", "i", "\"stdin\""],
    ["bootstrap", "b", "\"none\""],
    ["out", "o", "\"stdout\""],
    ["log-file", "l", "\"stderr\""],
    ["silent", "", "false"],
    ["moved-taxa", "", "false"],
    ["per-branches", "", "false"],
    ["out-raw", "r", "\"none\""],
    ["dist-cutoff", "", "0.3"],
    ["threads", "t", "1"]
  ],
  consts := [
    ["NIL_SUPPORT", "-1.0"]
  ] }

end Gotree.C10
