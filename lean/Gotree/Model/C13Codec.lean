/-
  C13 — executable instances of the two codecs the model is parametric in, used by the driver:

  * `decCodec`   : `strconv.FormatFloat(x,'f',-1,64)` on values with a finite decimal expansion
                   (every float64 the harness generates: dyadic with ≤ 15 significant digits) and a
                   decimal `ParseFloat`;
  * `miniNewick` : `Node.Newick`/`Tree.Newick` (tree/node.go:232, tree/tree.go:413) and a port of
                   `newick.Parser.Parse/parseIter/consumeComment` + `Scanner.Scan` (io/newick).
                   Property C01 owns the verified model of that code; this port only has to agree with
                   the real parser on the texts the C13 harness produces (checked on every case).
  Core Lean only.
-/
import Gotree.Model.C13
import Gotree.Model.C01

namespace Gotree.C13
open Gotree

/- ## decimal numbers -/

def fracDigits : Nat → Nat → Nat → List Char
  | 0, _, _ => []
  | f + 1, rem, den =>
    if rem == 0 then [] else
    let x := rem * 10
    Char.ofNat (48 + x / den) :: fracDigits f (x % den) den

/-- shortest decimal of a value with a finite expansion (no exponent, no trailing zeros) -/
def fmtRat (q : Rat) : Txt :=
  let n := q.num.natAbs
  let d := q.den
  (if q.num < 0 then ['-'] else []) ++ Nat.toDigits 10 (n / d) ++
  (let fr := fracDigits 1100 (n % d) d
   if fr.isEmpty then [] else '.' :: fr)

def digitsVal (ds : List Char) : Nat := ds.foldl (fun a c => 10 * a + (c.toNat - 48)) 0

def splitSign : Txt → Bool × Txt
  | '-' :: r => (true, r)
  | '+' :: r => (false, r)
  | l => (false, l)

/-- decimal floating-point literal: `[+-] digits [. digits] [(e|E) [+-] digits]`, at least one
    mantissa digit.  Returns the exact value. -/
def parseDec (s : Txt) : Option Rat :=
  let (neg, s1) := splitSign s
  let (ip, s2) := s1.span Char.isDigit
  let (fp, s3) : Txt × Txt := match s2 with
    | '.' :: r => r.span Char.isDigit
    | _ => ([], s2)
  if ip.isEmpty && fp.isEmpty then none else
  let mant : Rat := (digitsVal (ip ++ fp) : Nat) / ((10 ^ fp.length : Nat) : Rat)
  let exp? : Option Int := match s3 with
    | [] => some 0
    | c :: r =>
      if c == 'e' || c == 'E' then
        let (eneg, r1) := splitSign r
        if r1.isEmpty || !r1.all Char.isDigit then none
        else some (if eneg then - (digitsVal r1 : Int) else (digitsVal r1 : Int))
      else none
  match exp? with
  | none => none
  | some e =>
    let v : Rat := if e ≥ 0 then mant * ((10 ^ e.toNat : Nat) : Rat) else mant / ((10 ^ (-e).toNat : Nat) : Rat)
    some (if neg then -v else v)

def upperTxt (s : Txt) : Txt := s.map Char.toUpper

/-- does `strconv.ParseFloat(s, 64)` accept `s` (decimal forms and inf/infinity/nan; hexadecimal
    floats and digit-separating underscores are not followed by this port) -/
def isFloatGo (s : Txt) : Bool :=
  (parseDec s).isSome ||
  (let (_, r) := splitSign s
   let u := upperTxt r
   u == "INF".toList || u == "INFINITY".toList) ||
  upperTxt s == "NAN".toList

def decCodec : NumCodec := ⟨fmtRat, parseDec⟩

/- ## Newick writer (Node.Newick) -/

mutual
/-- `n.Newick(parent, buf)` for a node that has a parent -/
def nwNode : T → Txt
  | .node d _ k => (match k with | [] => [] | _ :: _ => '(' :: nwKids k true ++ [')']) ++ d.name.toList
/-- the loop over the children: `first` = no child written yet -/
def nwKids : Kids → Bool → Txt
  | [], _ => []
  | (e, t) :: r, first =>
    (if first then [] else [',']) ++ nwNode t ++
    (if e.sup != NIL && t.name == "" then fmtRat e.sup ++ (if e.pval != NIL then '/' :: fmtRat e.pval else []) else []) ++
    joinMap (fun c => '[' :: c.toList ++ [']']) t.d.comments ++
    (if e.len != NIL then ':' :: fmtRat e.len else []) ++
    joinMap (fun c => '[' :: c.toList ++ [']']) e.comments ++
    nwKids r false
end

/-- `Tree.Newick()`: the root (no parent) gets parentheses as soon as it has a neighbour
    (`len(n.neigh) > 1 || parent == nil`) -/
def nwTree (t : T) : Txt :=
  (match t.kids with
   | [] => []
   | _ => '(' :: nwKids t.kids true ++ [')']) ++ t.name.toList ++
  joinMap (fun c => '[' :: c.toList ++ [']']) t.d.comments ++ [';']

/- ## Newick parser (port of io/newick) -/

inductive Tk where
  | eof | ws | ident | numeric | openpar | closepar | startlen | openbrack | closebrack | newsibling | eot | none
  deriving DecidableEq, Repr, BEq

def isIdentC (ign : Bool) (c : Char) : Bool :=
  c != '[' && c != ']' && c != '(' && c != ')' && c != ',' && c != ':' && (ign || c != ';')

/-- `Scanner.Scan(ignoreSemiColumn)`: kind, literal, rest -/
def scanTok (ign : Bool) : Txt → Tk × Txt × Txt
  | [] => (.eof, [], [])
  | c :: r =>
    if isNewickWs c then
      let (w, r') := r.span isNewickWs
      (.ws, c :: w, r')
    else if c == '(' then (.openpar, [c], r)
    else if c == ')' then (.closepar, [c], r)
    else if c == '[' then (.openbrack, [c], r)
    else if c == ']' then (.closebrack, [c], r)
    else if c == ',' then (.newsibling, [c], r)
    else if c == ';' && !ign then (.eot, [c], r)
    else if c == ':' then (.startlen, [c], r)
    else
      let (w, r') := r.span (isIdentC ign)
      let lit := c :: w
      (if isFloatGo lit then .numeric else .ident, lit, r')

def scanNoWs (s : Txt) : Tk × Txt × Txt :=
  match scanTok false s with
  | (.ws, _, r) => scanTok false r
  | x => x

/-- `consumeComment` after the '[': the literals up to the matching ']' (scanned with
    ignoreSemiColumn = true); `none` on EOF -/
def comment : Nat → Txt → Txt → Option (Txt × Txt)
  | 0, _, _ => none
  | f + 1, s, acc =>
    match scanTok true s with
    | (.closebrack, _, r) => some (acc, r)
    | (.eof, _, _) => none
    | (_, lit, r) => comment f r (acc ++ lit)

/-- a node on the parser's stack: its data, the branch to its parent, its children so far -/
structure Frame where
  d : NodeD
  e : Option EdgeD
  kids : Kids := []

def Frame.tree (f : Frame) : T := .node f.d 0 f.kids

structure PS where
  stack : List Frame := []
  /-- the tree whose root frame was popped (`t.root` stays set) -/
  done : Option T := none
  level : Int := 0
  prev : Tk := .none
  nedges : Nat := 0

/-- `nodeStack.Pop()` followed by `Head()`: the finished node is already attached to its parent in Go;
    here it is attached now (same order: siblings are created and popped alternately) -/
def pop (st : PS) : Option PS :=
  match st.stack with
  | [] => none
  | [f] => some { st with stack := [], done := some f.tree }
  | f :: p :: r => some { st with stack := { p with kids := p.kids ++ [(f.e.getD EdgeD.blank, f.tree)] } :: r }

def setHead (st : PS) (f : Frame) : PS :=
  match st.stack with
  | [] => st
  | _ :: r => { st with stack := f :: r }

def splitOnSlash (s : Txt) : List Txt := (String.ofList s).splitOn "/" |>.map String.toList

/-- `parseIter`: returns the final state at EOT; `none` = some error (EOF included, see `Parse`) -/
def parseIter : Nat → Txt → PS → Option PS
  | 0, _, _ => none
  | fuel + 1, s, st =>
    match scanNoWs s with
    | (.openpar, _, r) =>
      (match st.stack with
       | [] =>
         if st.level > 0 then none else
         parseIter fuel r { st with stack := [{ d := ⟨"", []⟩, e := none }], done := none, level := st.level + 1, prev := .openpar }
       | _ :: _ =>
         if st.level == 0 then none else
         parseIter fuel r { st with stack := { d := ⟨"", []⟩, e := some { EdgeD.blank with id := st.nedges } } :: st.stack,
                                    nedges := st.nedges + 1, level := st.level + 1, prev := .openpar })
    | (.closepar, _, r) =>
      (match pop { st with prev := .closepar, level := st.level - 1 } with
       | none => none
       | some st' => parseIter fuel r st')
    | (.openbrack, _, r) =>
      (match comment (r.length + 1) r [] with
       | none => none
       | some (c, r') =>
         let cs := String.ofList c
         match st.stack with
         | [] => none
         | f :: _ =>
           if st.prev == .startlen then
             (match f.e with
              | some e => parseIter fuel r' { setHead st { f with e := some { e with comments := e.comments ++ [cs] } } with prev := .closebrack }
              | none => parseIter fuel r' { setHead st { f with d := { f.d with comments := f.d.comments ++ [cs] } } with prev := .closebrack })
           else if st.prev == .closepar || st.prev == .ident || st.prev == .numeric || st.prev == .closebrack then
             parseIter fuel r' { setHead st { f with d := { f.d with comments := f.d.comments ++ [cs] } } with prev := .closebrack }
           else none)
    | (.closebrack, _, _) => none
    | (.startlen, _, r) =>
      (match scanNoWs r with
       | (.numeric, lit, r') =>
         (match st.stack with
          | f :: _ =>
            if st.level != 0 then
              (match f.e with
               | none => none
               | some e =>
                 if e.len != NIL then none else
                 match parseDec lit with
                 | none => none
                 | some q => parseIter fuel r' { setHead st { f with e := some { e with len := q } } with prev := .startlen })
            else parseIter fuel r' { st with prev := .startlen }
          | [] => if st.level == 0 then parseIter fuel r' { st with prev := .startlen } else none)
       | _ => none)
    | (.newsibling, _, r) =>
      (match pop st with
       | none => none
       | some st' => parseIter fuel r { st' with prev := .newsibling })
    | (.eot, _, _) => if st.level != 0 then none else some st
    | (.eof, _, _) => none
    | (.ws, _, _) => none
    | (.none, _, _) => none
    | (k, lit, r) =>
      -- IDENT or NUMERIC
      if st.prev == .closepar then
        (match st.stack with
         | [] => if k == .numeric then parseIter fuel r st else none
         | f :: _ =>
           if k == .numeric then
             (match f.e with
              | some e =>
                if st.level == 0 then parseIter fuel r st else
                (match parseDec lit with
                 | none => none
                 | some q => parseIter fuel r (setHead st { f with e := some { e with sup := q } }))
              | none => parseIter fuel r st)
           else
             let two : Option (Rat × Rat) := match splitOnSlash lit, f.e with
               | [a, b], some _ => (match parseDec a, parseDec b with
                                     | some x, some y => some (x, y)
                                     | _, _ => none)
               | _, _ => none
             match two, f.e with
             | some (x, y), some e => parseIter fuel r (setHead st { f with e := some { e with sup := x, pval := y } })
             | _, _ => parseIter fuel r (setHead st { f with d := { f.d with name := String.ofList lit } }))
      else
        if st.prev != .openpar && st.prev != .newsibling then none else
        match st.stack with
        | [] => none
        | _ :: _ =>
          parseIter fuel r { st with stack := { d := ⟨String.ofList lit, []⟩, e := some { EdgeD.blank with id := st.nedges } } :: st.stack,
                                     nedges := st.nedges + 1, prev := k }

/-- attach every frame still on the stack to the one below: the tree as Go holds it at that point -/
def collapseGo : List Frame → Option (EdgeD × T) → Option T
  | [], acc => acc.map (·.2)
  | f :: r, acc =>
    let f' : Frame := match acc with
      | some et => { f with kids := f.kids ++ [et] }
      | none => f
    collapseGo r (some (f'.e.getD EdgeD.blank, f'.tree))

def collapse (l : List Frame) : Option T := collapseGo l none

def trimStr (s : String) : String := String.ofList (Px.trim s.toList)

mutual
/-- `tip.SetName(strings.TrimSpace(tip.Name()))` on the leaves -/
def trimLeaves : T → T
  | .node d p k => (match k with
    | [] => .node { d with name := trimStr d.name } p []
    | _ :: _ => .node d p (trimLeavesL k))
def trimLeavesL : Kids → Kids
  | [] => []
  | (e, t) :: r => (e, trimLeaves t) :: trimLeavesL r
end

/-- `newick.NewParser(r).Parse()` -/
def nwParse (s : Txt) : Option T :=
  -- optional comment in front of the tree, then "("
  let s1? : Option Txt := match scanNoWs s with
    | (.openbrack, _, r) => (comment (r.length + 1) r []).map (·.2)
    | _ => some s
  match s1? with
  | none => none
  | some s1 =>
    match scanNoWs s1 with
    | (.openpar, _, _) =>
      -- where the "(" starts: drop the white space in front of it
      let s2 := s1.dropWhile isNewickWs
      (match parseIter (s2.length + 2) s2 {} with
       | none => none
       | some st =>
         let t? := match st.stack with
           | [] => st.done
           | l => collapse l
         t?.map fun t =>
           let t := trimLeaves t
           -- the root counts as a tip when it has exactly one neighbour
           if t.kids.length == 1 then .node { t.d with name := trimStr t.d.name } t.ppos t.kids else t)
    | _ => none

def miniNewick : NewickCodec := ⟨nwTree, nwParse⟩

/-- the verified Newick model of property C01 (`Gotree.Newick.parse` / `write`) as a `NewickCodec` -/
def codecOf (C : Newick.Codec) : NewickCodec :=
  ⟨Newick.write C, fun s => match Newick.parse C s with | .ok t => some t | _ => none⟩

/-- the codec the driver runs: C01's model with the Go-like float codec -/
def c01Go : NewickCodec := codecOf Newick.goCodec

end Gotree.C13
