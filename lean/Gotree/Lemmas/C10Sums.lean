/-
  C10 lemmas, part C: the loops over the bootstrap trees in closed form, and the
  model's supports as the definitions' (`fbp_def`, `tbe_def`).
-/
import Gotree.Lemmas.C10Sets

namespace Gotree.C10
open Gotree

/-! ## lists -/

theorem zipWith_zipWith_left {α β γ δ : Type} (f : α → γ → δ) (g : α → β → γ) : ∀ (l : List α) (c : List β),
    List.zipWith f l (List.zipWith g l c) = List.zipWith (fun s k => f s (g s k)) l c
  | [], _ => by simp
  | _ :: _, [] => by simp
  | a :: l, x :: c => by simp [zipWith_zipWith_left f g l c]

theorem zipWith_map_const {α β γ : Type} (f : α → β → γ) (z : β) : ∀ (l : List α),
    List.zipWith f l (l.map fun _ => z) = l.map fun s => f s z
  | [] => rfl
  | a :: l => by simp [zipWith_map_const f z l]

/-! ## the split list: a tip entry has one leaf below -/

mutual
theorem tip_below : ∀ (t : T), ∀ s ∈ t.splitsBelow, s.tip = true → s.below.length = 1
  | .node _ _ [] => by simp [T.splitsBelow, splitsL]
  | .node _ _ (k :: ks) => by
    simpa [T.splitsBelow] using tip_belowL (k :: ks)
theorem tip_belowL : ∀ (k : Kids), ∀ s ∈ splitsL k, s.tip = true → s.below.length = 1
  | [] => by simp [splitsL]
  | (e, t) :: r => by
    intro s hs ht
    simp only [splitsL, List.mem_cons, List.mem_append] at hs
    rcases hs with rfl | hs | hs
    · cases t with
      | node x pp kk =>
        cases kk with
        | nil => simp [T.leaves]
        | cons a b => simp [T.isLeaf] at ht
    · exact tip_below t s hs ht
    · exact tip_belowL r s hs ht
end

/-! ## acceptance -/

theorem setEq_length {a b : List String} (ha : a.Nodup) (hb : b.Nodup) (h : ∀ x, x ∈ a ↔ x ∈ b) :
    a.length = b.length := by
  have h1 := nodup_subset_length_le ha (fun x hx => (h x).1 hx)
  have h2 := nodup_subset_length_le hb (fun x hx => (h x).2 hx)
  omega

theorem accepts_of_hyp {r b : T} (hr : treeOK r = true) (hb : treeOK b = true)
    (hT : sameTaxa r b = true) : reinitOk b = true ∧ compareTips r b = true := by
  have hT' := sameTaxa_iff.1 hT
  obtain ⟨hrn, _, _, _⟩ := treeOK_facts r hr
  obtain ⟨hbn, _, _, _⟩ := treeOK_facts b hb
  have hlen := setEq_length hrn hbn hT'
  simp only [treeOK, reinitOk, Bool.and_eq_true, decide_eq_true_eq, Bool.not_eq_true',
    List.isEmpty_eq_false_iff] at hr hb
  refine ⟨by simp [reinitOk, hbn, hb.1.2], ?_⟩
  have hr0 : r.tipNames.length ≠ 0 := by
    intro h; exact hr.1.2 (List.eq_nil_of_length_eq_zero h)
  simp only [compareTips, Bool.and_eq_true, bne_iff_ne, ne_eq, beq_iff_eq, List.all_eq_true,
    List.contains_eq_mem, decide_eq_true_eq]
  exact ⟨⟨⟨hr0, by omega⟩, hlen⟩, fun x hx => (hT' x).1 hx⟩

/-! ## FBP -/

/-- number of bootstrap trees whose index has the branch -/
def cnt (all : List String) (index : T → List (List String)) (s : SplitE) (bs : List T) : Nat :=
  (bs.filter fun b => found all (index b) s).length

theorem cnt_cons (all : List String) (index : T → List (List String)) (s : SplitE) (b : T) (bs : List T) :
    cnt all index s (b :: bs) = (if found all (index b) s then 1 else 0) + cnt all index s bs := by
  unfold cnt
  by_cases h : found all (index b) s = true
  · simp [List.filter_cons, h]; omega
  · simp [List.filter_cons, h]

theorem zipWith_snd_id {α β : Type} : ∀ (l : List α) (c : List β), c.length ≤ l.length →
    List.zipWith (fun _ k => k) l c = c
  | _, [], _ => by simp
  | [], x :: c, h => by simp at h
  | a :: l, x :: c, h => by
    simp only [List.zipWith_cons_cons, List.cons.injEq, true_and]
    exact zipWith_snd_id l c (by simpa using h)

theorem fbpLoop_ok (r : T) : ∀ (bs : List T) (c : List Nat) (n : Nat),
    c.length = r.splits.length →
    (∀ b ∈ bs, reinitOk b = true ∧ compareTips r b = true) →
    fbpLoop r bs c n =
      (List.zipWith (fun s k => k + cnt r.tipNames fbpIndex s bs) r.splits c, n + bs.length, false)
  | [], c, n, hc, _ => by
    simp only [fbpLoop, cnt, List.filter_nil, List.length_nil, Nat.add_zero]
    rw [zipWith_snd_id r.splits c (by omega)]
  | b :: bs, c, n, hc, h => by
    obtain ⟨h1, h2⟩ := h b (List.mem_cons_self ..)
    have ih := fbpLoop_ok r bs (fbpCount r.tipNames (fbpIndex b) r.splits c) (n + 1)
      (by simp [fbpCount, hc])
      (fun b' hb' => h b' (List.mem_cons_of_mem _ hb'))
    simp only [fbpLoop, h1, h2, Bool.not_true, Bool.false_eq_true, if_false]
    rw [ih]
    unfold fbpCount
    rw [zipWith_zipWith_left]
    congr 1
    · apply congrArg (fun f => List.zipWith f r.splits c)
      funext s k
      rw [cnt_cons]
      split <;> omega
    · congr 1
      simp only [List.length_cons]; omega

theorem supported_iff {all : List String} {s : SplitE} (ht : s.tip = true → s.below.length = 1) :
    supported all.length s = decide (2 ≤ depth all s.below) := by
  unfold supported topoDepth depth
  simp only []
  by_cases hc : ((all.length - s.below.length == 0) || (s.below.length == 0)) = true
  · rw [if_pos hc]
    simp only [Bool.or_eq_true, beq_iff_eq] at hc
    have : ¬ (2 ≤ min s.below.length (all.length - s.below.length)) := by omega
    simp [this]
  · rw [if_neg hc]
    simp only [Bool.or_eq_true, beq_iff_eq, not_or] at hc
    by_cases h2 : 2 ≤ min s.below.length (all.length - s.below.length)
    · have hnt : s.tip = false := by
        cases hst : s.tip with
        | false => rfl
        | true => have := ht hst; omega
      have : (1 : Int) < ((min (all.length - s.below.length) s.below.length : Nat) : Int) := by omega
      simp [h2, hnt, this]
    · have : ¬ (1 : Int) < ((min (all.length - s.below.length) s.below.length : Nat) : Int) := by omega
      simp [h2, this]

theorem fbp_ok (r : T) (bs : List T) (hr : reinitOk r = true) (hne : bs ≠ [])
    (hacc : ∀ b ∈ bs, reinitOk b = true ∧ compareTips r b = true) :
    fbp r bs = .ok (r.splits.map fun s =>
      if supported (ntips r) s then ((cnt r.tipNames fbpIndex s bs : Nat) : Rat) / ((bs.length : Nat) : Rat)
      else s.e.sup) := by
  unfold fbp
  rw [fbpLoop_ok r bs _ 0 (by simp) hacc]
  have hlen : ((bs.length == 0) = false) := by
    cases bs with
    | nil => exact absurd rfl hne
    | cons b l => simp
  simp only [hr, Bool.not_true, Bool.false_eq_true, if_false, Nat.zero_add, hlen, Bool.false_and]
  congr 1
  rw [zipWith_zipWith_left, zipWith_map_const]
  apply List.map_congr_left
  intro s _
  simp

/-! ## FBP is the definition -/

theorem found_tbeIndex (all : List String) (b : T) (s : SplitE) :
    found all (tbeIndex b) s = containsSplit all s.below b := by
  simp [found, tbeIndex, containsSplit, List.any_map, Function.comp_def]

theorem depth_le_left (all below : List String) : depth all below ≤ below.length := by
  unfold depth; omega

theorem depth_le_right (all below : List String) : depth all below ≤ all.length - below.length := by
  unfold depth; omega

/-- a non-trivial split is never the split of a tip branch -/
theorem not_tip_of_sameSplit {all below B : List String} (ha : all.Nodup) (hb : below.Nodup)
    (hB : B.Nodup) (hBs : ∀ x ∈ B, x ∈ all) (h2 : 2 ≤ depth all below) (h1 : B.length = 1)
    (h : sameSplit all below B = true) : False := by
  have d1 := depth_le_left all below
  have d2 := depth_le_right all below
  rcases sameSplit_iff.1 h with h | h
  · have := setEq_length hb hB h
    omega
  · have e := setEq_length hb (nodup_diff B ha) (fun x => by rw [mem_diff]; exact h x)
    rw [length_diff_of_subset ha hB hBs] at e
    have := nodup_subset_length_le hB hBs
    omega

theorem found_fbpIndex (r b : T) (s : SplitE) (hr : treeOK r = true) (hb : treeOK b = true)
    (hT : sameTaxa r b = true) (hs : s ∈ r.splits) (h2 : 2 ≤ depth r.tipNames s.below) :
    found r.tipNames (fbpIndex b) s = containsSplit r.tipNames s.below b := by
  obtain ⟨hrn, _, _, hrs⟩ := treeOK_facts r hr
  obtain ⟨hbn, _, _, hbs⟩ := treeOK_facts b hb
  have hT' := sameTaxa_iff.1 hT
  rw [Bool.eq_iff_iff]
  simp only [found, fbpIndex, containsSplit, List.any_eq_true, List.mem_map, List.mem_filter,
    Bool.not_eq_true']
  constructor
  · rintro ⟨B, ⟨s', ⟨hs', _⟩, rfl⟩, h⟩
    exact ⟨s', hs', h⟩
  · rintro ⟨s', hs', h⟩
    refine ⟨s'.below, ⟨s', ⟨hs', ?_⟩, rfl⟩, h⟩
    cases ht : s'.tip with
    | false => rfl
    | true =>
      exfalso
      have hl := tip_belowL b.kids s' hs' ht
      obtain ⟨hn', hsub'⟩ := hbs s' hs'
      exact not_tip_of_sameSplit hrn (hrs s hs).1 hn' (fun x hx => (hT' x).2 (hsub' x hx)) h2 hl h

theorem hypOK_facts {r : T} {bs : List T} (h : hypOK r bs = true) :
    treeOK r = true ∧ bs ≠ [] ∧ ∀ b ∈ bs, treeOK b = true ∧ sameTaxa r b = true := by
  simp only [hypOK, Bool.and_eq_true, Bool.not_eq_true', List.isEmpty_eq_false_iff,
    List.all_eq_true] at h
  exact ⟨h.1.1, h.1.2, h.2⟩

/-- `fbp_def` -/
theorem fbp_eq_expected (r : T) (bs : List T) (h : hypOK r bs = true) :
    fbp r bs = .ok (fbpExpected r bs) := by
  obtain ⟨hr, hne, hb⟩ := hypOK_facts h
  have hrr : reinitOk r = true := by
    simp only [treeOK, Bool.and_eq_true] at hr; exact hr.1
  rw [fbp_ok r bs hrr hne (fun b hb' => accepts_of_hyp hr (hb b hb').1 (hb b hb').2)]
  congr 1
  unfold fbpExpected
  apply List.map_congr_left
  intro s hs
  unfold fbpOf
  have hsup := supported_iff (all := r.tipNames) (s := s) (tip_belowL r.kids s hs)
  unfold ntips
  rw [hsup]
  by_cases h2 : 2 ≤ depth r.tipNames s.below
  · simp only [h2, decide_true, if_true]
    unfold fbpSpec cnt
    congr 3
    apply List.filter_congr
    intro b hb'
    exact found_fbpIndex r b s hr (hb b hb').1 (hb b hb').2 hs h2
  · simp [h2]

/-! ## TBE -/

theorem foldl_min_le_mem (l : List Nat) (a x : Nat) (hx : x ∈ l) : l.foldl min a ≤ x := by
  induction l generalizing a with
  | nil => cases hx
  | cons y l ih =>
    simp only [List.foldl_cons]
    rcases List.mem_cons.1 hx with rfl | hx
    · have := foldl_min_le l (min a x); omega
    · exact ih _ hx

theorem foldl_min_eq_zero (l : List Nat) (a : Nat) (h : l.foldl min a = 0) : a = 0 ∨ 0 ∈ l := by
  induction l generalizing a with
  | nil => exact Or.inl h
  | cons y l ih =>
    simp only [List.foldl_cons] at h
    rcases ih _ h with h' | h'
    · by_cases hy : y = 0
      · right; rw [hy]; exact List.mem_cons_self ..
      · left; omega
    · right; exact List.mem_cons_of_mem _ h'

theorem transferDist_of_sameSplit {all L B : List String} (ha : all.Nodup) (hL : L.Nodup) (hB : B.Nodup)
    (hBs : ∀ x ∈ B, x ∈ all) (h : sameSplit all L B = true) : transferDist L B all.length = 0 := by
  unfold transferDist symDiff
  rcases sameSplit_iff.1 h with h | h
  · have e1 : diff L B = [] := by
      unfold diff; rw [List.filter_eq_nil_iff]; intro x hx; simpa using (h x).1 hx
    have e2 : diff B L = [] := by
      unfold diff; rw [List.filter_eq_nil_iff]; intro x hx; simpa using (h x).2 hx
    simp [e1, e2]
  · have e1 : diff L B = L := by
      unfold diff; rw [List.filter_eq_self]; intro x hx; simpa using ((h x).1 hx).2
    have e2 : diff B L = B := by
      unfold diff; rw [List.filter_eq_self]; intro x hx
      have : x ∉ L := fun hl => ((h x).1 hl).2 hx
      simpa using this
    have e := setEq_length hL (nodup_diff B ha) (fun x => by rw [mem_diff]; exact h x)
    rw [length_diff_of_subset ha hB hBs] at e
    have := nodup_subset_length_le hB hBs
    rw [e1, e2]; omega

theorem topoDepth_of_depth {all : List String} {s : SplitE} (h2 : 2 ≤ depth all s.below) :
    1 < topoDepth all.length s := by
  unfold topoDepth depth at *
  simp only []
  by_cases hc : ((all.length - s.below.length == 0) || (s.below.length == 0)) = true
  · simp only [Bool.or_eq_true, beq_iff_eq] at hc; omega
  · rw [if_neg hc]; omega

/-- the least transfer distance is 0 exactly when the tree has the split -/
theorem minTransfer_eq_zero_iff (r b : T) (s : SplitE) (hr : treeOK r = true) (hb : treeOK b = true)
    (hT : sameTaxa r b = true) (hs : s ∈ r.splits) (h2 : 2 ≤ depth r.tipNames s.below) :
    minTransfer (lightSide r.tipNames s.below) (ntips r) b = 0 ↔
      containsSplit r.tipNames s.below b = true := by
  obtain ⟨hrn, _, _, hrs⟩ := treeOK_facts r hr
  obtain ⟨hbn, _, _, hbs⟩ := treeOK_facts b hb
  obtain ⟨hsn, hss⟩ := hrs s hs
  have hT' := sameTaxa_iff.1 hT
  have hLn := lightSide_nodup hrn hsn
  have hLs := lightSide_subset hss
  have hLl := lightSide_length hrn hsn hss
  unfold minTransfer containsSplit ntips
  rw [List.any_eq_true]
  constructor
  · intro h0
    rcases foldl_min_eq_zero _ _ h0 with h | h
    · omega
    · obtain ⟨s', hs', e⟩ := List.mem_map.1 h
      obtain ⟨hn', hsub'⟩ := hbs s' hs'
      have hsubr : ∀ x ∈ s'.below, x ∈ r.tipNames := fun x hx => (hT' x).2 (hsub' x hx)
      have h1 := transferDist_zero (all := r.tipNames) hLn hn' hLs hsubr e
      rw [sameSplit_lightSide s'.below hss hsubr] at h1
      exact ⟨s', hs', h1⟩
  · rintro ⟨s', hs', h1⟩
    obtain ⟨hn', hsub'⟩ := hbs s' hs'
    have hsubr : ∀ x ∈ s'.below, x ∈ r.tipNames := fun x hx => (hT' x).2 (hsub' x hx)
    rw [← sameSplit_lightSide s'.below hss hsubr] at h1
    have h0 := transferDist_of_sameSplit hrn hLn hn' hsubr h1
    have := foldl_min_le_mem (b.splits.map fun s' => transferDist (lightSide r.tipNames s.below) s'.below r.tipNames.length)
      ((lightSide r.tipNames s.below).length - 1) 0 (List.mem_map.2 ⟨s', hs', h0⟩)
    omega

theorem NIL_ne_of_nonneg {x : Rat} (h : 0 ≤ x) : (x == NIL) = false := by
  have : x ≠ NIL := by
    intro e; rw [e] at h; unfold NIL at h; exact absurd h (by decide)
  simpa using this

theorem incr_nonneg {sup x : Rat} (h : 0 ≤ sup) : incr sup x = sup + x := by
  unfold incr; rw [NIL_ne_of_nonneg h]; simp

theorem incr_NIL (x : Rat) : incr NIL x = x := by
  unfold incr; simp [Rat.zero_add]

theorem natCast_sum_cons (c : T → Nat) (b : T) (bs : List T) :
    ((((b :: bs).map c).sum : Nat) : Rat) = (c b : Rat) + (((bs.map c).sum : Nat) : Rat) := by
  simp [Rat.natCast_add]

theorem incr_fold_nonneg (c : T → Nat) : ∀ (bs : List T) (sup : Rat), 0 ≤ sup →
    bs.foldl (fun a b => incr a ((c b : Nat) : Rat)) sup = sup + (((bs.map c).sum : Nat) : Rat)
  | [], sup, _ => by simp [Rat.add_zero]
  | b :: bs, sup, h => by
    have hc : (0 : Rat) ≤ ((c b : Nat) : Rat) := Rat.natCast_nonneg
    have h' : 0 ≤ sup + ((c b : Nat) : Rat) := by grind
    simp only [List.foldl_cons]
    rw [incr_nonneg h, incr_fold_nonneg c bs _ h', natCast_sum_cons]
    grind

theorem incr_fold_NIL (c : T → Nat) (bs : List T) (hne : bs ≠ []) :
    bs.foldl (fun a b => incr a ((c b : Nat) : Rat)) NIL = (((bs.map c).sum : Nat) : Rat) := by
  cases bs with
  | nil => exact absurd rfl hne
  | cons b bs =>
    simp only [List.foldl_cons]
    rw [incr_NIL, incr_fold_nonneg c bs _ Rat.natCast_nonneg, natCast_sum_cons]

theorem foldl_congr_mem {α β : Type} (f g : α → β → α) : ∀ (l : List β) (a : α),
    (∀ b ∈ l, ∀ a, f a b = g a b) → l.foldl f a = l.foldl g a
  | [], _, _ => rfl
  | b :: l, a, h => by
    simp only [List.foldl_cons]
    rw [h b (List.mem_cons_self ..) a]
    exact foldl_congr_mem f g l _ (fun b' hb' => h b' (List.mem_cons_of_mem _ hb'))

/-- what one bootstrap tree adds to a non-trivial branch: its least transfer distance -/
theorem tbeEdge_eq (r b : T) (s : SplitE) (sup : Rat) (hr : treeOK r = true) (hb : treeOK b = true)
    (hT : sameTaxa r b = true) (hs : s ∈ r.splits) (h2 : 2 ≤ depth r.tipNames s.below) :
    tbeEdge r b s sup =
      incr sup ((minTransfer (lightSide r.tipNames s.below) (ntips r) b : Nat) : Rat) := by
  have hp : 1 < topoDepth (ntips r) s := topoDepth_of_depth h2
  unfold tbeEdge
  simp only [hp, if_true]
  rw [found_tbeIndex]
  by_cases hf : containsSplit r.tipNames s.below b = true
  · rw [if_pos hf, (minTransfer_eq_zero_iff r b s hr hb hT hs h2).2 hf]
    rfl
  · rw [if_neg hf]
    have hf' : containsSplit r.tipNames s.below b = false := by simpa using hf
    rw [minTransferDist_eq_minTransfer r b s true hr hb hT hs hp (fun _ => hf')]
    rfl

theorem tbeEdge_trivial (r b : T) (s : SplitE) (sup : Rat) (h2 : ¬ 2 ≤ depth r.tipNames s.below) :
    tbeEdge r b s sup = sup := by
  unfold tbeEdge
  have : ¬ 1 < topoDepth (ntips r) s := by
    intro hp
    obtain ⟨_, a, b⟩ := topoDepth_gt_one hp
    unfold depth at h2; unfold ntips at b; omega
  simp [this]

theorem idPanic_false (r b : T) (h : idsInRange r = true) : idPanic r b = false := by
  unfold idPanic
  rw [List.any_eq_false]
  intro s hs
  simp only [idsInRange, List.all_eq_true] at h
  have := h s hs
  simp [this]

theorem tbeLoop_ok (r : T) (hid : idsInRange r = true) : ∀ (bs : List T) (sups : List Rat) (nboot : Nat),
    sups.length = r.splits.length →
    (∀ b ∈ bs, reinitOk b = true ∧ compareTips r b = true) →
    tbeLoop r bs sups nboot =
      .ok (List.zipWith (fun s sup => bs.foldl (fun a b => tbeEdge r b s a) sup) r.splits sups,
           nboot + bs.length)
  | [], sups, nboot, hl, _ => by
    simp only [tbeLoop, List.foldl_nil, List.length_nil, Nat.add_zero]
    rw [zipWith_snd_id r.splits sups (by omega)]
  | b :: bs, sups, nboot, hl, h => by
    obtain ⟨h1, h2⟩ := h b (List.mem_cons_self ..)
    have ih := tbeLoop_ok r hid bs (List.zipWith (tbeEdge r b) r.splits sups) (nboot + 1)
      (by simp [hl]) (fun b' hb' => h b' (List.mem_cons_of_mem _ hb'))
    simp only [tbeLoop, h1, h2, idPanic_false r b hid, Bool.not_true, Bool.false_eq_true, if_false]
    rw [ih, zipWith_zipWith_left]
    congr 2
    simp only [List.length_cons]; omega

/-- `tbe_def` -/
theorem tbe_eq_expected (r : T) (bs : List T) (h : hypOK r bs = true) (hid : idsInRange r = true) :
    tbe r bs = .ok (tbeExpected r bs) := by
  obtain ⟨hr, hne, hb⟩ := hypOK_facts h
  have hrr : reinitOk r = true := by
    simp only [treeOK, Bool.and_eq_true] at hr; exact hr.1
  obtain ⟨hrn, _, _, hrs⟩ := treeOK_facts r hr
  unfold tbe
  rw [tbeLoop_ok r hid bs _ 0 (by simp) (fun b hb' => accepts_of_hyp hr (hb b hb').1 (hb b hb').2)]
  simp only [hrr, Bool.not_true, Bool.false_eq_true, if_false]
  congr 1
  rw [zipWith_zipWith_left, zipWith_map_const]
  unfold tbeExpected
  apply List.map_congr_left
  intro s hs
  unfold tbeOf
  by_cases h2 : 2 ≤ depth r.tipNames s.below
  · rw [if_pos h2]
    rw [foldl_congr_mem _ (fun a b => incr a ((minTransfer (lightSide r.tipNames s.below) (ntips r) b : Nat) : Rat)) bs NIL
      (fun b hb' a => tbeEdge_eq r b s a hr (hb b hb').1 (hb b hb').2 hs h2)]
    rw [incr_fold_NIL _ bs hne]
    have hnn : (0 : Rat) ≤ (((bs.map (minTransfer (lightSide r.tipNames s.below) (ntips r))).sum : Nat) : Rat) :=
      Rat.natCast_nonneg
    unfold normalize
    have hne' : ((((bs.map (minTransfer (lightSide r.tipNames s.below) (ntips r))).sum : Nat) : Rat) != NIL) = true := by
      simp [bne, NIL_ne_of_nonneg hnn]
    rw [if_pos hne']
    obtain ⟨hsn, hss⟩ := hrs s hs
    have hp := topoDepth_gt_one (topoDepth_of_depth h2)
    have hLl := lightSide_length hrn hsn hss
    unfold tbeSpec
    simp only [Nat.zero_add]
    have e : ((topoDepth (ntips r) s - 1 : Int) : Rat) = ((lightSide r.tipNames s.below).length : Rat) - 1 := by
      unfold ntips
      rw [hp.1, hLl, Rat.intCast_sub]
      unfold depth
      rfl
    rw [e]
    rfl
  · rw [if_neg h2]
    rw [foldl_congr_mem _ (fun a _ => a) bs NIL (fun b _ a => tbeEdge_trivial r b s a h2)]
    have : bs.foldl (fun (a : Rat) (_ : T) => a) NIL = NIL := by
      clear hb hne h
      induction bs with
      | nil => rfl
      | cons b l ih => simpa using ih
    rw [this]
    simp [normalize]

end Gotree.C10
