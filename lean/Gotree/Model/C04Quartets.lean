/-
  C04 — model of the quartet enumeration `Tree.Quartets(specific, it)` and of `IndexQuartets`
  (tree/quartets.go:112-277, 329): `postOrderQuartetSet` (taxa below every node),
  `preOrderQuartetSet` (taxa above every node, concatenated in `neigh` order — the parent sits at
  position `ppos`), the per-branch `QuartetSet` and `QuartetSet.iterate`.  Core Lean only.
-/
import Gotree.Model.Core
import Gotree.Model.C04Q
import Gotree.Model.C04HM

namespace Gotree.C04
open Gotree

/-- all pairs `(l[i], l[j])`, `i < j`, in the order of the two nested loops -/
def pairsOf {α : Type} : List α → List (α × α)
  | [] => []
  | a :: r => r.map (fun b => (a, b)) ++ pairsOf r

/-- `iterate`, non specific: two taxa of `left[0]`, two taxa of `right[0]` -/
def iterPlain (l r : List Nat) : List Quartet :=
  (pairsOf l).flatMap fun (a, b) => (pairsOf r).map fun (c, d) => ⟨a, b, c, d⟩

/-- `iterate`, specific: one taxon in each of two branches on the left and two branches on the right -/
def iterSpecific (L R : List (List Nat)) : List Quartet :=
  (pairsOf L).flatMap fun (g1, g2) => (pairsOf R).flatMap fun (g3, g4) =>
    g1.flatMap fun a => g2.flatMap fun b => g3.flatMap fun c => g4.map fun d => ⟨a, b, c, d⟩

/-- `right[n.Id()]` of a non-root node after `postOrderQuartetSet`: the tip indexes below it -/
def rightOf (rank : String → Nat) (t : T) : List Nat := t.leaves.map rank

/-- The taxa reached through every neighbour of a node, in `neigh` order; the first component is
    `some j` for child number `j`, `none` for the parent (absent for the root), whose list is `left[x]`. -/
def groups (rank : String → Nat) (isRoot : Bool) (ppos : Nat) (leftX : List Nat) (kids : Kids) :
    List (Option Nat × List Nat) :=
  let g := kids.zipIdx.map fun (et, j) => (some j, rightOf rank et.2)
  if isRoot then g else g.take ppos ++ (none, leftX) :: g.drop ppos

/-- `left[next.Id()]` as `preOrderQuartetSet` builds it: everything around `n` except `next` itself -/
def leftOfKid (i : Nat) (gs : List (Option Nat × List Nat)) : List Nat :=
  (gs.filter fun g => g.1 != some i).flatMap (·.2)

/- the loop over `t.Edges()` (pre-order) with the quartet set of every branch -/
mutual
def quartT (rank : String → Nat) (specific isRoot : Bool) (leftX : List Nat) : T → List Quartet
  | .node _ p kids =>
    quartL rank specific (kids.length + if isRoot then 0 else 1) (groups rank isRoot p leftX kids) 0 kids
def quartL (rank : String → Nat) (specific : Bool) (degX : Nat) (gs : List (Option Nat × List Nat)) (i : Nat) :
    Kids → List Quartet
  | [] => []
  | (_, y) :: r =>
    (if degX < 3 || y.kids.length + 1 < 3 then []          -- e.Left().Nneigh() < 3 || e.Right().Nneigh() < 3
     else if specific then
       iterSpecific ((gs.filter fun g => g.1 != some i).map (·.2)) (y.kids.map fun ec => rightOf rank ec.2)
     else iterPlain (leftOfKid i gs) (rightOf rank y)) ++
    quartT rank specific false (leftOfKid i gs) y ++
    quartL rank specific degX gs (i + 1) r
end

/-- `Tree.Quartets(specific, it)`: the quartets handed to `it`, in order.  A root that is a tip stops
    `postOrderQuartetSet` at once (`n.Tip()`), every other list stays empty: no quartet at all. -/
def quartets (rank : String → Nat) (specific : Bool) (t : T) : List Quartet :=
  if t.kids.length == 1 then [] else quartT rank specific true [] t

/-- `IndexQuartets`: every quartet put in a `HashMap` under itself (`index.PutValue(q, q)`) -/
def indexQuartets (policy : Nat → Nat → Bool) (cap : Nat) (qs : List Quartet) : List (HMOut Quartet Quartet) :=
  HM.run Quartet.hashCode Quartet.hashEquals policy ((qs.map fun q => HMOp.put q q) ++ [.kvs]) (HM.new cap)

end Gotree.C04
