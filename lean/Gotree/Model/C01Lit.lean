/-
  C01 — the node stack of parseIter, LITERALLY: a second machine next to `Newick.iter` / `Newick.run`.

  `Newick.iter` decides `node == nil` / `edge == nil` from the SHAPE of the stack (empty / at most one
  frame), by an argument about the code (Model/C01.lean, header).  Here nothing is derived:
    * the two local variables of parseIter are part of the state, as their nil-ness `nodeNil`, `edgeNil`,
      assigned exactly where the Go code assigns them (`node, edge, _ = nodeStack.Head()` after a Pop;
      `node = newNode`, `edge = t.ConnectNodes(…)` on a push; `node = t.NewNode()` with `edge` UNTOUCHED
      when a root is made);
    * a stack element carries the edge it was pushed with, `none` = Go's nil `*tree.Edge`
      (`nodeStack.Push(node, nil)`);
    * a popped element that was pushed with a nil edge is a root: it was never connected to anything,
      so it is not attached to the element below it; it is `t.Root()`.
  `Lemmas/C01Lit.lean` proves that from the initial state this machine and `Newick.run` compute the same
  thing (`runL_eq_run`): the derived nil tests of the functional machine are the code's.
  Core Lean only.
-/
import Gotree.Model.C01

namespace Gotree.Newick.Lit
open Gotree Gotree.Newick

structure LFrame where
  d : NodeD
  e : Option EdgeD
  kids : Kids
  deriving Repr, Inhabited

structure LState where
  stack : List LFrame := []
  nodeNil : Bool := true
  edgeNil : Bool := true
  level : Int := 0
  prevTok : Option Tok := none
  nedges : Nat := 0
  done : Option T := none
  stale : Bool := false
  deriving Repr, Inhabited

def LFrame.toT (f : LFrame) : T := .node f.d 0 f.kids

namespace LState

/-- `node, edge, _ = nodeStack.Head()` -/
def headVars (st : LState) : LState :=
  match st.stack with
  | [] => { st with nodeNil := true, edgeNil := true }
  | f :: _ => { st with nodeNil := false, edgeNil := f.e.isNone }

/-- `nodeStack.Pop()` then `node, edge, _ = nodeStack.Head()`; `none` = empty stack.
    The popped node hangs under the element below it iff it was pushed with an edge. -/
def pop (st : LState) : Option LState :=
  match st.stack with
  | [] => none
  | f :: rest =>
    match f.e with
    | none => some ({ st with stack := rest, done := some f.toT } : LState).headVars
    | some e =>
      match rest with
      | p :: r2 => some ({ st with stack := { p with kids := p.kids ++ [(e, f.toT)] } :: r2 } : LState).headVars
      | [] => some ({ st with stack := [] } : LState).headVars      -- an edge whose parent left the stack

/-- a new node connected to `node` (the top element), pushed with its edge -/
def pushChild (st : LState) (name : String) : LState :=
  { st with stack := ⟨⟨name, []⟩, some { EdgeD.blank with id := (st.nedges : Int) }, []⟩ :: st.stack,
            nedges := st.nedges + 1, nodeNil := false, edgeNil := false }

/-- `node = t.NewNode(); nodeStack.Push(node, nil); t.SetRoot(node)` — `edge` is not assigned -/
def pushRoot (st : LState) : LState :=
  { st with stack := ⟨⟨"", []⟩, none, []⟩ :: st.stack, done := none, nodeNil := false }

def modTop (st : LState) (f : LFrame → LFrame) : LState :=
  match st.stack with
  | [] => st
  | x :: r => { st with stack := f x :: r }

/-- `edge.Length()` of the current edge -/
def topLen (st : LState) : Rat :=
  match st.stack with
  | [] => NIL
  | x :: _ => match x.e with | some e => e.len | none => NIL

def addNodeComment (st : LState) (c : String) : LState :=
  st.modTop fun f => { f with d := { f.d with comments := f.d.comments ++ [c] } }
def onEdge (st : LState) (g : EdgeD → EdgeD) : LState := st.modTop fun f => { f with e := f.e.map g }
def addEdgeComment (st : LState) (c : String) : LState := st.onEdge fun e => { e with comments := e.comments ++ [c] }
def setName (st : LState) (n : String) : LState := st.modTop fun f => { f with d := { f.d with name := n } }
def setLen (st : LState) (v : Rat) : LState := st.onEdge fun e => { e with len := v }
def setSup (st : LState) (v : Rat) : LState := st.onEdge fun e => { e with sup := v }
def setPval (st : LState) (v : Rat) : LState := st.onEdge fun e => { e with pval := v }

/-- the tree under `t.Root()`: the topmost element pushed with a nil edge, with everything above it attached -/
def unwind : List LFrame → Option (EdgeD × T) → Option T
  | [], _ => none
  | f :: rest, acc =>
    let f' : LFrame := match acc with
      | none => f
      | some c => { f with kids := f.kids ++ [c] }
    match f'.e with
    | none => some f'.toT
    | some e => unwind rest (some (e, f'.toT))

def result (st : LState) : Option T :=
  match st.stack with
  | [] => st.done
  | s => unwind s none

end LState

inductive IterL where
  | cont (st : LState) (rest : List Char)
  | stop (o : Outcome (LState × List Char))

open LState in
/-- The `switch tok` of parseIter with the two variables tested as the code tests them. -/
def iterL (C : Codec) (st : LState) (tok : Tok) (lit pos rest : List Char) : IterL :=
  match tok with
  | .openpar =>
    if st.nodeNil then
      if st.level > 0 then .stop (.err "nil node at depth > 0")
      else .cont { st.pushRoot with level := st.level + 1, prevTok := some .openpar } rest
    else
      if st.level == 0 then .stop (.err "An open parenthesis while the stack is empty")
      else .cont { st.pushChild "" with level := st.level + 1, prevTok := some .openpar } rest
  | .closepar =>
    match st.pop with
    | none => .stop (.err "Closing parenthesis while the stack is already empty")
    | some st' => .cont { st' with level := st.level - 1, prevTok := some .closepar, stale := false } rest
  | .openbrack =>
    match consumeComment C rest [] with
    | none => .stop (.err "unmatched bracket")
    | some (c, r2) =>
      let c := String.ofList c
      let st := { st with stale := false }
      if st.prevTok == some .startlen && !st.edgeNil then
        .cont { st.addEdgeComment c with prevTok := some .closebrack } r2
      else if st.prevTok == some .startlen && st.edgeNil && !st.nodeNil then
        .cont { st.addNodeComment c with prevTok := some .closebrack } r2
      else if (st.prevTok == some .closepar || st.prevTok == some .ident || st.prevTok == some .numeric ||
               st.prevTok == some .closebrack) && !st.nodeNil then
        .cont { st.addNodeComment c with prevTok := some .closebrack } r2
      else .stop (.err "comment should not be located here")
  | .closebrack => .stop (.err "mismatched ] here")
  | .startlen =>
    let s := scanIW C rest
    if s.1 ≠ .numeric then .stop (.err "no numeric value after ':'")
    else if !st.nodeNil && st.level != 0 then
      if st.edgeNil then .stop (.err "Edge length should not be located here")
      else if st.topLen != NIL then .stop (.err "More than one length is given")
      else match C.parse s.2.1 with
        | none => .stop (.unrep "non-finite length")
        | some v => .cont { st.setLen v with prevTok := some .startlen, stale := false } s.2.2
    else if st.level == 0 then .cont { st with prevTok := some .startlen } s.2.2
    else .stop (.err "Cannot assign length to nil node")
  | .newsibling =>
    match st.pop with
    | none => .stop (.err "Stack is empty, a coma should not be located here")
    | some st' => .cont { st' with prevTok := some .newsibling, stale := false } rest
  | .ident | .numeric =>
    if st.prevTok == some .closepar then
      if tok == .numeric then
        if st.level == 0 || st.edgeNil then .cont st rest
        else match C.parse lit with
          | none => .stop (.unrep "non-finite support")
          | some v => .cont { st.setSup v with stale := false } rest
      else
        let named (st : LState) : IterL :=
          if st.nodeNil then .stop (.err "Cannot assign node name to nil node")
          else .cont (st.setName (String.ofList lit)) rest
        match splitSlash lit with
        | [a, b] =>
          if st.edgeNil then named st
          else if !C.isFloat a then named { st with stale := true }
          else if !C.isFloat b then named { st with stale := true }
          else match C.parse a, C.parse b with
            | some s, some p => .cont { (st.setSup s).setPval p with stale := false } rest
            | _, _ => .stop (.unrep "non-finite support or p-value")
        | _ => named st
    else
      if st.prevTok != some .openpar && st.prevTok != some .newsibling then
        .stop (.err "There should not be a tip name in this context")
      else if st.nodeNil then .stop (.err "Cannot create a new tip with no parent")
      else .cont { st.pushChild (String.ofList lit) with prevTok := some tok } rest
  | .eot =>
    if st.level != 0 then .stop (.err "Mismatched parenthesis at ;")
    else if st.stale then .stop (.err "strconv.ParseFloat: invalid syntax")
    else .stop (.ok ({ st with prevTok := some .eot }, pos))
  | .eof =>
    if st.stale then .stop (.err "strconv.ParseFloat: invalid syntax")
    else .stop (.ok ({ st with prevTok := some .eof }, rest))
  | .ws | .illegal => .cont st rest

theorem iterL_le (C : Codec) (st : LState) (tok : Tok) (lit pos rest : List Char) (st' : LState) (r' : List Char)
    (h : iterL C st tok lit pos rest = .cont st' r') : r'.length ≤ rest.length := by
  have hs := scanIW_le C rest
  unfold iterL at h
  split at h
  all_goals (try simp only [] at h)
  all_goals repeat' split at h
  all_goals first
    | (cases h; done)
    | (cases h; first | exact Nat.le_refl _ | exact hs | (rename_i hc; exact consumeComment_le C _ _ _ _ _ (Nat.le_refl _) hc))
    | skip

/-- the `for` loop, literal state -/
def runL (C : Codec) (st : LState) (inp : List Char) : Outcome (LState × List Char) :=
  match hi : iterL C st (scanIW C inp).1 (scanIW C inp).2.1 (skipWs C inp) (scanIW C inp).2.2 with
  | .stop o => o
  | .cont st' r' =>
    if h : (scanIW C inp).1 = .eof then .err "unreachable: EOF always stops"
    else runL C st' r'
termination_by inp.length
decreasing_by
  have h1 := iterL_le C st _ _ _ _ st' r' hi
  have h2 := scanIW_lt C inp h
  omega

/-- `Parser.Parse` on the literal machine -/
def parseL (C : Codec) (inp : List Char) : Outcome T :=
  let s0 := scanIW C inp
  let start : Option (List Char) :=
    if s0.1 = .openbrack then
      match consumeComment C s0.2.2 [] with
      | none => none
      | some (_, r) => some r
    else some inp
  match start with
  | none => .err "unmatched bracket"
  | some inp1 =>
    if (scanIW C inp1).1 ≠ .openpar then .err "found …, expected ("
    else
      match runL C {} (skipWs C inp1) with
      | .err m => .err m
      | .panic m => .panic m
      | .unrep m => .unrep m
      | .ok (st, rest) =>
        if st.level != 0 then .err "mismatched parenthesis after parsing"
        else if (scanIW C rest).1 ≠ .eot then .err "found …, expected ;"
        else match st.result with
          | none => .panic "nil root in Tips()"
          | some t => .ok (trimTips t)

end Gotree.Newick.Lit
