/-
  C08 — `CompareWeighted` with an absent branch length read as 0 instead of the marker -1
  (`e.Length()` replaced by "length or 0" at every use: the two `PutEdgeValue`, `compLen`, the
  two `append`).  Since the function reads lengths through `Length()` only, this is the function
  of Model/C08.lean on the trees whose absent lengths have been replaced by 0.
  `compareWeighted` (marker kept) is the code as it is at the time of writing.  Core Lean only.
-/
import Gotree.Model.C08
import Gotree.Spec.C08

namespace Gotree.C08
open Gotree

def compareWeighted0 (r c : T) (tips sc : Bool) : Res WStats :=
  compareWeighted r.zeroLens c.zeroLens tips sc

end Gotree.C08
