/-
  C15 — lemmas about `GraftTreeOnTip`.  Core Lean only.
-/
import Gotree.Lemmas.C15

namespace Gotree.C15
open Gotree Gotree.C14

theorem isLeaf_leaves {t : T} (h : t.isLeaf = true) : t.leaves = [t.name] ∧ t.splitsBelow = [] := by
  cases t with
  | node d p k => cases k with
    | nil => simp [T.leaves, T.name, splitsL]
    | cons x r => simp [T.isLeaf] at h

theorem graftKids_ne {tip : String} {G : T} : ∀ {k k' : Kids}, graftKids tip G k = some k' → k ≠ [] ∧ k' ≠ []
  | [], _, h => by simp [graftKids] at h
  | (e, t) :: r, k', h => by
    refine ⟨by simp, ?_⟩
    simp only [graftKids] at h
    split at h
    · injection h with h; subst h; simp
    · split at h
      · injection h with h; subst h; simp
      · cases hr : graftKids tip G r with
        | none => simp [hr] at h
        | some r' => simp [hr] at h; subst h; simp

theorem graftAt_some {tip : String} {G : T} {d : NodeD} {p : Nat} {k : Kids} {t' : T}
    (h : graftAt tip G (.node d p k) = some t') : ∃ k', graftKids tip G k = some k' ∧ t' = .node d p k' := by
  simp only [graftAt] at h
  cases hk : graftKids tip G k with
  | none => simp [hk] at h
  | some k' => simp [hk] at h; exact ⟨k', rfl, h.symm⟩

/-- the three cases of `graftKids` on a non-empty list -/
theorem graftKids_cases {tip : String} {G : T} {e : EdgeD} {t : T} {r k' : Kids}
    (h : graftKids tip G ((e, t) :: r) = some k') :
    (t.isLeaf = true ∧ t.name = tip ∧ k' = (e, G) :: r) ∨
    (¬(t.isLeaf = true ∧ t.name = tip) ∧ ∃ t', graftAt tip G t = some t' ∧ k' = (e, t') :: r) ∨
    (¬(t.isLeaf = true ∧ t.name = tip) ∧ graftAt tip G t = none ∧ ∃ r', graftKids tip G r = some r' ∧ k' = (e, t) :: r') := by
  simp only [graftKids] at h
  split at h
  · rename_i hm
    simp only [Bool.and_eq_true, beq_iff_eq] at hm
    injection h with h
    exact Or.inl ⟨hm.1, hm.2, h.symm⟩
  · rename_i hm
    simp only [Bool.and_eq_true, beq_iff_eq] at hm
    split at h
    · rename_i t' ht
      injection h with h
      exact Or.inr (Or.inl ⟨hm, t', ht, h.symm⟩)
    · rename_i ht
      cases hr : graftKids tip G r with
      | none => simp [hr] at h
      | some r' => simp [hr] at h; exact Or.inr (Or.inr ⟨hm, ht, r', rfl, h.symm⟩)

mutual
/-- a name that is neither the tip nor a leaf of the graft is below the same branches -/
theorem graftAt_mem {tip : String} {G : T} : ∀ (t t' : T), graftAt tip G t = some t' →
    ∀ x, x ≠ tip → x ∉ G.leaves → (x ∈ t'.leaves ↔ x ∈ t.leaves)
  | .node d p k, t', h, x, hx, hg => by
    obtain ⟨k', hk, rfl⟩ := graftAt_some h
    obtain ⟨h1, h2⟩ := graftKids_ne hk
    rw [leaves_of_kids_ne _ _ _ h1, leaves_of_kids_ne _ _ _ h2]
    exact graftKids_mem k k' hk x hx hg
theorem graftKids_mem {tip : String} {G : T} : ∀ (k k' : Kids), graftKids tip G k = some k' →
    ∀ x, x ≠ tip → x ∉ G.leaves → (x ∈ leavesL k' ↔ x ∈ leavesL k)
  | [], _, h, _, _, _ => by simp [graftKids] at h
  | (e, t) :: r, k', h, x, hx, hg => by
    rcases graftKids_cases h with ⟨hl, hn, rfl⟩ | ⟨_, t', ht, rfl⟩ | ⟨_, _, r', hr, rfl⟩
    · simp [leavesL, (isLeaf_leaves hl).1, hn, hx, hg]
    · simp [leavesL, graftAt_mem t t' ht x hx hg]
    · simp [leavesL, graftKids_mem r r' hr x hx hg]
end

mutual
/-- the leaves of the graft are leaves of the result -/
theorem graftAt_sub {tip : String} {G : T} : ∀ (t t' : T), graftAt tip G t = some t' → ∀ x ∈ G.leaves, x ∈ t'.leaves
  | .node d p k, t', h, x, hx => by
    obtain ⟨k', hk, rfl⟩ := graftAt_some h
    rw [leaves_of_kids_ne _ _ _ (graftKids_ne hk).2]
    exact graftKids_sub k k' hk x hx
theorem graftKids_sub {tip : String} {G : T} : ∀ (k k' : Kids), graftKids tip G k = some k' → ∀ x ∈ G.leaves, x ∈ leavesL k'
  | [], _, h, _, _ => by simp [graftKids] at h
  | (e, t) :: r, k', h, x, hx => by
    rcases graftKids_cases h with ⟨_, _, rfl⟩ | ⟨_, t', ht, rfl⟩ | ⟨_, _, r', hr, rfl⟩
    · simp [leavesL, hx]
    · simp [leavesL, graftAt_sub t t' ht x hx]
    · simp [leavesL, graftKids_sub r r' hr x hx]
end

mutual
/-- distances between names that are neither the tip nor leaves of the graft do not move -/
theorem graftAt_dist_out (w : EdgeD → Rat) {tip : String} {G : T} : ∀ (t t' : T), graftAt tip G t = some t' →
    ∀ a b, a ≠ tip → b ≠ tip → a ∉ G.leaves → b ∉ G.leaves →
    distW w t'.splitsBelow a b = distW w t.splitsBelow a b
  | .node d p k, t', h, a, b, ha, hb, hag, hbg => by
    obtain ⟨k', hk, rfl⟩ := graftAt_some h
    simpa using graftKids_dist_out w k k' hk a b ha hb hag hbg
theorem graftKids_dist_out (w : EdgeD → Rat) {tip : String} {G : T} : ∀ (k k' : Kids), graftKids tip G k = some k' →
    ∀ a b, a ≠ tip → b ≠ tip → a ∉ G.leaves → b ∉ G.leaves →
    distW w (splitsL k') a b = distW w (splitsL k) a b
  | [], _, h, _, _, _, _, _, _ => by simp [graftKids] at h
  | (e, t) :: r, k', h, a, b, ha, hb, hag, hbg => by
    rcases graftKids_cases h with ⟨hl, hn, rfl⟩ | ⟨_, t', ht, rfl⟩ | ⟨_, _, r', hr, rfl⟩
    · simp only [splitsL, distW_cons, distW_append]
      rw [(isLeaf_leaves hl).2, (isLeaf_leaves hl).1, distW_nil,
        distW_both_out w G.splitsBelow a b (out_of_sub _ _ hag) (out_of_sub _ _ hbg),
        sep_of_both_out _ a b hag hbg, sep_of_both_out _ a b (by simp [hn, ha]) (by simp [hn, hb])]
    · simp only [splitsL, distW_cons, distW_append]
      rw [graftAt_dist_out w t t' ht a b ha hb hag hbg,
        sep_congr ⟨t.leaves, e, t.isLeaf⟩ ⟨t'.leaves, e, t'.isLeaf⟩ a b
          (graftAt_mem t t' ht a ha hag) (graftAt_mem t t' ht b hb hbg)]
    · simp only [splitsL, distW_cons, distW_append]
      rw [graftKids_dist_out w r r' hr a b ha hb hag hbg]
end

mutual
/-- distances between two leaves of the graft are those inside the graft, provided the
    host has no other leaf with those names -/
theorem graftAt_dist_in (w : EdgeD → Rat) {tip : String} {G : T} : ∀ (t t' : T), graftAt tip G t = some t' →
    ∀ a b, a ∈ G.leaves → b ∈ G.leaves → a ∉ t.leaves → b ∉ t.leaves →
    distW w t'.splitsBelow a b = distW w G.splitsBelow a b
  | .node d p k, t', h, a, b, ha, hb, hat, hbt => by
    obtain ⟨k', hk, rfl⟩ := graftAt_some h
    rw [leaves_of_kids_ne _ _ _ (graftKids_ne hk).1] at hat hbt
    simpa using graftKids_dist_in w k k' hk a b ha hb hat hbt
theorem graftKids_dist_in (w : EdgeD → Rat) {tip : String} {G : T} : ∀ (k k' : Kids), graftKids tip G k = some k' →
    ∀ a b, a ∈ G.leaves → b ∈ G.leaves → a ∉ leavesL k → b ∉ leavesL k →
    distW w (splitsL k') a b = distW w G.splitsBelow a b
  | [], _, h, _, _, _, _, _, _ => by simp [graftKids] at h
  | (e, t) :: r, k', h, a, b, ha, hb, hat, hbt => by
    simp only [leavesL, List.mem_append, not_or] at hat hbt
    rcases graftKids_cases h with ⟨_, _, rfl⟩ | ⟨_, t', ht, rfl⟩ | ⟨_, _, r', hr, rfl⟩
    · simp only [splitsL, distW_cons, distW_append]
      rw [distW_both_out w (splitsL r) a b (out_of_subL _ _ hat.2) (out_of_subL _ _ hbt.2),
        sep_of_both_in _ a b ha hb]
      simp [Rat.zero_add, Rat.add_zero]
    · simp only [splitsL, distW_cons, distW_append]
      rw [graftAt_dist_in w t t' ht a b ha hb hat.1 hbt.1,
        distW_both_out w (splitsL r) a b (out_of_subL _ _ hat.2) (out_of_subL _ _ hbt.2),
        sep_of_both_in _ a b (graftAt_sub t t' ht a ha) (graftAt_sub t t' ht b hb)]
      simp [Rat.zero_add, Rat.add_zero]
    · simp only [splitsL, distW_cons, distW_append]
      rw [graftKids_dist_in w r r' hr a b ha hb hat.2 hbt.2,
        distW_both_out w t.splitsBelow a b (out_of_sub _ _ hat.1) (out_of_sub _ _ hbt.1),
        sep_of_both_out _ a b hat.1 hbt.1]
      simp [Rat.zero_add]
end

/-! ### the tip set -/

mutual
theorem graftAt_none {tip : String} {G : T} : ∀ (t : T), graftAt tip G t = none → ¬(t.isLeaf = true ∧ t.name = tip) → tip ∉ t.leaves
  | .node d p [], _, hm => by
    simp [T.isLeaf, T.name] at hm
    simp [T.leaves]; exact fun h => hm h.symm
  | .node d p (x :: k), h, _ => by
    rw [leaves_node_cons]
    apply graftKids_none (x :: k)
    simp only [graftAt] at h
    cases hk : graftKids tip G (x :: k) with
    | none => rfl
    | some k' => simp [hk] at h
theorem graftKids_none {tip : String} {G : T} : ∀ (k : Kids), graftKids tip G k = none → tip ∉ leavesL k
  | [], _ => by simp [leavesL]
  | (e, t) :: r, h => by
    simp only [graftKids] at h
    split at h
    · cases h
    · rename_i hm
      simp only [Bool.and_eq_true, beq_iff_eq] at hm
      split at h
      · cases h
      · rename_i ht
        cases hr : graftKids tip G r with
        | some r' => simp [hr] at h
        | none =>
          simp only [leavesL, List.mem_append, not_or]
          exact ⟨graftAt_none t ht hm, graftKids_none r hr⟩
end

mutual
theorem graftAt_tip_mem {tip : String} {G : T} : ∀ (t t' : T), graftAt tip G t = some t' → tip ∈ t.leaves
  | .node d p k, t', h => by
    obtain ⟨k', hk, rfl⟩ := graftAt_some h
    rw [leaves_of_kids_ne _ _ _ (graftKids_ne hk).1]
    exact graftKids_tip_mem k k' hk
theorem graftKids_tip_mem {tip : String} {G : T} : ∀ (k k' : Kids), graftKids tip G k = some k' → tip ∈ leavesL k
  | [], _, h => by simp [graftKids] at h
  | (e, t) :: r, k', h => by
    rcases graftKids_cases h with ⟨hl, hn, rfl⟩ | ⟨_, t', ht, rfl⟩ | ⟨_, _, r', hr, rfl⟩
    · simp [leavesL, (isLeaf_leaves hl).1, hn]
    · simp [leavesL, graftAt_tip_mem t t' ht]
    · simp [leavesL, graftKids_tip_mem r r' hr]
end

mutual
theorem graftAt_perm {tip : String} {G : T} : ∀ (t t' : T), graftAt tip G t = some t' →
    t'.leaves.Perm (t.leaves.erase tip ++ G.leaves)
  | .node d p k, t', h => by
    obtain ⟨k', hk, rfl⟩ := graftAt_some h
    rw [leaves_of_kids_ne _ _ _ (graftKids_ne hk).1, leaves_of_kids_ne _ _ _ (graftKids_ne hk).2]
    exact graftKids_perm k k' hk
theorem graftKids_perm {tip : String} {G : T} : ∀ (k k' : Kids), graftKids tip G k = some k' →
    (leavesL k').Perm ((leavesL k).erase tip ++ G.leaves)
  | [], _, h => by simp [graftKids] at h
  | (e, t) :: r, k', h => by
    rcases graftKids_cases h with ⟨hl, hn, rfl⟩ | ⟨hm, t', ht, rfl⟩ | ⟨hm, ht, r', hr, rfl⟩
    · simp only [leavesL, (isLeaf_leaves hl).1, hn, List.singleton_append, List.erase_cons_head]
      exact List.perm_append_comm
    · simp only [leavesL]
      rw [List.erase_append_left _ (graftAt_tip_mem t t' ht)]
      have := graftAt_perm t t' ht
      calc t'.leaves ++ leavesL r
          _ |>.Perm ((t.leaves.erase tip ++ G.leaves) ++ leavesL r) := this.append_right _
          _ |>.Perm (t.leaves.erase tip ++ (G.leaves ++ leavesL r)) := by rw [List.append_assoc]
          _ |>.Perm (t.leaves.erase tip ++ (leavesL r ++ G.leaves)) := List.Perm.append_left _ List.perm_append_comm
          _ |>.Perm (t.leaves.erase tip ++ leavesL r ++ G.leaves) := by rw [List.append_assoc]
    · simp only [leavesL]
      rw [List.erase_append_right _ (graftAt_none t ht hm), List.append_assoc]
      exact (graftKids_perm r r' hr).append_left _
end

theorem graftKids_length {tip : String} {G : T} : ∀ (k k' : Kids), graftKids tip G k = some k' → k'.length = k.length
  | [], _, h => by simp [graftKids] at h
  | (e, t) :: r, k', h => by
    rcases graftKids_cases h with ⟨_, _, rfl⟩ | ⟨_, t', _, rfl⟩ | ⟨_, _, r', hr, rfl⟩
    · simp
    · simp
    · simp [graftKids_length r r' hr]

/-- what a successful `graft` is -/
theorem graft_ok {idx : Bool} {t g t' : T} {tip : String} (h : graft idx t tip g = .ok t') :
    ¬(t.kids.length = 1 ∧ t.name = tip) ∧ ∃ k', graftKids tip (asGraft g) t.kids = some k' ∧ t' = .node t.d t.ppos k' := by
  unfold graft at h
  split at h
  · cases h
  · split at h
    · cases h
    · split at h
      · cases h
      · rename_i hr
        simp only [Bool.and_eq_true, beq_iff_eq] at hr
        split at h
        · rename_i k hk
          injection h with h
          exact ⟨hr, k, hk, h.symm⟩
        · cases h

end Gotree.C15
