module verifharness

go 1.21.6

require github.com/evolbioinfo/gotree v0.0.0

require (
	github.com/ajstarks/svgo v0.0.0-20211024235047-1546f124cd8b
	github.com/evolbioinfo/goalign v0.3.7-0.20230906113011-fcecb09f9d43
	github.com/fredericlemoine/bitset v1.2.0
	github.com/fredericlemoine/cobrashell v0.0.0-20180921081141-49c72f93426c
	github.com/fredericlemoine/gostats v0.1.1
	github.com/golang/freetype v0.0.0-20170609003504-e2365dfdc4a0
	github.com/jlaffaye/ftp v0.0.0-20210307004419-5d4190119067
	github.com/llgcode/draw2d v0.0.0-20210313082411-577c1ead272a
	github.com/spf13/cobra v1.5.0
	golang.org/x/image v0.11.0
	gonum.org/v1/plot v0.14.0
)
require (
	gioui.org v0.2.0 // indirect
	gioui.org/cpu v0.0.0-20220412190645-f1e9e8c3b1f7 // indirect
	gioui.org/shader v1.0.6 // indirect
	gioui.org/x v0.2.0 // indirect
	git.sr.ht/~sbinet/gg v0.5.0 // indirect
	github.com/abiosoft/ishell v2.0.0+incompatible // indirect
	github.com/abiosoft/readline v0.0.0-20180607040430-155bce2042db // indirect
	github.com/andybalholm/stroke v0.0.0-20221221101821-bd29b49d73f0 // indirect
	github.com/armon/go-radix v1.0.0 // indirect
	github.com/campoy/embedmd v1.0.0 // indirect
	github.com/fatih/color v1.10.0 // indirect
	github.com/flynn-archive/go-shlex v0.0.0-20150515145356-3f9db97f8568 // indirect
	github.com/go-fonts/liberation v0.3.1 // indirect
	github.com/go-latex/latex v0.0.0-20230307184459-12ec69307ad9 // indirect
	github.com/go-pdf/fpdf v0.8.0 // indirect
	github.com/go-text/typesetting v0.0.0-20230803102845-24e03d8b5372 // indirect
	github.com/inconshreveable/mousetrap v1.0.1 // indirect
	github.com/mattn/go-colorable v0.1.8 // indirect
	github.com/mattn/go-isatty v0.0.12 // indirect
	github.com/pmezard/go-difflib v1.0.0 // indirect
	github.com/spf13/pflag v1.0.5 // indirect
	github.com/ulikunitz/xz v0.5.10 // indirect
	golang.org/x/exp v0.0.0-20230801115018-d63ba01acd4b // indirect
	golang.org/x/exp/shiny v0.0.0-20230801115018-d63ba01acd4b // indirect
	golang.org/x/sys v0.11.0 // indirect
	golang.org/x/text v0.12.0 // indirect
	gonum.org/v1/gonum v0.14.0 // indirect
	rsc.io/pdf v0.1.1 // indirect
)

replace github.com/evolbioinfo/gotree => /repo
