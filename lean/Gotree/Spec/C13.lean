/-
  C13 — what the property means.

  "Converting a tree between Newick, Nexus (± translate table) and PhyloXML and back gives the same
  tree: shape, names, lengths and supports" : `strip t' = strip t` (`sameKept`).
  "Every tree of a multi-tree file is delivered in file order with consecutive identifiers or an
  error is reported, none is silently skipped" : `recsExpected`.
  "Reading 'the first tree' gives the same tree as the first one delivered by the multi-tree reader":
  `firstIsHead`.
  The quantifier ("labels that are legal in all three formats …") is `WF13` / `WF13list`.
  Bool-valued, core Lean only: the driver evaluates these on the implementation's own output.
-/
import Gotree.Model.C13

namespace Gotree.C13
open Gotree

mutual
/-- equality of what the three formats keep: shape, child order, names, lengths, supports -/
def keptEqT : T → T → Bool
  | .node d₁ _ k₁, .node d₂ _ k₂ => d₁.name == d₂.name && keptEqL k₁ k₂
def keptEqL : Kids → Kids → Bool
  | [], [] => true
  | (e₁, t₁) :: r₁, (e₂, t₂) :: r₂ => e₁.len == e₂.len && e₁.sup == e₂.sup && keptEqT t₁ t₂ && keptEqL r₁ r₂
  | _, _ => false
end

/-- what the three formats keep is equal (`keptEqT a b = true ↔ strip a = strip b`, Lemmas) -/
def sameKept (a b : T) : Bool := keptEqT a b

/-- characters a label may not contain to be legal in Newick, Nexus and PhyloXML at once -/
def badLabelChar (c : Char) : Bool :=
  c == ' ' || c == '\t' || c == '\n' || c == '\r' || c == '=' || c == '\'' || c == '"' ||
  c == '<' || c == '>' || c == '&' || c == '[' || c == ']' || c == '(' || c == ')' ||
  c == ',' || c == ':' || c == ';'

/-- a label legal in all three formats: non-empty, no blank / '=' / quote / XML or Newick
    metacharacter, and not one of the words the Nexus lexer turns into a keyword -/
def labelOK (s : String) : Bool :=
  s != "" && !s.toList.any badLabelChar && (Nex.keywordOf s).isNone

/-- an inner-node label must in addition not read as a number or `number/number` for the Newick
    parser (it would become a support): we ask for a leading letter, no '/', and not inf/nan -/
def innerLabelOK (s : String) : Bool :=
  labelOK s &&
  (match s.toList with
   | c :: _ => c.isAlpha || c.toNat ≥ 128
   | [] => false) &&
  !s.toList.contains '/' &&
  (let u := String.ofList (s.toList.map Char.toUpper)
   u != "INF" && u != "INFINITY" && u != "NAN")

def valOK (q : Rat) : Bool := q == NIL || q ≥ 0

mutual
/-- below the root: tips are named, carry no support; inner nodes have a legal name xor a support
    (or neither); no comments, no p-value; lengths and supports absent or non-negative -/
def wfNode : EdgeD → T → Bool
  | e, .node d _ k =>
    d.comments.isEmpty && e.comments.isEmpty && e.pval == NIL && valOK e.len && valOK e.sup &&
    (match k with
     | [] => labelOK d.name && e.sup == NIL
     | _ :: _ => (d.name == "" || (innerLabelOK d.name && e.sup == NIL))) &&
    wfKids k
def wfKids : Kids → Bool
  | [] => true
  | (e, t) :: r => wfNode e t && wfKids r
end

/-- a well-formed tree of the property: the root has at least two children, every label is legal in
    all three formats, tip names are pairwise different (inner names may repeat) -/
def WF13 (t : T) : Bool :=
  t.kids.length ≥ 2 && t.d.comments.isEmpty && (t.name == "" || innerLabelOK t.name) &&
  wfKids t.kids && !hasDup t.tipNames

/-- same tip set (the Nexus format has one taxa block for all its trees) -/
def sameTaxa : List T → Bool
  | [] => true
  | t :: r => r.all fun u => sortStr u.tipNames == sortStr t.tipNames

def WF13list (ts : List T) : Bool := !ts.isEmpty && ts.all WF13

def Out.isOk : Out → Bool
  | .ok _ => true
  | .err => false

def Out.keptEq : Out → Out → Bool
  | .ok a, .ok b => sameKept a b
  | .err, .err => true
  | _, _ => false

/-- the records are exactly: tree i delivered with identifier `i0 + i`, equal to the i-th expected
    tree in what the formats keep — none skipped, none added, in order -/
def recsAre : List T → List Rec → Nat → Bool
  | [], [], _ => true
  | t :: ts, r :: rs, i => r.id == i && r.out.keptEq (.ok t) && recsAre ts rs (i + 1)
  | _, _, _ => false

/-- a multi-tree file made of items in file order, `some t` a well-formed tree, `none` a broken one:
    every tree before the first broken item is delivered with consecutive identifiers, then the
    error is reported with the next identifier, and nothing else -/
def recsExpected : List (Option T) → List Rec → Nat → Bool
  | [], [], _ => true
  | some t :: is, r :: rs, i => r.id == i && r.out.keptEq (.ok t) && recsExpected is rs (i + 1)
  | none :: _, [r], i => r.id == i && !r.out.isOk
  | _, _, _ => false

/-- single-tree reader = head of the multi-tree reader -/
def firstIsHead (first : Out) (recs : List Rec) : Bool := first.keptEq (headOut recs)

/-- exact version used by the theorems -/
def Out.beq : Out → Out → Bool
  | .ok a, .ok b => a == b
  | .err, .err => true
  | _, _ => false

/- ## Hypothesis of `first_eq_head` for Newick: "the first tree is on its own lines" -/

def isDelim (c : Char) : Bool := c == '(' || c == ')' || c == ',' || c == ':'

/-- After the first ';' : does the chunk that the multi-tree reader is accumulating end somewhere
    (a line whose last non-blank character is ';')?  `semi` = the last non-blank character of the
    buffer so far is ';', `nonempty` = the current line has at least one character.  Typically the
    rest of the line is blank and the answer is yes at once; a second tree on the same line, or
    more text on following lines, is allowed as long as some line ends with ';'. -/
def chunkEndsGo : Txt → Bool → Bool → Bool
  | [], semi, nonempty => semi && nonempty
  | '\r' :: '\n' :: r, semi, _ => semi || chunkEndsGo r semi false
  | c :: r, semi, _ =>
    if c == '\n' then semi || chunkEndsGo r semi false
    else if isBlank c then chunkEndsGo r semi true
    else chunkEndsGo r (c == ';') true

/-- walk to the first ';': no comment before it, every line break before it comes after a delimiter
    `( ) , :` (blanks in between allowed) or before the tree starts (`safe` = the last non-blank
    character so far is such a delimiter, or there is none); and the chunk containing that ';' ends -/
def firstHypGo : Txt → Bool → Bool
  | [], _ => false
  | '\r' :: '\n' :: r, safe => safe && firstHypGo r safe
  | c :: r, safe =>
    if c == ';' then chunkEndsGo r true true
    else if c == '[' then false
    else if c == '\n' then safe && firstHypGo r safe
    else if c == '\r' then false
    else if isNewickWs c then firstHypGo r safe
    else firstHypGo r (isDelim c)

def newickFirstHyp (doc : Txt) : Bool := firstHypGo doc true

/-- hypothesis of `first_eq_head`: for Newick "the first tree is on its own lines"; none for the
    other formats -/
def firstOwnLines : Doc → Bool
  | .newick s => newickFirstHyp s
  | _ => true

/-- `ReadTreeReader` with the pinned `PhyloXML.FirstTree` (F19) -/
def readFirstPinned (E : Env) : Doc → Option Out
  | .phyloxml (some x) =>
    (match Px.decode E.N x with
     | .ok cs => (match pxFirstPinned cs with | some o => some o | none => some .err)
     | .err => some .err
     | .unsupported => none)
  | d => readFirst E d

/- ## The taxa block of a Nexus document -/

/-- the labels between TAXLABELS and the next ';' in the token stream of a text -/
def taxlabelsOf : List Nex.Tok → Option (List String)
  | [] => none
  | .kw .taxlabels _ :: r => some ((r.takeWhile (· != .endcmd)).filterMap Nex.Tok.name?)
  | _ :: r => taxlabelsOf r

/-- the number after `NTAX =` -/
def ntaxOf : List Nex.Tok → Option Int
  | [] => none
  | .kw .ntax _ :: .equal :: .numeric s :: _ => some (Nex.intVal s)
  | _ :: r => ntaxOf r

/-- same members -/
def sameSet (a b : List String) : Bool := a.all b.contains && b.all a.contains

/-- the taxa block written for a list of trees names exactly the tips of all the trees, once each,
    and NTAX is their number (labels legal, so that each is one token) -/
def taxaBlockOK (ts : List T) (text : Txt) : Bool :=
  let toks := Nex.scan text
  match taxlabelsOf toks, ntaxOf toks with
  | some labs, some n => !hasDup labs && sameSet labs (ts.flatMap T.tipNames) && n == (labs.length : Int)
  | _, _ => false

/-- does the Nexus text carry a TRANSLATE command (what `--translate` asks for) -/
def hasTranslate (text : Txt) : Bool :=
  (Nex.scan text).any fun t => match t with | .kw .translate _ => true | _ => false

/-- The Newick text of a tree (with its final ';') goes through the Nexus lexer unchanged: it is cut
    into tokens that are all allowed inside a TREE command (no keyword, no line end), whose literals
    concatenate back to the text without the ';', and it does not start with a comment. -/
def treeTextOK (w : Txt) : Bool :=
  (Nex.scan w).head? != some .openbrack &&
  (match Nex.parseTreeStr (Nex.scan w) [] with
   | .ok (s, []) => s == w.dropLast
   | _ => false)

/-- the taxa check of the Nexus `Parse` for one tree: its tips are labels (since fix 6a194b0 not
    necessarily all of them) -/
def okTaxa (labs : List String) (t : T) : Bool :=
  t.tipNames.all labs.contains

/-- trees numbered from `i`, as the channel delivers them -/
def enumFrom : Nat → List T → List (Nat × T)
  | _, [] => []
  | i, t :: r => (i, t) :: enumFrom (i + 1) r

/-- the tips of a tree as the Nexus format needs them: legal labels, pairwise different, and few
    enough for `NTAX` to be an int64 -/
def tipsOK (t : T) : Bool :=
  t.tipNames.all labelOK && !hasDup t.tipNames && t.tipNames.length ≤ 9223372036854775807

/-- hypotheses of `nexus_roundtrip_plain_state` that concern the writer's label state -/
def nexusStateOK (ts : List T) : Bool :=
  let s := stateLoop (enumFrom 0 ts) {}
  s.map.length ≤ 9223372036854775807 && s.map.length == s.slice.length && s.slice.all labelOK &&
  !hasDup s.slice && ts.all (okTaxa s.slice)

/-- index text of a label in the writer's map -/
def idxOf (m : List (String × String)) (tip : String) : String :=
  match lookup m tip with | some v => v | none => ""

/-- the table `parseTranslationTable` builds from the (index, label) lines, in order -/
def tableOf (m : List (String × String)) (ls : List String) (acc : List (String × String)) : List (String × String) :=
  ls.foldl (fun t l => mapSet t (idxOf m l) l) acc

/-- the trees the writer emits with a translate table (renamed through the map of the moment) -/
def writtenList : List (Nat × T) → WState → List (Nat × T)
  | [], _ => []
  | it :: r, s => (it.1, writtenTree true (stepState s it.2) it.2) :: writtenList r (stepState s it.2)

/-- translating each written tree back through the parsed table succeeds, passes the taxa check of
    the Nexus reader and gives the original tree (shape, names, lengths, supports) -/
def backOK (table : List (String × String)) (labs : List String) : List T → List (Nat × T) → Bool
  | [], [] => true
  | t :: ts, w :: ws =>
    (match renameChecked table w.2 with
     | some b => sameKept b t && okTaxa labs b
     | none => false) && backOK table labs ts ws
  | _, _ => false

/-- hypotheses of `nexus_roundtrip_translate_state`: they concern the writer's label state, the index
    texts and the pure renaming functions, not the lexer or the parser -/
def nexusTrStateOK (ts : List T) : Bool :=
  let s := stateLoop (enumFrom 0 ts) {}
  s.map.length ≤ 9223372036854775807 && s.map.length == s.slice.length &&
  s.slice.all (fun l => labelOK l && labelOK (idxOf s.map l)) && !hasDup s.slice &&
  backOK (tableOf s.map s.slice []) s.slice ts (writtenList (enumFrom 0 ts) {})

/-- a non-empty string of decimal digits (what the translate table uses as keys) -/
def isNumeral (s : String) : Bool := s != "" && s.toList.all Char.isDigit

/-- the non-empty node names of the tree (tips and inner nodes) are pairwise different.  This is the
    region in which `nexus_roundtrip_translate_partial` holds: outside it (two inner nodes with the same
    name) the unchanged code fails — open finding F60, `NexusTranslateDuplicateNodeNames`. -/
def innerNamesDistinct (t : T) : Bool := !hasDup ((allNames t).filter (· != ""))

/-- a name that is not a tip name of the tree is not a decimal numeral (it would be taken for a key of
    the translate table) -/
def nonTipNamesNotNumeral (t : T) : Bool :=
  (allNames t).all fun y => y == "" || t.tipNames.contains y || !isNumeral y

def namesOK (t : T) : Bool := innerNamesDistinct t && nonTipNamesNotNumeral t

/-- classifier of the open finding F60 (`NexusTranslateDuplicateNodeNames`), as narrow as the finding:
    a translate table is asked for, the trees are otherwise inside the theorem's region (legal and
    distinct tips, one tip set, non-numeral inner names), some tree repeats a non-empty node name, and
    the wrong observation is the reader's single error record for the whole document -/
def isF60 (translate : Bool) (ts : List T) (recs : List Rec) : Bool :=
  translate && ts.all tipsOK && sameTaxa ts && ts.all nonTipNamesNotNumeral &&
  ts.any (fun t => !innerNamesDistinct t) &&
  (match recs with
   | [r] => r.id == 0 && !r.out.isOk
   | _ => false)

/-- `isF60` for tree lists with differing tip sets (oracle-checked through Nexus since fix 6a194b0): the
    finding does not depend on the tip sets being equal — same region otherwise, same observation -/
def isF60Lists (translate : Bool) (ts : List T) (recs : List Rec) : Bool :=
  translate && ts.all tipsOK && ts.all nonTipNamesNotNumeral &&
  ts.any (fun t => !innerNamesDistinct t) &&
  (match recs with
   | [r] => r.id == 0 && !r.out.isOk
   | _ => false)

/- ## PhyloXML: the trees the format holds faithfully, and the law of the number codec -/

mutual
/-- below the root: tips are named and carry no support (PhyloXML writes `confidence` only on inner
    branches); every length / support present is in the number codec's domain `p` -/
def pxNode (p : Rat → Bool) : EdgeD → T → Bool
  | e, .node d _ k =>
    (e.len == NIL || p e.len) &&
    (match k with
     | [] => d.name != "" && e.sup == NIL
     | _ :: _ => e.sup == NIL || p e.sup) &&
    pxKids p k
def pxKids (p : Rat → Bool) : Kids → Bool
  | [] => true
  | (e, t) :: r => pxNode p e t && pxKids p r
end

def pxOK (p : Rat → Bool) (t : T) : Bool := (!t.kids.isEmpty || t.name != "") && pxKids p t.kids

/-- `ParseFloat(TrimSpace(FormatFloat(x)))` gives `x` back on the codec's domain -/
structure NumLaws (N : NumCodec) where
  dom : Rat → Bool
  parse_fmt : ∀ q, dom q = true → N.parse (Px.trim (N.fmt q)) = some q

/- ## Laws of the Newick codec this property relies on (hypotheses of the theorems; C01 proves
   `parse_write` for its model; the driver checks each on every case for the executable codec) -/

/-- the last character of `a` that is not white space is a delimiter `( ) , :`, or there is none -/
def breakSafeRev : Txt → Bool
  | [] => true
  | c :: r => if isNewickWs c then breakSafeRev r else isDelim c

def breakSafe (a : Txt) : Bool := breakSafeRev a.reverse

structure NewickLaws (C : NewickCodec) where
  /-- the trees the codec round-trips (C01: `WF01`) -/
  wf : T → Bool
  /-- what the parser returns for `write t` (C01: `normIds`) -/
  norm : T → T
  parse_write : ∀ t, wf t = true → C.parse (C.write t) = some (norm t)
  norm_strip : ∀ t, wf t = true → strip (norm t) = strip t
  /-- the text of a tree is one line, ends with ';', and has no other ';' and no comment -/
  write_shape : ∀ t, wf t = true → ∃ body, C.write t = body ++ [';'] ∧
      ∀ c ∈ body, c ≠ '\n' ∧ c ≠ '\r' ∧ c ≠ ';' ∧ c ≠ '['

/-- two more laws, about the parser run on a STREAM (the single-tree reader): needed by `first_eq_head`
    for Newick only -/
structure NewickStreamLaws (C : NewickCodec) extends NewickLaws C where
  /-- the parser stops at the first ';' outside a comment: what follows is not looked at -/
  parse_prefix : ∀ a rest, (∀ c ∈ a, c ≠ ';' ∧ c ≠ '[') → C.parse (a ++ ';' :: rest) = C.parse (a ++ [';'])
  /-- white space is skipped before the first token and after a delimiter `( ) , :` -/
  parse_ws_skip : ∀ a ws b, (∀ c ∈ a, c ≠ ';' ∧ c ≠ '[') → breakSafe a = true → (∀ c ∈ ws, isNewickWs c = true) →
      C.parse (a ++ ws ++ b) = C.parse (a ++ b)

/- ## The domain of the multi-tree Newick clause

   The mechanism is "splitting a Newick stream at a ';' ENDING a line".  Until fix 3850fd2 text that follows
   a ';' on the same line was dropped WITHOUT an error (theorem `multi_sameline_drops_second` about the
   pinned reader); since the fix every tree of a line is read, and such files are inside the domain
   (`treesEndLines` is kept as a description of the input, tag `dom-semicolon-inside-line`).  A line end
   that is a lone CR is no line end for `bufio.ReadLine`: outside the domain.  The driver decides this
   from the text with these predicates (not from a harness label). -/

/-- does the line hold a ';' outside a `[…]` comment that is followed by something else than blanks
    (`inCom` = inside a comment) -/
def semiInsideGo : Txt → Bool → Bool
  | [], _ => false
  | c :: r, inCom =>
    if inCom then semiInsideGo r (c != ']')
    else if c == '[' then semiInsideGo r true
    else if c == ';' then !(r.all isBlank) || semiInsideGo r false
    else semiInsideGo r false

/-- every ';' outside a comment ends its line -/
def treesEndLines (doc : Txt) : Bool := (splitLines doc).all fun l => !semiInsideGo l false

/-- every CR is followed by LF -/
def noLoneCR : Txt → Bool
  | [] => true
  | c :: r => (c != '\r' || r.head? == some '\n') && noLoneCR r

/-- the domain of the multi-tree Newick clause: line ends are LF or CRLF -/
def newickDomain (doc : Txt) : Bool := noLoneCR doc

end Gotree.C13
