/-
  C16 — the model's results satisfy the very Bool predicate (`genTreeOK`) that the driver
  evaluates as oracle on the implementation's output (helper lemmas).
-/
import Gotree.Lemmas.C16Shape

namespace Gotree.C16
open Gotree

theorem insertSorted_perm (a : String) : ∀ (l : List String), (insertSorted a l).Perm (a :: l)
  | [] => by simp [insertSorted]
  | b :: r => by
    unfold insertSorted
    split
    · exact List.Perm.refl _
    · exact ((insertSorted_perm a r).cons b).trans (List.Perm.swap a b r)

theorem sortNames_perm : ∀ (l : List String), (sortNames l).Perm l
  | [] => by simp [sortNames]
  | a :: r => by
    have ih := sortNames_perm r
    unfold sortNames at ih ⊢
    simp only [List.foldr_cons]
    exact (insertSorted_perm a _).trans (ih.cons a)

theorem insertSorted_sorted (a : String) : ∀ (l : List String), l.Pairwise (· ≤ ·) → (insertSorted a l).Pairwise (· ≤ ·)
  | [], _ => by simp [insertSorted]
  | b :: r, h => by
    unfold insertSorted
    split
    · rename_i hab
      refine List.pairwise_cons.mpr ⟨?_, h⟩
      intro x hx
      rcases List.mem_cons.mp hx with rfl | hx'
      · exact hab
      · exact String.le_trans hab ((List.pairwise_cons.mp h).1 x hx')
    · rename_i hab
      have hba : b ≤ a := by
        rcases String.le_total a b with h1 | h1
        · exact absurd h1 hab
        · exact h1
      refine List.pairwise_cons.mpr ⟨?_, insertSorted_sorted a r (List.pairwise_cons.mp h).2⟩
      intro x hx
      have := (insertSorted_perm a r).subset hx
      rcases List.mem_cons.mp this with rfl | hx'
      · exact hba
      · exact (List.pairwise_cons.mp h).1 x hx'

theorem sortNames_sorted : ∀ (l : List String), (sortNames l).Pairwise (· ≤ ·)
  | [] => by simp [sortNames]
  | a :: r => by
    have ih := sortNames_sorted r
    unfold sortNames at ih ⊢
    simp only [List.foldr_cons]
    exact insertSorted_sorted a _ ih

theorem sameNames_of_perm (a b : List String) (h : a.Perm b) : sameNames a b = true := by
  unfold sameNames
  rw [beq_iff_eq]
  apply List.Perm.eq_of_pairwise (le := (· ≤ ·))
  · intro x y _ _ h1 h2; exact String.le_antisymm h1 h2
  · exact sortNames_sorted a
  · exact sortNames_sorted b
  · exact (sortNames_perm a).trans (h.trans (sortNames_perm b).symm)

/-- the common part of the oracle predicate -/
theorem genTreeOK_common (t : T) (m : Nat) (hp : t.tipNames.Perm (tipNamesUpTo m)) (hl : lensOk t = true) :
    (sameNames t.tipNames (tipNamesUpTo m) && !hasDup t.tipNames && lensOk t) = true := by
  have hn : t.tipNames.Nodup := hp.nodup_iff.mpr (tipNamesUpTo_nodup m)
  simp [sameNames_of_perm _ _ hp, hasDup_false_of_nodup _ hn, hl]

theorem res_ok_inj {α : Type} {a b : α} (h : (Res.ok a) = Res.ok b) : a = b := Res.ok.inj h

/-- every generator's result passes the oracle predicate -/
theorem genTreeOK_model (g : GenKind) (n : Nat) (rooted : Bool) (ints : List Nat) (lens : List Rat)
    (h : g.min rooted ≤ n) (hd : drawsInRange g n rooted ints = true) (hl : lensNonneg lens = true) :
    ∃ o, run g (n : Int) rooted ints lens = .ok o ∧ genTreeOK g n rooted o.t = true := by
  cases g with
  | uniform =>
    obtain ⟨o, h1, hb, hp, hr, hlo, _⟩ := uniform_ok n rooted ints lens h hd hl
    refine ⟨o, h1, ?_⟩
    simp only [genTreeOK, GenKind.ntips, genTreeOK_common o.t n hp hlo, hb, hr, beq_self_eq_true, Bool.and_self]
  | yule =>
    obtain ⟨o, h1, hb, hp, hr, hlo, _⟩ := yule_ok n rooted ints lens h hd hl
    refine ⟨o, h1, ?_⟩
    simp only [genTreeOK, GenKind.ntips, genTreeOK_common o.t n hp hlo, hb, hr, beq_self_eq_true, Bool.and_self]
  | caterpillar =>
    obtain ⟨o, h1, hb, hp, hr, hlo, _⟩ := caterpillar_ok n rooted lens h hl
    obtain ⟨o', h1', hs⟩ := caterpillar_shape_lemma n rooted lens h hl
    have : o' = o := res_ok_inj (h1'.symm.trans h1)
    subst this
    refine ⟨o', h1, ?_⟩
    simp only [genTreeOK, GenKind.ntips, genTreeOK_common o'.t n hp hlo, hb, hr, hs, beq_self_eq_true, Bool.and_self]
  | balanced =>
    cases rooted with
    | true =>
      obtain ⟨o, h1, ⟨hb, hp, hr, hlo, _⟩, hs⟩ := balanced_rooted_ok n lens h hl
      refine ⟨o, h1, ?_⟩
      simp only [genTreeOK, GenKind.ntips, genTreeOK_common o.t _ hp hlo, hb, hr, hs, beq_self_eq_true, Bool.and_self]
    | false =>
      obtain ⟨o, h1, ⟨hb, hp, hr, hlo, _⟩, hs⟩ := balanced_unrooted_ok n lens h hl
      refine ⟨o, h1, ?_⟩
      simp only [genTreeOK, GenKind.ntips, genTreeOK_common o.t _ hp hlo, hb, hr, hs, beq_self_eq_true, Bool.and_self]
  | star =>
    obtain ⟨o, h1, hp, hlo, _, hs⟩ := star_ok n h
    refine ⟨o, h1, ?_⟩
    simp only [genTreeOK, GenKind.ntips, genTreeOK_common o.t n hp hlo, hs, Bool.and_self]

end Gotree.C16
