// Package c20: random selection is unbiased.
//
// Every case runs the REAL code after rand.Seed(seed), then replays on a twin
// source (same seed) the draw script the Lean model prescribes for that call —
// the bounds of the successive rand.Intn calls, 0 standing for one rand.Float64 —
// and hands the integers to the model.  One more value is drawn from both
// sources afterwards: equal values mean the code consumed exactly the scripted calls.
//
// `fib` cases enumerate the WHOLE draw space of a small instance by trying seeds
// until every draw list was realised, and report the outcome of the real code for
// each of them (the oracle then counts the fibres of draw list -> outcome).
package c20

import (
	"fmt"
	"math"
	"math/rand"
	"os"
	"path/filepath"
	"regexp"
	"sort"
	"strconv"
	"strings"
	"time"

	"verifharness/core"

	"github.com/evolbioinfo/gotree/cmd"
	"github.com/evolbioinfo/gotree/io/newick"
	"github.com/evolbioinfo/gotree/tree"
)

// ---------------------------------------------------------------- scripts (mirror of Model/C20.lean)

func resScript(k, n int) []int {
	var s []int
	for i := k; i < n; i++ {
		s = append(s, i+1)
	}
	return s
}

func replScript(k, n int) []int {
	var s []int
	for t := 0; t < n; t++ {
		for j := 0; j < k; j++ {
			s = append(s, t+1)
		}
	}
	return s
}

func permScript(n int) []int {
	var s []int
	for i := 0; i < n; i++ {
		s = append(s, i+1)
	}
	return s
}

func utreeScript(rooted bool, n int) []int {
	s := []int{0}
	if rooted {
		s = []int{0, 0}
	}
	for i := 2; i < n; i++ {
		b := 2*i - 3
		if rooted {
			b = 2*i - 2
			if os.Getenv("C20_F29_REPAIRED") != "" {
				// script of the repair proposed for F29 (one more place: above the root); only
				// used by hand to validate such a patch: the model then reports a script mismatch
				b = 2*i - 1
			}
		}
		s = append(s, b, 0, 0, 0)
	}
	return s
}

func nonzero(s []int) []int {
	var o []int
	for _, b := range s {
		if b != 0 {
			o = append(o, b)
		}
	}
	return o
}

// replay draws the script on a twin source and returns the integers and the next raw value.
func replay(seed int64, script []int) ([]int, int64) {
	r := rand.New(rand.NewSource(seed))
	draws := make([]int, 0, len(script))
	for _, b := range script {
		if b == 0 {
			r.Float64()
		} else {
			draws = append(draws, r.Intn(b))
		}
	}
	return draws, r.Int63()
}

// seeded runs f on the real code after seeding the global source; sync tells whether the
// global source is then exactly where the twin is after the script.
func seeded(seed int64, script []int, f func()) (draws []int, sync string, class string) {
	draws, next := replay(seed, script)
	rand.Seed(seed)
	class = "ok"
	if p, msg := core.Safe(f); p {
		class = "panic:" + core.Escape(msg)
	}
	if rand.Int63() == next {
		sync = "1"
	} else {
		sync = "0"
	}
	return
}

func itoa(i int) string { return strconv.Itoa(i) }

func dots(l []int) string {
	s := make([]string, len(l))
	for i, v := range l {
		s[i] = itoa(v)
	}
	return strings.Join(s, ".")
}

func b2s(b bool) string {
	if b {
		return "1"
	}
	return "0"
}

// ---------------------------------------------------------------- the real code

var xre = regexp.MustCompile(`x(\d+)`)

type sampler struct {
	c     *core.Ctx
	files map[int]string
	out   string
}

func newSampler(c *core.Ctx) *sampler {
	return &sampler{c: c, files: map[int]string{}, out: filepath.Join(c.Tmp, fmt.Sprintf("c20out_%d.nw", os.Getpid()))}
}

func (s *sampler) input(n int) string {
	if p, ok := s.files[n]; ok {
		return p
	}
	var b strings.Builder
	for i := 0; i < n; i++ {
		fmt.Fprintf(&b, "(x%d,y,z);\n", i)
	}
	p := s.c.TmpFile(b.String())
	s.files[n] = p
	return p
}

func parseSampled(text string) []string {
	var res []string
	for _, l := range strings.Split(strings.TrimRight(text, "\n"), "\n") {
		if l == "" {
			continue
		}
		m := xre.FindString(l)
		if m == "" {
			m = "?" + l
		}
		res = append(res, m)
	}
	return res
}

// sample runs the `gotree sample` command in process (its logic lives in the cobra RunE).
// The caller has seeded nothing: the command seeds the global source itself (--seed).
func (s *sampler) inproc(k, n int, replace bool, seed int64) (res []string, class string) {
	os.Remove(s.out)
	args := []string{"sample", "-i", s.input(n), "-o", s.out, "-n", itoa(k), "--replace=" + strconv.FormatBool(replace), "--seed", strconv.FormatInt(seed, 10)}
	var err error
	cmd.RootCmd.SetArgs(args)
	cmd.RootCmd.SilenceUsage = true
	cmd.RootCmd.SilenceErrors = true
	if p, msg := core.Safe(func() { err = cmd.RootCmd.Execute() }); p {
		return nil, "panic:" + core.Escape(msg)
	}
	if err != nil {
		return nil, "err"
	}
	b, e := os.ReadFile(s.out)
	if e != nil {
		return nil, "nooutput"
	}
	return parseSampled(string(b)), "ok"
}

func (s *sampler) cli(k, n int, replace bool, seed int64) (res []string, class string) {
	args := []string{"sample", "-i", s.input(n), "-n", itoa(k), "--seed", strconv.FormatInt(seed, 10)}
	if replace {
		args = append(args, "--replace")
	}
	r := s.c.RunCLI("", 20*time.Second, args...)
	if r.Timeout {
		return nil, "timeout"
	}
	if r.Exit != 0 {
		return nil, "exit" + itoa(r.Exit)
	}
	return parseSampled(r.Stdout), "ok"
}

func tipNames(t *tree.Tree) []string {
	var out []string
	for _, n := range t.Tips() {
		out = append(out, n.Name())
	}
	return out
}

// shape prints the topology of a generated tree: tips by the number in "Tip<i>".
func shape(n *core.N) string {
	if len(n.Kids) == 0 {
		return strings.TrimPrefix(n.Name, "Tip")
	}
	var parts []string
	for _, k := range n.Kids {
		parts = append(parts, shape(k))
	}
	s := "(" + strings.Join(parts, ",") + ")"
	return s
}

// treeShape: α-walk the tree and print its shape; a root that is itself a tip is printed as a child.
func treeShape(t *tree.Tree) (string, string) {
	a, wf := core.Alpha(t)
	if !wf.OK() {
		return "", "malformed"
	}
	if len(a.Kids) == 1 && a.Name != "" {
		return "(" + strings.TrimPrefix(a.Name, "Tip") + "," + shape(a.Kids[0]) + ")", "ok"
	}
	return shape(a), "ok"
}

// ---------------------------------------------------------------- single cases

func emitRes(c *core.Ctx, what string, k int, seed int64, input string, script []int, draws []int, sync, class string, res []string) {
	c.Emit("C20.res", what, itoa(k), strconv.FormatInt(seed, 10), input, core.IntList(script), core.IntList(draws), sync, class, core.StrList(res))
}

func doSample(c *core.Ctx, s *sampler, what string, k, n int, seed int64) {
	replace := strings.HasPrefix(what, "replace")
	script := resScript(k, n)
	if replace {
		script = replScript(k, n)
	}
	draws, next := replay(seed, script)
	if strings.HasSuffix(what, "cli") {
		res, class := s.cli(k, n, replace, seed)
		emitRes(c, what, k, seed, itoa(n), script, draws, "-", class, res)
		return
	}
	res, class := s.inproc(k, n, replace, seed)
	sync := "1"
	if rand.Int63() != next {
		sync = "0"
	}
	emitRes(c, what, k, seed, itoa(n), script, draws, sync, class, res)
}

func doTips(c *core.Ctx, k int, seed int64, n *core.N) {
	t, err := core.Build(n)
	if err != nil {
		panic(err)
	}
	script := resScript(k, len(n.TipNames()))
	var res []string
	draws, sync, class := seeded(seed, script, func() { res = cmd.VerifRandomTips(t, k) })
	emitRes(c, "tips", k, seed, n.Dump(), script, draws, sync, class, res)
}

func doPruneCLI(c *core.Ctx, what string, k int, seed int64, n *core.N) {
	keep := what == "prunekeepcli"
	t, err := core.Build(n)
	if err != nil {
		panic(err)
	}
	names := n.TipNames()
	script := resScript(k, len(names))
	draws, _ := replay(seed, script)
	file := c.TmpFile(t.Newick() + "\n")
	args := []string{"prune", "-i", file, "--random", itoa(k), "--seed", strconv.FormatInt(seed, 10)}
	if keep {
		args = append(args, "-r")
	}
	r := c.RunCLI("", 20*time.Second, args...)
	if r.Exit != 0 || r.Timeout {
		emitRes(c, what, k, seed, n.Dump(), script, draws, "-", "exit"+itoa(r.Exit), nil)
		return
	}
	out, perr := newick.NewParser(strings.NewReader(r.Stdout)).Parse()
	if perr != nil {
		emitRes(c, what, k, seed, n.Dump(), script, draws, "-", "unparsable", nil)
		return
	}
	left := map[string]bool{}
	for _, nm := range tipNames(out) {
		left[nm] = true
	}
	// the selection: the tips that disappeared (prune --random k) or that stayed (with -r)
	var sel []string
	for _, nm := range names {
		if left[nm] == keep {
			sel = append(sel, nm)
		}
	}
	emitRes(c, what, k, seed, n.Dump(), script, draws, "-", "ok", sel)
}

// allTipNamesLen: len(t.AllTipNames()) — since 9642e30 every tip, a tip root included
func allTipNamesLen(n *core.N) int {
	return len(n.TipNames())
}

func doShuffle(c *core.Ctx, cli bool, seed int64, n *core.N) {
	t, err := core.Build(n)
	if err != nil {
		panic(err)
	}
	script := permScript(allTipNamesLen(n))
	sd := strconv.FormatInt(seed, 10)
	if cli {
		draws, _ := replay(seed, script)
		file := c.TmpFile(t.Newick() + "\n")
		r := c.RunCLI("", 20*time.Second, "shuffletips", "-i", file, "--seed", sd)
		if r.Exit != 0 || r.Timeout {
			c.Emit("C20.shuffle", "cli", sd, n.Dump(), core.IntList(script), core.IntList(draws), "-", "exit"+itoa(r.Exit), "")
			return
		}
		out, perr := newick.NewParser(strings.NewReader(r.Stdout)).Parse()
		if perr != nil {
			c.Emit("C20.shuffle", "cli", sd, n.Dump(), core.IntList(script), core.IntList(draws), "-", "unparsable", "")
			return
		}
		c.Emit("C20.shuffle", "cli", sd, n.Dump(), core.IntList(script), core.IntList(draws), "-", "ok", core.StrList(tipNames(out)))
		return
	}
	draws, sync, class := seeded(seed, script, func() { t.ShuffleTips() })
	c.Emit("C20.shuffle", "lib", sd, n.Dump(), core.IntList(script), core.IntList(draws), sync, class, core.StrList(tipNames(t)))
}

func afterDump(t *tree.Tree, class string) (string, string) {
	if class != "ok" {
		return class, ""
	}
	a, wf := core.Alpha(t)
	if !wf.OK() {
		return "malformed", core.Escape(strings.Join(wf.Problems, ";"))
	}
	return "ok", a.Dump()
}

func doRotate(c *core.Ctx, seed int64, n *core.N, path []int) {
	t, err := core.Build(n)
	if err != nil {
		panic(err)
	}
	nd, _, err := core.NodeAt(t, path)
	if err != nil {
		panic(err)
	}
	script := permScript(nd.Nneigh())
	draws, sync, class := seeded(seed, script, func() { nd.RotateNeighbors() })
	class, after := afterDump(t, class)
	c.Emit("C20.rotate", strconv.FormatInt(seed, 10), n.Dump(), core.IntList(path), core.IntList(script), core.IntList(draws), sync, class, after)
}

func rotAllScript(n *core.N, isRoot bool) []int {
	deg := len(n.Kids)
	if !isRoot {
		deg++
	}
	s := permScript(deg)
	for _, k := range n.Kids {
		s = append(s, rotAllScript(k, false)...)
	}
	return s
}

func doRotAll(c *core.Ctx, seed int64, n *core.N) {
	t, err := core.Build(n)
	if err != nil {
		panic(err)
	}
	script := rotAllScript(n, true)
	draws, sync, class := seeded(seed, script, func() { t.RotateInternalNodes() })
	class, after := afterDump(t, class)
	c.Emit("C20.rotall", strconv.FormatInt(seed, 10), n.Dump(), core.IntList(script), core.IntList(draws), sync, class, after)
}

var lenre = regexp.MustCompile(`a:(\d+)`)

// doSampleCmd runs the whole `gotree sample` command on a file written in the given format.
// Item i is the tree (a:<i+1>,b:1,c:1); (same taxa everywhere, so that Nexus accepts the file).
// bad >= 0: a malformed tree stands at that position (newick only); n == 0: a file without trees.
// defaultK as `k`: the option -n is not given at all (the command's own default applies; field `k` = "d")
const defaultK = -1000

func doSampleCmd(c *core.Ctx, format string, k int, replace bool, seed int64, n, bad int, opened bool) {
	ks := itoa(k)
	if k == defaultK {
		ks = "d"
	}
	var b strings.Builder
	for i := 0; i < n; i++ {
		if i == bad {
			b.WriteString("(a:1,b:1;\n")
		}
		fmt.Fprintf(&b, "(a:%d,b:1,c:1);\n", i+1)
	}
	if bad >= n && bad >= 0 {
		b.WriteString("(a:1,b:1;\n")
	}
	file := c.TmpFile(b.String())
	sd := strconv.FormatInt(seed, 10)
	emit := func(bounds, draws []int, class string, res []int) {
		c.Emit("C20.samplecmd", format, ks, b2s(replace), sd, itoa(n), itoa(bad), b2s(opened),
			core.IntList(bounds), core.IntList(draws), class, core.IntList(res))
	}
	if format != "newick" {
		r := c.RunCLI("", 20*time.Second, "reformat", format, "-i", file)
		if r.Exit != 0 || r.Timeout {
			return // no such input can be made: not a case
		}
		file = c.TmpFile(r.Stdout)
	}
	if !opened {
		file = file + ".missing"
	}
	kk := k
	if kk == defaultK {
		kk = 1 // cmd/sample.go: IntVarP(&numtrees, "nbtrees", "n", 1, …)
	}
	if kk < 0 {
		kk = 0
	}
	script := resScript(kk, n)
	if replace {
		script = replScript(kk, n)
	}
	draws, _ := replay(seed, script)
	args := []string{"sample", "-i", file, "--seed", sd, "--format", format}
	if k != defaultK {
		args = append(args, "-n", itoa(k))
	}
	if replace {
		args = append(args, "--replace")
	}
	r := c.RunCLI("", 20*time.Second, args...)
	class := "ok"
	switch {
	case r.Timeout:
		class = "timeout"
	case r.Exit == 2 && strings.Contains(r.Stderr, "panic:"):
		class = "panic"
	case r.Exit != 0:
		class = "err"
	}
	var res []int
	for _, l := range strings.Split(r.Stdout, "\n") {
		if m := lenre.FindStringSubmatch(l); m != nil {
			v, _ := strconv.Atoi(m[1])
			res = append(res, v-1)
		}
	}
	emit(script, draws, class, res)
}

// pruneOut runs `gotree prune` and returns the class and the tip names of every output tree.
func pruneOut(c *core.Ctx, args ...string) (string, [][]string) {
	r := c.RunCLI("", 20*time.Second, args...)
	switch {
	case r.Timeout:
		return "timeout", nil
	case r.Exit == 2 && strings.Contains(r.Stderr, "panic:"):
		return "panic", nil
	case r.Exit != 0:
		return "exit" + itoa(r.Exit), nil
	}
	var outs [][]string
	for _, l := range strings.Split(strings.TrimRight(r.Stdout, "\n"), "\n") {
		out, perr := newick.NewParser(strings.NewReader(l)).Parse()
		if perr != nil {
			return "unparsable", nil
		}
		outs = append(outs, tipNames(out))
	}
	return "ok", outs
}

// doPruneRange: `gotree prune --random k [-r]` for any integer k (the whole range, also k <= 0 and k >= n-2).
func doPruneRange(c *core.Ctx, seed int64, n *core.N, k int, keep bool) {
	t, err := core.Build(n)
	if err != nil {
		panic(err)
	}
	names := n.TipNames()
	var script []int
	if k > 0 {
		script = resScript(k, len(names))
	}
	draws, _ := replay(seed, script)
	sd := strconv.FormatInt(seed, 10)
	args := []string{"prune", "-i", c.TmpFile(t.Newick() + "\n"), "--random", itoa(k), "--seed", sd}
	if keep {
		args = append(args, "-r")
	}
	class, outs := pruneOut(c, args...)
	var sel []string
	if class == "ok" && len(outs) == 1 {
		left := map[string]bool{}
		for _, nm := range outs[0] {
			left[nm] = true
		}
		for _, nm := range names {
			if left[nm] == keep {
				sel = append(sel, nm)
			}
		}
	} else if class == "ok" {
		class = "ntrees" + itoa(len(outs))
	}
	c.Emit("C20.prunerange", sd, n.Dump(), itoa(k), b2s(keep), core.IntList(script), core.IntList(draws), class, core.StrList(sel))
}

// doPruneFile: `gotree prune --random k` on a file of several trees.
func doPruneFile(c *core.Ctx, seed int64, ns []*core.N, k int) {
	var script []int
	var file strings.Builder
	for _, n := range ns {
		t, err := core.Build(n)
		if err != nil {
			panic(err)
		}
		script = append(script, resScript(k, len(n.TipNames()))...)
		file.WriteString(t.Newick() + "\n")
	}
	draws, _ := replay(seed, script)
	sd := strconv.FormatInt(seed, 10)
	class, outs := pruneOut(c, "prune", "-i", c.TmpFile(file.String()), "--random", itoa(k), "--seed", sd)
	var sels [][]string
	if class == "ok" && len(outs) == len(ns) {
		for i, n := range ns {
			left := map[string]bool{}
			for _, nm := range outs[i] {
				left[nm] = true
			}
			var sel []string
			for _, nm := range n.TipNames() {
				if !left[nm] {
					sel = append(sel, nm)
				}
			}
			sels = append(sels, sel)
		}
	} else if class == "ok" {
		class = "ntrees" + itoa(len(outs))
	}
	c.Emit("C20.prunefile", sd, core.Dumps(ns), itoa(k), core.IntList(script), core.IntList(draws), class, core.StrLists(sels))
}

// doPruneCmd: the option priorities of `gotree prune` (-f > -c > --random > arguments).
// tipfile / comp: nil = option absent; comp = the tips of the compared tree (written as a star tree).
func doPruneCmd(c *core.Ctx, seed int64, n *core.N, random int, args, tipfile, comp []string) {
	t, err := core.Build(n)
	if err != nil {
		panic(err)
	}
	names := n.TipNames()
	var script []int
	if tipfile == nil && comp == nil && random > 0 {
		script = resScript(random, len(names))
	}
	draws, _ := replay(seed, script)
	sd := strconv.FormatInt(seed, 10)
	cl := []string{"prune", "-i", c.TmpFile(t.Newick() + "\n"), "--seed", sd, "--random", itoa(random)}
	tf, cf := "-", "-"
	if tipfile != nil {
		cl = append(cl, "-f", c.TmpFile(strings.Join(tipfile, "\n")+"\n"))
		tf = core.StrList(tipfile)
	}
	if comp != nil {
		cl = append(cl, "-c", c.TmpFile("("+strings.Join(comp, ",")+");\n"))
		cf = core.StrList(comp)
	}
	cl = append(cl, args...)
	r := c.RunCLI("", 20*time.Second, cl...)
	class := "ok"
	var removed []string
	if r.Exit != 0 || r.Timeout {
		class = "exit" + itoa(r.Exit)
	} else if out, perr := newick.NewParser(strings.NewReader(r.Stdout)).Parse(); perr != nil {
		class = "unparsable"
	} else {
		left := map[string]bool{}
		for _, nm := range tipNames(out) {
			left[nm] = true
		}
		for _, nm := range names {
			if !left[nm] {
				removed = append(removed, nm)
			}
		}
	}
	c.Emit("C20.prunecmd", sd, n.Dump(), itoa(random), core.StrList(args), tf, cf, core.IntList(script), core.IntList(draws), class, core.StrList(removed))
}

// doUTreeCmd: `gotree generate uniformtree -n nb -l n [-r]`: nb trees from one seed.
func doUTreeCmd(c *core.Ctx, seed int64, n int, rooted bool, nb int) {
	var script []int
	for i := 0; i < nb; i++ {
		script = append(script, utreeScript(rooted, n)...)
	}
	draws, _ := replay(seed, script)
	sd := strconv.FormatInt(seed, 10)
	args := []string{"generate", "uniformtree", "-l", itoa(n), "-n", itoa(nb), "--seed", sd}
	if rooted {
		args = append(args, "-r")
	}
	r := c.RunCLI("", 20*time.Second, args...)
	class := "ok"
	var shapes []string
	if r.Exit != 0 || r.Timeout {
		class = "exit" + itoa(r.Exit)
	} else {
		for _, l := range strings.Split(strings.TrimRight(r.Stdout, "\n"), "\n") {
			out, perr := newick.NewParser(strings.NewReader(l)).Parse()
			if perr != nil {
				class = "unparsable"
				break
			}
			sh, cl := treeShape(out)
			if cl != "ok" {
				class = cl
				break
			}
			shapes = append(shapes, sh)
		}
	}
	var b strings.Builder
	if class == "ok" {
		for _, s := range shapes {
			b.WriteString(s)
			b.WriteByte('|')
		}
	}
	c.Emit("C20.utreecmd", sd, itoa(n), b2s(rooted), itoa(nb), core.IntList(script), core.IntList(draws), class, b.String())
}

// doShufCLI: `gotree shuffletips` on a file holding several trees.
func doShufCLI(c *core.Ctx, seed int64, ns []*core.N) {
	var script []int
	var file strings.Builder
	for _, n := range ns {
		t, err := core.Build(n)
		if err != nil {
			panic(err)
		}
		script = append(script, permScript(allTipNamesLen(n))...)
		file.WriteString(t.Newick() + "\n")
	}
	draws, _ := replay(seed, script)
	sd := strconv.FormatInt(seed, 10)
	r := c.RunCLI("", 20*time.Second, "shuffletips", "-i", c.TmpFile(file.String()), "--seed", sd)
	class := "ok"
	var afters [][]string
	if r.Exit != 0 || r.Timeout {
		class = "exit" + itoa(r.Exit)
	} else {
		for _, l := range strings.Split(strings.TrimRight(r.Stdout, "\n"), "\n") {
			out, perr := newick.NewParser(strings.NewReader(l)).Parse()
			if perr != nil {
				class = "unparsable"
				break
			}
			afters = append(afters, tipNames(out))
		}
	}
	if class != "ok" {
		afters = nil
	}
	c.Emit("C20.shufcli", sd, core.Dumps(ns), core.IntList(script), core.IntList(draws), class, core.StrLists(afters))
}

// doRotCLI: `gotree rotate rand` on a file holding several trees (the draws run on from tree to tree).
func doRotCLI(c *core.Ctx, seed int64, ns []*core.N) {
	var script []int
	var file strings.Builder
	for _, n := range ns {
		t, err := core.Build(n)
		if err != nil {
			panic(err)
		}
		script = append(script, rotAllScript(n, true)...)
		file.WriteString(t.Newick() + "\n")
	}
	draws, _ := replay(seed, script)
	sd := strconv.FormatInt(seed, 10)
	r := c.RunCLI("", 20*time.Second, "rotate", "rand", "-i", c.TmpFile(file.String()), "--seed", sd)
	class := "ok"
	var afters []*core.N
	if r.Exit != 0 || r.Timeout {
		class = "exit" + itoa(r.Exit)
	} else {
		for _, l := range strings.Split(strings.TrimRight(r.Stdout, "\n"), "\n") {
			out, perr := newick.NewParser(strings.NewReader(l)).Parse()
			if perr != nil {
				class = "unparsable"
				break
			}
			a, wf := core.Alpha(out)
			if !wf.OK() {
				class = "malformed"
				break
			}
			afters = append(afters, a)
		}
	}
	if class != "ok" {
		afters = nil
	}
	c.Emit("C20.rotcli", sd, core.Dumps(ns), core.IntList(script), core.IntList(draws), class, core.Dumps(afters))
}

func runUTree(n int, rooted bool) (string, string) {
	sh, cl, _ := runUTreeDump(n, rooted)
	return sh, cl
}

func runUTreeDump(n int, rooted bool) (string, string, string) {
	t, err := tree.RandomUniformBinaryTree(n, rooted)
	if err != nil {
		return "", "err", "-"
	}
	sh, cl := treeShape(t)
	dump := "-"
	if a, wf := core.Alpha(t); wf.OK() {
		dump = a.Dump()
	}
	return sh, cl, dump
}

func doUTree(c *core.Ctx, cli bool, seed int64, n int, rooted bool) {
	script := utreeScript(rooted, n)
	sd := strconv.FormatInt(seed, 10)
	if cli {
		draws, _ := replay(seed, script)
		args := []string{"generate", "uniformtree", "-l", itoa(n), "--seed", sd}
		if rooted {
			args = append(args, "-r")
		}
		r := c.RunCLI("", 20*time.Second, args...)
		class, sh := "ok", ""
		if r.Exit != 0 || r.Timeout {
			class = "exit" + itoa(r.Exit)
		} else if out, perr := newick.NewParser(strings.NewReader(r.Stdout)).Parse(); perr != nil {
			class = "unparsable"
		} else {
			sh, class = treeShape(out)
		}
		c.Emit("C20.utree", "cli", sd, itoa(n), b2s(rooted), core.IntList(script), core.IntList(draws), "-", class, sh, "-")
		return
	}
	var sh, cl string
	dump := "-"
	draws, sync, class := seeded(seed, script, func() { sh, cl, dump = runUTreeDump(n, rooted) })
	if class == "ok" {
		class = cl
	}
	c.Emit("C20.utree", "lib", sd, itoa(n), b2s(rooted), core.IntList(script), core.IntList(draws), sync, class, sh, dump)
}

// ---------------------------------------------------------------- fibres

// starTree: a node of degree deg; atRoot: the root itself, else an inner node below a 3-way root.
func rotTree(deg int, atRoot bool) (*core.N, []int) {
	mk := func(name string) *core.N { e := core.NewE(); return &core.N{Name: name, E: e} }
	if atRoot {
		root := &core.N{}
		for i := 0; i < deg; i++ {
			root.Kids = append(root.Kids, mk("t"+itoa(i)))
		}
		core.NumberEdges(root)
		return root, nil
	}
	inner := mk("")
	for i := 0; i < deg-1; i++ {
		inner.Kids = append(inner.Kids, mk("t"+itoa(i)))
	}
	if deg >= 3 {
		inner.PPos = 1
	}
	root := &core.N{Kids: []*core.N{mk("a"), inner, mk("b")}}
	core.NumberEdges(root)
	return root, []int{1}
}

// fibKind describes one enumeration: the script and how to run the real code on a seed.
type fibKind struct {
	what   string
	k, n   int
	dump   string
	script []int
	run    func(seed int64) string // seeds the global source, runs the code, returns the outcome
}

func indexList(before, after []string) string {
	pos := map[string]int{}
	for i, b := range before {
		pos[b] = i
	}
	out := make([]int, len(after))
	for i, a := range after {
		p, ok := pos[a]
		if !ok {
			p = 999999
		}
		out[i] = p
	}
	return dots(out)
}

func caterpillarN(n int) *core.N {
	// an unrooted ladder with n tips t0..t(n-1) (n ≥ 2)
	mk := func(name string) *core.N { return &core.N{Name: name, E: core.NewE()} }
	if n <= 3 {
		root := &core.N{}
		for i := 0; i < n; i++ {
			root.Kids = append(root.Kids, mk("t"+itoa(i)))
		}
		core.NumberEdges(root)
		return root
	}
	cur := &core.N{E: core.NewE(), Kids: []*core.N{mk("t0"), mk("t1")}}
	for i := 2; i < n-2; i++ {
		cur = &core.N{E: core.NewE(), Kids: []*core.N{cur, mk("t" + itoa(i))}}
	}
	root := &core.N{Kids: []*core.N{cur, mk("t" + itoa(n-2)), mk("t" + itoa(n-1))}}
	core.NumberEdges(root)
	return root
}

// rootedCat: a rooted ladder with n >= 2 tips (the root has two children)
func rootedCat(n int) *core.N {
	mk := func(name string) *core.N { return &core.N{Name: name, E: core.NewE()} }
	if n <= 2 {
		root := &core.N{}
		for i := 0; i < n; i++ {
			root.Kids = append(root.Kids, mk("t"+itoa(i)))
		}
		core.NumberEdges(root)
		return root
	}
	cur := &core.N{E: core.NewE(), Kids: []*core.N{mk("t0"), mk("t1")}}
	for i := 2; i < n-1; i++ {
		cur = &core.N{E: core.NewE(), Kids: []*core.N{mk("t" + itoa(i)), cur}}
	}
	root := &core.N{Kids: []*core.N{cur, mk("t" + itoa(n-1))}}
	core.NumberEdges(root)
	return root
}

// tipRootedCat: a tree with n >= 3 tips whose root is itself a tip (one neighbour): t0 above a
// rooted ladder over t1..t(n-1)
func tipRootedCat(n int) *core.N {
	sub := rootedCat(n - 1)
	var ren func(x *core.N)
	ren = func(x *core.N) {
		if len(x.Kids) == 0 {
			v, _ := strconv.Atoi(strings.TrimPrefix(x.Name, "t"))
			x.Name = "t" + itoa(v+1)
		}
		for _, k := range x.Kids {
			ren(k)
		}
	}
	ren(sub)
	sub.E = core.NewE()
	root := &core.N{Name: "t0", Kids: []*core.N{sub}}
	core.NumberEdges(root)
	return root
}

func mkFib(c *core.Ctx, s *sampler, what string, k, n int) *fibKind {
	fk := &fibKind{what: what, k: k, n: n, dump: "-"}
	switch what {
	case "sample", "replace":
		repl := what == "replace"
		fk.script = resScript(k, n)
		if repl {
			fk.script = replScript(k, n)
		}
		fk.run = func(seed int64) string {
			res, class := s.inproc(k, n, repl, seed)
			if class != "ok" {
				return class
			}
			out := make([]int, len(res))
			for i, r := range res {
				v, err := strconv.Atoi(strings.TrimPrefix(r, "x"))
				if err != nil {
					v = 999999
				}
				out[i] = v
			}
			return dots(out)
		}
	case "tips", "tipsR", "tipsT":
		nn := caterpillarN(n)
		if what == "tipsR" {
			nn = rootedCat(n)
		}
		if what == "tipsT" {
			nn = tipRootedCat(n)
		}
		fk.dump = nn.Dump()
		fk.script = resScript(k, n)
		names := nn.TipNames()
		fk.run = func(seed int64) string {
			t, err := core.Build(nn)
			if err != nil {
				panic(err)
			}
			rand.Seed(seed)
			var res []string
			if p, msg := core.Safe(func() { res = cmd.VerifRandomTips(t, k) }); p {
				return "panic " + core.Escape(msg)
			}
			return indexList(names, res)
		}
	case "shuffle", "shuffleR", "shuffleT":
		nn := caterpillarN(n)
		if what == "shuffleR" {
			nn = rootedCat(n)
		}
		if what == "shuffleT" {
			nn = tipRootedCat(n)
		}
		fk.dump = nn.Dump()
		fk.script = permScript(n)
		names := nn.TipNames()
		fk.run = func(seed int64) string {
			t, err := core.Build(nn)
			if err != nil {
				panic(err)
			}
			rand.Seed(seed)
			if p, msg := core.Safe(func() { t.ShuffleTips() }); p {
				return "panic " + core.Escape(msg)
			}
			return indexList(names, tipNames(t))
		}
	case "rotate":
		nn, path := rotTree(n, k == 0)
		fk.dump = nn.Dump()
		fk.script = permScript(n)
		fk.run = func(seed int64) string {
			t, err := core.Build(nn)
			if err != nil {
				panic(err)
			}
			nd, _, err := core.NodeAt(t, path)
			if err != nil {
				panic(err)
			}
			before := append([]*tree.Node(nil), nd.Neigh()...)
			ebefore := append([]*tree.Edge(nil), nd.Edges()...)
			rand.Seed(seed)
			if p, msg := core.Safe(func() { nd.RotateNeighbors() }); p {
				return "panic " + core.Escape(msg)
			}
			out := make([]int, len(before))
			for i, nb := range nd.Neigh() {
				out[i] = 999999
				for j, b := range before {
					if b == nb && ebefore[j] == nd.Edges()[i] {
						out[i] = j
					}
				}
			}
			return dots(out)
		}
	case "rotall":
		// RotateInternalNodes on a whole small tree: the outcome lists, for every node of Nodes()
		// (pre-order of the tree before), the original positions of its neighbours
		nn := caterpillarN(n)
		if k == 1 {
			nn = rootedCat(n)
		}
		fk.dump = nn.Dump()
		fk.script = rotAllScript(nn, true)
		fk.run = func(seed int64) string {
			t, err := core.Build(nn)
			if err != nil {
				panic(err)
			}
			nodes := t.Nodes()
			before := make([][]*tree.Node, len(nodes))
			for i, nd := range nodes {
				before[i] = append([]*tree.Node(nil), nd.Neigh()...)
			}
			rand.Seed(seed)
			if p, msg := core.Safe(func() { t.RotateInternalNodes() }); p {
				return "panic " + core.Escape(msg)
			}
			if _, wf := core.Alpha(t); !wf.OK() {
				return "malformed"
			}
			var parts []string
			for i, nd := range nodes {
				out := make([]int, len(before[i]))
				for q, nb := range nd.Neigh() {
					out[q] = 999999
					for j, b := range before[i] {
						if b == nb {
							out[q] = j
						}
					}
				}
				parts = append(parts, dots(out))
			}
			return strings.Join(parts, "|")
		}
	case "utreeU", "utreeR":
		rooted := what == "utreeR"
		fk.script = utreeScript(rooted, n)
		fk.run = func(seed int64) string {
			rand.Seed(seed)
			var sh, cl string
			if p, msg := core.Safe(func() { sh, cl = runUTree(n, rooted) }); p {
				return "panic " + core.Escape(msg)
			}
			if cl != "ok" {
				return cl
			}
			return sh
		}
	default:
		panic("unknown fibre kind " + what)
	}
	return fk
}

// doFib enumerates the draw space by brute force over seeds seed0, seed0+1, …
func doFib(c *core.Ctx, s *sampler, what string, k, n int, seed0 int64) {
	fk := mkFib(c, s, what, k, n)
	bounds := nonzero(fk.script)
	size := 1
	for _, b := range bounds {
		size *= b
	}
	// cells of the draw space are numbered in mixed radix (first call most significant); one twin
	// source is re-seeded for every candidate seed
	first := make([]string, size)
	seen := make([]bool, size)
	checked := make([]bool, size)
	nseen := 0
	nonfunc, desync, tried := 0, 0, 0
	limit := int(60*float64(size)*(math.Log(float64(size)+1)+2)) + 1000
	src := rand.NewSource(1)
	tw := rand.New(src)
	for seed := seed0; nseen < size && tried < limit; seed++ {
		tried++
		tw.Seed(seed)
		cell, bi := 0, 0
		for _, b := range fk.script {
			if b == 0 {
				tw.Float64()
			} else {
				cell = cell*bounds[bi] + tw.Intn(b)
				bi++
			}
		}
		// every cell is run once; the first 20000 cells a second time on another seed (functional check)
		if seen[cell] && (checked[cell] || cell >= 20000) {
			continue
		}
		next := tw.Int63()
		out := strings.NewReplacer(":", "_", ";", "_").Replace(fk.run(seed))
		if rand.Int63() != next {
			desync++
		}
		if !seen[cell] {
			seen[cell] = true
			first[cell] = out
			nseen++
		} else {
			checked[cell] = true
			if out != first[cell] {
				nonfunc++
			}
		}
	}
	// table in the lexicographic order of the space (first call most significant)
	var b strings.Builder
	cur := make([]int, len(bounds))
	for i := 0; i < size; i++ {
		if seen[i] {
			b.WriteString(dots(cur))
			b.WriteByte(':')
			b.WriteString(first[i])
			b.WriteByte(';')
		}
		for j := len(cur) - 1; j >= 0; j-- {
			cur[j]++
			if cur[j] < bounds[j] {
				break
			}
			cur[j] = 0
		}
	}
	c.Emit("C20.fib", what, itoa(k), itoa(n), strconv.FormatInt(seed0, 10), fk.dump, core.IntList(bounds), b.String(), itoa(nonfunc), itoa(desync), itoa(tried))
}

// ---------------------------------------------------------------- frequencies (supporting evidence)

func canonShape(n *core.N) (string, int) {
	if len(n.Kids) == 0 {
		v, _ := strconv.Atoi(strings.TrimPrefix(n.Name, "Tip"))
		return itoa(v), v
	}
	type part struct {
		s string
		m int
	}
	var ps []part
	for _, k := range n.Kids {
		s, m := canonShape(k)
		ps = append(ps, part{s, m})
	}
	sort.Slice(ps, func(i, j int) bool { return ps[i].m < ps[j].m })
	var ss []string
	for _, p := range ps {
		ss = append(ss, p.s)
	}
	return "(" + strings.Join(ss, ",") + ")", ps[0].m
}

func doFreq(c *core.Ctx, s *sampler, what string, k, n int, seed0 int64, nseeds int) {
	fk := mkFib(c, s, what, k, n)
	counts := map[string]int{}
	for i := 0; i < nseeds; i++ {
		out := fk.run(seed0 + int64(i))
		switch what {
		case "sample", "tips", "tipsR", "tipsT":
			f := strings.Split(out, ".")
			v := make([]int, 0, len(f))
			for _, x := range f {
				y, _ := strconv.Atoi(x)
				v = append(v, y)
			}
			sort.Ints(v)
			out = dots(v)
		}
		counts[out]++
	}
	var keys []string
	for key := range counts {
		keys = append(keys, key)
	}
	sort.Strings(keys)
	var l []int
	for _, key := range keys {
		l = append(l, counts[key])
	}
	c.Emit("C20.freq", what, itoa(k), itoa(n), strconv.FormatInt(seed0, 10), itoa(nseeds), core.IntList(l))
}

// ---------------------------------------------------------------- marginal frequencies (model-free)

// doMarg runs the REAL code on nseeds seeds and counts simple events, with no model and no draw
// script involved: item i selected / slot s holds item i / position p holds original element q /
// tips i<j form a cherry of the generated unrooted tree.  The driver compares the counts with the
// exact binomial bounds of the probability the property gives to the event.
func doMarg(c *core.Ctx, s *sampler, what string, k, n int, seed0 int64, nseeds int) {
	var counts []int
	parse := func(out string) []int {
		f := strings.Split(out, ".")
		v := make([]int, 0, len(f))
		for _, x := range f {
			y, err := strconv.Atoi(x)
			if err != nil {
				return nil
			}
			v = append(v, y)
		}
		return v
	}
	switch what {
	case "utreeU":
		counts = make([]int, n*(n-1)/2)
		idx := func(i, j int) int { // i < j, row-major upper triangle
			return i*n - i*(i+1)/2 + (j - i - 1)
		}
		for q := 0; q < nseeds; q++ {
			rand.Seed(seed0 + int64(q))
			t, err := tree.RandomUniformBinaryTree(n, false)
			if err != nil {
				continue
			}
			for _, nd := range t.Nodes() {
				if nd.Nneigh() < 2 {
					continue
				}
				var tips []int
				for _, nb := range nd.Neigh() {
					if nb.Nneigh() == 1 {
						v, e := strconv.Atoi(strings.TrimPrefix(nb.Name(), "Tip"))
						if e == nil && v < n {
							tips = append(tips, v)
						}
					}
				}
				for a := 0; a < len(tips); a++ {
					for b := a + 1; b < len(tips); b++ {
						i, j := tips[a], tips[b]
						if i > j {
							i, j = j, i
						}
						counts[idx(i, j)]++
					}
				}
			}
		}
	default:
		fk := mkFib(c, s, what, k, n)
		rows := 1
		if what == "replace" {
			rows = k
		} else if what != "sample" && what != "tips" && what != "tipsR" && what != "tipsT" {
			rows = n
		}
		counts = make([]int, rows*n)
		for q := 0; q < nseeds; q++ {
			v := parse(fk.run(seed0 + int64(q)))
			for pos, it := range v {
				if it < 0 || it >= n {
					continue
				}
				if rows == 1 {
					counts[it]++
				} else if pos < rows {
					counts[pos*n+it]++
				}
			}
		}
	}
	c.Emit("C20.marg", what, itoa(k), itoa(n), strconv.FormatInt(seed0, 10), itoa(nseeds), core.IntList(counts))
}

// ---------------------------------------------------------------- generation

func treeOpts(g *core.G) core.TreeOpts {
	o := core.DefaultOpts()
	o.MinTips, o.MaxTips = 2, 14
	o.Lengths = 2
	if g.Chance(0.15) {
		o.MinTips, o.MaxTips = 2, 4
	}
	return o
}

// genTree draws a tree; in some cases the root is made a tip ("tips at the root") or
// parent positions other than 0 are used.
func genTree(g *core.G) *core.N {
	o := treeOpts(g)
	if g.Chance(0.15) {
		o.Singles = 0.2 // single-child inner nodes
	}
	if g.Chance(0.2) {
		o.FunnyNames = true // numeric-looking tips, blanks, quotes, non-ASCII
	}
	n, _ := g.Tree(o)
	if g.Chance(0.3) {
		var rec func(x *core.N, root bool)
		rec = func(x *core.N, root bool) {
			if !root && len(x.Kids) > 0 {
				x.PPos = g.Intn(len(x.Kids) + 1)
			}
			for _, k := range x.Kids {
				rec(k, false)
			}
		}
		rec(n, true)
	}
	if g.Chance(0.2) {
		n.E = core.NewE()
		n.E.Len = 0.5
		n = &core.N{Name: "rt", Kids: []*core.N{n}}
	}
	core.NumberEdges(n)
	return n
}

func intsOf(s string) []int {
	var out []int
	for _, f := range strings.Split(s, ",") {
		if f == "" {
			continue
		}
		v, _ := strconv.Atoi(f)
		out = append(out, v)
	}
	return out
}

// Replay re-executes request lines (inputs only are used) on the real code.
func Replay(c *core.Ctx, lines []string) {
	s := newSampler(c)
	for _, l := range lines {
		f := strings.Split(l, "\t")
		at := func(i int) string {
			if i < len(f) {
				return f[i]
			}
			return ""
		}
		num := func(i int) int { v, _ := strconv.Atoi(at(i)); return v }
		num64 := func(i int) int64 { v, _ := strconv.ParseInt(at(i), 10, 64); return v }
		tr := func(i int) *core.N {
			n, err := core.ParseDump(at(i))
			if err != nil {
				panic(err)
			}
			return n
		}
		switch f[0] {
		case "C20.res":
			what, k, seed := at(1), num(2), num64(3)
			switch what {
			case "tips":
				doTips(c, k, seed, tr(4))
			case "prunecli", "prunekeepcli":
				doPruneCLI(c, what, k, seed, tr(4))
			default:
				doSample(c, s, what, k, num(4), seed)
			}
		case "C20.shuffle":
			doShuffle(c, at(1) == "cli", num64(2), tr(3))
		case "C20.rotate":
			doRotate(c, num64(1), tr(2), intsOf(at(3)))
		case "C20.rotall":
			doRotAll(c, num64(1), tr(2))
		case "C20.samplecmd":
			kq := num(2)
			if at(2) == "d" {
				kq = defaultK
			}
			doSampleCmd(c, at(1), kq, at(3) == "1", num64(4), num(5), num(6), at(7) == "1")
		case "C20.prunerange":
			doPruneRange(c, num64(1), tr(2), num(3), at(4) == "1")
		case "C20.prunefile":
			var ns []*core.N
			for _, dd := range strings.Split(strings.TrimSuffix(at(2), "|"), "|") {
				n, err := core.ParseDump(dd)
				if err != nil {
					panic(err)
				}
				ns = append(ns, n)
			}
			doPruneFile(c, num64(1), ns, num(3))
		case "C20.prunecmd":
			lst := func(i int) []string {
				if at(i) == "-" {
					return nil
				}
				var out []string
				for _, x := range strings.Split(strings.TrimSuffix(at(i), ","), ",") {
					u, _ := core.Unescape(x)
					out = append(out, u)
				}
				return out
			}
			var args []string
			if at(4) != "" {
				args = lst(4)
			}
			doPruneCmd(c, num64(1), tr(2), num(3), args, lst(5), lst(6))
		case "C20.utreecmd":
			doUTreeCmd(c, num64(1), num(2), at(3) == "1", num(4))
		case "C20.shufcli", "C20.rotcli":
			var ns []*core.N
			for _, dd := range strings.Split(strings.TrimSuffix(at(2), "|"), "|") {
				n, err := core.ParseDump(dd)
				if err != nil {
					panic(err)
				}
				ns = append(ns, n)
			}
			if f[0] == "C20.shufcli" {
				doShufCLI(c, num64(1), ns)
			} else {
				doRotCLI(c, num64(1), ns)
			}
		case "C20.utree":
			doUTree(c, at(1) == "cli", num64(2), num(3), at(4) == "1")
		case "C20.seedcmd":
			doSeedCmd(c, at(1))
		case "C20.fib":
			doFib(c, s, at(1), num(2), num(3), num64(4))
		case "C20.marg":
			doMarg(c, s, at(1), num(2), num(3), num64(4), num(5))
		case "C20.freq":
			doFreq(c, s, at(1), num(2), num(3), num64(4), num(5))
		}
	}
}

type inst struct {
	what string
	k, n int
}

func fibInstances(quick bool) []inst {
	var l []inst
	// reservoir without replacement: every k = 0 … n+1 for small n, then larger n
	for n := 1; n <= 4; n++ {
		for k := 0; k <= n+1; k++ {
			l = append(l, inst{"sample", k, n})
		}
	}
	l = append(l, inst{"sample", 2, 5}, inst{"sample", 3, 5}, inst{"sample", 3, 6}, inst{"sample", 4, 6})
	for _, kn := range [][2]int{{1, 2}, {2, 2}, {3, 2}, {1, 3}, {2, 4}, {3, 4}, {1, 5}, {2, 5}, {4, 5}, {2, 6}, {3, 6}, {5, 6}} {
		l = append(l, inst{"tips", kn[0], kn[1]})
	}
	for _, kn := range [][2]int{{1, 1}, {1, 2}, {2, 2}, {1, 3}, {2, 3}, {3, 2}, {1, 4}, {2, 4}, {1, 5}} {
		l = append(l, inst{"replace", kn[0], kn[1]})
	}
	// k close to n: the draw space is tiny whatever n is, so the last draws Intn(k+1) … Intn(n) are
	// enumerated exactly on the real code at sizes far beyond the other fibres
	l = append(l, inst{"tips", 10, 12}, inst{"tips", 18, 20}, inst{"tips", 28, 30}, inst{"tipsR", 38, 40}, inst{"tips", 63, 64},
		inst{"sample", 13, 15}, inst{"sample", 23, 25}, inst{"sample", 99, 100})
	l = append(l, inst{"shuffleT", 0, 3}, inst{"shuffleT", 0, 4}, inst{"shuffleT", 0, 5}, inst{"tipsT", 1, 3}, inst{"tipsT", 2, 4}, inst{"tipsT", 3, 5}, inst{"tipsR", 1, 2}, inst{"tipsR", 2, 4}, inst{"tipsR", 2, 5}, inst{"shuffleR", 0, 2}, inst{"shuffleR", 0, 4}, inst{"shuffleR", 0, 5})
	maxn := 6
	if !quick {
		maxn = 8
		l = append(l, inst{"tips", 6, 9}, inst{"tips", 7, 10}, inst{"tips", 5, 9}, inst{"tips", 6, 10}, inst{"tipsR", 4, 9},
			inst{"tips", 5, 10}, inst{"sample", 6, 9}, inst{"sample", 7, 10}, inst{"shuffle", 0, 9})
		l = append(l, inst{"sample", 1, 6}, inst{"sample", 2, 6}, inst{"sample", 2, 7}, inst{"sample", 4, 8},
			inst{"tips", 1, 6}, inst{"tips", 3, 7}, inst{"tips", 2, 7}, inst{"tips", 4, 8}, inst{"tips", 3, 8},
			inst{"replace", 3, 3}, inst{"replace", 2, 5}, inst{"replace", 1, 6}, inst{"replace", 3, 4}, inst{"replace", 1, 7})
	}
	for n := 2; n <= maxn; n++ {
		l = append(l, inst{"shuffle", 0, n})
	}
	for n := 1; n <= maxn; n++ {
		l = append(l, inst{"rotate", 0, n}) // k = 0: the root
		if n >= 2 {
			l = append(l, inst{"rotate", 1, n}) // k = 1: an inner node whose parent sits at position 1
		}
	}
	for n := 3; n <= maxn; n++ {
		l = append(l, inst{"utreeU", 0, n}, inst{"utreeR", 0, n})
	}
	l = append(l, inst{"rotall", 0, 3}, inst{"rotall", 0, 4}, inst{"rotall", 0, 5}, inst{"rotall", 1, 3}, inst{"rotall", 1, 4})
	if !quick {
		l = append(l, inst{"rotall", 0, 6}, inst{"rotall", 1, 5}, inst{"rotall", 1, 6})
	}
	return l
}

// Run generates the cases of C20.
func Run(c *core.Ctx) {
	if c.Arg != "" {
		Replay(c, core.ReadRequests(c.Arg))
		return
	}
	g := c.G
	s := newSampler(c)
	seed := func() int64 { return int64(g.R.Int63n(1 << 40)) }
	// 1. exact fibres over the whole draw space of small instances
	if c.Quick() || c.Seed%1000 == 0 {
		for _, in := range fibInstances(c.Quick()) {
			doFib(c, s, in.what, in.k, in.n, c.Seed*1000003)
		}
	}
	// 2. single replays, larger sizes
	n := c.Scale(300, 20000)
	for i := 0; i < n; i++ {
		switch i % 8 {
		case 0:
			nn := 1 + g.Intn(12)
			doSample(c, s, "sample", g.Intn(nn+4), nn, seed())
		case 1:
			nn := 1 + g.Intn(8)
			doSample(c, s, "replace", g.Intn(6), nn, seed())
		case 2, 3:
			t := genTree(g)
			doTips(c, g.Intn(len(t.TipNames())+3), seed(), t)
		case 4:
			doShuffle(c, false, seed(), genTree(g))
		case 5:
			t := genTree(g)
			p := t.Paths()
			pick := p[g.Intn(len(p))]
			if g.Chance(0.8) { // mostly inner nodes (a tip has a single neighbour)
				var inner [][]int
				for _, q := range p {
					if len(t.At(q).Kids) >= 2 {
						inner = append(inner, q)
					}
				}
				if len(inner) > 0 {
					pick = inner[g.Intn(len(inner))]
				}
			}
			doRotate(c, seed(), t, pick)
		case 6:
			doRotAll(c, seed(), genTree(g))
		case 7:
			doUTree(c, false, seed(), 3+g.Intn(28), g.Chance(0.5))
		}
	}
	// 3. frequencies over many seeds (supporting evidence only)
	ns := c.Scale(3000, 30000)
	for _, in := range []inst{{"tips", 3, 9}, {"tips", 1, 12}, {"shuffle", 0, 4}, {"utreeU", 0, 6}, {"rotate", 0, 4}, {"replace", 2, 4}} {
		if in.what == "replace" {
			doFreq(c, s, in.what, in.k, in.n, c.Seed*7919, ns/10)
		} else {
			doFreq(c, s, in.what, in.k, in.n, c.Seed*7919, ns)
		}
	}
	// 3b. model-free marginal frequencies of every operation, beyond the sizes the fibres reach
	nm := c.Scale(2000, 12000)
	margKinds := []inst{{"sample", 5, 20}, {"sample", 12, 25}, {"replace", 3, 15}, {"tips", 7, 30}, {"tips", 1, 40},
		{"tipsR", 10, 21}, {"tipsT", 4, 16}, {"shuffle", 0, 12}, {"shuffle", 0, 25}, {"shuffleR", 0, 17}, {"shuffleT", 0, 10},
		{"rotate", 0, 9}, {"rotate", 1, 12}, {"utreeU", 0, 9}, {"utreeU", 0, 16}}
	if !c.Quick() && c.Seed%1000 != 0 {
		margKinds = nil // thorough: once, in the first shard
	}
	for _, in := range margKinds {
		doMarg(c, s, in.what, in.k, in.n, c.Seed*104729, nm)
	}
	// 4. command-line tier
	if c.Gotree != "" {
		// every branch of the sample command once (formats, errors, panics), with the run's seeds
		for _, f := range []struct {
			format  string
			k       int
			replace bool
			n, bad  int
			opened  bool
		}{
			{"newick", 2, false, 5, -1, true}, {"nexus", 2, false, 5, -1, true}, {"phyloxml", 2, false, 5, -1, true},
			{"nexus", 3, true, 4, -1, true}, {"phyloxml", 1, true, 3, -1, true}, {"newick", 7, false, 4, -1, true},
			{"newick", 6, true, 2, -1, true}, {"newick", 0, false, 3, -1, true}, {"newick", 0, true, 3, -1, true},
			{"newick", 2, false, 0, -1, true}, {"newick", 2, true, 0, -1, true}, {"newick", 1, false, 4, 0, true},
			{"newick", 1, false, 4, 2, true}, {"newick", 2, true, 4, 4, true}, {"newick", 2, false, 4, -1, false},
			{"newick", -1, false, 4, -1, true}, {"newick", -2, true, 4, -1, true},
		} {
			doSampleCmd(c, f.format, f.k, f.replace, seed(), f.n, f.bad, f.opened)
		}
		// prune --random k [-r] through the command for every k: <= 0, 1, n-3 … n+2 (rooted and unrooted)
		for q := 0; q < c.Scale(2, 20); q++ {
			o := treeOpts(g)
			o.MinTips, o.MaxTips = 5, 9
			o.Rooted = q % 2
			t, _ := g.Tree(o)
			core.NumberEdges(t)
			nt := len(t.TipNames())
			for _, k := range []int{-1, 0, 1, nt - 3, nt - 2, nt - 1, nt, nt + 1, nt + 2} {
				doPruneRange(c, seed(), t, k, false)
				doPruneRange(c, seed(), t, k, true)
			}
		}
		// … and on files of several trees
		for q := 0; q < c.Scale(4, 60); q++ {
			var ns []*core.N
			for z := 2 + g.Intn(2); z > 0; z-- {
				o := treeOpts(g)
				o.MinTips = 6
				t, _ := g.Tree(o)
				core.NumberEdges(t)
				ns = append(ns, t)
			}
			doPruneFile(c, seed(), ns, 1+g.Intn(3))
		}
		m := c.Scale(110, 2500)
		for i := 0; i < m; i++ {
			switch i % 10 {
			case 9:
				// prune: several selection options at once
				o := treeOpts(g)
				o.MinTips = 8
				t, _ := g.Tree(o)
				core.NumberEdges(t)
				nm := t.TipNames()
				pick := func(k int) []string {
					p := g.R.Perm(len(nm))
					var out []string
					for _, q := range p[:k] {
						out = append(out, nm[q])
					}
					return out
				}
				random := g.Intn(4) // 0 = option absent
				var args, tipfile, comp []string
				if g.Chance(0.6) {
					args = pick(1 + g.Intn(2))
				}
				switch g.Intn(4) {
				case 0:
					tipfile = pick(1 + g.Intn(3))
				case 1:
					comp = pick(len(nm) - 1 - g.Intn(2))
				case 2:
					tipfile = pick(1 + g.Intn(2))
					comp = pick(len(nm) - 1)
				}
				doPruneCmd(c, seed(), t, random, args, tipfile, comp)
			case 8:
				doUTreeCmd(c, seed(), 3+g.Intn(10), g.Chance(0.5), 1+g.Intn(4))
			case 7:
				var ns []*core.N
				for q := 1 + g.Intn(3); q > 0; q-- {
					o := treeOpts(g)
					o.MinTips = 3
					t, _ := g.Tree(o)
					core.NumberEdges(t)
					ns = append(ns, t)
				}
				doShufCLI(c, seed(), ns)
			case 6:
				// the whole sample command: formats, malformed tree, empty input, missing file, k < 0
				format := []string{"newick", "newick", "nexus", "phyloxml"}[g.Intn(4)]
				nn := g.Intn(9)
				k := g.Intn(nn+3) - 0
				bad, opened := -1, true
				switch g.Intn(10) {
				case 0:
					if format == "newick" {
						bad = g.Intn(nn + 1)
					}
				case 1:
					opened = false
				case 2:
					k = -1 - g.Intn(2)
				case 3:
					nn = 0
				}
				if nn == 0 {
					format = "newick"
				}
				doSampleCmd(c, format, k, g.Chance(0.4), seed(), nn, bad, opened)
			case 5:
				var ns []*core.N
				for q := 1 + g.Intn(3); q > 0; q-- {
					o := treeOpts(g)
					o.MinTips = 3
					t, _ := g.Tree(o)
					core.NumberEdges(t)
					ns = append(ns, t)
				}
				doRotCLI(c, seed(), ns)
			case 0:
				nn := 1 + g.Intn(10)
				doSample(c, s, "samplecli", g.Intn(nn+3), nn, seed())
			case 1:
				nn := 1 + g.Intn(6)
				doSample(c, s, "replacecli", 1+g.Intn(4), nn, seed())
			case 2:
				o := treeOpts(g)
				o.MinTips = 6
				t, _ := g.Tree(o)
				core.NumberEdges(t)
				if g.Chance(0.5) {
					doPruneCLI(c, "prunecli", 1+g.Intn(len(t.TipNames())-3), seed(), t)
				} else {
					doPruneCLI(c, "prunekeepcli", 3+g.Intn(len(t.TipNames())-3), seed(), t)
				}
			case 3:
				o := treeOpts(g)
				o.MinTips = 3
				t, _ := g.Tree(o)
				core.NumberEdges(t)
				doShuffle(c, true, seed(), t)
			case 4:
				doUTree(c, true, seed(), 3+g.Intn(15), g.Chance(0.5))
			}
		}
		// generator branches the structured generator reaches rarely: nodes of degree 4-6 (at the root and
		// inside, parent in the middle of the neighbour list), trees whose root is a tip
		for _, d := range []int{4, 5, 6} {
			for _, ar := range []bool{true, false} {
				t, p := rotTree(d, ar)
				doRotate(c, seed(), t, p)
				doRotAll(c, seed(), t)
			}
		}
		for _, nn := range []int{4, 6, 9} {
			t := tipRootedCat(nn)
			doShuffle(c, false, seed(), t)
			doShuffle(c, true, seed(), t)
			doTips(c, 1+g.Intn(nn-1), seed(), t)
			doRotAll(c, seed(), t)
			doPruneCLI(c, "prunekeepcli", 3, seed(), tipRootedCat(nn+3))
		}
		// `gotree sample` without -n: the default of the option (one tree), with and without --replace
		for _, nn := range []int{1, 3, 6} {
			doSampleCmd(c, "newick", defaultK, false, seed(), nn, -1, true)
			doSampleCmd(c, "newick", defaultK, true, seed(), nn, -1, true)
		}
		// the seed itself: absent / -1 = the clock; 0, negative and positive values are seeds as they are
		for _, fl := range []string{"-", "-1", "0", "-2", "1", strconv.FormatInt(c.Seed*7+3, 10)} {
			doSeedCmd(c, fl)
		}
	}
}
