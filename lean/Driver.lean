-- GENERATED
import Driver.Proto
import Driver.C14
