package c04

// extract.go — tables of C04 regenerated from the source (`vh gen-tables`), written to
// lean/Gotree/Gen/C04Facts.lean and re-decided by `decide` in Proofs/C04.lean
// (theorems `recompute_table_check`, `facts_table_check`).
//
// (a) `reach`: for every function of package tree, which of the four index routines
//     (UpdateTipIndex, ClearBitSets, UpdateBitSet, ComputeEdgeHashes) it reaches through calls
//     to functions declared in package tree.  Calls are resolved BY NAME (go/ast only: a call
//     `x.F(…)` reaches every declaration named F of the package), conditions are ignored: an
//     over-approximation.  It is what the harness's `ownRecompute` and the model rely on when
//     they judge the indexes straight after an edit ("this edit recomputes the indexes itself").
//     Being the transitive closure, inlining ReinitInternalIndexes in a caller changes nothing.
// (b) `facts`: the skeleton (if-conditions, return expressions, assignments; printed by
//     go/printer, so white space and comments do not matter) of the handful of one-line
//     decisions the hand-written model copies: indexFor, the rehash test and growth factor,
//     NewHashMap's size 0, Edge.DumpBitSet's loop, Edge.HashCode's three-way choice, HashEquals, SameBipartition,
//     TopoDepth, the filter of EdgeIndex.Edges, Quartet.HashCode, tax_hash's hash function,
//     the comparator of SortedTips, the capacity and load factor of IndexQuartets, the width
//     ClearBitSets gives the bitsets.

import (
	"bytes"
	"fmt"
	"go/ast"
	"go/parser"
	"go/printer"
	"go/token"
	"os"
	"path/filepath"
	"sort"
	"strings"
)

var xPrims = []string{"UpdateTipIndex", "ClearBitSets", "UpdateBitSet", "ComputeEdgeHashes"}

type xSpec struct {
	dir, recv, name string
	depth           int // statements nested deeper than this many blocks are not listed
}

var xSpecs = []xSpec{
	{"hashmap", "", "NewHashMap", 1},
	{"hashmap", "HashMap", "rehash", 1},
	{"tree", "", "tax_hash", 9},
	{"tree", "Edge", "DumpBitSet", 9},
	{"tree", "Edge", "HashEquals", 9},
	{"tree", "Edge", "SameBipartition", 9},
	{"tree", "Quartet", "HashCode", 9},
	{"tree", "Quartet", "HashEquals", 9},
	{"tree", "Tree", "IndexQuartets", 0},
	{"tree", "Tree", "SortedTips", 9},
	{"tree", "Tree", "ClearBitSets", 0},
}

func isPrimName(n string) bool {
	for _, p := range xPrims {
		if p == n {
			return true
		}
	}
	return false
}

func xRecv(fd *ast.FuncDecl) string {
	if fd.Recv == nil || len(fd.Recv.List) == 0 {
		return ""
	}
	t := fd.Recv.List[0].Type
	if s, ok := t.(*ast.StarExpr); ok {
		t = s.X
	}
	if id, ok := t.(*ast.Ident); ok {
		return id.Name
	}
	return "?"
}

func xParseDir(fset *token.FileSet, dir string) ([]*ast.FuncDecl, error) {
	ents, err := os.ReadDir(dir)
	if err != nil {
		return nil, err
	}
	var out []*ast.FuncDecl
	for _, e := range ents {
		n := e.Name()
		if !strings.HasSuffix(n, ".go") || strings.HasSuffix(n, "_test.go") {
			continue
		}
		f, err := parser.ParseFile(fset, filepath.Join(dir, n), nil, 0)
		if err != nil {
			return nil, err
		}
		for _, d := range f.Decls {
			if fd, ok := d.(*ast.FuncDecl); ok && fd.Body != nil {
				out = append(out, fd)
			}
		}
	}
	return out, nil
}

func xPrint(fset *token.FileSet, n ast.Node) string {
	var b bytes.Buffer
	printer.Fprint(&b, fset, n)
	return strings.Join(strings.Fields(b.String()), " ")
}

// skeleton of a body: "if C", "ret E", "set L op R", "call F(args)" for NewHashMap calls only
func xSkeleton(fset *token.FileSet, body *ast.BlockStmt, maxDepth int) []string {
	var out []string
	exprs := func(l []ast.Expr) string {
		var s []string
		for _, e := range l {
			s = append(s, xPrint(fset, e))
		}
		return strings.Join(s, ", ")
	}
	var stmt func(s ast.Stmt, d int)
	block := func(b *ast.BlockStmt, d int) {
		if b == nil || d > maxDepth {
			return
		}
		for _, s := range b.List {
			stmt(s, d)
		}
	}
	// function literals inside expressions (the comparator of sort.Slice)
	lits := func(n ast.Node, d int) {
		ast.Inspect(n, func(x ast.Node) bool {
			if fl, ok := x.(*ast.FuncLit); ok {
				block(fl.Body, d+1)
				return false
			}
			return true
		})
	}
	stmt = func(s ast.Stmt, d int) {
		switch v := s.(type) {
		case *ast.IfStmt:
			if v.Init != nil {
				out = append(out, "if "+xPrint(fset, v.Init)+"; "+xPrint(fset, v.Cond))
			} else {
				out = append(out, "if "+xPrint(fset, v.Cond))
			}
			block(v.Body, d+1)
			switch e := v.Else.(type) {
			case *ast.BlockStmt:
				out = append(out, "else")
				block(e, d+1)
			case *ast.IfStmt:
				out = append(out, "else")
				stmt(e, d)
			}
		case *ast.ReturnStmt:
			out = append(out, "ret "+exprs(v.Results))
			lits(v, d)
		case *ast.AssignStmt:
			out = append(out, "set "+exprs(v.Lhs)+" "+v.Tok.String()+" "+exprs(v.Rhs))
		case *ast.DeclStmt:
			out = append(out, "var "+xPrint(fset, v.Decl))
		case *ast.IncDecStmt:
			out = append(out, "set "+xPrint(fset, v.X)+" "+v.Tok.String())
		case *ast.ExprStmt:
			if _, ok := v.X.(*ast.CallExpr); ok {
				out = append(out, "call "+xPrint(fset, v.X))
			}
			lits(v, d)
		case *ast.ForStmt:
			h := "for "
			if v.Init != nil {
				h += xPrint(fset, v.Init)
			}
			h += "; "
			if v.Cond != nil {
				h += xPrint(fset, v.Cond)
			}
			h += "; "
			if v.Post != nil {
				h += xPrint(fset, v.Post)
			}
			out = append(out, h)
			block(v.Body, d+1)
		case *ast.RangeStmt:
			h := "range "
			if v.Key != nil {
				h += xPrint(fset, v.Key)
			}
			if v.Value != nil {
				h += ", " + xPrint(fset, v.Value)
			}
			out = append(out, h+" of "+xPrint(fset, v.X))
			block(v.Body, d+1)
		case *ast.BlockStmt:
			block(v, d+1)
		}
	}
	block(body, 0)
	return out
}


// ---- semantic rows: expressions handed to Lean as terms of `Gotree.C04.Facts.GExpr`, evaluated there on probes
// and compared with the model (an equivalent rewrite of the Go expression stays green).  Selectors are reduced to
// their field name (`e.ntaxleft` -> "ntaxleft"), so renaming a receiver or a local does not matter.

func gexpr(fset *token.FileSet, e ast.Expr) string {
	switch v := e.(type) {
	case *ast.ParenExpr:
		return gexpr(fset, v.X)
	case *ast.BasicLit:
		if v.Kind == token.INT {
			return "(.lit " + v.Value + ")"
		}
	case *ast.Ident:
		return "(.var " + leanStr(v.Name) + ")"
	case *ast.SelectorExpr:
		return "(.var " + leanStr(v.Sel.Name) + ")"
	case *ast.BinaryExpr:
		return "(.bin " + leanStr(v.Op.String()) + " " + gexpr(fset, v.X) + " " + gexpr(fset, v.Y) + ")"
	case *ast.UnaryExpr:
		return "(.un " + leanStr(v.Op.String()) + " " + gexpr(fset, v.X) + ")"
	case *ast.CallExpr:
		name := xPrint(fset, v.Fun)
		if se, ok := v.Fun.(*ast.SelectorExpr); ok {
			name = se.Sel.Name
		}
		if len(v.Args) == 1 {
			return "(.call1 " + leanStr(name) + " " + gexpr(fset, v.Args[0]) + ")"
		}
		if len(v.Args) == 2 {
			return "(.call2 " + leanStr(name) + " " + gexpr(fset, v.Args[0]) + " " + gexpr(fset, v.Args[1]) + ")"
		}
	}
	return "(.other " + leanStr(xPrint(fset, e)) + ")"
}

// the value a one-statement block gives: `x = E`, `x := E` or `return E`
func blockValue(b *ast.BlockStmt) ast.Expr {
	if b == nil || len(b.List) != 1 {
		return nil
	}
	switch v := b.List[0].(type) {
	case *ast.AssignStmt:
		if len(v.Rhs) == 1 {
			return v.Rhs[0]
		}
	case *ast.ReturnStmt:
		if len(v.Results) >= 1 {
			return v.Results[0]
		}
	}
	return nil
}

// decision list of the first if / else-if / else chain of a body: (condition, value); the final else has condition 1
func chainOf(fset *token.FileSet, body *ast.BlockStmt) ([]string, bool) {
	var first *ast.IfStmt
	for _, st := range body.List {
		if is, ok := st.(*ast.IfStmt); ok {
			first = is
			break
		}
	}
	var rows []string
	for cur := first; cur != nil; {
		val := blockValue(cur.Body)
		if val == nil {
			return nil, false
		}
		rows = append(rows, "("+gexpr(fset, cur.Cond)+", "+gexpr(fset, val)+")")
		switch e := cur.Else.(type) {
		case *ast.IfStmt:
			cur = e
		case *ast.BlockStmt:
			val := blockValue(e)
			if val == nil {
				return nil, false
			}
			rows = append(rows, "((.lit 1), "+gexpr(fset, val)+")")
			cur = nil
		default:
			cur = nil
		}
	}
	return rows, len(rows) > 0
}

func firstIfCond(body *ast.BlockStmt) ast.Expr {
	var c ast.Expr
	ast.Inspect(body, func(n ast.Node) bool {
		if is, ok := n.(*ast.IfStmt); ok && c == nil {
			c = is.Cond
		}
		return c == nil
	})
	return c
}

func lastReturn(body *ast.BlockStmt) ast.Expr {
	var r ast.Expr
	ast.Inspect(body, func(n ast.Node) bool {
		if rs, ok := n.(*ast.ReturnStmt); ok && len(rs.Results) >= 1 {
			r = rs.Results[0]
		}
		return true
	})
	return r
}

// the function literal of `RunE:` in the composite literal of a command variable
func runEOf(f *ast.File, cmdVar string) *ast.FuncLit {
	var lit *ast.FuncLit
	ast.Inspect(f, func(n ast.Node) bool {
		vs, ok := n.(*ast.ValueSpec)
		if !ok || len(vs.Names) != 1 || vs.Names[0].Name != cmdVar {
			return true
		}
		ast.Inspect(vs, func(m ast.Node) bool {
			if kv, ok := m.(*ast.KeyValueExpr); ok {
				if id, ok := kv.Key.(*ast.Ident); ok && id.Name == "RunE" {
					if fl, ok := kv.Value.(*ast.FuncLit); ok {
						lit = fl
					}
				}
			}
			return true
		})
		return false
	})
	return lit
}

func leanStr(s string) string {
	s = strings.ReplaceAll(s, "\\", "\\\\")
	s = strings.ReplaceAll(s, "\"", "\\\"")
	return "\"" + s + "\""
}

func leanStrs(l []string) string {
	q := make([]string, len(l))
	for i, s := range l {
		q[i] = leanStr(s)
	}
	return "[" + strings.Join(q, ", ") + "]"
}

// GenTables writes lean/Gotree/Gen/C04Facts.lean.
func GenTables(repo, out string) error {
	fset := token.NewFileSet()
	var problems []string
	decls := map[string][]*ast.FuncDecl{}
	for _, d := range []string{"tree", "hashmap"} {
		l, err := xParseDir(fset, filepath.Join(repo, d))
		if err != nil {
			return err
		}
		decls[d] = l
	}
	// (a) reach
	byName := map[string][]*ast.FuncDecl{}
	for _, fd := range decls["tree"] {
		byName[fd.Name.Name] = append(byName[fd.Name.Name], fd)
	}
	// a call `F(…)` reaches the plain functions named F; `x.F(…)` the methods named F — of the
	// receiver's own type when x is the receiver of the enclosing method, of any type otherwise
	calls := map[*ast.FuncDecl][]*ast.FuncDecl{}
	prims := map[*ast.FuncDecl][]string{}
	for _, fd := range decls["tree"] {
		seen := map[string]bool{}
		self := ""
		if fd.Recv != nil && len(fd.Recv.List) > 0 && len(fd.Recv.List[0].Names) > 0 {
			self = fd.Recv.List[0].Names[0].Name
		}
		ast.Inspect(fd.Body, func(n ast.Node) bool {
			ce, ok := n.(*ast.CallExpr)
			if !ok {
				return true
			}
			name, on := "", ""
			method := false
			switch f := ce.Fun.(type) {
			case *ast.Ident:
				name = f.Name
			case *ast.SelectorExpr:
				name, method = f.Sel.Name, true
				if id, ok := f.X.(*ast.Ident); ok {
					on = id.Name
				}
			}
			if name == "" || seen[name] {
				return true
			}
			for _, g := range byName[name] {
				if (xRecv(g) != "") != method {
					continue
				}
				if method && on != "" && on == self && xRecv(g) != xRecv(fd) {
					continue
				}
				seen[name] = true
				if isPrimName(name) && xRecv(g) == "Tree" {
					prims[fd] = append(prims[fd], name)
				} else {
					calls[fd] = append(calls[fd], g)
				}
			}
			return true
		})
	}
	reach := func(fd *ast.FuncDecl) []string {
		got := map[string]bool{}
		visited := map[*ast.FuncDecl]bool{}
		var rec func(f *ast.FuncDecl)
		rec = func(f *ast.FuncDecl) {
			if visited[f] {
				return
			}
			visited[f] = true
			for _, p := range prims[f] {
				got[p] = true // what a primitive does is the model's business: not followed
			}
			for _, g := range calls[f] {
				rec(g)
			}
		}
		rec(fd)
		var l []string
		for _, p := range xPrims {
			if got[p] {
				l = append(l, p)
			}
		}
		return l
	}
	type row struct {
		key string
		l   []string
	}
	var rows []row
	for _, fd := range decls["tree"] {
		if l := reach(fd); len(l) > 0 {
			key := fd.Name.Name
			if r := xRecv(fd); r != "" {
				key = r + "." + key
			}
			rows = append(rows, row{key, l})
		}
	}
	sort.Slice(rows, func(i, j int) bool { return rows[i].key < rows[j].key })
	// (b) facts
	var facts []row
	for _, sp := range xSpecs {
		var found *ast.FuncDecl
		for _, fd := range decls[sp.dir] {
			if fd.Name.Name == sp.name && xRecv(fd) == sp.recv {
				found = fd
			}
		}
		key := sp.name
		if sp.recv != "" {
			key = sp.recv + "." + sp.name
		}
		if found == nil {
			problems = append(problems, "function not found: "+sp.dir+"/"+key)
			continue
		}
		facts = append(facts, row{key, xSkeleton(fset, found.Body, sp.depth)})
	}
	// the glue of `gotree stats splits` (cmd/splits.go): the function literal of RunE
	if f, err := parser.ParseFile(fset, filepath.Join(repo, "cmd", "splits.go"), nil, 0); err != nil {
		problems = append(problems, "cmd/splits.go: "+err.Error())
	} else if fl := runEOf(f, "splitsCmd"); fl == nil {
		problems = append(problems, "cmd/splits.go: RunE of splitsCmd not found")
	} else {
		facts = append(facts, row{"cmd.splitsCmd.RunE", xSkeleton(fset, fl.Body, 9)})
	}
	// semantic rows
	find := func(dir, recv, name string) *ast.FuncDecl {
		for _, fd := range decls[dir] {
			if fd.Name.Name == name && xRecv(fd) == recv {
				return fd
			}
		}
		problems = append(problems, "function not found: "+dir+"/"+recv+"."+name)
		return nil
	}
	type srow struct{ key, term string }
	var sems []srow
	addExpr := func(key string, e ast.Expr) {
		if e == nil {
			problems = append(problems, key+": shape not recognised")
			return
		}
		sems = append(sems, srow{key, gexpr(fset, e)})
	}
	if fd := find("hashmap", "", "indexFor"); fd != nil {
		addExpr("indexFor.ret", lastReturn(fd.Body))
	}
	if fd := find("tree", "Edge", "TopoDepth"); fd != nil {
		addExpr("Edge.TopoDepth.err", firstIfCond(fd.Body))
		addExpr("Edge.TopoDepth.ret", lastReturn(fd.Body))
	}
	if fd := find("tree", "EdgeIndex", "Edges"); fd != nil {
		addExpr("EdgeIndex.Edges.keep", firstIfCond(fd.Body))
	}
	var chain []string
	if fd := find("tree", "Edge", "HashCode"); fd != nil {
		c, ok := chainOf(fset, fd.Body)
		if !ok {
			problems = append(problems, "Edge.HashCode: shape not recognised")
		}
		chain = c
	}
	var b strings.Builder
	b.WriteString("-- GENERATED by harness/c04/extract.go (`vh gen-tables`) from tree/*.go and hashmap/hashmap.go; do not edit.\n")
	b.WriteString("-- reach: function of package tree -> index routines reached through calls inside the package (by name, conditions ignored).\n")
	b.WriteString("-- facts: function -> its skeleton (if-conditions, return expressions, assignments).\n")
	b.WriteString("-- sem / hashCodeChain: Go expressions as terms of Gotree.C04.Facts.GExpr (evaluated on probes by Proofs/C04.lean).\n")
	b.WriteString("import Gotree.Model.C04Facts\n\nnamespace Gotree.Gen.C04Facts\nopen Gotree.C04.Facts\n\n")
	wr := func(name string, rs []row) {
		fmt.Fprintf(&b, "def %s : List (String × List String) := [", name)
		for i, r := range rs {
			if i > 0 {
				b.WriteString(",")
			}
			fmt.Fprintf(&b, "\n  (%s, %s)", leanStr(r.key), leanStrs(r.l))
		}
		b.WriteString("]\n\n")
	}
	wr("reach", rows)
	wr("facts", facts)
	b.WriteString("def sem : List (String × GExpr) := [")
	for i, r := range sems {
		if i > 0 {
			b.WriteString(",")
		}
		fmt.Fprintf(&b, "\n  (%s, %s)", leanStr(r.key), r.term)
	}
	b.WriteString("]\n\ndef hashCodeChain : List (GExpr × GExpr) := [")
	for i, r := range chain {
		if i > 0 {
			b.WriteString(",")
		}
		b.WriteString("\n  " + r)
	}
	b.WriteString("]\n\n")
	fmt.Fprintf(&b, "def problems : List String := %s\n\nend Gotree.Gen.C04Facts\n", leanStrs(problems))
	path := filepath.Join(out, "C04Facts.lean")
	if old, err := os.ReadFile(path); err == nil && string(old) == b.String() {
		return nil
	}
	return os.WriteFile(path, []byte(b.String()), 0644)
}
