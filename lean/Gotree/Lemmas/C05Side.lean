/-
  C05 — an outgroup that is one side of a split is found with no foreign tip below the
  ancestor (the converse direction needed by `outgroup_clade` in non-strict mode).
-/
import Gotree.Lemmas.C05Eq

namespace Gotree.C05
open Gotree

/-! ## more about `found`: when no foreign tip is counted -/

def FoundOK2 (S : List String) (nS : Nat) (t : T) (p es : List Nat) (tp : Bool) (df : Nat) : Prop :=
  (p = [] ∨ ∃ j e c p', p = j :: p' ∧ t.kids[j]? = some (e, c) ∧ lcaNode S nS c = .found p' es tp df) ∧
  (p = [] → (tp = true → df = 0) ∧ (tp = false →
    (∀ i ∈ es, ∀ (e : EdgeD) (c : T), t.kids[i]? = some (e, c) → 0 < cntIn S c.leaves) ∧
    ((∀ i ∈ es, ∀ (e : EdgeD) (c : T), t.kids[i]? = some (e, c) → cntOut S c.leaves = 0) → df = 0) ∧
    (∀ (i : Nat) (e : EdgeD) (c : T), t.kids[i]? = some (e, c) → cntIn S c.leaves ≠ nS)))

def AccInv2 (S : List String) (nS : Nat) (K : Kids) (idx : Nat) (edges : List Nat) (different : Nat) : Prop :=
  (∀ i ∈ edges, ∀ (e : EdgeD) (c : T), K[i]? = some (e, c) → 0 < cntIn S c.leaves) ∧
  ((∀ i ∈ edges, ∀ (e : EdgeD) (c : T), K[i]? = some (e, c) → cntOut S c.leaves = 0) → different = 0) ∧
  (∀ i, i < idx → ∀ (e : EdgeD) (c : T), K[i]? = some (e, c) → cntIn S c.leaves ≠ nS)

mutual
theorem lcaNode_sem2 (S : List String) (nS : Nat) (hn : 0 < nS) : ∀ (t : T),
    (∀ com df, lcaNode S nS t = .nf com df → com ≠ nS) ∧
    (∀ p es tp df, lcaNode S nS t = .found p es tp df → FoundOK2 S nS t p es tp df)
  | .node d pp [] => by
    constructor
    · intro com df h
      simp only [lcaNode] at h
      split at h
      · split at h
        · cases h
        · rename_i h1; cases h; intro h2; exact h1 (by simp [h2])
      · cases h; omega
    · intro p es tp df h
      simp only [lcaNode] at h
      split at h
      · split at h
        · cases h
          exact ⟨Or.inl rfl, fun _ => ⟨fun _ => rfl, fun h => by cases h⟩⟩
        · cases h
      · cases h
  | .node d pp (k :: ks) => by
    have inv0 : AccInv2 S nS (k :: ks) 0 [] 0 := ⟨by simp, fun _ => rfl, by simp⟩
    obtain ⟨h1, h2⟩ := lcaKids_sem2 S nS hn d pp (k :: ks) (k :: ks) 0 0 [] 0 0 rfl inv0
    constructor
    · intro com df h
      simp only [lcaNode] at h
      exact h1 com df h
    · intro p es tp df h
      simp only [lcaNode] at h
      exact h2 p es tp df h
theorem lcaKids_sem2 (S : List String) (nS : Nat) (hn : 0 < nS) (d : NodeD) (pp : Nat) (K : Kids) :
    ∀ (k : Kids) (idx common : Nat) (edges : List Nat) (different tmpdiff : Nat),
    K.drop idx = k → AccInv2 S nS K idx edges different →
    (∀ com df, lcaKids S nS k idx common edges different tmpdiff = .nf com df → com ≠ nS) ∧
    (∀ p es tp df, lcaKids S nS k idx common edges different tmpdiff = .found p es tp df →
      FoundOK2 S nS (.node d pp K) p es tp df)
  | [], idx, common, edges, different, tmpdiff, hk, inv => by
    have hlen : K.length ≤ idx := by
      have := congrArg List.length hk
      simp at this; omega
    constructor
    · intro com df h
      simp only [lcaKids] at h
      split at h
      · cases h
      · rename_i hc; cases h; simpa using hc
    · intro p es tp df h
      simp only [lcaKids] at h
      split at h
      · cases h
        obtain ⟨i1, i2, i3⟩ := inv
        refine ⟨Or.inl rfl, fun _ => ⟨(fun h => by cases h), fun _ => ⟨i1, i2, ?_⟩⟩⟩
        intro i e c hc
        have hlt : i < K.length := (List.getElem?_eq_some_iff.1 hc).1
        exact i3 i (by omega) e c hc
      · cases h
  | (e, t) :: r, idx, common, edges, different, tmpdiff, hk, inv => by
    have hki : K[idx]? = some (e, t) := by
      have := congrArg (fun l => l[0]?) hk
      simpa using this
    have hk' : K.drop (idx + 1) = r := by
      have := congrArg (List.drop 1) hk
      simpa [List.drop_drop, Nat.add_comm] using this
    obtain ⟨n1, n2⟩ := lcaNode_sem2 S nS hn t
    obtain ⟨m1, _⟩ := lcaNode_sem S nS hn t
    obtain ⟨i1, i2, i3⟩ := inv
    -- the invariant after a kid that returned `nf c1 d1`
    have step : ∀ c1 d1, lcaNode S nS t = .nf c1 d1 →
        AccInv2 S nS K (idx + 1) (if c1 > 0 then edges ++ [idx] else edges) (if c1 > 0 then different + d1 else different) := by
      intro c1 d1 hres
      obtain ⟨hc1, hd1⟩ := m1 c1 d1 hres
      have hne := n1 c1 d1 hres
      have i3' : ∀ i, i < idx + 1 → ∀ e' c', K[i]? = some (e', c') → cntIn S c'.leaves ≠ nS := by
        intro i hi e' c' hc'
        by_cases hii : i = idx
        · subst hii; rw [hki] at hc'; cases hc'; rw [← hc1]; exact hne
        · exact i3 i (by omega) e' c' hc'
      by_cases hpos : c1 > 0
      · simp only [hpos, if_true]
        refine ⟨?_, ?_, i3'⟩
        · intro i hi e' c' hc'
          rcases List.mem_append.1 hi with hi | hi
          · exact i1 i hi e' c' hc'
          · simp at hi; subst hi; rw [hki] at hc'; cases hc'; omega
        · intro hall
          have h0 := i2 (fun i hi e' c' hc' => hall i (List.mem_append_left _ hi) e' c' hc')
          have h1 := hall idx (by simp) e t hki
          omega
      · simp only [hpos, if_false]
        exact ⟨i1, i2, i3'⟩
    constructor
    · intro com df h
      simp only [lcaKids] at h
      cases hres : lcaNode S nS t with
      | found p es tp df' => simp [hres] at h
      | nf c1 d1 =>
        simp only [hres] at h
        have inv' := step c1 d1 hres
        by_cases hpos : c1 > 0
        · simp only [hpos, if_true] at h inv'
          exact (lcaKids_sem2 S nS hn d pp K r (idx + 1) _ _ _ _ hk' inv').1 com df h
        · simp only [hpos, if_false] at h inv'
          exact (lcaKids_sem2 S nS hn d pp K r (idx + 1) _ _ _ _ hk' inv').1 com df h
    · intro p es tp df h
      simp only [lcaKids] at h
      cases hres : lcaNode S nS t with
      | found p' es' tp' df' =>
        simp only [hres] at h
        cases h
        exact ⟨Or.inr ⟨idx, e, t, p', rfl, hki, hres⟩, fun h => by cases h⟩
      | nf c1 d1 =>
        simp only [hres] at h
        have inv' := step c1 d1 hres
        by_cases hpos : c1 > 0
        · simp only [hpos, if_true] at h inv'
          exact (lcaKids_sem2 S nS hn d pp K r (idx + 1) _ _ _ _ hk' inv').2 p es tp df h
        · simp only [hpos, if_false] at h inv'
          exact (lcaKids_sem2 S nS hn d pp K r (idx + 1) _ _ _ _ hk' inv').2 p es tp df h
end



theorem leaves_of_kids {d : NodeD} {p : Nat} {K : Kids} (h : K ≠ []) : (T.node d p K).leaves = leavesL K := by
  cases K with
  | nil => exact absurd rfl h
  | cons a b => simp [T.leaves]

theorem kid_leaves_sub {K : Kids} {i : Nat} {e : EdgeD} {c : T} (h : K[i]? = some (e, c)) :
    ∀ l ∈ c.leaves, l ∈ leavesL K := by
  obtain ⟨hk, _⟩ := list_split_at K i (e, c) h
  intro l hl
  rw [hk, leavesL_append, leavesL_cons]
  simp [hl]

theorem kid_cntOut_le {S : List String} {K : Kids} {i : Nat} {e : EdgeD} {c : T} (h : K[i]? = some (e, c)) :
    cntOut S c.leaves ≤ cntOut S (leavesL K) := by
  obtain ⟨hk, _⟩ := list_split_at K i (e, c) h
  rw [hk, leavesL_append, leavesL_cons, cntOut_append, cntOut_append]
  omega

/-- distinct kids have disjoint leaves when the leaves are distinct -/
theorem kids_disjoint : ∀ {K : Kids} {i j : Nat} {e1 e2 : EdgeD} {c1 c2 : T}, (leavesL K).Nodup →
    K[i]? = some (e1, c1) → K[j]? = some (e2, c2) → i ≠ j → ∀ l ∈ c1.leaves, l ∉ c2.leaves
  | [], _, _, _, _, _, _, _, h, _, _ => by simp at h
  | (e, c) :: K, 0, 0, _, _, _, _, _, _, _, h => absurd rfl h
  | (e, c) :: K, 0, j + 1, _, _, _, _, hn, h1, h2, _ => by
    simp at h1; obtain ⟨rfl, rfl⟩ := h1
    rw [leavesL_cons, List.nodup_append] at hn
    intro l hl hl2
    exact hn.2.2 l hl l (kid_leaves_sub (by simpa using h2) l hl2) rfl
  | (e, c) :: K, i + 1, 0, _, _, _, _, hn, h1, h2, _ => by
    simp at h2; obtain ⟨rfl, rfl⟩ := h2
    rw [leavesL_cons, List.nodup_append] at hn
    intro l hl hl2
    exact hn.2.2 l hl2 l (kid_leaves_sub (by simpa using h1) l hl) rfl
  | (e, c) :: K, i + 1, j + 1, _, _, _, _, hn, h1, h2, hij => by
    rw [leavesL_cons, List.nodup_append] at hn
    exact kids_disjoint hn.2.1 (by simpa using h1) (by simpa using h2) (by omega)

theorem kid_leaves_nodup {K : Kids} {i : Nat} {e : EdgeD} {c : T} (hn : (leavesL K).Nodup)
    (h : K[i]? = some (e, c)) : c.leaves.Nodup := by
  obtain ⟨hk, _⟩ := list_split_at K i (e, c) h
  rw [hk, leavesL_append, leavesL_cons, List.nodup_append] at hn
  exact (List.nodup_append.1 hn.2.1).1

/-- the leaves of a node reached by a path are leaves of the tree -/
theorem descend_leaves_sub : ∀ (p : List Nat) (K : Kids) (e : EdgeD) (y : T), descend K p = some (e, y) →
    ∀ l ∈ y.leaves, l ∈ leavesL K
  | [], _, _, _, h => by simp [descend] at h
  | [i], K, e, y, h => by simp only [descend] at h; exact kid_leaves_sub h
  | i :: j :: r, K, e, y, h => by
    simp only [descend] at h
    cases hk : K[i]? with
    | none => simp [hk] at h
    | some ec =>
      obtain ⟨e0, c0⟩ := ec
      simp only [hk] at h
      intro l hl
      have h1 := descend_leaves_sub (j :: r) c0.kids e y h l hl
      have hne : c0.kids ≠ [] := by
        intro h0; rw [h0] at h; cases r <;> simp [descend] at h
      obtain ⟨d0, p0, k0⟩ := c0
      simp only [T.kids_node] at hne h1
      exact kid_leaves_sub hk l (by rw [leaves_of_kids hne]; exact h1)

theorem atPath_leaves_sub {z y : T} {p : List Nat} (h : AtPath z p y) : ∀ l ∈ y.leaves, l ∈ z.leaves := by
  rcases h with ⟨_, rfl⟩ | ⟨e, hd⟩
  · exact fun l hl => hl
  · intro l hl
    have := descend_leaves_sub p z.kids e y hd l hl
    obtain ⟨d, pp, K⟩ := z
    have hne : K ≠ [] := by
      intro h0; simp only [T.kids_node, h0] at hd
      cases p with
      | nil => simp [descend] at hd
      | cons i r => cases r <;> simp [descend] at hd
    rw [leaves_of_kids hne]; exact this

theorem cntIn_eq_of_subset {S l : List String} (hS : S.Nodup) (hl : l.Nodup) (h : ∀ x ∈ S, x ∈ l) :
    cntIn S l = S.length := by
  unfold cntIn
  apply List.Perm.length_eq
  apply (List.perm_ext_iff_of_nodup (hl.filter _) hS).2
  intro x
  simp only [List.mem_filter, List.contains_eq_mem, decide_eq_true_eq]
  exact ⟨fun h' => h'.2, fun h' => ⟨h x h', h'⟩⟩

theorem cntOut_zero_of {S l : List String} (h : ∀ x ∈ l, x ∈ S) : cntOut S l = 0 := by
  unfold cntOut
  rw [List.length_eq_zero_iff, List.filter_eq_nil_iff]
  intro x hx; simp [h x hx]

theorem cntIn_pos {S l : List String} (h : 0 < cntIn S l) : ∃ x ∈ l, x ∈ S := by
  unfold cntIn at h
  obtain ⟨x, hx⟩ := List.exists_mem_of_length_pos h
  have := List.mem_filter.1 hx
  exact ⟨x, this.1, by simpa using this.2⟩

/-- **L1**: below a node all of whose leaves are outgroup tips, nothing foreign is counted -/
theorem found_pure (S : List String) (nS : Nat) (hn : 0 < nS) : ∀ (z : T) (p es : List Nat) (tp : Bool) (df : Nat),
    cntOut S z.leaves = 0 → lcaNode S nS z = .found p es tp df → df = 0 := by
  intro z
  induction z using T.induct with
  | h d pp K ih =>
    intro p es tp df h0 hf
    obtain ⟨hinv, htop⟩ := (lcaNode_sem2 S nS hn (.node d pp K)).2 p es tp df hf
    rcases hinv with rfl | ⟨j, e, c, p', rfl, hk, hc⟩
    · obtain ⟨h1, h2⟩ := htop rfl
      cases tp with
      | true => exact h1 rfl
      | false =>
        obtain ⟨_, hb, _⟩ := h2 rfl
        apply hb
        intro i _ e c hk
        simp only [T.kids_node] at hk
        have hne : K ≠ [] := by intro h; rw [h] at hk; simp at hk
        rw [leaves_of_kids hne] at h0
        have := kid_cntOut_le (S := S) hk
        omega
    · simp only [T.kids_node] at hk
      have hne : K ≠ [] := by intro h; rw [h] at hk; simp at hk
      rw [leaves_of_kids hne] at h0
      have hle := kid_cntOut_le (S := S) hk
      have hmem : (e, c) ∈ K := List.mem_of_getElem? hk
      have h00 : cntOut S c.leaves = 0 := by omega
      exact ih (e, c) hmem p' es tp df h00 hc

/- some node of the subtree (its top included) has exactly the leaf list `B` -/
mutual
def hasClade (B : List String) : T → Prop
  | .node d p k => (T.node d p k).leaves = B ∨ hasCladeL B k
def hasCladeL (B : List String) : Kids → Prop
  | [] => False
  | (_, t) :: r => hasClade B t ∨ hasCladeL B r
end

theorem hasCladeL_iff (B : List String) : ∀ (K : Kids), hasCladeL B K ↔ ∃ (j : Nat) (e : EdgeD) (c : T), K[j]? = some (e, c) ∧ hasClade B c
  | [] => by simp [hasCladeL]
  | (e, t) :: r => by
    simp only [hasCladeL, hasCladeL_iff B r]
    constructor
    · rintro (h | ⟨j, e', c, hk, hc⟩)
      · exact ⟨0, e, t, by simp, h⟩
      · exact ⟨j + 1, e', c, by simpa using hk, hc⟩
    · rintro ⟨j, e', c, hk, hc⟩
      cases j with
      | zero => simp at hk; obtain ⟨rfl, rfl⟩ := hk; exact Or.inl hc
      | succ j => exact Or.inr ⟨j, e', c, by simpa using hk, hc⟩

theorem hasClade_sub (B : List String) : ∀ (z : T), hasClade B z → ∀ l ∈ B, l ∈ z.leaves := by
  intro z
  induction z using T.induct with
  | h d pp K ih =>
    intro h l hl
    simp only [hasClade] at h
    rcases h with h | h
    · rw [h]; exact hl
    · obtain ⟨j, e, c, hk, hc⟩ := (hasCladeL_iff B K).1 h
      have hne : K ≠ [] := by intro h0; rw [h0] at hk; simp at hk
      rw [leaves_of_kids hne]
      exact kid_leaves_sub hk l (ih (e, c) (List.mem_of_getElem? hk) hc l hl)

/-- **Q**: if the outgroup is exactly the leaf set of a node of the subtree, the search counts
    no foreign tip -/
theorem found_clade (S B : List String) (hS : S.Nodup) (hne : S ≠ []) (hB : ∀ l, l ∈ B ↔ l ∈ S) :
    ∀ (z : T) (p es : List Nat) (tp : Bool) (df : Nat), z.leaves.Nodup → hasClade B z →
    lcaNode S S.length z = .found p es tp df → df = 0 := by
  have hn : 0 < S.length := List.length_pos_iff.2 hne
  intro z
  induction z using T.induct with
  | h d pp K ih =>
    intro p es tp df hnd hc hf
    simp only [hasClade] at hc
    rcases hc with hc | hc
    · exact found_pure S S.length hn _ p es tp df
        (cntOut_zero_of (by rw [hc]; exact fun x hx => (hB x).1 hx)) hf
    · obtain ⟨j, e, c, hk, hcc⟩ := (hasCladeL_iff B K).1 hc
      have hKne : K ≠ [] := by intro h0; rw [h0] at hk; simp at hk
      rw [leaves_of_kids hKne] at hnd
      have hcn : c.leaves.Nodup := kid_leaves_nodup hnd hk
      have hSc : ∀ x ∈ S, x ∈ c.leaves := fun x hx => hasClade_sub B c hcc x ((hB x).2 hx)
      have hcnt : cntIn S c.leaves = S.length := cntIn_eq_of_subset hS hcn hSc
      obtain ⟨hinv, htop⟩ := (lcaNode_sem2 S S.length hn (.node d pp K)).2 p es tp df hf
      rcases hinv with rfl | ⟨j', e', c', p', rfl, hk', hc'⟩
      · obtain ⟨h1, h2⟩ := htop rfl
        cases tp with
        | true => exact h1 rfl
        | false =>
          obtain ⟨_, _, hd⟩ := h2 rfl
          exact absurd hcnt (hd j e c hk)
      · simp only [T.kids_node] at hk'
        by_cases hjj : j' = j
        · subst hjj
          rw [hk] at hk'; cases hk'
          exact ih (e, c) (List.mem_of_getElem? hk) p' es tp df hcn hcc hc'
        · -- the ancestor would lie in another kid, which has no outgroup tip
          exfalso
          obtain ⟨y, hy, hcy, _⟩ := (lcaNode_sem S S.length hn c').2 p' es tp df hc'
          obtain ⟨x, hxy, hxS⟩ := cntIn_pos (by omega : 0 < cntIn S y.leaves)
          have hxc' : x ∈ c'.leaves := atPath_leaves_sub hy x hxy
          exact kids_disjoint hnd hk' hk hjj x hxc' (hSc x hxS)

/-- **Q2**: the outgroup is everything but one leaf hanging at the top node -/
theorem found_coleaf (S : List String) (hne : S ≠ []) (d : NodeD) (pp : Nat) (K : Kids)
    (jt : Nat) (et : EdgeD) (dt : NodeD) (pt : Nat) (hkt : K[jt]? = some (et, .node dt pt []))
    (hnd : (leavesL K).Nodup) (hS : ∀ l, l ∈ S ↔ l ∈ leavesL K ∧ l ≠ dt.name)
    (p es : List Nat) (tp : Bool) (df : Nat)
    (hf : lcaNode S S.length (.node d pp K) = .found p es tp df) : df = 0 := by
  have hn : 0 < S.length := List.length_pos_iff.2 hne
  have htl : (T.node dt pt []).leaves = [dt.name] := by simp [T.leaves]
  -- every other kid consists of outgroup tips
  have hother : ∀ i e c, K[i]? = some (e, c) → i ≠ jt → cntOut S c.leaves = 0 := by
    intro i e c hk hi
    apply cntOut_zero_of
    intro x hx
    refine (hS x).2 ⟨kid_leaves_sub hk x hx, ?_⟩
    intro hxe
    exact kids_disjoint hnd hk hkt hi x hx (by rw [htl, hxe]; simp)
  have htS : dt.name ∉ S := fun h => ((hS _).1 h).2 rfl
  obtain ⟨hinv, htop⟩ := (lcaNode_sem2 S S.length hn (.node d pp K)).2 p es tp df hf
  rcases hinv with rfl | ⟨j', e', c', p', rfl, hk', hc'⟩
  · obtain ⟨h1, h2⟩ := htop rfl
    cases tp with
    | true => exact h1 rfl
    | false =>
      obtain ⟨ha, hb, _⟩ := h2 rfl
      apply hb
      intro i hi e c hk
      simp only [T.kids_node] at hk
      refine hother i e c hk ?_
      intro hij
      subst hij
      rw [hkt] at hk; cases hk
      have := ha i hi et _ (by simpa using hkt)
      rw [htl, cntIn_single] at this
      simp [htS] at this
  · simp only [T.kids_node] at hk'
    by_cases hjj : j' = jt
    · subst hjj
      rw [hkt] at hk'; cases hk'
      simp [lcaNode, htS] at hc'
    · exact found_pure S S.length hn c' p' es tp df (hother j' e' c' hk' hjj) hc'



theorem mem_canonSide_compl {all A : List String} {m : String} (hm : minS all = some m)
    (h : m ∈ A ∧ m ∈ all) (x : String) : x ∈ canonSide all A ↔ x ∈ all ∧ x ∉ A := by
  unfold canonSide
  have hc : (sortS (A.filter all.contains)).contains m = true := by
    simpa [mem_sortS, List.mem_filter] using h
  simp only [hm, hc, if_true]
  simp only [mem_sortS, complS, List.mem_filter, List.contains_eq_mem, Bool.not_eq_true', decide_eq_false_iff_not,
    decide_eq_true_eq, not_and]
  constructor
  · rintro ⟨h1, h2⟩; exact ⟨h1, fun ha => h2 ha h1⟩
  · rintro ⟨h1, h2⟩; exact ⟨h1, fun ha _ => h2 ha⟩

theorem mem_canonSide_same {all A : List String} {m : String} (hm : minS all = some m)
    (h : ¬ (m ∈ A ∧ m ∈ all)) (x : String) : x ∈ canonSide all A ↔ x ∈ A ∧ x ∈ all := by
  unfold canonSide
  have hc : (sortS (A.filter all.contains)).contains m = false := by
    simpa [mem_sortS, List.mem_filter] using h
  simp only [hm, hc, Bool.false_eq_true, if_false]
  simp [mem_sortS, List.mem_filter]

/-- two sides with the same canonical presentation are equal or complementary (among `all`) -/
theorem canonSide_inj {all A B : List String} (h : canonSide all A = canonSide all B) :
    (∀ x ∈ all, x ∈ A ↔ x ∈ B) ∨ (∀ x ∈ all, x ∈ A ↔ x ∉ B) := by
  have key : ∀ x, x ∈ canonSide all A ↔ x ∈ canonSide all B := fun x => by rw [h]
  cases hm : minS all with
  | none =>
    have : all = [] := minS_eq_none.1 hm
    subst this; left; intro x hx; cases hx
  | some m =>
    by_cases hA : m ∈ A ∧ m ∈ all <;> by_cases hB : m ∈ B ∧ m ∈ all
    · left; intro x hx
      have := key x
      rw [mem_canonSide_compl hm hA, mem_canonSide_compl hm hB] at this
      constructor
      · intro ha; apply Classical.byContradiction; intro hb; exact (this.2 ⟨hx, hb⟩).2 ha
      · intro hb; apply Classical.byContradiction; intro ha; exact (this.1 ⟨hx, ha⟩).2 hb
    · right; intro x hx
      have := key x
      rw [mem_canonSide_compl hm hA, mem_canonSide_same hm hB] at this
      constructor
      · intro ha hb; exact (this.2 ⟨hb, hx⟩).2 ha
      · intro hb; apply Classical.byContradiction; intro ha; exact hb (this.1 ⟨hx, ha⟩).1
    · right; intro x hx
      have := key x
      rw [mem_canonSide_same hm hA, mem_canonSide_compl hm hB] at this
      constructor
      · intro ha; exact (this.1 ⟨ha, hx⟩).2
      · intro hb; exact (this.2 ⟨hx, hb⟩).1
    · left; intro x hx
      have := key x
      rw [mem_canonSide_same hm hA, mem_canonSide_same hm hB] at this
      constructor
      · intro ha; exact (this.1 ⟨ha, hx⟩).1
      · intro hb; exact (this.2 ⟨hb, hx⟩).1

/- every entry of the split list is the leaf list of a node -/
mutual
theorem splitsBelow_hasClade : ∀ (t : T), ∀ s ∈ t.splitsBelow, hasCladeL s.below t.kids
  | .node d p k => by
    simp only [T.splitsBelow, T.kids_node]
    exact splitsL_hasClade k
theorem splitsL_hasClade : ∀ (k : Kids), ∀ s ∈ splitsL k, hasCladeL s.below k
  | [] => by simp [splitsL]
  | (e, t) :: r => by
    intro s hs
    simp only [splitsL, List.mem_cons, List.mem_append] at hs
    simp only [hasCladeL]
    rcases hs with rfl | hs | hs
    · left
      obtain ⟨d, p, k⟩ := t
      simp [hasClade]
    · left
      have := splitsBelow_hasClade t s hs
      obtain ⟨d, p, k⟩ := t
      simp only [hasClade]
      exact Or.inr this
    · exact Or.inr (splitsL_hasClade r s hs)
end



/-- a leaf that is not in `S` -/
def OutLeaf (S : List String) (l : T) : Prop := l.kids = [] ∧ l.name ∉ S

mutual
theorem firstOutT_sem (S : List String) : ∀ (c : T) (p : List Nat), firstOutT S c = some p →
    (p = [] ∧ OutLeaf S c) ∨ (∃ e l, descend c.kids p = some (e, l) ∧ OutLeaf S l)
  | .node d pp [], p, h => by
    simp only [firstOutT] at h
    split at h
    · cases h
    · rename_i hc
      cases h
      exact Or.inl ⟨rfl, rfl, by simpa [T.name] using hc⟩
  | .node d pp (k :: ks), p, h => by
    simp only [firstOutT] at h
    obtain ⟨j, p', rfl, e, c, hk, hc⟩ := firstOutL_sem S (k :: ks) 0 p h
    right
    simp only [Nat.zero_add, T.kids_node]
    rcases firstOutT_sem S c p' hc with ⟨rfl, hl⟩ | ⟨e', l, hd, hl⟩
    · exact ⟨e, c, by simp [descend, hk], hl⟩
    · refine ⟨e', l, ?_, hl⟩
      cases p' with
      | nil => simp [descend] at hd
      | cons a b => simp [descend, hk, hd]
theorem firstOutL_sem (S : List String) : ∀ (k : Kids) (i : Nat) (p : List Nat), firstOutL S k i = some p →
    ∃ j p', p = (i + j) :: p' ∧ ∃ e c, k[j]? = some (e, c) ∧ firstOutT S c = some p'
  | [], _, _, h => by simp [firstOutL] at h
  | (e, t) :: r, i, p, h => by
    simp only [firstOutL] at h
    cases hc : firstOutT S t with
    | some p' =>
      simp only [hc] at h
      cases h
      exact ⟨0, p', rfl, e, t, by simp, hc⟩
    | none =>
      simp only [hc] at h
      obtain ⟨j, p', rfl, e', c, hk, hc'⟩ := firstOutL_sem S r (i + 1) p h
      exact ⟨j + 1, p', by rw [show i + 1 + j = i + (j + 1) by omega], e', c, by simpa using hk, hc'⟩
end

/-- the last step of a path -/
theorem descend_snoc : ∀ (q : List Nat) (K : Kids) (i : Nat) (e : EdgeD) (y : T), q ≠ [] →
    descend K (q ++ [i]) = some (e, y) → ∃ e' A, descend K q = some (e', A) ∧ A.kids[i]? = some (e, y)
  | [], _, _, _, _, h, _ => absurd rfl h
  | [j], K, i, e, y, _, h => by
    simp only [List.cons_append, List.nil_append, descend] at h
    cases hk : K[j]? with
    | none => simp [hk] at h
    | some ec =>
      obtain ⟨e0, c0⟩ := ec
      simp only [hk] at h
      exact ⟨e0, c0, by simp [descend, hk], h⟩
  | j :: j2 :: r, K, i, e, y, _, h => by
    simp only [List.cons_append, descend] at h
    cases hk : K[j]? with
    | none => simp [hk] at h
    | some ec =>
      obtain ⟨e0, c0⟩ := ec
      simp only [hk] at h
      obtain ⟨e', A, hd, hA⟩ := descend_snoc (j2 :: r) c0.kids i e y (by simp) (by simpa using h)
      exact ⟨e', A, by simp [descend, hk, hd], hA⟩

/-- the tree presented at the neighbour of the temporary root has that temporary root — a leaf
    that is not an outgroup tip — among the kids of its root -/
theorem tempRoot_is_kid (t1 : T) (seff : List String) (spath : List Nat)
    (h : tempRootNeighbour t1 seff = some spath) :
    ∃ (jt : Nat) (et : EdgeD) (l : T), (rerootP t1 spath none []).1.kids[jt]? = some (et, l) ∧ OutLeaf seff l := by
  unfold tempRootNeighbour at h
  split at h
  · -- the root itself is the temporary root
    rename_i hc
    cases h
    simp only [Bool.and_eq_true, beq_iff_eq, Bool.not_eq_true', List.contains_eq_mem, decide_eq_false_iff_not] at hc
    obtain ⟨h1, hn⟩ := hc
    obtain ⟨ec, hk⟩ : ∃ ec, t1.kids[0]? = some ec := by
      cases hkk : t1.kids with
      | nil => rw [hkk] at h1; simp at h1
      | cons a b => exact ⟨a, by simp⟩
    obtain ⟨e, c⟩ := ec
    rw [rerootP_cons_some t1 0 [] none [] e c (by simpa [adjIdx] using hk), rerootP_nil]
    simp only [adjIdx]
    rw [moveRoot_of_get t1 0 e c hk, T.kids_node, insertAt_min]
    refine ⟨_, e, oldRoot t1 0, (eraseIdx_insertAt c.kids _ _ (Nat.min_le_right _ _)).2, ?_, ?_⟩
    · simp only [oldRoot, T.kids_node]
      cases hkk : t1.kids with
      | nil => rw [hkk] at h1; simp at h1
      | cons a b => rw [hkk] at h1; simp at h1; simp [h1]
    · simpa [oldRoot, T.name] using hn
  · cases hf : firstOutL seff t1.kids 0 with
    | none => simp [hf] at h
    | some path =>
      simp only [hf, Option.map_some, Option.some.injEq] at h
      subst h
      obtain ⟨j, p', rfl, e, c, hk, hc⟩ := firstOutL_sem seff t1.kids 0 path hf
      simp only [Nat.zero_add]
      rcases firstOutT_sem seff c p' hc with ⟨rfl, hl⟩ | ⟨e', l, hd, hl⟩
      · -- the temporary root hangs at the root
        simp only [List.dropLast_singleton, rerootP_nil]
        exact ⟨j, e, c, hk, hl⟩
      · -- it hangs at the node reached by all but the last step
        have hp' : p' ≠ [] := by intro h0; rw [h0] at hd; simp [descend] at hd
        have hsplit : p' = p'.dropLast ++ [p'.getLast hp'] := (List.dropLast_concat_getLast hp').symm
        have hdl : (j :: p').dropLast = j :: p'.dropLast := by
          cases p' with
          | nil => exact absurd rfl hp'
          | cons a b => simp
        rw [hdl]
        have hfull : descend t1.kids ((j :: p'.dropLast) ++ [p'.getLast hp']) = some (e', l) := by
          rw [List.cons_append, ← hsplit]
          cases p' with
          | nil => exact absurd rfl hp'
          | cons a b => simp [descend, hk, hd]
        obtain ⟨e2, A, hdA, hAl⟩ := descend_snoc (j :: p'.dropLast) t1.kids _ e' l (by simp) hfull
        obtain ⟨pos, x, r1, r2, r3⟩ := rerootP_descend (j :: p'.dropLast) t1 none [] t1.kids e2 A rfl hdA
        rw [r1, T.kids_node]
        exact ⟨adjIdx (some pos) (p'.getLast hp'), e', l, by rw [getElem_insertAt_adj _ _ _ _ r3]; exact hAl, hl⟩



/-- **A side of a split is found monophyletic**: when the outgroup is one side of a split of the
    tree, the search of `RerootOutGroup` counts no foreign tip below the ancestor. -/
theorem plan_diff_zero {t : T} {S : List String} {strict : Bool} {pl : Plan}
    (hpl : outgroupPlan strict S (unroot t) = .ok pl) (hu : t.tipNames.Nodup) (hg : LensGood t.splits)
    (hs : ∀ s ∈ t.splits, GoodL s.e.sup) (hside : isSide t S = true) : pl.f.diff = 0 := by
  obtain ⟨spath, hseff, hne, htemp, hts, hlen, hfound, _, _, _⟩ := outgroupPlan_ok hpl
  have S1 := unroot_same t hu hg hs
  have hu1 : (unroot t).tipNames.Nodup := S1.tips.nodup_iff.2 hu
  obtain ⟨S2, _⟩ := rerootP_same spath (unroot t) none [] hu1 (unroot_lensGood t hg)
  rw [← hts] at S2
  have ST := S1.trans S2
  have hseff' : pl.seff = outTips t S := hseff.trans (effOutgroup_eq_outTips t S S1.tips)
  have hSn : pl.seff.Nodup := by rw [hseff']; exact nodup_eraseDups _
  -- the tree presented at the neighbour of the temporary root
  rcases hts' : pl.ts with ⟨d, pp, K⟩
  rw [hts'] at hlen hfound ST
  simp only [T.kids_node] at hlen
  have hKne : K ≠ [] := by intro h0; rw [h0] at hlen; simp at hlen
  have hall : (T.node d pp K).tipNames = leavesL K := by
    unfold T.tipNames
    have : (K.length == 1) = false := by simp; omega
    simp [this]
  have hnd : (leavesL K).Nodup := by rw [← hall]; exact ST.tips.nodup_iff.2 hu
  have hsub : ∀ x ∈ pl.seff, x ∈ leavesL K := by
    intro x hx
    rw [← hall]
    apply ST.tips.mem_iff.2
    rw [hseff'] at hx
    unfold outTips at hx
    rw [List.mem_eraseDups] at hx
    simpa using (List.mem_filter.1 hx).2
  -- the side, as an entry of the split list of that tree
  have hmem : canonSide (T.node d pp K).tipNames pl.seff ∈ (T.node d pp K).usplitsAll.map (·.side) := by
    rw [ST.sides, canonSide_perm_all ST.tips, hseff']
    unfold isSide at hside
    simp only [Bool.and_eq_true, List.contains_eq_mem, decide_eq_true_eq] at hside
    exact hside.2
  obtain ⟨s, hs1, hs2⟩ := (mem_usplitsAll_sides _ _).1 hmem
  rw [hall] at hs2
  have hcl : hasCladeL s.below K := splitsL_hasClade K s hs1
  have hclt : hasClade s.below (T.node d pp K) := by simp only [hasClade]; exact Or.inr hcl
  have hBsub : ∀ x ∈ s.below, x ∈ leavesL K := by
    intro x hx
    have := hasClade_sub s.below _ hclt x hx
    rwa [leaves_of_kids hKne] at this
  rcases canonSide_inj hs2 with heq | hco
  · -- the outgroup is the leaf set of a node
    have hB : ∀ l, l ∈ s.below ↔ l ∈ pl.seff :=
      fun l => ⟨fun h => (heq l (hBsub l h)).1 h, fun h => (heq l (hsub l h)).2 h⟩
    exact found_clade pl.seff s.below hSn hne hB _ _ _ _ _ (by rw [leaves_of_kids hKne]; exact hnd) hclt hfound
  · -- the outgroup is the complement of the leaf set of a node: that node is the temporary root
    obtain ⟨jt, et, l0, hkt, hl0k, hl0S⟩ := tempRoot_is_kid (unroot t) pl.seff spath htemp
    rw [← hts, hts', T.kids_node] at hkt
    obtain ⟨dt, pt, kt⟩ := l0
    simp only [T.kids_node] at hl0k
    subst hl0k
    simp only [T.name, T.d_node] at hl0S
    have hnameK : dt.name ∈ leavesL K := kid_leaves_sub hkt _ (by simp [T.leaves])
    have hnameB : dt.name ∈ s.below := by
      apply Classical.byContradiction
      intro hnb
      exact hl0S (Classical.byContradiction fun hns => hnb ((hco _ hnameK).2 hns))
    -- the node is the temporary root itself
    obtain ⟨j, e, c, hk, hc⟩ := (hasCladeL_iff s.below K).1 hcl
    have hjt : j = jt := by
      apply Classical.byContradiction
      intro hne'
      exact kids_disjoint hnd hk hkt hne' dt.name (hasClade_sub s.below c hc _ hnameB) (by simp [T.leaves])
    subst hjt
    rw [hkt] at hk; cases hk
    have hBeq : s.below = [dt.name] := by
      simp only [hasClade, hasCladeL, or_false] at hc
      rw [← hc]; simp [T.leaves]
    have hS' : ∀ l, l ∈ pl.seff ↔ l ∈ leavesL K ∧ l ≠ dt.name := by
      intro l
      constructor
      · intro h
        refine ⟨hsub l h, fun hl => ?_⟩
        subst hl
        exact hl0S h
      · rintro ⟨h1, h2⟩
        apply Classical.byContradiction
        intro hns
        have := (hco l h1).2 hns
        rw [hBeq] at this
        simp at this
        exact h2 this
    exact found_coleaf pl.seff hne d pp K j et dt pt hkt hnd hS' _ _ _ _ hfound



/-- **`outgroup_clade`, with the side hypothesis**: after a successful outgroup rooting (outgroup kept) the
    root has exactly two children hanging on two equal halves `halfEdge e` of one branch `e`;
    all outgroup tips are in the first of them; and that child contains nothing else when the
    search counted no foreign tip below the ancestor — which is what strict mode demands. -/
theorem outgroup_structure_side (t t' : T) (strict : Bool) (S : List String)
    (h : rerootOutGroup false strict S t = .ok t') (hu : t.tipNames.Nodup) (hg : LensGood t.splits)
    (hs : ∀ s ∈ t.splits, GoodL s.e.sup) :
    ∃ (e : EdgeD) (cA cB : T) (first : Bool),
      t'.kids = (if first then [(halfEdge e, cA), (halfEdge e, cB)] else [(halfEdge e, cB), (halfEdge e, cA)]) ∧
      (∀ x ∈ outTips t S, x ∈ cA.leaves) ∧
      (strict = true ∨ isSide t S = true → cA.leaves.Perm (outTips t S)) := by
  have hsame := outgroup_same t t' strict S h hu hg hs
  unfold rerootOutGroup rerootOutGroupWith at h
  obtain ⟨pl, hpl, h⟩ := Res.bind_ok h
  obtain ⟨ec, hec, h⟩ := Res.bind_ok h
  obtain ⟨e, c⟩ := ec
  have hk := ofOption_ok_panic hec
  simp only [Bool.false_eq_true, if_false] at h
  have hcut := ofOption_ok_panic h
  obtain ⟨spath, hseff, hne, _, hts, hlen, hfound, hstrict, htn, hre⟩ := outgroupPlan_ok hpl
  obtain ⟨cA, cB, hA, hB, hkids⟩ := cutAt_kids pl.tn t' pl.r _ _ _ e c hk hcut
  have S1 := unroot_same t hu hg hs
  have hseff' : pl.seff = outTips t S := hseff.trans (effOutgroup_eq_outTips t S S1.tips)
  have hSn : pl.seff.Nodup := by rw [hseff']; exact nodup_eraseDups _
  -- the leaves of the first child are distinct: they are tips of t'
  have hnd' : t'.tipNames.Nodup := hsame.tips.nodup_iff.2 hu
  have hAn : (aSide pl.tn pl.r).leaves.Nodup := by
    rw [← hA]
    have htips : t'.tipNames = leavesL t'.kids := by
      unfold T.tipNames
      have : t'.kids.length = 2 := by rw [hkids]; split <;> rfl
      simp [this]
    rw [htips, hkids] at hnd'
    split at hnd'
    · simp only [leavesL_cons, leavesL_nil, List.append_nil] at hnd'
      exact (List.nodup_append.1 hnd').1
    · simp only [leavesL_cons, leavesL_nil, List.append_nil] at hnd'
      exact (List.nodup_append.1 hnd').2.1
  obtain ⟨hin, hout⟩ := plan_clade hSn hne hlen hfound htn hre hAn
  refine ⟨e, cA, cB, _, hkids, ?_, ?_⟩
  · intro x hx; rw [hA]; exact hin x (hseff' ▸ hx)
  · intro hst
    have hdf : pl.f.diff = 0 := by
      rcases hst with hst | hst
      · exact hstrict hst
      · exact plan_diff_zero hpl hu hg hs hst
    rw [← hseff']
    apply (List.perm_ext_iff_of_nodup (hA ▸ hAn) hSn).2
    intro x
    rw [hA]
    exact ⟨hout hdf x, hin x⟩






/-- the split list seen from a branch of the root: the branch, what hangs on the root's side,
    what hangs below the kid -/
theorem splits_decomp (t : T) (r : Nat) (e : EdgeD) (c : T) (hk : t.kids[r]? = some (e, c)) :
    t.splits.Perm (⟨c.leaves, e, c.isLeaf⟩ :: ((oldRoot t r).splitsBelow ++ c.splitsBelow)) := by
  obtain ⟨hkk, he⟩ := list_split_at t.kids r (e, c) hk
  have h2 : (oldRoot t r).splitsBelow = splitsL (t.kids.take r) ++ splitsL (t.kids.drop (r + 1)) := by
    simp [oldRoot, T.splitsBelow_node, he, splitsL_append]
  rw [h2]
  unfold T.splits
  conv => lhs; rw [hkk]
  rw [splitsL_append, splitsL_cons]
  refine List.perm_middle.trans (List.Perm.cons _ ?_)
  simp only [List.append_assoc]
  exact List.Perm.append_left _ List.perm_append_comm

/-- **Outgroup removed**: what is left is the other side of the root branch, with the tips that
    are not in the outgroup and the distances they had. -/
theorem outgroup_remove_same (t t' : T) (strict : Bool) (S : List String)
    (h : rerootOutGroup true strict S t = .ok t') (hu : t.tipNames.Nodup) (hg : LensGood t.splits)
    (hs : ∀ s ∈ t.splits, GoodL s.e.sup) (hside : strict = true ∨ isSide t S = true) :
    t'.tipNames.Perm (t.tipNames.filter (fun x => !(outTips t S).contains x)) ∧
    ∀ a b, a ∈ t'.tipNames → b ∈ t'.tipNames → t'.dist a b = t.dist a b := by
  unfold rerootOutGroup rerootOutGroupWith at h
  obtain ⟨pl, hpl, h⟩ := Res.bind_ok h
  obtain ⟨ec, hec, h⟩ := Res.bind_ok h
  obtain ⟨e, c⟩ := ec
  have hk := ofOption_ok_panic hec
  simp only [if_true] at h
  split at h
  · cases h
  · rename_i hlen2
    cases h
    obtain ⟨spath, hseff, hne, _, hts, hlen, hfound, hstrict, htn, hre⟩ := outgroupPlan_ok hpl
    have S1 := unroot_same t hu hg hs
    have hu1 : (unroot t).tipNames.Nodup := S1.tips.nodup_iff.2 hu
    obtain ⟨S2, g2⟩ := rerootP_same spath (unroot t) none [] hu1 (unroot_lensGood t hg)
    rw [← hts] at S2 g2
    have hu2 : pl.ts.tipNames.Nodup := S2.tips.nodup_iff.2 hu1
    obtain ⟨S3, _⟩ := rerootP_same pl.f.p pl.ts none (rerootP (unroot t) spath none []).2.2 hu2 g2
    rw [← htn] at S3
    have ST := (S1.trans S2).trans S3
    have hu3 : pl.tn.tipNames.Nodup := ST.tips.nodup_iff.2 hu
    have hseff' : pl.seff = outTips t S := hseff.trans (effOutgroup_eq_outTips t S S1.tips)
    have hSn : pl.seff.Nodup := by rw [hseff']; exact nodup_eraseDups _
    -- the two sides of the root branch
    obtain ⟨q1, _⟩ := moveRoot_tipNames_split pl.tn pl.r e c hk
    have hAl : (aSide pl.tn pl.r).leaves = (oldRoot pl.tn pl.r).leaves := by simp [aSide, oldRoot, T.leaves_node]
    have hnd2 : (c.leaves ++ (oldRoot pl.tn pl.r).leaves).Nodup := q1.nodup_iff.2 hu3
    have hAn : (aSide pl.tn pl.r).leaves.Nodup := by rw [hAl]; exact (List.nodup_append.1 hnd2).2.1
    have hdf : pl.f.diff = 0 := by
      rcases hside with hst | hst
      · exact hstrict hst
      · exact plan_diff_zero hpl hu hg hs hst
    obtain ⟨hin, hout⟩ := plan_clade hSn hne hlen hfound htn hre hAn
    have hA : ∀ x, x ∈ (oldRoot pl.tn pl.r).leaves ↔ x ∈ pl.seff := by
      intro x; rw [← hAl]; exact ⟨hout hdf x, hin x⟩
    -- the tips of what is left
    have hckids : c.kids ≠ [] := by intro h0; rw [h0] at hlen2; simp at hlen2
    have hcl : c.leaves = leavesL c.kids := by
      obtain ⟨dc, pc, kc⟩ := c; exact leaves_of_kids hckids
    have htips : (T.node c.d 0 c.kids).tipNames = c.leaves := by
      unfold T.tipNames
      have : (c.kids.length == 1) = false := by simp; omega
      simp [this, hcl]
    have hdisj : ∀ x, x ∈ c.leaves → x ∉ (oldRoot pl.tn pl.r).leaves :=
      fun x h1 h2 => (List.nodup_append.1 hnd2).2.2 x h1 x h2 rfl
    constructor
    · rw [htips]
      apply (List.perm_ext_iff_of_nodup (List.nodup_append.1 hnd2).1 (hu.filter _)).2
      intro x
      simp only [List.mem_filter, Bool.not_eq_true', List.contains_eq_mem, decide_eq_false_iff_not]
      rw [← hseff']
      constructor
      · intro hx
        refine ⟨ST.tips.mem_iff.1 (q1.mem_iff.1 (List.mem_append_left _ hx)), fun hs' => ?_⟩
        exact hdisj x hx ((hA x).2 hs')
      · rintro ⟨hx, hns⟩
        have := q1.mem_iff.2 (ST.tips.mem_iff.2 hx)
        rcases List.mem_append.1 this with h' | h'
        · exact h'
        · exact absurd ((hA x).1 h') hns
    · intro a b ha hb
      rw [htips] at ha hb
      have hat : a ∈ t.tipNames := ST.tips.mem_iff.1 (q1.mem_iff.1 (List.mem_append_left _ ha))
      have hbt : b ∈ t.tipNames := ST.tips.mem_iff.1 (q1.mem_iff.1 (List.mem_append_left _ hb))
      rw [← ST.dist a b hat hbt]
      unfold T.dist
      rw [distW_perm _ (splits_decomp pl.tn pl.r e c hk), C14.distW_cons, C14.distW_append]
      have h0 : (SplitE.mk c.leaves e c.isLeaf).sep a b = false := by
        simp [SplitE.sep, ha, hb]
      have h1 : distW EdgeD.lenOr0 (oldRoot pl.tn pl.r).splitsBelow a b = 0 :=
        C14.distW_both_out _ _ a b (C14.out_of_sub _ a (hdisj a ha)) (C14.out_of_sub _ b (hdisj b hb))
      rw [h0, h1]
      have : (T.node c.d 0 c.kids).splits = c.splitsBelow := by
        obtain ⟨dc, pc, kc⟩ := c; simp [T.splits, T.splitsBelow_node]
      rw [this]
      simp only [Bool.false_eq_true, if_false]
      grind


end Gotree.C05
