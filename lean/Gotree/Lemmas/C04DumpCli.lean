/-
  C04 — `gotree stats splits` (model `statsSplits`) prints the header and one aligned digit per tip and branch
  for every tree with unique tip names.
-/
import Gotree.Lemmas.C04Dump
import Gotree.Lemmas.C04Idx
import Gotree.Lemmas.C04Hash

namespace Gotree.C04
open Gotree

/-- the dump of the record a branch must carry is the line the specification wants -/
theorem dumpBitSet_spec (H : String → UInt64) (tips below : List String) :
    dumpBitSet (some (specIdx H tips below).bits) = specDumpLine tips below := by
  unfold dumpBitSet
  rw [dumpBitSetL_eq]
  simp only [specDumpLine, specIdx]
  congr 2
  rw [← List.map_reverse, List.map_map]
  apply List.map_congr_left
  intro x _
  simp [bitChar]

theorem statsSplits_eq (id : Nat) (t : T) (hn : t.tipNames.Nodup) (hne : t.tipNames ≠ []) :
    statsSplits id t = .ok (specSplitsHeader t.tipNames ++ "\n" ++
      String.join (t.splits.map fun s => toString id ++ "\t" ++ specDumpLine t.tipNames s.below ++ "\n")) := by
  unfold statsSplits
  rw [reinitLit3_eq_reinit, reinit_eq fnv1a t hn hne]
  simp only [List.map_map]
  congr 3
  apply List.map_congr_left
  intro s _
  simp only [Function.comp]
  rw [dumpBitSet_spec]

theorem flatMap_wordChars_length (b : List Bool) (l : List Nat) : (l.flatMap (wordChars b)).length = 65 * l.length := by
  induction l with
  | nil => rfl
  | cons a r ih => simp [List.flatMap_cons, ih, wordChars]; omega

/-- the pinned `DumpBitSet` never panicked on a bitset of width >= 1 and always returned `Len + 1` characters —
    of which one per 64-bit word is a dot: `Len + 1 - words` digits. -/
theorem dumpBitSetPinnedL_total (b : List Bool) (h1 : 1 ≤ b.length) :
    ∃ s, dumpBitSetPinnedL (some b) = some s ∧ s.length = b.length + 1 := by
  have hl : (dumpAsBitsL b).length = 65 * ((b.length + 63) / 64) := by
    unfold dumpAsBitsL; rw [flatMap_wordChars_length]; simp
  have hge : b.length + 1 ≤ (dumpAsBitsL b).length := by rw [hl]; omega
  refine ⟨(dumpAsBitsL b).drop ((dumpAsBitsL b).length - b.length - 1), ?_, ?_⟩
  · simp only [dumpBitSetPinnedL]
    rw [if_neg (by omega)]
  · rw [List.length_drop]; omega

end Gotree.C04
