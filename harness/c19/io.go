package c19

// io.go — the cases that tie Model/C19IO (openWriteFile / closeWriteFile / utils.OpenFile / readTree:
// what the documented defaults "stdout" of --output and "stdin" of --input MEAN) to the binary, and
// the case that carries table (g).
//
//	C19.sentinels rows problems            rows: "site,op,literal," each followed by ";"
//	C19.io kind name path flag runs        kind: out | in;  runs: [value label, outcome] each followed by ";"
//	        out: value ∈ "" (omitted), stdout, -, out.txt        in: "" (omitted), stdin, -, = (empty text), file

import (
	"strings"

	"verifharness/core"
)

func emitSentinels(c *core.Ctx) {
	rows, problems := sentinelRows(c.Repo)
	var b strings.Builder
	for _, r := range rows {
		b.WriteString(core.StrList([]string{r.Site, r.Op, r.Lit}) + ";")
	}
	c.Emit("C19.sentinels", b.String(), core.StrList(problems))
}

type ioSet struct {
	kind, name, path string
	base             []string
	flag             string
	stdin            string // the input that goes to stdin (for kind "in": also the file given to the option in the `file` run)
}

func ioSets() []ioSet {
	return []ioSet{
		{"out", "stats", "stats", nil, "--output", "tree"},
		{"out", "consensus", "compute consensus", nil, "--output", "trees"},
		{"out", "setmin", "brlen setmin", []string{"-l", "0.11"}, "--output", "tree"},
		{"out", "annotate", "annotate", []string{"-m", "{annotmap}"}, "--output", "tree"},
		{"out", "merge", "merge", []string{"-i", "{rooted}"}, "--output", "other"},
		{"out", "reformat", "reformat newick", nil, "--output", "tree"},
		{"in", "stats", "stats", nil, "--input", "tree"},
		{"in", "consensus", "compute consensus", nil, "--input", "trees"},
		{"in", "setmin", "brlen setmin", []string{"-l", "0.11"}, "--input", "tree"},
		{"in", "divide", "divide", nil, "--input", "trees"},
		{"in", "annotate", "annotate", []string{"-m", "{annotmap}"}, "--input", "tree"},
		{"in", "annotate-compared", "annotate", []string{"-i", "{tree}"}, "--compared", "named"},
		{"in", "merge-compared", "merge", []string{"-i", "{rooted}"}, "--compared", "other"},
		{"in", "merge-reftree", "merge", []string{"-c", "{other}"}, "--reftree", "rooted"},
		{"in", "compare-trees", "compare trees", []string{"-c", "{trees}"}, "--reftree", "tree"},
	}
}

// ioCases: only == "" runs every set, otherwise the set "kind/name"
func ioCases(c *core.Ctx, r *runner, only string) {
	for _, s := range ioSets() {
		if only != "" && only != s.kind+"/"+s.name {
			continue
		}
		var b strings.Builder
		run := func(label string, extra []string, stdin string) {
			args := append(append([]string{}, s.base...), extra...)
			o := r.invoke(strings.Fields(s.path), r.subst(args), stdin)
			b.WriteString(core.StrList([]string{label, o}) + ";")
		}
		run("", nil, s.stdin)
		if s.kind == "out" {
			run("stdout", []string{s.flag + "=stdout"}, s.stdin)
			run("-", []string{s.flag, "-"}, s.stdin)
			run("out.txt", []string{s.flag + "=out.txt"}, s.stdin)
		} else {
			run("stdin", []string{s.flag + "=stdin"}, s.stdin)
			run("-", []string{s.flag, "-"}, s.stdin)
			run("=", []string{s.flag + "="}, s.stdin)
			run("file", []string{s.flag, "{" + s.stdin + "}"}, "")
		}
		c.Emit("C19.io", s.kind, s.name, core.Escape("gotree "+s.path), s.flag, b.String())
	}
}
