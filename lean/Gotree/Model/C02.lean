/-
  C02 — shared vocabulary of the reader models, and the model of what is done
  with a delivered tree: traversals (tree/tree.go: Nodes, Edges, Tips),
  `ReinitIndexes` (tree/tree.go:597: UpdateTipIndex, ClearBitSets, UpdateBitSet,
  ComputeEdgeHashes (tree/edge_hash.go:17), ComputeDepths).

  Every index expression / nil dereference of the Go code is an explicit
  `panic` result here, never defaulted away.
-/
import Gotree.Model.Core

namespace Gotree.C02
open Gotree

/-- Outcome class of a call into the code under test. -/
inductive Outcome | ok | err | panic
  deriving DecidableEq, Repr, Inhabited, BEq

def Outcome.str : Outcome → String
  | .ok => "ok" | .err => "err" | .panic => "panic"

/-- Result of a reader: a value, a reported error, or a crash. -/
inductive Res (α : Type) where
  | ok (a : α)
  | err (msg : String)
  | panic (msg : String)
  deriving Repr, Inhabited

namespace Res
def isPanic : Res α → Bool | .panic _ => true | _ => false
def isOk : Res α → Bool | .ok _ => true | _ => false
def cls : Res α → Outcome | .ok _ => .ok | .err _ => .err | .panic _ => .panic
def bind (x : Res α) (f : α → Res β) : Res β :=
  match x with
  | .ok a => f a
  | .err m => .err m
  | .panic m => .panic m
instance : Monad Res where
  pure := .ok
  bind := bind
end Res

/- ## bytes → runes, as `bufio.Reader.ReadRune` / `utf8.DecodeRune` do it:
   an invalid or truncated sequence yields U+FFFD and consumes ONE byte. -/

def inR (b lo hi : UInt8) : Bool := lo ≤ b && b ≤ hi

def rep : Char := Char.ofNat 0xFFFD

def mk2 (b0 b1 : UInt8) : Char := Char.ofNat ((b0.toNat % 32) * 64 + b1.toNat % 64)
def mk3 (b0 b1 b2 : UInt8) : Char := Char.ofNat ((b0.toNat % 16) * 4096 + (b1.toNat % 64) * 64 + b2.toNat % 64)
def mk4 (b0 b1 b2 b3 : UInt8) : Char :=
  Char.ofNat ((b0.toNat % 8) * 262144 + (b1.toNat % 64) * 4096 + (b2.toNat % 64) * 64 + b3.toNat % 64)

/-- admissible range of the second byte, by first byte (Go's `acceptRanges`) -/
def second (b0 : UInt8) : UInt8 × UInt8 :=
  if b0 == 0xE0 then (0xA0, 0xBF) else if b0 == 0xED then (0x80, 0x9F)
  else if b0 == 0xF0 then (0x90, 0xBF) else if b0 == 0xF4 then (0x80, 0x8F) else (0x80, 0xBF)

/-- One rune: the character and how many bytes AFTER the first one it consumed. -/
def decode1 (b0 : UInt8) (r1 : List UInt8) : Char × Nat :=
  if b0 < 0x80 then (Char.ofNat b0.toNat, 0)
  else if b0 < 0xC2 || b0 > 0xF4 then (rep, 0)
  else
    match r1 with
    | [] => (rep, 0)
    | b1 :: r2 =>
      if !(inR b1 (second b0).1 (second b0).2) then (rep, 0)
      else if b0 < 0xE0 then (mk2 b0 b1, 1)
      else
        match r2 with
        | [] => (rep, 0)
        | b2 :: r3 =>
          if !(inR b2 0x80 0xBF) then (rep, 0)
          else if b0 < 0xF0 then (mk3 b0 b1 b2, 2)
          else
            match r3 with
            | [] => (rep, 0)
            | b3 :: _ =>
              if !(inR b3 0x80 0xBF) then (rep, 0)
              else (mk4 b0 b1 b2 b3, 3)

/-- Total decoder over ALL byte strings. -/
def decodeLossy : List UInt8 → List Char
  | [] => []
  | b0 :: r1 => (decode1 b0 r1).1 :: decodeLossy (r1.drop (decode1 b0 r1).2)
termination_by l => l.length
decreasing_by simp [List.length_drop]; omega

/- ## traversals -/

/- `Tree.Nodes()` as a count, `nodesRecur` order. -/
mutual
def nNodes : T → Nat
  | .node _ _ k => 1 + nNodesL k
def nNodesL : Kids → Nat
  | [] => 0
  | (_, t) :: r => nNodes t + nNodesL r
end

/- `Tree.Edges()` as a count (`edgesRecur`). -/
mutual
def nEdges : T → Nat
  | .node _ _ k => nEdgesL k
def nEdgesL : Kids → Nat
  | [] => 0
  | (_, t) :: r => 1 + nEdges t + nEdgesL r
end

/-- what the harness does with a delivered tree before indexing it: all the
    traversals; the class is `err` when the counts are inconsistent -/
def walkAll (t : T) : Outcome :=
  if nEdges t + 1 == nNodes t && t.tipNames.length ≤ nNodes t then .ok else .err

/- ## ReinitIndexes -/

def hasDup : List String → Bool
  | [] => false
  | a :: r => r.contains a || hasDup r

/- `computeEdgeHashesRightRecur(cur, prev, e)`.  `root` says whether `cur` is
   the root (then `Tip()` means one child, and `e` is nil).  `pinned` selects
   the behaviour before fix 6e33baa (`if cur.Tip() {` without `&& e != nil`):
   `e.hashcoderight = …` on the nil edge of a root that is a tip. -/
mutual
def hashRight (pinned : Bool) (root : Bool) : T → Outcome
  | .node _ _ k =>
    let tip := if root then k.length == 1 else k.isEmpty
    let eNil := root
    if tip && (pinned || !eNil) then
      (if eNil then .panic else .ok)
    else hashRightL pinned k
def hashRightL (pinned : Bool) : Kids → Outcome
  | [] => .ok
  | (_, t) :: r =>
    match hashRight pinned false t with
    | .ok => hashRightL pinned r
    | o => o
end

/-- `Tree.ReinitIndexes()`. -/
def reinitWith (pinned : Bool) (t : T) : Outcome :=
  -- UpdateTipIndex: "Cannot create a tip index when several tips have the same name"
  if hasDup t.tipNames then .err
  -- ClearBitSets: "No tips in the index, tip name index is not initialized"
  else if t.tipNames.length == 0 then .err
  -- UpdateBitSet: every branch got a fresh bitset just before; tipIndexNode is only asked for tips
  -- ComputeEdgeHashes(nil, nil, nil)
  else hashRight pinned true t
  -- ComputeDepths: no index expression, no dereference of a branch

def reinit (t : T) : Outcome := reinitWith false t
def reinitPinned (t : T) : Outcome := reinitWith true t

end Gotree.C02
