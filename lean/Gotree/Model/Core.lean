/-
  Core of the hand-written model of evolbioinfo/gotree (package `tree`).

  A well-formed Go tree (a root, and for each node its ordered neighbour
  slice `neigh`/`br`) is exactly an ordered rose tree plus, for each non-root
  node, the position `ppos` its parent occupies in its own `neigh` slice.
  See DESIGN.md §3.1.  Core Lean only: this file is linked into the driver.
-/
namespace Gotree

/-- Data carried by a Go `tree.Node` (what the properties can observe). -/
structure NodeD where
  name : String
  comments : List String
  deriving DecidableEq, Repr, Inhabited, BEq, Hashable

/-- Data carried by a Go `tree.Edge`.  Absent length/support/p-value is the
    sentinel `-1`, exactly as in the code (`NIL_LENGTH` …). -/
structure EdgeD where
  len : Rat
  sup : Rat
  pval : Rat
  comments : List String
  id : Int
  deriving DecidableEq, Repr, Inhabited, BEq

/-- The Go sentinel for "absent". -/
def NIL : Rat := -1

def EdgeD.blank : EdgeD := ⟨NIL, NIL, NIL, [], -1⟩

/-- Ordered rose tree with parent position.  `kids` is `neigh` minus the
    parent, in slice order; `ppos` is the index of the parent in `neigh`
    (meaningless, and kept 0, for the root). -/
inductive T where
  | node (d : NodeD) (ppos : Nat) (kids : List (EdgeD × T))
  deriving Repr, Inhabited

abbrev Kids := List (EdgeD × T)

namespace T

def d : T → NodeD | node d _ _ => d
def ppos : T → Nat | node _ p _ => p
def kids : T → Kids | node _ _ k => k
def name (t : T) : String := t.d.name

@[simp] theorem d_node (x p k) : (node x p k).d = x := rfl
@[simp] theorem ppos_node (x p k) : (node x p k).ppos = p := rfl
@[simp] theorem kids_node (x p k) : (node x p k).kids = k := rfl

def leaf (name : String) : T := node ⟨name, []⟩ 0 []

/- Structural equality (deriving `DecidableEq` is not available for the
    nested inductive). -/
mutual
def beq : T → T → Bool
  | node d₁ p₁ k₁, node d₂ p₂ k₂ => d₁ == d₂ && p₁ == p₂ && beqL k₁ k₂
def beqL : Kids → Kids → Bool
  | [], [] => true
  | (e₁, t₁) :: r₁, (e₂, t₂) :: r₂ => e₁ == e₂ && beq t₁ t₂ && beqL r₁ r₂
  | _, _ => false
end

instance : BEq T := ⟨beq⟩

/- Number of nodes. -/
mutual
def size : T → Nat
  | node _ _ k => 1 + sizeL k
def sizeL : Kids → Nat
  | [] => 0
  | (_, t) :: r => size t + sizeL r
end

mutual
theorem induct_go {P : T → Prop}
    (h : ∀ d p (k : Kids), (∀ et ∈ k, P et.2) → P (node d p k)) : ∀ t, P t
  | node d p k => h d p k (induct_goL h k)
theorem induct_goL {P : T → Prop}
    (h : ∀ d p (k : Kids), (∀ et ∈ k, P et.2) → P (node d p k)) :
    ∀ (k : Kids), ∀ et ∈ k, P et.2
  | [], _, hm => by cases hm
  | (_, t) :: r, et, hm => by
    cases hm with
    | head => exact induct_go h t
    | tail _ hm' => exact induct_goL h r et hm'
end

/-- Custom induction principle: the property holds for a node as soon as it
    holds for every child subtree. -/
theorem induct {P : T → Prop}
    (h : ∀ d p (k : Kids), (∀ et ∈ k, P et.2) → P (node d p k)) : ∀ t, P t :=
  induct_go h

end T

/-- Go's `Node.Tip()`: exactly one neighbour.  For a non-root node that is
    "no children"; for the root it is "exactly one child". -/
def T.isLeaf (t : T) : Bool := t.kids.isEmpty

/-- A tree value together with the knowledge that it is the root. -/
def T.rootIsTip (t : T) : Bool := t.kids.length == 1

/-- Go's `Tree.Rooted()`: the root has exactly two neighbours. -/
def T.rooted (t : T) : Bool := t.kids.length == 2

/- ## Enumerations (tree.go: Nodes, Tips, Edges, TipEdges, InternalEdges) -/

/- Names of the leaves below (and including) a non-root node, in traversal
    order.  This is `tipsRecur` started *below* the root. -/
mutual
def T.leaves : T → List String
  | .node d _ [] => [d.name]
  | .node _ _ (k :: ks) => leavesL (k :: ks)
def leavesL : Kids → List String
  | [] => []
  | (_, t) :: r => t.leaves ++ leavesL r
end

/-- Go's `Tree.Tips()` names: the root counts as a tip when it has exactly one
    neighbour; a root with no neighbour is not a tip (`len(neigh)==1` fails). -/
def T.tipNames (t : T) : List String :=
  (if t.kids.length == 1 then [t.name] else []) ++ leavesL t.kids

/- All node names in `nodesRecur` order (pre-order). -/
mutual
def T.nodeNames : T → List String
  | .node d _ k => d.name :: nodeNamesL k
def nodeNamesL : Kids → List String
  | [] => []
  | (_, t) :: r => t.nodeNames ++ nodeNamesL r
end

/-- One entry per branch, in `Edges()` order (pre-order): the leaf names below
    the branch, the branch data, and whether the node below is a tip. -/
structure SplitE where
  below : List String
  e : EdgeD
  tip : Bool
  deriving Repr, BEq, DecidableEq

mutual
def T.splitsBelow : T → List SplitE
  | .node _ _ k => splitsL k
def splitsL : Kids → List SplitE
  | [] => []
  | (e, t) :: r => ⟨t.leaves, e, t.isLeaf⟩ :: (t.splitsBelow ++ splitsL r)
end

/-- The split list of a tree (DESIGN §3.1): every branch with the leaves below it. -/
def T.splits (t : T) : List SplitE := splitsL t.kids

/-- `Tree.Edges()` as data. -/
def T.edges (t : T) : List EdgeD := t.splits.map (·.e)

/-- `Tree.TipEdges()` as data (correct version: the code's is this one). -/
def T.tipEdges (t : T) : List EdgeD := (t.splits.filter (·.tip)).map (·.e)

/-- `Tree.InternalEdges()` as *specified*: the branches whose lower node is not a tip. -/
def T.internalEdges (t : T) : List EdgeD := (t.splits.filter (! ·.tip)).map (·.e)

/- ## Distances -/

/-- Length as used by path sums: an absent length counts 0 here; each metric
    that treats it otherwise says so where it is defined. -/
def EdgeD.lenOr0 (e : EdgeD) : Rat := if e.len == NIL then 0 else e.len

/-- Does the entry separate `a` from `b`: exactly one of them is below. -/
def SplitE.sep (s : SplitE) (a b : String) : Bool := (s.below.contains a) != (s.below.contains b)

/-- Sum of a weight over the entries separating `a` and `b`. -/
def distW (w : EdgeD → Rat) (l : List SplitE) (a b : String) : Rat :=
  (l.map fun s => if s.sep a b then w s.e else 0).sum

/-- Patristic distance between two *leaves* (names unique). -/
def T.dist (t : T) (a b : String) : Rat := distW EdgeD.lenOr0 t.splits a b

end Gotree
