/-
  C11 — the OUTER loop of `support.TBE` (support/tbe.go:197-277): the bootstrap trees are taken from the
  channel one after the other by the caller's goroutine itself;

    for boot := range boottrees {
        if boot.Err != nil { …; err = boot.Err; return }
        if err = boot.Tree.ReinitIndexes(); err != nil { …; return }          -- duplicate tip names
        if err = reftree.CompareTipIndexes(boot.Tree); err != nil { …; return } -- other taxa
        … one fan-out over the reference branches: `cpu` workers, `wg.Wait()` …
        nboot++
    }

  An erroneous tree makes the call return its error at once (the trees after it are not read); a good
  tree costs one run of the pool LTS of Model/C11.lean over the reference branches (`tbeItems`, per-branch
  function `tbeItemFn` = C10's `tbeEdge`), each under ITS OWN schedule `scheds k`.  `tbeSeq` is the same loop
  with the fan-out replaced by the sequential map: what one thread computes.

  Core Lean only (linked into the driver).
-/
import Gotree.Spec.C11

namespace Gotree.C11
open Gotree

/-- outcome of the outer loop: the error class of the first erroneous tree, `lost-branch` when a fan-out
    ended without delivering every branch (excluded for the extracted shape by `tbe_schedule_independent`),
    or the raw supports and `nboot` -/
def tbeOuter (shape : Shape) (ref : T) (w cap : Nat) (scheds : Nat → List (Nat × Nat)) :
    List Item → Nat → List Rat → Except String (List Rat × Nat)
  | [], k, sups => .ok (sups, k)
  | it :: rest, k, sups =>
    match it.bad ref, it with
    | some c, _ => .error c
    | none, .err => .error "item"
    | none, .tree b =>
      let fin := runToEnd shape (tbeItemFn ref b) (fun _ => false) w cap (tbeItems ref sups) (scheds k)
      if !fin.closed || fin.panicked then .error "lost-branch"
      else match tbeCollect ref.splits.length fin.out with
        | none => .error "lost-branch"
        | some sups' => tbeOuter shape ref w cap scheds rest (k + 1) sups'

/-- the same loop in one thread: every branch in turn -/
def tbeSeq (ref : T) : List Item → Nat → List Rat → Except String (List Rat × Nat)
  | [], k, sups => .ok (sups, k)
  | it :: rest, k, sups =>
    match it.bad ref, it with
    | some c, _ => .error c
    | none, .err => .error "item"
    | none, .tree b =>
      match tbeCollect ref.splits.length ((tbeItems ref sups).map (tbeItemFn ref b)) with
      | none => .error "lost-branch"
      | some sups' => tbeSeq ref rest (k + 1) sups'

/-- `TBE` as the caller sees it: the normalised supports, or the error -/
def tbeCall (shape : Shape) (ref : T) (w cap : Nat) (scheds : Nat → List (Nat × Nat)) (items : List Item) : Except String (List Rat) :=
  match tbeOuter shape ref w cap scheds items 0 (ref.splits.map fun _ => NIL) with
  | .error c => .error c
  | .ok (sups, nboot) => .ok (tbeNormalize ref nboot sups)

def tbeCallSeq (ref : T) (items : List Item) : Except String (List Rat) :=
  match tbeSeq ref items 0 (ref.splits.map fun _ => NIL) with
  | .error c => .error c
  | .ok (sups, nboot) => .ok (tbeNormalize ref nboot sups)

/-! ## The moved-taxa tallies (`--moved-taxa` / `--per-branches`; tbe.go:241-262, `UpdateTaxaMoveArrays` :346-389)

  With `computeavgtaxa` / `computeperbranchtaxa` a worker, besides the support cell of the branch it received,
  updates `sumNbClosestBranches[e.Id()]` and the row `movedperbranch[e.Id()]` (cells of ITS branch) and — under
  the mutex `mux` — the tallies shared by all the workers of the fan-out: `movedspeciestmp[tip] += 1/#minedges`
  for every species to move, `nbranchclose++`.  One message of the pool model is what one branch contributes:
  the new values of its own cells, and its summands for the shared tallies.  After `wg.Wait()` the outer loop
  folds the shared tallies into `movedspecies` (tbe.go:279-286).  The per-branch function is the body of the fold
  of `Gotree.C10.logStep` (the one-thread model of C10), branch by branch. -/

open Gotree.C10 in
/-- what one reference branch contributes for the bootstrap tree `b`:
    (new raw support, new sumNbClosestBranches cell, new movedperbranch row, summands for movedspeciestmp,
     summand for nbranchclose) -/
def tallyEdge (r b : T) (cutoff : Rat) (s : SplitE) (sup nb : Rat) (pb : List (String × Rat)) :
    Rat × Rat × List (String × Rat) × List (String × Rat) × Nat :=
  let n := ntips r
  let md := minDepth cutoff
  let p := topoDepth n s
  if p > 1 then
    if found r.tipNames (tbeIndex b) s then
      (incr sup 0, nb + 1, pb, [], if p ≥ md then 1 else 0)
    else
      let (dist, mins) := minTransferFull (lightOf n s) p n b
      let k : Rat := ((mins.length : Nat) : Rat)
      let norm : Rat := (dist : Rat) / ((p : Rat) - 1)
      let species : List String := mins.flatMap fun m => m.2.1 ++ m.2.2
      let counted := decide (norm ≤ cutoff) && decide (p ≥ md)
      let pb' := species.foldl (fun t x => addAt t x (1 / k)) pb
      (incr sup (dist : Rat), nb + k, pb', if counted then species.map (fun x => (x, 1 / k)) else [], if counted then 1 else 0)
  else (sup, nb, pb, [], 0)

abbrev TallyItem := Nat × SplitE × Rat × Rat × List (String × Rat)
abbrev TallyMsg := Nat × Rat × Rat × List (String × Rat) × List (String × Rat) × Nat

def tallyItemFn (r b : T) (cutoff : Rat) (x : TallyItem) : TallyMsg :=
  (x.1, tallyEdge r b cutoff x.2.1 x.2.2.1 x.2.2.2.1 x.2.2.2.2)

def tallyItems (r : T) (acc : Gotree.C10.Acc) : List TallyItem :=
  (List.range r.splits.length).zip (r.splits.zip (acc.sups.zip (acc.sumNb.zip acc.perBranch)))

/-- total weight the messages add to the tally cell of tip `x` (the additions happen under the mutex in the
    order of arrival; over the rationals the order does not matter, over float64 it may change the last bit) -/
def tmpTotal (out : List TallyMsg) (x : String) : Rat :=
  (out.map fun m => ((m.2.2.2.2.1.filter (·.1 == x)).map (·.2)).sum).sum

def closeTotal (out : List TallyMsg) : Nat := (out.map fun m => m.2.2.2.2.2).sum

/-- the accumulators after one fan-out, from what the workers delivered (none if a branch is missing) -/
def tallyCollect (r : T) (acc : Gotree.C10.Acc) (out : List TallyMsg) : Option Gotree.C10.Acc :=
  match (List.range r.splits.length).mapM fun i => (out.find? (·.1 == i)).map (·.2) with
  | none => none
  | some cells =>
    let close := closeTotal out
    let moved := if close > 0 then acc.moved.map fun (x, w) => (x, w + tmpTotal out x / ((close : Nat) : Rat)) else acc.moved
    some ⟨cells.map (·.1), cells.map (·.2.1), moved, cells.map (·.2.2.1)⟩

/-- the outer loop with the tallies, on a stream of good trees: one pool run per tree -/
def tallyOuter (shape : Shape) (ref : T) (cutoff : Rat) (w cap : Nat) (scheds : Nat → List (Nat × Nat)) :
    List T → Nat → Gotree.C10.Acc → Option Gotree.C10.Acc
  | [], _, acc => some acc
  | b :: rest, k, acc =>
    let fin := runToEnd shape (tallyItemFn ref b cutoff) (fun _ => false) w cap (tallyItems ref acc) (scheds k)
    match tallyCollect ref acc fin.out with
    | none => none
    | some acc' => tallyOuter shape ref cutoff w cap scheds rest (k + 1) acc'

def tallySeq (ref : T) (cutoff : Rat) : List T → Gotree.C10.Acc → Option Gotree.C10.Acc
  | [], acc => some acc
  | b :: rest, acc =>
    match tallyCollect ref acc ((tallyItems ref acc).map (tallyItemFn ref b cutoff)) with
    | none => none
    | some acc' => tallySeq ref cutoff rest acc'

def tallyAcc0 (r : T) : Gotree.C10.Acc :=
  let zero : List (String × Rat) := r.tipNames.map fun x => (x, 0)
  ⟨r.splits.map fun _ => NIL, r.splits.map fun _ => 0, zero, r.splits.map fun _ => zero⟩

/-- the `Taxon tIndex` table of the log: `movedspecies[tip] * 100 / nboot` -/
def taxaTable (acc : Gotree.C10.Acc) (nboot : Nat) : List (String × Rat) :=
  acc.moved.map fun (x, w) => (x, w * 100 / ((nboot : Nat) : Rat))

end Gotree.C11
