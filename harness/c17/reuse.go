package c17

// History "enumerate -> edit -> enumerate with the SAME NNIRearranger value" (op C17.reuse, seeded
// change C17-7): the first full enumeration runs on the tree as built; then the same in-memory tree
// is edited by an operation that changes its set of branches (a tip grafted on a branch, a tip
// removed, the tree unrooted); then the SAME rearranger enumerates again (Apply / look / Undo / look
// in the callback: these records go to the usual count / neighbour / restoration oracle, with the
// tree after the edit as the input), and a fresh rearranger counts its proposals for comparison.

import (
	"fmt"
	"strconv"
	"strings"

	"verifharness/core"

	"github.com/evolbioinfo/gotree/tree"
)

// enumWith: one full enumeration of t with rearranger r, in plain mode.
func enumWith(t *tree.Tree, r *tree.NNIRearranger, before, text0 string) (recs string, calls int, runOut string) {
	same := func(s, ref string) string {
		if s == ref {
			return "="
		}
		return s
	}
	var b strings.Builder
	runOut = outcome(func() error {
		r.Rearrange(t, func(re tree.Rearrangement) bool {
			calls++
			a := outcome(re.Apply)
			wf1, d1, t1 := look(t)
			u := outcome(re.Undo)
			wf2, d2, t2 := look(t)
			fmt.Fprintf(&b, "%s;%s;%s;%s;%s;%s;%s;%s|", a, wf1, d1, t1, u, wf2, same(d2, before), same(t2, text0))
			return true
		})
		return nil
	})
	return b.String(), calls, runOut
}

// doReuse: edit = "graft" | "remove" | "unroot"; the place of the edit is drawn from the seed.
func doReuse(c *core.Ctx, edit string, seed int64, n *core.N) {
	t, err := core.Build(n)
	if err != nil {
		panic(err)
	}
	g := core.NewG(seed)
	before1 := n.Dump()
	_, _, text1 := look(t)
	r := &tree.NNIRearranger{}
	_, calls1, out1 := enumWith(t, r, before1, text1)
	first := out1
	if first == "ok" {
		if _, d, _ := look(t); d != before1 {
			first = "tree changed by the first enumeration"
		}
	}
	// the edit, on the same in-memory tree
	editOut := outcome(func() error {
		switch edit {
		case "graft":
			es := t.Edges()
			e := es[g.Intn(len(es))]
			h := t.NewNode()
			h.SetName("zz9")
			if _, _, _, err := t.GraftTipOnEdge(h, e); err != nil {
				return err
			}
		case "remove":
			tips := t.Tips()
			if len(tips) < 5 {
				return fmt.Errorf("too few tips")
			}
			var cand []string
			for _, x := range tips {
				if x != t.Root() {
					cand = append(cand, x.Name())
				}
			}
			if err := t.RemoveTips(false, cand[g.Intn(len(cand))]); err != nil {
				return err
			}
		case "unroot":
			if !t.Rooted() {
				return fmt.Errorf("not rooted")
			}
			t.UnRoot()
		default:
			return fmt.Errorf("unknown edit")
		}
		return t.ReinitIndexes()
	})
	wfE, before2, text2 := look(t)
	if editOut != "ok" || wfE != "ok" {
		if editOut == "ok" {
			editOut = "malformed:" + wfE
		}
		c.Emit("C17.reuse", edit, strconv.FormatInt(seed, 10), before1, first, strconv.Itoa(calls1), editOut, "", "", "", "0", "", "", "", "0")
		return
	}
	recs, calls2, out2 := enumWith(t, r, before2, text2)
	wfF, dF, tF := look(t)
	if out2 != "ok" {
		wfF = core.Escape("Rearrange " + out2)
	}
	same := func(s, ref string) string {
		if s == ref {
			return "="
		}
		return s
	}
	// a fresh rearranger on the same tree, for comparison (only when the tree is still usable)
	fresh := -1
	if out2 == "ok" && wfF == "ok" {
		k := 0
		if outcome(func() error {
			(&tree.NNIRearranger{}).Rearrange(t, func(re tree.Rearrangement) bool { k++; return true })
			return nil
		}) == "ok" {
			fresh = k
		}
	}
	c.Emit("C17.reuse", edit, strconv.FormatInt(seed, 10), before1, first, strconv.Itoa(calls1), editOut,
		before2, text2, recs, strconv.Itoa(calls2), wfF, same(dF, before2), same(tF, text2), strconv.Itoa(fresh))
}
