/-
  C05 — executable model of the root moves and reorderings of package `tree`:

    tree/tree.go   Reroot / reroot_nocheck / ReorderEdges (:783–:846), UnRoot (:1460),
                   RotateInternalNodes (:1043), SortNeighborsByTips / sortNeighbors (:1052)
    tree/node.go   RotateNeighbors (:222)
    tree/algo.go   LeastCommonAncestorUnrooted (:35), LeastCommonAncestorRecur (:122),
                   RerootOutGroup (:454), RerootMidPoint (:551), MaxLengthPath (:637)

  The model is exact in child order and parent positions (`ppos`), so that the α dump
  after an operation can be compared literally (fidelity figure); what decides is the
  observation `obs_C05` (Driver/C05.lean).  Core Lean only.

  Edge orientation (`left`/`right`) is implicit in the rose tree: `ReorderEdges`
  recomputes all of it from the root, so a tree value *is* a correctly oriented heap.
  The two places where the code reads `Left()/Right()` of a branch *before* the
  re-orientation (RerootOutGroup: order of the two children of the new root;
  RerootMidPoint: which end of the cut branch is `node1`) are modelled by tracking
  where the root of the moment lies (`back` path of `rerootP`).
-/
import Gotree.Model.Core

namespace Gotree.C05
open Gotree

/-- outcome of an operation that can fail -/
inductive Res (α : Type) where
  | ok (v : α)
  | err (msg : String)
  | panic (msg : String)
  deriving Repr

def Res.cls {α : Type} : Res α → String
  | .ok _ => "ok" | .err _ => "err" | .panic _ => "panic"

/-- `l[:i] ++ [x] ++ l[i:]` (append when `i` is past the end) -/
def insertAt {α : Type} (l : List α) (i : Nat) (x : α) : List α := l.take i ++ x :: l.drop i

/-! ## Reroot -/

/-- One-edge root move: child `i` of the root becomes the root; the old root becomes
    its child at the position the parent occupied in its `neigh` slice (`ppos`);
    the old root remembers that its parent now sits at index `i`.  No neighbour
    order changes — exactly what `t.root = n; ReorderEdges` does one step away. -/
def moveRoot : T → Nat → T
  | .node d p kids, i =>
    match kids[i]? with
    | none => .node d p kids
    | some (e, .node dc pc kc) => .node dc 0 (insertAt kc pc (e, .node d i (kids.eraseIdx i)))

/-- raw child index of a node (index among its `kids`) ↦ index among the kids of the
    same node once it is the root and its former parent has been inserted at `pc` -/
def adjIdx (adj : Option Nat) (i : Nat) : Nat :=
  match adj with
  | none => i
  | some pc => if i < pc then i else i + 1

/-- how the path from the root of the moment back to a fixed node changes under one move
    to child `i'` (the old root ends at position `pos` of the new root) -/
def backStep (back : List Nat) (i' pos : Nat) : List Nat :=
  match back with
  | [] => [pos]
  | b :: bs =>
    if b == i' then
      (match bs with
       | [] => []
       | b2 :: r => (if b2 < pos then b2 else b2 + 1) :: r)
    else pos :: (if b < i' then b else b - 1) :: bs

/-- Fold of `moveRoot` along a child-index path given in the coordinates of the input
    tree (`Reroot(n)`, n addressed by its path).  Returns the re-rooted tree, the
    threshold converting a raw child index of the target node into an index of the
    new root's kids (`adjIdx`), and the path from the new root back to the node
    designated by `back` in the input tree (`[]` = the input's root). -/
def rerootP : T → List Nat → Option Nat → List Nat → T × Option Nat × List Nat
  | t, [], adj, back => (t, adj, back)
  | t, i :: rest, adj, back =>
    let i' := adjIdx adj i
    match t.kids[i']? with
    | none => (t, adj, back)
    | some (_, c) =>
      let pos := min c.ppos c.kids.length
      rerootP (moveRoot t i') rest (some pos) (backStep back i' pos)

def nodeAt : T → List Nat → Option T
  | t, [] => some t
  | t, i :: r =>
    match t.kids[i]? with
    | none => none
    | some (_, c) => nodeAt c r

/-- `Tree.Reroot(n)`: refuses a node with fewer than two neighbours. -/
def reroot (t : T) (path : List Nat) : Res T :=
  match nodeAt t path with
  | none => .err "notintree"
  | some n =>
    if (if path.isEmpty then n.kids.length else n.kids.length + 1) < 2 then .err "tip"
    else .ok (rerootP t path none []).1

/-! ## UnRoot -/

/-- Go's `math.Max` on finite values -/
def rmax (a b : Rat) : Rat := if a ≥ b then a else b

/-- length of the fused branch: `max(0,l1)+max(0,l2)` unless both are absent -/
def unrootLen (e1 e2 : EdgeD) : Rat :=
  if e1.len != NIL || e2.len != NIL then rmax 0 e1.len + rmax 0 e2.len else NIL

/-- support of the fused branch: only when neither end is a tip and one is present -/
def unrootSup (n1tip n2tip : Bool) (e1 e2 : EdgeD) : Rat :=
  if !n1tip && !n2tip && (e1.sup != NIL || e2.sup != NIL) then rmax (rmax 0 e1.sup) (rmax 0 e2.sup) else NIL

/-- `Tree.UnRoot()`: nothing unless the root has exactly two neighbours; otherwise the
    root is deleted, its two neighbours are joined by a *new* branch (appended to both
    `neigh` slices; comments, p-value and id of the old branches are lost), and the
    new root is the first neighbour unless it is a tip. -/
def unroot : T → T
  | .node _ _ [(e1, .node d1 _ k1), (e2, .node d2 _ k2)] =>
    let n1tip := k1.isEmpty
    let n2tip := k2.isEmpty
    let e3 : EdgeD := { EdgeD.blank with len := unrootLen e1 e2, sup := unrootSup n1tip n2tip e1 e2 }
    if n1tip then .node d2 0 (k2 ++ [(e3, .node d1 0 k1)])
    else .node d1 0 (k1 ++ [(e3, .node d2 k2.length k2)])
  | t => t

/-! ## Cutting a branch by a new root (shared by outgroup and midpoint rooting) -/

/-- The tree is presented rooted at `A`; its kid `r` is `B`.  The branch A–B is deleted
    (`delNeighbor` on both sides) and a new unnamed node is connected to both ends
    (`ConnectNodes` appends: the new root is the *last* neighbour of A and of B).
    `aFirst` says whether A is connected first. -/
def cutAt (t : T) (r : Nat) (ea eb : EdgeD) (aFirst : Bool) : Option T :=
  match t with
  | .node d _ kids =>
    match kids[r]? with
    | none => none
    | some (_, .node db _ kb) =>
      let a : T := .node d (kids.length - 1) (kids.eraseIdx r)
      let b : T := .node db kb.length kb
      some (.node ⟨"", []⟩ 0 (if aFirst then [(ea, a), (eb, b)] else [(eb, b), (ea, a)]))

/-! ## LeastCommonAncestorUnrooted / Recur -/

/-- result of `LeastCommonAncestorRecur`: found (path to the ancestor from the node the
    recursion was started at, the kid indices whose branches are returned, whether the
    ancestor is itself an outgroup tip — then the returned branch is the one to its
    parent —, number of foreign tips inside) or not yet (common, different). -/
inductive LR where
  | found (path : List Nat) (edges : List Nat) (tip : Bool) (diff : Nat)
  | nf (common diff : Nat)
  deriving Repr

mutual
def lcaNode (S : List String) (nS : Nat) : T → LR
  | .node d _ [] =>
    if S.contains d.name then (if 1 == nS then .found [] [] true 0 else .nf 1 0) else .nf 0 1
  | .node _ _ (k :: ks) => lcaKids S nS (k :: ks) 0 0 [] 0 0
def lcaKids (S : List String) (nS : Nat) : Kids → Nat → Nat → List Nat → Nat → Nat → LR
  | [], _, common, edges, different, tmpdiff =>
    if common == nS then .found [] edges false different else .nf common (different + tmpdiff)
  | (_, t) :: r, idx, common, edges, different, tmpdiff =>
    match lcaNode S nS t with
    | .found p es tp df => .found (idx :: p) es tp df
    | .nf com diff =>
      if com > 0 then lcaKids S nS r (idx + 1) (common + com) (edges ++ [idx]) (different + diff) tmpdiff
      else lcaKids S nS r (idx + 1) common edges different (tmpdiff + diff)
end

/- path to the first leaf (pre-order, as `Tips()`) whose name is not in `S` -/
mutual
def firstOutT (S : List String) : T → Option (List Nat)
  | .node d _ [] => if S.contains d.name then none else some []
  | .node _ _ (k :: ks) => firstOutL S (k :: ks) 0
def firstOutL (S : List String) : Kids → Nat → Option (List Nat)
  | [], _ => none
  | (_, t) :: r, i =>
    match firstOutT S t with
    | some p => some (i :: p)
    | none => firstOutL S r (i + 1)
end

/-- the names of `S` that are tips of the tree, without repetition (`tipindex`) -/
def effOutgroup (t1 : T) (S : List String) : List String :=
  (S.filter t1.tipNames.contains).eraseDups

/-- path (from the root) of the only neighbour of the temporary root = first tip, in
    `Tips()` order, that is not in the outgroup -/
def tempRootNeighbour (t1 : T) (seff : List String) : Option (List Nat) :=
  if t1.kids.length == 1 && !seff.contains t1.name then some [0]
  else (firstOutL seff t1.kids 0).map List.dropLast

/-- which branch of the ancestor (presented as root `tn`) receives the root: the only
    one when the ancestor is a tip; otherwise the first one that is not among the
    returned ones, provided exactly one is not. -/
def rootEdgeIdx (tn : T) (es : List Nat) : Res Nat :=
  if tn.kids.length == 1 then .ok 0
  else if tn.kids.length - es.length != 1 then .err "multifurcated"
  else match (List.range tn.kids.length).find? (fun i => !es.contains i) with
    | some r => .ok r
    | none => .panic "nil rootedge"

/-- the two branches created by `RerootOutGroup` (since 7c83b91: an absent length stays
    absent, any other is halved; the support is copied to both) -/
def halfEdge (e : EdgeD) : EdgeD :=
  { EdgeD.blank with len := if e.len != NIL then e.len / 2 else NIL, sup := e.sup }

/-- the pinned behaviour (before 7c83b91, defect F11): `if length > 0 { … }` guarded the
    lengths *and* the supports -/
def halfEdgePinned (e : EdgeD) : EdgeD :=
  if e.len > 0 then { EdgeD.blank with len := e.len / 2, sup := e.sup } else EdgeD.blank

def Res.bind {α β : Type} (r : Res α) (f : α → Res β) : Res β :=
  match r with
  | .ok v => f v
  | .err m => .err m
  | .panic m => .panic m

/-- continue only if `c` holds -/
def check (c : Bool) (bad : Res Unit) : Res Unit := if c then .ok () else bad

def ofOption {α : Type} (o : Option α) (bad : Res α) : Res α :=
  match o with
  | some v => .ok v
  | none => bad

/-- a successful `LeastCommonAncestorRecur` -/
structure Found where
  p : List Nat
  es : List Nat
  tip : Bool
  diff : Nat

def lcaRes (seff : List String) (ts : T) : Res Found :=
  match lcaNode seff seff.length ts with
  | .nf _ _ => .err "no common ancestor"   -- since 16b4243 (`if n == nil { return error }`)
  | .found p es tp diff => .ok ⟨p, es, tp, diff⟩

/-- everything `RerootOutGroup` decides before it touches the root branch -/
structure Plan where
  seff : List String      -- the outgroup tips actually used
  ts : T                  -- the unrooted tree presented at the neighbour of the temporary root
  f : Found               -- the ancestor found from there
  tn : T                  -- the unrooted tree presented at the ancestor
  adj : Option Nat
  back : List Nat         -- where the root of the unrooted tree lies, seen from `tn`
  r : Nat                 -- index, among the kids of `tn`, of the branch that receives the root

def outgroupPlan (strict : Bool) (S : List String) (t1 : T) : Res Plan :=
  let names := t1.nodeNames.filter (· != "")
  (check (names.eraseDups.length == names.length) (.err "dupnames")).bind fun _ =>
  let seff := effOutgroup t1 S
  (check (!seff.isEmpty) (.err "none")).bind fun _ =>
  (ofOption (tempRootNeighbour t1 seff) (.err "all")).bind fun spath =>
  let a := rerootP t1 spath none []
  -- a tree of two nodes: `LeastCommonAncestorRecur` fails on `NodeIndex(nil)` and returns
  -- (nil, nil, -1, -1): "not monophyletic" — refused in strict mode, `len(n.br)` on a nil node otherwise
  -- (since 16b4243 the nil node is reported as an error in non-strict mode too; before, `len(n.br)` panicked)
  (check (decide (1 < a.1.kids.length)) (if strict then .err "notmono" else .err "no common ancestor")).bind fun _ =>
  (lcaRes seff a.1).bind fun f =>
  (check (!(f.diff != 0 && strict)) (.err "notmono")).bind fun _ =>
  let b := rerootP a.1 f.p none a.2.2
  (rootEdgeIdx b.1 (f.es.map (adjIdx b.2.1))).bind fun r =>
  .ok ⟨seff, a.1, f, b.1, b.2.1, b.2.2, r⟩

/-- `Tree.RerootOutGroup(removeoutgroup, strict, tips...)`, parameterised by the rule
    that makes the two half branches. -/
def rerootOutGroupWith (half : EdgeD → EdgeD) (remove strict : Bool) (S : List String) (t : T) : Res T :=
  (outgroupPlan strict S (unroot t)).bind fun pl =>
  (ofOption pl.tn.kids[pl.r]? (.panic "rootedge")).bind fun ec =>
  if remove then
    if ec.2.kids.length < 2 then .err "roottip" else .ok (.node ec.2.d 0 ec.2.kids)
  else
    -- lnode = rootedge.Left() is the end nearer to the root of the moment
    let cIsLeft := pl.back.head? == some pl.r
    ofOption (cutAt pl.tn pl.r (half ec.1) (half ec.1) (!cIsLeft)) (.panic "rootedge")

def rerootOutGroup := rerootOutGroupWith halfEdge
def rerootOutGroupPinned := rerootOutGroupWith halfEdgePinned

/-! ## MaxLengthPath / RerootMidPoint -/

/- `MaxLengthPath(cur, prev)` on the tree presented with `cur` at the root: the child
   path (top-down) to the far end and the length; a later child wins only if strictly
   longer, a total of 0 never wins (`curlength` starts at 0). -/
mutual
def mlp : T → List Nat × Rat
  | .node _ _ kids => mlpL kids 0 [] 0
def mlpL : Kids → Nat → List Nat → Rat → List Nat × Rat
  | [], _, best, cur => (best, cur)
  | (e, t) :: r, i, best, cur =>
    let pl := mlp t
    if pl.2 + e.len > cur then mlpL r (i + 1) (i :: pl.1) (pl.2 + e.len) else mlpL r (i + 1) best cur
end

/- paths of the leaves in pre-order -/
mutual
def leafPathsT : T → List (List Nat)
  | .node _ _ [] => [[]]
  | .node _ _ (k :: ks) => leafPathsL (k :: ks) 0
def leafPathsL : Kids → Nat → List (List Nat)
  | [], _ => []
  | (_, t) :: r, i => (leafPathsT t).map (i :: ·) ++ leafPathsL r (i + 1)
end

/-- paths of `Tips()`: the root first when it is a tip -/
def tipPaths (t : T) : List (List Nat) :=
  (if t.kids.length == 1 then [[]] else []) ++ leafPathsL t.kids 0

/-- branch data met along a child path, top-down -/
def edgesAlong : T → List Nat → List EdgeD
  | _, [] => []
  | t, i :: r =>
    match t.kids[i]? with
    | none => []
    | some (e, c) => e :: edgesAlong c r

/-- candidate of one start tip: the tree presented at that tip, where the root of the
    unrooted tree lies, the far-end path and the length -/
structure Cand where
  tT : T
  back : List Nat
  c : List Nat
  len : Rat

/-- the loop over the tips: a later tip wins only with a strictly longer path; `none`
    when no path is positive (`potentialedges == nil`) -/
def bestCand (t1 : T) : List (List Nat) → Option Cand → Rat → Option Cand
  | [], best, _ => best
  | p :: ps, best, cur =>
    let (tT, _, back) := rerootP t1 p none []
    let (c, l) := mlp tT
    if l > cur then bestCand t1 ps (some ⟨tT, back, c, l⟩) l else bestCand t1 ps best cur

/-- `for len < curlength/2 { …; len += potentialedges[i].Length(); i++ }` over the branches
    from the far end: `(i, len)` at exit, `none` = index out of range -/
def walkHalf (half : Rat) : List EdgeD → Rat → Nat → Option (Nat × Rat)
  | [], len, i => if len < half then none else some (i, len)
  | e :: r, len, i => if len < half then walkHalf half r (len + e.len) (i + 1) else some (i, len)

/-- Does the walk of `RerootMidPoint` start from the wrong end of the first branch?
    `node1 = potentialedges[0].Right()` is the far end of the path only if the root of
    the moment is not at/behind that far end; otherwise (`stale`) node1/node2 are swapped
    and never updated again.  Needs a path that stops at an inner node, i.e. zero-length
    branches (`MaxLengthPath` never extends a path by a remainder of length 0). -/
def Cand.stale (cand : Cand) : Bool := cand.c.isPrefixOf cand.back

/-- the rest of `RerootMidPoint` once the path is chosen.  `farEndFixed` = the far end of
    the path is determined by walking the path back from the start tip (repair of the
    defect `MidpointZeroLengthFarEnd`); without it the code's `i == 0` rule is modelled. -/
def midpointCut (farEndFixed : Bool) (cand : Cand) : Res T :=
  let k := cand.c.length
  let ls := (edgesAlong cand.tT cand.c).reverse      -- potentialedges: from the far end
  let half := cand.len / 2
  match walkHalf half ls 0 0 with
  | none => .panic "index out of range"
  | some (i, len) =>
    match ls[i - 1]? with
    | none => .panic "index out of range [-1]"
    | some em =>
      let cut := len - half
      let stale := !farEndFixed && cand.stale
      let jcut := if stale then 0 else i - 1
      let (tA, adj, _) := rerootP cand.tT (cand.c.take (k - 1 - jcut)) none cand.back
      let bidx := adjIdx adj (cand.c.getD (k - 1 - jcut) 0)
      let e1 : EdgeD := { EdgeD.blank with len := em.len - cut, sup := em.sup }   -- to node1
      let e2 : EdgeD := { EdgeD.blank with len := cut, sup := em.sup }            -- to node2
      -- tA is rooted at the shallower end A of the cut branch, B = its kid `bidx`
      match (if stale then cutAt tA bidx e1 e2 true else cutAt tA bidx e2 e1 false) with
      | some u => .ok u
      | none => .panic "cut"

/-- the path `RerootMidPoint` chooses (`none`: an absent length, or no positive path) -/
def midpointCand (t : T) : Option Cand :=
  let t1 := unroot t
  let tips := tipPaths t1
  if !tips.isEmpty && t1.edges.any (·.len == NIL) then none else bestCand t1 tips none 0

/-- `Tree.RerootMidPoint()`, parameterised by the two repairs: `nullCheck` (87d290a, F10:
    an error when no path is positive; before it `potentialedges` was nil, the loop did not
    run and `potentialedges[i-1]` was `potentialedges[-1]`) and `farEndFixed`. -/
def rerootMidPointWith (nullCheck farEndFixed : Bool) (t : T) : Res T :=
  let t1 := unroot t
  let tips := tipPaths t1
  if !tips.isEmpty && t1.edges.any (·.len == NIL) then .err "nolength" else
  match bestCand t1 tips none 0 with
  | none => if nullCheck then .err "nullpaths" else .panic "index out of range [-1]"
  | some cand => midpointCut farEndFixed cand

/-- /repo contains the repair of `MidpointZeroLengthFarEnd` since commit 23d32a8 (the far end
    of the path is found by walking the path back from the start tip). -/
def midpointFarEndFixedInRepo : Bool := true

/-- `Tree.RerootMidPoint()` as it is in /repo now -/
def rerootMidPoint (t : T) : Res T := rerootMidPointWith true midpointFarEndFixedInRepo t

/-- the pinned behaviour (before 87d290a, defect F10) -/
def rerootMidPointPinned (t : T) : Res T := rerootMidPointWith false false t

/-- the behaviour before 23d32a8 (defect `MidpointZeroLengthFarEnd`): `node1` taken as
    `potentialedges[0].Right()` -/
def rerootMidPointFarEndPinned (t : T) : Res T := rerootMidPointWith true false t

/-- the region of the defect `MidpointZeroLengthFarEnd`: the chosen path is walked from
    the wrong end -/
def midpointStale (t : T) : Bool :=
  match midpointCand t with
  | some cand => cand.stale
  | none => false

/-! ## RotateInternalNodes / RotateNeighbors -/

def swapAt {α : Type} (l : List α) (i j : Nat) : List α :=
  match l[i]?, l[j]? with
  | some a, some b => (l.set i b).set j a
  | _, _ => l

/-- `for i := range neigh { j := rand.Intn(i+1); swap(i,j) }` with the draws given -/
def shuf {α : Type} : Nat → Nat → List α → List Nat → List α
  | 0, _, l, _ => l
  | _ + 1, _, l, [] => l
  | s + 1, i, l, j :: ds => shuf s (i + 1) (swapAt l i j) ds

/- `for _, n := range t.Nodes() { n.RotateNeighbors() }`: the node list is taken before
   anything moves (pre-order of the input); each node consumes one draw per neighbour. -/
mutual
def rot (isRoot : Bool) : T → List Nat → T × List Nat
  | .node d p kids, draws =>
    let m := kids.length + (if isRoot then 0 else 1)
    let mine := draws.take m
    let kr := rotL kids (draws.drop m)
    let neigh : List (Option (EdgeD × T)) :=
      if isRoot then kr.1.map some else insertAt (kr.1.map some) p none
    let neigh' := shuf m 0 neigh mine
    (.node d (if isRoot then 0 else neigh'.findIdx (·.isNone)) (neigh'.filterMap id), kr.2)
def rotL : Kids → List Nat → Kids × List Nat
  | [], ds => ([], ds)
  | (e, t) :: r, ds =>
    let a := rot false t ds
    let b := rotL r a.2
    ((e, a.1) :: b.1, b.2)
end

def rotate (t : T) (draws : List Nat) : T := (rot true t draws).1

/- number of draws `rotate` consumes, with their bounds (`Intn(i+1)`), in order -/
mutual
def drawBounds (isRoot : Bool) : T → List Nat
  | .node _ _ kids =>
    (List.range (kids.length + (if isRoot then 0 else 1))).map (· + 1) ++ drawBoundsL kids
def drawBoundsL : Kids → List Nat
  | [] => []
  | (_, t) :: r => drawBounds false t ++ drawBoundsL r
end

/-! ## SortNeighborsByTips -/

def cnt (x : EdgeD × T) : Nat := x.2.leaves.length

/-- insertion after the entries that are not larger (stable) -/
def insSorted (x : EdgeD × T) : Kids → Kids
  | [] => [x]
  | y :: r => if cnt x < cnt y then x :: y :: r else y :: insSorted x r

def insSort (k : Kids) : Kids := k.foldl (fun acc x => insSorted x acc) []

/- `sortNeighbors`: children first (recursively), then a stable sort of the neighbour
   slice by number of tips, the parent counting 0 — so the parent comes first
   (`ppos = 0`) and the children follow by increasing size. -/
mutual
def sortT : T → T
  | .node d _ kids => .node d 0 (insSort (sortL kids))
def sortL : Kids → Kids
  | [] => []
  | (e, t) :: r => (e, sortT t) :: sortL r
end

end Gotree.C05
