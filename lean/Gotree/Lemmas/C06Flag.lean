/-
  C06 — `removeTipR` / `removeLoopR` (50ed682: the root of a rooted input is never suppressed).
  With the flag off they are `removeTip` / `removeLoop`; with the flag on no branch is ever
  complemented (`IndR`), for every tree without single-child inner node.  Core Lean only.
-/
import Gotree.Lemmas.C06Rooted

namespace Gotree.C06
open Gotree Gotree.C14

theorem removeTipR_false (x : String) (t : T) : removeTipR false x t = removeTip x t := by
  simp [removeTipR]

theorem removeLoopR_false : ∀ (todo : List (String × Bool)) (t : T), removeLoopR false todo t = removeLoop todo t
  | [], _ => rfl
  | (n, rm) :: r, t => by
    simp only [removeLoopR, removeLoop, removeTipR_false]
    cases rm with
    | false => simp [removeLoopR_false r t]
    | true =>
      simp only [if_true]
      cases h : removeTip n t with
      | error e => rfl
      | ok t' => simp [removeLoopR_false r t']

/-- `removeTip` never complements a branch unless it suppresses a root left with two kids -/
theorem removeTip_indR (x : String) (t : T) (hroot : t.kids.length ≠ 1) (hns : t.noSingle = true)
    (hnd : t.tipNames.Nodup) (hcount : 4 ≤ t.tipNames.length)
    (hno : ∀ i a b, rmKids x t.kids ≠ .del i [a, b]) (t' : T) (h : removeTip x t = .ok t')
    (K : List String) (hK : ∀ a ∈ K, a ∈ t'.tipNames) : IndR K t.splits t'.splits := by
  obtain ⟨t'', e1, hperm, _, hr'⟩ := removeTip_spec x t hroot hns hcount
  rw [h] at e1
  cases e1
  have hnd' : t'.tipNames.Nodup := hperm.nodup_iff.2 (hnd.erase x)
  have hx : x ∉ K := by
    intro hm
    have := hperm.mem_iff.1 (hK x hm)
    exact (hnd.mem_erase_iff.1 this).1 rfl
  obtain ⟨d, p, kids⟩ := t
  simp only [T.kids_node] at hroot hno
  have hndk : (leavesL kids).Nodup := by
    rw [tipNames_of_ne1 _ (by simpa using hroot)] at hnd; exact hnd
  have E := rmKids_indR K x hx kids hndk
  have hr1 : (kids.length == 1) = false := by simp [hroot]
  simp only [removeTip, hr1, Bool.false_and, Bool.false_eq_true, if_false] at h
  rw [splits_node]
  cases hk : rmKids x kids with
  | notFound =>
    rw [hk] at h; cases h
    exact IndR.refl _
  | set ks =>
    rw [hk] at h E; cases h
    exact E
  | spl i ks ei e c =>
    rw [hk] at h E; cases h
    rw [splits_node, splitsL_append, splitsL_single]
    refine E _ ?_
    intro h2
    have hc := flag_of_leaf K c h2
    have hks : ks ≠ [] := by
      intro h0
      rw [h0] at hr'
      exact hr' (by simp)
    have hpos : 0 < ks.length := List.length_pos_iff.2 hks
    simp [hc, hpos]
  | del i ks =>
    rw [hk] at h E
    have E' : IndR K (splitsL kids) (splitsL ks) := E
    match ks, h, E', hk with
    | [], h, E', _ => cases h; exact E'
    | [(e, c)], h, E', _ =>
      cases h
      rw [splits_node]
      rw [splitsL_single] at E'
      refine IndR.trans E' ?_
      rw [← splitsBelow_eq c]
      simp only [T.kids_node] at hr'
      have hall : ∀ a ∈ K, a ∈ c.leaves := by
        intro a ha
        have := hK a ha
        rw [tipNames_of_ne1 _ (by simpa using hr')] at this
        simp only [T.kids_node] at this
        by_cases hc : c.kids = []
        · rw [hc] at this; simp [leavesL] at this
        · rw [leaves_of_inner c hc]; exact this
      have hcn : c.leaves.Nodup := by
        by_cases hc : c.kids = []
        · rw [leaves_of_leaf c hc]; simp
        · rw [tipNames_of_ne1 _ (by simpa using hr')] at hnd'
          simp only [T.kids_node] at hnd'
          rw [leaves_of_inner c hc]; exact hnd'
      have := IndR.append (IndR.dropTop (K := K) ⟨c.leaves, e, c.isLeaf⟩ hcn hall) (IndR.refl c.splitsBelow)
      simpa using this
    | [a, b], _, _, hk => exact absurd hk (hno i a b)
    | a :: b :: c :: r, h, E', _ => cases h; exact E'

/-- one removal with the flag on, root not a tip -/
theorem removeTipR_true_spec (x : String) (t : T) (hroot : t.kids.length ≠ 1) (hns : t.noSingle = true)
    (hnd : t.tipNames.Nodup) (hcount : 4 ≤ t.tipNames.length) :
    ∃ t', removeTipR true x t = .ok t' ∧ t'.tipNames.Perm (t.tipNames.erase x) ∧ t'.noSingle = true ∧
      t'.kids.length ≠ 1 ∧
      ∀ K : List String, (∀ a ∈ K, a ∈ t'.tipNames) → IndR K t.splits t'.splits := by
  by_cases hdel : ∃ i a b, rmKids x t.kids = .del i [a, b]
  · -- a root left with two kids is kept
    obtain ⟨i, a, b, hk⟩ := hdel
    obtain ⟨d, p, kids⟩ := t
    simp only [T.kids_node] at hroot hk
    have hr1 : (kids.length == 1) = false := by simp [hroot]
    have hl := rmKids_leaves x kids
    have hn := rmKids_ns x kids hns
    rw [hk] at hl hn
    obtain ⟨a1, a2⟩ := hl
    obtain ⟨_, b2⟩ := hn
    have hndk : (leavesL kids).Nodup := by
      rw [tipNames_of_ne1 _ (by simpa using hroot)] at hnd; exact hnd
    have hne : ([a, b] : Kids).length ≠ 1 := by simp
    have htn : (T.node d p [a, b]).tipNames = leavesL [a, b] := tipNames_of_ne1 _ (by simp)
    have hperm : (T.node d p [a, b]).tipNames.Perm ((T.node d p kids).tipNames.erase x) := by
      rw [htn, tipNames_of_ne1 _ (by simpa using hroot)]; exact a2
    refine ⟨T.node d p [a, b], ?_, hperm, b2, by simp, fun K hK => ?_⟩
    · simp [removeTipR, hr1, hk]
    · have hx : x ∉ K := by
        intro hm
        have := hperm.mem_iff.1 (hK x hm)
        exact (hnd.mem_erase_iff.1 this).1 rfl
      have E := rmKids_indR K x hx kids hndk
      rw [hk] at E
      exact E
  · have hno : ∀ i a b, rmKids x t.kids ≠ .del i [a, b] := fun i a b h => hdel ⟨i, a, b, h⟩
    obtain ⟨t', e1, hperm, g3, g4⟩ := removeTip_spec x t hroot hns hcount
    refine ⟨t', ?_, hperm, g3, g4, fun K hK => removeTip_indR x t hroot hns hnd hcount hno t' e1 K hK⟩
    obtain ⟨d, p, kids⟩ := t
    simp only [T.kids_node] at hroot hno
    have hr1 : (kids.length == 1) = false := by simp [hroot]
    simp only [removeTipR, Bool.not_true, Bool.false_eq_true, if_false, hr1, Bool.false_and]
    rw [← e1]

theorem removeLoopR_true : ∀ (todo : List (String × Bool)) (t : T), t.kids.length ≠ 1 → t.noSingle = true →
    t.tipNames.Nodup → (todo.map (·.1)).Nodup → (∀ n ∈ todo.map (·.1), n ∈ t.tipNames) →
    3 + (flagged todo).length ≤ t.tipNames.length →
    ∃ t', removeLoopR true todo t = .ok t' ∧ t'.tipNames.Perm (t.tipNames.filter fun n => !(flagged todo).contains n) ∧
      t'.noSingle = true ∧ t'.kids.length ≠ 1 ∧ t'.tipNames.Nodup ∧
      ∀ K : List String, (∀ a ∈ K, a ∈ t'.tipNames) → IndR K t.splits t'.splits
  | [], t, hroot, hns, hnd, _, _, _ => by
    refine ⟨t, rfl, ?_, hns, hroot, hnd, fun K _ => IndR.refl _⟩
    have : (t.tipNames.filter fun _ => true) = t.tipNames := List.filter_eq_self.2 (by simp)
    simp [flagged, this]
  | (n, false) :: r, t, hroot, hns, hnd, htodo, hsub, hcount => by
    have hn : n ∈ t.tipNames := hsub n (by simp)
    have hf : flagged ((n, false) :: r) = flagged r := by simp [flagged]
    rw [hf] at hcount ⊢
    simp only [List.map_cons, List.nodup_cons] at htodo
    obtain ⟨t', g1, g2⟩ := removeLoopR_true r t hroot hns hnd htodo.2 (fun m hm => hsub m (by simp at hm ⊢; exact Or.inr hm)) hcount
    exact ⟨t', by simp [removeLoopR, hn, g1], g2⟩
  | (n, true) :: r, t, hroot, hns, hnd, htodo, hsub, hcount => by
    have hn : n ∈ t.tipNames := hsub n (by simp)
    have hf : flagged ((n, true) :: r) = n :: flagged r := by simp [flagged]
    rw [hf] at hcount ⊢
    simp only [List.map_cons, List.nodup_cons] at htodo
    obtain ⟨t1, h1, h2, h3, h4, h5⟩ := removeTipR_true_spec n t hroot hns hnd (by simp at hcount; omega)
    have hnd1 : t1.tipNames.Nodup := (h2.nodup_iff).2 (hnd.erase n)
    have hsub1 : ∀ m ∈ r.map (·.1), m ∈ t1.tipNames := by
      intro m hm
      have hmn : m ≠ n := by
        intro h; subst h; exact htodo.1 hm
      exact h2.mem_iff.2 ((List.mem_erase_of_ne hmn).2 (hsub m (by simp at hm ⊢; exact Or.inr hm)))
    have hc1 : 3 + (flagged r).length ≤ t1.tipNames.length := by
      rw [h2.length_eq, List.length_erase_of_mem hn]; simp at hcount; omega
    obtain ⟨t', g1, g2, g3, g4, g5, g6⟩ := removeLoopR_true r t1 h4 h3 hnd1 htodo.2 hsub1 hc1
    refine ⟨t', ?_, ?_, g3, g4, g5, fun K hK => ?_⟩
    · simp [removeLoopR, hn, h1, g1]
    · rw [← filter_erase_flag hnd]
      exact g2.trans (h2.filter _)
    · have hK1 : ∀ a ∈ K, a ∈ t1.tipNames := fun a ha => (List.mem_filter.1 (g2.mem_iff.1 (hK a ha))).1
      exact IndR.trans (h5 K hK1) (g6 K hK)

/-- everything the theorems of `Proofs/C06.lean` need about `RemoveTips` as it is now
    (`removeLoopR t.rooted`), for every root shape -/
theorem removeTips_coreR (t : T) (S : List String) (rev : Bool) (hnd : t.tipNames.Nodup)
    (hns : t.noSingle = true) (h₃ : 3 ≤ (kept t S rev).length) :
    ∃ t', removeLoopR t.rooted (workList t S rev) t = .ok t' ∧ t'.tipNames.Perm (kept t S rev) ∧
      t'.noSingle = true ∧ t'.tipNames.Nodup ∧ rootAfterOK t S rev t' = true ∧
      Ind (kept t S rev) t.splits t'.splits ∧
      (t.rooted = true → IndR (kept t S rev) t.splits t'.splits) := by
  by_cases hr : t.rooted = true
  · have h2 : t.kids.length = 2 := by simpa [T.rooted] using hr
    have hroot : t.kids.length ≠ 1 := by omega
    have hcount : 3 + (flagged (workList t S rev)).length ≤ t.tipNames.length := by
      rw [flagged_workList]
      have := filter_length_compl t.tipNames (fun n => S.contains n != rev)
      have e : (t.tipNames.filter fun n => !(S.contains n != rev)) = kept t S rev := by
        unfold kept; apply List.filter_congr; intro n _; cases S.contains n <;> cases rev <;> rfl
      rw [e] at this
      unfold toRemove; omega
    have hmap : (workList t S rev).map (·.1) = t.tipNames := by
      simp [workList, Function.comp_def]
    have hkeptEq : (t.tipNames.filter fun n => !(toRemove t S rev).contains n) = kept t S rev := by
      unfold kept toRemove
      apply List.filter_congr
      intro n hn
      simp [hn]
      cases S.contains n <;> cases rev <;> simp
    obtain ⟨t', g1, g2, g3, g4, g5, g6⟩ := removeLoopR_true (workList t S rev) t hroot hns hnd (hmap ▸ hnd)
      (fun n hn => hmap ▸ hn) hcount
    rw [flagged_workList, hkeptEq] at g2
    have hI := g6 (kept t S rev) (fun a ha => g2.mem_iff.2 ha)
    refine ⟨t', by rw [hr]; exact g1, g2, g3, g5, ?_, hI.toInd, fun _ => hI⟩
    have hb : (t.kids.length == 1) = false := by simp [h2]
    simp only [rootAfterOK, hb, Bool.false_eq_true, if_false, Bool.and_eq_true, bne_iff_ne, ne_eq,
      Bool.or_eq_true, decide_eq_true_eq]
    exact ⟨g4, Or.inl (by omega)⟩
  · have hr' : t.rooted = false := by simpa using hr
    obtain ⟨t', g1, g2, g3, g4, g5, g6⟩ := removeTips_core t S rev hnd hns h₃
    exact ⟨t', by rw [hr', removeLoopR_false]; exact g1, g2, g3, g4, g5, g6, fun h => absurd h hr⟩

theorem wfR_of_wf (t : T) (h : wf t = true) : wfR t = true := by
  obtain ⟨a, b, _⟩ := (wf_iff t).1 h
  exact (wfR_iff t).2 ⟨a, b⟩

end Gotree.C06
