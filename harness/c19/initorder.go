package c19

// initorder.go — the ORDER in which the registrations ran, read off the source.
//
// The Go specification fixes it: the package-level variables first, then the init() functions of
// the files in the order the go tool hands them to the compiler (sorted by file name), each file's
// init() functions in source order, statements top to bottom.  The flag table (flagdump.go) is
// taken from the running program and carries no order; this pass recovers it syntactically
// (go/parser only): every `<cmdVar>.[Persistent]Flags().<T>Var[P](&v, "name", …)` statement of an
// init() function — directly or through a helper that receives the command as an argument
// (`addTBEFlags(cmd)`) — gives a site (command variable, persistent?, flag name, file, line), and
// `<parent>.AddCommand(<child>)` plus the `Use:` field of the command literals give each command
// variable its path.  A site is matched with a table row by (command path, flag, persistent?).
//
// The result feeds the case `C19.order`: the Lean model runs the registrations in this order and
// must arrive, for every variable, at the value dumped from the live flag — with or without
// conflicts.  Rows that cannot be placed (a registration pattern this pass does not understand)
// are reported and excluded together with every row sharing their variable.

import (
	"go/ast"
	"go/build"
	"go/parser"
	"go/token"
	"os"
	"path/filepath"
	"regexp"
	"sort"
	"strconv"
	"strings"
)

type regSite struct {
	CmdVar     string
	Persistent bool
	Flag       string
	GoVar      string
	File       string
	Line       int
}

var varCall = regexp.MustCompile(`^[A-Z][A-Za-z0-9]*VarP?$`)

// compiled reports whether the go tool compiles this file into the binaries bin/check builds
// (-tags verif): build constraints (`//go:build`, `// +build`) and file-name suffixes.
func compiled(dir, name string) bool {
	ctx := build.Default
	ctx.BuildTags = []string{"verif"}
	ctx.CgoEnabled = false
	ok, err := ctx.MatchFile(dir, name)
	return err == nil && ok
}

// initSites returns the registration sites of <repo>/cmd in execution order, the path of every
// command variable, and the problems met.
func initSites(repo string) (sites []regSite, paths map[string]string, problems []string) {
	dir := filepath.Join(repo, "cmd")
	ents, err := os.ReadDir(dir)
	if err != nil {
		return nil, nil, []string{err.Error()}
	}
	var names []string
	for _, e := range ents {
		n := e.Name()
		if strings.HasSuffix(n, ".go") && !strings.HasSuffix(n, "_test.go") {
			names = append(names, n)
		}
	}
	sort.Strings(names)
	fset := token.NewFileSet()
	var files []*ast.File
	var fnames []string
	for _, n := range names {
		src, err := os.ReadFile(filepath.Join(dir, n))
		if err != nil {
			problems = append(problems, err.Error())
			continue
		}
		if !compiled(dir, n) {
			continue
		}
		f, err := parser.ParseFile(fset, n, src, 0)
		if err != nil {
			problems = append(problems, err.Error())
			continue
		}
		files = append(files, f)
		fnames = append(fnames, n)
	}
	// package-level functions (helpers) and command literals
	funcs := map[string]*ast.FuncDecl{}
	use := map[string]string{} // command variable -> first word of Use
	for _, f := range files {
		for _, d := range f.Decls {
			switch d := d.(type) {
			case *ast.FuncDecl:
				if d.Recv == nil && d.Name.Name != "init" {
					funcs[d.Name.Name] = d
				}
			case *ast.GenDecl:
				for _, sp := range d.Specs {
					vs, ok := sp.(*ast.ValueSpec)
					if !ok {
						continue
					}
					for i, id := range vs.Names {
						if i >= len(vs.Values) {
							continue
						}
						u, ok := vs.Values[i].(*ast.UnaryExpr)
						if !ok {
							continue
						}
						cl, ok := u.X.(*ast.CompositeLit)
						if !ok {
							continue
						}
						if se, ok := cl.Type.(*ast.SelectorExpr); !ok || se.Sel.Name != "Command" {
							continue
						}
						for _, el := range cl.Elts {
							kv, ok := el.(*ast.KeyValueExpr)
							if !ok {
								continue
							}
							if k, ok := kv.Key.(*ast.Ident); ok && k.Name == "Use" {
								if bl, ok := kv.Value.(*ast.BasicLit); ok {
									if s, err := strconv.Unquote(bl.Value); err == nil && len(strings.Fields(s)) > 0 {
										use[id.Name] = strings.Fields(s)[0]
									}
								}
							}
						}
					}
				}
			}
		}
	}
	parent := map[string]string{}
	// walk the statements of a function body; env maps parameter names to command variables
	var walkBody func(body *ast.BlockStmt, env map[string]string, file string, depth int)
	resolve := func(e ast.Expr, env map[string]string) string {
		if id, ok := e.(*ast.Ident); ok {
			if v, ok := env[id.Name]; ok {
				return v
			}
			return id.Name
		}
		return ""
	}
	walkBody = func(body *ast.BlockStmt, env map[string]string, file string, depth int) {
		if body == nil || depth > 4 {
			return
		}
		type fsRef struct {
			cv   string
			pers bool
		}
		alias := map[string]fsRef{} // fs := cmd.PersistentFlags()
		flagSetOf := func(e ast.Expr) (fsRef, bool) {
			if id, ok := e.(*ast.Ident); ok {
				r, ok := alias[id.Name]
				return r, ok
			}
			inner, ok := e.(*ast.CallExpr)
			if !ok {
				return fsRef{}, false
			}
			isel, ok := inner.Fun.(*ast.SelectorExpr)
			if !ok || isel.Sel.Name != "Flags" && isel.Sel.Name != "PersistentFlags" {
				return fsRef{}, false
			}
			cv := resolve(isel.X, env)
			if cv == "" {
				return fsRef{}, false
			}
			return fsRef{cv, isel.Sel.Name == "PersistentFlags"}, true
		}
		ast.Inspect(body, func(n ast.Node) bool {
			if as, ok := n.(*ast.AssignStmt); ok && len(as.Lhs) == 1 && len(as.Rhs) == 1 {
				if id, ok := as.Lhs[0].(*ast.Ident); ok {
					if r, ok := flagSetOf(as.Rhs[0]); ok {
						alias[id.Name] = r
					}
				}
				return true
			}
			call, ok := n.(*ast.CallExpr)
			if !ok {
				return true
			}
			switch fun := call.Fun.(type) {
			case *ast.SelectorExpr:
				// parent.AddCommand(child…)
				if fun.Sel.Name == "AddCommand" {
					p := resolve(fun.X, env)
					for _, a := range call.Args {
						if c := resolve(a, env); c != "" && p != "" {
							parent[c] = p
						}
					}
					return true
				}
				// X.Flags().TVarP(&v, "name", …)
				if !varCall.MatchString(fun.Sel.Name) {
					return true
				}
				ref, ok := flagSetOf(fun.X)
				if !ok || len(call.Args) < 2 {
					problems = append(problems, file+": registration on an expression that is not the flag set of a command variable")
					return true
				}
				cv := ref.cv
				name := ""
				if bl, ok := call.Args[1].(*ast.BasicLit); ok {
					name, _ = strconv.Unquote(bl.Value)
				}
				gv := ""
				if u, ok := call.Args[0].(*ast.UnaryExpr); ok {
					if id, ok := u.X.(*ast.Ident); ok {
						gv = id.Name
					}
				}
				if name == "" {
					problems = append(problems, file+": flag name is not a literal")
					return true
				}
				sites = append(sites, regSite{CmdVar: cv, Persistent: ref.pers, Flag: name, GoVar: gv,
					File: file, Line: fset.Position(call.Pos()).Line})
				return true
			case *ast.Ident:
				// helper(cmd, …): inline its body with the parameters bound to the arguments
				fd, ok := funcs[fun.Name]
				if !ok || fd.Type.Params == nil {
					return true
				}
				sub := map[string]string{}
				i := 0
				for _, fld := range fd.Type.Params.List {
					for _, pn := range fld.Names {
						if i < len(call.Args) {
							if v := resolve(call.Args[i], env); v != "" {
								sub[pn.Name] = v
							}
						}
						i++
					}
				}
				walkBody(fd.Body, sub, file, depth+1)
				return true
			}
			return true
		})
	}
	for k, f := range files {
		for _, d := range f.Decls {
			if fd, ok := d.(*ast.FuncDecl); ok && fd.Recv == nil && fd.Name.Name == "init" {
				walkBody(fd.Body, map[string]string{}, fnames[k], 0)
			}
		}
	}
	// paths
	paths = map[string]string{}
	var pathOf func(v string, depth int) string
	pathOf = func(v string, depth int) string {
		if p, ok := paths[v]; ok {
			return p
		}
		u, ok := use[v]
		if !ok || depth > 10 {
			return ""
		}
		p := u
		if par, ok := parent[v]; ok {
			pp := pathOf(par, depth+1)
			if pp == "" {
				return ""
			}
			p = pp + " " + u
		}
		paths[v] = p
		return p
	}
	for v := range use {
		pathOf(v, 0)
	}
	return sites, paths, problems
}

// orderedTable puts the rows of the table in the order their registrations ran.  Rows that
// cannot be placed are returned separately.
func orderedTable(repo string, table []Row) (ordered []Row, unplaced []Row, problems []string) {
	sites, paths, problems := initSites(repo)
	type key struct {
		path, flag string
		pers       bool
	}
	idx := map[key][]int{}
	for i, r := range table {
		k := key{r.Path, r.Flag, r.Persistent}
		idx[k] = append(idx[k], i)
	}
	used := make([]bool, len(table))
	for _, s := range sites {
		p, ok := paths[s.CmdVar]
		if !ok {
			problems = append(problems, s.File+":"+strconv.Itoa(s.Line)+": command variable "+s.CmdVar+" has no path")
			continue
		}
		k := key{p, s.Flag, s.Persistent}
		placed := false
		for _, i := range idx[k] {
			if !used[i] {
				used[i] = true
				row := table[i]
				row.GoVar = s.GoVar
				ordered = append(ordered, row)
				placed = true
				break
			}
		}
		if !placed {
			problems = append(problems, s.File+":"+strconv.Itoa(s.Line)+": no row for "+p+" --"+s.Flag)
		}
	}
	for i, r := range table {
		if !used[i] {
			unplaced = append(unplaced, r)
		}
	}
	return
}
