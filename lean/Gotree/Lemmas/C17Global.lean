/-
  C17 — helper lemmas about the slot writes of the whole-heap model (`Model/C17Global.lean`).
-/
import Gotree.Model.C17Global

namespace Gotree.C17
open Gotree.C17.G

theorem setNeigh_length (ns : List GNode) (x i v : Nat) : (setNeigh ns x i v).length = ns.length := by
  unfold setNeigh; split <;> simp

theorem setBr_length (ns : List GNode) (x i v : Nat) : (setBr ns x i v).length = ns.length := by
  unfold setBr; split <;> simp

theorem setNeigh_get_ne (ns : List GNode) (x i v y : Nat) (h : y ≠ x) : (setNeigh ns x i v)[y]? = ns[y]? := by
  unfold setNeigh; split
  · rw [List.getElem?_set_ne (Ne.symm h)]
  · rfl

theorem setBr_get_ne (ns : List GNode) (x i v y : Nat) (h : y ≠ x) : (setBr ns x i v)[y]? = ns[y]? := by
  unfold setBr; split
  · rw [List.getElem?_set_ne (Ne.symm h)]
  · rfl

theorem reattach_length (es : List GEdge) (e a b : Nat) : (reattach es e a b).length = es.length := by
  unfold reattach; split <;> simp

theorem inverse_length (es : List GEdge) (e : Nat) : (inverse es e).length = es.length := by
  unfold inverse; split <;> simp

end Gotree.C17
