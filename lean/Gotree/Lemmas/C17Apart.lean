/-
  C17 — `Apart`: the split lists before and after `Apply`, with enough information about
  the branches that do not change (each lies inside one quadrant of the two crossing splits,
  or contains the whole site, or avoids it) to conclude in the canonical presentation.
-/
import Gotree.Lemmas.C17Split
import Gotree.Lemmas.C05Splits

namespace Gotree.C17
open Gotree Gotree.C17.Spec

/-- how a branch that does not change lies relative to the site `Z` and the two splits `c`, `c'` -/
def Within (Z c c' s : List String) : Prop :=
  (∀ x ∈ s, x ∈ c ∧ x ∈ c') ∨ (∀ x ∈ s, x ∈ c ∧ x ∉ c') ∨ (∀ x ∈ s, x ∉ c ∧ x ∈ c') ∨
  (∀ x ∈ s, x ∈ Z ∧ x ∉ c ∧ x ∉ c') ∨ (∀ x ∈ Z, x ∈ s) ∨ (∀ x ∈ s, x ∉ Z)

/-- the facts about the changed branch and the others -/
def Apart (Z cb : List String) (isRoot : Bool) (L L' : List SplitE) : Prop :=
  ∃ c c' R R', c.below = cb ∧ L.Perm (c :: R) ∧ L'.Perm (c' :: R') ∧ SameBranches R R' ∧
    c.e = c'.e ∧ c.tip = false ∧ c'.tip = false ∧
    (∀ x ∈ c.below, x ∈ Z) ∧ (∀ x ∈ c'.below, x ∈ Z) ∧
    (∃ x, x ∈ c.below ∧ x ∈ c'.below) ∧ (∃ x, x ∈ c.below ∧ x ∉ c'.below) ∧
    (∃ x, x ∈ Z ∧ x ∉ c.below ∧ x ∈ c'.below) ∧
    (isRoot = true → ∃ x, x ∈ Z ∧ x ∉ c.below ∧ x ∉ c'.below) ∧
    (∀ s ∈ R, s.below ≠ [] ∧ Within Z c.below c'.below s.below)

theorem Apart.oneBranchApart {Z cb : List String} {isRoot : Bool} {L L' : List SplitE} (h : Apart Z cb isRoot L L') :
    OneBranchApart L L' := by
  obtain ⟨c, c', R, R', _, h1, h2, h3, h4, h5, h6, _, _, ⟨y, hy1, hy2⟩, ⟨x, hx1, hx2⟩, _⟩ := h
  exact ⟨c, c', R, R', h1, h2, h3, h4, h5, h6, ⟨x, hx1, hx2⟩, ⟨y, hy1, hy2⟩⟩

/-- entries of the context: they contain the whole site or avoid it -/
def Outside (Z : List String) (X : List SplitE) : Prop :=
  ∀ s ∈ X, s.below ≠ [] ∧ ((∀ x ∈ Z, x ∈ s.below) ∨ (∀ x ∈ s.below, x ∉ Z))

theorem apart_context {Z cb : List String} {isRoot : Bool} {L L' X X' Y Y' : List SplitE} (h : Apart Z cb isRoot L L')
    (hx : SameBranches X X') (hy : SameBranches Y Y') (ox : Outside Z X) (oy : Outside Z Y) :
    Apart Z cb isRoot (X ++ L ++ Y) (X' ++ L' ++ Y') := by
  obtain ⟨c, c', R, R', h0, h1, h2, h3, h4, h5, h6, h7, h8, h9, h10, h11, h12, h13⟩ := h
  refine ⟨c, c', X ++ R ++ Y, X' ++ R' ++ Y', h0, ?_, ?_, sameBranches_append (sameBranches_append hx h3) hy,
    h4, h5, h6, h7, h8, h9, h10, h11, h12, ?_⟩
  · have : (X ++ L ++ Y).Perm (X ++ (c :: R) ++ Y) :=
      List.Perm.append_right _ (List.Perm.append_left _ h1)
    refine this.trans ?_
    simp only [List.append_assoc, List.cons_append]
    exact List.perm_middle
  · have : (X' ++ L' ++ Y').Perm (X' ++ (c' :: R') ++ Y') :=
      List.Perm.append_right _ (List.Perm.append_left _ h2)
    refine this.trans ?_
    simp only [List.append_assoc, List.cons_append]
    exact List.perm_middle
  · intro s hs
    simp only [List.mem_append] at hs
    rcases hs with (hs | hs) | hs
    · obtain ⟨hne, ho⟩ := ox s hs
      exact ⟨hne, ho.elim (fun h => Or.inr (Or.inr (Or.inr (Or.inr (Or.inl h)))))
        (fun h => Or.inr (Or.inr (Or.inr (Or.inr (Or.inr h)))))⟩
    · exact h13 s hs
    · obtain ⟨hne, ho⟩ := oy s hs
      exact ⟨hne, ho.elim (fun h => Or.inr (Or.inr (Or.inr (Or.inr (Or.inl h)))))
        (fun h => Or.inr (Or.inr (Or.inr (Or.inr (Or.inr h)))))⟩

/-- the tips below a branch of a forest are among its leaves, and there is at least one -/
theorem below_sub_leavesL : ∀ (k : Kids), ∀ s ∈ splitsL k, s.below ≠ [] ∧ ∀ x ∈ s.below, x ∈ leavesL k := by
  have main : ∀ (t : T), ∀ s ∈ splitsL t.kids, s.below ≠ [] ∧ ∀ x ∈ s.below, x ∈ leavesL t.kids := by
    intro t
    induction t using T.induct with
    | h d p k ih =>
      simp only [T.kids_node]
      have : ∀ (r : Kids), (∀ et ∈ r, et ∈ k) → ∀ s ∈ splitsL r, s.below ≠ [] ∧ ∀ x ∈ s.below, x ∈ leavesL r := by
        intro r
        induction r with
        | nil => intro _ s hs; simp [splitsL] at hs
        | cons et r ihr =>
          obtain ⟨e, c⟩ := et
          intro hsub s hs
          rw [splitsL_cons] at hs
          rw [leavesL_cons]
          simp only [List.mem_cons, List.mem_append] at hs
          rcases hs with rfl | hs | hs
          · exact ⟨leaves_ne_nil c, fun x hx => List.mem_append_left _ hx⟩
          · have := ih (e, c) (hsub _ (by simp)) s (by simpa [splitsBelow_eq] using hs)
            refine ⟨this.1, fun x hx => List.mem_append_left _ ?_⟩
            have hx' := this.2 x hx
            rw [leaves_eq]
            split
            · rename_i h0
              rw [h0] at hx'
              simp [leavesL] at hx'
            · exact hx'
          · have := ihr (fun et het => hsub et (by simp [het])) s hs
            exact ⟨this.1, fun x hx => List.mem_append_right _ (this.2 x hx)⟩
      exact this k (fun _ h => h)
  intro k
  exact main (.node default 0 k)

/-- one step up for `Apart` -/
theorem apart_up {Z cb : List String} {isRoot : Bool} (c1 c2 : T) (e : EdgeD)
    (h : Apart Z cb isRoot (splitsL c1.kids) (splitsL c2.kids)) (hZ : ∀ x ∈ Z, x ∈ c1.leaves)
    (hl : c2.leaves.Perm c1.leaves) (hleaf : c2.isLeaf = c1.isLeaf)
    (k : Kids) (i : Nat) (hk : k[i]? = some (e, c1)) (hnd : (leavesL k).Nodup) :
    Apart Z cb isRoot (splitsL k) (splitsL (k.set i (e, c2))) := by
  obtain ⟨hsplit, _⟩ := list_split_at k i (e, c1) hk
  have hi : i < k.length := (List.getElem?_eq_some_iff.mp hk).1
  have hset : k.set i (e, c2) = k.take i ++ (e, c2) :: k.drop (i + 1) := by
    rw [List.set_eq_take_append_cons_drop]
    simp [hi]
  rw [hset]
  have hL : splitsL k = (splitsL (k.take i) ++ [⟨c1.leaves, e, c1.isLeaf⟩]) ++ splitsL c1.kids ++ splitsL (k.drop (i + 1)) := by
    conv => lhs; rw [hsplit]
    simp [splitsL_append, splitsL_cons, splitsBelow_eq]
  have hL' : splitsL (k.take i ++ (e, c2) :: k.drop (i + 1)) =
      (splitsL (k.take i) ++ [⟨c2.leaves, e, c2.isLeaf⟩]) ++ splitsL c2.kids ++ splitsL (k.drop (i + 1)) := by
    simp [splitsL_append, splitsL_cons, splitsBelow_eq]
  rw [hL, hL']
  -- disjointness inside `leavesL k`
  have hleaves : leavesL k = leavesL (k.take i) ++ (c1.leaves ++ leavesL (k.drop (i + 1))) := by
    conv => lhs; rw [hsplit]
    simp [leavesL_append, leavesL_cons]
  rw [hleaves] at hnd
  have hd1 : ∀ x ∈ leavesL (k.take i), x ∉ c1.leaves := by
    intro x hx hx'
    exact (List.nodup_append.mp hnd).2.2 x hx x (List.mem_append_left _ hx') rfl
  have hd2 : ∀ x ∈ leavesL (k.drop (i + 1)), x ∉ c1.leaves := by
    intro x hx hx'
    exact (List.nodup_append.mp (List.nodup_append.mp hnd).2.1).2.2 x hx' x hx rfl
  refine apart_context h ?_ (sameBranches_refl _) ?_ ?_
  · exact sameBranches_append (sameBranches_refl _) ⟨⟨hl.symm, rfl, hleaf.symm⟩, trivial⟩
  · intro s hs
    simp only [List.mem_append, List.mem_singleton] at hs
    rcases hs with hs | rfl
    · have := below_sub_leavesL _ s hs
      exact ⟨this.1, Or.inr (fun x hx hxZ => hd1 x (this.2 x hx) (hZ x hxZ))⟩
    · exact ⟨leaves_ne_nil c1, Or.inl hZ⟩
  · intro s hs
    have := below_sub_leavesL _ s hs
    exact ⟨this.1, Or.inr (fun x hx hxZ => hd2 x (this.2 x hx) (hZ x hxZ))⟩

theorem mem_leaves_of_mem_leavesL_kids {c : T} {x : String} (h : x ∈ leavesL c.kids) : x ∈ c.leaves := by
  rw [leaves_eq]
  split
  · rename_i h0
    rw [h0] at h
    simp [leavesL] at h
  · exact h

theorem nodup_leavesL_kids (e : EdgeD) (c : T) (k : Kids) (i : Nat) (hk : k[i]? = some (e, c))
    (hnd : (leavesL k).Nodup) : (leavesL c.kids).Nodup := by
  by_cases h0 : c.kids = []
  · rw [h0]; simp [leavesL]
  · have := leaves_sublist_leavesL e c k i hk
    rw [leaves_eq, if_neg h0] at this
    exact hnd.sublist this

/-- lifting `RK` and `Apart` along the path to the site -/
theorem apart_lift (Z cb : List String) (isRoot : Bool) (f : T → Option T) : ∀ (q : List Nat) (t t' S : T),
    subAt q t = some S → modAt q f t = some t' → (leavesL t.kids).Nodup →
    (∀ S', f S = some S' → RK S S' ∧ Apart Z cb isRoot (splitsL S.kids) (splitsL S'.kids)) →
    (∀ x ∈ Z, x ∈ leavesL S.kids) →
    RK t t' ∧ Apart Z cb isRoot (splitsL t.kids) (splitsL t'.kids) ∧ (∀ x ∈ Z, x ∈ leavesL t.kids) := by
  intro q
  induction q with
  | nil =>
    intro t t' S hs hm _ hr hZ
    simp only [subAt, Option.some.injEq] at hs
    subst hs
    obtain ⟨h1, h2⟩ := hr t' (by simpa [modAt] using hm)
    exact ⟨h1, h2, hZ⟩
  | cons i q ih =>
    intro t t' S hs hm hnd hr hZ
    obtain ⟨d, pp, k⟩ := t
    simp only [subAt] at hs
    cases hki : k[i]? with
    | none => simp [hki] at hs
    | some ec =>
      obtain ⟨e, c⟩ := ec
      simp only [hki] at hs
      simp only [modAt, hki] at hm
      cases hmc : modAt q f c with
      | none => simp [hmc] at hm
      | some c' =>
        simp only [hmc, Option.some.injEq] at hm
        subst hm
        simp only [T.kids_node] at hnd ⊢
        obtain ⟨h1, h2, h3⟩ := ih c c' S hs hmc (nodup_leavesL_kids e c k i hki hnd) hr hZ
        have hZc : ∀ x ∈ Z, x ∈ c.leaves := fun x hx => mem_leaves_of_mem_leavesL_kids (h3 x hx)
        refine ⟨h1.up d pp k i e hki, ?_, ?_⟩
        · exact apart_up c c' e h2 hZc h1.leaves_perm h1.isLeaf_eq k i hki hnd
        · intro x hx
          exact (leaves_sublist_leavesL e c k i hki).subset (hZc x hx)

end Gotree.C17
