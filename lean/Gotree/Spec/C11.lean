/-
  C11 — what the property means on an observed run (the oracle), and the per-item function of
  `tree.Compare` used as the `f` of the pool model.

  A run of a pool is observed as: the kind of pool, the thread count, the reference tree, the
  items of the stream (trees, or items carrying an error), the outcome class of the call
  (`ok`, `err:<class>`, `timeout`, `crash:…`, `panic:…`), the records it produced keyed by tree
  id, the same two things for the single-thread run of the same stream, and the race detector's
  report (empty = none).  Core Lean only (linked into the driver).
-/
import Gotree.Model.C11
import Gotree.Model.C11HashMap
import Gotree.Spec.Splits
import Gotree.Model.Dump
import Gotree.Model.C10

namespace Gotree.C11
open Gotree

/-- an item of the input stream -/
inductive Item where
  | err                -- carries an error and no tree (what the reader sends on a parse error)
  | tree (t : T)

/-- why an item is erroneous for the reference `ref` (none = it is fine): `item` = it carries an error,
    `dup` = two of its tips have the same name (its indexes cannot be built), `taxa` = its tips are not
    the tips of the reference.  The ORACLE only uses "erroneous or not"; the class is for the tie. -/
def Item.bad (ref : T) : Item → Option String
  | .err => some "item"
  | .tree t =>
    if t.tipNames.eraseDups.length != t.tipNames.length then some "dup"
    else if sortS t.tipNames == sortS ref.tipNames then none else some "taxa"

def Item.isBad (ref : T) (it : Item) : Bool := (it.bad ref).isSome

/-- the call returned (no hang, no crash, no panic) -/
def terminated (outcome : String) : Bool :=
  outcome == "ok" || outcome.startsWith "err"

/-- outcome is an error of one of the given classes (kept for the tie; the oracle uses `anyErrOutcome`) -/
def errOutcome (outcome : String) (classes : List String) : Bool :=
  classes.any (fun c => outcome == "err:" ++ c)

/-- an error reached the caller: the call returned an error (library), the command printed an
    `Error: …` line and exited with a non-zero status (`err:exit` = non-zero status WITHOUT such a line,
    i.e. a failure that is not the report of an error).  Whatever the wording of the message. -/
def anyErrOutcome (outcome : String) : Bool :=
  outcome.startsWith "err:" && outcome != "err:exit"

/-- One record of `Compare`. -/
structure CmpRec where
  id : Nat
  t1 : Int        -- bipartitions specific to the reference
  t2 : Int        -- bipartitions specific to the compared tree
  common : Int
  same : Bool
  err : String    -- "" | item | taxa | other
  deriving Repr, BEq, DecidableEq

/-- `for _, e2 := range edges2 { … }` of Compare (algo.go:838-857), with its `break`:
    state = (total2, common, sametree, stopped) -/
def cmpLoop (refSides : List (List String)) (all : List String) (tips binary : Bool) :
    List SplitE → (Int × Int × Bool) → (Int × Int × Bool)
  | [], acc => acc
  | e :: r, (total2, common, same) =>
    let counted := tips || !e.tip
    let total2 := if counted then total2 + 1 else total2
    let ok := if e.tip then true else refSides.contains (canonSide all e.below)
    if !ok && binary then (total2, common, false)
    else
      let same := same && ok
      let common := if ok && counted then common + 1 else common
      cmpLoop refSides all tips binary r (total2, common, same)

/-- the body of the worker loop of `tree.Compare` for one item (the sequential per-tree function);
    for an erroneous item only the identifier and the error class are specified -/
def compareItem (ref : T) (tips binary : Bool) (id : Nat) (it : Item) : CmpRec :=
  let all := ref.tipNames
  let total : Int := ((ref.splits.filter (fun e => tips || !e.tip)).length : Nat)
  match it.bad ref, it with
  | some c, _ => ⟨id, total, 0, 0, false, c⟩
  | none, .err => ⟨id, total, 0, 0, false, "item"⟩
  | none, .tree t =>
    let refSides := ref.splits.map (fun e => canonSide all e.below)
    let (total2, common, same) := cmpLoop refSides all tips binary t.splits (0, 0, true)
    let same := same && total2 == total
    ⟨id, total - common, total2 - common, common, same, ""⟩

/-- what is compared for a record: everything for a good tree, identifier and error class otherwise -/
def CmpRec.obs (r : CmpRec) : CmpRec := if r.err == "" then r else ⟨r.id, 0, 0, 0, false, r.err⟩

/-! ### `tree.CompareWeighted` per item -/

/-- One record of `CompareWeighted` (the three lists as sorted multisets). -/
structure WRec where
  id : Nat
  ref : List Rat      -- lengths of the bipartitions specific to the reference
  comp : List Rat     -- lengths of the bipartitions specific to the compared tree
  common : List Rat   -- reference length minus compared length for the common ones
  same : Bool
  err : String
  deriving Repr, BEq, DecidableEq

def sortR (l : List Rat) : List Rat := l.mergeSort (fun a b => decide (a ≤ b))

/-- `EdgeIndex` filled by `PutEdgeValue` in `Edges()` order: a later branch with the same bipartition
    replaces the stored length.  Lengths are `lengthOrZero` (algo.go:948, since 462ffd9): a branch without
    length counts 0, not the -1 marker. -/
def edgeIndex (all : List String) (es : List SplitE) : List (List String × Rat) :=
  es.foldl (fun acc e =>
    let k := canonSide all e.below
    if acc.any (·.1 == k) then acc.map (fun kv => if kv.1 == k then (k, e.e.lenOr0) else kv) else acc ++ [(k, e.e.lenOr0)]) []

/-- first loop of the worker (algo.go:955-980), with its `break`s: (Common, Comp, sametree) -/
def wLoop1 (refIdx : List (List String × Rat)) (all : List String) (tips binary : Bool) :
    List SplitE → (List Rat × List Rat × Bool) → (List Rat × List Rat × Bool)
  | [], acc => acc
  | e :: r, (common, comp, same) =>
    if tips || !e.tip then
      match refIdx.find? (·.1 == canonSide all e.below) with
      | some (_, refLen) =>
        let same' := same && refLen == e.e.lenOr0
        if refLen != e.e.lenOr0 && binary then (common, comp, false)
        else wLoop1 refIdx all tips binary r (common ++ [refLen - e.e.lenOr0], comp, same')
      | none =>
        if binary then (common, comp, false)
        else wLoop1 refIdx all tips binary r (common, comp ++ [e.e.lenOr0], false)
    else wLoop1 refIdx all tips binary r (common, comp, same)

/-- second loop (algo.go:983-996): (Ref, sametree) -/
def wLoop2 (compIdx : List (List String × Rat)) (all : List String) (tips binary : Bool) :
    List SplitE → (List Rat × Bool) → (List Rat × Bool)
  | [], acc => acc
  | e :: r, (ref, same) =>
    if tips || !e.tip then
      if compIdx.any (·.1 == canonSide all e.below) then wLoop2 compIdx all tips binary r (ref, same)
      else if binary then (ref, false)
      else wLoop2 compIdx all tips binary r (ref ++ [e.e.lenOr0], false)
    else wLoop2 compIdx all tips binary r (ref, same)

def weightedItem (ref : T) (tips binary : Bool) (id : Nat) (it : Item) : WRec :=
  let all := ref.tipNames
  match it.bad ref, it with
  | some c, _ => ⟨id, [], [], [], false, c⟩
  | none, .err => ⟨id, [], [], [], false, "item"⟩
  | none, .tree t =>
    let refIdx := edgeIndex all ref.splits
    let compIdx := edgeIndex all t.splits
    let (common, comp, same) := wLoop1 refIdx all tips binary t.splits ([], [], true)
    let (rf, same) := wLoop2 compIdx all tips binary ref.splits ([], same)
    ⟨id, sortR rf, sortR comp, sortR common, same, ""⟩

def WRec.obs (r : WRec) : WRec := if r.err == "" then r else ⟨r.id, [], [], [], false, r.err⟩

/-! ### `support.FBP`: what a worker sends for one bootstrap tree, and what the collector makes of it -/

/-- indices (in `Edges()` order) of the reference branches found in the bootstrap tree's index of
    internal branches (fbp.go:72-86) -/
def fbpFound (ref : T) (it : Item) : List Nat :=
  match it with
  | .err => []
  | .tree t =>
    let all := ref.tipNames
    let idx := (t.splits.filter (fun e => !e.tip)).map (fun e => canonSide all e.below)
    (List.range ref.splits.length).filter fun i =>
      match ref.splits[i]? with
      | some e => idx.contains (canonSide all e.below)
      | none => false

/-- the collector and the final division (fbp.go:98-109): support of every reference branch -/
def fbpSupports (ref : T) (sent : List (List Nat)) (ntrees : Nat) : List (Option Rat) :=
  let all := ref.tipNames
  (List.range ref.splits.length).map fun i =>
    match ref.splits[i]? with
    | some e =>
      if !e.tip && lightSize all e.below > 1 then
        some ((((sent.map (fun l => l.count i)).sum : Nat) : Rat) / ((ntrees : Nat) : Rat))
      else none
    | none => none

/-! ### `support.TBE`: the per-bootstrap-tree fan-out over the reference branches

  For one bootstrap tree `b` the items of the pool are the branches of the reference tree (position in
  `Edges()` order, the branch, its raw support so far); what a worker does with one of them
  (tbe.go:241-262) is `Gotree.C10.tbeEdge` of the sequential model of C10: each worker touches only the
  support cell of the branch it received. -/

abbrev TbeItem := Nat × SplitE × Rat

def tbeItemFn (r b : T) (x : TbeItem) : Nat × Rat := (x.1, Gotree.C10.tbeEdge r b x.2.1 x.2.2)

/-- the items of one fan-out -/
def tbeItems (r : T) (sups : List Rat) : List TbeItem :=
  (List.range r.splits.length).zip (r.splits.zip sups)

/-- the raw supports after one fan-out, from what the workers delivered (none if a branch is missing) -/
def tbeCollect (n : Nat) (out : List (Nat × Rat)) : Option (List Rat) :=
  (List.range n).mapM fun i => (out.find? (·.1 == i)).map (·.2)

/-- `NormalizeTransferDistancesByDepth` over all branches -/
def tbeNormalize (r : T) (nboot : Nat) (sups : List Rat) : List Rat :=
  List.zipWith (Gotree.C10.normalize (Gotree.C10.ntips r) nboot) r.splits sups

/-- The observed run, as the oracle sees it. -/
structure Run where
  kind : String
  threads : Nat
  ref : T
  items : List Item
  outcome : String
  records : String
  outcome1 : String      -- single-thread run of the same stream
  records1 : String
  race : String
  cancelled : Bool := false   -- the Supporter was cancelled from outside during the call

def Run.cli (r : Run) : Bool := r.kind.startsWith "cli"
def Run.perItem (r : Run) : Bool := r.kind == "compare" || r.kind == "weighted"
/-- error classes present in the stream; for the commands an empty file is an erroneous stream
    (`ReadMultiTrees` sends an item carrying the end-of-file error) -/
def Run.badClasses (r : Run) : List String :=
  if r.cli && r.items.isEmpty then ["item"] else r.items.filterMap (Item.bad r.ref)

/-- ids and error classes of the records of a per-item run (`id:…:err;`) -/
def recIdErr (records : String) : Option (List (Nat × String)) :=
  ((records.splitOn ";").dropLast).mapM fun rec =>
    let f := rec.splitOn ":"
    match f.head?, f.getLast? with
    | some i, some e => (i.toNat?).map (fun n => (n, e))
    | _, _ => none

/-- a decimal literal `123.456789` as a rational -/
def parseDecimal (t : String) : Option Rat :=
  match t.splitOn "." with
  | [a] => (a.toInt?).map fun n => (n : Rat)
  | [a, b] =>
    match a.toInt?, b.toNat? with
    | some n, some m =>
      let frac : Rat := (m : Rat) / ((10 ^ b.length : Nat) : Rat)
      some (if a.startsWith "-" then (n : Rat) - frac else (n : Rat) + frac)
    | _, _ => none
  | _ => none

/-- two statistics logs agree: same tokens, numbers within 2·10⁻⁶ (they are printed with six decimals
    from sums of floats whose order of addition depends on the schedule) -/
def logsAgree (a b : String) : Bool :=
  let toks (s : String) : List String :=
    ((s.map fun c => if c == '\t' || c == '\n' || c == '\r' then ' ' else c).splitOn " ").filter (· ≠ "")
  let ta := toks a
  let tb := toks b
  ta.length == tb.length && (List.zip ta tb).all fun (x, y) =>
    x == y || (match parseDecimal x, parseDecimal y with
               | some p, some q => (if p ≥ q then p - q else q - p) ≤ (2 : Rat) / 1000000
               | _, _ => false)

/-- records of two runs agree: identical, or (TBE with statistics: `supports#log`) identical supports and
    agreeing logs -/
def recordsAgree (r1 r2 : String) : Bool :=
  r1 == r2 ||
  (match r1.splitOn "#", r2.splitOn "#" with
   | [s1, l1], [s2, l2] =>
     s1 == s2 && (match unescape l1, unescape l2 with
                  | some a, some b => logsAgree a b
                  | _, _ => false)
   | _, _ => false)

/-- The property on one observed run:
    * the call terminated (no `timeout`, no crash), and so did the single-thread run;
    * no data race was reported;
    * per-item pools: exactly one record per tree id, each erroneous item's record carries its
      error (the error reaches the caller), and the records are those of the single-thread run;
    * aggregating pools and commands: an erroneous item anywhere makes the call fail with that
      error; otherwise the result is that of the single-thread run. -/
def runOK (r : Run) : Bool :=
  terminated r.outcome && terminated r.outcome1 && r.race == "" &&
  (if r.cancelled then true   -- a cancelled analysis only has to return (its partial result is unspecified)
   else if r.perItem then
     r.outcome == "ok" && r.records == r.records1 &&
     -- one record per tree id; it carries an error exactly when the tree is erroneous (whatever the message)
     (match recIdErr r.records with
      | some l => l.map (·.1) == List.range r.items.length &&
                  l.map (fun x => x.2 != "") == r.items.map (Item.isBad r.ref)
      | none => false)
   else if r.badClasses.isEmpty then
     -- exactly the result of the single-thread run, the moved-taxa statistics of TBE included
     r.outcome == "ok" && r.outcome1 == "ok" && r.records == r.records1
   else
     anyErrOutcome r.outcome)

/-- the narrow region of a possible, so far never observed, schedule dependence: TBE with the moved-taxa
    statistics, same supports, logs that differ only in the last printed decimal (the tallies of
    tbe.go:363-369 are float sums whose order of addition is the order of arrival under the mutex) -/
def tbeLogFloatOrder (r : Run) : Bool :=
  (r.kind == "tbe" || r.kind == "clitbe") && r.outcome == "ok" && r.outcome1 == "ok" &&
  r.records != r.records1 && recordsAgree r.records r.records1

/-- which clause fails (for the verdict's detail string) -/
def runWhy (r : Run) : String :=
  if !terminated r.outcome then "did not terminate normally: " ++ r.outcome
  else if !terminated r.outcome1 then "single-thread run did not terminate normally: " ++ r.outcome1
  else if r.race != "" then "data race reported: " ++ r.race
  else if r.perItem && r.outcome != "ok" then "per-item pool failed as a whole: " ++ r.outcome
  else if r.perItem && r.records != r.records1 then "records differ from the single-thread run"
  else if r.perItem then "records are not one per tree id, with an error exactly for the erroneous trees"
  else if r.badClasses.isEmpty && r.outcome != "ok" then "failed on a stream without erroneous tree: " ++ r.outcome
  else if r.badClasses.isEmpty then "result differs from the single-thread run"
  else "an erroneous tree did not make the call fail with an error: " ++ r.outcome

/-- the progress counter of the caller's `Supporter` (supporter.go, incremented by every FBP worker and by the
    TBE loop) after a call on a stream without erroneous tree: every tree was counted exactly once, whatever
    the thread count and the schedule (`progress < 0`: not observed) -/
def progressOK (r : Run) (progress : Int) : Bool :=
  progress < 0 || r.cancelled || !r.badClasses.isEmpty || r.outcome != "ok" || progress == (r.items.length : Int)

/-! ### `hashmap.HashMap`: what a history of calls on ONE map must return (no model involved)

  The reference is a plain association list: a `Value` returns what the last `PutValue` of an equal key
  stored (absent before the first one), `Keys` / `KeyValues` return every stored key (pair) exactly once
  and no nil cell, in any order. -/

namespace HM

def refPut (ref : List (Nat × Int)) (k : Nat) (v : Int) : List (Nat × Int) :=
  if ref.any (·.1 == k) then ref.map (fun kv => if kv.1 == k then (kv.1, v) else kv) else ref ++ [(k, v)]

def refGet (ref : List (Nat × Int)) (k : Nat) : Option Int := (ref.find? (·.1 == k)).map (·.2)

/-- `l` lists every element of `want` exactly once (`want` has no duplicates), without nil cell -/
def sameSet {α : Type} [BEq α] (l : List (Option α)) (want : List α) : Bool :=
  l.length == want.length && want.all (fun x => l.contains (some x))

def historyOK : List (Nat × Int) → List (Op Nat Int) → List (Out Nat Int) → Bool
  | _, [], [] => true
  | ref, .put k v :: ops, .unit :: outs => historyOK (refPut ref k v) ops outs
  | ref, .get k :: ops, .val x :: outs => x == refGet ref k && historyOK ref ops outs
  | ref, .keys :: ops, .keys l :: outs => sameSet l (ref.map (·.1)) && historyOK ref ops outs
  | ref, .keyValues :: ops, .kvs l :: outs => sameSet l ref && historyOK ref ops outs
  | _, _, _ => false

/-- position of the first call whose answer is wrong (for the detail string) -/
def firstBad : Nat → List (Nat × Int) → List (Op Nat Int) → List (Out Nat Int) → Nat
  | i, ref, .put k v :: ops, .unit :: outs => firstBad (i + 1) (refPut ref k v) ops outs
  | i, ref, .get k :: ops, .val x :: outs => if x == refGet ref k then firstBad (i + 1) ref ops outs else i
  | i, ref, .keys :: ops, .keys l :: outs => if sameSet l (ref.map (·.1)) then firstBad (i + 1) ref ops outs else i
  | i, ref, .keyValues :: ops, .kvs l :: outs => if sameSet l ref then firstBad (i + 1) ref ops outs else i
  | i, _, _, _ => i

/-- `HashCode` of the harness' key type `intKey{k, mod}` -/
def intKeyHash (mod : Nat) (k : Nat) : Nat :=
  ((if mod > 0 then k % mod else k) * 0x9E3779B97F4A7C15) % 18446744073709551616

end HM

end Gotree.C11
