/-
  C02 — the producer goroutine of `utils.ReadMultiTrees` and the consumer's
  `for t := range ch` as a small labelled transition system (DESIGN §3.6, C02 T(iv)).

  The goroutine sends the records the reader model computes, in order, on a channel
  of capacity 10 and then closes it (`close(compTrees)` is the last statement on
  every path of the current code); the consumer receives until the channel is closed
  and empty.  One step = one channel operation of one goroutine; a schedule is a list
  of goroutine ids (a goroutine that cannot move is skipped).
-/
namespace Gotree.C02.Chan

def cap : Nat := 10

structure Sys (α : Type) where
  toSend : List α        -- what the producer still has to send
  buf : List α           -- the channel buffer, oldest first
  closed : Bool
  got : List α           -- what the consumer has received so far
  deriving Repr

inductive Actor | producer | consumer
  deriving DecidableEq, Repr

/-- one step of the producer: send the next record (blocks when the buffer is full), then close.
    `closes = false` is the variant in which the producer returns without closing the channel. -/
def stepP (closes : Bool) (s : Sys α) : Option (Sys α) :=
  match s.toSend with
  | x :: r => if s.buf.length < cap then some { s with toSend := r, buf := s.buf ++ [x] } else none
  | [] => if !s.closed && closes then some { s with closed := true } else none

/-- one step of the consumer: receive (blocks when the buffer is empty) -/
def stepC (s : Sys α) : Option (Sys α) :=
  match s.buf with
  | x :: b => some { s with buf := b, got := s.got ++ [x] }
  | [] => none

/-- one step of one goroutine; `none` = it cannot move (blocked, or finished) -/
def step (closes : Bool) (a : Actor) (s : Sys α) : Option (Sys α) :=
  match a with
  | .producer => stepP closes s
  | .consumer => stepC s

/-- the consumer's `range` has ended: everything sent, buffer drained, channel closed -/
def done (s : Sys α) : Bool := s.toSend.isEmpty && s.buf.isEmpty && s.closed

def init (recs : List α) : Sys α := ⟨recs, [], false, []⟩

/-- apply a schedule; a goroutine that cannot move is skipped -/
def run (closes : Bool) : List Actor → Sys α → Sys α
  | [], s => s
  | a :: r, s => match step closes a s with
    | some s' => run closes r s'
    | none => run closes r s

/-- termination measure -/
def mu (s : Sys α) : Nat := 2 * s.toSend.length + s.buf.length + (if s.closed then 0 else 1)

/-- a fair tail: producer and consumer in turn, `n` times -/
def roundRobin : Nat → List Actor
  | 0 => []
  | n + 1 => .producer :: .consumer :: roundRobin n

/-- what the consumer ends up with under schedule `sched` followed by a fair tail -/
def simulate (sched : List Actor) (recs : List α) : Sys α :=
  let s := run true sched (init recs)
  run true (roundRobin (mu s)) s

/-- a schedule derived from a number (for the driver): bit i chooses the goroutine -/
def schedOf : Nat → Nat → List Actor
  | 0, _ => []
  | n + 1, seed => (if seed % 2 == 0 then .producer else .consumer) :: schedOf n (seed / 2 + (if seed % 3 == 0 then 7919 * n else n))

end Gotree.C02.Chan
