// Package core: the abstraction function α from Go heaps (*tree.Tree) to the
// model's rose trees, the harness' own well-formedness checker, a builder that
// constructs Go trees through the public API only, and the line protocol.
package core

import (
	"fmt"
	"math"
	"math/big"
	"strings"

	"github.com/evolbioinfo/gotree/tree"
)

// N is the harness-side rose tree (mirror of the Lean `T`).
type N struct {
	Name     string
	Comments []string
	PPos     int
	// data of the branch to the parent (nil for the root)
	E    *E
	Kids []*N
}

// E is branch data.
type E struct {
	Len, Sup, Pval float64
	Comments       []string
	Id             int
}

func NewE() *E { return &E{Len: -1, Sup: -1, Pval: -1, Id: -1} }

// Escape percent-escapes everything outside [A-Za-z0-9_.-].
func Escape(s string) string {
	var b strings.Builder
	for i := 0; i < len(s); i++ {
		c := s[i]
		if c < 128 && (c >= 'a' && c <= 'z' || c >= 'A' && c <= 'Z' || c >= '0' && c <= '9' || c == '_' || c == '.' || c == '-') {
			b.WriteByte(c)
		} else {
			fmt.Fprintf(&b, "%%%02X", c)
		}
	}
	return b.String()
}

func Unescape(s string) (string, error) {
	var b strings.Builder
	for i := 0; i < len(s); i++ {
		if s[i] == '%' {
			if i+2 >= len(s) {
				return "", fmt.Errorf("bad escape")
			}
			var v int
			if _, err := fmt.Sscanf(s[i+1:i+3], "%02X", &v); err != nil {
				return "", err
			}
			b.WriteByte(byte(v))
			i += 2
		} else {
			b.WriteByte(s[i])
		}
	}
	return b.String(), nil
}

// Rat prints the exact rational value of a float64 ("p/q" or "p");
// non-finite values are printed as nan/+inf/-inf (the model refuses those).
func Rat(f float64) string {
	if math.IsNaN(f) {
		return "nan"
	}
	if math.IsInf(f, 1) {
		return "+inf"
	}
	if math.IsInf(f, -1) {
		return "-inf"
	}
	r := new(big.Rat)
	r.SetFloat64(f)
	return r.RatString()
}

// ParseRat reads what Rat wrote.
func ParseRat(s string) (float64, error) {
	switch s {
	case "nan":
		return math.NaN(), nil
	case "+inf":
		return math.Inf(1), nil
	case "-inf":
		return math.Inf(-1), nil
	}
	r := new(big.Rat)
	if _, ok := r.SetString(s); !ok {
		return 0, fmt.Errorf("bad rational %q", s)
	}
	f, _ := r.Float64()
	return f, nil
}

func (n *N) dumpToks(out *[]string) {
	*out = append(*out, "(", "n"+Escape(n.Name))
	for _, c := range n.Comments {
		*out = append(*out, "c"+Escape(c))
	}
	*out = append(*out, fmt.Sprintf("p%d", n.PPos))
	if n.E != nil {
		*out = append(*out, fmt.Sprintf("e%s,%s,%s,%d", Rat(n.E.Len), Rat(n.E.Sup), Rat(n.E.Pval), n.E.Id))
		for _, c := range n.E.Comments {
			*out = append(*out, "k"+Escape(c))
		}
	}
	for _, k := range n.Kids {
		k.dumpToks(out)
	}
	*out = append(*out, ")")
}

// Dump prints the canonical dump of a harness-side tree.
func (n *N) Dump() string {
	var toks []string
	n.dumpToks(&toks)
	return strings.Join(toks, " ")
}

// ParseDump reads a dump.
func ParseDump(s string) (*N, error) {
	toks := strings.Fields(s)
	n, rest, err := parseNode(toks)
	if err != nil {
		return nil, err
	}
	if len(rest) != 0 {
		return nil, fmt.Errorf("trailing tokens")
	}
	if n.E != nil {
		return nil, fmt.Errorf("root with edge")
	}
	return n, nil
}

func parseNode(toks []string) (*N, []string, error) {
	if len(toks) < 3 || toks[0] != "(" || !strings.HasPrefix(toks[1], "n") {
		return nil, nil, fmt.Errorf("bad node start")
	}
	name, err := Unescape(toks[1][1:])
	if err != nil {
		return nil, nil, err
	}
	n := &N{Name: name}
	toks = toks[2:]
	for len(toks) > 0 && strings.HasPrefix(toks[0], "c") {
		c, err := Unescape(toks[0][1:])
		if err != nil {
			return nil, nil, err
		}
		n.Comments = append(n.Comments, c)
		toks = toks[1:]
	}
	if len(toks) == 0 || !strings.HasPrefix(toks[0], "p") {
		return nil, nil, fmt.Errorf("missing ppos")
	}
	if _, err := fmt.Sscanf(toks[0][1:], "%d", &n.PPos); err != nil {
		return nil, nil, err
	}
	toks = toks[1:]
	if len(toks) > 0 && strings.HasPrefix(toks[0], "e") {
		f := strings.Split(toks[0][1:], ",")
		if len(f) != 4 {
			return nil, nil, fmt.Errorf("bad edge token")
		}
		e := &E{}
		if e.Len, err = ParseRat(f[0]); err != nil {
			return nil, nil, err
		}
		if e.Sup, err = ParseRat(f[1]); err != nil {
			return nil, nil, err
		}
		if e.Pval, err = ParseRat(f[2]); err != nil {
			return nil, nil, err
		}
		if _, err := fmt.Sscanf(f[3], "%d", &e.Id); err != nil {
			return nil, nil, err
		}
		n.E = e
		toks = toks[1:]
		for len(toks) > 0 && strings.HasPrefix(toks[0], "k") {
			c, err := Unescape(toks[0][1:])
			if err != nil {
				return nil, nil, err
			}
			e.Comments = append(e.Comments, c)
			toks = toks[1:]
		}
	}
	for len(toks) > 0 && toks[0] == "(" {
		k, rest, err := parseNode(toks)
		if err != nil {
			return nil, nil, err
		}
		if k.E == nil {
			return nil, nil, fmt.Errorf("child without edge")
		}
		n.Kids = append(n.Kids, k)
		toks = rest
	}
	if len(toks) == 0 || toks[0] != ")" {
		return nil, nil, fmt.Errorf("missing )")
	}
	return n, toks[1:], nil
}

// WF collects what the harness' checker found wrong with a heap.
type WF struct {
	Problems []string
}

func (w *WF) add(f string, a ...interface{}) {
	if len(w.Problems) < 20 {
		w.Problems = append(w.Problems, fmt.Sprintf(f, a...))
	}
}
func (w *WF) OK() bool { return len(w.Problems) == 0 }

// Alpha walks a *tree.Tree through the public API only and returns the
// model-side tree.  It is partial: defined on heaps that are connected,
// acyclic, with parallel neigh/br slices, symmetric adjacency and branches
// oriented away from Root(); anything else is reported in WF.
func Alpha(t *tree.Tree) (*N, *WF) {
	wf := &WF{}
	if t == nil || t.Root() == nil {
		wf.add("nil tree or root")
		return nil, wf
	}
	seen := map[*tree.Node]bool{}
	seenE := map[*tree.Edge]bool{}
	n := alphaRec(t.Root(), nil, nil, seen, seenE, wf, 0)
	return n, wf
}

func alphaRec(cur, prev *tree.Node, e *tree.Edge, seen map[*tree.Node]bool, seenE map[*tree.Edge]bool, wf *WF, depth int) *N {
	if seen[cur] {
		wf.add("cycle: node %q reached twice", cur.Name())
		return &N{Name: cur.Name()}
	}
	seen[cur] = true
	n := &N{Name: cur.Name(), Comments: append([]string(nil), cur.Comments()...)}
	if e != nil {
		n.E = &E{Len: e.Length(), Sup: e.Support(), Pval: e.PValue(), Comments: append([]string(nil), e.Comments()...), Id: e.Id()}
	}
	neigh := cur.Neigh()
	br := cur.Edges()
	if len(neigh) != len(br) {
		wf.add("node %q: len(neigh)=%d != len(br)=%d", cur.Name(), len(neigh), len(br))
		return n
	}
	parentSeen := 0
	for i, nb := range neigh {
		b := br[i]
		if nb == nil || b == nil {
			wf.add("node %q: nil neighbour/branch at %d", cur.Name(), i)
			continue
		}
		// the branch joins cur and nb
		if !((b.Left() == cur && b.Right() == nb) || (b.Left() == nb && b.Right() == cur)) {
			wf.add("node %q: br[%d] does not join the node and neigh[%d]", cur.Name(), i, i)
		}
		// symmetric membership with the same branch
		found := false
		for j, back := range nb.Neigh() {
			if back == cur {
				if j < len(nb.Edges()) && nb.Edges()[j] == b {
					found = true
				}
			}
		}
		if !found {
			wf.add("asymmetric adjacency between %q and %q", cur.Name(), nb.Name())
		}
		if nb == prev {
			if b != e {
				wf.add("node %q: branch to parent differs from the branch it was reached by", cur.Name())
			}
			parentSeen++
			n.PPos = i
			continue
		}
		if seenE[b] {
			wf.add("branch shared by two adjacencies")
		}
		seenE[b] = true
		// orientation away from the root
		if b.Left() != cur || b.Right() != nb {
			wf.add("branch %q-%q not oriented away from the root", cur.Name(), nb.Name())
		}
		if len(wf.Problems) >= 20 {
			return n
		}
		n.Kids = append(n.Kids, alphaRec(nb, cur, b, seen, seenE, wf, depth+1))
	}
	if prev != nil && parentSeen != 1 {
		wf.add("node %q: parent appears %d times in neigh", cur.Name(), parentSeen)
	}
	return n
}

// Count helpers on N.
func (n *N) NNodes() int {
	c := 1
	for _, k := range n.Kids {
		c += k.NNodes()
	}
	return c
}

// Leaves returns leaf names below (nodes with no kids).
func (n *N) Leaves() []string {
	if len(n.Kids) == 0 {
		return []string{n.Name}
	}
	var out []string
	for _, k := range n.Kids {
		out = append(out, k.Leaves()...)
	}
	return out
}

// TipNames mirrors Tree.Tips(): the root counts when it has exactly one neighbour.
func (n *N) TipNames() []string {
	var out []string
	if len(n.Kids) == 1 {
		out = append(out, n.Name)
	}
	for _, k := range n.Kids {
		out = append(out, k.Leaves()...)
	}
	return out
}

func (n *N) MaxDegree() int {
	d := len(n.Kids)
	for _, k := range n.Kids {
		if x := k.MaxDegree() + 0; x > d {
			d = x
		}
	}
	return d
}

// Clone deep-copies.
func (n *N) Clone() *N {
	c := &N{Name: n.Name, Comments: append([]string(nil), n.Comments...), PPos: n.PPos}
	if n.E != nil {
		e := *n.E
		e.Comments = append([]string(nil), n.E.Comments...)
		c.E = &e
	}
	for _, k := range n.Kids {
		c.Kids = append(c.Kids, k.Clone())
	}
	return c
}
