/-
  C05 — `MaxLengthPath` / `RerootMidPoint`: the cut keeps the tree.
-/
import Gotree.Lemmas.C05Lca

namespace Gotree.C05
open Gotree

/-! ## RerootMidPoint -/

/-- branch data along a path given from a kid list -/
def edgesAlongK : Kids → List Nat → List EdgeD
  | _, [] => []
  | K, i :: r =>
    match K[i]? with
    | none => []
    | some (e, c) => e :: edgesAlongK c.kids r

theorem edgesAlong_eq (t : T) (c : List Nat) : edgesAlong t c = edgesAlongK t.kids c := by
  induction c generalizing t with
  | nil => cases t; simp [edgesAlong, edgesAlongK]
  | cons i r ih =>
    simp only [edgesAlong, edgesAlongK]
    cases h : t.kids[i]? with
    | none => rfl
    | some ec => obtain ⟨e, c⟩ := ec; simp [ih]

/-- the path leads somewhere: one branch per index -/
def ValidK (K : Kids) (c : List Nat) : Prop := (edgesAlongK K c).length = c.length

mutual
theorem mlp_valid : ∀ (t : T), ValidK t.kids (mlp t).1
  | .node d p kids => by
    simp only [mlp, T.kids_node]
    exact mlpL_valid kids kids 0 [] 0 rfl (by simp [ValidK, edgesAlongK])
theorem mlpL_valid (K : Kids) : ∀ (k : Kids) (i : Nat) (best : List Nat) (cur : Rat),
    K.drop i = k → ValidK K best → ValidK K (mlpL k i best cur).1
  | [], _, _, _, _, hb => by simpa [mlpL] using hb
  | (e, t) :: r, i, best, cur, hk, hb => by
    have hki : K[i]? = some (e, t) := by
      have := congrArg (fun l => l[0]?) hk
      simpa using this
    have hk' : K.drop (i + 1) = r := by
      have := congrArg (List.drop 1) hk
      simpa [List.drop_drop, Nat.add_comm] using this
    simp only [mlpL]
    split
    · refine mlpL_valid K r (i + 1) _ _ hk' ?_
      have := mlp_valid t
      simp only [ValidK, edgesAlongK, hki, List.length_cons] at this ⊢
      omega
    · exact mlpL_valid K r (i + 1) _ _ hk' hb
end

/-- along a valid path: the node before position `m` and the branch taken at position `m` -/
theorem valid_step : ∀ (c : List Nat) (K : Kids) (m : Nat), ValidK K c → m < c.length →
    ∃ (KA : Kids) (B : T) (em : EdgeD), (edgesAlongK K c)[m]? = some em ∧ KA[c.getD m 0]? = some (em, B) ∧
      ((m = 0 ∧ KA = K) ∨ (0 < m ∧ ∃ e A, descend K (c.take m) = some (e, A) ∧ A.kids = KA))
  | [], _, _, _, h => by simp at h
  | i :: r, K, 0, hv, _ => by
    simp only [ValidK, edgesAlongK] at hv
    cases hk : K[i]? with
    | none => simp [hk] at hv
    | some ec =>
      obtain ⟨e, c⟩ := ec
      exact ⟨K, c, e, by simp [edgesAlongK, hk], by simpa using hk, Or.inl ⟨rfl, rfl⟩⟩
  | i :: r, K, m + 1, hv, hm => by
    simp only [ValidK, edgesAlongK] at hv
    cases hk : K[i]? with
    | none => simp [hk] at hv
    | some ec =>
      obtain ⟨e, c⟩ := ec
      simp only [hk, List.length_cons] at hv
      have hv' : ValidK c.kids r := by simp only [ValidK]; omega
      obtain ⟨KA, B, em, h1, h2, h3⟩ := valid_step r c.kids m hv' (by simpa using hm)
      refine ⟨KA, B, em, by simpa [edgesAlongK, hk] using h1, by simpa using h2, Or.inr ⟨by omega, ?_⟩⟩
      rcases h3 with ⟨rfl, rfl⟩ | ⟨hm0, e', A, hd, hA⟩
      · exact ⟨e, c, by simp [descend, hk], rfl⟩
      · refine ⟨e', A, ?_, hA⟩
        cases hr : r.take m with
        | nil =>
          have hml : m ≤ r.length := by simp at hm; omega
          have : (r.take m).length = m := by simp [hml]
          rw [hr] at this; simp at this; omega
        | cons j r' =>
          rw [hr] at hd
          simp [List.take_succ_cons, descend, hk, hr, hd]

/-- the loop of `RerootMidPoint` stops on a branch that contains the half-way point -/
theorem walkHalf_spec (half : Rat) : ∀ (l : List EdgeD) (len0 : Rat) (i0 i : Nat) (len : Rat),
    walkHalf half l len0 i0 = some (i, len) → len0 < half →
    ∃ j em, i = i0 + j + 1 ∧ l[j]? = some em ∧ len - em.len < half ∧ half ≤ len
  | [], len0, i0, i, len, h, h0 => by simp [walkHalf, h0] at h
  | e :: r, len0, i0, i, len, h, h0 => by
    simp only [walkHalf, h0, if_true] at h
    by_cases h1 : len0 + e.len < half
    · obtain ⟨j, em, hj, hem, ha, hb⟩ := walkHalf_spec half r (len0 + e.len) (i0 + 1) i len h h1
      exact ⟨j + 1, em, by omega, by simpa using hem, ha, hb⟩
    · cases r with
      | nil =>
        simp only [walkHalf, h1, if_false] at h
        cases h
        exact ⟨0, e, rfl, rfl, by grind, by grind⟩
      | cons e2 r2 =>
        simp only [walkHalf, h1, if_false] at h
        cases h
        exact ⟨0, e, rfl, rfl, by grind, by grind⟩

theorem midpoint_edges {em : EdgeD} {cut : Rat} (h0 : 0 ≤ cut) (h1 : 0 < em.len - cut) :
    GoodL ({ EdgeD.blank with len := cut, sup := em.sup } : EdgeD).len ∧
    GoodL ({ EdgeD.blank with len := em.len - cut, sup := em.sup } : EdgeD).len ∧
    em.len = fuseLen ({ EdgeD.blank with len := cut, sup := em.sup } : EdgeD).len
      ({ EdgeD.blank with len := em.len - cut, sup := em.sup } : EdgeD).len ∧
    em.sup = fuseSup ({ EdgeD.blank with len := cut, sup := em.sup } : EdgeD).sup
      ({ EdgeD.blank with len := em.len - cut, sup := em.sup } : EdgeD).sup ∧
    em.lenOr0 = ({ EdgeD.blank with len := cut, sup := em.sup } : EdgeD).lenOr0 +
      ({ EdgeD.blank with len := em.len - cut, sup := em.sup } : EdgeD).lenOr0 := by
  simp only [GoodL, fuseLen, fuseSup, EdgeD.lenOr0, NIL, beq_iff_eq]
  refine ⟨Or.inr h0, Or.inr (by grind), ?_, by simp, ?_⟩
  · have a1 : ¬ cut = -1 := by grind
    have a2 : ¬ em.len - cut = -1 := by grind
    simp [a1, a2]; grind
  · have a1 : ¬ cut = -1 := by grind
    have a2 : ¬ em.len - cut = -1 := by grind
    have a3 : ¬ em.len = -1 := by grind
    simp [a1, a2, a3]; grind

/-- the cut made by `RerootMidPoint` (far end fixed) keeps the tree -/
theorem midpointCut_same (cand : Cand) (u : T) (h : midpointCut true cand = .ok u)
    (hv : ValidK cand.tT.kids cand.c) (hpos : 0 < cand.len) (hu : cand.tT.tipNames.Nodup)
    (hg : LensGood cand.tT.splits) : Same cand.tT u ∧ u.kids.length = 2 := by
  unfold midpointCut at h
  simp only [Bool.not_true, Bool.false_and, Bool.false_eq_true, if_false] at h
  cases hw : walkHalf (cand.len / 2) (edgesAlong cand.tT cand.c).reverse 0 0 with
  | none => simp [hw] at h
  | some il =>
    obtain ⟨i, len⟩ := il
    simp only [hw] at h
    have hhalf : (0 : Rat) < cand.len / 2 := by grind
    obtain ⟨j, em, hij, hem, hlt, hge⟩ := walkHalf_spec _ _ 0 0 i len hw hhalf
    have hi1 : i - 1 = j := by omega
    rw [hi1, hem] at h
    simp only at h
    -- the branch, seen from the top of the path
    have hE : (edgesAlong cand.tT cand.c).length = cand.c.length := by rw [edgesAlong_eq]; exact hv
    have hjlt : j < cand.c.length := by
      have := (List.getElem?_eq_some_iff.1 hem).1
      simpa [hE] using this
    have hm : cand.c.length - 1 - j < cand.c.length := by omega
    have hEm : (edgesAlongK cand.tT.kids cand.c)[cand.c.length - 1 - j]? = some em := by
      rw [← edgesAlong_eq]
      rw [List.getElem?_reverse (by rw [hE]; exact hjlt)] at hem
      rw [hE] at hem
      exact hem
    obtain ⟨KA, B, em2, h1, h2, h3⟩ := valid_step cand.c cand.tT.kids (cand.c.length - 1 - j) hv hm
    rw [hEm] at h1
    cases h1
    rcases hR : rerootP cand.tT (cand.c.take (cand.c.length - 1 - j)) none cand.back with ⟨tA, adj, bk⟩
    simp only [hR] at h
    obtain ⟨sA, gA⟩ := rerootP_same (cand.c.take (cand.c.length - 1 - j)) cand.tT none cand.back hu hg
    rw [hR] at sA gA
    simp only at sA gA
    have hkid : tA.kids[adjIdx adj (cand.c.getD (cand.c.length - 1 - j) 0)]? = some (em, B) := by
      rcases h3 with ⟨hm0, rfl⟩ | ⟨_, e, A, hd, rfl⟩
      · rw [hm0] at hR
        simp only [List.take_zero, rerootP_nil, Prod.mk.injEq] at hR
        obtain ⟨rfl, rfl, _⟩ := hR
        simpa [adjIdx] using h2
      · obtain ⟨pos, x, r1, r2, r3⟩ := rerootP_descend _ cand.tT none cand.back cand.tT.kids e A rfl hd
        rw [hR] at r1 r2
        simp only at r1 r2
        subst r1; subst r2
        rw [T.kids_node, getElem_insertAt_adj _ _ _ _ r3]
        exact h2
    split at h
    · rename_i u' hc
      cases h
      have huA : tA.tipNames.Nodup := sA.tips.nodup_iff.2 hu
      obtain ⟨q1, q2, q3, q4, q5⟩ := midpoint_edges (em := em) (cut := len - cand.len / 2) (by grind) (by grind)
      refine ⟨sA.trans (cutAt_same tA u _ _ _ false em B hkid hc huA gA q1 q2 q3 q4 q5), ?_⟩
      obtain ⟨cA, cB, _, _, hk⟩ := cutAt_kids tA u _ _ _ false em B hkid hc
      rw [hk]; rfl
    · cases h

/-- what a chosen candidate is -/
def CandOK (t1 : T) (cand : Cand) : Prop :=
  (∃ p, cand.tT = (rerootP t1 p none []).1) ∧ cand.c = (mlp cand.tT).1 ∧ 0 < cand.len

theorem bestCand_spec (t1 : T) (cand : Cand) : ∀ (ps : List (List Nat)) (best : Option Cand) (cur : Rat),
    0 ≤ cur → (∀ b, best = some b → CandOK t1 b) → bestCand t1 ps best cur = some cand → CandOK t1 cand
  | [], best, cur, _, hb, h => by simp only [bestCand] at h; exact hb cand h
  | p :: ps, best, cur, hc, hb, h => by
    simp only [bestCand] at h
    split at h
    · rename_i hl
      refine bestCand_spec t1 cand ps _ _ (by grind) ?_ h
      intro b hb'
      cases hb'
      exact ⟨⟨p, rfl⟩, rfl, by grind⟩
    · exact bestCand_spec t1 cand ps best cur hc hb h

/-- `RerootMidPoint`, when it succeeds, keeps the tree. -/
theorem midpoint_same (t t' : T) (h : rerootMidPoint t = .ok t') (hu : t.tipNames.Nodup)
    (hg : LensGood t.splits) (hs : ∀ s ∈ t.splits, GoodL s.e.sup) : Same t t' ∧ t'.kids.length = 2 := by
  unfold rerootMidPoint rerootMidPointWith at h
  simp only [midpointFarEndFixedInRepo] at h
  split at h
  · cases h
  · cases hb : bestCand (unroot t) (tipPaths (unroot t)) none 0 with
    | none => rw [hb] at h; simp at h
    | some cand =>
      rw [hb] at h
      simp only at h
      obtain ⟨⟨p, hp⟩, hc, hpos⟩ := bestCand_spec (unroot t) cand _ none 0 (by grind) (by intro b hb'; cases hb') hb
      have S1 := unroot_same t hu hg hs
      have hu1 : (unroot t).tipNames.Nodup := S1.tips.nodup_iff.2 hu
      obtain ⟨S2, g2⟩ := rerootP_same p (unroot t) none [] hu1 (unroot_lensGood t hg)
      rw [← hp] at S2 g2
      have hu2 : cand.tT.tipNames.Nodup := S2.tips.nodup_iff.2 hu1
      have hv : ValidK cand.tT.kids cand.c := by rw [hc]; exact mlp_valid cand.tT
      obtain ⟨S3, h2⟩ := midpointCut_same cand t' h hv hpos hu2 g2
      exact ⟨(S1.trans S2).trans S3, h2⟩


end Gotree.C05
