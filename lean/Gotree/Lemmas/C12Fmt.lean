/-
  C12 — reading back the comments: `readSeqChars` inverts `asrCommentChars`, `splitChars` inverts `joinChars`.
-/
import Gotree.Model.C12Fmt

namespace Gotree.C12
open Gotree

def noBrace (cs : List Char) : Prop := ∀ c ∈ cs, c ≠ '{' ∧ c ≠ '}'

/-- inside braces: the characters up to the closing brace are collected -/
theorem readSeqChars_inside (cs : List Char) (h : noBrace cs) (r : List Char) (cur : List Char) (acc : List (List Char)) :
    readSeqChars (cs ++ '}' :: r) (some cur) acc = readSeqChars r none ((cur.reverse ++ cs) :: acc) := by
  induction cs generalizing cur with
  | nil => simp [readSeqChars]
  | cons c t ih =>
    have hc := h c (by simp)
    have ht : noBrace t := fun x hx => h x (by simp [hx])
    simp only [List.cons_append, readSeqChars, beq_iff_eq, hc.2, if_false]
    rw [ih ht]
    simp

/-- one site, then the rest -/
theorem readSeqChars_site (cs : List Char) (hne : cs ≠ []) (h : noBrace cs) (r : List Char) (acc : List (List Char)) :
    readSeqChars (asrSiteChars cs ++ r) none acc = readSeqChars r none (cs :: acc) := by
  unfold asrSiteChars
  split
  · rename_i hl
    simp only [List.cons_append, List.append_assoc, readSeqChars, beq_self_eq_true, if_true]
    have := readSeqChars_inside cs h r [] acc
    simpa using this
  · rename_i hl
    match cs, hne with
    | [c], _ =>
      have hc := h c (by simp)
      simp [readSeqChars, hc.1]
    | _ :: _ :: _, _ => simp at hl

theorem readSeqChars_render (sites : List (List Char)) (h : ∀ s ∈ sites, s ≠ [] ∧ noBrace s) (acc : List (List Char)) :
    readSeqChars (asrCommentChars sites) none acc = some (acc.reverse ++ sites) := by
  induction sites generalizing acc with
  | nil => simp [asrCommentChars, readSeqChars]
  | cons s t ih =>
    have hs := h s (by simp)
    have : asrCommentChars (s :: t) = asrSiteChars s ++ asrCommentChars t := by simp [asrCommentChars]
    rw [this, readSeqChars_site s hs.1 hs.2, ih (fun x hx => h x (by simp [hx]))]
    simp

def noSep (sep : Char) (cs : List Char) : Prop := ∀ c ∈ cs, c ≠ sep

theorem splitChars_clean (sep : Char) : ∀ (a : List Char), noSep sep a → splitChars sep a = [a]
  | [], _ => rfl
  | c :: r, h => by
    have hc := h c (by simp)
    have ih := splitChars_clean sep r (fun x hx => h x (by simp [hx]))
    simp [splitChars, hc, ih]

theorem splitChars_sep (sep : Char) (b : List Char) :
    ∀ (a : List Char), noSep sep a → splitChars sep (a ++ sep :: b) = a :: splitChars sep b
  | [], _ => by simp [splitChars]
  | c :: r, h => by
    have hc := h c (by simp)
    have ih := splitChars_sep sep b r (fun x hx => h x (by simp [hx]))
    simp [splitChars, hc, ih]

theorem splitChars_join (sep : Char) : ∀ (names : List (List Char)), names ≠ [] → (∀ n ∈ names, noSep sep n) →
    splitChars sep (joinChars sep names) = names
  | [a], _, h => by simpa [joinChars] using splitChars_clean sep a (h a (by simp))
  | a :: b :: r, _, h => by
    have ha := h a (by simp)
    simp only [joinChars]
    rw [splitChars_sep sep _ a ha, splitChars_join sep (b :: r) (by simp) (fun n hn => h n (by simp [hn]))]

theorem stateNames_ne_nil (alpha : List String) (v : Vec) : stateNames alpha v ≠ [] := by
  unfold stateNames
  simp only
  split
  · simp
  · rename_i h; intro h2; simp [h2] at h

theorem stateNames_mem (alpha : List String) (v : Vec) (n : String) (h : n ∈ stateNames alpha v) :
    n = "*" ∨ n ∈ alpha := by
  unfold stateNames at h
  simp only at h
  split at h
  · left; simpa using h
  · right
    simp only [List.mem_filterMap, List.mem_range] at h
    obtain ⟨i, _, hi⟩ := h
    split at hi
    · exact List.mem_of_getElem? hi
    · simp at hi

theorem singles_of (P : Char → Prop) : ∀ (names : List String), (∀ n ∈ names, ∃ c, n = String.singleton c ∧ P c) →
    ∃ cs : List Char, names = cs.map String.singleton ∧ ∀ c ∈ cs, P c
  | [], _ => ⟨[], rfl, by simp⟩
  | n :: r, h => by
    obtain ⟨c, hn, hc⟩ := h n (by simp)
    obtain ⟨cs, hr, hcs⟩ := singles_of P r (fun x hx => h x (by simp [hx]))
    exact ⟨c :: cs, by simp [hn, hr], by
      intro x hx
      rcases List.mem_cons.mp hx with e | e
      · exact e ▸ hc
      · exact hcs x e⟩

theorem flatMap_singletons (cs : List Char) : (cs.map String.singleton).flatMap String.toList = cs := by
  induction cs with
  | nil => rfl
  | cons c t ih => simp [List.flatMap_cons, ih]

end Gotree.C12
