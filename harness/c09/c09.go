// Package c09: consensus = the sufficiently frequent splits.
//
// Case lines (DESIGN §4.2, AGENTS.md):
//
//	C09.cons  kind  cutoff  floorGo  dumps|  class  resultdump
//	C09.inv   kind  cutoff  floorGo  dumpsA| classA resA  dumpsB| classB resB
//
// `cutoff` is the exact rational of the float64 handed to Consensus, `floorGo`
// is Go's own int(cutoff*float64(n)) (the float product is outside the model:
// the driver skips the case when it differs from the exact floor), `dumps` are
// the α dumps of the input trees before the call, `class` is ok | err:<kind> |
// panic:<msg>, `resultdump` the α dump of the consensus tree.
package c09

import (
	"fmt"
	"math"
	"os"
	"strconv"
	"strings"
	"time"

	"verifharness/core"

	"github.com/evolbioinfo/gotree/io/newick"
	"github.com/evolbioinfo/gotree/tree"
)

// ---------------------------------------------------------------- running the real code

func classify(err error) string {
	m := err.Error()
	switch {
	case strings.Contains(m, "min frequency"):
		return "err:range"
	case strings.Contains(m, "same set of tips"):
		return "err:taxa"
	}
	return "err:other:" + core.Escape(m)
}

func floorGo(cutoff float64, n int) int {
	nbtrees := n
	return int(cutoff * float64(nbtrees))
}

// runLib runs tree.Consensus on freshly built trees.
func runLib(ns []*core.N, cutoff float64) (class, res string) {
	ch := make(chan tree.Trees, len(ns)+1)
	for i, n := range ns {
		t, err := core.Build(n)
		if err != nil {
			panic(err)
		}
		ch <- tree.Trees{Tree: t, Id: i}
	}
	close(ch)
	var cons *tree.Tree
	var err error
	if p, msg := core.Safe(func() { cons, err = tree.Consensus(ch, cutoff) }); p {
		return "panic:" + core.Escape(msg), ""
	}
	if err != nil {
		return classify(err), ""
	}
	back, wf := core.Alpha(cons)
	if !wf.OK() {
		return "malformed:" + core.Escape(strings.Join(wf.Problems, ";")), ""
	}
	return "ok", back.Dump()
}

// CLI modes (bits): input on stdin instead of a file, Nexus input (--format nexus), output
// to a file (-o) instead of stdout.
const (
	cliStdin = 1
	cliNexus = 2
	cliOut   = 4
)

// runCLI pushes the same collection through `gotree compute consensus`.
// ftext is the text given to -f ("" = the option is omitted: documented default 0.5; F24,
// repaired by 7e6fdde).
func runCLI(c *core.Ctx, ns []*core.N, ftext string, mode int) (class, res string) {
	var b strings.Builder
	if mode&cliNexus != 0 {
		b.WriteString("#NEXUS\nBEGIN TREES;\n")
	}
	for i, n := range ns {
		t, err := core.Build(n)
		if err != nil {
			panic(err)
		}
		if mode&cliNexus != 0 {
			fmt.Fprintf(&b, "  TREE tree%d = %s\n", i, t.Newick())
		} else {
			b.WriteString(t.Newick())
			b.WriteByte('\n')
		}
	}
	if mode&cliNexus != 0 {
		b.WriteString("END;\n")
	}
	args := []string{"compute", "consensus"}
	stdin := ""
	if mode&cliStdin != 0 {
		stdin = b.String() // -i defaults to stdin
	} else {
		args = append(args, "-i", c.TmpFile(b.String()))
	}
	if mode&cliNexus != 0 {
		args = append(args, "--format", "nexus")
	}
	outfile := ""
	if mode&cliOut != 0 {
		outfile = c.TmpFile("")
		args = append(args, "-o", outfile)
	}
	if ftext != "" {
		args = append(args, "-f", ftext)
	}
	r := c.RunCLI(stdin, 30*time.Second, args...)
	if r.Timeout {
		return "timeout", ""
	}
	if r.Exit != 0 {
		switch {
		case strings.Contains(r.Stderr, "min frequency"):
			return "err:range", ""
		case strings.Contains(r.Stderr, "same set of tips"):
			return "err:taxa", ""
		case strings.Contains(r.Stderr, "invalid argument"):
			return "err:flag", ""
		case strings.Contains(r.Stderr, "panic:") || strings.Contains(r.Stderr, "goroutine "):
			return "panic:cli", ""
		}
		return "err:other:" + core.Escape(firstLine(r.Stderr)), ""
	}
	out := strings.TrimSpace(r.Stdout)
	if mode&cliOut != 0 {
		if out != "" {
			return "malformed:stdout-not-empty-with-o", ""
		}
		data, err := os.ReadFile(outfile)
		if err != nil {
			return "malformed:no-output-file", ""
		}
		out = strings.TrimSpace(string(data))
	}
	t, err := newick.NewParser(strings.NewReader(out)).Parse()
	if err != nil {
		return "malformed:unparsable-output", ""
	}
	back, wf := core.Alpha(t)
	if !wf.OK() {
		return "malformed:" + core.Escape(strings.Join(wf.Problems, ";")), ""
	}
	return "ok", back.Dump()
}

// emitClif runs the CLI with the threshold given as text (the driver parses the text with
// the model's `parseCutoff`) in one of the CLI modes.
func emitClif(c *core.Ctx, kind string, ns []*core.N, ftext string, mode int) {
	class, res := runCLI(c, ns, ftext, mode)
	fl := 0
	if v, err := strconv.ParseFloat(ftext, 64); err == nil {
		fl = floorGo(v, len(ns))
	} else if ftext == "" {
		fl = floorGo(0.5, len(ns))
	}
	c.Emit("C09.clif", kind, fmt.Sprint(mode), core.Escape(ftext), fmt.Sprint(fl), core.Dumps(ns), class, res)
}

func firstLine(s string) string {
	s = strings.TrimSpace(s)
	if i := strings.IndexByte(s, '\n'); i >= 0 {
		return s[:i]
	}
	return s
}

func emitCons(c *core.Ctx, kind string, cli bool, ns []*core.N, cutoff float64) (string, string) {
	var class, res string
	if cli {
		ft := strconv.FormatFloat(cutoff, 'g', -1, 64)
		if strings.HasPrefix(kind, "cli-default") {
			ft = ""
		}
		class, res = runCLI(c, ns, ft, 0)
	} else {
		class, res = runLib(ns, cutoff)
	}
	c.Emit("C09.cons", kind, core.Rat(cutoff), fmt.Sprint(floorGo(cutoff, len(ns))), core.Dumps(ns), class, res)
	return class, res
}

func emitInv(c *core.Ctx, kind string, a, b []*core.N, cutoff float64) {
	ca, ra := emitCons(c, kind, false, a, cutoff)
	cb, rb := emitCons(c, kind+"-tr", false, b, cutoff)
	c.Emit("C09.inv", kind, core.Rat(cutoff), fmt.Sprint(floorGo(cutoff, len(a))), core.Dumps(a), ca, ra, core.Dumps(b), cb, rb)
}

// ---------------------------------------------------------------- replay

func parseDumps(s string) []*core.N {
	var ns []*core.N
	for _, d := range strings.Split(strings.TrimSuffix(s, "|"), "|") {
		if strings.TrimSpace(d) == "" {
			continue
		}
		n, err := core.ParseDump(d)
		if err != nil {
			panic(err)
		}
		ns = append(ns, n)
	}
	return ns
}

// Replay re-executes request lines on the real code (recorded outputs are ignored).
func Replay(c *core.Ctx, lines []string) {
	for _, l := range lines {
		f := strings.Split(l, "\t")
		switch {
		case f[0] == "C09.cons" && len(f) >= 5:
			cutoff, err := core.ParseRat(f[2])
			if err != nil {
				panic(err)
			}
			cli := strings.HasPrefix(f[1], "cli") && c.Gotree != ""
			emitCons(c, f[1], cli, parseDumps(f[4]), cutoff)
		case f[0] == "C09.clif" && len(f) >= 6:
			mode, _ := strconv.Atoi(f[2])
			ft, err := core.Unescape(f[3])
			if err != nil {
				panic(err)
			}
			if c.Gotree != "" {
				emitClif(c, f[1], parseDumps(f[5]), ft, mode)
			}
		case f[0] == "C09.items" && len(f) >= 5:
			replayItems(c, f)
		case f[0] == "C09.hist" && len(f) >= 6:
			replayHist(c, f)
		case f[0] == "C09.inv" && len(f) >= 8:
			cutoff, err := core.ParseRat(f[2])
			if err != nil {
				panic(err)
			}
			emitInv(c, f[1], parseDumps(f[4]), parseDumps(f[7]), cutoff)
		default:
			panic("C09: cannot replay " + f[0])
		}
	}
}

// ---------------------------------------------------------------- tree surgery on the harness-side trees

func fuse(a, b float64) float64 {
	if a == -1 && b == -1 {
		return -1
	}
	return math.Max(0, a) + math.Max(0, b)
}

// unrootN removes a bifurcating root (lengths fused as the Spec does).
func unrootN(n *core.N) *core.N {
	if len(n.Kids) != 2 {
		return n
	}
	a, b := n.Kids[0], n.Kids[1]
	if len(a.Kids) == 0 {
		a, b = b, a
	}
	if len(a.Kids) == 0 {
		return n // two tips
	}
	e := core.NewE()
	e.Len = fuse(a.E.Len, b.E.Len)
	e.Sup = math.Max(a.E.Sup, b.E.Sup)
	if len(b.Kids) == 0 {
		e.Sup = -1
	}
	b.E = e
	root := &core.N{Name: a.Name, Kids: append(append([]*core.N{}, a.Kids...), b)}
	return root
}

// moveRoot makes kid i (an inner node) the root; the old root hangs below it.
func moveRoot(n *core.N, i int) *core.N {
	c := n.Kids[i]
	rest := &core.N{Name: n.Name, Comments: n.Comments, E: c.E}
	for j, k := range n.Kids {
		if j != i {
			rest.Kids = append(rest.Kids, k)
		}
	}
	nr := &core.N{Name: c.Name, Comments: c.Comments, Kids: append(append([]*core.N{}, c.Kids...), rest)}
	return nr
}

// rerootRandom moves the root of an unrooted tree (root degree >= 3) a few steps.
func rerootRandom(g *core.G, n *core.N) *core.N {
	for s := g.Intn(4); s > 0; s-- {
		var inner []int
		for i, k := range n.Kids {
			if len(k.Kids) > 0 {
				inner = append(inner, i)
			}
		}
		if len(inner) == 0 || len(n.Kids) < 3 {
			break
		}
		n = moveRoot(n, inner[g.Intn(len(inner))])
	}
	return n
}

// tipRoot re-roots an unrooted tree at one of its tips (the root of the result has one
// neighbour and carries the tip's name): Consensus moves such a root to its neighbour
// since 5a3a76a, before that these inputs were rejected.
func tipRoot(g *core.G, n *core.N) *core.N {
	for steps := 0; steps < 1000 && len(n.Kids) >= 2; steps++ {
		i := g.Intn(len(n.Kids))
		c := n.Kids[i]
		if len(c.Kids) == 0 {
			rest := &core.N{Name: n.Name, Comments: n.Comments, E: c.E}
			for j, k := range n.Kids {
				if j != i {
					rest.Kids = append(rest.Kids, k)
				}
			}
			rest.PPos = g.Intn(len(rest.Kids) + 1)
			return &core.N{Name: c.Name, Comments: c.Comments, Kids: []*core.N{rest}}
		}
		n = moveRoot(n, i)
	}
	return n
}

// rootOn puts a bifurcating root on the branch above kid i of the (unrooted) root.
// mode 0: length split in halves, 1: all on the first side, 2: all on the other
func rootOn(g *core.G, n *core.N, i int) *core.N {
	c := n.Kids[i]
	rest := &core.N{Name: n.Name, Comments: n.Comments, E: core.NewE()}
	for j, k := range n.Kids {
		if j != i {
			rest.Kids = append(rest.Kids, k)
		}
	}
	l := c.E.Len
	e1 := *c.E
	e1.Comments = nil
	rest.E.Sup = c.E.Sup
	if len(c.Kids) == 0 {
		rest.E.Sup = -1
	}
	if l == -1 {
		rest.E.Len = -1
	} else {
		switch g.Intn(3) {
		case 0:
			e1.Len, rest.E.Len = l/2, l/2
		case 1:
			e1.Len, rest.E.Len = l, 0
		default:
			e1.Len, rest.E.Len = 0, l
		}
	}
	cc := *c
	cc.E = &e1
	kids := []*core.N{&cc, rest}
	if g.Chance(0.5) {
		kids[0], kids[1] = kids[1], kids[0]
	}
	return &core.N{Kids: kids}
}

// rotate shuffles child order and parent positions everywhere.
func rotate(g *core.G, n *core.N, isRoot bool) {
	g.R.Shuffle(len(n.Kids), func(i, j int) { n.Kids[i], n.Kids[j] = n.Kids[j], n.Kids[i] })
	if !isRoot {
		n.PPos = g.Intn(len(n.Kids) + 1)
	} else {
		n.PPos = 0
	}
	for _, k := range n.Kids {
		rotate(g, k, false)
	}
}

func innerEdges(n *core.N, out *[][2]*core.N) {
	for _, k := range n.Kids {
		if len(k.Kids) > 0 {
			*out = append(*out, [2]*core.N{n, k})
		}
		innerEdges(k, out)
	}
}

// contract removes the branch parent->child (child inner).
func contract(p, c *core.N) {
	var kids []*core.N
	for _, k := range p.Kids {
		if k == c {
			kids = append(kids, c.Kids...)
		} else {
			kids = append(kids, k)
		}
	}
	p.Kids = kids
}

// nni swaps a child of c with a sibling of c.
func nni(g *core.G, p, c *core.N) {
	var sib []int
	for i, k := range p.Kids {
		if k != c {
			sib = append(sib, i)
		}
	}
	if len(sib) == 0 || len(c.Kids) == 0 {
		return
	}
	i := sib[g.Intn(len(sib))]
	j := g.Intn(len(c.Kids))
	p.Kids[i], c.Kids[j] = c.Kids[j], p.Kids[i]
}

func relength(g *core.G, o *core.TreeOpts, n *core.N) {
	for _, k := range n.Kids {
		k.E.Len = g.Length(o)
		relength(g, o, k)
	}
}

func renameTip(n *core.N, from, to string) bool {
	if len(n.Kids) == 0 && n.Name == from {
		n.Name = to
		return true
	}
	for _, k := range n.Kids {
		if renameTip(k, from, to) {
			return true
		}
	}
	return false
}

// look-alike taxon names: names that a careless comparison identifies or orders
// differently (case folding, numeric value, prefixes, natural order)
var lookAlikes = [][]string{
	{"A", "a"}, {"Tip", "tip", "TIP"}, {"7", "07", "7.0"}, {"t1", "t10", "t1a"},
	{"Ab", "aB", "AB", "ab"}, {"B", "a", "C"}, {"x2", "x10"}, {"Z", "a"}, {"taxon", "Taxon", "taxon_"},
}

func tipNodes(n *core.N, out *[]*core.N) {
	if len(n.Kids) == 0 {
		*out = append(*out, n)
	}
	for _, k := range n.Kids {
		tipNodes(k, out)
	}
}

// lookAlikeNames renames some tips of the base tree (hence of every tree of the
// collection, which list the taxa in different orders) with one or two look-alike families.
func lookAlikeNames(g *core.G, base *core.N) {
	var tips []*core.N
	tipNodes(base, &tips)
	g.R.Shuffle(len(tips), func(i, j int) { tips[i], tips[j] = tips[j], tips[i] })
	used := map[string]bool{}
	for _, t := range tips {
		used[t.Name] = true
	}
	i := 0
	for fam := 1 + g.Intn(2); fam > 0; fam-- {
		f := lookAlikes[g.Intn(len(lookAlikes))]
		for _, name := range f {
			if i >= len(tips) || used[name] {
				continue
			}
			delete(used, tips[i].Name)
			tips[i].Name = name
			used[name] = true
			i++
		}
	}
}

// variant derives one tree of the collection from the (unrooted) base.
// pContract / pNNI steer how often each inner branch of the base survives.
func variant(g *core.G, o *core.TreeOpts, base *core.N, pContract, pNNI float64, rooting int) *core.N {
	t := base.Clone()
	var ie [][2]*core.N
	innerEdges(t, &ie)
	for _, pc := range ie {
		if g.Chance(pNNI) {
			nni(g, pc[0], pc[1])
		}
	}
	ie = ie[:0]
	innerEdges(t, &ie)
	// contract from the leaves upward so that parents stay valid
	for i := len(ie) - 1; i >= 0; i-- {
		if g.Chance(pContract) {
			contract(ie[i][0], ie[i][1])
		}
	}
	relength(g, o, t)
	t = rerootRandom(g, t)
	rooted := rooting == 1 || (rooting == 2 && g.Chance(0.4))
	if rooted && len(t.Kids) >= 3 {
		t = rootOn(g, t, g.Intn(len(t.Kids)))
	}
	rotate(g, t, true)
	return t
}

// transform gives another presentation of the same collection: trees permuted,
// re-rooted, rooted/unrooted, children rotated.
func transform(g *core.G, ns []*core.N) []*core.N {
	out := make([]*core.N, len(ns))
	perm := g.R.Perm(len(ns))
	for i, n := range ns {
		t := unrootN(n.Clone())
		if len(t.Kids) >= 3 {
			t = rerootRandom(g, t)
			if g.Chance(0.4) {
				t = rootOn(g, t, g.Intn(len(t.Kids)))
			}
		}
		rotate(g, t, true)
		out[perm[i]] = t
	}
	return out
}

// ---------------------------------------------------------------- generator

func baseOpts(g *core.G) core.TreeOpts {
	o := core.DefaultOpts()
	o.MinTips, o.MaxTips = 4, 9
	o.Rooted = 0
	o.Lengths = 3
	if g.Chance(0.15) {
		o.Lengths = 2 // some lengths absent: the length clause of the oracle is switched off, the rest stays
	}
	o.Supports = 2
	o.InnerNames = 0.05
	o.LenDenom = 8
	o.LenMax = 40
	return o
}

// thresholds: k/n and its float neighbours, the ends of the range, values outside
func pickCutoff(g *core.G, n int) (float64, string) {
	r := g.Intn(100)
	switch {
	case r < 40 && n > 0: // exactly on a frequency
		lo := (n + 1) / 2
		k := lo + g.Intn(n-lo+1)
		return float64(k) / float64(n), "at"
	case r < 55 && n > 0: // just beside a frequency
		lo := (n + 1) / 2
		k := lo + g.Intn(n-lo+1)
		c := float64(k) / float64(n)
		if g.Chance(0.5) {
			c = math.Nextafter(c, 2)
		} else {
			c = math.Nextafter(c, 0)
		}
		if g.Chance(0.5) {
			c = float64(k)/float64(n) + (float64(g.Intn(3))-1)/64
		}
		return c, "beside"
	case r < 65:
		return 0.5, "half"
	case r < 75:
		return 1, "one"
	case r < 88:
		return 0.5 + float64(g.Intn(33))/64, "dyadic"
	default:
		if g.Chance(0.3) { // not a finite number: NaN compares false with everything (accepted before def0221)
			nf := []float64{math.NaN(), math.NaN(), math.Inf(1), math.Inf(-1)}
			return nf[g.Intn(len(nf))], "nonfinite"
		}
		outs := []float64{0.49, 0.4999999999999999, 1.0000000000000002, 1.01, 0, -1, 2, 0.25, 1.5}
		return outs[g.Intn(len(outs))], "outside"
	}
}

// addSingles inserts single-child inner nodes (Consensus removes them since fix 5dad91e;
// before it counted both branches around such a node).

func addSingles(g *core.G, o *core.TreeOpts, n *core.N) {
	for i, k := range n.Kids {
		addSingles(g, o, k)
		if len(k.Kids) > 0 && g.Chance(0.25) {
			mid := &core.N{E: core.NewE(), Kids: []*core.N{k}}
			mid.E.Len = g.Length(o)
			n.Kids[i] = mid
		}
	}
}

// funny: odd tip names allowed (library cases)
var funny bool

// rehashP: share of the collections with more than 96 distinct bipartitions (2% in the quick tier, 0.6% in the
// thorough one, where they are the most expensive cases of the driver)
var rehashP = 0.02

// big: thorough tier only — a share of the collections has up to 18 taxa and up to 20 trees
var big bool

func collection(g *core.G) ([]*core.N, core.TreeOpts) {
	o := baseOpts(g)
	sizes := []int{1, 2, 2, 3, 3, 4, 4, 4, 5, 6, 6, 8, 8, 10, 12}
	if big && g.Chance(0.03) {
		o.MinTips, o.MaxTips = 10, 18
		sizes = []int{7, 12, 16, 20}
	}
	if g.Chance(0.1) { // exactly four taxa: one possible inner bipartition per tree
		o.MinTips, o.MaxTips = 4, 4
	}
	if funny && g.Chance(0.1) { // look-alike / odd tip names (library tier only: built through the API)
		o.FunnyNames = true
	}
	if g.Chance(rehashP) { // more than 96 distinct bipartitions: the edge index (128 buckets, load factor 0.75) is rehashed
		return rehashCollection(g, o), o
	}
	base, _ := g.Tree(o)
	if g.Chance(0.15) { // look-alike taxon names (case-only differences, numeric aliases, prefixes)
		lookAlikeNames(g, base)
	}
	k := sizes[g.Intn(len(sizes))]
	pC := []float64{0, 0.1, 0.3, 0.5}[g.Intn(4)]
	pN := []float64{0, 0.1, 0.3}[g.Intn(3)]
	rooting := g.Intn(3)
	ns := make([]*core.N, k)
	withSingles := g.Chance(0.2)
	if g.Chance(0.04) { // all-star trees: no inner bipartition anywhere
		pC, pN = 1, 0
	}
	tipRooted := g.Chance(0.08)
	for i := range ns {
		ns[i] = variant(g, &o, base, pC, pN, rooting)
		if tipRooted && g.Chance(0.6) { // rooted at a tip (5a3a76a)
			if u := unrootN(ns[i]); len(u.Kids) >= 3 {
				tr := tipRoot(g, u)
				// CLI tier: a numeric-looking name on a tip root cannot go through Newick (the label
				// of a node that has a child is read back as a support value, the taxon is lost)
				if _, err := strconv.ParseFloat(tr.Name, 64); funny || err != nil {
					ns[i] = tr
				}
			}
		}
		if withSingles {
			addSingles(g, &o, ns[i])
		}
	}
	if k > 1 && g.Chance(0.15) { // duplicate trees: exact copies (same lengths, same presentation)
		for d := 1 + g.Intn(k-1); d > 0; d-- {
			i, j := g.Intn(k), g.Intn(k)
			ns[i] = ns[j].Clone()
		}
	}
	return ns, o
}

// rehashCollection: 13..15 taxa, 14..16 trees, half of them variants of one base tree (so that some
// bipartitions are frequent), half of them independent random trees on the same taxa (so that the
// index holds more than 0.75*128 = 96 bipartitions and hashmap.HashMap rehashes while it is filled).
func rehashCollection(g *core.G, o core.TreeOpts) []*core.N {
	n := 13 + g.Intn(3)
	o.MinTips, o.MaxTips = n, n
	o.Multif = 0.1
	o.FunnyNames = false
	base, _ := g.Tree(o)
	k := 14 + g.Intn(3)
	ns := make([]*core.N, k)
	for i := range ns {
		if g.Chance(0.5) {
			ns[i] = variant(g, &o, base, 0.1, 0.1, g.Intn(3))
		} else {
			t, _ := g.Tree(o)
			ns[i] = variant(g, &o, t, 0, 0, g.Intn(3))
		}
	}
	return ns
}

// textual forms of a threshold for -f; every one denotes exactly the float64 v (v is dyadic)
func fTexts(g *core.G, v float64) string {
	plain := strconv.FormatFloat(v, 'f', -1, 64)
	switch g.Intn(7) {
	case 0:
		return plain
	case 1:
		return strconv.FormatFloat(v, 'e', -1, 64)
	case 2:
		return strings.ToUpper(strconv.FormatFloat(v, 'e', -1, 64))
	case 3:
		if strings.HasPrefix(plain, "0.") {
			return plain[1:]
		}
		return plain + ".0"
	case 4:
		if strings.Contains(plain, ".") {
			return plain + "00"
		}
		return plain + ".000"
	case 5:
		return "+" + plain
	default:
		return "00" + plain
	}
}

// genClif: CLI cases with the threshold as text, stdin / Nexus / -o variants
func genClif(c *core.Ctx) {
	g := c.G
	funny = false
	ns, _ := collection(g)
	mode := g.Intn(8)
	var ft, kind string
	switch r := g.Intn(100); {
	case r < 10:
		bad := []string{"abc", "0.5.1", "1e", "0,5", "--", "0x", "1e+"}
		ft, kind = bad[g.Intn(len(bad))], "clif-badfloat"
	case r < 16:
		ft, kind = "", "clif-default"
	case r < 20: // the special values of strconv.ParseFloat (and two near misses: flag errors)
		sp := []string{"NaN", "nan", "NAN", "inf", "+Inf", "-inf", "Infinity", "-INFINITY", "+nan", "infinit"}
		ft, kind = sp[g.Intn(len(sp))], "clif-nonfinite"
	case r < 35:
		ft, kind = fTexts(g, []float64{0.5, 1}[g.Intn(2)]), "clif-edge"
	case r < 50:
		ft, kind = fTexts(g, []float64{0.25, 1.5, 0, 2, 1.015625, 0.484375}[g.Intn(6)]), "clif-outside"
	default:
		ft, kind = fTexts(g, 0.5+float64(g.Intn(33))/64), "clif-dyadic"
	}
	emitClif(c, kind, ns, ft, mode)
}

func genCase(c *core.Ctx, cli bool) {
	g := c.G
	funny = !cli
	ns, o := collection(g)
	cutoff, ck := pickCutoff(g, len(ns))
	kind := "lib-" + ck
	if cli {
		kind = "cli-" + ck
		if g.Chance(0.2) { // -f omitted: the documented default 1/2 applies
			cutoff, kind = 0.5, "cli-default"
		}
	}
	switch r := g.Intn(100); {
	case r < 12: // a differing taxon
		i := g.Intn(len(ns))
		tips := ns[i].TipNames()
		switch g.Intn(3) {
		case 0: // renamed
			renameTip(ns[i], tips[g.Intn(len(tips))], "zz")
		case 1: // same number of taxa, two renamed
			renameTip(ns[i], tips[0], "zz")
			renameTip(ns[i], tips[len(tips)-1], "yy")
		default: // one taxon more: a tip grafted at the root
			e := core.NewE()
			e.Len = g.Length(&o)
			ns[i].Kids = append(ns[i].Kids, &core.N{Name: "zz", E: e})
		}
		emitCons(c, kind+"-taxa", cli, ns, cutoff)
	case r < 35 && !cli && ck != "nonfinite":
		emitInv(c, kind, ns, transform(g, ns), cutoff)
	default:
		emitCons(c, kind, cli, ns, cutoff)
	}
}

// Run generates the cases of C09.
func Run(c *core.Ctx) {
	if c.Arg != "" {
		Replay(c, core.ReadRequests(c.Arg))
		return
	}
	big = !c.Quick()
	if big {
		rehashP = 0.006
	}
	n := c.Scale(400, 10000)
	for i := 0; i < n; i++ {
		genCase(c, false)
	}
	// the channel as Consensus reads it: error records among the trees (round 7)
	for i := 0; i < c.Scale(80, 500); i++ {
		genItems(c, false)
	}
	// input trees with a history: indexed, then modified through the API (stale indexes) (round 7)
	for i := 0; i < c.Scale(120, 800); i++ {
		genHist(c)
	}
	// the empty collection (outside the property's domain; an error since 29626f3)
	emitCons(c, "lib-empty", false, nil, 0.5)
	if c.Gotree != "" {
		m := c.Scale(25, 500)
		for i := 0; i < m; i++ {
			genCase(c, true)
		}
		for i := 0; i < c.Scale(30, 500); i++ {
			genClif(c)
		}
		for i := 0; i < c.Scale(30, 60); i++ {
			genItems(c, true)
		}
	}
}
