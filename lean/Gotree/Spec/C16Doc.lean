/-
  C16 — round-3 Spec additions (core Lean only):
  * the minimum size each generator DOCUMENTS (its guards and their messages), next to the size
    from which a call actually succeeds (`GenKind.min`);
  * a balanced-shape predicate that does not depend on where the unrooted tree is hung;
  * which inputs the other constructors of treegen.go must reject, from the inputs alone.
-/
import Gotree.Spec.C16
import Gotree.Spec.C16Extra

namespace Gotree.C16
open Gotree

/-- The minimum the code documents (its guards and their messages): "Cannot create a random binary
    tree with less than 3 tips" (uniform, yule, caterpillar, since f417e91; before: 2 for the unrooted
    case, see `insertionGenDoc2`); "… random binary tree of depth < 1" / "… unrooted balanced binary
    tree of depth < 2"; "… a star tree with less than 2 tips". -/
def GenKind.docMin (g : GenKind) (rooted : Bool) : Nat :=
  match g with
  | .balanced => if rooted then 1 else 2
  | .star => 2
  | _ => 3

/-- sizes the documentation admits but the code answers with an error: none since f417e91 (before,
    the 2-tip unrooted call of the three insertion generators) -/
def docGap (g : GenKind) (n : Int) (rooted : Bool) : Bool :=
  decide ((g.docMin rooted : Int) ≤ n) && decide (n < (g.min rooted : Int))

/- ### balanced shape, wherever the unrooted tree is hung -/

mutual
/-- child-index paths of all nodes -/
def pathsT : T → List (List Nat)
  | .node _ _ ks => [] :: pathsL 0 ks
def pathsL (i : Nat) : Kids → List (List Nat)
  | [] => []
  | (_, t) :: r => (pathsT t).map (i :: ·) ++ pathsL (i + 1) r
end

/-- the unrooted tree is the balanced tree of depth `d`: seen from SOME node it has two complete
    subtrees of height `d-2` and one of height `d-1` -/
def balancedShapeU (d : Nat) (t : T) : Bool :=
  (pathsT t).any fun p =>
    match rerootPath p t with
    | some t' => balancedShape false d t'
    | none => false

/-- `genTreeOK` with the root-position-free balanced clause -/
def genTreeOK2 (g : GenKind) (n : Nat) (rooted : Bool) (t : T) : Bool :=
  sameNames t.tipNames (tipNamesUpTo (g.ntips n)) && !hasDup t.tipNames && lensOk t &&
  (match g with
   | .star => starShape n t
   | .caterpillar => t.binary && t.rooted == rooted && caterShape rooted t
   | .balanced => t.binary && t.rooted == rooted && (if rooted then balancedShape true n t else balancedShapeU n t)
   | _ => t.binary && t.rooted == rooted)

/- ### the other constructors: what must be rejected, from the inputs alone -/

/-- StarTreeFromName: fewer than two names -/
def starnMustReject (names : List String) : Bool := decide (names.length < 2)

/-- StarTreeFromTree: fewer than two terminal branches, or two of them with the same tip name -/
def startMustReject (tin : T) : Bool :=
  decide ((tipEdgesOf tin).length < 2) || hasDup ((tipEdgesOf tin).map (·.1))

/-- BipartitionTree: a side with fewer than two names, a name on both sides, or twice on one side -/
def bipartMustReject (left right : List String) : Bool :=
  decide (left.length ≤ 1) || decide (right.length ≤ 1) || hasDup (left ++ right)

end Gotree.C16
