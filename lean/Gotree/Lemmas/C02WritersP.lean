/-
  C02 — on the structures `ConnectNodes` builds (`P.ofT`), the pointer-level writers never reach their index panic
  and write exactly what the tree-value models write.
-/
import Gotree.Model.C02WritersP

namespace Gotree.C02.Writers
open Gotree Gotree.C02

theorem ofKids_length : ∀ k : Kids, (P.ofKids k).length = k.length
  | [] => rfl
  | (_, _) :: r => by simp [P.ofKids, ofKids_length r]

mutual
theorem pxNodeP_ofT (lvl : Nat) (above : Option EdgeD) : ∀ t : T, pxNodeP lvl above (P.ofT t) = .ok (pxNode lvl above t)
  | .node d p k => by
    simp only [P.ofT, pxNodeP, pxNode]
    rw [pxKidsP_ofKids (lvl + 1) k, ofKids_length]
theorem pxKidsP_ofKids (lvl : Nat) : ∀ k : Kids, pxKidsP lvl (P.ofKids k) (brsOf k) = .ok (pxKids lvl k)
  | [] => by simp [P.ofKids, brsOf, pxKidsP, pxKids]
  | (e, t) :: r => by
    simp only [P.ofKids, brsOf, pxKidsP, pxKids]
    rw [pxNodeP_ofT lvl (some e) t, pxKidsP_ofKids lvl r]
end

theorem ofT_d : ∀ t : T, (P.ofT t).d = t.d
  | .node _ _ _ => by simp [P.ofT, P.d, T.d]

open Gotree.Newick in
mutual
theorem writeNodeP_ofT (C : Codec) (nonRoot : Bool) : ∀ t : T, writeNodeP C nonRoot (P.ofT t) = .ok (writeNode C nonRoot t)
  | .node d p k => by
    simp only [P.ofT, writeNodeP, writeNode]
    rw [writeKidsP_ofKids C true k, ofKids_length]
theorem writeKidsP_ofKids (C : Codec) (first : Bool) : ∀ k : Kids, writeKidsP C first (P.ofKids k) (brsOf k) = .ok (writeKids C first k)
  | [] => by simp [P.ofKids, brsOf, writeKidsP, writeKids]
  | (e, t) :: r => by
    simp only [P.ofKids, brsOf, writeKidsP, writeKids]
    rw [writeNodeP_ofT C true t, writeKidsP_ofKids C false r]
    simp only [ofT_d, List.append_assoc]
end

theorem newickP_ofT (t : T) : newickP (P.ofT t) = .ok (newickText t).toList := by
  unfold newickP
  rw [writeNodeP_ofT, ofT_d]
  simp [newickText, Gotree.Newick.writeStr, Gotree.Newick.write]

end Gotree.C02.Writers
