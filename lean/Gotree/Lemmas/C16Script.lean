/-
  C16 — the draw protocol: a generator call reads exactly the scripted random values
  (`nintsZ` integer draws, `nlens` exponential lengths) and nothing else.
-/
import Gotree.Lemmas.C16

namespace Gotree.C16
open Gotree

/-- two draw sequences agree on the scripted prefix -/
def SameScript (g : GenKind) (n : Int) (rooted : Bool) (ints ints' : List Nat) (lens lens' : List Rat) : Prop :=
  (∀ j, j < g.nintsZ n rooted → ints'.getD j 0 = ints.getD j 0) ∧
  (∀ j, j < g.nlens n rooted → lenAt lens' j = lenAt lens j)

theorem iter_congr (step step' : Nat → St → Res St) (P : Nat → St → Prop) (n : Nat)
    (hstep : ∀ i s, 2 ≤ i → i < n → P i s → step i s = step' i s ∧ ∀ s', step i s = .ok s' → P (i + 1) s') :
    ∀ (c i : Nat) (s : St), 2 ≤ i → i + c ≤ n → P i s → iter step c i s = iter step' c i s
  | 0, _, _, _, _, _ => rfl
  | c + 1, i, s, h2, hn, hp => by
    obtain ⟨he, hnext⟩ := hstep i s h2 (by omega) hp
    simp only [iter]
    rw [← he]
    cases hs : step i s with
    | ok s' => exact iter_congr step step' P n hstep c (i + 1) s' (by omega) (by omega) (hnext s' hs)
    | err m => rfl
    | panic m => rfl

def baseLens (rooted : Bool) : Nat := if rooted then 2 else 1

theorem uniformStep_li (ints : List Nat) (lens : List Rat) (i : Nat) (s s' : St)
    (h : uniformStep ints lens i s = .ok s') : s'.li = s.li + 3 := by
  simp only [uniformStep] at h
  split at h
  · cases h
  · split at h
    · cases h; rfl
    · cases h
    · cases h

theorem yuleStep_li (ints : List Nat) (lens : List Rat) (i : Nat) (s s' : St)
    (h : yuleStep ints lens i s = .ok s') : s'.li = s.li + 3 := by
  simp only [yuleStep] at h
  split at h
  · cases h
  · split at h
    · cases h
    · split at h
      · cases h; rfl
      · cases h
      · cases h

theorem caterStep_li (lens : List Rat) (i : Nat) (s s' : St)
    (h : caterStep lens i s = .ok s') : s'.li = s.li + 3 := by
  simp only [caterStep] at h
  split at h
  · cases h
  · split at h
    · cases h; rfl
    · cases h
    · cases h

/-- the frame of the insertion generators reads lengths 0 (and 1) at the start and, at tip `i`, the
    three lengths from `base + 3 (i-2)` on -/
theorem insertionGenDoc2_congr (step step' : Nat → St → Res St) (n : Int) (rooted : Bool) (lens lens' : List Rat)
    (hl : ∀ j, j < (if n < 2 || (n < 3 && rooted) then 0 else baseLens rooted + 3 * (n.toNat - 2)) →
      lenAt lens' j = lenAt lens j)
    (hstep : ∀ i s, 2 ≤ i → i < n.toNat → s.li = baseLens rooted + 3 * (i - 2) → step i s = step' i s)
    (hli : ∀ i s s', step i s = .ok s' → s'.li = s.li + 3) :
    insertionGenDoc2 step n rooted lens = insertionGenDoc2 step' n rooted lens' := by
  unfold insertionGenDoc2
  by_cases h2 : n < 2
  · simp [h2]
  · by_cases h3 : (n < 3 && rooted) = true
    · simp [h2, h3]
    · have hc : (decide (n < 2) || (decide (n < 3) && rooted)) = false := by simp [h2]; simpa using h3
      simp only [hc, Bool.false_eq_true, if_false] at hl
      have hinit : initSt rooted lens = initSt rooted lens' := by
        have l0 := hl 0 (by unfold baseLens; split <;> omega)
        cases rooted with
        | false => simp [initSt, initTree, l0]
        | true =>
          have l1 := hl 1 (by unfold baseLens; simp only [if_true]; omega)
          simp [initSt, initTree, l0, l1]
      have hiter : iter step (n.toNat - 2) 2 (initSt rooted lens) = iter step' (n.toNat - 2) 2 (initSt rooted lens) := by
        apply iter_congr step step' (fun i s => s.li = baseLens rooted + 3 * (i - 2)) n.toNat
        · intro i s hi2 hin hp
          refine ⟨hstep i s hi2 hin hp, fun s' hs' => ?_⟩
          have := hli i s s' hs'
          show s'.li = baseLens rooted + 3 * (i + 1 - 2)
          have hp' : s.li = baseLens rooted + 3 * (i - 2) := hp
          omega
        · omega
        · omega
        · cases rooted <;> simp [initSt, initTree, baseLens]
      simp only [h2, h3, if_false, Bool.false_eq_true]
      rw [hiter, hinit]

theorem insertionGen_congr (step step' : Nat → St → Res St) (n : Int) (rooted : Bool) (lens lens' : List Rat)
    (hl : ∀ j, j < (if n < 3 then 0 else baseLens rooted + 3 * (n.toNat - 2)) → lenAt lens' j = lenAt lens j)
    (hstep : ∀ i s, 2 ≤ i → i < n.toNat → s.li = baseLens rooted + 3 * (i - 2) → step i s = step' i s)
    (hli : ∀ i s s', step i s = .ok s' → s'.li = s.li + 3) :
    insertionGen step n rooted lens = insertionGen step' n rooted lens' := by
  unfold insertionGen
  by_cases h3 : n < 3
  · simp [h3]
  · rw [if_neg h3, if_neg h3]
    apply insertionGenDoc2_congr step step' n rooted lens lens' ?_ hstep hli
    intro j hj
    apply hl j
    have h2 : ¬ n < 2 := by omega
    simpa [h2, h3] using hj

theorem uniformStep_congr (ints ints' : List Nat) (lens lens' : List Rat) (i : Nat) (s : St)
    (hi : ints'.getD (i - 2) 0 = ints.getD (i - 2) 0)
    (h0 : lenAt lens' s.li = lenAt lens s.li) (h1 : lenAt lens' (s.li + 1) = lenAt lens (s.li + 1))
    (h2 : lenAt lens' (s.li + 2) = lenAt lens (s.li + 2)) :
    uniformStep ints lens i s = uniformStep ints' lens' i s := by
  simp only [uniformStep, hi, h0, h1, h2]

theorem yuleStep_congr (ints ints' : List Nat) (lens lens' : List Rat) (i : Nat) (s : St)
    (hi : ints'.getD (i - 2) 0 = ints.getD (i - 2) 0)
    (h0 : lenAt lens' s.li = lenAt lens s.li) (h1 : lenAt lens' (s.li + 1) = lenAt lens (s.li + 1))
    (h2 : lenAt lens' (s.li + 2) = lenAt lens (s.li + 2)) :
    yuleStep ints lens i s = yuleStep ints' lens' i s := by
  simp only [yuleStep, hi, h0, h1, h2]

theorem caterStep_congr (lens lens' : List Rat) (i : Nat) (s : St)
    (h0 : lenAt lens' s.li = lenAt lens s.li) (h1 : lenAt lens' (s.li + 1) = lenAt lens (s.li + 1))
    (h2 : lenAt lens' (s.li + 2) = lenAt lens (s.li + 2)) :
    caterStep lens i s = caterStep lens' i s := by
  simp only [caterStep, h0, h1, h2]

/-- the balanced recursion reads the `2 (2^(f+1) - 1)` lengths from `li` on -/
theorem balKids_congr (lens lens' : List Rat) : ∀ (f id li : Nat),
    (∀ j, li ≤ j → j < li + 2 * (2 ^ (f + 1) - 1) → lenAt lens' j = lenAt lens j) →
    balKids lens f id li = balKids lens' f id li ∧ (balKids lens f id li).2.2 = li + 2 * (2 ^ (f + 1) - 1)
  | 0, id, li, h => by
    have a := h li (by omega) (by simp)
    have b := h (li + 1) (by omega) (by simp)
    simp [balKids, a, b]
  | f + 1, id, li, h => by
    have hp : 2 ^ (f + 1 + 1) = 2 * 2 ^ (f + 1) := by rw [Nat.pow_succ]; omega
    have hpos : 1 ≤ 2 ^ (f + 1) := Nat.one_le_two_pow
    have a := h li (by omega) (by omega)
    have b := h (li + 1) (by omega) (by omega)
    obtain ⟨e1, n1⟩ := balKids_congr lens lens' f id (li + 2) (fun j h1 h2 => h j (by omega) (by omega))
    obtain ⟨e2, n2⟩ := balKids_congr lens lens' f (balKids lens f id (li + 2)).2.1 (balKids lens f id (li + 2)).2.2
      (fun j h1 h2 => h j (by omega) (by omega))
    refine ⟨?_, ?_⟩
    · rw [balKids_succ, balKids_succ, a, b, ← e1, ← e2]
    · rw [balKids_succ]; simp only; rw [n2, n1]; omega

theorem run_congr (g : GenKind) (n : Int) (rooted : Bool) (ints ints' : List Nat) (lens lens' : List Rat)
    (h : SameScript g n rooted ints ints' lens lens') :
    run g n rooted ints' lens' = run g n rooted ints lens := by
  obtain ⟨hi, hl⟩ := h
  cases g with
  | uniform =>
    simp only [run, uniform]
    symm
    apply insertionGen_congr
    · intro j hj; exact hl j (by simpa [GenKind.nlens, baseLens] using hj)
    · intro i s h2 hin hli
      have hc : ¬ (n < 2) ∧ ¬ (n < 3) := by omega
      have hn : GenKind.nintsZ .uniform n rooted = n.toNat - 2 := by simp [GenKind.nintsZ, hc.1, hc.2]
      have hnl : GenKind.nlens .uniform n rooted = baseLens rooted + 3 * (n.toNat - 2) := by
        simp [GenKind.nlens, baseLens, hc.1, hc.2]
      rw [hnl] at hl
      exact uniformStep_congr ints ints' lens lens' i s (hi _ (by rw [hn]; omega))
        (hl _ (by omega)) (hl _ (by omega)) (hl _ (by omega))
    · exact uniformStep_li ints lens
  | yule =>
    simp only [run, yule]
    symm
    apply insertionGen_congr
    · intro j hj; exact hl j (by simpa [GenKind.nlens, baseLens] using hj)
    · intro i s h2 hin hli
      have hc : ¬ (n < 2) ∧ ¬ (n < 3) := by omega
      have hn : GenKind.nintsZ .yule n rooted = n.toNat - 2 := by simp [GenKind.nintsZ, hc.1, hc.2]
      have hnl : GenKind.nlens .yule n rooted = baseLens rooted + 3 * (n.toNat - 2) := by
        simp [GenKind.nlens, baseLens, hc.1, hc.2]
      rw [hnl] at hl
      exact yuleStep_congr ints ints' lens lens' i s (hi _ (by rw [hn]; omega))
        (hl _ (by omega)) (hl _ (by omega)) (hl _ (by omega))
    · exact yuleStep_li ints lens
  | caterpillar =>
    simp only [run, caterpillar]
    symm
    apply insertionGen_congr
    · intro j hj; exact hl j (by simpa [GenKind.nlens, baseLens] using hj)
    · intro i s h2 hin hli
      have hc : ¬ (n < 2) ∧ ¬ (n < 3) := by omega
      have hnl : GenKind.nlens .caterpillar n rooted = baseLens rooted + 3 * (n.toNat - 2) := by
        simp [GenKind.nlens, baseLens, hc.1, hc.2]
      rw [hnl] at hl
      exact caterStep_congr lens lens' i s (hl _ (by omega)) (hl _ (by omega)) (hl _ (by omega))
    · exact caterStep_li lens
  | balanced =>
    simp only [run, balanced]
    by_cases h1 : n < 1
    · simp [h1]
    · by_cases h2 : (n < 2 && !rooted) = true
      · simp [h1, h2]
      · have hnl : GenKind.nlens .balanced n rooted = 2 * (2 ^ n.toNat - 1) := by
          have : (decide (n < 1) || (decide (n < 2) && !rooted)) = false := by simp [h1]; simpa using h2
          simp [GenKind.nlens, this]
        rw [hnl] at hl
        have hf : n.toNat - 1 + 1 = n.toNat := by omega
        have := (balKids_congr lens lens' (n.toNat - 1) 0 0 (fun j _ hj => hl j (by rw [hf] at hj; omega))).1
        simp only [h1, h2, if_false, Bool.false_eq_true, this]
  | star => rfl

end Gotree.C16
