/-
  C12 — when the plain down-pass reports exactly one state at every node, the labelling it
  spells out IS the (unique) most parsimonious labelling: path lemmas needed for that.
-/
import Gotree.Lemmas.C12Unamb

namespace Gotree.C12
open Gotree

/- a slice read at a path is one of the slices of the annotated tree -/
mutual
theorem A.get_mem_flat : ∀ (a : A) (p : List Nat) (v : Vec), a.get p = some v → v ∈ a.flat
  | .node s ks, [], v, h => by
    simp only [A.get, Option.some.injEq] at h; subst h; simp [A.flat]
  | .node s ks, i :: p, v, h => by
    simp only [A.get] at h
    simp only [A.flat, List.mem_cons]
    exact Or.inr (A.getL_mem_flatL ks i p v h)
theorem A.getL_mem_flatL : ∀ (ks : List A) (i : Nat) (p : List Nat) (v : Vec), A.getL ks i p = some v → v ∈ A.flatL ks
  | [], _, _, _, h => by simp [A.getL] at h
  | a :: r, 0, p, v, h => by
    simp only [A.getL] at h
    simp only [A.flatL, List.mem_append]; exact Or.inl (A.get_mem_flat a p v h)
  | a :: r, i + 1, p, v, h => by
    simp only [A.getL] at h
    simp only [A.flatL, List.mem_append]; exact Or.inr (A.getL_mem_flatL r i p v h)
end

section ud
variable (k : Nat) (tv : String → Vec)

/- a labelling that fits carries, at a leaf, a state of the tip set; and is defined exactly on the paths of the tree -/
theorem fits_leaf_list : ∀ (ks : Kids),
    (∀ et ∈ ks, ∀ (l : LT) (p : List Nat) (d : NodeD) (pp s : Nat), fits k tv et.2 l = true →
      sub et.2 p = some (.node d pp []) → l.get p = some s → (tv d.name).at s ≠ 0) →
    ∀ (ls : List LT) (i : Nat) (p : List Nat) (d : NodeD) (pp s : Nat), fitsL k tv ks ls = true →
      subL ks i p = some (.node d pp []) → LT.getL ls i p = some s → (tv d.name).at s ≠ 0
  | [], _, _, _, _, _, _, _, _, h, _ => by simp [subL] at h
  | _ :: _, _, [], _, _, _, _, _, hf, _, _ => by simp [fitsL] at hf
  | (e, c) :: rest, ih, l :: lr, 0, p, d, pp, s, hf, h, hg => by
    simp only [fitsL, Bool.and_eq_true] at hf
    simp only [subL] at h
    simp only [LT.getL] at hg
    exact ih (e, c) (List.mem_cons_self ..) l p d pp s hf.1 h hg
  | (e, c) :: rest, ih, l :: lr, i + 1, p, d, pp, s, hf, h, hg => by
    simp only [fitsL, Bool.and_eq_true] at hf
    simp only [subL] at h
    simp only [LT.getL] at hg
    exact fits_leaf_list rest (fun et het => ih et (List.mem_cons_of_mem _ het)) lr i p d pp s hf.2 h hg

theorem fits_leaf : ∀ (c : T) (l : LT) (p : List Nat) (d : NodeD) (pp s : Nat), fits k tv c l = true →
    sub c p = some (.node d pp []) → l.get p = some s → (tv d.name).at s ≠ 0 := by
  intro c
  induction c using T.induct with
  | h d0 p0 ks ih =>
    intro l p d pp s hf h hg
    match ks, ih, l, p, hf, h, hg with
    | [], _, .node r ls, [], hf, h, hg =>
      simp only [fits, Bool.and_eq_true, decide_eq_true_eq] at hf
      simp only [sub, Option.some.injEq, T.node.injEq] at h
      simp only [LT.get, Option.some.injEq] at hg
      obtain ⟨h1, _, _⟩ := h
      subst h1; subst hg
      exact hf.2
    | [], _, _, i :: q, _, h, _ => simp [sub, subL] at h
    | x :: xs, _, _, [], _, h, _ => simp [sub] at h
    | x :: xs, ih, .node r ls, i :: q, hf, h, hg =>
      simp only [fits, Bool.and_eq_true, decide_eq_true_eq] at hf
      simp only [sub] at h
      simp only [LT.get] at hg
      exact fits_leaf_list k tv (x :: xs) ih ls i q d pp s hf.2 h hg

theorem down_get_sub_list : ∀ (ks : Kids),
    (∀ et ∈ ks, ∀ us (p : List Nat), ((down k tv us et.2).get p).isSome = true → (sub et.2 p).isSome = true) →
    ∀ us pre (i : Nat) (p : List Nat), (A.getL (downL k tv us pre ks) i p).isSome = true →
    (subL ks i p).isSome = true
  | [], _, _, _, _, _, h => by simp [downL, A.getL] at h
  | (e, c) :: r, ih, us, pre, 0, p, h => by
    simp only [downL, A.getL] at h
    simp only [subL]
    exact ih (e, c) (List.mem_cons_self ..) _ p h
  | (e, c) :: r, ih, us, pre, i + 1, p, h => by
    simp only [downL, A.getL] at h
    simp only [subL]
    exact down_get_sub_list r (fun et het => ih et (List.mem_cons_of_mem _ het)) us _ i p h

theorem down_get_sub : ∀ (c : T) us (p : List Nat), ((down k tv us c).get p).isSome = true →
    (sub c p).isSome = true := by
  intro c
  induction c using T.induct with
  | h d pp ks ih =>
    intro us p h
    match ks, ih, p, h with
    | [], _, [], _ => simp [sub]
    | [], _, i :: q, h => simp [down, A.get, A.getL] at h
    | x :: xs, _, [], _ => simp [sub]
    | x :: xs, ih, i :: q, h =>
      simp only [down, A.get] at h
      simp only [sub]
      exact down_get_sub_list k tv (x :: xs) ih us _ i q h

/- the labelling read off the down-pass slices equals any fitting labelling that agrees with it path by path -/
theorem label_eq_list : ∀ (ks : Kids),
    (∀ et ∈ ks, ∀ us (l : LT) (rest : List Nat), fits k tv et.2 l = true →
      (∀ p s vec, l.get p = some s → (down k tv us et.2).get p = some vec → hd k vec = s) →
      labelOf et.2 ((down k tv us et.2).flat.map (hd k) ++ rest) = (l, rest)) →
    ∀ us pre (ls : List LT) (rest : List Nat), fitsL k tv ks ls = true →
      (∀ i p s vec, LT.getL ls i p = some s → A.getL (downL k tv us pre ks) i p = some vec → hd k vec = s) →
      labelOfL ks ((A.flatL (downL k tv us pre ks)).map (hd k) ++ rest) = (ls, rest)
  | [], _, _, _, [], rest, _, _ => by simp [downL, A.flatL, labelOfL]
  | [], _, _, _, _ :: _, _, hf, _ => by simp [fitsL] at hf
  | _ :: _, _, _, _, [], _, hf, _ => by simp [fitsL] at hf
  | (e, c) :: r, ih, us, pre, l :: lr, rest, hf, hag => by
    simp only [fitsL, Bool.and_eq_true] at hf
    have hc := ih (e, c) (List.mem_cons_self ..) _ l
      ((A.flatL (downL k tv us (vadd k pre (upS k tv c)) r)).map (hd k) ++ rest) hf.1
      (fun p s vec h1 h2 => hag 0 p s vec (by simpa [LT.getL] using h1) (by simpa [downL, A.getL] using h2))
    have hr := label_eq_list r (fun et het => ih et (List.mem_cons_of_mem _ het)) us
      (vadd k pre (upS k tv c)) lr rest hf.2
      (fun i p s vec h1 h2 => hag (i + 1) p s vec (by simpa [LT.getL] using h1) (by simpa [downL, A.getL] using h2))
    simp only [downL, A.flatL, List.map_append, List.append_assoc, labelOfL]
    simp only [] at hc
    rw [hc]
    simp only []
    rw [hr]

theorem label_eq : ∀ (c : T) us (l : LT) (rest : List Nat), fits k tv c l = true →
    (∀ p s vec, l.get p = some s → (down k tv us c).get p = some vec → hd k vec = s) →
    labelOf c ((down k tv us c).flat.map (hd k) ++ rest) = (l, rest) := by
  intro c
  induction c using T.induct with
  | h d pp ks ih =>
    intro us l rest hf hag
    match ks, ih, l, hf, hag with
    | [], _, .node r ls, hf, hag =>
      simp only [fits, Bool.and_eq_true, decide_eq_true_eq, List.isEmpty_iff] at hf
      have h0 := hag [] r (tv d.name) (by simp [LT.get]) (by simp [down, A.get])
      obtain ⟨⟨hls, _⟩, _⟩ := hf
      subst hls
      simp [down, A.flat, A.flatL, labelOf, labelOfL, h0]
    | x :: xs, ih, .node r ls, hf, hag =>
      simp only [fits, Bool.and_eq_true, decide_eq_true_eq] at hf
      have h0 := hag [] r (down k tv us (.node d pp (x :: xs))).s (by simp [LT.get]) (by simp [down, A.get, A.s])
      have hl := label_eq_list k tv (x :: xs) ih us (vzero k) ls rest hf.2
        (fun i p s vec h1 h2 => hag (i :: p) s vec (by simpa [LT.get] using h1) (by simpa [down, A.get] using h2))
      simp only [down, A.flat, List.map_cons, List.cons_append, labelOf, List.headD_cons, List.drop_succ_cons,
        List.drop_zero]
      simp only [down, A.s] at h0
      rw [hl, h0]

end ud

end Gotree.C12
