// Package c02: readers are total (never crash, never hang); delivered trees are usable.
//
// Case lines:
//
//	C02.read <format> <bufsize> <input bytes, percent-escaped> <outcome> <records> <decoded>
//	C02.scale <kind> <worst outcome> <sizes n,> <bytes,> <microseconds of the reader alone,>
//	C02.readln <bufsize> <input> <lines returned by fileutils.Readln until its error, each followed by ",">
//	C02.file <mode> <format> <input> <outcome> <records> <decoded> <open|noopen> <bytes the reader effectively had>
//	C02.nest <depth> <outcome> <use class>
//	C02.nestx <format> <depth> <outcome> <use class>
//	C02.cli  <newick|nexus|phyloxml|nextstrain> <input> <outcome of `gotree reformat newick -i file --format f`> <lines written> <file|stdin|gz>
//	C02.utf8 <bytes, percent-escaped> <code points read by bufio.Reader.ReadRune until EOF, each followed by ",">
//	C02.clicmd <gotree sub-command> <format> <input: first record is an error, or a degenerate valid tree> <outcome>
//	C02.lit  <literal, percent-escaped> <ParseInt(s,10,64): E|n> <ParseFloat(s,64): E|exact rational|nan|+inf|-inf>
//
// decoded = for the XML / JSON formats what encoding/xml / encoding/json made of the input (the
// clade structure the models start from), "E" when the decoder failed, "" for the text formats.
//
// outcome = ok | err | panic:<msg> | exit:<n> | timeout (observed from the parent of an isolated
// worker process).  records = one item per delivered record, each followed by "|":
// "<id>:err::" or "<id>:tree:<use class>:<α dump before use>", use class = ok | err (ReinitIndexes
// returned an error) | counts | panic:<msg>.
package c02

import (
	"bufio"
	"bytes"
	"compress/gzip"
	"fmt"
	"os"
	"strconv"
	"strings"
	"sync"
	"time"

	"verifharness/core"

	"github.com/evolbioinfo/gotree/io/fileutils"
	"github.com/evolbioinfo/gotree/io/phyloxml"
	"github.com/evolbioinfo/gotree/tree"
)

type request struct {
	op      string // read | nest
	format  string
	bufsize int
	input   []byte
	depth   int
	expect  string // op dec: the generator's structure, or "E"
	kind    string // op dec: valid | the kind of corruption
}

func (r request) line() string {
	if r.op == "nest" {
		return "nest\t" + strconv.Itoa(r.depth)
	}
	if r.op == "nestx" {
		return "nestx\t" + r.format + "\t" + strconv.Itoa(r.depth)
	}
	if r.op == "wb" {
		return "wb\t" + r.format + "\t" + core.Escape(string(r.input))
	}
	if r.op == "file" {
		return "file\t" + r.kind + "\t" + r.format + "\t" + core.Escape(string(r.input))
	}
	return "read\t" + r.format + "\t" + strconv.Itoa(r.bufsize) + "\t" + core.Escape(string(r.input))
}

func watchdog(c *core.Ctx) time.Duration {
	if c.Quick() {
		return 4 * time.Second
	}
	return 5 * time.Second
}

// execute runs the requests on the real code (isolated workers) and emits the case lines.
func execute(c *core.Ctx, reqs []request) {
	jobs := make([]job, len(reqs))
	for i, r := range reqs {
		to := watchdog(c)
		if r.op == "nest" || r.op == "nestx" {
			to = 120 * time.Second
		}
		jobs[i] = job{r.line(), to}
	}
	nw := 4
	res := runPool(jobs, nw)
	shrunk := 0
	for i, r := range reqs {
		// a crash of a read request is shrunk (delta debugging on the bytes, same kind of crash) so that the
		// replay holds a minimal input; at most a few per run
		if r.op == "read" && crashed(res[i]) && shrunk < 6 && len(r.input) > 1 {
			shrunk++
			in, rep := shrink(r, res[i], watchdog(c))
			reqs[i].input, res[i] = in, rep
			r = reqs[i]
		}
		parts := strings.SplitN(res[i], "\t", 5)
		for len(parts) < 5 {
			parts = append(parts, "")
		}
		if r.op == "nest" {
			c.Emit("C02.nest", strconv.Itoa(r.depth), parts[0], parts[1])
		} else if r.op == "nestx" {
			c.Emit("C02.nestx", r.format, strconv.Itoa(r.depth), parts[0], parts[1])
		} else if r.op == "file" {
			c.Emit("C02.file", r.kind, r.format, core.Escape(string(r.input)), parts[0], parts[1], parts[2], parts[3], parts[4])
		} else if r.op == "wb" {
			c.Emit("C02.wb", r.format, core.Escape(string(r.input)), parts[0], parts[1])
		} else if r.op == "dec" {
			c.Emit("C02.dec", r.format, core.Escape(string(r.input)), parts[0], parts[1], parts[2], r.expect, r.kind)
		} else {
			c.Emit("C02.read", r.format, strconv.Itoa(r.bufsize), core.Escape(string(r.input)), parts[0], parts[1], parts[2])
		}
	}
}

// crashed: the reply of a read request shows a crash of the reader or of the use of a delivered tree
func crashed(reply string) bool {
	parts := strings.SplitN(reply, "\t", 3)
	if parts[0] != "ok" && parts[0] != "err" {
		return true
	}
	return len(parts) > 1 && strings.Contains(parts[1], ":tree:panic")
}

// crashKind: what must stay the same while shrinking
func crashKind(reply string) string {
	parts := strings.SplitN(reply, "\t", 3)
	if parts[0] != "ok" && parts[0] != "err" {
		k := parts[0]
		if len(k) > 40 {
			k = k[:40]
		}
		return k
	}
	return "use-panic"
}

// shrink: ddmin over the input bytes, each candidate executed alone on a fresh pool of one worker.
func shrink(r request, reply string, to time.Duration) ([]byte, string) {
	kind := crashKind(reply)
	if strings.HasPrefix(kind, "timeout") && to > 2*time.Second {
		to = 2 * time.Second
	}
	try := func(in []byte) (string, bool) {
		q := r
		q.input = in
		rep := runPool([]job{{q.line(), to}}, 1)[0]
		return rep, crashed(rep) && crashKind(rep) == kind
	}
	cur, curRep := r.input, reply
	budget := 120
	n := 2
	for len(cur) >= 2 && budget > 0 {
		chunk := (len(cur) + n - 1) / n
		reduced := false
		for start := 0; start < len(cur) && budget > 0; start += chunk {
			end := start + chunk
			if end > len(cur) {
				end = len(cur)
			}
			cand := append(append([]byte{}, cur[:start]...), cur[end:]...)
			budget--
			if rep, ok := try(cand); ok {
				cur, curRep = cand, rep
				reduced = true
				if n > 2 {
					n--
				}
				break
			}
		}
		if !reduced {
			if n >= len(cur) {
				break
			}
			n *= 2
			if n > len(cur) {
				n = len(cur)
			}
		}
	}
	return cur, curRep
}

// Replay re-executes the requests of a corpus / replay file.
func Replay(c *core.Ctx, lines []string) {
	var reqs []request
	for _, l := range lines {
		f := strings.Split(l, "\t")
		switch {
		case f[0] == "C02.read" && len(f) >= 4:
			bs, _ := strconv.Atoi(f[2])
			in, err := core.Unescape(f[3])
			if err != nil {
				panic(err)
			}
			reqs = append(reqs, request{op: "read", format: f[1], bufsize: bs, input: []byte(in)})
		case f[0] == "C02.wb" && len(f) >= 3:
			in, err := core.Unescape(f[2])
			if err != nil {
				panic(err)
			}
			reqs = append(reqs, request{op: "wb", format: f[1], input: []byte(in)})
		case f[0] == "C02.clifile" && len(f) >= 4:
			in, err := core.Unescape(f[3])
			if err != nil {
				panic(err)
			}
			if c.Gotree != "" {
				doCLIFile(c, f[1], f[2], []byte(in))
			}
		case f[0] == "C02.cli" && len(f) >= 3:
			in, err := core.Unescape(f[2])
			if err != nil {
				panic(err)
			}
			if c.Gotree != "" {
				doCLI(c, f[1], []byte(in))
			}
		case f[0] == "C02.clicmd" && len(f) >= 4:
			in, err := core.Unescape(f[3])
			if err != nil {
				panic(err)
			}
			cm, _ := core.Unescape(f[1])
			if c.Gotree != "" {
				doCLICmd(c, cm, f[2], []byte(in))
			}
		case f[0] == "C02.utf8" && len(f) >= 2:
			in, err := core.Unescape(f[1])
			if err != nil {
				panic(err)
			}
			emitUTF8(c, []byte(in))
		case f[0] == "C02.lit" && len(f) >= 2:
			in, err := core.Unescape(f[1])
			if err != nil {
				panic(err)
			}
			emitLit(c, in)
		case f[0] == "C02.scale" && len(f) >= 2:
			scaleKind(c, f[1], scaleSizes(c))
		case f[0] == "C02.readln" && len(f) >= 3:
			in, err := core.Unescape(f[2])
			if err != nil {
				panic(err)
			}
			bs, _ := strconv.Atoi(f[1])
			emitReadln(c, bs, []byte(in))
		case f[0] == "C02.file" && len(f) >= 4:
			in, err := core.Unescape(f[3])
			if err != nil {
				panic(err)
			}
			reqs = append(reqs, request{op: "file", kind: f[1], format: f[2], input: []byte(in)})
		case f[0] == "C02.dec" && len(f) >= 7:
			in, err := core.Unescape(f[2])
			if err != nil {
				panic(err)
			}
			k := "replay"
			if len(f) >= 8 {
				k = f[7]
			}
			reqs = append(reqs, request{op: "dec", format: f[1], input: []byte(in), expect: f[6], kind: k})
		case f[0] == "C02.nestx" && len(f) >= 3:
			d, _ := strconv.Atoi(f[2])
			if c.Quick() && d > 100000 {
				continue
			}
			reqs = append(reqs, request{op: "nestx", format: f[1], depth: d})
		case f[0] == "C02.nest" && len(f) >= 2:
			d, _ := strconv.Atoi(f[1])
			if c.Quick() && d > 100000 {
				continue // the quick tier probes nesting up to 10^5 only
			}
			reqs = append(reqs, request{op: "nest", depth: d})
		}
	}
	execute(c, reqs)
	flushCLI(c)
}

// Run generates the cases of C02.
func Run(c *core.Ctx) {
	if c.Arg == "@child" {
		Child()
		return
	}
	if c.Arg != "" && c.Arg != "race" {
		Replay(c, core.ReadRequests(c.Arg))
		return
	}
	var reqs []request
	per := c.Scale(300, 7000)
	if c.Arg == "race" {
		// the -race build: the reader goroutine against its consumer; a smaller stream is enough
		per = 400
		for _, f := range []string{"multi", "nexusm", "phyloxmlm", "nextstrainm", "newick"} {
			for i := 0; i < per; i++ {
				reqs = append(reqs, genCase(c.G, f, i))
			}
		}
		execute(c, reqs)
		return
	}
	for _, f := range Formats {
		for i := 0; i < per; i++ {
			reqs = append(reqs, genCase(c.G, f, i))
		}
	}
	// the literal stream that ties the transcription of strconv.ParseInt / ParseFloat
	nl := c.Scale(400, 20000)
	for i := 0; i < nl; i++ {
		emitLit(c, genLit(c.G, i))
	}
	// command-line glue: a share of the inputs goes through the built binary (one process each)
	if c.Gotree != "" {
		ncli := c.Scale(12, 120)
		for _, f := range []string{"newick", "nexus", "phyloxml", "nextstrain"} {
			for i := 0; i < ncli; i++ {
				fm := f
				if f == "newick" {
					fm = "multi"
				}
				r := genCase(c.G, fm, 1000+i)
				doCLI(c, f, r.input)
			}
		}
	}
	// the file-level glue through the binary: names that lead nowhere, to a directory, to an empty / one-byte file,
	// with and without the .gz suffix
	if c.Gotree != "" {
		for i, k := range []string{"missing", "missinggz", "dir", "dirgz", "empty", "emptygz", "onebyte", "onebytegz", "notgz", "plain"} {
			for _, f := range []string{"newick", "nexus", "phyloxml", "nextstrain"} {
				if c.Quick() && (i+len(f))%2 == 1 {
					continue
				}
				doCLIFile(c, f, k, genCase(c.G, map[string]string{"newick": "multi"}[f]+map[string]string{"nexus": "nexusm", "phyloxml": "phyloxmlm", "nextstrain": "nextstrainm"}[f], 5000+i).input)
			}
		}
	}
	// the byte decoder of the models against Go's (bufio.ReadRune = utf8.DecodeRune)
	nu := c.Scale(150, 5000)
	for i := 0; i < nu; i++ {
		emitUTF8(c, genBytes(c.G, i))
	}
	if c.Gotree != "" {
		cliSweep(c)
	}
	// fileutils.Readln in the callers' loop, with small ReadLine buffers
	nr := c.Scale(60, 2000)
	for i := 0; i < nr; i++ {
		bs := 16 + c.G.Intn(3)*5
		doc := genLinesDoc(c.G)
		if c.G.Chance(0.35) {
			// an unterminated last line of exactly 1..3 buffers (34f70d2: it arrives together with the end of the input)
			for k := 0; k < bs*(1+c.G.Intn(3)); k++ {
				doc = append(doc, "ab ;\t,"[c.G.Intn(6)])
			}
			if c.G.Chance(0.15) {
				doc = append(doc, 'x') // … and one byte more
			}
		}
		emitReadln(c, bs, doc)
	}
	// file-level entry points (utils.ReadTree, GetReader + ReadMultiTrees): plain, gzip (sound, truncated,
	// corrupted, not gzip at all) and missing files
	nf := c.Scale(16, 300)
	for _, f := range Formats {
		for i := 0; i < nf; i++ {
			r := genCase(c.G, f, 2000+i)
			mode := []string{"plain", "gz", "gz", "gztrunc", "gzflip", "notgz", "missing", "missinggz", "empty", "onebyte", "dir", "dirgz", "emptygz", "onebytegz"}[c.G.Intn(14)]
			reqs = append(reqs, request{op: "file", kind: mode, format: f, input: r.input})
		}
	}
	// the XML / JSON decoders: structure first, then its renderings and their corruptions
	nd := c.Scale(120, 3000)
	for _, f := range []string{"phyloxml", "phyloxmlm", "nextstrain", "nextstrainm"} {
		for i := 0; i < nd; i++ {
			reqs = append(reqs, genDec(c.G, f))
		}
	}
	// the `default` branch of the two `switch format`: a format code that is none of the four constants
	for i := 0; i < c.Scale(12, 100); i++ {
		r := genCase(c.G, Formats[c.G.Intn(len(Formats))], 3000+i)
		r.format = []string{"bad", "badm"}[i%2]
		r.bufsize = 0
		reqs = append(reqs, r)
	}
	// written back: Newick(), Nexus(), WritePhyloXML on the trees delivered for sound and for damaged documents,
	// the three texts compared with the writer models
	nwb := c.Scale(160, 4000)
	for i := 0; i < nwb; i++ {
		f := Formats[c.G.Intn(len(Formats))]
		var in []byte
		switch {
		case i < len(wbHand):
			f, in = wbHand[i][0], []byte(wbHand[i][1])
		case c.G.Chance(0.7):
			in = []byte(validDoc(c.G, f))
		default:
			in = genCase(c.G, f, 4000+i).input
		}
		reqs = append(reqs, request{op: "wb", format: f, input: in})
	}
	// size-scaling probes: the same kind of document at growing sizes, the time of the reader alone
	scaleProbes(c)
	// nesting probes
	depths := []int{1000, 10000, 100000}
	if !c.Quick() && c.Seed%1000 == 0 {
		depths = append(depths, 1000000, 3000000, 6500000)
	}
	for _, d := range depths {
		reqs = append(reqs, request{op: "nest", depth: d})
	}
	// the same nesting through the other entry points (XML / JSON decoders bound the depth themselves)
	for _, f := range []string{"multi", "nexus", "nexusm", "phyloxml", "nextstrain"} {
		for _, d := range []int{1000, 4000, 100000} {
			reqs = append(reqs, request{op: "nestx", format: f, depth: d})
		}
		if !c.Quick() && c.Seed%1000 == 0 {
			reqs = append(reqs, request{op: "nestx", format: f, depth: 1000000})
		}
	}
	execute(c, reqs)
	flushCLI(c)
}

// ------------------------------------------------------------------ documents

func treeOpts(g *core.G) core.TreeOpts {
	o := core.DefaultOpts()
	o.MinTips, o.MaxTips = 2, 9
	o.Lengths = 2
	o.Supports = 2
	o.InnerNames = 0.2
	if g.Chance(0.4) {
		o.Comments = 0.3
	}
	if g.Chance(0.3) {
		o.FunnyNames = true
	}
	if g.Chance(0.2) {
		o.Singles = 0.2
	}
	if g.Chance(0.15) {
		o.MinTips, o.MaxTips = 2, 3
	}
	return o
}

func genTree(g *core.G) (*core.N, *tree.Tree) {
	n, _ := g.Tree(treeOpts(g))
	t, err := core.Build(n)
	if err != nil {
		panic(err)
	}
	return n, t
}

var degenerateNewick = []string{"(a);", "((a,b));", "();", "(,);", "((),());", "(a,b)c;", "(a)(b);", "((a));", "(a:1,b:2):3;",
	"(a,b)[c];", "[pre](a,b);", "(a,a);", "( a , b );", "(a,b)0.5;", "((a,b)0.5/0.01,c);", "(a[x],b:1[y][z]);", "(a,b);(c,d);", "(a,(b,c)d:1)e;",
	"(:1,:2);", "('a b',c);", "(a)x ;", "((a,b)) y\t;", "(a) x y :1;", "(a,b)0.5/0.1;", "(a,b)1/2:3;", "((a,b)0.5/0.1/0.2,c);", "((a,b)1/2/x,c);", "((a,b)a/b/c,c);", "((a,b)/1,c);", "((a,b)1/,c);", "((a,b)//,c);", "(a)1/2;", "(a,b)x/y;", "(a(b))x/y;", "(a(b))1/2;", "((a,b)x/1,c);", "(a,b)0.5;", "(a,b)0.5:1[c];", "(a,b):1;", "(a,b)[c]:1;", "(a\x00b,c);", "(\xffa,b);"}

func newickDoc(g *core.G) string {
	if g.Chance(0.12) {
		return g.Pick(degenerateNewick)
	}
	_, t := genTree(g)
	return t.Newick()
}

var lineSeps = []string{"\n", "\n", "\r\n", "\n\n", "\n \n", "\n\t \n", " \n", ";\n", "\n  ", "", " ", "\n;\n"}

func multiDoc(g *core.G) string {
	k := 1 + g.Intn(4)
	var b strings.Builder
	if g.Chance(0.1) {
		b.WriteString(g.Pick([]string{" \n", "\n", "\t\t\n", "  ", "\r\n"}))
	}
	for i := 0; i < k; i++ {
		nw := newickDoc(g)
		if g.Chance(0.25) && len(nw) > 4 {
			// wrap the tree on several lines
			p := 1 + g.Intn(len(nw)-2)
			nw = nw[:p] + "\n" + nw[p:]
		}
		if g.Chance(0.2) {
			nw += g.Pick([]string{" ", "  \t", "\t"})
		}
		b.WriteString(nw)
		b.WriteString(g.Pick(lineSeps))
	}
	return b.String()
}

// lengths next to which a length test of the code may sit (buffer sizes, message limits)
var lenThresholds = []int{0, 1, 2, 15, 16, 17, 31, 32, 63, 64, 65, 79, 80, 81, 100, 127, 128, 129, 200, 255, 256, 257, 300, 4095, 4096, 4097}

func lenNear(g *core.G) int {
	n := lenThresholds[g.Intn(len(lenThresholds))] + g.Intn(5) - 2
	if n < 0 {
		n = 0
	}
	return n
}

// blankRun: n characters of blanks, now and then cut into whitespace-only lines
func blankRun(g *core.G, n int) string {
	var b strings.Builder
	lines := g.Chance(0.5)
	for b.Len() < n {
		switch {
		case lines && g.Chance(0.03):
			b.WriteString(g.Pick([]string{"\n", "\r\n"}))
		case g.Chance(0.15):
			b.WriteByte('\t')
		default:
			b.WriteByte(' ')
		}
	}
	return b.String()
}

// stressMulti: multi-tree streams whose blank runs, leftover texts and unterminated tails have lengths next to
// the thresholds: 0..2 sound trees, then a tail (the error paths of ReadUntilSemiColon / ReadMultiTrees after the
// last ';' depend on what was delivered before and on the raw and trimmed lengths of what is left)
func stressMulti(g *core.G) string {
	var b strings.Builder
	k := g.Intn(3)
	for i := 0; i < k; i++ {
		b.WriteString(g.Pick([]string{"(A,B,(C,D));", "(a,b);", "((a:1,b:2)0.5:1,c);"}))
		b.WriteString(g.Pick([]string{"\n", "\n", "", " ", "\r\n"}))
	}
	open := g.Pick([]string{"(E,F", "(E,(F,G)", "(E,F)", "x", "(E,F)x:1", "(E[c", "(" + strings.Repeat("a,", lenNear(g)/2)})
	switch g.Intn(6) {
	case 0, 1: // an unterminated last tree inside blank padding
		b.WriteString(blankRun(g, lenNear(g)))
		if g.Chance(0.5) {
			b.WriteString("\n")
		}
		b.WriteString(open)
		if g.Chance(0.6) {
			b.WriteString(g.Pick([]string{"", "\n"}) + blankRun(g, lenNear(g)))
		}
	case 2: // leftover text that is no tree at all
		b.WriteString(strings.Repeat(g.Pick([]string{"x", "ab ", "é"}), lenNear(g)))
	case 3: // blanks only
		b.WriteString(blankRun(g, lenNear(g)))
	case 4: // a long blank run inside a tree
		b.WriteString("(a," + blankRun(g, lenNear(g)) + "b)" + g.Pick([]string{";", ";\n", "", " ;" + blankRun(g, lenNear(g))}))
	case 5: // blanks between the last tree and its ';', then more blanks
		b.WriteString("(a,b)" + blankRun(g, lenNear(g)) + ";" + blankRun(g, lenNear(g)))
	}
	return b.String()
}

// degenerate trees for the writers: a tip root, a single node, single-child chains, every decoration at once
var wbHand = [][2]string{{"newick", "(a);"}, {"newick", "((a,b));"}, {"newick", "((a:1,b:2)0.5/0.01:3[e]x[n],c[&k=v]:0.25[be])r[rc];"},
	{"newick", "(((a)));"}, {"multi", "(a,b);(c:1e-3,d:1e21);"}, {"nexusm", "#NEXUS\nBEGIN TREES;\nTREE t = ((a,b)1:2,c);\nTREE u = (a);\nEND;"},
	{"phyloxml", "<phyloxml><phylogeny><clade><name>a</name></clade></phylogeny></phyloxml>"},
	{"phyloxmlm", "<phyloxml><phylogeny><clade><clade><name>a</name><branch_length>0.1</branch_length><confidence>3</confidence></clade></clade></phylogeny></phyloxml>"},
	{"phyloxml", "<phyloxml><phylogeny><clade><clade><confidence>0.5</confidence><branch_length>2</branch_length><clade><name>x&lt;y</name></clade><clade><name>b</name></clade></clade><clade><name>c</name></clade></clade></phylogeny></phyloxml>"},
	{"nextstrain", `{"version":"v2","tree":{"name":"a"}}`}, {"nextstrainm", `{"version":"v2","tree":{"name":"r","children":[{"name":"a","node_attrs":{"div":0.5}}]}}`}}

var walkToks = []string{"(", "(", ")", ")", ",", ",", ":", ":1", ":0.5", "[c]", "[&x=1]", "a", "b", "1", "0.9", "0.5/0.1", "1/0.05", "x/y", " ", "\n", ";"}

// tokenWalk: 2..14 tokens drawn from the Newick token alphabet, usually opened by '(' and closed by ';'
func tokenWalk(g *core.G, format string) string {
	var b strings.Builder
	if g.Chance(0.8) {
		b.WriteString("(")
	}
	n := 2 + g.Intn(13)
	for i := 0; i < n; i++ {
		b.WriteString(g.Pick(walkToks))
	}
	if g.Chance(0.8) {
		b.WriteString(";")
	}
	switch format {
	case "nexus", "nexusm":
		return "#NEXUS\nBEGIN TREES;\nTREE t = " + b.String() + "\nEND;\n"
	case "multi":
		if g.Chance(0.5) {
			return "(a,b);" + g.Pick([]string{"", "\n"}) + b.String()
		}
	}
	return b.String()
}

func randSeq(g *core.G, n int, alpha string) string {
	var b strings.Builder
	for i := 0; i < n; i++ {
		b.WriteByte(alpha[g.Intn(len(alpha))])
	}
	return b.String()
}

func nexusDoc(g *core.G) string {
	n, t := genTree(g)
	if g.Chance(0.3) {
		return t.Nexus()
	}
	eol := "\n"
	if g.Chance(0.15) {
		eol = "\r\n"
	}
	var b strings.Builder
	b.WriteString(g.Pick([]string{"#NEXUS", "#nexus", "#Nexus", " #NEXUS"}) + eol)
	if g.Chance(0.3) {
		b.WriteString("[ a comment = with; tokens, ]" + eol)
	}
	tips := n.TipNames()
	// most documents are valid; a sloppy one may take the invalid alternatives
	sloppy := g.Chance(0.3)
	pk := func(valid, invalid []string) string {
		if sloppy && g.Chance(0.3) {
			return g.Pick(invalid)
		}
		return g.Pick(valid)
	}
	// comments and unsupported commands that may sit between the commands of a block
	filler := func() string {
		switch g.Intn(8) {
		case 0:
			return " [a comment; with = tokens, and\n a line break]" + eol
		case 1:
			return " [" + eol + "]" + eol
		case 2:
			return " TITLE something = else, here;" + eol
		case 3:
			return " LINK taxa" + eol + " = x;" + eol
		}
		return ""
	}
	blocks := []string{"taxa", "trees", "data", "foo"}
	nb := 1 + g.Intn(4)
	forceTrees := g.Intn(nb)
	if g.Chance(0.25) {
		forceTrees = -1
	}
	for i := 0; i < nb; i++ {
		blk := g.Pick(blocks)
		if i == forceTrees {
			blk = "trees"
		}
		switch blk {
		case "taxa":
			b.WriteString("BEGIN TAXA;" + eol)
			b.WriteString(filler())
			if g.Chance(0.7) {
				k := len(tips)
				if sloppy && g.Chance(0.3) {
					k++
				}
				if g.Chance(0.12) {
					// boundary values of the taxon count: 0 and negative numbers are numbers too, -1 means "not given"
					k = []int{0, -1, -2, 1}[g.Intn(4)]
				}
				b.WriteString(fmt.Sprintf(" DIMENSIONS NTAX=%d%s;%s", k, g.Pick([]string{"", " FOO=bar", " NCHAR=3"}), eol))
			}
			b.WriteString(filler())
			b.WriteString(" TAXLABELS")
			for _, tp := range tips {
				b.WriteString(g.Pick([]string{" ", eol + "  "}) + tp)
			}
			b.WriteString(";" + eol)
			if g.Chance(0.2) {
				b.WriteString(" TITLE something else;" + eol)
			}
			b.WriteString(pk([]string{"END;", "end;", "END ;"}, []string{"ENDBLOCK;", "END", "END; ;"}) + eol)
		case "trees":
			b.WriteString(g.Pick([]string{"BEGIN TREES;", "begin trees ;", "Begin Trees;"}) + eol)
			nw := t.Newick()
			b.WriteString(filler())
			if g.Chance(0.4) {
				// translate table
				b.WriteString(" TRANSLATE" + eol)
				if g.Chance(0.2) {
					b.WriteString("  [numbering]" + eol)
				}
				for j, tp := range tips {
					sep := ","
					if j == len(tips)-1 {
						sep = pk([]string{";", eol + ";"}, []string{",", ""})
					}
					b.WriteString(fmt.Sprintf("  %d %s%s%s", j+1, tp, sep, eol))
				}
			}
			nt := 1 + g.Intn(3)
			for j := 0; j < nt; j++ {
				b.WriteString(fmt.Sprintf(" TREE %s = %s%s%s", pk([]string{"tree1", "t", "1", "t2"}, []string{"a b", "", "tree"}), g.Pick([]string{"", "[&R] ", "[&U]" + eol}), nw, eol))
				_, t2 := genTree(g)
				nw = t2.Newick()
			}
			b.WriteString(filler())
			b.WriteString("END;" + eol)
		case "data":
			b.WriteString(g.Pick([]string{"BEGIN DATA;", "BEGIN CHARACTERS;"}) + eol)
			nchar := 1 + g.Intn(6)
			if g.Chance(0.8) {
				b.WriteString(fmt.Sprintf(" DIMENSIONS NTAX=%d%s NCHAR=%d;%s", len(tips), pk([]string{"", " FOO=1"}, []string{" NEWTAXA", " FOO="}), nchar, eol))
			}
			b.WriteString(filler())
			if g.Chance(0.8) {
				b.WriteString(" FORMAT" + pk([]string{" DATATYPE=dna", " DATATYPE=protein", " datatype=nucleotide", ""}, []string{" DATATYPE=xyz", " DATATYPE=", " DATATYPE"}) +
					pk([]string{" MISSING=*", ""}, []string{" MISSING=?", " MISSING=", " MISSING=ab", " MISSING *"}) +
					pk([]string{" GAP=-", ""}, []string{" GAP=.", " GAP=", " GAP=--"}) +
					g.Pick([]string{"", " INTERLEAVE=yes", " X=1"}) + pk([]string{";"}, []string{""}) + eol)
			}
			b.WriteString(filler())
			b.WriteString(" MATRIX" + eol)
			alpha := pk([]string{"ACGT", "ACGT-", "ACGTN*", "ARNDCQEGHILKMFPSTWYV", "acgt"}, []string{"AC GT", "AC;", "A[C]"})
			for _, tp := range tips {
				b.WriteString("  " + tp + " " + randSeq(g, nchar, alpha) + eol)
			}
			b.WriteString(pk([]string{" ;", ";"}, []string{""}) + eol + "END;" + eol)
		default:
			b.WriteString("BEGIN FOO;" + eol + " anything = goes [here] ; and, here" + eol + "END;" + eol)
		}
	}
	return b.String()
}

func phyloxmlDoc(g *core.G) string {
	k := 1 + g.Intn(2)
	if g.Chance(0.3) {
		// hand-made: taxonomy names, missing names, no clade
		var b strings.Builder
		b.WriteString("<phyloxml>")
		for i := 0; i < k; i++ {
			b.WriteString(`<phylogeny rooted="` + g.Pick([]string{"true", "false", "1", "x"}) + `">`)
			if g.Chance(0.85) {
				n, _ := genTree(g)
				handClade(g, &b, n)
			}
			b.WriteString("</phylogeny>")
		}
		b.WriteString("</phyloxml>")
		return b.String()
	}
	ch := make(chan tree.Trees, k)
	for i := 0; i < k; i++ {
		_, t := genTree(g)
		ch <- tree.Trees{Tree: t, Id: i}
	}
	close(ch)
	s, err := phyloxml.WritePhyloXML(ch)
	if err != nil {
		panic(err)
	}
	return s
}

func xmlEsc(s string) string {
	var b bytes.Buffer
	for _, r := range s {
		switch r {
		case '<':
			b.WriteString("&lt;")
		case '>':
			b.WriteString("&gt;")
		case '&':
			b.WriteString("&amp;")
		default:
			b.WriteRune(r)
		}
	}
	return b.String()
}

func handClade(g *core.G, b *strings.Builder, n *core.N) {
	b.WriteString("<clade>")
	name := n.Name
	if len(n.Kids) == 0 && g.Chance(0.05) {
		name = ""
	}
	if name != "" {
		switch g.Intn(4) {
		case 0:
			b.WriteString("<taxonomy><scientific_name>" + xmlEsc(name) + "</scientific_name></taxonomy>")
		case 1:
			b.WriteString("<taxonomy><id provider=\"x\">12</id><code>" + xmlEsc(name) + "</code></taxonomy>")
		default:
			b.WriteString("<name>" + xmlEsc(name) + "</name>")
		}
	}
	if n.E != nil && n.E.Len >= 0 {
		b.WriteString(fmt.Sprintf("<branch_length>%v</branch_length>", n.E.Len))
	}
	if n.E != nil && n.E.Sup >= 0 {
		b.WriteString(fmt.Sprintf("<confidence type=\"bootstrap\">%v</confidence>", n.E.Sup))
	}
	for _, k := range n.Kids {
		handClade(g, b, k)
	}
	b.WriteString("</clade>")
}

func jsonStr(s string) string {
	var b strings.Builder
	b.WriteByte('"')
	for _, r := range s {
		switch {
		case r == '"' || r == '\\':
			b.WriteByte('\\')
			b.WriteRune(r)
		case r < 0x20:
			fmt.Fprintf(&b, "\\u%04x", r)
		default:
			b.WriteRune(r)
		}
	}
	b.WriteByte('"')
	return b.String()
}

func nsNode(g *core.G, b *strings.Builder, n *core.N, div float64) {
	b.WriteString("{")
	name := n.Name
	if len(n.Kids) == 0 && g.Chance(0.04) {
		name = ""
	}
	if name != "" || g.Chance(0.5) {
		b.WriteString(`"name":` + jsonStr(name) + ",")
	}
	d := div
	if n.E != nil && n.E.Len >= 0 {
		d += n.E.Len
	}
	b.WriteString(`"node_attrs":{"div":` + strconv.FormatFloat(d, 'f', -1, 64))
	if g.Chance(0.3) {
		b.WriteString(`,"country":{"value":` + jsonStr(g.Pick([]string{"France", "Costa Rica", "a:b,c", ""})) + `}`)
	}
	if g.Chance(0.3) {
		b.WriteString(`,"num_date":{"value":` + g.Pick([]string{"2020.5", "0", "2019", "1e3"}) + `,"confidence":[2020.1,2020.9]}`)
	}
	if g.Chance(0.2) {
		b.WriteString(`,"accession":` + jsonStr(g.Pick([]string{"MN908947", "A B:1", ""})))
	}
	b.WriteString("}")
	if g.Chance(0.3) {
		b.WriteString(`,"branch_attrs":{"labels":{"aa":` + jsonStr(g.Pick([]string{"ORF1a: T265I, S: D614G", "N:P13L", ""})) + `},"mutations":{"nuc":["C241T"]}}`)
	}
	if len(n.Kids) > 0 || g.Chance(0.1) {
		b.WriteString(`,"children":[`)
		for i, k := range n.Kids {
			if i > 0 {
				b.WriteString(",")
			}
			nsNode(g, b, k, d)
		}
		b.WriteString("]")
	}
	b.WriteString("}")
}

func nextstrainDoc(g *core.G) string {
	n, _ := genTree(g)
	var b strings.Builder
	b.WriteString(`{"version":` + jsonStr(g.Pick([]string{"v2", "v2", "v2", "v2", "v1", ""})) + `,"meta":{"title":"x"},"tree":`)
	if g.Chance(0.05) {
		b.WriteString("{}")
	} else {
		nsNode(g, &b, n, 0)
	}
	b.WriteString("}")
	return b.String()
}

var oddNumbers = []string{"0.1", "0.3", "0.123456789", "1e-7", "123456789.123", "3.4028236e38", "1e39", "1e-46", "16777217", "0.30000000000000004",
	"2.5e-324", "1.7976931348623157e308", "100", "1E2", "+1.5", "-0.25", "007", "1e+2", ".5", "5."}

// oddNumber replaces one decimal literal of the document by a value that is not a small dyadic fraction
// (rounding, exponent forms, float32 range) so that the numeric path of the parsers is tied as well.
func oddNumber(g *core.G, doc string) string {
	var spans [][2]int
	i := 0
	for i < len(doc) {
		if doc[i] == ':' && i+1 < len(doc) && doc[i+1] >= '0' && doc[i+1] <= '9' {
			j := i + 1
			for j < len(doc) && (doc[j] >= '0' && doc[j] <= '9' || doc[j] == '.') {
				j++
			}
			spans = append(spans, [2]int{i + 1, j})
			i = j
		} else {
			i++
		}
	}
	if len(spans) == 0 {
		return doc
	}
	sp := spans[g.Intn(len(spans))]
	return doc[:sp[0]] + g.Pick(oddNumbers) + doc[sp[1]:]
}

// slashLabel puts a `support/p-value` label (integer, fractional, exponent forms on either side) after a ')' that
// has none, so that delivered trees carry both fields in every combination of forms
func slashLabel(g *core.G, doc string) string {
	var at []int
	for i := 0; i+1 < len(doc); i++ {
		if doc[i] == ')' && (doc[i+1] == ':' || doc[i+1] == ',' || doc[i+1] == ')') {
			at = append(at, i+1)
		}
	}
	if len(at) == 0 {
		return doc
	}
	i := at[g.Intn(len(at))]
	lab := g.Pick([]string{"1", "5", "0", "100", "0.5", "1e2", ".5", "-1", "0.95"}) + "/" + g.Pick([]string{"0.05", "1", "0", "1e-3", "5", "-1"})
	return doc[:i] + lab + doc[i:]
}

func validDoc(g *core.G, format string) string {
	switch format {
	case "newick", "multi", "nexus", "nexusm":
		d := validDoc0(g, format)
		if g.Chance(0.35) {
			d = oddNumber(g, d)
		}
		if g.Chance(0.12) {
			d = slashLabel(g, d)
		}
		return d
	}
	return validDoc0(g, format)
}

func validDoc0(g *core.G, format string) string {
	switch format {
	case "newick":
		return newickDoc(g)
	case "multi":
		return multiDoc(g)
	case "nexus", "nexusm":
		return nexusDoc(g)
	case "phyloxml", "phyloxmlm":
		return phyloxmlDoc(g)
	default:
		return nextstrainDoc(g)
	}
}

// ------------------------------------------------------------------ malformed stream

var dictText = []string{"(", ")", ",", ":", ";", "[", "]", "[&x", "=", " ", "\t", "\n", "\r", "\r\n", "  \n", " \t \n", "\x00", "\xff", "\xc3", "\xe2\x82", "'",
	"1e999", "nan", "inf", "0x1p-2", "1_0", "/", "0.5/0.1", "0.5/0.1/0.2", "1/2/3", "()", "(,)", "((", "))", ":1", ":", ":x", "1e-3", "-1", "+.5", "9223372036854775808",
	"MISSING=", "GAP=", "MISSING=?", "GAP=-", " FORMAT ", "BEGIN TREES;", "BEGIN DATA;", "BEGIN TAXA;", "END;", " TREE t = ", " TRANSLATE ", " MATRIX ",
	" DIMENSIONS NTAX=", " NCHAR=", " NTAX ", " DATATYPE=", "#NEXUS", " TAXLABELS ", "begin foo;", "END", "é", " "}
var dictXML = []string{"<", ">", "</clade>", "<clade>", "<clade/>", "<name>", "</name>", "<name/>", "<branch_length>", "x</branch_length>", "<branch_length>1e999</branch_length>",
	"<phylogeny>", "</phylogeny>", "</phyloxml>", "<phyloxml>", "&", "&amp;", "&#0;", "<!--", "-->", "<![CDATA[", "]]>", "\"", " rooted=\"maybe\"", "<confidence>", "<confidence>x</confidence>",
	"<taxonomy><code>c</code></taxonomy>", "<taxonomy><id>x</id></taxonomy>", "<?xml", "\x00", "\xff", " ", "\n"}
var dictJSON = []string{"{", "}", "[", "]", ",", ":", "\"", "null", "\"children\":", "\"name\":", "1e400", "\"v2\"", "\"v1\"", "\"div\":", "\\u0000", "{}", "[]", "\"children\":null",
	"\"children\":[{}]", "\"tree\":", "\"version\":", "\"node_attrs\":", "\"div\":\"x\"", "true", "-", "\x00", "\xff", " ", "\n", "\"num_date\":{\"value\":\"x\"}"}

func dict(format string) []string {
	switch format {
	case "phyloxml", "phyloxmlm":
		return dictXML
	case "nextstrain", "nextstrainm":
		return dictJSON
	}
	return dictText
}

func mutate(g *core.G, format string, s string) string {
	b := []byte(s)
	nm := 1 + g.Intn(3)
	for k := 0; k < nm; k++ {
		switch g.Intn(10) {
		case 8: // two dictionary tokens in a row (parser states that need a particular previous token)
			i := g.Intn(len(b) + 1)
			if j := bytes.LastIndexByte(b, ';'); j >= 0 && g.Chance(0.4) {
				i = j
			}
			tok := g.Pick(dict(format)) + g.Pick(dict(format))
			b = append(append(append([]byte{}, b[:i]...), tok...), b[i:]...)
		case 9: // a run of blanks / of filler text whose length sits next to a power of two or a round number
			i := g.Intn(len(b) + 1)
			if g.Chance(0.3) {
				i = len(b)
			}
			run := blankRun(g, lenNear(g))
			if g.Chance(0.3) {
				run = strings.Repeat(g.Pick([]string{"x", "a,", "(", "é"}), lenNear(g))
			}
			b = append(append(append([]byte{}, b[:i]...), run...), b[i:]...)
		case 0: // truncate
			if len(b) > 0 {
				b = b[:g.Intn(len(b))]
			}
		case 1: // delete a span
			if len(b) > 1 {
				i := g.Intn(len(b))
				j := i + 1 + g.Intn(minInt(8, len(b)-i))
				b = append(append([]byte{}, b[:i]...), b[j:]...)
			}
		case 2, 3: // insert a dictionary token
			i := g.Intn(len(b) + 1)
			tok := g.Pick(dict(format))
			b = append(append(append([]byte{}, b[:i]...), tok...), b[i:]...)
		case 4: // replace one byte
			if len(b) > 0 {
				tok := g.Pick(dict(format))
				b[g.Intn(len(b))] = tok[0]
			}
		case 5: // splice with another document
			o := []byte(validDoc(g, format))
			i := g.Intn(len(b) + 1)
			j := g.Intn(len(o) + 1)
			b = append(append([]byte{}, b[:i]...), o[j:]...)
		case 6: // duplicate a span
			if len(b) > 1 {
				i := g.Intn(len(b))
				j := i + 1 + g.Intn(minInt(12, len(b)-i))
				b = append(append(append([]byte{}, b[:j]...), b[i:j]...), b[j:]...)
			}
		case 7: // random byte, or a token at the place of the root label (just before the last ';')
			if len(b) > 0 {
				if j := bytes.LastIndexByte(b, ';'); j >= 0 && g.Chance(0.5) {
					tok := g.Pick(dict(format))
					b = append(append(append([]byte{}, b[:j]...), tok...), b[j:]...)
				} else {
					b[g.Intn(len(b))] = byte(g.Intn(256))
				}
			}
		}
	}
	return string(b)
}

func minInt(a, b int) int {
	if a < b {
		return a
	}
	return b
}

// hand-written malformed inputs named by the property's quantifier
var handText = []string{"", " ", "\n", " \n", "\t \n\n", ";", "(", ")", "((((", "))))", "(a,b", "(a,b))", "(a,b));", "[", "[x", "(a[x,b);", "(a:,b);", "(a:1:2,b);", "(a,b):;",
	"(a,b) (c,d);", "(,,,);", "(a,b);;", "(a,b);x", "a;", "(a,b)]", "(a,b);\n \n(c,d);\n", " \n(a,b);", "(a,b);\n\t", "(a,b); \n ;\n",
	"#NEXUS", "#NEXUS\n[x", "#NEXUS\n[", "#NEXUS\nBEGIN", "#NEXUS\nBEGIN TREES", "#NEXUS\nBEGIN TREES;", "#NEXUS\nBEGIN TREES;\nTREE", "#NEXUS\nBEGIN TREES;\nTREE t", "#NEXUS\nBEGIN TREES;\nTREE t =",
	"#NEXUS\nBEGIN TREES;\nTREE t = [", "#NEXUS\nBEGIN TREES;\nTREE t = (a,b)", "#NEXUS\nBEGIN TREES;\nTREE t = (a,b);", "#NEXUS\nBEGIN TREES;\nTREE t = (a,b);\nEND", "#NEXUS\nBEGIN TREES;\nTREE t = (a,b);\nEND;",
	"#NEXUS\nBEGIN TREES;\nTRANSLATE", "#NEXUS\nBEGIN TREES;\nTRANSLATE 1", "#NEXUS\nBEGIN TREES;\nTRANSLATE 1 a", "#NEXUS\nBEGIN TREES;\nTRANSLATE 1 a,", "#NEXUS\nBEGIN TREES;\nTRANSLATE [",
	"#NEXUS\nBEGIN DATA;\nFORMAT MISSING=\n", "#NEXUS\nBEGIN DATA;\nFORMAT MISSING=", "#NEXUS\nBEGIN DATA;\nFORMAT GAP=\n", "#NEXUS\nBEGIN DATA;\nFORMAT GAP=;", "#NEXUS\nBEGIN DATA;\nFORMAT GAP",
	"#NEXUS\nBEGIN DATA;\nFORMAT DATATYPE=", "#NEXUS\nBEGIN DATA;\nDIMENSIONS NTAX=", "#NEXUS\nBEGIN DATA;\nDIMENSIONS NTAX", "#NEXUS\nBEGIN DATA;\nDIMENSIONS NCHAR=x;", "#NEXUS\nBEGIN DATA;\nMATRIX", "#NEXUS\nBEGIN DATA;\nMATRIX\na",
	"#NEXUS\nBEGIN DATA;\nMATRIX\na AC", "#NEXUS\nBEGIN DATA;\nMATRIX\na AC\n;", "#NEXUS\nBEGIN DATA;\nMATRIX\na AC\n;\nEND;", "#NEXUS\nBEGIN TAXA;\nDIMENSIONS", "#NEXUS\nBEGIN TAXA;\nTAXLABELS", "#NEXUS\nBEGIN TAXA;\nTAXLABELS a b",
	"#NEXUS\nBEGIN TAXA;\nDIMENSIONS NTAX=2;\nTAXLABELS a b;\nEND;\nBEGIN TREES;\nTREE t=(a,b);\nEND;\n", "#NEXUS\nBEGIN TAXA;\nDIMENSIONS NTAX=3;\nTAXLABELS a b;\nEND;", "#NEXUS\nBEGIN TAXA;\nDIMENSIONS NTAX=0;\nTAXLABELS a b;\nEND;\nBEGIN TREES;\nTREE t=(a,b);\nEND;",
	"#NEXUS\nBEGIN TAXA;\nDIMENSIONS NTAX=-1;\nTAXLABELS a b;\nEND;\nBEGIN TREES;\nTREE t=(a,b);\nEND;", "#NEXUS\nBEGIN TAXA;\nDIMENSIONS NTAX=-2;\nTAXLABELS a b;\nEND;\nBEGIN TREES;\nTREE t=(a,b);\nEND;", "#NEXUS\nBEGIN FOO;", "#NEXUS\nBEGIN FOO;\nEND", "#NEXUS\nBEGIN ;",
	"#NEXUS\r", "#NEXUS\r\n\r", "#NEXUS\nBEGIN DATA;\nDIMENSIONS NTAX=1 NCHAR=2;\nFORMAT DATATYPE=dna MISSING=* GAP=-;\nMATRIX\na AC\n;\nEND;\n",
	"#NEXUS\nBEGIN DATA;\nDIMENSIONS NTAX=1 NCHAR=2;\nFORMAT DATATYPE=dna;\nMATRIX\na AC\na GT\n;\nEND;\n", "#NEXUS\nBEGIN DATA;\nFORMAT DATATYPE=protein;\nMATRIX\na AC\nb G\n;\nEND;\n",
	"#NEXUS\nBEGIN DATA;\nFORMAT DATATYPE=dna;\nMATRIX\na A!\n;\nEND;\n", "#NEXUS\nBEGIN TREES;\nTREE t = ();\nEND;", "#NEXUS\nBEGIN TREES;\nTREE t = (a);\nEND;", "#NEXUS\nBEGIN TREES;\nTRANSLATE 1 a, 2 a;\nTREE t = (1,2);\nEND;",
	"#NEXUS\nBEGIN TREES;\nTRANSLATE 1 x;\nTREE t = ((1,b)1,c);\nEND;"}
var handXML = []string{"", "<", "<phyloxml>", "<phyloxml></phyloxml>", "<phyloxml><phylogeny></phylogeny></phyloxml>", "<phyloxml><phylogeny><clade></clade></phylogeny></phyloxml>",
	"<phyloxml><phylogeny><clade><name>a</name></clade></phylogeny></phyloxml>", "<phyloxml><phylogeny><clade><clade><name>a</name></clade></clade></phylogeny></phyloxml>",
	"<phyloxml><phylogeny><clade><clade><name>a</name></clade><clade><name>a</name></clade></clade></phylogeny></phyloxml>", "<phyloxml><phylogeny><clade><clade><name>a</name>",
	"<phyloxml><phylogeny><clade><branch_length>x</branch_length></clade></phylogeny></phyloxml>", "<phyloxml><phylogeny rooted=\"x\"><clade><name>a</name></clade></phylogeny></phyloxml>",
	"<phyloxml><phylogeny><clade><clade><clade><name>a</name></clade></clade></clade></phylogeny></phyloxml>", "<a/>", "<phyloxml><phylogeny><clade><name>a</name></clade><clade><name>b</name></clade></phylogeny></phyloxml>"}
var handJSON = []string{"", "{", "{}", "null", "[]", "1", `{"version":"v2"}`, `{"version":"v2","tree":{}}`, `{"version":"v2","tree":{"name":"a"}}`, `{"version":"v2","tree":null}`,
	`{"version":"v2","tree":{"children":[{"name":"a"},{"name":"a"}]}}`, `{"version":"v2","tree":{"children":[{"name":"a"}]}}`, `{"version":"v2","tree":{"children":null,"name":"r"}}`,
	`{"version":"v2","tree":{"children":[{}]}}`, `{"version":"v1","tree":{"name":"a"}}`, `{"version":"v2","tree":{"name":"a","node_attrs":{"div":"x"}}}`, `{"version":"v2","tree":{"children":[{"children":[{"name":"a"}]}]}}`,
	`{"version":"v2","tree":{"name":"r","children":[{"name":"a","node_attrs":{"div":1e400}}]}}`, `{"version":"v2","tree":[]}`}

func hand(format string) []string {
	switch format {
	case "phyloxml", "phyloxmlm":
		return handXML
	case "nextstrain", "nextstrainm":
		return handJSON
	}
	return handText
}

// bigDoc: a document two or three orders of magnitude larger than the usual ones (bufio refills, lines
// longer than the ReadLine buffer, long names and comments)
func bigDoc(g *core.G, format string) string {
	o := treeOpts(g)
	o.MinTips, o.MaxTips = 150, 400
	o.Singles = 0
	n, _ := g.Tree(o)
	// some very long names / comments
	var rec func(x *core.N)
	rec = func(x *core.N) {
		if len(x.Kids) == 0 && g.Chance(0.02) {
			x.Name = x.Name + strings.Repeat("x", 3000+g.Intn(3000))
		}
		for _, k := range x.Kids {
			rec(k)
		}
	}
	rec(n)
	t, err := core.Build(n)
	if err != nil {
		panic(err)
	}
	switch format {
	case "newick":
		return t.Newick()
	case "multi":
		return t.Newick() + "\n" + t.Newick() + " \n"
	case "nexus", "nexusm":
		return t.Nexus()
	case "phyloxml", "phyloxmlm":
		ch := make(chan tree.Trees, 1)
		ch <- tree.Trees{Tree: t, Id: 0}
		close(ch)
		s, err := phyloxml.WritePhyloXML(ch)
		if err != nil {
			panic(err)
		}
		return s
	}
	var b strings.Builder
	b.WriteString(`{"version":"v2","tree":`)
	nsNode(g, &b, n, 0)
	b.WriteString("}")
	return b.String()
}

func genCase(g *core.G, format string, i int) request {
	h := hand(format)
	bufsize := 0
	if format == "multi" && g.Chance(0.5) {
		bufsize = 16 + g.Intn(3)*7
	}
	if i < len(h) {
		return request{op: "read", format: format, bufsize: bufsize, input: []byte(h[i])}
	}
	if i >= len(h) && i < len(h)+2 {
		doc := bigDoc(g, format)
		if i == len(h)+1 {
			doc = mutate(g, format, doc)
		}
		return request{op: "read", format: format, bufsize: bufsize, input: []byte(doc)}
	}
	// a random walk over the token alphabet: reaches the error branches of the parser that need a particular
	// state (empty node stack, a label after ')', a second length, a comment where none may stand …)
	if (format == "newick" || format == "multi" || format == "nexus" || format == "nexusm") && g.Chance(0.12) {
		return request{op: "read", format: format, bufsize: bufsize, input: []byte(tokenWalk(g, format))}
	}
	if format == "multi" && g.Chance(0.15) {
		return request{op: "read", format: format, bufsize: bufsize, input: []byte(stressMulti(g))}
	}
	doc := validDoc(g, format)
	pm := 0.6
	if format == "nexus" || format == "nexusm" {
		pm = 0.45
	}
	if g.Chance(pm) {
		doc = mutate(g, format, doc)
	}
	return request{op: "read", format: format, bufsize: bufsize, input: []byte(doc)}
}

// ------------------------------------------------------------------ literals

var handLits = []string{"", "0", "1", "-1", "+1", "1.5", ".5", "+.5", "5.", ".", "-", "+", "1e", "1e+", "1e5", "1E-5", "1e999", "-1e999", "1e-400", "1e-323", "4.9e-324", "2.4e-324", "2.5e-324",
	"1.7976931348623157e308", "1.7976931348623158e308", "1.7976931348623159e308", "179769313486231580793728971405303415079934132710037826936173778980444968292764750946649017977587207096330286416692887910946555547851940402630657488671505820681908902000708383676273854845817711531764475730270069855571366959622842914819860834936475292719074168444365510704342711559699508093042880177904174497791",
	"nan", "NaN", "NAN", "+nan", "-nan", "inf", "Inf", "+inf", "-inf", "infinity", "Infinity", "-INFINITY", "infin", "infinit", "infinityx", "in", "i", "n",
	"0x1p-2", "0X1P+2", "0x1p", "0x1", "0x", "0x.8p1", "0x1.8p1", "0x_1p0", "0x1_0p0", "0x1p1_0", "-0x1.fffffffffffffp1023", "0x1.fffffffffffff8p1023", "0x1p-1074", "0x1p-1075", "0x1.8p-1075", "0x1p-1076",
	"1_0", "1__0", "_1", "1_", "1_000.5", "1._5", "1e1_0", "0_1", "0b101", "0o17", "1.2.3", "1e5e5", "1e5.5", "--1", "+-1", "1 ", " 1", "1\x00", "٣", "１", "1,5", "1/2", "0.1", "0.3", "123456789012345678901234567890", "0.000000000000000000000000000001",
	"9007199254740993", "9007199254740992", "9007199254740991", "1.00000000000000011102230246251565404236316680908203125", "1.00000000000000011102230246251565404236316680908203124", "1.00000000000000011102230246251565404236316680908203126",
	"9223372036854775807", "9223372036854775808", "-9223372036854775808", "-9223372036854775809", "00012", "+0", "-0", "-0.0", "0e0", "0e999999999999", "1e99999999999999999999", "1e-99999999999999999999", "0.0000e+99999"}

func genLit(g *core.G, i int) string {
	if i < len(handLits) {
		return handLits[i]
	}
	alpha := "0123456789"
	var b strings.Builder
	if g.Chance(0.3) {
		b.WriteString(g.Pick([]string{"-", "+"}))
	}
	hex := g.Chance(0.15)
	if hex {
		b.WriteString(g.Pick([]string{"0x", "0X"}))
		alpha = "0123456789abcdefABCDEF"
	}
	n := 1 + g.Intn(22)
	if g.Chance(0.1) {
		n = 300 + g.Intn(100)
	}
	dot := -1
	if g.Chance(0.6) {
		dot = g.Intn(n + 1)
	}
	for k := 0; k < n; k++ {
		if k == dot {
			b.WriteByte('.')
		}
		b.WriteByte(alpha[g.Intn(len(alpha))])
		if g.Chance(0.03) {
			b.WriteByte('_')
		}
	}
	if dot == n {
		b.WriteByte('.')
	}
	if g.Chance(0.5) || hex {
		if hex {
			b.WriteString(g.Pick([]string{"p", "P", "p", ""}))
		} else {
			b.WriteString(g.Pick([]string{"e", "E"}))
		}
		b.WriteString(g.Pick([]string{"", "-", "+"}))
		b.WriteString(strconv.Itoa(g.Intn([]int{5, 40, 330, 1100, 100000}[g.Intn(5)])))
	}
	s := b.String()
	if g.Chance(0.08) {
		// one more mutation
		j := g.Intn(len(s) + 1)
		s = s[:j] + g.Pick([]string{"e", ".", "_", "x", "p", "-", " ", "n", "inf"}) + s[j:]
	}
	return s
}

func emitLit(c *core.Ctx, s string) {
	ir := "E"
	if v, err := strconv.ParseInt(s, 10, 64); err == nil {
		ir = strconv.FormatInt(v, 10)
	}
	fr := "E"
	if v, err := strconv.ParseFloat(s, 64); err == nil {
		fr = core.Rat(v)
	}
	c.Emit("C02.lit", core.Escape(s), ir, fr)
}

// The command-line cases are queued and run several at a time (one process each), then emitted in order.
type cliJob struct {
	args  []string
	stdin string
	emit  func(r core.CLIResult)
}

var cliQ []cliJob

func flushCLI(c *core.Ctx) {
	res := make([]core.CLIResult, len(cliQ))
	var wg sync.WaitGroup
	idx := make(chan int, len(cliQ))
	for i := range cliQ {
		idx <- i
	}
	close(idx)
	for k := 0; k < 6; k++ {
		wg.Add(1)
		go func() {
			defer wg.Done()
			for i := range idx {
				res[i] = c.RunCLI(cliQ[i].stdin, 20*time.Second, cliQ[i].args...)
			}
		}()
	}
	wg.Wait()
	for i, j := range cliQ {
		j.emit(res[i])
	}
	cliQ = nil
}

// doCLI pushes one input through the gotree binary built from the working tree: as a plain file, on the
// standard input (`-i -`), or as a gzip file.
var cliCount int

func doCLI(c *core.Ctx, format string, input []byte) {
	cliCount++
	transport := []string{"file", "stdin", "gz"}[cliCount%3]
	// the --format option as cmd/root.go reads it: four exact words, anything else (or nothing) means newick
	flag := format
	switch cliCount % 11 {
	case 3:
		flag = strings.ToUpper(format)
	case 5:
		flag = "xml"
	case 7:
		flag = ""
	case 9:
		flag = "<omitted>"
	}
	args := []string{"reformat", "newick"}
	if flag != "<omitted>" {
		args = append(args, "--format", flag)
	}
	args = append(args, "-i")
	format = flag
	stdin := ""
	switch transport {
	case "stdin":
		args = append(args, "-")
		stdin = string(input)
	case "gz":
		var zb bytes.Buffer
		zw := gzip.NewWriter(&zb)
		zw.Write(input)
		zw.Close()
		p := c.TmpFile("") + ".gz"
		if err := os.WriteFile(p, zb.Bytes(), 0644); err != nil {
			panic(err)
		}
		args = append(args, p)
	default:
		args = append(args, c.TmpFile(string(input)))
	}
	// what the XML / JSON decoder makes of the input (for the model of the clade conversion)
	dec := ""
	if p, _ := core.Safe(func() { dec = decoded(map[string]string{"phyloxml": "phyloxml", "nextstrain": "nextstrain"}[format], input) }); p {
		dec = ""
	}
	cliQ = append(cliQ, cliJob{args, stdin, func(r core.CLIResult) {
		nl := strings.Count(r.Stdout, "\n")
		c.Emit("C02.cli", format, core.Escape(string(input)), cliOutcome(r), strconv.Itoa(nl), transport, dec)
	}})
}

// doCLIFile: `gotree reformat newick --format f -i <name>` where the name is of the given kind.
//
//	C02.clifile <format> <kind> <input> <outcome> <decoded>
func doCLIFile(c *core.Ctx, format, kind string, input []byte) {
	base := c.TmpFile("")
	os.Remove(base)
	content := input
	path := base
	switch kind {
	case "missing":
	case "missinggz":
		path += ".gz"
	case "dir", "dirgz":
		if kind == "dirgz" {
			path += ".gz"
		}
		os.Mkdir(path, 0755)
	case "empty", "emptygz", "onebyte", "onebytegz", "notgz", "plain":
		switch kind {
		case "empty", "emptygz":
			content = nil
		case "onebyte":
			content = []byte("(")
		case "onebytegz":
			content = []byte{0x1f}
		}
		if strings.HasSuffix(kind, "gz") {
			path += ".gz"
		}
		if err := os.WriteFile(path, content, 0644); err != nil {
			panic(err)
		}
	}
	if kind == "missing" || kind == "missinggz" || kind == "dir" || kind == "dirgz" {
		content = nil
	}
	dec := ""
	if p, _ := core.Safe(func() { dec = decoded(map[string]string{"phyloxml": "phyloxml", "nextstrain": "nextstrain"}[format], content) }); p {
		dec = ""
	}
	in := core.Escape(string(content))
	cliQ = append(cliQ, cliJob{[]string{"reformat", "newick", "--format", format, "-i", path}, "", func(r core.CLIResult) {
		c.Emit("C02.clifile", format, kind, in, cliOutcome(r), dec)
	}})
}

// ------------------------------------------------------------------ bytes -> runes

var handBytes = []string{"", "a", "\x00", "\x7f", "\x80", "\xbf", "\xc0\x80", "\xc1\xbf", "\xc2", "\xc2\x80", "\xc2\x7f", "\xdf\xbf", "\xe0\x80\x80", "\xe0\x9f\xbf", "\xe0\xa0\x80", "\xe0\xa0",
	"\xed\x9f\xbf", "\xed\xa0\x80", "\xed\xbf\xbf", "\xee\x80\x80", "\xef\xbf\xbd", "\xef\xbf\xbf", "\xf0\x8f\xbf\xbf", "\xf0\x90\x80\x80", "\xf0\x90\x80", "\xf4\x8f\xbf\xbf", "\xf4\x90\x80\x80",
	"\xf5\x80\x80\x80", "\xff", "\xfe\xff", "a\xe2\x82z", "\xe2\x82\xac", "\xe2\x28\xa1", "\xf0\x28\x8c\xbc", "\xf0\x90\x28\xbc", "\xc3\xa9\xc3", "\xe1\x80\xe1\x80\x80"}

func genBytes(g *core.G, i int) []byte {
	if i < len(handBytes) {
		return []byte(handBytes[i])
	}
	n := g.Intn(12)
	b := make([]byte, 0, n)
	for k := 0; k < n; k++ {
		switch g.Intn(4) {
		case 0:
			b = append(b, byte(g.Intn(128)))
		case 1:
			b = append(b, byte(0x80+g.Intn(0x40)))
		case 2:
			b = append(b, byte(0xc0+g.Intn(0x40)))
		default:
			b = append(b, []byte(string(rune(g.Intn(0x11000))))...)
		}
	}
	return b
}

func emitUTF8(c *core.Ctx, b []byte) {
	r := bufio.NewReaderSize(bytes.NewReader(b), 16)
	var sb strings.Builder
	for {
		ch, _, err := r.ReadRune()
		if err != nil {
			break
		}
		fmt.Fprintf(&sb, "%d,", ch)
	}
	c.Emit("C02.utf8", core.Escape(string(b)), sb.String())
}

// Every command that consumes the reader's channel must survive an input whose first record carries
// an error (the reader goroutine forwards parse errors on the tree channel; the consumer has to test them).
// (cmd/nni.go did not before fix 9333707: ANY unparsable tree killed `gotree nni`.)
var sweepCmds = []string{"nni", "stats", "stats edges", "stats nodes", "stats tips", "stats rooted", "stats splits", "unroot", "brlen clear", "brlen scale -f 2",
	"brlen round -p 2", "brlen setmin -l 0.1", "support clear", "support scale -f 2", "collapse depth -m 1 -M 1", "collapse length -l 0.1", "collapse support -s 0.5",
	"collapse single", "reroot midpoint", "reroot outgroup a", "matrix", "resolve", "rotate sort", "rotate rand", "shuffletips", "prune -r", "prune a",
	"reformat nexus", "reformat phyloxml", "reformat newick", "labels", "comment clear", "rename -a -l 5", "compute consensus", "sample -n 1", "ltt"}

var sweepInputs = map[string][]string{
	"newick":     {"(a:1:2,b);", "(a,b", "", "x", "(a,b));\n(c,d);"},
	"nexus":      {"#NEXUS\n[x", "#NEXUS\nBEGIN TREES;\nTREE t = (a,b;\nEND;", "NEXUS", "#NEXUS\nBEGIN DATA;\nFORMAT MISSING=\n"},
	"phyloxml":   {"<phyloxml><phylogeny><clade></clade></phylogeny></phyloxml>", "<phyloxml>", ""},
	"nextstrain": {"{\"version\":\"v1\"}", "{", "{\"version\":\"v2\",\"tree\":{}}"},
}

// degenerate but VALID inputs: what the readers deliver must not crash the commands either (MedianSupport
// before fix bbab306 and `stats tips` before fix 2681e08 crashed when the root is itself a tip).
// (`reroot outgroup` crashed on 2-tip trees before fix 16b4243: nil LCA.)
var sweepDegenerate = [][2]string{{"newick", "();"}, {"newick", "(a);"}, {"newick", "((a,b));"}, {"newick", "(,);"}, {"newick", "(a,a);"}, {"newick", "(a(b));"},
	{"newick", "((a));"}, {"newick", "(a,b);"}, {"newick", "((a,b)0.9);"}, {"newick", "((a,b)0.9,c)x;"},
	{"phyloxml", "<phyloxml><phylogeny><clade><name>a</name></clade></phylogeny></phyloxml>"},
	{"phyloxml", "<phyloxml><phylogeny><clade><clade><name>a</name></clade></clade></phylogeny></phyloxml>"},
	{"nextstrain", "{\"version\":\"v2\",\"tree\":{\"name\":\"a\"}}"},
	{"nextstrain", "{\"version\":\"v2\",\"tree\":{\"children\":[{\"name\":\"a\"}]}}"},
	{"nexus", "#NEXUS\nBEGIN TREES;\nTREE t = (a);\nEND;"}, {"nexus", "#NEXUS\nBEGIN TREES;\nEND;"}}

func cliSweep(c *core.Ctx) {
	for k, cm := range sweepCmds {
		n := 2
		if !c.Quick() {
			if c.Seed%1000 != 0 {
				break
			}
			n = len(sweepDegenerate)
		}
		for j := 0; j < n; j++ {
			d := sweepDegenerate[(2*k+j+int(c.Seed))%len(sweepDegenerate)]
			doCLICmd(c, cm, d[0], []byte(d[1]))
		}
	}
	for k, cm := range sweepCmds {
		for _, f := range []string{"newick", "nexus", "phyloxml", "nextstrain"} {
			ins := sweepInputs[f]
			if c.Quick() {
				// one input per command and format, rotating
				doCLICmd(c, cm, f, []byte(ins[(k+int(c.Seed))%len(ins)]))
				continue
			}
			if c.Seed%1000 != 0 {
				continue
			}
			for _, in := range ins {
				doCLICmd(c, cm, f, []byte(in))
			}
		}
	}
}

func cliOutcome(r core.CLIResult) string {
	switch {
	case r.Timeout:
		return "timeout"
	case strings.Contains(r.Stderr, "panic: ") || strings.Contains(r.Stderr, "fatal error: ") || strings.Contains(r.Stderr, "goroutine ") ||
		strings.Contains(r.Stdout, "panic: "):
		msg := r.Stderr
		if i := strings.Index(msg, "panic: "); i >= 0 {
			msg = msg[i:]
		} else if i := strings.Index(msg, "fatal error: "); i >= 0 {
			msg = msg[i:]
		}
		if j := strings.IndexByte(msg, '\n'); j >= 0 {
			msg = msg[:j]
		}
		return "panic:" + core.Escape(msg)
	case r.Exit != 0:
		return "err"
	}
	return "ok"
}

func doCLICmd(c *core.Ctx, cm string, format string, input []byte) {
	file := c.TmpFile(string(input))
	args := append(strings.Fields(cm), "-i", file, "--format", format)
	cliQ = append(cliQ, cliJob{args, "", func(r core.CLIResult) {
		c.Emit("C02.clicmd", core.Escape(cm), format, core.Escape(string(input)), cliOutcome(r))
	}})
}

// ------------------------------------------------------------------ Readln

func genLinesDoc(g *core.G) []byte {
	var b bytes.Buffer
	n := g.Intn(6)
	for i := 0; i < n; i++ {
		l := g.Intn(40)
		if g.Chance(0.2) {
			l = 14 + g.Intn(6) // around the buffer size
		}
		for k := 0; k < l; k++ {
			b.WriteByte("ab ;\t\r,"[g.Intn(7)])
		}
		b.WriteString(g.Pick([]string{"\n", "\n", "\r\n", "\r", ""}))
	}
	return b.Bytes()
}

func emitReadln(c *core.Ctx, bufsize int, in []byte) {
	r := bufio.NewReaderSize(bytes.NewReader(in), bufsize)
	var lines []string
	for k := 0; k < 100000; k++ {
		l, err := fileutils.Readln(r)
		if err != nil {
			break
		}
		lines = append(lines, l)
	}
	c.Emit("C02.readln", strconv.Itoa(bufsize), core.Escape(string(in)), core.StrList(lines))
}

// ------------------------------------------------------------------ size scaling

var scaleKinds = []string{"blanklines", "longline", "manytrees", "treesoneline", "comment-meta", "comment-text", "star",
	"nexus-tree", "nexus-comments", "nexus-matrix", "nexus-labels", "phyloxml-wide", "nextstrain-wide"}

func scaleSizes(c *core.Ctx) []int {
	if c.Quick() {
		return []int{1000, 10000, 100000}
	}
	return []int{1000, 10000, 100000, 400000, 1000000}
}

// scaleKind runs one kind at growing sizes (each alone in a fresh worker, watchdog 30 s) and emits one case line.
// Once a size has taken more than 1.5 s the larger ones are not tried (the growth is already visible).
func scaleKind(c *core.Ctx, kind string, sizes []int) {
	worst := "ok"
	var ns, bs, us strings.Builder
	for _, n := range sizes {
		rep := runPool([]job{{"scale\t" + kind + "\t" + strconv.Itoa(n), 30 * time.Second}}, 1)[0]
		f := strings.Split(rep, "\t")
		if f[0] != "ok" && f[0] != "err" {
			worst = f[0]
			fmt.Fprintf(&ns, "%d,", n)
			bs.WriteString("0,")
			us.WriteString("0,")
			break
		}
		if f[0] == "err" && worst == "ok" {
			worst = "err"
		}
		if len(f) < 4 {
			worst = "bad"
			break
		}
		fmt.Fprintf(&ns, "%d,", n)
		bs.WriteString(f[2] + ",")
		us.WriteString(f[3] + ",")
		if t, _ := strconv.Atoi(f[3]); t > 1500000 {
			break
		}
	}
	scaleMu.Lock()
	c.Emit("C02.scale", kind, worst, ns.String(), bs.String(), us.String())
	scaleMu.Unlock()
}

var scaleMu sync.Mutex

func scaleProbes(c *core.Ctx) {
	if !c.Quick() && c.Seed%1000 != 0 {
		return
	}
	var wg sync.WaitGroup
	sem := make(chan struct{}, 4)
	lines := make([]func(), 0)
	_ = lines
	for _, k := range scaleKinds {
		wg.Add(1)
		sem <- struct{}{}
		go func(k string) {
			defer wg.Done()
			defer func() { <-sem }()
			scaleKind(c, k, scaleSizes(c))
		}(k)
	}
	wg.Wait()
}
