/-
  C09 — `tree.Consensus` on the channel it really reads (`<-chan tree.Trees`, tree/algo.go:283-291):
  an item is a tree or an error record (`Trees.Err != nil`, what `utils.ReadMultiTrees` delivers for
  an unreadable tree).  Round 7: this branch of the loop was executed by nobody (the harness only sent
  trees) and was not in the model.

      for curtree := range trees {
          if curtree.Err != nil {
              for range trees {}          // the channel is emptied
              return nil, curtree.Err     // the error of the FIRST error record
          }
          … the per-tree steps (their own errors are returned at once, WITHOUT emptying the channel)
      }

  * the range check comes before anything is taken from the channel;
  * items are handled in order: an error of a tree placed before the first error record (duplicate
    tips, differing taxa) wins over the record; everything after the record is never looked at;
  * `consumed` = how many items have been taken from the channel when `Consensus` returns (all of them
    after an error record or a normal run, `j+1` when tree number `j` is refused, none on a range error).
-/
import Gotree.Model.C09
import Gotree.Model.C09Float

namespace Gotree.C09
open Gotree

/-- one element of the channel: `Trees{Tree: t}` or `Trees{Err: errors.New(msg)}` -/
inductive Item where
  | tree (t : T)
  | bad (msg : String)

def Item.isBad : Item → Bool
  | .bad _ => true
  | .tree _ => false

/-- the trees in front of the first error record, and the message of that record -/
def splitItems : List Item → List T × Option String
  | [] => ([], none)
  | .bad m :: _ => ([], some m)
  | .tree t :: r => (t :: (splitItems r).1, (splitItems r).2)

/-- `Consensus` over a list of items, the count cut being a parameter as in `consensusCut`.
    Error class `input:<msg>` = the error of the first error record, returned as it is. -/
def consensusItemsCut (cut : Rat → Nat → Nat) (ord : List Entry → List Entry) (items : List Item) (c : Rat) : Out :=
  if c < 1/2 || c > 1 then .err "range"
  else match splitItems items with
    | (ts, none) => consensusCoreCut cut true true ord (ts.map rerootTip) c
    | (ts, some m) =>
      -- the loop runs over `ts`, then meets the record
      if (ts.map rerootTip).any (fun t => t.kids.length < 2) then .unsupported
      else match countAll true true (ts.map rerootTip) with
        | .error w => .err w
        | .ok _ => .err ("input:" ++ m)

/-- the code as it is now (`cutNow`) -/
def consensusItems (ord : List Entry → List Entry) (items : List Item) (c : Rat) : Out :=
  consensusItemsCut cutNow ord items c

/-- a variant that SKIPS error records (`continue` instead of `return`): the consensus of the readable
    trees — what the property forbids (negative witness `skip_bad_items_wrong`) -/
def consensusItemsSkip (ord : List Entry → List Entry) (items : List Item) (c : Rat) : Out :=
  consensusCut cutNow ord (items.filterMap fun | .tree t => some t | .bad _ => none) c

/-- index of the first tree that the counting loop refuses -/
def firstRefused (ts : List T) : Option Nat :=
  (List.range ts.length).find? fun j =>
    match countAll true true (ts.take (j + 1)) with
    | .error _ => true
    | .ok _ => false

/-- number of items taken from the channel when `Consensus` returns (fidelity figure `drain-*`) -/
def consumedItems (items : List Item) (c : Rat) : Nat :=
  if c < 1/2 || c > 1 then 0
  else
    let ts := (splitItems items).1.map rerootTip
    match firstRefused ts with
    | some j => j + 1
    | none => items.length

end Gotree.C09
