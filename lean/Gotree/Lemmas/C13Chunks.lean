/-
  C13 — `bufio.Reader.ReadLine` delivers an over-long line in chunks (`isPrefix = true` for all but the
  last).  The model of the multi-tree reader (`multiGo`) works on whole lines; here the loop of
  ReadUntilSemiColon is transcribed on the chunk stream, and shown to be the same for EVERY chunking.
-/
import Gotree.Lemmas.C13

namespace Gotree.C13
open Gotree

/-- `for err == nil && (isPrefix || lastChar != ';') { line, isPrefix, err = r.ReadLine(); ln = append(ln, line...); … }`
    inside the loop of ReadMultiTrees, on the stream of `(line, isPrefix)` results of ReadLine -/
def multiGoC (C : NewickCodec) : List (Txt × Bool) → Txt → Nat → List Rec
  | [], acc, id => if id == 0 then [⟨0, .err⟩] else if acc.all isSpaceGo then [] else [⟨id, .err⟩]
  | (ch, pre) :: r, acc, id =>
    let ln := acc ++ ch
    if !pre && lastNonBlank ln == ';' then
      match (chunkGo C (ln.length + 1) ln id).2 with
      | none => (chunkGo C (ln.length + 1) ln id).1
      | some nid => (chunkGo C (ln.length + 1) ln id).1 ++ multiGoC C r [] nid
    else multiGoC C r ln id

/-- `cs` is a way ReadLine may deliver the line `l`: pieces that concatenate to `l`, all flagged
    `isPrefix` but the last -/
inductive IsChunking : Txt → List (Txt × Bool) → Prop
  | last (l : Txt) : IsChunking l [(l, false)]
  | more (c l : Txt) (cs : List (Txt × Bool)) : IsChunking l cs → IsChunking (c ++ l) ((c, true) :: cs)

theorem multiGoC_line (C : NewickCodec) (l : Txt) (cs : List (Txt × Bool)) (h : IsChunking l cs)
    (rest : List (Txt × Bool)) (acc : Txt) (id : Nat) :
    multiGoC C (cs ++ rest) acc id =
      (if lastNonBlank (acc ++ l) == ';' then
        match (chunkGo C ((acc ++ l).length + 1) (acc ++ l) id).2 with
        | none => (chunkGo C ((acc ++ l).length + 1) (acc ++ l) id).1
        | some nid => (chunkGo C ((acc ++ l).length + 1) (acc ++ l) id).1 ++ multiGoC C rest [] nid
      else multiGoC C rest (acc ++ l) id) := by
  induction h generalizing acc with
  | last l => simp [multiGoC]
  | more c l cs _ ih =>
    simp only [List.cons_append, multiGoC, Bool.not_true, Bool.false_and, Bool.false_eq_true, if_false]
    rw [ih (acc ++ c)]
    simp [List.append_assoc]

/-- the chunk stream of a file: each line delivered in some chunking -/
inductive IsChunkStream : List Txt → List (Txt × Bool) → Prop
  | nil : IsChunkStream [] []
  | cons (l : Txt) (ls : List Txt) (cs rest : List (Txt × Bool)) :
      IsChunking l cs → IsChunkStream ls rest → IsChunkStream (l :: ls) (cs ++ rest)

theorem multiGoC_eq (C : NewickCodec) (ls : List Txt) (stream : List (Txt × Bool)) (h : IsChunkStream ls stream)
    (acc : Txt) (id : Nat) : multiGoC C stream acc id = multiGo C ls acc id := by
  induction h generalizing acc id with
  | nil => simp [multiGoC, multiGo]
  | cons l ls cs rest hc _ ih =>
    rw [multiGoC_line C l cs hc rest acc id]
    simp only [multiGo]
    by_cases hs : (lastNonBlank (acc ++ l) == ';') = true
    · simp only [hs, if_true]
      cases (chunkGo C ((acc ++ l).length + 1) (acc ++ l) id).2 with
      | none => rfl
      | some nid => simp only [ih]
    · simp only [hs, Bool.false_eq_true, if_false, ih]

end Gotree.C13
