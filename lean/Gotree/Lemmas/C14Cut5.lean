/-
  C14 round 2 — the outer loop of `CutEdgesMaxLength` on the pointer graph, part 4.
  Core Lean only.
-/
import Gotree.Lemmas.C14Cut4

namespace Gotree.C14
open Gotree Gotree.C14.Go

theorem kidsIdx_append : ∀ (a b : Kids) (m : Nat), kidsIdx m (a ++ b) = kidsIdx m a ++ kidsIdx (m + T.sizeL a) b
  | [], b, m => by simp [kidsIdx, T.sizeL]
  | (e, t) :: a, b, m => by
    have hs : m + T.sizeL ((e, t) :: a) = m + t.size + T.sizeL a := by rw [sizeL_cons]; omega
    simp [kidsIdx, kidsIdx_append a b (m + t.size), hs]

theorem openL_names_kids (g : G) (thr : Rat) (p : Nat) : ∀ (ks : Kids) (m : Nat),
    (∀ x ∈ kidsIdx m ks, Sub g.nodes x.1 (flatT (some p) x.1 x.2.2)) → (openL thr m ks).map g.name = (compL thr ks).1
  | [], _, _ => by simp [openL, compL]
  | (e, t) :: r, m, h => by
    have a1 := openT_names g thr t m (some p) (h (m, (e, t)) (by simp [kidsIdx]))
    have a2 := openL_names_kids g thr p r (m + t.size) (fun x hx => h x (by simp [kidsIdx, hx]))
    simp only [openL, compL, List.map_append]
    by_cases hs : e.len < thr
    · simp only [hs, if_true, a1, a2]
    · simp only [hs, if_false, List.map_nil, List.nil_append, a2]

theorem reach_bound (g : G) (thr : Rat) (p m0 : Nat) (all : Kids) : ∀ (ks : Kids) (m : Nat),
    (∀ x ∈ kidsIdx m ks, KidOK g p m0 all x) → ∀ j ∈ reachL thr m ks, j < g.edges.size
  | [], _, _, j, hj => by simp [reachL] at hj
  | (e, t) :: r, m, h, j, hj => by
    simp only [reachL, List.mem_append] at hj
    have hx := h (m, (e, t)) (by simp [kidsIdx])
    rcases hj with hj | hj
    · split at hj
      · rcases List.mem_cons.1 hj with rfl | hj
        · have he : g.edges[m - 1]? = some ⟨p, m, e⟩ := hx.edge
          by_cases hlt : m - 1 < g.edges.size
          · exact hlt
          · rw [Array.getElem?_eq_none (by omega)] at he; cases he
        · have h1 := reachT_range thr t m j hj
          have h2' : Sub g.edges m (gedgesT m t) := hx.edges
          have h2 : m + (gedgesT m t).length ≤ g.edges.size := h2'.bound
          have h3 := gedgesT_length m t
          omega
      · cases hj
    · exact reach_bound g thr p m0 all r (m + t.size) (fun x hx' => h x (by simp [kidsIdx, hx'])) j hj

theorem tip_false_of_len (g : G) (p : Nat) (nd : GNode) (h : g.nodes[p]? = some nd) (hl : nd.neigh.length ≠ 1) : g.tip p = false := by
  simp [G.tip, h, hl]

theorem names_of_pairs (g : G) (l : List Nat) : (tipPairs g l).map (·.1) = l.map g.name := by
  simp [tipPairs, List.map_map, Function.comp]

theorem optBag_names (b : Bag) : ((if b.length > 0 then [b] else []).map fun b => b.map (·.1)) = optBag (b.map (·.1)) := by
  cases b with
  | nil => simp [optBag]
  | cons x b => simp [optBag]

end Gotree.C14
