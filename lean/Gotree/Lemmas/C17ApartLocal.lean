/-
  C17 — `Apart` at every site, by cases on the slot configuration.
-/
import Gotree.Lemmas.C17Apart

namespace Gotree.C17
open Gotree Gotree.C17.Spec

theorem apart_kids {Z : List String} {isRoot : Bool} {k k' : Kids} (c : SplitE) (jj : Nat) (R : List SplitE)
    (h1 : (splitsL k).Perm (c :: R)) (h2 : (splitsL k').Perm (entryOf k' jj :: R))
    (he : c.e = (entryOf k' jj).e) (ht : c.tip = false) (ht' : (entryOf k' jj).tip = false)
    (hcZ : ∀ x ∈ c.below, x ∈ Z) (hcZ' : ∀ x ∈ (entryOf k' jj).below, x ∈ Z)
    (q1 : ∃ x, x ∈ c.below ∧ x ∈ (entryOf k' jj).below) (q2 : ∃ x, x ∈ c.below ∧ x ∉ (entryOf k' jj).below)
    (q3 : ∃ x, x ∈ Z ∧ x ∉ c.below ∧ x ∈ (entryOf k' jj).below)
    (q4 : isRoot = true → ∃ x, x ∈ Z ∧ x ∉ c.below ∧ x ∉ (entryOf k' jj).below)
    (hR : ∀ s ∈ R, s.below ≠ [] ∧ Within Z c.below (entryOf k' jj).below s.below) :
    Apart Z c.below isRoot (splitsL k) (splitsL k') :=
  ⟨c, entryOf k' jj, R, R, rfl, h1, h2, sameBranches_refl _, he, ht, ht', hcZ, hcZ', q1, q2, q3, q4, hR⟩

/-- the entries of one child's block lie below that child -/
theorem block_sub (e : EdgeD) (t : T) : ∀ s ∈ (⟨t.leaves, e, t.isLeaf⟩ : SplitE) :: t.splitsBelow,
    s.below ≠ [] ∧ ∀ x ∈ s.below, x ∈ t.leaves := by
  intro s hs
  have := below_sub_leavesL [(e, t)] s (by simpa [splitsL] using hs)
  simpa [leavesL] using this

macro "within_block" hsub:ident : tactic => `(tactic|
  (unfold Within
   first
   | exact Or.inl (fun x hx => by have := $hsub x hx; grind)
   | exact Or.inr (Or.inl (fun x hx => by have := $hsub x hx; grind))
   | exact Or.inr (Or.inr (Or.inl (fun x hx => by have := $hsub x hx; grind)))
   | exact Or.inr (Or.inr (Or.inr (Or.inl (fun x hx => by have := $hsub x hx; grind))))))

macro "pick2" a:ident b:ident c:ident d:ident : tactic => `(tactic|
  first
  | exact ⟨$a, by grind, by grind⟩
  | exact ⟨$b, by grind, by grind⟩
  | exact ⟨$c, by grind, by grind⟩
  | exact ⟨$d, by grind, by grind⟩)

macro "pick3" a:ident b:ident c:ident d:ident : tactic => `(tactic|
  first
  | exact ⟨$a, by grind, by grind, by grind⟩
  | exact ⟨$b, by grind, by grind, by grind⟩
  | exact ⟨$c, by grind, by grind, by grind⟩
  | exact ⟨$d, by grind, by grind, by grind⟩)

/-- non-root site: the three blocks `u v y`; the central branch of the new tree is child `jj` -/
macro "apart_at3" jj:num e:ident eu:ident ev:ident ey:ident tu:ident tv:ident ty:ident
    xu:ident xv:ident xy:ident bu:ident bv:ident bY:ident : tactic => `(tactic|
  (refine apart_kids ⟨T.leaves $tu ++ T.leaves $tv, $e, false⟩ $jj
    (((⟨T.leaves $tu, $eu, T.isLeaf $tu⟩ : SplitE) :: T.splitsBelow $tu) ++
      ((⟨T.leaves $tv, $ev, T.isLeaf $tv⟩ : SplitE) :: T.splitsBelow $tv) ++
      ((⟨T.leaves $ty, $ey, T.isLeaf $ty⟩ : SplitE) :: T.splitsBelow $ty))
    (by ev_entries; perm_entries) (by ev_entries; perm_entries) (by ev_entries) rfl (by ev_entries)
    (by ev_entries; intro x hx; simp only [List.mem_append] at hx ⊢; grind)
    (by ev_entries; intro x hx; simp only [List.mem_append] at hx ⊢; grind)
    (by ev_entries; pick2 $xu $xv $xy $xy) (by ev_entries; pick2 $xu $xv $xy $xy) (by ev_entries; pick3 $xu $xv $xy $xy)
    (by intro h; cases h) ?_
   ev_entries
   intro s hs
   simp only [List.mem_append] at hs
   rcases hs with (hs | hs) | hs
   · obtain ⟨hne, hsub⟩ := $bu s hs
     exact ⟨hne, by within_block hsub⟩
   · obtain ⟨hne, hsub⟩ := $bv s hs
     exact ⟨hne, by within_block hsub⟩
   · obtain ⟨hne, hsub⟩ := $bY s hs
     exact ⟨hne, by within_block hsub⟩))

/-- root site: the four blocks `u v y z` -/
macro "apart_at4" jj:num e:ident eu:ident ev:ident ey:ident ez:ident tu:ident tv:ident ty:ident tz:ident
    xu:ident xv:ident xy:ident xz:ident bu:ident bv:ident bY:ident bz:ident : tactic => `(tactic|
  (refine apart_kids ⟨T.leaves $tu ++ T.leaves $tv, $e, false⟩ $jj
    (((⟨T.leaves $tu, $eu, T.isLeaf $tu⟩ : SplitE) :: T.splitsBelow $tu) ++
      ((⟨T.leaves $tv, $ev, T.isLeaf $tv⟩ : SplitE) :: T.splitsBelow $tv) ++
      ((⟨T.leaves $ty, $ey, T.isLeaf $ty⟩ : SplitE) :: T.splitsBelow $ty) ++
      ((⟨T.leaves $tz, $ez, T.isLeaf $tz⟩ : SplitE) :: T.splitsBelow $tz))
    (by ev_entries; perm_entries) (by ev_entries; perm_entries) (by ev_entries) rfl (by ev_entries)
    (by ev_entries; intro x hx; simp only [List.mem_append] at hx ⊢; grind)
    (by ev_entries; intro x hx; simp only [List.mem_append] at hx ⊢; grind)
    (by ev_entries; pick2 $xu $xv $xy $xz) (by ev_entries; pick2 $xu $xv $xy $xz) (by ev_entries; pick3 $xu $xv $xy $xz)
    (by intro _; ev_entries; pick3 $xu $xv $xy $xz) ?_
   ev_entries
   intro s hs
   simp only [List.mem_append] at hs
   rcases hs with ((hs | hs) | hs) | hs
   · obtain ⟨hne, hsub⟩ := $bu s hs
     exact ⟨hne, by within_block hsub⟩
   · obtain ⟨hne, hsub⟩ := $bv s hs
     exact ⟨hne, by within_block hsub⟩
   · obtain ⟨hne, hsub⟩ := $bY s hs
     exact ⟨hne, by within_block hsub⟩
   · obtain ⟨hne, hsub⟩ := $bz s hs
     exact ⟨hne, by within_block hsub⟩))

/-- the leaves below child number `j` -/
def lowerLeaves (k : Kids) (j : Nat) : List String :=
  match k[j]? with
  | some (_, c) => leavesL c.kids
  | none => []

/-- the statement of the local fact for one configuration -/
def LocalApart (path : List Nat) (d1 : NodeD) (cross : Bool) (isRoot : Bool) (p1 : Nat) (k1 : Kids) (j p2 : Nat) : Prop :=
  (leavesL k1).Nodup →
    ∀ S', applyLocal isRoot (newNNI path isRoot p1 j p2 cross) (.node d1 p1 k1) = some S' →
      Apart (leavesL k1) (lowerLeaves k1 j) isRoot (splitsL k1) (splitsL S'.kids)

set_option maxHeartbeats 4000000 in
theorem local_apart_root (path : List Nat) (d1 d2 : NodeD) (cross : Bool) (e eu ev : EdgeD) (tu tv : T)
    (y z : EdgeD × T) (p1 p2 : Nat) (hp2 : p2 ≤ 2) :
    LocalApart path d1 cross true p1 [(e, T.node d2 p2 [(eu, tu), (ev, tv)]), y, z] 0 p2 ∧
    LocalApart path d1 cross true p1 [y, (e, T.node d2 p2 [(eu, tu), (ev, tv)]), z] 1 p2 ∧
    LocalApart path d1 cross true p1 [y, z, (e, T.node d2 p2 [(eu, tu), (ev, tv)])] 2 p2 := by
  obtain ⟨xu, hxu⟩ := List.exists_mem_of_ne_nil _ (leaves_ne_nil tu)
  obtain ⟨xv, hxv⟩ := List.exists_mem_of_ne_nil _ (leaves_ne_nil tv)
  obtain ⟨ey, ty⟩ := y
  obtain ⟨ez, tz⟩ := z
  obtain ⟨xy, hxy⟩ := List.exists_mem_of_ne_nil _ (leaves_ne_nil ty)
  obtain ⟨xz, hxz⟩ := List.exists_mem_of_ne_nil _ (leaves_ne_nil tz)
  have bu := block_sub eu tu
  have bv := block_sub ev tv
  have bY := block_sub ey ty
  have bz := block_sub ez tz
  have h2 : p2 = 0 ∨ p2 = 1 ∨ p2 = 2 := by omega
  unfold LocalApart
  rcases h2 with rfl | rfl | rfl <;> cases cross <;>
    refine ⟨?_, ?_, ?_⟩ <;> intro hnd S' hS' <;> eval_local at hS' <;> subst hS' <;>
    simp only [leavesL, T.leaves, List.append_nil, List.nodup_append, List.mem_append] at hnd <;>
    simp only [T.kids_node, lowerLeaves, List.getElem?_cons_zero, List.getElem?_cons_succ, leavesL, List.append_nil] <;>
    first
    | apart_at4 0 e eu ev ey ez tu tv ty tz xu xv xy xz bu bv bY bz
    | apart_at4 1 e eu ev ey ez tu tv ty tz xu xv xy xz bu bv bY bz
    | apart_at4 2 e eu ev ey ez tu tv ty tz xu xv xy xz bu bv bY bz

set_option maxHeartbeats 4000000 in
theorem local_apart_nonroot (path : List Nat) (d1 d2 : NodeD) (cross : Bool) (e eu ev : EdgeD) (tu tv : T)
    (y : EdgeD × T) (p1 p2 : Nat) (hp1 : p1 ≤ 2) (hp2 : p2 ≤ 2) :
    LocalApart path d1 cross false p1 [(e, T.node d2 p2 [(eu, tu), (ev, tv)]), y] 0 p2 ∧
    LocalApart path d1 cross false p1 [y, (e, T.node d2 p2 [(eu, tu), (ev, tv)])] 1 p2 := by
  obtain ⟨xu, hxu⟩ := List.exists_mem_of_ne_nil _ (leaves_ne_nil tu)
  obtain ⟨xv, hxv⟩ := List.exists_mem_of_ne_nil _ (leaves_ne_nil tv)
  obtain ⟨ey, ty⟩ := y
  obtain ⟨xy, hxy⟩ := List.exists_mem_of_ne_nil _ (leaves_ne_nil ty)
  have bu := block_sub eu tu
  have bv := block_sub ev tv
  have bY := block_sub ey ty
  have h1 : p1 = 0 ∨ p1 = 1 ∨ p1 = 2 := by omega
  have h2 : p2 = 0 ∨ p2 = 1 ∨ p2 = 2 := by omega
  unfold LocalApart
  rcases h1 with rfl | rfl | rfl <;> rcases h2 with rfl | rfl | rfl <;> cases cross <;>
    refine ⟨?_, ?_⟩ <;> intro hnd S' hS' <;> eval_local at hS' <;> subst hS' <;>
    simp only [leavesL, T.leaves, List.append_nil, List.nodup_append, List.mem_append] at hnd <;>
    simp only [T.kids_node, lowerLeaves, List.getElem?_cons_zero, List.getElem?_cons_succ, leavesL, List.append_nil] <;>
    first
    | apart_at3 0 e eu ev ey tu tv ty xu xv xy bu bv bY
    | apart_at3 1 e eu ev ey tu tv ty xu xv xy bu bv bY

/-- at every site: `Apart`, the site being the leaves below the upper end -/
theorem local_apart {path : List Nat} {isRoot : Bool} {p1 : Nat} {k1 : Kids} {j : Nat}
    {e : EdgeD} {d2 : NodeD} {p2 : Nat} {u v : EdgeD × T} (d1 : NodeD) (cross : Bool)
    (s : Site path isRoot p1 k1 j e d2 p2 u v) : LocalApart path d1 cross isRoot p1 k1 j p2 := by
  obtain ⟨eu, tu⟩ := u
  obtain ⟨ev, tv⟩ := v
  exact site_cases s (LocalApart path d1 cross)
    (fun y z p1 hp2 => local_apart_root path d1 d2 cross e eu ev tu tv y z p1 p2 hp2)
    (fun y hp1 hp2 => local_apart_nonroot path d1 d2 cross e eu ev tu tv y p1 p2 hp1 hp2)

/-- the child index of the lower end, recovered from what the NNI remembers -/
def lowIdx (r : NNI) (S : T) : Nat :=
  if r.path.isEmpty then r.i1 else if r.i1 < S.ppos then r.i1 else r.i1 - 1

theorem lowIdx_newNNI (path : List Nat) (isRoot : Bool) (hroot : isRoot = path.isEmpty) (d1 : NodeD) (p1 j p2 : Nat)
    (k1 : Kids) (cross : Bool) : lowIdx (newNNI path isRoot p1 j p2 cross) (.node d1 p1 k1) = j := by
  unfold lowIdx newNNI
  simp only [T.ppos_node, ← hroot]
  cases isRoot with
  | true => simp
  | false =>
    simp only [Bool.false_eq_true, if_false]
    by_cases h : j < p1
    · simp [h]
    · simp only [h, if_false]
      have : ¬ (j + 1 < p1) := by omega
      simp [this]

end Gotree.C17
