/-
  C15 — heap programs: every edit that finds the cells it writes by NAVIGATING from its own
  root (following reference fields) or by allocating, and that stores only references found
  the same way, is local (`Heap.Local`) — whatever it computes.  This is the capability
  reading of a Go method: it can only reach cells through the pointers of its receiver and
  of its arguments.  The concrete edits of the aliasing histories (SetLength, SetName,
  AddComment, ClearComments, delNeighbor/addChild as used by removeTip, Reroot's edge flips,
  RemoveEdges' splices …) are given as such programs in `C15HeapEdits.lean`.
  Core Lean only.
-/
import Gotree.Lemmas.C15Heap

namespace Gotree.C15.Heap

/-- the cells the program may touch: reachable from the root at the start, or allocated since -/
def InS (h0 : H) (r : Addr) (h : H) (a : Addr) : Prop := Reach h0 r a ∨ (h0.next ≤ a ∧ a < h.next)

structure PInv (h0 : H) (r : Addr) (h : H) : Prop where
  le : h0.next ≤ h.next
  closed : ∀ a, InS h0 r h a → ∀ b ∈ h.ptrs a, InS h0 r h b
  same : ∀ a, a < h0.next → ¬ Reach h0 r a → h.ptrs a = h0.ptrs a ∧ h.data a = h0.data a

theorem pinv_init (h0 : H) (r : Addr) : PInv h0 r h0 :=
  ⟨Nat.le_refl _, fun a ha b hb => by
    rcases ha with ha | ha
    · exact Or.inl (Reach.step ha hb)
    · exact absurd ha.2 (Nat.not_lt.mpr ha.1), fun _ _ _ => ⟨rfl, rfl⟩⟩

theorem follow_inS {h0 h : H} {r : Addr} (hi : PInv h0 r h) : ∀ (p : List Nat) (a b : Addr),
    InS h0 r h a → follow h a p = some b → InS h0 r h b
  | [], a, b, ha, hf => by simp [follow] at hf; exact hf ▸ ha
  | i :: p, a, b, ha, hf => by
    simp only [follow] at hf
    split at hf
    · rename_i c hc
      exact follow_inS hi p c b (hi.closed a ha c (List.mem_of_getElem? hc)) hf
    · cases hf

theorem resolve_inS {h0 h : H} {r : Addr} (hi : PInv h0 r h) (s : Src) (a : Addr)
    (hr : resolve h r h0.next s = some a) : InS h0 r h a := by
  cases s with
  | path p => exact follow_inS hi p r a (Or.inl Reach.root) hr
  | fresh k =>
    simp only [resolve] at hr
    split at hr
    · rename_i hlt
      injection hr with hr
      subst hr
      exact Or.inr ⟨Nat.le_add_right _ _, hlt⟩
    · cases hr

theorem resolveAll_inS {h0 h : H} {r : Addr} (hi : PInv h0 r h) : ∀ (l : List Src) (bs : List Addr),
    resolveAll h r h0.next l = some bs → ∀ b ∈ bs, InS h0 r h b
  | [], bs, hr, b, hb => by simp [resolveAll] at hr; subst hr; cases hb
  | s :: l, bs, hr, b, hb => by
    simp only [resolveAll] at hr
    split at hr
    · rename_i a as ha has
      injection hr with hr
      subst hr
      rcases List.mem_cons.mp hb with rfl | hb
      · exact resolve_inS hi s _ ha
      · exact resolveAll_inS hi l as has b hb
    · cases hr

/-- a written cell is never one of the protected ones -/
theorem inS_ne {h0 h : H} {r : Addr} {t a : Addr} (ht : InS h0 r h t) (ha : a < h0.next) (hn : ¬ Reach h0 r a) : a ≠ t := by
  intro h0'
  subst h0'
  rcases ht with ht | ht
  · exact hn ht
  · exact absurd ha (Nat.not_lt.mpr ht.1)

theorem step_pinv {h0 h : H} {r : Addr} (hi : PInv h0 r h) (o : Op) : PInv h0 r (step r h0.next h o) := by
  cases o with
  | setData t v =>
    simp only [step]
    split
    · rename_i a hr
      have hs := resolve_inS hi t a hr
      refine ⟨hi.le, fun x hx b hb => hi.closed x hx b hb, fun x hx hn => ?_⟩
      have := hi.same x hx hn
      simp [setDataAt, inS_ne hs hx hn, this]
    · exact hi
  | setPtrs t l =>
    simp only [step]
    split
    · rename_i a bs hr hrs
      have hs := resolve_inS hi t a hr
      have hbs := resolveAll_inS hi l bs hrs
      refine ⟨hi.le, fun x hx b hb => ?_, fun x hx hn => ?_⟩
      · by_cases hxa : x = a
        · simp only [setPtrsAt, hxa, if_true] at hb
          exact hbs b hb
        · simp only [setPtrsAt, hxa, if_false] at hb
          exact hi.closed x hx b hb
      · have := hi.same x hx hn
        simp [setPtrsAt, inS_ne hs hx hn, this]
    · exact hi
  | copyData t s0 =>
    simp only [step]
    split
    · rename_i a b hr _
      have hs := resolve_inS hi t a hr
      refine ⟨hi.le, fun x hx b hb => hi.closed x hx b hb, fun x hx hn => ?_⟩
      have := hi.same x hx hn
      simp [setDataAt, inS_ne hs hx hn, this]
    · exact hi
  | alloc =>
    simp only [step]
    have hle := hi.le
    refine ⟨Nat.le_succ_of_le hi.le, fun x hx b hb => ?_, fun x hx hn => ?_⟩
    · by_cases hxn : x = h.next
      · simp [allocCell, hxn] at hb
      · simp only [allocCell, hxn, if_false] at hb
        have hx' : InS h0 r h x := by
          rcases hx with hx | hx
          · exact Or.inl hx
          · refine Or.inr ⟨hx.1, ?_⟩
            have : x < h.next + 1 := hx.2
            exact Nat.lt_of_le_of_ne (Nat.le_of_lt_succ this) hxn
        rcases hi.closed x hx' b hb with h1 | h1
        · exact Or.inl h1
        · exact Or.inr ⟨h1.1, Nat.lt_succ_of_lt h1.2⟩
    · have hne : x ≠ h.next := Nat.ne_of_lt (Nat.lt_of_lt_of_le hx hle)
      have := hi.same x hx hn
      simp [allocCell, hne, this]

theorem exec_pinv {h0 : H} {r : Addr} : ∀ (os : List Op) (h : H), PInv h0 r h → PInv h0 r (exec r h0.next os h)
  | [], _, hi => hi
  | o :: os, h, hi => exec_pinv os _ (step_pinv hi o)

theorem reach_inS {h0 h : H} {r : Addr} (hi : PInv h0 r h) : ∀ a, Reach h r a → InS h0 r h a := by
  intro a ha
  induction ha with
  | root => exact Or.inl Reach.root
  | step _ hb ih => exact hi.closed _ ih _ hb

/-- ★ every heap program is a local edit of the tree it navigates from -/
theorem runProg_local (r : Addr) (prog : H → List Op) : Local r (runProg r prog) ∧ KeepsAlloc r (runProg r prog) := by
  have hp : ∀ h, PInv h r (runProg r prog h) := fun h => exec_pinv (prog h) h (pinv_init h r)
  refine ⟨⟨fun h a hlt hn => (hp h).same a hlt hn, fun h a _ hr => ?_, fun h => (hp h).le⟩, fun h ha a hr => ?_⟩
  · rcases reach_inS (hp h) a hr with h1 | h1
    · exact Or.inl h1
    · exact Or.inr h1.1
  · rcases reach_inS (hp h) a hr with h1 | h1
    · exact Nat.lt_of_lt_of_le (ha a h1) (hp h).le
    · exact h1.2

/-- ★ hence any history of heap programs run on one tree leaves a disjoint tree untouched -/
theorem progs_frame {r r' : Addr} (progs : List (H → List Op)) (h : H)
    (ha : Alloc h r) (ha' : Alloc h r') (hd : Disjoint h r r') :
    SameOn h (run (progs.map (runProg r)) h) r' ∧ (∀ a, Reach (run (progs.map (runProg r)) h) r' a ↔ Reach h r' a) ∧
    Disjoint (run (progs.map (runProg r)) h) r r' :=
  history_frame _ h (fun e he => by
    obtain ⟨p, _, rfl⟩ := List.mem_map.mp he
    exact runProg_local r p) ha ha' hd

end Gotree.C15.Heap
