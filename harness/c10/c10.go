// Package c10: bootstrap supports (FBP, TBE) against their definitions.
//
// Every case runs the REAL support.FBP and support.TBE (one thread) on a
// reference tree and a collection of bootstrap trees, through the library or
// through `gotree compute support fbp|tbe`, and emits the α dumps before and
// after.  A second run on a permuted collection of re-rooted / rotated copies
// gives the invariance cases (C10.inv).
package c10

import (
	"bufio"
	"fmt"
	"io"
	"math"
	"os"
	"os/exec"
	"strings"
	"time"

	"verifharness/core"

	"github.com/evolbioinfo/gotree/io/newick"
	"github.com/evolbioinfo/gotree/support"
	"github.com/evolbioinfo/gotree/tree"
)

// ---------------------------------------------------------------------------
// harness-side tree surgery (on *core.N; never on the code under test)

func resetPPos(n *core.N) {
	n.PPos = 0
	for _, k := range n.Kids {
		resetPPos(k)
	}
}

// inner non-root nodes with their parents
func innerNodes(root *core.N) (nodes, parents []*core.N) {
	var rec func(x *core.N)
	rec = func(x *core.N) {
		for _, k := range x.Kids {
			if len(k.Kids) > 0 {
				nodes = append(nodes, k)
				parents = append(parents, x)
			}
			rec(k)
		}
	}
	rec(root)
	return
}

func leavesOf(root *core.N) []*core.N {
	var out []*core.N
	var rec func(x *core.N)
	rec = func(x *core.N) {
		if len(x.Kids) == 0 {
			out = append(out, x)
		}
		for _, k := range x.Kids {
			rec(k)
		}
	}
	rec(root)
	return out
}

func indexOf(l []*core.N, x *core.N) int {
	for i, y := range l {
		if y == x {
			return i
		}
	}
	return -1
}

// nni swaps a child of an inner node with one of its siblings.
func nni(g *core.G, root *core.N) bool {
	nodes, parents := innerNodes(root)
	if len(nodes) == 0 {
		return false
	}
	i := g.Intn(len(nodes))
	v, u := nodes[i], parents[i]
	if len(u.Kids) < 2 {
		return false
	}
	vi := indexOf(u.Kids, v)
	wi := g.Intn(len(u.Kids) - 1)
	if wi >= vi {
		wi++
	}
	ci := g.Intn(len(v.Kids))
	u.Kids[wi], v.Kids[ci] = v.Kids[ci], u.Kids[wi]
	return true
}

// contract removes an inner branch (its children go to the parent).
func contract(g *core.G, root *core.N) bool {
	nodes, parents := innerNodes(root)
	if len(nodes) == 0 {
		return false
	}
	i := g.Intn(len(nodes))
	v, u := nodes[i], parents[i]
	vi := indexOf(u.Kids, v)
	var kids []*core.N
	kids = append(kids, u.Kids[:vi]...)
	kids = append(kids, v.Kids...)
	kids = append(kids, u.Kids[vi+1:]...)
	u.Kids = kids
	return true
}

func addLen(a, b float64) float64 {
	if a < 0 && b < 0 {
		return -1
	}
	return math.Max(a, 0) + math.Max(b, 0)
}

// unroot merges the two root branches of a rooted tree (root with two children,
// one of them inner).  Returns false when nothing can be done.
func unroot(root *core.N) bool {
	if len(root.Kids) != 2 {
		return false
	}
	a, b := root.Kids[0], root.Kids[1]
	if len(a.Kids) == 0 {
		a, b = b, a
	}
	if len(a.Kids) == 0 {
		return false
	}
	// a is inner: its children become children of the root; b's branch absorbs a's
	b.E.Len = addLen(a.E.Len, b.E.Len)
	if a.E.Sup > b.E.Sup && len(b.Kids) > 0 {
		b.E.Sup = a.E.Sup
	}
	root.Kids = append(append([]*core.N{}, a.Kids...), b)
	return true
}

// moveRoot makes the inner child number i of the root the new root (the root must
// have at least three children).  Returns the new root.
func moveRoot(root *core.N, i int) *core.N {
	c := root.Kids[i]
	if len(c.Kids) == 0 || len(root.Kids) < 3 {
		return root
	}
	root.Kids = append(append([]*core.N{}, root.Kids[:i]...), root.Kids[i+1:]...)
	root.E = c.E
	c.E = nil
	c.Kids = append(c.Kids, root)
	return c
}

// rootOn puts a new root in the middle of the branch above child i.
func rootOn(root *core.N, i int) *core.N {
	if len(root.Kids) < 3 {
		return root
	}
	c := root.Kids[i]
	root.Kids = append(append([]*core.N{}, root.Kids[:i]...), root.Kids[i+1:]...)
	e := core.NewE()
	e.Len, e.Sup = -1, c.E.Sup
	if c.E.Len >= 0 {
		e.Len = c.E.Len / 2
		c.E.Len = c.E.Len / 2
	}
	if len(c.Kids) == 0 {
		e.Sup = -1
	}
	root.E = e
	root.Name = ""
	return &core.N{Kids: []*core.N{c, root}}
}

func rotate(g *core.G, n *core.N) {
	g.R.Shuffle(len(n.Kids), func(i, j int) { n.Kids[i], n.Kids[j] = n.Kids[j], n.Kids[i] })
	for _, k := range n.Kids {
		rotate(g, k)
	}
}

// represent draws another presentation of the same unrooted tree: re-rooted or
// unrooted or rooted elsewhere, children rotated.
func represent(g *core.G, t *core.N, mayRoot bool) *core.N {
	t = t.Clone()
	if len(t.Kids) == 2 {
		if g.Chance(0.7) {
			unroot(t)
		}
	}
	if len(t.Kids) >= 3 {
		for s := g.Intn(4); s > 0; s-- {
			t = moveRoot(t, g.Intn(len(t.Kids)))
		}
		if mayRoot && g.Chance(0.3) {
			t = rootOn(t, g.Intn(len(t.Kids)))
		}
	}
	rotate(g, t)
	resetPPos(t)
	return t
}

func stripSupports(n *core.N) {
	if n.E != nil {
		n.E.Sup = -1
	}
	for _, k := range n.Kids {
		stripSupports(k)
	}
}

// ---------------------------------------------------------------------------
// generators

func refTree(c *core.Ctx) *core.N {
	g := c.G
	o := core.DefaultOpts()
	o.MinTips, o.MaxTips = 4, c.Scale(11, 16)
	o.InnerNames = 0
	o.Lengths = 1
	o.Supports = 2
	if g.Chance(0.5) {
		o.Multif = 0
	}
	switch g.Intn(4) {
	case 0:
		o.Rooted = 1
	case 1:
		o.Rooted = 0
	default:
		o.Rooted = 2
	}
	t, _ := g.Tree(o)
	if g.Chance(0.2) {
		// a rooted reference with a tip child of the root
		if len(t.Kids) == 2 {
			unroot(t)
		}
		if len(t.Kids) >= 3 {
			sub := t
			sub.E = core.NewE()
			sub.E.Len = g.Length(&o)
			sub.E.Sup = g.Support(&o)
			leaf := &core.N{Name: fmt.Sprintf("t%d", len(t.TipNames())), E: core.NewE()}
			leaf.E.Len = g.Length(&o)
			if g.Chance(0.5) {
				t = &core.N{Kids: []*core.N{leaf, sub}}
			} else {
				t = &core.N{Kids: []*core.N{sub, leaf}}
			}
		}
	}
	// tip branches never carry a support (no Newick text can give them one)
	for _, l := range leavesOf(t) {
		l.E.Sup = -1
	}
	resetPPos(t)
	core.NumberEdges(t)
	return t
}

func relabel(g *core.G, t *core.N) {
	ls := leavesOf(t)
	names := make([]string, len(ls))
	for i, l := range ls {
		names[i] = l.Name
	}
	p := g.R.Perm(len(ls))
	for i, l := range ls {
		l.Name = names[p[i]]
	}
}

// bootTree derives one bootstrap tree from the reference.
func bootTree(c *core.Ctx, ref *core.N) *core.N {
	g := c.G
	b := ref.Clone()
	stripSupports(b)
	switch r := g.Intn(10); {
	case r == 0: // identical topology
	case r == 1: // unrelated: same shape, taxa shuffled, then scrambled
		relabel(g, b)
		for i := 0; i < 6; i++ {
			nni(g, b)
		}
	default:
		for m := g.Intn(4) + 1; m > 0; m-- {
			if g.Chance(0.6) {
				nni(g, b)
			} else {
				contract(g, b)
			}
		}
	}
	b = represent(g, b, true)
	core.NumberEdges(b)
	return b
}

// spoilTaxa makes the taxa of a bootstrap tree differ from the reference's.
func spoilTaxa(g *core.G, b *core.N) {
	ls := leavesOf(b)
	switch g.Intn(3) {
	case 0: // same number, one other name
		ls[g.Intn(len(ls))].Name = "zz"
	case 1: // one more
		extra := &core.N{Name: "zz", E: core.NewE()}
		extra.E.Len = 0.5
		b.Kids = append(b.Kids, extra)
	default: // one fewer, where that leaves no single-child node
		_, parents := innerNodes(b)
		parents = append(parents, b)
		for _, u := range parents {
			if len(u.Kids) >= 4 || (u != b && len(u.Kids) >= 3) {
				for i, k := range u.Kids {
					if len(k.Kids) == 0 {
						u.Kids = append(append([]*core.N{}, u.Kids[:i]...), u.Kids[i+1:]...)
						core.NumberEdges(b)
						return
					}
				}
			}
		}
		ls[g.Intn(len(ls))].Name = "zz"
	}
	core.NumberEdges(b)
}

// ---------------------------------------------------------------------------
// running the real code

type result struct {
	out   string // ok | err | nan | panic:… | timeout | clifail:…
	after string // α dump of the annotated reference
}

func build(n *core.N) *tree.Tree {
	t, err := core.Build(n)
	if err != nil {
		panic(err)
	}
	return t
}

func channel(boots []*core.N) chan tree.Trees {
	ch := make(chan tree.Trees, len(boots)+1)
	for i, b := range boots {
		ch <- tree.Trees{Tree: build(b), Id: i}
	}
	close(ch)
	return ch
}

// guarded runs f with a watchdog; a panic in the calling goroutine is caught.
func guarded(f func() error) (string, bool) {
	type res struct {
		out string
	}
	done := make(chan res, 1)
	go func() {
		var err error
		if p, msg := core.Safe(func() { err = f() }); p {
			done <- res{"panic:" + core.Escape(msg)}
			return
		}
		if err != nil {
			done <- res{"err"}
			return
		}
		done <- res{"ok"}
	}()
	select {
	case r := <-done:
		return r.out, true
	case <-time.After(20 * time.Second):
		return "timeout", false
	}
}

func afterDump(t *tree.Tree) (string, bool) {
	a, wf := core.Alpha(t)
	if !wf.OK() {
		return "", false
	}
	nan := false
	var rec func(x *core.N)
	rec = func(x *core.N) {
		if x.E != nil && (math.IsNaN(x.E.Sup) || math.IsInf(x.E.Sup, 0)) {
			nan = true
		}
		for _, k := range x.Kids {
			rec(k)
		}
	}
	rec(a)
	if nan {
		return "nan", true
	}
	return a.Dump(), true
}

func finish(out string, t *tree.Tree) result {
	if out != "ok" {
		return result{out: out}
	}
	d, ok := afterDump(t)
	if !ok {
		return result{out: "panic:malformed-reference"}
	}
	if d == "nan" {
		return result{out: "nan"}
	}
	return result{out: "ok", after: d}
}

func inprocFBP(ref *core.N, boots []*core.N) result {
	t := build(ref)
	ch := channel(boots)
	out, _ := guarded(func() error { return support.FBP(t, ch, 1, nil) })
	return finish(out, t)
}

func inprocTBE(ref *core.N, boots []*core.N) result {
	t := build(ref)
	ch := channel(boots)
	out, _ := guarded(func() error {
		// as cmd/booster.go does before calling TBE
		if err := t.ReinitIndexes(); err != nil {
			return err
		}
		_, err := support.TBE(t, ch, 1, false, false, false, 0.3, nil, nil)
		return err
	})
	return finish(out, t)
}


// ---------------------------------------------------------------------------
// child executor: FBP and TBE start goroutines; a panic there cannot be
// recovered and a lost wg.Done() hangs.  The library calls therefore run in a
// child process (this binary, `-arg @child`) fed one request per line; when it
// dies or stays silent the outcome is `panic:child-died` / `timeout` and a new
// child is started.

type childProc struct {
	cmd   *exec.Cmd
	in    io.WriteCloser
	out   *bufio.Reader
	lines chan string
}

var child *childProc
var useChild = true

// timeouts counts the calls that never returned; after maxTimeouts the run stops
// generating (the hang is reported by the cases already emitted)
var timeouts int

const maxTimeouts = 3

func startChild() *childProc {
	cmd := exec.Command(os.Args[0], "C10", "-arg", "@child")
	cmd.Stderr = io.Discard
	in, err := cmd.StdinPipe()
	if err != nil {
		panic(err)
	}
	out, err := cmd.StdoutPipe()
	if err != nil {
		panic(err)
	}
	if err := cmd.Start(); err != nil {
		panic(err)
	}
	cp := &childProc{cmd: cmd, in: in, out: bufio.NewReaderSize(out, 1<<20), lines: make(chan string, 1)}
	go func() {
		for {
			l, err := cp.out.ReadString('\n')
			if err != nil {
				close(cp.lines)
				return
			}
			cp.lines <- strings.TrimRight(l, "\n")
		}
	}()
	return cp
}

func (cp *childProc) kill() {
	cp.in.Close()
	cp.cmd.Process.Kill()
	cp.cmd.Wait()
}

func stopChild() {
	if child != nil {
		child.kill()
		child = nil
	}
}

func callChild(kind string, ref *core.N, boots []*core.N) result {
	if child == nil {
		child = startChild()
	}
	req := kind + "\t" + ref.Dump() + "\t" + core.Dumps(boots) + "\n"
	if _, err := io.WriteString(child.in, req); err != nil {
		stopChild()
		return result{out: "panic:child-died"}
	}
	select {
	case l, ok := <-child.lines:
		if !ok {
			stopChild()
			return result{out: "panic:child-died"}
		}
		f := strings.SplitN(l, "\t", 2)
		r := result{out: f[0]}
		if r.out == "timeout" {
			// the goroutines of the call are still blocked in that child: start afresh
			stopChild()
			timeouts++
		}
		if len(f) > 1 {
			r.after = f[1]
		}
		return r
	case <-time.After(30 * time.Second):
		stopChild()
		timeouts++
		return result{out: "timeout"}
	}
}

func childLoop() {
	rd := bufio.NewReaderSize(os.Stdin, 1<<20)
	w := bufio.NewWriter(os.Stdout)
	for {
		l, err := rd.ReadString('\n')
		if err != nil {
			return
		}
		f := strings.Split(strings.TrimRight(l, "\n"), "\t")
		if len(f) < 3 {
			return
		}
		ref, err := core.ParseDump(f[1])
		if err != nil {
			return
		}
		boots := parseDumps(f[2])
		var r result
		if f[0] == "FBP" {
			r = inprocFBP(ref, boots)
		} else {
			r = inprocTBE(ref, boots)
		}
		w.WriteString(r.out + "\t" + r.after + "\n")
		w.Flush()
	}
}

func libFBP(ref *core.N, boots []*core.N) result {
	if !useChild {
		return inprocFBP(ref, boots)
	}
	return callChild("FBP", ref, boots)
}

func libTBE(ref *core.N, boots []*core.N) result {
	if !useChild {
		return inprocTBE(ref, boots)
	}
	return callChild("TBE", ref, boots)
}

func parseNewick(s string) (*core.N, error) {
	t, err := newick.NewParser(strings.NewReader(s)).Parse()
	if err != nil {
		return nil, err
	}
	a, wf := core.Alpha(t)
	if !wf.OK() {
		return nil, fmt.Errorf("malformed")
	}
	return a, nil
}

func cliRun(c *core.Ctx, which, refFile, bootFile string) result {
	r := c.RunCLI("", 20*time.Second, "compute", "support", which, "-i", refFile, "-b", bootFile, "-t", "1")
	if r.Timeout {
		timeouts++
		return result{out: "timeout"}
	}
	if r.Exit != 0 {
		if r.Exit == 1 {
			return result{out: "err"}
		}
		return result{out: fmt.Sprintf("panic:exit%d", r.Exit)}
	}
	txt := strings.TrimSpace(r.Stdout)
	if strings.Contains(txt, "NaN") {
		return result{out: "nan"}
	}
	a, err := parseNewick(txt)
	if err != nil {
		return result{out: "clifail:" + core.Escape(err.Error())}
	}
	return result{out: "ok", after: a.Dump()}
}

// doSup runs both functions on one input and emits the C10.sup line.
func doSup(c *core.Ctx, mode string, ref *core.N, boots []*core.N) (result, result) {
	if mode == "cli" {
		refTxt := build(ref).Newick() + "\n"
		var sb strings.Builder
		for _, b := range boots {
			sb.WriteString(build(b).Newick() + "\n")
		}
		// what the binary will see: the trees as its own parser reads them
		pref, err := parseNewick(refTxt)
		if err != nil {
			panic(err)
		}
		var pboots []*core.N
		for _, l := range strings.Split(strings.TrimSpace(sb.String()), "\n") {
			if l == "" {
				continue
			}
			pb, err := parseNewick(l)
			if err != nil {
				panic(err)
			}
			pboots = append(pboots, pb)
		}
		rf := c.TmpFile(refTxt)
		bf := c.TmpFile(sb.String())
		// the hidden aliases `classical` / `booster` are commands of their own (cmd/classical.go, cmd/booster.go)
		fcmd, tcmd := "fbp", "tbe"
		if c.G.Chance(0.3) {
			fcmd, tcmd = "classical", "booster"
		}
		f := cliRun(c, fcmd, rf, bf)
		t := cliRun(c, tcmd, rf, bf)
		c.Emit("C10.sup", mode, pref.Dump(), core.Dumps(pboots), f.out, f.after, t.out, t.after)
		return f, t
	}
	f := libFBP(ref, boots)
	t := libTBE(ref, boots)
	c.Emit("C10.sup", mode, ref.Dump(), core.Dumps(boots), f.out, f.after, t.out, t.after)
	return f, t
}


// doMtd calls support.MinTransferDist directly (no goroutine there) on every
// non-trivial branch of the reference against one bootstrap tree, with and
// without the `absent` shortcut, and emits the distances.
func doMtd(c *core.Ctx, ref, boot *core.N) {
	var items []string
	out := "ok"
	p, msg := core.Safe(func() {
		t := build(ref)
		b := build(boot)
		if err := t.ReinitIndexes(); err != nil {
			out = "err"
			return
		}
		if err := b.ReinitIndexes(); err != nil {
			out = "err"
			return
		}
		if err := t.CompareTipIndexes(b); err != nil {
			out = "err"
			return
		}
		bootedges := b.Edges()
		for i, e := range bootedges {
			e.SetId(i) // as TBE does
		}
		ntips := len(t.Tips())
		for i, e := range t.Edges() {
			if d, _ := e.TopoDepth(); d > 1 {
				for _, absent := range []bool{false, true} {
					dist, _, _, _ := support.MinTransferDist(e, t, b, ntips, bootedges, absent)
					a := 0
					if absent {
						a = 1
					}
					items = append(items, fmt.Sprintf("%d:%d:%d", i, a, dist))
				}
			}
		}
	})
	if p {
		out = "panic:" + core.Escape(msg)
	}
	res := ""
	if len(items) > 0 {
		res = strings.Join(items, ",") + ","
	}
	c.Emit("C10.mtd", ref.Dump(), boot.Dump(), out, res)
}

// doInv: the same trees presented otherwise must give the same supports per split.
func doInv(c *core.Ctx, ref1 *core.N, boots1 []*core.N, ref2 *core.N, boots2 []*core.N) {
	f1, t1 := libFBP(ref1, boots1), libTBE(ref1, boots1)
	f2, t2 := libFBP(ref2, boots2), libTBE(ref2, boots2)
	if f1.out != "ok" || t1.out != "ok" || f2.out != "ok" || t2.out != "ok" {
		// reported by the C10.sup lines of the two inputs
		c.Emit("C10.sup", "lib", ref1.Dump(), core.Dumps(boots1), f1.out, f1.after, t1.out, t1.after)
		c.Emit("C10.sup", "lib", ref2.Dump(), core.Dumps(boots2), f2.out, f2.after, t2.out, t2.after)
		return
	}
	c.Emit("C10.inv", ref1.Dump(), core.Dumps(boots1), f1.after, t1.after, ref2.Dump(), core.Dumps(boots2), f2.after, t2.after)
}

// ---------------------------------------------------------------------------

func parseDumps(s string) []*core.N {
	var out []*core.N
	for _, d := range strings.Split(s, "|") {
		if strings.TrimSpace(d) == "" {
			continue
		}
		n, err := core.ParseDump(d)
		if err != nil {
			panic(err)
		}
		out = append(out, n)
	}
	return out
}

// Replay re-executes the requests of a corpus / replay file on the real code.
func Replay(c *core.Ctx, lines []string) {
	for _, l := range lines {
		if timeouts >= maxTimeouts {
			return
		}
		f := strings.Split(l, "\t")
		switch {
		case f[0] == "C10.sup" && len(f) >= 4:
			ref, err := core.ParseDump(f[2])
			if err != nil {
				panic(err)
			}
			mode := f[1]
			if mode == "cli" && c.Gotree == "" {
				mode = "lib"
			}
			doSup(c, mode, ref, parseDumps(f[3]))
		case f[0] == "C10.mtd" && len(f) >= 3:
			r1, err := core.ParseDump(f[1])
			if err != nil {
				panic(err)
			}
			b1, err := core.ParseDump(f[2])
			if err != nil {
				panic(err)
			}
			doMtd(c, r1, b1)
		case f[0] == "C10.inv" && len(f) >= 7:
			r1, err := core.ParseDump(f[1])
			if err != nil {
				panic(err)
			}
			r2, err := core.ParseDump(f[5])
			if err != nil {
				panic(err)
			}
			doInv(c, r1, parseDumps(f[2]), r2, parseDumps(f[6]))
		}
	}
}

func genCase(c *core.Ctx, mode string) {
	g := c.G
	ref := refTree(c)
	k := 1 + g.Intn(c.Scale(5, 8))
	if mode == "lib" && g.Chance(0.01) {
		k = 0
	}
	var boots []*core.N
	for i := 0; i < k; i++ {
		boots = append(boots, bootTree(c, ref))
	}
	mismatch := k > 0 && g.Chance(0.12)
	if mismatch {
		spoilTaxa(g, boots[g.Intn(len(boots))])
	}
	// outside the property's quantifier (correspondence only): repeated tip names,
	// branch ids no parser assigns, single-child nodes
	special := false
	if mode == "lib" && k > 0 && !mismatch {
		switch sp := g.Intn(100); {
		case sp < 2:
			t := ref
			if g.Chance(0.6) {
				t = boots[g.Intn(k)]
			}
			ls := leavesOf(t)
			ls[0].Name = ls[len(ls)-1].Name
			special = true
		case sp < 4:
			shift := -1
			if g.Chance(0.5) {
				shift = 1000
			}
			var rec func(x *core.N)
			rec = func(x *core.N) {
				for _, kid := range x.Kids {
					if shift < 0 {
						kid.E.Id = -1
					} else {
						kid.E.Id += shift
					}
					rec(kid)
				}
			}
			rec(ref)
			special = true
		case sp < 7:
			b := boots[g.Intn(k)]
			nodes, parents := innerNodes(b)
			if len(nodes) > 0 {
				i := g.Intn(len(nodes))
				v, u := nodes[i], parents[i]
				mid := &core.N{E: core.NewE(), Kids: []*core.N{v}}
				mid.E.Len = 0.25
				u.Kids[indexOf(u.Kids, v)] = mid
				core.NumberEdges(b)
				special = true
			}
		}
	}
	f, t := doSup(c, mode, ref, boots)
	if mode != "lib" || mismatch || special || k == 0 || f.out != "ok" || t.out != "ok" {
		return
	}
	doMtd(c, ref, boots[g.Intn(len(boots))])
	// the same input presented otherwise
	ref2 := represent(g, ref, false)
	core.NumberEdges(ref2)
	boots2 := make([]*core.N, len(boots))
	for i, j := range g.R.Perm(len(boots)) {
		boots2[i] = represent(g, boots[j], true)
		core.NumberEdges(boots2[i])
	}
	doSup(c, "lib", ref2, boots2)
	doInv(c, ref, boots, ref2, boots2)
}

// Run generates the cases of C10.
func Run(c *core.Ctx) {
	if c.Arg == "@child" {
		childLoop()
		return
	}
	defer stopChild()
	if c.Arg != "" {
		Replay(c, core.ReadRequests(c.Arg))
		return
	}
	n := c.Scale(400, 6000)
	for i := 0; i < n && timeouts < maxTimeouts; i++ {
		genCase(c, "lib")
	}
	if c.Gotree != "" {
		m := c.Scale(25, 300)
		for i := 0; i < m && timeouts < maxTimeouts; i++ {
			genCase(c, "cli")
		}
	}
}
