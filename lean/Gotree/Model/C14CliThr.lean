/-
  C14 (round 7) — the `-l` value of `gotree brlen cut` beyond the decimal spellings.

  pflag's Float64 value is `strconv.ParseFloat(s, 64)`, which also accepts `inf`, `infinity` (any case, optional
  sign) and `nan` (any case, NO sign): the command then runs with `cutlengthmax = ±Inf / NaN`.  `Model/C14Cli.lean`
  said "anything else is rejected": wrong for these spellings (found by reading strconv/atof.go `special` and by
  running the binary).  Hexadecimal floats (`0x1p-1`) and digit separators (`1_0`) are accepted by ParseFloat too;
  they are NOT modelled: the driver neither ties nor judges such a request (tag `l-unmodelled`).

  Core Lean only.
-/
import Gotree.Model.C14Cli

namespace Gotree.C14.Cli
open Gotree Gotree.C14 Gotree.C14.Go

inductive Thr where
  | fin (q : Rat)
  | pinf
  | ninf
  | nan
  deriving Repr, DecidableEq

def lowerS (s : String) : String := String.ofList (s.toList.map Char.toLower)

/-- `special` of strconv/atof.go: an optional sign then `inf` or `infinity`; `nan` without sign; any case;
    the whole text must be consumed (`infin` is a syntax error) -/
def parseSpecial (s : String) : Option Thr :=
  let l := lowerS s
  if l == "nan" then some .nan
  else
    let nb : Bool × String := match l.toList with
      | '-' :: r => (true, String.ofList r)
      | '+' :: r => (false, String.ofList r)
      | _ => (false, l)
    if nb.2 == "inf" || nb.2 == "infinity" then some (if nb.1 then .ninf else .pinf) else none

def parseThr (s : String) : Option Thr :=
  match parseSpecial s with
  | some t => some t
  | none => (parseDec s).map .fin

/-- spellings `ParseFloat` accepts that the model does not read: hexadecimal floats, digit separators -/
def unmodelledSpelling (s : String) : Bool :=
  s.toList.any fun c => c == 'x' || c == 'X' || c == '_' || c == 'p' || c == 'P'

def maxLen (t : T) : Rat := t.edges.foldl (fun m e => if e.len > m then e.len else m) 0
def minLen (t : T) : Rat := t.edges.foldl (fun m e => if e.len < m then e.len else m) (-1)

/-- the threshold as a rational for ONE tree: every `Length() < maxlen` of the cut has the truth value it has with
    the float — `+Inf` is above every length (and above the sentinel −1 of an absent one), `-Inf` and `NaN` make
    every comparison false -/
def Thr.forTree (t : T) : Thr → Rat
  | .fin q => q
  | .pinf => maxLen t + 1
  | .ninf => minLen t - 1
  | .nan => minLen t - 1

def cutEachThr (thr : Thr) : List InTree → Nat → String → CliOut
  | [], _, acc => ⟨0, acc, ""⟩
  | .bad e :: _, _, acc => ⟨1, acc, e⟩
  | .good t :: r, id, acc =>
    match cutGo (thr.forTree t) t with
    | .ok bags => cutEachThr thr r (id + 1) (acc ++ String.join (bags.map (bagLine id)))
    | .err e => ⟨1, acc, e⟩
    | .panic e => ⟨2, acc, e⟩

/-- `gotree brlen cut [-l <value>] -i <file>` with the special values of `ParseFloat`; identical to `cutCmd`
    on the decimal spellings -/
def cutCmdThr (lflag : Option String) (input : Except String (List InTree)) : CliOut :=
  let thr : Option Thr := match lflag with
    | none => some (.fin (1 / 2))
    | some s => parseThr s
  match thr with
  | none =>
    let v := lflag.getD ""
    ⟨1, "", "invalid argument \"" ++ v ++ "\" for \"-l, --max-length\" flag: strconv.ParseFloat: parsing \"" ++ v ++ "\": invalid syntax"⟩
  | some thr =>
    match input with
    | .error path => ⟨1, "", "open " ++ path ++ ": no such file or directory"⟩
    | .ok trees => cutEachThr thr trees 0 ""

end Gotree.C14.Cli
