/-
  C12 — the command-line glue of `gotree acr` / `gotree asr` (cmd/acr.go, cmd/asr.go) as small
  pure functions: option values → what is computed and what is written.

  * `--algo` is compared case-insensitively (`strings.ToLower`); `acr` knows acctran, deltran,
    downpass, none; an unknown name is logged and the command ends WITHOUT output and with exit
    status 0 (`io.LogError(...); return` with `err` still nil) — `asr` returns the error (status 1),
    and `asr --algo none`, though documented, is refused by `ParsimonyAsr` (status 1).
  * `parseTipStates`: one line per tip, columns separated by a tab OR a comma
    (`regexp "\t|,"`), exactly two columns or the whole command fails; a later line for the same
    name overwrites an earlier one (a Go map).
  * one output record per input tree, in input order: the tree with its comments on `-o`,
    `steps N` on `--out-steps`, and on `--out-states` the lines `key,state,state…` sorted by key.
-/
import Gotree.Model.C12R

namespace Gotree.C12
open Gotree

/-- the `case` literals of `switch strings.ToLower(parsimonyAlgo)` -/
def cliAlgoL (s : String) : Option Algo :=
  match s with
  | "acctran" => some .acctran
  | "deltran" => some .deltran
  | "downpass" => some .downpass
  | "none" => some .none
  | _ => none

def cliAlgo (s : String) : Option Algo := cliAlgoL s.toLower

/-- the value of `--algo` when the option is not given (flag default of cmd/acr.go and cmd/asr.go) -/
def cliDefaultAlgo : String := "acctran"

/-- `regexp.MustCompile("\t|,").Split(l, -1)` on the characters of the line -/
def splitCols : List Char → List (List Char)
  | [] => [[]]
  | c :: r =>
    if c == '\t' || c == ',' then [] :: splitCols r
    else match splitCols r with
      | [] => [[c]]
      | x :: xs => (c :: x) :: xs

/-- `parseTipStates`: `none` = "Bad format for tip states: Wrong number of columns";
    the map as an association list sorted by name (later lines win) -/
def parseTipStates : List String → List (String × String) → Option (List (String × String))
  | [], acc => some acc
  | l :: r, acc =>
    match splitCols l.toList with
    | [a, b] => parseTipStates r (insertKV (String.ofList a, String.ofList b) acc)
    | _ => none

/-- what one run of `gotree acr` does -/
inductive AcrCli where
  /-- unknown `--algo`: logged, nothing written, exit status 0 -/
  | silent
  /-- the command fails (exit status 1): bad states file, or a tip without state in tree number `i` -/
  | fail (afterTrees : Nat)
  /-- one record per tree -/
  | ok (recs : List AcrOut)
  deriving Repr

def acrTrees (m : List (String × String)) (algo : Algo) : List T → List AcrOut → AcrCli
  | [], acc => .ok acc.reverse
  | t :: r, acc =>
    match acr t m algo with
    | some o => acrTrees m algo r (o :: acc)
    | none => .fail acc.length

def acrCli (algoS : String) (stateLines : List String) (trees : List T) : AcrCli :=
  match cliAlgo algoS with
  | none => .silent
  | some algo =>
    match parseTipStates stateLines [] with
    | none => .fail 0
    | some m => acrTrees m algo trees []

/-- `fmt.Fprintf(outstepsf, "steps %d\n", nsteps)` -/
def stepsLine (n : Nat) : String := "steps " ++ toString n

/-- `resfile.WriteString(fmt.Sprintf("%s,%s\n", k, statemap[k]))` for the sorted keys -/
def statesLines (o : AcrOut) : List String :=
  o.map.map fun kv => kv.1 ++ "," ++ ",".intercalate kv.2

/-- `steps` followed by one number per site and the trailing 0 of `make([]int, a.Length()+1)` -/
def asrLogLine (steps : List Nat) : String := "steps" ++ String.join (steps.map fun n => " " ++ toString n)

/-- what `gotree asr` does with `--algo` (the alignment and the trees are read first) -/
def asrCliAlgo (s : String) : Option Algo :=
  match cliAlgo s with
  | some .none => none      -- accepted by the command, refused by ParsimonyAsr
  | a => a

end Gotree.C12
