/-
  C14 — the command-line glue `cmd/matrix.go` and `cmd/brlencut.go` as functions of the
  flag values and of what the tree reader delivers (DESIGN §4.3).  Tied to the `gotree`
  binary by the CLI tier of the harness (ops `C14.climatrix`, `C14.clicut`): exit code and
  the exact bytes written to stdout / the `-o` file.

  Core Lean only.
-/
import Gotree.Model.C14Go

namespace Gotree.C14.Cli
open Gotree Gotree.C14 Gotree.C14.Go

/-- Go's `%.<prec>f` of the exact value `q` (round half to even on the exact expansion;
    the sign is kept even when the digits are all 0) -/
def fmtF (prec : Nat) (q : Rat) : String :=
  let p := 10 ^ prec
  let n := q.num.natAbs * p
  let fl := n / q.den
  let rem2 := 2 * (n % q.den)
  let r := if rem2 > q.den then fl + 1 else if rem2 < q.den then fl else (if fl % 2 == 0 then fl else fl + 1)
  let ip := r / p
  let fp := toString (r % p)
  let pad := String.ofList (List.replicate (prec - fp.length) '0')
  (if q < 0 then "-" else "") ++ toString ip ++ (if prec == 0 then "" else "." ++ pad ++ fp)

/-- the block both branches of `matrixCmd` write: `len(tips)\n`, then per tip its name and
    `"\t" + %.12f` per column, `\n` -/
def matrixText (names : List String) (m : List (List Rat)) : String :=
  toString names.length ++ "\n" ++
  String.join (names.zipIdx.map fun ni =>
    ni.1 ++ String.join ((List.range names.length).map fun j =>
      "\t" ++ fmtF 12 (((m.getD ni.2 []).getD j 0))) ++ "\n")

/-- what `readTrees` delivers on the channel: a tree, or a record carrying an error (the
    reader stops after it) -/
inductive InTree where
  | good (t : T)
  | bad (msg : String)

structure CliOut where
  exit : Nat          -- 0 ok, 1 error returned by RunE / cobra, 2 Go panic
  out : String        -- bytes written to stdout or to the `-o` file
  msg : String        -- the error `RunE`/cobra returned: `Execute` prints it and "\n" on the REAL stdout
  deriving Repr, BEq

/-- the `switch metric` of `cmd/matrix.go` -/
def metricOfFlag : String → Option Int
  | "brlen" => some 0
  | "boot" => some 1
  | "none" => some 2
  | _ => none

/-- non-average mode: `for t := range treechan { if t.Err != nil {return}; print }` -/
def matrixEach (metric : Int) : List InTree → String → CliOut
  | [], acc => ⟨0, acc, ""⟩
  | .bad e :: _, acc => ⟨1, acc, e⟩
  | .good t :: r, acc =>
    match matrixGo metric t with
    | some (names, m) => matrixEach metric r (acc ++ matrixText names m)
    | none => ⟨2, acc, "panic"⟩

/-- average mode hands the channel to `AvgDistanceMatrix`, whose loop starts with
    `if t.Err != nil { err = t.Err; return }` (fix 55aaa9d; before it the nil `*Tree` of an
    error record was dereferenced) — unless an earlier tree already ended the loop. -/
def avgUpTo (metric : Int) : AvgState → List InTree → Out AvgState
  | s, [] => .ok s
  | _, .bad e :: _ => .err e
  | s, .good t :: r =>
    match avgStep metric s t with
    | .ok s' => avgUpTo metric s' r
    | .err e => .err e
    | .panic e => .panic e

def InTree.tree? : InTree → Option T
  | .good t => some t
  | .bad _ => none

/-- `gotree matrix -m <metric> [--avg] -i <file>`: `input = none` when the file cannot be
    opened.  Order of the tests as in the code: output file, input, metric, then the mode. -/
def matrixCmd (metricFlag : String) (avg : Bool) (input : Except String (List InTree)) : CliOut :=
  match input with
  | .error path => ⟨1, "", "open " ++ path ++ ": no such file or directory"⟩
  | .ok trees =>
    match metricOfFlag metricFlag with
    | none => ⟨1, "", "distance metric " ++ metricFlag ++ " in not supported"⟩
    | some metric =>
      if avg then
        match avgUpTo metric {} trees with
        | .err e => ⟨1, "", e⟩
        | .panic e => ⟨2, "", e⟩
        | .ok _ =>
          match avgDistanceMatrix metric (trees.filterMap InTree.tree?) with
          | .ok (names, m) => ⟨0, matrixText names m, ""⟩
          | .err e => ⟨1, "", e⟩
          | .panic e => ⟨2, "", e⟩
      else matrixEach metric trees ""

/-- one line per bag: `id \t size \t t1,t2,…\n` -/
def bagLine (id : Nat) (names : List String) : String :=
  toString id ++ "\t" ++ toString names.length ++ "\t" ++ ",".intercalate names ++ "\n"

def cutEach (thr : Rat) : List InTree → Nat → String → CliOut
  | [], _, acc => ⟨0, acc, ""⟩
  | .bad e :: _, _, acc => ⟨1, acc, e⟩
  | .good t :: r, id, acc =>
    match cutGo thr t with
    | .ok bags => cutEach thr r (id + 1) (acc ++ String.join (bags.map (bagLine id)))
    | .err e => ⟨1, acc, e⟩
    | .panic e => ⟨2, acc, e⟩

/-- decimal spellings of the `-l` value (`[+-]ddd[.ddd][e[+-]dd]`); anything else is
    rejected by pflag before `RunE` runs -/
def parseDec (s : String) : Option Rat :=
  let cs := s.toList
  let (neg, cs) := match cs with
    | '-' :: r => (true, r)
    | '+' :: r => (false, r)
    | _ => (false, cs)
  let (mant, ex) := match cs.span (fun c => c != 'e' && c != 'E') with
    | (m, []) => (m, some (0 : Int))
    | (m, _ :: e) =>
      let (eneg, e) := match e with
        | '-' :: r => (true, r)
        | '+' :: r => (false, r)
        | _ => (false, e)
      if e.isEmpty || !e.all Char.isDigit then (m, none)
      else (m, some (if eneg then -((String.ofList e).toNat! : Int) else ((String.ofList e).toNat! : Int)))
  let (ip, fp) := match mant.span (· != '.') with
    | (i, []) => (i, [])
    | (i, _ :: f) => (i, f)
  if (ip.isEmpty && fp.isEmpty) || !ip.all Char.isDigit || !fp.all Char.isDigit then none else
  match ex with
  | none => none
  | some ex =>
    let n : Nat := (String.ofList (ip ++ fp)).toNat!
    let q : Rat := (n : Rat) / ((10 ^ fp.length : Nat) : Rat)
    let q := if ex ≥ 0 then q * ((10 ^ ex.toNat : Nat) : Rat) else q / ((10 ^ (-ex).toNat : Nat) : Rat)
    some (if neg then -q else q)

/-- `gotree brlen cut [-l <value>] -i <file>`: `lflag = none` is the omitted option
    (default 0.5) -/
def cutCmd (lflag : Option String) (input : Except String (List InTree)) : CliOut :=
  let thr : Option Rat := match lflag with
    | none => some (1 / 2)
    | some s => parseDec s
  match thr with
  | none =>
    let v := lflag.getD ""
    ⟨1, "", "invalid argument \"" ++ v ++ "\" for \"-l, --max-length\" flag: strconv.ParseFloat: parsing \"" ++ v ++ "\": invalid syntax"⟩
  | some thr =>
    match input with
    | .error path => ⟨1, "", "open " ++ path ++ ": no such file or directory"⟩
    | .ok trees => cutEach thr trees 0 ""

/-- the bytes the harness collects: the `-o` target, then what `Execute` printed on stdout -/
def CliOut.written (o : CliOut) (outmode : String) : String :=
  let e := if o.exit == 1 then o.msg ++ "\n" else ""
  if outmode == "file" then o.out ++ (if e == "" then "" else "STDOUT:" ++ e) else o.out ++ e

end Gotree.C14.Cli
