import Driver.Proto
import Gotree.Spec.C03
import Gotree.Spec.C03Text
import Gotree.Model.C03Ops
import Gotree.Model.C07
import Gotree.Model.C16
import Gotree.Model.C17
import Gotree.Model.C01

namespace Gotree.Driver.C03
open Gotree Gotree.Driver Gotree.C03

def parsePath (s : String) : Option (Option Path) :=
  if s == "?" then some none
  else if s == "" then some (some [])
  else ((s.splitOn ".").mapM String.toNat?).map some

/-- node list: paths each followed by "," -/
def parseNodeList (s : String) : Option (List (Option Path)) :=
  (splitTerm "," s).mapM parsePath

def parseObsEdge (s : String) : Option ObsEdge :=
  match s.splitOn "/" with
  | [a, b, c] =>
    match parsePath a, parsePath b, parsePath c with
    | some x, some y, some z => some ⟨x, y, z⟩
    | _, _, _ => none
  | _ => none

def parseEdgeList (s : String) : Option (List ObsEdge) :=
  (splitTerm "," s).mapM parseObsEdge

def opName (op : String) : String := (op.splitOn ":").headD ""

def secondTips (dump : String) : Option (List String) := (T.undump dump).map (·.tipNames)

/-- what the operation is documented to do to the tip names (none = unparsable request) -/
def tipEffect (op : String) : Option TipEffect :=
  match op.splitOn ":" with
  | ["reroot", _] | ["rerootfirst"] | ["midpoint"] | ["unroot"] | ["collapselen", _, _, _] | ["collapsesup", _, _]
  | ["collapsedepth", _, _, _, _] | ["removeedges", _, _, _] | ["resolve", _] | ["rotate", _] | ["shuffle", _]
  | ["sorttips"] | ["removesingle"] | ["nni", _, _] | ["nniapply", _] | ["nniundo"] | ["clone"] | ["reinit"] => some .same
  | ["outgroup", rm, _, names] =>
    if rm == "1" then (parseStrList names).map .subsetWithout else some .same
  | ["prune", rev, names] => (parseStrList names).map fun l => .keep l (rev == "1")
  | ["grafttree", tip, dump] =>
    match unescape tip, secondTips dump with
    | some t, some l => some (.replace t l)
    | _, _ => none
  | ["graftedge", name, _] => (unescape name).map fun n => .add [n]
  | ["merge", dump] => (secondTips dump).map .add
  | ["identical", groups] =>
    -- the new names are those not yet in the tree: decided against the before-tree by the caller
    ((groups.splitOn "+").filter (· ≠ "")).mapM parseStrList |>.map fun gs => .add gs.flatten
  | ["rename", _, _] | ["renameauto", _, _, _] | ["renameregex", _, _, _, _] | ["addquotes", _, _] | ["rmquotes", _, _]
  | ["annotate", _, _] =>
    some .sameCount
  | ["subtree", p] =>
    match parsePath p with
    | some (some q) => some (.subtree q)
    | _ => none
  | ["reinitinternal"] | ["updatetipindex"] | ["cutedges", _] | ["addbip", _, _, _, _] | ["rotateone", _, _] | ["clearlengths", _, _] | ["clearsupports"] | ["clearcomments"] | ["scalelengths", _, _, _]
  | ["roundlengths", _, _, _] | ["addlength", _, _, _] | ["clearpvalues"] | ["clearnodecomments"] | ["clearedgecomments"]
  | ["cleartermedgecomments"] | ["scalesupports", _] | ["roundsupports", _] => some .same
  | ["identicalone", _, nw] => (unescape nw).map fun n => .add [n]
  | ["collapseclade", _, name, _] => (unescape name).map fun n => .subsetWith [n]
  | ["resolvenamed"] => some (.add [])     -- the names of the named inner nodes: filled in by the caller
  | _ => none

/-- no single-child inner node and the root is not a tip (what pruning may assume) -/
def noSingleAll (t : T) : Bool := (allPaths t).all fun p =>
  match subtreeAt t p with
  | some s => s.kids.length != 1
  | none => true

/- ## the operation models (exact-α tie) -/

/-- what the composed model answers -/
inductive ModelRes where
  | ok (t : T)
  | err
  | panic
  | noModel            -- operation tied by the oracle only
  | skip (why : String)   -- model not applicable to this state (e.g. branch ids not unique)

def ofRes : Res T → ModelRes
  | .ok t => .ok t | .err _ => .err | .panic _ => .panic

def parseDraws (extra : String) : Option (List Nat) :=
  if extra.startsWith "draws=" then parseNatList (String.ofList (extra.toList.drop 6)) else none

def flagOf (s : String) : Bool := s == "1"

def edgeIdAt (t : T) (p : Path) : Option Int :=
  match p.getLast?, subtreeAt t p.dropLast with
  | some i, some parent => (parent.kids[i]?).map (·.1.id)
  | _, _ => none

def modelOf (op extra : String) (inSync sizesOK : Bool) (tb : T) : ModelRes :=
  -- trees with fewer than 3 tips are outside the quantifier of the operation models (C05 … C17)
  if tb.tipNames.length < 3 then .skip "small" else
  -- the operation models assume unique, non-empty tip names (a regexp renaming can produce others)
  if tb.tipNames.any (· == "") || !(uniqueTipsB tb) then .skip "names" else
  match op.splitOn ":" with
  | ["reroot", p] =>
    match parsePath p with
    | some (some q) => ofRes (applyOp (.reroot q) tb)
    | _ => .noModel
  | ["unroot"] => ofRes (applyOp .unroot tb)
  | ["sorttips"] => ofRes (applyOp .sortTips tb)
  | ["rotate", _] =>
    match parseDraws extra with
    | some ds => ofRes (applyOp (.rotate ds) tb)
    | none => .skip "no-draws"
  | ["prune", rev, names] =>
    match parseStrList names with
    | some l => ofRes (applyOp (.prune (flagOf rev) l) tb)
    | none => .noModel
  | ["outgroup", rm, strict, names] =>
    match parseStrList names with
    | some l => ofRes (applyOp (.outgroup (flagOf rm) (flagOf strict) l) tb)
    | none => .noModel
  | ["midpoint"] => ofRes (applyOp .midpoint tb)
  | ["rerootfirst"] => ofRes (applyOp .rerootFirst tb)
  | ["subtree", p] =>
    match parsePath p with
    | some (some q) => ofRes (applyOp (.subTree q) tb)
    | _ => .noModel
  | ["grafttree", tip, dump] =>
    if !inSync then .skip "stale-index" else
    match unescape tip, T.undump dump with
    | some x, some g => ofRes (applyOp (.graftTree x g) tb)
    | _, _ => .noModel
  | ["identical", groups] =>
    if !inSync then .skip "stale-index" else
    match ((groups.splitOn "+").filter (· ≠ "")).mapM parseStrList with
    | some gs => ofRes (applyOp (.insertIdentical gs) tb)
    | none => .noModel
  | ["collapsedepth", mn, mx, rr, rt] =>
    if !sizesOK then .skip "subtree-sizes-may-be-stale"
    else if !(Gotree.C07.uniqueIds tb) then .skip "ids" else
    match mn.toInt?, mx.toInt? with
    | some a, some b => ofRes (applyOp (.collapseDepth a b (flagOf rr) (flagOf rt)) tb)
    | _, _ => .noModel
  | ["reinit"] => ofRes (applyOp .reinit tb)
  | ["reinitinternal"] => .ok tb
  | ["cutedges", _] => if tb.edges.isEmpty then .ok tb else .ok tb   -- CutEdgesMaxLength only numbers the branches (pre-order, as the harness does)
  | ["resolvenamed"] => .ok (resolveNamed false tb)
  | ["updatetipindex"] => if hasDupS tb.tipNames then .err else .ok tb
  | ["identicalone", old, nw] =>
    if !inSync then .skip "stale-index" else
    match unescape old, unescape nw with
    | some o, some n =>
      (match Gotree.C15.insertOne tb tb.tipNames o n with
       | .ok t' => .ok t'
       | .error _ => .err)
    | _, _ => .noModel
  | ["clearlengths", i, x] => ofRes (applyOp (.clearLengths (flagOf i) (flagOf x)) tb)
  | ["clearsupports"] => ofRes (applyOp .clearSupports tb)
  | ["clearcomments"] => ofRes (applyOp .clearComments tb)
  | ["scalelengths", q, i, x] =>
    match parseRat? q with
    | some r => ofRes (applyOp (.scaleLengths r (flagOf i) (flagOf x)) tb)
    | none => .noModel
  | ["roundlengths", "0", i, x] => ofRes (applyOp (.roundLengths0 (flagOf i) (flagOf x)) tb)
  | ["rotateone", p, _] =>
    match (parsePath p).bind id, parseDraws extra with
    | some q, some ds => ofRes (applyOp (.rotateOne q ds) tb)
    | _, _ => .skip "no-draws"
  | ["addlength", q, i, x] =>
    match parseRat? q with
    | some r => ofRes (applyOp (.addLength r (flagOf i) (flagOf x)) tb)
    | none => .noModel
  | ["clearpvalues"] => ofRes (applyOp .clearPvalues tb)
  | ["clearnodecomments"] => ofRes (applyOp .clearNodeComments tb)
  | ["clearedgecomments"] => ofRes (applyOp .clearEdgeComments tb)
  | ["cleartermedgecomments"] => ofRes (applyOp .clearTermEdgeComments tb)
  | ["scalesupports", q] =>
    match parseRat? q with
    | some r => ofRes (applyOp (.scaleSupports r) tb)
    | none => .noModel
  | ["roundsupports", "0"] => ofRes (applyOp .roundSupports0 tb)
  | ["annotate", c, lines] =>
    match ((lines.splitOn "+").filter (· ≠ "")).mapM parseStrList with
    | some ls => ofRes (annotate (flagOf c) ls tb)
    | none => .noModel
  | ["collapseclade", strict, name, names] =>
    match unescape name, parseStrList names with
    | some n, some l => ofRes (collapseClade (flagOf strict) n l tb)
    | _, _ => .noModel
  | ["addbip", p, slots, l, sp] =>
    match (parsePath p).bind id, ((slots.splitOn ",").filter (· ≠ "")).mapM String.toNat?, parseRat? l, parseRat? sp with
    | some q, some S, some len, some sup =>
      (match addBipAt S len sup q tb with
       | some t' => .ok t'
       | none => .err)
    | _, _, _, _ => .noModel
  | ["shuffle", _] =>
    match parseDraws extra with
    | some ds => ofRes (applyOp (.shuffle ds) tb)
    | none => .skip "no-draws"
  | ["renameregex", i, tp, pat, repl] =>
    match unescape pat, unescape repl with
    | some p, some r =>
      (match regexTable p r with
       | none => .err
       | some none => .skip "regex-not-in-table"
       | some (some f) => ofRes (renameSel (flagOf i) (flagOf tp) f tb))
    | _, _ => .noModel
  | ["renameauto", i, tp, l] =>
    match l.toNat? with
    | some n => ofRes (applyOp (.renameAuto (flagOf i) (flagOf tp) n) tb)
    | none => .noModel
  | ["addquotes", i, tp] => ofRes (applyOp (.quotes true (flagOf i) (flagOf tp)) tb)
  | ["rmquotes", i, tp] => ofRes (applyOp (.quotes false (flagOf i) (flagOf tp)) tb)
  | ["rename", olds, news] =>
    match parseStrList olds, parseStrList news with
    | some o, some n => ofRes (applyOp (.rename (o.zip n)) tb)
    | _, _ => .noModel
  | ["graftedge", name, p] =>
    match unescape name, (parsePath p).bind id with
    | some n, some q => ofRes (applyOp (.graftEdge n ((allPaths tb).tail.idxOf q)) tb)
    | _, _ => .noModel
  | ["removesingle"] => ofRes (applyOp .removeSingle tb)
  | ["clone"] => ofRes (applyOp .clone tb)
  | ["merge", dump] =>
    match T.undump dump with
    | some t2 => ofRes (applyOp (.merge t2) tb)
    | none => .noModel
  | ["collapselen", thr, rr, rt] =>
    if !(Gotree.C07.uniqueIds tb) then .skip "ids" else
    match parseRat? thr with
    | some x => ofRes (applyOp (.collapseLen x (flagOf rr) (flagOf rt)) tb)
    | none => .noModel
  | ["collapsesup", thr, rr] =>
    if !(Gotree.C07.uniqueIds tb) then .skip "ids" else
    match parseRat? thr with
    | some x => ofRes (applyOp (.collapseSup x (flagOf rr)) tb)
    | none => .noModel
  | ["removeedges", rr, rt, paths] =>
    if !(Gotree.C07.uniqueIds tb) then .skip "ids" else
    match ((paths.splitOn ",").filter (· ≠ "")).mapM (fun s => (parsePath s).bind id) with
    | some ps =>
      match ps.mapM (edgeIdAt tb) with
      | some ids => ofRes (applyOp (.removeEdges (flagOf rr) (flagOf rt) ids) tb)
      | none => .noModel
    | none => .noModel
  | ["resolve", _] =>
    match parseDraws extra with
    | some ds =>
      match Gotree.C07.resolve tb ds with
      | some t => .ok t
      | none => .skip "draw-protocol"
    | none => .skip "no-draws"
  | ["nniapply", k] =>
    match k.toNat? with
    | none => .noModel
    | some k => ofRes (applyOp (.nni k false) tb)
  | ["nni", k, undo] =>
    match k.toNat? with
    | none => .noModel
    | some k =>
      let rs := Gotree.C17.rearrangements tb
      if rs.isEmpty then .ok tb else
      match rs[k % rs.length]? with
      | none => .noModel
      | some r =>
        match Gotree.C17.apply tb r with
        | none => .skip "nni-apply"
        | some t1 =>
          if flagOf undo then
            match Gotree.C17.undo t1 r with
            | some t2 => .ok t2
            | none => .skip "nni-undo"
          else .ok t1
  | _ => .noModel

/-- the EditOp of `history_inv` as read from a request (hypothesis tags, invariant oracle);
    `removeedges` needs the tree (branch ids at the given paths) and is read in `editOpOfT` -/
def editOpOf (op extra : String) : Option EditOp :=
  match op.splitOn ":" with
  | ["reroot", p] => ((parsePath p).bind id).map .reroot
  | ["unroot"] => some .unroot
  | ["sorttips"] => some .sortTips
  | ["rotate", _] => (parseDraws extra).map .rotate
  | ["prune", rev, names] => (parseStrList names).map (.prune (flagOf rev))
  | ["rerootfirst"] => some .rerootFirst
  | ["removesingle"] => some .removeSingle
  | ["clone"] => some .clone
  | ["merge", dump] => (T.undump dump).map .merge
  | ["resolve", _] => (parseDraws extra).map .resolve
  | ["nni", k, undo] => k.toNat?.map fun n => .nni n (flagOf undo)
  | ["nniapply", k] => k.toNat?.map fun n => .nni n false
  | ["collapsedepth", mn, mx, rr, rt] =>
    match mn.toInt?, mx.toInt? with
    | some a, some b => some (.collapseDepth a b (flagOf rr) (flagOf rt))
    | _, _ => none
  | ["subtree", p] => ((parsePath p).bind id).map .subTree
  | ["outgroup", rm, strict, names] => (parseStrList names).map (.outgroup (flagOf rm) (flagOf strict))
  | ["midpoint"] => some .midpoint
  | ["shuffle", _] => (parseDraws extra).map .shuffle
  | ["renameauto", i, tp, l] => l.toNat?.map fun n => .renameAuto (flagOf i) (flagOf tp) n
  | ["addquotes", i, tp] => some (.quotes true (flagOf i) (flagOf tp))
  | ["rmquotes", i, tp] => some (.quotes false (flagOf i) (flagOf tp))
  | ["reinit"] => some .reinit
  | ["clearlengths", i, x] => some (.clearLengths (flagOf i) (flagOf x))
  | ["clearsupports"] => some .clearSupports
  | ["clearcomments"] => some .clearComments
  | ["scalelengths", q, i, x] => (parseRat? q).map fun r => .scaleLengths r (flagOf i) (flagOf x)
  | ["roundlengths", "0", i, x] => some (.roundLengths0 (flagOf i) (flagOf x))
  | ["rotateone", p, _] =>
    match (parsePath p).bind id, parseDraws extra with
    | some q, some ds => some (.rotateOne q ds)
    | _, _ => none
  | ["addlength", q, i, x] => (parseRat? q).map fun r => .addLength r (flagOf i) (flagOf x)
  | ["clearpvalues"] => some .clearPvalues
  | ["clearnodecomments"] => some .clearNodeComments
  | ["clearedgecomments"] => some .clearEdgeComments
  | ["cleartermedgecomments"] => some .clearTermEdgeComments
  | ["scalesupports", q] => (parseRat? q).map .scaleSupports
  | ["roundsupports", "0"] => some .roundSupports0
  | ["collapseclade", strict, name, names] =>
    match unescape name, parseStrList names with
    | some n, some l => some (.collapseClade (flagOf strict) n l)
    | _, _ => none
  | ["annotate", c, lines] => (((lines.splitOn "+").filter (· ≠ "")).mapM parseStrList).map (.annotate (flagOf c))
  | ["addbip", p, slots, l, sp] =>
    match (parsePath p).bind id, ((slots.splitOn ",").filter (· ≠ "")).mapM String.toNat?, parseRat? l, parseRat? sp with
    | some q, some S, some len, some sup => some (.addBip q S len sup)
    | _, _, _, _ => none
  | ["rename", olds, news] =>
    match parseStrList olds, parseStrList news with
    | some o, some n => some (.rename (o.zip n))
    | _, _ => none
  | ["grafttree", tip, dump] =>
    match unescape tip, T.undump dump with
    | some x, some g => some (.graftTree x g)
    | _, _ => none
  | ["identical", groups] => (((groups.splitOn "+").filter (· ≠ "")).mapM parseStrList).map .insertIdentical
  | ["collapselen", thr, rr, rt] => (parseRat? thr).map fun x => .collapseLen x (flagOf rr) (flagOf rt)
  | ["collapsesup", thr, rr] => (parseRat? thr).map fun x => .collapseSup x (flagOf rr)
  | _ => none

/-- Is the tip index of the implementation known to agree with the tree?  Only GraftTipOnEdge
    changes the tips without refreshing the index; the operations listed refresh it. -/
def indexInSync : List String → Bool
  | [] => true
  | op :: earlier =>
    let n := opName op
    if n == "graftedge" || n == "annotate" then false   -- Annotate renames tips without refreshing the tip index
    else if ["reinit", "prune", "merge", "shuffle", "identical", "rename", "renameauto", "renameregex", "addquotes",
             "rmquotes", "grafttree", "subtree", "clone", "collapseclade", "resolvenamed", "updatetipindex"].contains n then true
    else indexInSync earlier

/-- Are the subtree sizes stored on the branches (`ntaxleft/right`, read by `TopoDepth`) known to be
    those of the tree?  Grafts and NNI change the tree without recomputing them; the listed
    operations recompute them (ReinitIndexes / ReinitInternalIndexes); the others neither. -/
def sizesInSync : List String → Bool
  | [] => true
  | op :: earlier =>
    let n := opName op
    if ["graftedge", "grafttree", "nni", "nniapply", "nniundo", "collapseclade", "identicalone", "addbip"].contains n then false
    else if ["reinit", "prune", "reroot", "rerootfirst", "outgroup", "midpoint", "resolve", "removesingle", "collapselen",
             "collapsesup", "collapsedepth", "removeedges", "shuffle", "identical", "merge", "subtree", "resolvenamed", "reinitinternal"].contains n then true
    else sizesInSync earlier

def parseSlot (s : String) : Option Slot :=
  match (s.splitOn "/").mapM String.toInt? with
  | some [a, b, c, d] => some ⟨a, b, c, d⟩
  | _ => none

def parseGraph (s : String) : Option Graph :=
  (splitTerm ";" s).mapM fun ns =>
    if ns == "x" then some none else ((splitTerm "," ns).mapM parseSlot).map some

def handle (op : String) (f : List String) : Verdict :=
  match op, f with
  | "step", [start, ops, _k, before, outcome, wf, after, ns, ts, es, is, xs, text, extra, graph] =>
    let opl := (ops.splitOn ";").filter (· ≠ "")
    let lastOp := opl.getLastD ""
    let last := opName lastOp
    let kinds := (opl.map opName).eraseDups
    let tags0 := ["op=" ++ last]
    let inSync := indexInSync opl.dropLast.reverse
    let sizesOK := sizesInSync opl.dropLast.reverse
    if outcome.startsWith "badrequest" then bad ("C03.step: " ++ outcome)
    else if outcome == "err" then
      -- a failed edit ends the history; nothing is promised about the tree.  Tie: the model refuses too.
      match T.undump before with
      | none => bad "C03.step before"
      | some tb =>
        match modelOf lastOp extra inSync sizesOK tb with
        | .ok _ => ⟨.tie, tags0 ++ ["err", "err=" ++ last], "implementation refuses " ++ last ++ ", the model succeeds"⟩
        | .panic => ⟨.tie, tags0 ++ ["err", "err=" ++ last], "implementation refuses " ++ last ++ ", the model panics"⟩
        | .err => ⟨.pass, tags0 ++ ["err", "err=" ++ last, "tie-err"], ""⟩
        | _ =>
          -- NNI Undo as a later step has no model; but when only order / root / index edits happened
          -- since the Apply ("clean") the four adjacencies it looks up still exist: it must not refuse
          if last == "nniundo" && extra.startsWith "undo=1" then
            ⟨.tie, tags0 ++ ["err", "err=" ++ last], "Undo refuses although only order/root/index edits happened since the Apply"⟩
          else ⟨.pass, tags0 ++ ["err", "err=" ++ last], ""⟩
    else if outcome != "ok" then
      -- no exemption: since 16b4243 (RerootOutGroup on two-tip trees reports an error) and 763a2ae
      -- (quotes skip unnamed nodes) no edit is known to crash on a well-formed tree
      ⟨.oracle, tags0 ++ ["crash"], "operation " ++ last ++ " did not return: " ++ outcome⟩
    else
    -- clause 1 of the property, judged by the Spec on the raw pointer graph; the harness' own walker
    -- (`wf`) is kept as a cross-check: the two must agree
    let gp : List String := match parseGraph graph with
      | some g => graphProblems g
      | none => ["unreadable graph"]
    if !gp.isEmpty then
      ⟨.oracle, tags0 ++ ["malformed"] ++ tagIf (wf == "") "walker-missed-it", "heap malformed after " ++ last ++ ": " ++ "; ".intercalate gp ++ " | walker: " ++ wf⟩
    else if wf != "" then
      ⟨.oracle, tags0 ++ ["malformed", "graph-check-missed-it"], "heap malformed after " ++ last ++ " (walker only): " ++ wf⟩
    else
    match T.undump after, T.undump before, parseNodeList ns, parseNodeList ts, parseEdgeList es, parseEdgeList is,
          parseEdgeList xs, unescape text with
    | some t, some tb, some ns, some ts, some es, some is, some xs, some text =>
      let changed := after != start
      let nsb := noSingleAll tb
      let hypInv := InvB nsb tb
      let eo : Option EditOp := match lastOp.splitOn ":" with
        | ["graftedge", name, p] =>
          match unescape name, (parsePath p).bind id with
          | some n, some q => some (EditOp.graftEdge n ((allPaths tb).tail.idxOf q))
          | _, _ => none
        | ["removeedges", rr, rt, paths] =>
          (((paths.splitOn ",").filter (· ≠ "")).mapM (fun s => (parsePath s).bind id)).bind fun ps =>
            (ps.mapM (edgeIdAt tb)).map fun ids => EditOp.removeEdges (flagOf rr) (flagOf rt) ids
        | _ => editOpOf lastOp extra
      let tags := tags0 ++ tagIf (kinds.length ≥ 3 && changed && after != before) "nontrivial" ++ tagIf t.rooted "rooted" ++
        tagIf (t.kids.length ≥ 3) "unrooted" ++ tagIf (t.kids.length ≤ 1) "root-degenerate" ++
        tagIf ((allPaths t).any fun p => match subtreeAt t p with | some s => s.kids.length ≥ 3 && !p.isEmpty | none => false) "multifurcating" ++
        tagIf (noSingleAll t) "nosingle" ++ tagIf (!nsb) "before-has-single" ++
        tagIf (after == before) "unchanged-step" ++ tagIf hypInv "hyp-inv-before" ++
        tagIf (last == "prune" && tb.kids.length == 1) "prune-root-tip" ++
        tagIf (last == "prune" && tb.kids.length == 1 && !(t.tipNames.contains tb.name)) "prune-removes-root-tip" ++
        tagIf (textWF Gotree.Newick.goCodec t) "hyp-textwf" ++
        (match eo with
         | some e => ["editop"] ++ tagIf (opPre nsb e tb) "hyp-oppre"
         | none => [])
      -- the tree value all oracles and ties below work on is what Lean itself reads off the raw graph
      let alphaOK := match parseGraph graph with
        | some g => graphIsTree g t
        | none => false
      if !alphaOK then ⟨.oracle, tags, "after " ++ last ++ ": the α dump is not the tree the raw pointer graph is (shape / child order / parent positions)"⟩ else
      let ep := enumProblems t ns ts es is xs
      let tp := textProblems t text
      let eff : Option TipEffect := match tipEffect lastOp with
        | some (.add names) =>
          if last == "resolvenamed" then
            -- every named node that is not a tip gets a tip child carrying its name
            some (.add (((nodeFlags false tb).filter fun p => !p.2 && p.1 != "").map (·.1)))
          else some (.add (names.filter fun x => !(tipNamesD tb).contains x))   -- identical groups name one old tip each
        | e => e
      if eff.isNone then bad ("C03.step: cannot read the operation " ++ lastOp)
      else if !(tipEffectOK (eff.getD .unknown) tb t) then
        ⟨.oracle, tags, "after " ++ last ++ ": tips were lost or appeared: " ++ showStrList t.tipNames ++ " from " ++ showStrList tb.tipNames⟩
      else if !ep.isEmpty then ⟨.oracle, tags, "after " ++ last ++ ": " ++ "; ".intercalate ep⟩
      else if !tp.isEmpty then
        -- open finding F85: a renaming introduced a name with a Newick metacharacter, which the writer
        -- prints unquoted; region: the step is a renaming, the tree before had no such name, and the
        -- text clause is the only one that fails (graph, α, tips and enumerations passed above)
        let cls := if ["rename", "renameregex", "renameauto", "addquotes", "rmquotes"].contains last &&
            hasMetaName t && !(hasMetaName tb) then "class=NewickUnquotedMetacharName " else ""
        ⟨.oracle, tags ++ tagIf (cls != "") "meta-name", cls ++ "after " ++ last ++ ": " ++ "; ".intercalate tp ++ " text=" ++ text⟩
      else
      -- the invariant of `history_inv`, evaluated on the implementation's own result
      let invAfter : Bool := match eo with
        | some e => !(hypInv && opPre nsb e tb) || InvB (promised nsb e tb) t
        | none => true
      -- (unique tips / no single-child node is the side condition of the quantifier, which `history_inv` proves
      -- re-established by the MODEL: if the implementation's result lacks it, the tie is broken)
      if !invAfter then ⟨.tie, tags, "after " ++ last ++ ": the history invariant (unique tips, no single-child node where promised) is lost"⟩
      else
      -- tie 1: the model's enumerations of the tree α returned, as multisets of paths
      let known (l : List (Option Path)) : List Path := l.filterMap id
      let ids (l : List ObsEdge) : List Path := l.filterMap (·.id)
      let tieOK :=
        sameBag ((nodes t).map (·.path)) (known ns) && sameBag ((tips t).map (·.path)) (known ts) &&
        sameBag ((edges t).map (·.path)) (ids es) && sameBag ((internalEdges t).map (·.path)) (ids is) &&
        sameBag ((tipEdges t).map (·.path)) (ids xs)
      let orderSame :=
        (nodes t).map (·.path) == known ns && (tips t).map (·.path) == known ts &&
        (edges t).map (·.path) == ids es && (internalEdges t).map (·.path) == ids is &&
        (tipEdges t).map (·.path) == ids xs
      if !tieOK then ⟨.tie, tags, "model enumerations differ from the implementation's after " ++ last⟩
      else
      -- tie 1b: the text is what the writer model of C01 (transliteration of Node.Newick / Tree.Newick,
      -- Go's shortest float formatting) writes for the tree α returned
      let wtext := Gotree.Newick.writeStr Gotree.Newick.goCodec t
      if wtext != text then ⟨.tie, tags, "after " ++ last ++ " the writer model gives " ++ wtext ++ " the implementation " ++ text⟩
      else
      -- tie 2: obs_C03 = the exact rooted tree (child order, parent positions, all data)
      let tags := tags ++ tagIf orderSame "enum-order-exact"
      -- NNI Undo as a step of its own (the Rearrangement object lived across the steps in between):
      -- `extra` = "undo=<clean><fresh>=<α dump before the Apply>"
      let undoInfo : Option (Bool × Bool × String) :=
        if last == "nniundo" && extra.startsWith "undo=" then
          match (String.ofList (extra.toList.drop 5)).splitOn "=" with
          | [fl, d] => some (fl.toList.getD 0 '0' == '1', fl.toList.getD 1 '0' == '1', d)
          | _ => none
        else none
      let undoProblem : Option String := match undoInfo with
        | some (clean, _, d) =>
          match T.undump d with
          | none => some "unreadable pre-apply dump"
          | some pre =>
            -- only order / root / index edits happened since the Apply: the unrooted splits are back
            if clean && uniqueTipsB pre && !(pre.tipNames.any (· == "")) && pre.tipNames.length ≥ 3 &&
               canonSet t.usplitSet != canonSet pre.usplitSet then
              some "Apply, order/root edits, Undo: the splits of the tree before the Apply are not restored"
            else none
        | none => none
      -- (restoring the splits is C17's property, not a clause of C03: a broken tie, not an oracle failure)
      if undoProblem.isSome then ⟨.tie, tags ++ ["nni-undo-later"], "after " ++ last ++ ": " ++ undoProblem.getD ""⟩ else
      let tags := tags ++ (match undoInfo with
        | some (clean, fresh, _) => ["nni-undo-step"] ++ tagIf (!fresh) "nni-undo-later" ++ tagIf clean "nni-undo-clean"
        | none => [])
      -- a renaming may change nothing but node names: the new names are read off the result
      let mres :=
        if last == "nniundo" then
          (match undoInfo with
           | none => .ok tb                                   -- nothing to undo: no-op
           | some (_, fresh, d) =>
             -- Undo right after Apply gives the tree back exactly (C17.undo_apply)
             if !fresh then .noModel else
             match T.undump d, ((opl.dropLast.getLastD "").splitOn ":") with
             | some pre, ["nniapply", k] =>
               let rs := Gotree.C17.rearrangements pre
               (match k.toNat?.bind (fun n => rs[n % rs.length]?) with
                | some r => (match Gotree.C17.undo tb r with | some m => .ok m | none => .skip "nni-undo")
                | none => .noModel)
             | _, _ => .noModel)
        else modelOf lastOp extra inSync sizesOK tb
      match mres with
      | .ok m =>
        if m.dump == after then ⟨.pass, tags ++ ["tie-exact"], ""⟩
        else ⟨.tie, tags, "after " ++ last ++ " the model's tree is " ++ m.dump⟩
      | .err => ⟨.tie, tags, "implementation succeeds with " ++ last ++ ", the model refuses"⟩
      | .panic => ⟨.tie, tags, "implementation succeeds with " ++ last ++ ", the model panics"⟩
      | .noModel => ⟨.pass, tags ++ ["tie-oracle-only"], ""⟩
      | .skip why => ⟨.pass, tags ++ ["tie-skip-" ++ why], ""⟩
    | _, _, _, _, _, _, _, _ => bad "C03.step fields"
  | _, _ => bad ("C03: unknown op " ++ op)

end Gotree.Driver.C03
