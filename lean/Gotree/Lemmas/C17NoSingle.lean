/-
  C17 — an NNI keeps "no single-child inner node" (`Spec/Splits.lean: noSingleL`), on any tree
  (binary or not).  Wanted by C03 (`history_inv`).
-/
import Gotree.Lemmas.C17Sim

namespace Gotree.C17
open Gotree

/-- same number of children, and no single-child node below afterwards if none before -/
structure RN (S S' : T) : Prop where
  nkids : S'.kids.length = S.kids.length
  ns : noSingleL S.kids = true → noSingleL S'.kids = true

theorem RN.noSingleBelow {S S' : T} (h : RN S S') (hb : S.noSingleBelow = true) : S'.noSingleBelow = true := by
  obtain ⟨d, p, k⟩ := S
  obtain ⟨d', p', k'⟩ := S'
  have hn := h.nkids
  simp only [T.kids_node] at hn
  simp only [T.noSingleBelow, Bool.and_eq_true] at hb ⊢
  exact ⟨by rw [hn]; exact hb.1, h.ns hb.2⟩

theorem noSingleL_set (c c' : T) (e : EdgeD) (hb : c.noSingleBelow = true → c'.noSingleBelow = true) :
    ∀ (k : Kids) (i : Nat), k[i]? = some (e, c) → noSingleL k = true → noSingleL (k.set i (e, c')) = true := by
  intro k
  induction k with
  | nil => intro i h; simp at h
  | cons x xs ih =>
    intro i h hk
    obtain ⟨ex, tx⟩ := x
    simp only [noSingleL, Bool.and_eq_true] at hk
    cases i with
    | zero =>
      simp at h; obtain ⟨rfl, rfl⟩ := h
      simp only [List.set_cons_zero, noSingleL, Bool.and_eq_true]
      exact ⟨hb hk.1, hk.2⟩
    | succ i =>
      simp only [List.set_cons_succ, noSingleL, Bool.and_eq_true]
      exact ⟨hk.1, ih i (by simpa using h) hk.2⟩

theorem RN.up {c c' : T} (h : RN c c') (d : NodeD) (p : Nat) (k : Kids) (i : Nat) (e : EdgeD)
    (hk : k[i]? = some (e, c)) : RN (.node d p k) (.node d p (k.set i (e, c'))) where
  nkids := by simp
  ns := noSingleL_set c c' e h.noSingleBelow k i hk

theorem RN.lift (f : T → Option T) : ∀ (q : List Nat) (t t' S : T), subAt q t = some S →
    modAt q f t = some t' → (∀ S', f S = some S' → RN S S') → RN t t' := by
  intro q
  induction q with
  | nil =>
    intro t t' S hs hm hr
    simp only [subAt, Option.some.injEq] at hs
    subst hs
    exact hr t' (by simpa [modAt] using hm)
  | cons i q ih =>
    intro t t' S hs hm hr
    obtain ⟨d, pp, k⟩ := t
    simp only [subAt] at hs
    cases hki : k[i]? with
    | none => simp [hki] at hs
    | some ec =>
      obtain ⟨e, c⟩ := ec
      simp only [hki] at hs
      simp only [modAt, hki] at hm
      cases hmc : modAt q f c with
      | none => simp [hmc] at hm
      | some c' =>
        simp only [hmc, Option.some.injEq] at hm
        subst hm
        exact (ih c c' S hs hmc hr).up d pp k i e hki

/-- the local fact, by cases on the slot configuration -/
theorem local_RN {path : List Nat} {isRoot : Bool} {p1 : Nat} {k1 : Kids} {j : Nat}
    {e : EdgeD} {d2 : NodeD} {p2 : Nat} {u v : EdgeD × T} (d1 : NodeD) (cross : Bool)
    (s : Site path isRoot p1 k1 j e d2 p2 u v) :
    ∀ S', applyLocal isRoot (newNNI path isRoot p1 j p2 cross) (.node d1 p1 k1) = some S' →
      RN (.node d1 p1 k1) S' := by
  obtain ⟨eu, tu⟩ := u
  obtain ⟨ev, tv⟩ := v
  refine site_cases s (fun isRoot p1 k1 j p2 =>
    ∀ S', applyLocal isRoot (newNNI path isRoot p1 j p2 cross) (.node d1 p1 k1) = some S' →
      RN (.node d1 p1 k1) S') ?_ ?_
  · intro y z p1 hp2
    obtain ⟨ey, ty⟩ := y
    obtain ⟨ez, tz⟩ := z
    have h2 : p2 = 0 ∨ p2 = 1 ∨ p2 = 2 := by omega
    rcases h2 with rfl | rfl | rfl <;> cases cross <;>
      refine ⟨?_, ?_, ?_⟩ <;> intro S' hS' <;> eval_local at hS' <;> subst hS' <;>
      exact ⟨rfl, by simp [noSingleL, T.noSingleBelow] <;> (intros; simp_all)⟩
  · intro y hp1 hp2
    obtain ⟨ey, ty⟩ := y
    have h1 : p1 = 0 ∨ p1 = 1 ∨ p1 = 2 := by omega
    have h2 : p2 = 0 ∨ p2 = 1 ∨ p2 = 2 := by omega
    rcases h1 with rfl | rfl | rfl <;> rcases h2 with rfl | rfl | rfl <;> cases cross <;>
      refine ⟨?_, ?_⟩ <;> intro S' hS' <;> eval_local at hS' <;> subst hS' <;>
      exact ⟨rfl, by simp [noSingleL, T.noSingleBelow] <;> (intros; simp_all)⟩

end Gotree.C17
