/-
  C07 — the command glue `cmd/collapsebrlen.go`, `cmd/collapsesupport.go`, `cmd/collapsedepth.go`,
  `cmd/resolve.go` as functions of the flags and of the records delivered by `readTrees`.
  Core Lean only (linked into the driver).

  Every command is the same loop: `for t := range treechan { if t.Err != nil { return t.Err } ; op(t.Tree) ;
  f.WriteString(t.Tree.Newick() + "\n") }` — the trees are treated one after the other, each result is
  written at once (to stdout, or to the file of `-o`), and the first record that carries an error stops
  the command with a non-zero exit AFTER the earlier trees have been written.
-/
import Gotree.Model.C07
import Gotree.Spec.Splits

namespace Gotree.C07
open Gotree

/-- The flags; `none` = the option is not on the command line and the default of `init()` applies:
    `-l 0.0`, `-s 0.0`, `-m 0`, `-M 0`; `--root` and `--tips` are false unless given. -/
structure CmdFlags where
  l : Option Rat := none
  s : Option Rat := none
  mn : Option Int := none
  mx : Option Int := none
  root : Bool := false
  tips : Bool := false

/-- a record of `readTrees`: a tree, or a record carrying `Err` (unparsable text) -/
abbrev Rec := Option T

/-- the common loop; `op t = none` means the command logs an error and returns it -/
def runEach (op : T → Option T) : List Rec → List T × Bool
  | [] => ([], true)
  | none :: _ => ([], false)
  | some t :: r =>
    match op t with
    | none => ([], false)
    | some t' => let o := runEach op r; (t' :: o.1, o.2)

/-- `gotree collapse length -l … [--root] [--tips]` -/
def cmdLength (fl : CmdFlags) : List Rec → List T × Bool :=
  runEach fun t => some (collapseLen (fl.l.getD 0) fl.root fl.tips t)

/-- `gotree collapse support -s … [--root]` (no `--tips` flag: `RemoveEdges(removeRoot, false, …)`) -/
def cmdSupport (fl : CmdFlags) : List Rec → List T × Bool :=
  runEach fun t => some (collapseSup (fl.s.getD 0) fl.root t)

/-- `ReinitIndexes` fails when two tips share a name (`UpdateTipIndex`) or there is no tip
    (`ClearBitSets`) -/
def reinitErr (t : T) : Bool := !t.uniqueTips || t.tipNames.isEmpty

/-- `gotree collapse depth -m … -M … [--root] [--tips]`: the command DOES re-index each tree first
    (`ReinitIndexes`, whose error stops the command); the error of `CollapseTopoDepth` itself is
    dropped by the command and the tree is written as it is. -/
def cmdDepth (fl : CmdFlags) : List Rec → List T × Bool :=
  runEach fun t =>
    if reinitErr t then none
    else some ((collapseDepth (fl.mn.getD 0) (fl.mx.getD 0) fl.root fl.tips t).getD t)

/-- `gotree resolve --seed …`: `rand.Seed` once (PersistentPreRun), then the trees draw from the same
    stream one after the other.  `none`: the draws do not follow the scripts of the trees. -/
def cmdResolve : List Rec → List Nat → Option (List T × Bool)
  | [], [] => some ([], true)
  | [], _ :: _ => none
  | none :: _, _ => some ([], false)
  | some t :: r, ds =>
    match resolveT true t ds with
    | none => none
    | some (t', ds') =>
      match cmdResolve r ds' with
      | none => none
      | some o => some (t' :: o.1, o.2)

/-- the `Intn` bounds of a whole `resolve` run -/
def cmdResolveScript : List Rec → List Nat
  | [] => []
  | none :: _ => []
  | some t :: r => drawScript t ++ cmdResolveScript r

end Gotree.C07
