/-
  C15 — executable model of the local edits and copies of tree/tree.go:
    GraftTreeOnTip (:2233), Merge (:1830), InsertIdenticalTips/InsertIdenticalTip (:2082/:2165),
    RemoveSingleNodes/removeSingleNodesRecur (:1280/:1300), SubTree (:1806),
    Clone/copyTreeRecur/CopyNode/CopyEdge (:1732–1800).
  Exact on `T` (child order and `ppos` included).  Core Lean only.

  What CopyNode/CopyEdge copy is NOT hand-written: every copy function takes the field table as an
  argument (`cloneBy`, `subTreeBy`, `cliSubtreeBy`); `Gotree/Model/C15Gen.lean` instantiates them with the
  table regenerated from the source (`Gotree.Gen.C15.fields`) as `clone`, `subTree`, `cliSubtree`.
  This file imports no `Gen` module (round 7b): C03 imports it.
-/
import Gotree.Model.Core
import Gotree.Model.C15Table

namespace Gotree.C15
open Gotree

/- ## copies -/

/-- `CopyNode` as the table describes it: a field that is not copied keeps the value of `NewNode`. -/
def copyNodeBy (tb : Table) (d : NodeD) : NodeD :=
  ⟨if tb.copied "Node" "name" then d.name else "",
   if tb.copied "Node" "comment" then d.comments else []⟩

/-- `CopyEdge` as the table describes it: a field that is not copied keeps the value of `NewEdge`. -/
def copyEdgeBy (tb : Table) (e : EdgeD) : EdgeD :=
  ⟨if tb.copied "Edge" "length" then e.len else NIL,
   if tb.copied "Edge" "support" then e.sup else NIL,
   if tb.copied "Edge" "pvalue" then e.pval else NIL,
   if tb.copied "Edge" "comment" then e.comments else [],
   if tb.copied "Edge" "id" then e.id else -1⟩

/- `copyTreeRecur`: the child is created by `CopyNode`, joined by `ConnectNodes(copynode, copychild)`
   — so the parent is the FIRST neighbour of every copied node (`ppos = 0`) — and the
   remaining branches are copied in `br` order. -/
mutual
def copyRecBy (tb : Table) : T → T
  | .node d _ k => .node (copyNodeBy tb d) 0 (copyKidsBy tb k)
def copyKidsBy (tb : Table) : Kids → Kids
  | [] => []
  | (e, t) :: r => (copyEdgeBy tb e, copyRecBy tb t) :: copyKidsBy tb r
end

/-- `Clone` with a given field table -/
def cloneBy (tb : Table) (t : T) : T := copyRecBy tb t

/-- the node addressed by a child-index path -/
def nodeAt : T → List Nat → Option T
  | t, [] => some t
  | t, i :: r => match t.kids[i]? with
    | some (_, c) => nodeAt c r
    | none => none

/-- `SubTree(n)`: a copy of everything below `n`, with a copy of `n` as root. -/
def subTreeBy (tb : Table) (t : T) (path : List Nat) : Option T :=
  (nodeAt t path).map (copyRecBy tb)

/- `T` with every `ppos` reset to 0: what any text or split observation sees. -/
mutual
def zeroPpos : T → T
  | .node d _ k => .node d 0 (zeroPposL k)
def zeroPposL : Kids → Kids
  | [] => []
  | (e, t) :: r => (e, zeroPpos t) :: zeroPposL r
end

/- ## GraftTreeOnTip -/

/- replace the first (pre-order) non-root leaf named `tip` by `g` -/
mutual
def graftAt (tip : String) (g : T) : T → Option T
  | .node d p k => (graftKids tip g k).map (.node d p)
def graftKids (tip : String) (g : T) : Kids → Option Kids
  | [] => none
  | (e, t) :: r =>
    if t.isLeaf && t.name == tip then some ((e, g) :: r)
    else match graftAt tip g t with
      | some t' => some ((e, t') :: r)
      | none => (graftKids tip g r).map ((e, t) :: ·)
end

/-- the root of the graft once spliced in: `tr.addChild(parN, parE)` appends the parent,
    so its `ppos` is the number of children it has -/
def asGraft (g : T) : T := .node g.d g.kids.length g.kids

/-- `GraftTreeOnTip(tip, graft)`; `indexed` = the tip index of `t` is initialised. -/
def graft (indexed : Bool) (t : T) (tip : String) (g : T) : Except String T :=
  if !indexed then .error "tip index not initialized"
  else if !(t.tipNames.contains tip) then .error "no such tip"
  else if t.kids.length == 1 && t.name == tip then .error "the tip is the root: no parent edge"
  else match graftKids tip (asGraft g) t.kids with
    | some k => .ok (.node t.d t.ppos k)
    | none => .error "no such tip"

/- ## Merge -/

/-- `Merge(t2)`: new unnamed root, two fresh branches (all values absent), old roots below
    it with the new root as their LAST neighbour. -/
def merge (i1 i2 : Bool) (t t2 : T) : Except String T :=
  if !(t.rooted && t2.rooted) then .error "not rooted"
  else if !i1 || !i2 then .error "tip index not initialized"
  else if t.tipNames.any (t2.tipNames.contains ·) then .error "common tip names"
  else .ok (.node ⟨"", []⟩ 0
    [(EdgeD.blank, .node t.d t.kids.length t.kids), (EdgeD.blank, .node t2.d t2.kids.length t2.kids)])

/- ## InsertIdenticalTip(s) -/

/-- the branch `NewEdge` + `SetLength(0.0)` creates -/
def zeroEdge : EdgeD := ⟨0, NIL, NIL, [], -1⟩

/- `InsertIdenticalTip` next to the first non-root leaf named `old`:
   tip branch of length exactly 0 and a parent with more than one neighbour (since e4eb1d8;
   `lone` = the parent is the root and has this single neighbour) → the new tip becomes one
   more child of the parent (appended at the end of the parent's neighbours); otherwise a new
   inner node takes the place of the tip (neighbours: new tip, parent, old tip — so `ppos = 1`) -/
mutual
def insAt (old new : String) : T → Option T
  | .node d p k => (insKids false old new k).map (.node d p)
def insKids (lone : Bool) (old new : String) : Kids → Option Kids
  | [] => none
  | (e, t) :: r =>
    if t.isLeaf && t.name == old then
      if e.len == 0 && !lone then some (((e, t) :: r) ++ [(zeroEdge, T.leaf new)])
      else some ((e, .node ⟨"", []⟩ 1 [(zeroEdge, T.leaf new), (zeroEdge, t)]) :: r)
    else match insAt old new t with
      | some t' => some ((e, t') :: r)
      | none => (insKids lone old new r).map ((e, t) :: ·)
end

/-- one call of `InsertIdenticalTip(old, new)`; `tips` = keys of the tip index -/
def insertOne (t : T) (tips : List String) (old new : String) : Except String T :=
  if tips.contains new then .error "already present"
  else match insKids (t.kids.length == 1) old new t.kids with
    | some k => .ok (.node t.d t.ppos k)
    | none => .error "no parent edge"

/-- the pinned variant (before e4eb1d8): the zero-length rule also below a root that is a tip -/
def insertOnePinned (t : T) (tips : List String) (old new : String) : Except String T :=
  if tips.contains new then .error "already present"
  else match insKids false old new t.kids with
    | some k => .ok (.node t.d t.ppos k)
    | none => .error "no parent edge"

/-- the scan of one group: (existing tip, new tips) or an error -/
def scanGroup (tips : List String) : List String → String → List String → Except String (String × List String)
  | [], old, news => if old == "" then .error "no existing tip in the group" else .ok (old, news)
  | name :: r, old, news =>
    let e := tips.contains name
    if e && old == "" then scanGroup tips r name news
    else if e && old != "" then .error "several existing tips in the group"
    else scanGroup tips r old (news ++ [name])

def insertNews (old : String) : List String → T → List String → T × List String × Option String
  | [], t, tips => (t, tips, none)
  | new :: r, t, tips =>
    match insertOne t tips old new with
    | .ok t' => insertNews old r t' (tips ++ [new])
    | .error m => (t, tips, some m)

def insertGroups : List (List String) → T → List String → T × Option String
  | [], t, _ => (t, none)
  | g :: gs, t, tips =>
    if tips.isEmpty then (t, some "tip index not initialized") else
    match scanGroup tips g "" [] with
    | .error m => (t, some m)
    | .ok (old, news) =>
      match insertNews old news t tips with
      | (t', tips', none) => insertGroups gs t' tips'
      | (t', _, some m) => (t', some m)

def hasDup : List String → Bool
  | [] => false
  | a :: r => r.contains a || hasDup r

/-- `InsertIdenticalTips(groups)`: the tree after the call (also when it fails half-way:
    the earlier insertions stay) and the error, if any. -/
def insertIdentical (indexed : Bool) (t : T) (groups : List (List String)) : T × Option String :=
  if hasDup (t.nodeNames.filter (· != "")) then (t, some "NewNodeIndex: several nodes with the same name")
  else insertGroups groups t (if indexed then t.tipNames else [])

/- ## RemoveSingleNodes -/

/-- the length rule of `removeSingleNodesRecur` (since 7b2ddfc): something is written as
    soon as one of the two lengths is present -/
def fuseLenGo (child parent : Rat) : Rat :=
  if child != NIL || parent != NIL then max 0 child + max 0 parent else child

/-- the pinned rule (before 7b2ddfc, F37): `math.Max(0, child)` … only if BOTH are present -/
def fuseLenPinned (child parent : Rat) : Rat :=
  if child != NIL && parent != NIL then child + parent else child

def fuseSupGo (child parent : Rat) : Rat := max child parent

def fuseEdge (fl : Rat → Rat → Rat) (child parent : EdgeD) : EdgeD :=
  { child with len := fl child.len parent.len, sup := fuseSupGo child.sup parent.sup }

/- `removeSingleNodesRecur`, post-order.  For the children of one node, in order: the child
   is processed first; if it then has exactly one child of its own (two neighbours) it is
   deleted from the neighbour slice and its child is appended at the END of the slice, on
   its own branch (which keeps id, comments, p-value; support = max; length by `fl`).
   Result of `rsKids k pp i`: (children kept, children appended, how many deleted slots lie
   before the parent's slot `pp`). -/
mutual
def rsNode (fl : Rat → Rat → Rat) : T → T
  | .node d p k =>
    let r := rsKids fl k p 0
    .node d (p - r.2.2) (r.1 ++ r.2.1)
def rsKids (fl : Rat → Rat → Rat) : Kids → Nat → Nat → Kids × Kids × Nat
  | [], _, _ => ([], [], 0)
  | (e, t) :: r, pp, i =>
    let t' := rsNode fl t
    let rest := rsKids fl r pp (i + 1)
    match t'.kids with
    | [(ec, c)] => (rest.1, (fuseEdge fl ec e, c) :: rest.2.1, rest.2.2 + (if i < pp then 1 else 0))
    | _ => ((e, t') :: rest.1, rest.2.1, rest.2.2)
end

/-- `RemoveSingleNodes` with a given length rule (the root is never removed) -/
def removeSingleBy (fl : Rat → Rat → Rat) (t : T) : T :=
  let r := rsKids fl t.kids 0 0
  .node t.d t.ppos (r.1 ++ r.2.1)

def removeSingle (t : T) : T := removeSingleBy fuseLenGo t

def removeSinglePinned (t : T) : T := removeSingleBy fuseLenPinned t


/- ## command-line glue (cmd/graft.go, cmd/merge.go, cmd/repopulate.go, cmd/subtree.go, cmd/collapsesingle.go)

   What each command does with the result of the library call, as pure functions of the (already
   read and indexed) input trees.  `none` = the command prints no tree. -/

/-- `gotree graft -i host -c graft -l tip`: cmd/graft.go:67 calls `refTree.GraftTreeOnTip(tipname, graftTree)`
    WITHOUT looking at the error: when the graft is refused (no such tip, the tip is the root) the host
    is printed unchanged and the exit status is 0. -/
def cliGraft (host : T) (tip : String) (g : T) : T :=
  match graft true host tip g with
  | .ok t => t
  | .error _ => host

/-- `gotree merge -i a -c b`: any refusal is an error exit, nothing is printed -/
def cliMerge (a b : T) : Option T :=
  match merge true true a b with
  | .ok t => some t
  | .error _ => none

/-- `gotree repopulate -i t -g groups`: `UpdateTipIndex`, `InsertIdenticalTips`; a refusal is an error
    exit and the tree is not printed -/
def cliRepopulate (t : T) (groups : List (List String)) : Option T :=
  match insertIdentical true t groups with
  | (t', none) => some t'
  | _ => none

/-- `gotree collapse single` -/
def cliCollapseSingle (t : T) : T := removeSingle t

/- the nodes whose name is `name`, in `Nodes()` order, each with "is a tip" (`len(neigh) == 1`) -/
mutual
def namedBelow (name : String) : T → List (Bool × T)
  | .node d p k => (if d.name == name then [(k.isEmpty, .node d p k)] else []) ++ namedBelowL name k
def namedBelowL (name : String) : Kids → List (Bool × T)
  | [] => []
  | (_, t) :: r => namedBelow name t ++ namedBelowL name r
end

def nodesNamed (t : T) (name : String) : List (Bool × T) :=
  (if t.name == name then [(t.kids.length == 1, t)] else []) ++ namedBelowL name t.kids

/-- `gotree subtree -i t -n '^name$'`: exactly one node matches and it is not a tip → its subtree;
    otherwise (no match, several matches, a tip) a message on stderr, nothing printed, exit 0 -/
def cliSubtreeBy (tb : Table) (t : T) (name : String) : Option T :=
  match nodesNamed t name with
  | [(false, n)] => some (copyRecBy tb n)
  | _ => none

/- ## derived state: the tip index and the branch bitsets (UpdateTipIndex :457, ClearBitSets/UpdateBitSet/
   fillRightBitSet :583–691).  `ReinitIndexes` (called by Merge, InsertIdenticalTips, SubTree; by the
   parsers) sets both; `Clone` copies the bitsets (`CopyEdge`: `e.bitset.Clone()`) and rebuilds the
   index (`UpdateTipIndex`); `GraftTreeOnTip` rebuilds the index only. -/

def sortN (l : List String) : List String := l.mergeSort (fun a b => decide (a ≤ b))

/-- `UpdateTipIndex`: the tips sorted by name; a tip's id is its position.  With a repeated name the
    loop stops with an error at the second occurrence, the earlier ones stay in the map. -/
def tipIndexFill : List String → List String → List String × Bool
  | [], acc => (acc, true)
  | a :: r, acc => if acc.contains a then (acc, false) else tipIndexFill r (acc ++ [a])

def tipIndex (t : T) : List String × Bool := tipIndexFill (sortN t.tipNames) []

/-- the bitset `fillRightBitSet` leaves on a branch: bit `i` set iff tip `i` of the index is below it -/
def bitsetOf (idx below : List String) : List Bool := idx.map below.contains

/-- the bitsets of all branches in `Edges()` order, after `ReinitIndexes` -/
def bitsets (t : T) : List (List Bool) := t.splits.map fun s => bitsetOf (tipIndex t).1 s.below

end Gotree.C15
