/-
  C15 — the frame argument behind "editing one tree never changes the other", on an
  abstract heap (DESIGN §3.7: pointer identity is not part of `T`).

  A heap is a set of cells; a cell holds references to other cells and some data.
  A tree in the heap is what is reachable from its root cell.  An edit of the tree
  rooted at `r` is *local* when (i) it leaves every allocated cell that is not
  reachable from `r` as it was, (ii) whatever is reachable from `r` afterwards was
  reachable from `r` before or has been allocated by the edit, (iii) it only
  allocates.  (That the Go edits are local in this sense is the memory-safety
  reading of the code — methods navigate from their receiver and their arguments —
  and is what the aliasing histories test; it is not proved.)

  Theorem: if two roots reach disjoint sets of allocated cells — which is what
  table (d) decides statically (`copy_fresh`) and what the harness observes
  dynamically right after `Clone`/`SubTree` (no shared node, branch, comment array,
  bitset) — then after ANY sequence of local edits of the first one, every cell
  reachable from the second one holds what it held, the second one reaches exactly
  the same cells, and the two are still disjoint.  Core Lean only.
-/
import Gotree.Model.C15Heap

namespace Gotree.C15.Heap

inductive Reach (h : H) (r : Addr) : Addr → Prop
  | root : Reach h r r
  | step {a b : Addr} : Reach h r a → b ∈ h.ptrs a → Reach h r b

/-- everything reachable from `r` is allocated -/
def Alloc (h : H) (r : Addr) : Prop := ∀ a, Reach h r a → a < h.next

def Disjoint (h : H) (r r' : Addr) : Prop := ∀ a, Reach h r a → ¬ Reach h r' a

structure Local (r : Addr) (e : H → H) : Prop where
  frame : ∀ h a, a < h.next → ¬ Reach h r a → (e h).ptrs a = h.ptrs a ∧ (e h).data a = h.data a
  reach : ∀ h a, Alloc h r → Reach (e h) r a → Reach h r a ∨ h.next ≤ a
  mono : ∀ h, h.next ≤ (e h).next

/-- same cell contents on everything `r'` reaches -/
def SameOn (h h' : H) (r' : Addr) : Prop := ∀ a, Reach h r' a → h'.ptrs a = h.ptrs a ∧ h'.data a = h.data a

theorem reach_of_sameOn {h h' : H} {r' : Addr} (hs : SameOn h h' r') : ∀ a, Reach h r' a → Reach h' r' a := by
  intro a ha
  induction ha with
  | root => exact Reach.root
  | step hra hb ih => exact Reach.step ih (by rw [(hs _ hra).1]; exact hb)

theorem reach_back {h h' : H} {r' : Addr} (hs : SameOn h h' r') : ∀ a, Reach h' r' a → Reach h r' a := by
  intro a ha
  induction ha with
  | root => exact Reach.root
  | step _ hb ih => exact Reach.step ih (by rw [← (hs _ ih).1]; exact hb)

/-- one local edit of `r` leaves the twin `r'` alone -/
theorem step_frame {r r' : Addr} {e : H → H} (hl : Local r e) (h : H)
    (ha : Alloc h r) (ha' : Alloc h r') (hd : Disjoint h r r') :
    SameOn h (e h) r' ∧ (∀ a, Reach (e h) r' a ↔ Reach h r' a) ∧
    Alloc (e h) r' ∧ Disjoint (e h) r r' := by
  have hs : SameOn h (e h) r' := fun a hra => hl.frame h a (ha' a hra) (fun hr => hd a hr hra)
  have hiff : ∀ a, Reach (e h) r' a ↔ Reach h r' a := fun a => ⟨reach_back hs a, reach_of_sameOn hs a⟩
  refine ⟨hs, hiff, fun a hra => Nat.lt_of_lt_of_le (ha' a ((hiff a).mp hra)) (hl.mono h), fun a hra hra' => ?_⟩
  have h' := (hiff a).mp hra'
  rcases hl.reach h a ha hra with h1 | h1
  · exact hd a h1 h'
  · exact absurd (ha' a h') (Nat.not_lt.mpr h1)

/-- a local edit keeps its own tree allocated (needed to chain edits) -/
def KeepsAlloc (r : Addr) (e : H → H) : Prop := ∀ h, Alloc h r → Alloc (e h) r

/-- any history of local edits of `r` leaves the twin `r'` alone -/
theorem history_frame {r r' : Addr} : ∀ (es : List (H → H)) (h : H),
    (∀ e ∈ es, Local r e ∧ KeepsAlloc r e) → Alloc h r → Alloc h r' → Disjoint h r r' →
    SameOn h (run es h) r' ∧ (∀ a, Reach (run es h) r' a ↔ Reach h r' a) ∧ Disjoint (run es h) r r'
  | [], h, _, _, _, hd => ⟨fun _ _ => ⟨rfl, rfl⟩, fun _ => Iff.rfl, hd⟩
  | e :: es, h, hes, ha, ha', hd => by
    obtain ⟨hl, hk⟩ := hes e (by simp)
    obtain ⟨hs, hiff, ha1', hd1⟩ := step_frame hl h ha ha' hd
    obtain ⟨hs2, hiff2, hd2⟩ := history_frame es (e h) (fun e' he' => hes e' (by simp [he'])) (hk h ha) ha1' hd1
    refine ⟨fun a hra => ?_, fun a => (hiff2 a).trans (hiff a), hd2⟩
    have h1 := hs a hra
    have h2 := hs2 a ((hiff a).mpr hra)
    exact ⟨h2.1.trans h1.1, h2.2.trans h1.2⟩

/-- what an observer of the twin computes from the cells it reaches is unchanged -/
theorem observe_frame {α : Type} {r r' : Addr} (obs : H → α)
    (hobs : ∀ h h', SameOn h h' r' → obs h' = obs h)
    (es : List (H → H)) (h : H) (hes : ∀ e ∈ es, Local r e ∧ KeepsAlloc r e)
    (ha : Alloc h r) (ha' : Alloc h r') (hd : Disjoint h r r') : obs (run es h) = obs h :=
  hobs h (run es h) (history_frame es h hes ha ha' hd).1

/-! ### the notion is inhabited: two local edits -/

theorem setData_reach (r : Addr) (v : Nat) (h : H) : ∀ a, Reach (setData r v h) r a → Reach h r a := by
  intro a ha
  induction ha with
  | root => exact Reach.root
  | step _ hb ih => exact Reach.step ih hb

theorem setData_local (r : Addr) (v : Nat) : Local r (setData r v) ∧ KeepsAlloc r (setData r v) := by
  refine ⟨⟨fun h a _ hn => ⟨rfl, ?_⟩, fun h a _ hr => Or.inl (setData_reach r v h a hr), fun h => Nat.le_refl _⟩, fun h ha a hr => ?_⟩
  · have : a ≠ r := fun h0 => hn (h0 ▸ Reach.root)
    simp [setData, this]
  · exact ha a (setData_reach r v h a hr)

theorem allocChild_reach (r : Addr) (h : H) (ha : Alloc h r) : ∀ a, Reach (allocChild r h) r a → Reach h r a ∨ a = h.next := by
  intro a hr
  induction hr with
  | root => exact Or.inl Reach.root
  | step hra hb ih =>
    rename_i x y
    rcases ih with ih | ih
    · by_cases hx : x = r
      · subst hx
        simp only [allocChild, if_true, List.mem_cons] at hb
        rcases hb with hb | hb
        · exact Or.inr hb
        · exact Or.inl (Reach.step Reach.root hb)
      · have hxn : x ≠ h.next := fun h0 => Nat.lt_irrefl _ (h0 ▸ ha x ih)
        simp only [allocChild, hx, hxn, if_false] at hb
        exact Or.inl (Reach.step ih hb)
    · subst ih
      by_cases hx : h.next = r
      · exact absurd (ha r Reach.root) (by rw [← hx]; exact Nat.lt_irrefl _)
      · simp [allocChild, hx] at hb

theorem allocChild_local (r : Addr) : Local r (allocChild r) ∧ KeepsAlloc r (allocChild r) := by
  refine ⟨⟨fun h a hlt hn => ⟨?_, rfl⟩, fun h a ha hr => ?_, fun h => Nat.le_succ _⟩, fun h ha a hr => ?_⟩
  · have h1 : a ≠ r := fun h0 => hn (h0 ▸ Reach.root)
    have h2 : a ≠ h.next := fun h0 => Nat.lt_irrefl _ (h0 ▸ hlt)
    simp [allocChild, h1, h2]
  · rcases allocChild_reach r h ha a hr with h1 | h1
    · exact Or.inl h1
    · exact Or.inr (by rw [h1]; exact Nat.le_refl _)
  · rcases allocChild_reach r h ha a hr with h1 | h1
    · exact Nat.lt_succ_of_lt (ha a h1)
    · rw [h1]; exact Nat.lt_succ_self _

end Gotree.C15.Heap
