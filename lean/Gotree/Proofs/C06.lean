/-
  C06 — property theorems about the model functions the driver runs
  (`Gotree.C06.removeTip`, `removeTips`, `removeTipsPinned`, `PruneFlags.names`).
-/
import Gotree.Lemmas.C06Flag
import Gotree.Lemmas.C06Index
import Gotree.Lemmas.C06Stale

namespace Gotree.C06
open Gotree Gotree.C14

/-- a small tree used as non-vacuity witness: `((a:1,b:2)0.5:1,c:1,d:1,e:1);` -/
def t0 : T :=
  .node ⟨"", []⟩ 0 [
    (⟨1, 1/2, NIL, [], 0⟩, .node ⟨"", []⟩ 0 [(⟨1, NIL, NIL, [], 1⟩, T.leaf "a"), (⟨2, NIL, NIL, [], 2⟩, T.leaf "b")]),
    (⟨1, NIL, NIL, [], 3⟩, T.leaf "c"), (⟨1, NIL, NIL, [], 4⟩, T.leaf "d"), (⟨1, NIL, NIL, [], 5⟩, T.leaf "e")]

/-- a tree whose root is itself a tip (one neighbour): `((b,c,d,e))a;` — outside `wf` -/
def tRootTip : T :=
  .node ⟨"a", []⟩ 0 [(⟨1, NIL, NIL, [], 0⟩,
    .node ⟨"", []⟩ 0 [(⟨1, NIL, NIL, [], 1⟩, T.leaf "b"), (⟨1, NIL, NIL, [], 2⟩, T.leaf "c"),
      (⟨1, NIL, NIL, [], 3⟩, T.leaf "d"), (⟨1, NIL, NIL, [], 4⟩, T.leaf "e")])]

/-- ★ One tip removed (`removeTip`, tree.go:294) from a well-formed tree, at least
    3 tips remaining: the call succeeds, the tips are the others, the branches are
    exactly the restrictions of the old ones (as splits of the remaining tips), path
    lengths between remaining tips are unchanged, no single-child node is left. -/
theorem removeTip_induced (t : T) (x : String) (h₁ : wf t = true) (h₃ : 3 ≤ t.tipNames.length - 1) :
    ∃ t', removeTip x t = .ok t' ∧ t'.tipNames.Perm (t.tipNames.erase x) ∧
      splitsInduced t'.tipNames t t' ∧
      (lensOK t = true → ∀ a b, a ∈ t'.tipNames → b ∈ t'.tipNames → t'.dist a b = t.dist a b) ∧
      wf t' = true ∧ (lensOK t = true → lensOK t' = true) := by
  obtain ⟨hnd, hns, hroot⟩ := (wf_iff t).1 h₁
  have hc : 4 ≤ t.tipNames.length := by omega
  obtain ⟨t', e1, hperm, hns', hr'⟩ := removeTip_spec x t hroot hns hc
  have R := removeTip_rootEff x t hroot hns hnd hc t' e1
  refine ⟨t', e1, hperm, ⟨R.back, R.fwd⟩, fun hl a b ha hb => R.dist ((lensOK_iff t).1 hl) a b ha hb,
    (wf_iff t').2 ⟨hperm.nodup_iff.2 (hnd.erase x), hns', hr'⟩,
    fun hl => (lensOK_iff t').2 (R.lens ((lensOK_iff t).1 hl))⟩

example : wf t0 = true ∧ 3 ≤ t0.tipNames.length - 1 ∧ lensOK t0 = true := by decide

/-! ## `RemoveTips` as it is now (`removeTips` = `removeLoopR t.rooted …`), every root shape
    (hypotheses of DESIGN Appendix B: unique tips, no single-child inner node, ≥ 3 kept) -/

/-- ★ `removeTips_induced` for every root shape: `wfR` = unique tips ∧ no single-child inner node.
    When the root is a tip and is kept it stays the (tip) root; when it is removed its neighbour
    takes its place (0cfc52b) and the result has a root with ≥ 3 neighbours (`rootAfterOK`). -/
theorem removeTips_induced_roottip (t : T) (S : List String) (rev : Bool) (h₁ : wfR t = true)
    (h₃ : 3 ≤ (kept t S rev).length) :
    ∃ t', removeTips rev S t = .ok (t', sortNames t'.tipNames) ∧
      t'.tipNames.Perm (kept t S rev) ∧
      splitsInduced (kept t S rev) t t' ∧
      (lensOK t = true → ∀ a b, a ∈ kept t S rev → b ∈ kept t S rev → t'.dist a b = t.dist a b) ∧
      wfR t' = true ∧ noSingleAfterR t S rev t' = true ∧ (lensOK t = true → lensOK t' = true) := by
  obtain ⟨hnd, hns⟩ := (wfR_iff t).1 h₁
  obtain ⟨t', g1, hk, g3, g5, hroot, hI, _⟩ := removeTips_coreR t S rev hnd hns h₃
  have R := ind_rootEff hI
  refine ⟨t', ?_, hk, ⟨R.back, R.fwd⟩, fun hl a b ha hb => R.dist ((lensOK_iff t).1 hl) a b ha hb,
    (wfR_iff t').2 ⟨g5, g3⟩, by simp [noSingleAfterR, g3, hroot],
    fun hl => (lensOK_iff t').2 (R.lens ((lensOK_iff t).1 hl))⟩
  simp [removeTips, g1, updateTipIndex, (hasDup_false_iff _).2 g5]

/-- a tree whose root is a tip, satisfying the hypotheses, with the tip root removed or kept -/
example : wfR tRootTip = true ∧ wf tRootTip = false ∧ 3 ≤ (kept tRootTip ["a"] false).length ∧
    3 ≤ (kept tRootTip ["b", "zz"] false).length := by decide

/-- ★ `removeTips_oracle` for every root shape, on the Spec functions of the driver's oracle. -/
theorem removeTips_oracle_roottip (t : T) (S : List String) (rev : Bool) (h₁ : wfR t = true)
    (h₃ : 3 ≤ (kept t S rev).length) :
    ∃ t', removeTips rev S t = .ok (t', sortNames t'.tipNames) ∧
      tipsOK t S rev t' = true ∧
      (∀ a, a ∈ t'.usplitSet ↔ a ∈ restrictSplits t.tipNames (kept t S rev) t.usplitSet) ∧
      (lensOK t = true → distOK t S rev t' = true) ∧
      noSingleAfterR t S rev t' = true := by
  obtain ⟨hnd, _⟩ := (wfR_iff t).1 h₁
  obtain ⟨t', e1, hk, hind, hdist, _, hroot, _⟩ := removeTips_induced_roottip t S rev h₁ h₃
  refine ⟨t', e1, ?_, usplitSet_restrict t t' _ hnd hk hind, fun hl => ?_, hroot⟩
  · simp [tipsOK, sortS_congr hk]
  · simp only [distOK, List.all_eq_true, Bool.or_eq_true, beq_iff_eq]
    intro a ha b hb
    exact Or.inr (hdist hl a b (mem_sortS.1 ha) (mem_sortS.1 hb))

/-- ★ `removeTips_data` for every root shape. -/
theorem removeTips_data_roottip (t : T) (S : List String) (rev : Bool) (h₁ : wfR t = true)
    (h₃ : 3 ≤ (kept t S rev).length) (hl : lensOK t = true) :
    ∃ t', removeTips rev S t = .ok (t', sortNames t'.tipNames) ∧
      t'.usplits.Perm ((restrictU t (kept t S rev)).filter
        (fun s => decide (2 ≤ lightSize (kept t S rev) s.side))) ∧
      t'.tipLens.Perm (((restrictU t (kept t S rev)).filter
        (fun s => decide (lightSize (kept t S rev) s.side ≤ 1))).map (fun s => (s.side, s.len))) := by
  obtain ⟨hnd, hns⟩ := (wfR_iff t).1 h₁
  obtain ⟨t', g1, hk, g3, g5, _, hI, _⟩ := removeTips_coreR t S rev hnd hns h₃
  refine ⟨t', by simp [removeTips, g1, updateTipIndex, (hasDup_false_iff _).2 g5], ?_⟩
  exact data_of_ind_gen t t' _ hnd hk (nd_all_any t' _ g5 hk) hI ((lensOK_iff t).1 hl)

/-! ## the same for `wf` (root not a tip), the form other properties import -/

/-- ★ `RemoveTips` (tree.go:259) on a well-formed tree (unique tip names, no
    single-child inner node, the root is not a tip), any list of names `S`
    (names that are no tip are ignored; `rev` keeps instead of removing), at least
    3 tips kept.  The call succeeds and returns the tree induced on the kept tips:
    1. its tip set is exactly `kept t S rev`;
    2. its branches are exactly the restrictions of the branches of `t` with both
       sides non-empty, as splits of the kept tips;
    3. every path length between two kept tips is unchanged (lengths absent or ≥ 0);
    4. it is well-formed again (no single-child inner node, root not a tip);
    5. the refreshed index holds exactly the new tip names. -/
theorem removeTips_induced (t : T) (S : List String) (rev : Bool) (h₁ : wf t = true)
    (h₃ : 3 ≤ (kept t S rev).length) :
    ∃ t', removeTips rev S t = .ok (t', sortNames t'.tipNames) ∧
      t'.tipNames.Perm (kept t S rev) ∧
      splitsInduced (kept t S rev) t t' ∧
      (lensOK t = true → ∀ a b, a ∈ kept t S rev → b ∈ kept t S rev → t'.dist a b = t.dist a b) ∧
      wf t' = true ∧ (lensOK t = true → lensOK t' = true) := by
  obtain ⟨_, _, hroot⟩ := (wf_iff t).1 h₁
  obtain ⟨t', e, hk, hs, hd, hw, hr, hl⟩ := removeTips_induced_roottip t S rev (wfR_of_wf t h₁) h₃
  obtain ⟨hnd', hns'⟩ := (wfR_iff t').1 hw
  have hb : (t.kids.length == 1) = false := by simpa using hroot
  simp only [noSingleAfterR, rootAfterOK, hb, Bool.false_eq_true, if_false, Bool.and_eq_true, bne_iff_ne, ne_eq] at hr
  exact ⟨t', e, hk, hs, hd, (wf_iff t').2 ⟨hnd', hns', hr.2.1⟩, hl⟩

example : wf t0 = true ∧ 3 ≤ (kept t0 ["a", "zz"] false).length ∧ 3 ≤ (kept t0 ["b", "c", "e", "zz"] true).length := by
  decide

/-- ★ The same result stated with the Spec functions the driver's oracle evaluates on
    the implementation's output (`tipsOK`, `T.usplitSet` / `restrictSplits`, `distOK`,
    `noSingleAfter`): on the model they all hold.  Clause 2: the non-trivial split set of
    the result and `restrictSplits` of the original split set have the same members (both
    are duplicate-free and sorted by the same order).  `noSingleAfter` includes: an
    unrooted tree (root with ≥ 3 neighbours) does not end with a root of degree 2. -/
theorem removeTips_oracle (t : T) (S : List String) (rev : Bool) (h₁ : wf t = true)
    (h₃ : 3 ≤ (kept t S rev).length) :
    ∃ t', removeTips rev S t = .ok (t', sortNames t'.tipNames) ∧
      tipsOK t S rev t' = true ∧
      (∀ a, a ∈ t'.usplitSet ↔ a ∈ restrictSplits t.tipNames (kept t S rev) t.usplitSet) ∧
      (lensOK t = true → distOK t S rev t' = true) ∧
      noSingleAfter t t' = true := by
  obtain ⟨_, _, hroot⟩ := (wf_iff t).1 h₁
  obtain ⟨t', e, h1, h2, h3, hr⟩ := removeTips_oracle_roottip t S rev (wfR_of_wf t h₁) h₃
  refine ⟨t', e, h1, h2, h3, ?_⟩
  have hb : (t.kids.length == 1) = false := by simpa using hroot
  simp only [noSingleAfterR, rootAfterOK, hb, Bool.false_eq_true, if_false] at hr
  simpa [noSingleAfter, Bool.and_assoc] using hr

/-- ★ Lengths and supports of the whole result (`Spec.dataOK` up to the order of the
    lists): every non-trivial split of the pruned tree carries the sum of the lengths and
    the max of the supports of the branches of `t` that restrict to it, every tip branch
    the sum of the lengths — the unrooted split map of the result is `restrictU t kept`. -/
theorem removeTips_data (t : T) (S : List String) (rev : Bool) (h₁ : wf t = true)
    (h₃ : 3 ≤ (kept t S rev).length) (hl : lensOK t = true) :
    ∃ t', removeTips rev S t = .ok (t', sortNames t'.tipNames) ∧
      t'.usplits.Perm ((restrictU t (kept t S rev)).filter
        (fun s => decide (2 ≤ lightSize (kept t S rev) s.side))) ∧
      t'.tipLens.Perm (((restrictU t (kept t S rev)).filter
        (fun s => decide (lightSize (kept t S rev) s.side ≤ 1))).map (fun s => (s.side, s.len))) :=
  removeTips_data_roottip t S rev (wfR_of_wf t h₁) h₃ hl

/-- ★ Literal form of clauses 2 and 5, exactly as the oracle evaluates them (`splitsOK`,
    `dataOK`: equality of the sorted lists), whenever the rendering used as sort key tells the
    sides of the result apart (`sidesInj`, a Bool the driver evaluates per case, tag `sides-inj`;
    it can only fail for look-alike names such as a name containing ", "). -/
theorem removeTips_oracle_literal (t : T) (S : List String) (rev : Bool) (h₁ : wfR t = true)
    (h₃ : 3 ≤ (kept t S rev).length) :
    ∃ t', removeTips rev S t = .ok (t', sortNames t'.tipNames) ∧
      (sidesInj (t'.usplitsAll.map (·.side)) = true →
        splitsOK t S rev t' = true ∧ (lensOK t = true → dataOK t S rev t' = true)) := by
  obtain ⟨t', e1, _, hmem, _, _⟩ := removeTips_oracle_roottip t S rev h₁ h₃
  refine ⟨t', e1, fun hinj => ?_⟩
  have hI := (sidesInj_iff _).1 hinj
  have sub_inj : ∀ l : List (List String), (∀ a ∈ l, a ∈ t'.usplitsAll.map (·.side)) → sidesInj l = true :=
    fun l hl => (sidesInj_iff l).2 (fun a ha b hb e => hI a (hl a ha) b (hl b hb) e)
  have hsetsub : ∀ a ∈ t'.usplitSet, a ∈ t'.usplitsAll.map (·.side) := by
    intro a ha
    unfold T.usplitSet T.usplits at ha
    obtain ⟨u, hu, rfl⟩ := List.mem_map.1 ha
    exact List.mem_map_of_mem (List.mem_filter.1 hu).1
  constructor
  · have := eq_of_same_members (usplitSet_nodup t') (restrictSplits_nodup _ _ _) (usplitSet_sorted t')
      (restrictSplits_sorted _ _ _) hmem (sub_inj _ hsetsub)
    simp [splitsOK, this]
  · intro hl
    obtain ⟨t'', e2, p1, p2⟩ := removeTips_data_roottip t S rev h₁ h₃ hl
    rw [e1] at e2
    cases e2
    have q1 : t'.usplits = (restrictU t (kept t S rev)).filter
        (fun s => decide (2 ≤ lightSize (kept t S rev) s.side)) := by
      apply eq_of_perm_keyed (·.side) p1
      · unfold T.usplits; exact ((usplitsAll_sorted t').sublist List.filter_sublist).imp (fun h => h)
      · exact ((restrictU_sorted t _).sublist List.filter_sublist).imp (fun h => h)
      · unfold T.usplits; exact (usplitsAll_sidesNodup t').sublist ((List.filter_sublist).map _)
      · apply sub_inj
        intro a ha
        obtain ⟨u, hu, rfl⟩ := List.mem_map.1 ha
        unfold T.usplits at hu
        exact List.mem_map_of_mem (List.mem_filter.1 hu).1
    have q2 : t'.tipLens = ((restrictU t (kept t S rev)).filter
        (fun s => decide (lightSize (kept t S rev) s.side ≤ 1))).map (fun s => (s.side, s.len)) := by
      apply eq_of_perm_keyed (·.1) p2
      · unfold T.tipLens
        rw [List.pairwise_map]
        exact ((usplitsAll_sorted t').sublist List.filter_sublist).imp (fun h => h)
      · rw [List.pairwise_map]
        exact ((restrictU_sorted t _).sublist List.filter_sublist).imp (fun h => h)
      · unfold T.tipLens
        rw [List.map_map]
        exact (usplitsAll_sidesNodup t').sublist ((List.filter_sublist).map _)
      · apply sub_inj
        intro a ha
        unfold T.tipLens at ha
        rw [List.map_map] at ha
        obtain ⟨u, hu, rfl⟩ := List.mem_map.1 ha
        exact List.mem_map_of_mem (List.mem_filter.1 hu).1
    simp only [dataOK, Bool.and_eq_true]
    refine ⟨?_, ?_⟩
    · rw [q1]; exact list_usplit_beq_self _
    · rw [q2]; exact beq_self_eq_true _

/-- Pruning in two steps (the re-anchored histories of the correspondence, `gotree prune`
    applied to its own output): the second result is the induced subtree of the ORIGINAL tree on
    the tips finally kept — same tips, branches = restrictions of the original branches, original
    path lengths. -/
theorem removeTips_twice_induced (t : T) (S₁ S₂ : List String) (rev₁ rev₂ : Bool) (h₁ : wfR t = true)
    (t₁ : T) (ix₁ : Index) (e₁ : removeTips rev₁ S₁ t = .ok (t₁, ix₁))
    (h₃ : 3 ≤ (kept t₁ S₂ rev₂).length) (hk₁ : 3 ≤ (kept t S₁ rev₁).length) :
    ∃ t₂, removeTips rev₂ S₂ t₁ = .ok (t₂, sortNames t₂.tipNames) ∧
      t₂.tipNames.Perm (kept t₁ S₂ rev₂) ∧
      (∀ a ∈ kept t₁ S₂ rev₂, a ∈ kept t S₁ rev₁) ∧
      splitsInduced (kept t₁ S₂ rev₂) t t₂ ∧
      (lensOK t = true → ∀ a b, a ∈ kept t₁ S₂ rev₂ → b ∈ kept t₁ S₂ rev₂ → t₂.dist a b = t.dist a b) ∧
      wfR t₂ = true := by
  obtain ⟨hnd, hns⟩ := (wfR_iff t).1 h₁
  obtain ⟨t₁', g1, hk, g3, g5, _, hI, _⟩ := removeTips_coreR t S₁ rev₁ hnd hns hk₁
  have e1' : removeTips rev₁ S₁ t = .ok (t₁', sortNames t₁'.tipNames) := by
    simp [removeTips, g1, updateTipIndex, (hasDup_false_iff _).2 g5]
  rw [e₁] at e1'
  cases e1'
  obtain ⟨t₂, f1, fk, f3, f5, _, fI, _⟩ := removeTips_coreR t₁ S₂ rev₂ g5 g3 h₃
  have hsub : ∀ a ∈ kept t₁ S₂ rev₂, a ∈ kept t S₁ rev₁ :=
    fun a ha => hk.mem_iff.1 (List.mem_filter.1 ha).1
  have R := RootEff.trans hsub (ind_rootEff hI) (ind_rootEff fI)
  refine ⟨t₂, ?_, fk, hsub, ⟨R.back, R.fwd⟩, fun hl a b ha hb => R.dist ((lensOK_iff t).1 hl) a b ha hb,
    (wfR_iff t₂).2 ⟨f5, f3⟩⟩
  simp [removeTips, f1, updateTipIndex, (hasDup_false_iff _).2 f5]

/-- ★ Clauses 2 and 5 literally as the oracle evaluates them, for every tree whose tip names
    are non-empty and free of ',' (`goodNames`, a Bool on the INPUT the driver evaluates, tag
    `good-names`): `toString` is injective on the sides of such trees (`toString_sides_inj`). -/
theorem removeTips_oracle_literal_names (t : T) (S : List String) (rev : Bool) (h₁ : wfR t = true)
    (h₃ : 3 ≤ (kept t S rev).length) (hn : goodNames t = true) :
    ∃ t', removeTips rev S t = .ok (t', sortNames t'.tipNames) ∧
      splitsOK t S rev t' = true ∧ (lensOK t = true → dataOK t S rev t' = true) := by
  obtain ⟨t', e1, hlit⟩ := removeTips_oracle_literal t S rev h₁ h₃
  obtain ⟨t'', e2, hk, _⟩ := removeTips_induced_roottip t S rev h₁ h₃
  rw [e1] at e2
  cases e2
  have hg : ∀ x ∈ t'.tipNames, goodName x := fun x hx =>
    (goodNames_iff t).1 hn x (List.mem_filter.1 (hk.mem_iff.1 hx)).1
  exact ⟨t', e1, hlit (sidesInj_of_goodNames t' hg)⟩

example : goodNames t0 = true ∧ goodNames tRootTip = true := by decide

example : wf t0 = true ∧ 3 ≤ (kept t0 ["b", "nosuch"] false).length ∧ lensOK t0 = true := by decide

/-! ## rooted inputs: the result is the ROOTED induced subtree -/

/-- a rooted binary witness: `((a,b),(c,(d,e)));` -/
def tRooted : T :=
  .node ⟨"", []⟩ 0 [
    (⟨1, NIL, NIL, [], 0⟩, .node ⟨"", []⟩ 0 [(⟨1, NIL, NIL, [], 1⟩, T.leaf "a"), (⟨1, NIL, NIL, [], 2⟩, T.leaf "b")]),
    (⟨1, NIL, NIL, [], 3⟩, .node ⟨"", []⟩ 0 [(⟨1, NIL, NIL, [], 4⟩, T.leaf "c"),
      (⟨1, NIL, NIL, [], 5⟩, .node ⟨"", []⟩ 0 [(⟨1, NIL, NIL, [], 6⟩, T.leaf "d"), (⟨1, NIL, NIL, [], 7⟩, T.leaf "e")])])]

/-- ★ Clause 7 (`rootedOK`), since 50ed682 for EVERY rooted input (root with two neighbours, unique
    tips, no single-child inner node, ≥ 3 kept): the result is the rooted induced subtree — its clades
    are exactly the proper non-empty restrictions of the original clades (so its root is the last
    common ancestor of the kept tips) and the depths of the kept tips change by a common offset. -/
theorem removeTips_rooted (t : T) (S : List String) (rev : Bool) (h₁ : wfR t = true)
    (h₃ : 3 ≤ (kept t S rev).length) (hr : t.rooted = true) :
    ∃ t', removeTips rev S t = .ok (t', sortNames t'.tipNames) ∧ rootedOK t S rev t' = true := by
  obtain ⟨hnd, hns⟩ := (wfR_iff t).1 h₁
  obtain ⟨t', g1, hk, _, g5, _, _, hI⟩ := removeTips_coreR t S rev hnd hns h₃
  exact ⟨t', by simp [removeTips, g1, updateTipIndex, (hasDup_false_iff _).2 g5],
    rootedOK_of_rootedEff t t' S rev hnd hk (indR_rootedEff (hI hr)) (fun hl => (lensOK_iff t).1 hl)⟩

example : wfR tRooted = true ∧ tRooted.rooted = true ∧ 3 ≤ (kept tRooted ["a"] false).length := by decide

/-- a rooted input with a multifurcation below the root: `(x,(a,b,(c,d)));` -/
def tRootedMulti : T :=
  .node ⟨"", []⟩ 0 [
    (⟨1, NIL, NIL, [], 0⟩, T.leaf "x"),
    (⟨2, NIL, NIL, [], 1⟩, .node ⟨"", []⟩ 0 [(⟨1, NIL, NIL, [], 2⟩, T.leaf "a"), (⟨1, NIL, NIL, [], 3⟩, T.leaf "b"),
      (⟨1, 1/2, NIL, [], 4⟩, .node ⟨"", []⟩ 0 [(⟨1, NIL, NIL, [], 5⟩, T.leaf "c"), (⟨1, NIL, NIL, [], 6⟩, T.leaf "d")])])]

example : wfR tRootedMulti = true ∧ tRootedMulti.rooted = true ∧ rootedBin tRootedMulti = false ∧
    3 ≤ (kept tRootedMulti ["x", "a"] false).length := by decide

/-- Before 50ed682 (`removeLoop` = the loop without the `rooted` flag): minus `x`, `a` the trifurcating
    node first becomes the root, then loses a child and is suppressed as if the tree were unrooted —
    the clade `{c,d}` and the root are lost.  With the flag the clade is kept under a root of degree 2. -/
theorem removeTips_rooted_pinned_fails :
    (match removeLoop (workList tRootedMulti ["x", "a"] false) tRootedMulti with
     | .ok t' => t'.kids.length == 3 && t'.tipNames == ["c", "d", "b"] &&
         !((t'.splits.map (·.below)).contains ["c", "d"])
     | .error _ => false) = true ∧
    (match removeLoopR true (workList tRootedMulti ["x", "a"] false) tRootedMulti with
     | .ok t' => t'.kids.length == 2 && t'.tipNames == ["b", "c", "d"] &&
         (t'.splits.map (·.below)).contains ["c", "d"]
     | .error _ => false) = true := by decide

/-- Names that are no tip of the tree are ignored. -/
theorem removeTips_ignores_absent (t : T) (S : List String) (rev : Bool) (y : String) (hy : y ∉ t.tipNames) :
    removeTips rev (y :: S) t = removeTips rev S t := by
  have : workList t (y :: S) rev = workList t S rev := by
    unfold workList
    apply List.map_congr_left
    intro n hn
    have hny : n ≠ y := fun h => hy (h ▸ hn)
    simp [hny]
  simp [removeTips, this]

/-- Names that are no tip of the tree are ignored, wherever they stand in the list. -/
theorem removeTips_ignores_absent_any (t : T) (S : List String) (rev : Bool) :
    removeTips rev S t = removeTips rev (S.filter t.tipNames.contains) t := by
  have : workList t S rev = workList t (S.filter t.tipNames.contains) rev := by
    unfold workList
    apply List.map_congr_left
    intro n hn
    have : S.contains n = (S.filter t.tipNames.contains).contains n := by
      rw [Bool.eq_iff_iff]
      simp only [List.contains_eq_mem, decide_eq_true_eq, List.mem_filter]
      exact ⟨fun h => ⟨h, hn⟩, fun h => h.1⟩
    rw [this]
  simp [removeTips, this]

/-- the hypotheses of `removeTips_twice_induced` and of `removeTips_index` are satisfiable:
    prune `t0` once, then keep everything -/
example : ∃ t₁ ix₁, removeTips false ["a"] t0 = .ok (t₁, ix₁) ∧ 3 ≤ (kept t₁ [] false).length ∧
    t₁.tipNames ≠ [] := by
  obtain ⟨t₁, e, hk, _⟩ := removeTips_induced_roottip t0 ["a"] false (by decide) (by decide)
  have hl : t₁.tipNames.length = 4 := by rw [hk.length_eq]; decide
  refine ⟨t₁, _, e, ?_, ?_⟩
  · have : kept t₁ [] false = t₁.tipNames := by
      unfold kept; exact List.filter_eq_self.2 (by simp)
    rw [this, hl]; decide
  · intro h0; rw [h0] at hl; simp at hl

/-- Look-ups by name reflect the new tip set: after a successful `RemoveTips` the
    index answers `ExistsTip` exactly for the tips of the new tree, and `NbTips`
    is their number (F12 repaired by a345ca7). -/
theorem removeTips_index (t : T) (S : List String) (rev : Bool) (t' : T) (ix : Index)
    (h : removeTips rev S t = .ok (t', ix)) (hne : t'.tipNames ≠ []) :
    (∀ n, existsTip ix n = some (decide (n ∈ t'.tipNames))) ∧ nbTips ix = some t'.tipNames.length ∧
      (∀ n, (tipIndexOf ix n).isSome = decide (n ∈ t'.tipNames)) := by
  unfold removeTips at h
  cases hl : removeLoopR t.rooted (workList t S rev) t with
  | error e => rw [hl] at h; cases h
  | ok t'' =>
    rw [hl] at h
    simp only [updateTipIndex] at h
    by_cases hd : hasDup t''.tipNames = true
    · simp [hd] at h
    · simp [hd] at h
      obtain ⟨rfl, rfl⟩ := h
      have hne' : (sortNames t''.tipNames).isEmpty = false := by
        have : (sortNames t''.tipNames).length = t''.tipNames.length := (List.mergeSort_perm _ _).length_eq
        cases hs : sortNames t''.tipNames with
        | nil =>
          rw [hs] at this
          exact absurd (List.length_eq_zero_iff.1 this.symm) hne
        | cons a r => rfl
      refine ⟨fun n => ?_, ?_, fun n => ?_⟩
      · simp [existsTip, hne', mem_sortNames6]
      · have hlen : (sortNames t''.tipNames).length = t''.tipNames.length := (List.mergeSort_perm _ _).length_eq
        simp [nbTips, hne', hlen]
      · by_cases hm : n ∈ t''.tipNames <;> simp [tipIndexOf, mem_sortNames6, hm]

/-- F12 as it was (before a345ca7 the index was not refreshed): on `t0` with the
    index `[a,b,c,d,e]`, after removing `a` the stale index still answers `a`. -/
theorem removeTipsPinned_fails :
    (match removeTipsPinned false ["a"] t0 ["a", "b", "c", "d", "e"] with
     | .ok (t', ix) => existsTip ix "a" == some true && !(t'.tipNames.contains "a") && nbTips ix == some 5 &&
         t'.tipNames.length == 4
     | .error _ => false) = true := by decide

/-- a tree with a single-child node below the root: `((a,b,c)),x;` — outside `wf` -/
def tSingle : T :=
  .node ⟨"", []⟩ 0 [
    (⟨1, NIL, NIL, [], 0⟩, .node ⟨"", []⟩ 0 [(⟨1, NIL, NIL, [], 1⟩,
      .node ⟨"", []⟩ 0 [(⟨1, NIL, NIL, [], 2⟩, T.leaf "a"), (⟨1, NIL, NIL, [], 3⟩, T.leaf "b"), (⟨1, NIL, NIL, [], 4⟩, T.leaf "c")])]),
    (⟨1, NIL, NIL, [], 5⟩, T.leaf "x")]

/-- Why `noSingle` is a hypothesis (observed on the real code, tag `single-root-left`): when the
    root loses its other child, a single-child node just below it becomes the root (case 1b) and,
    having one neighbour, counts as a tip with the empty name: 4 tips instead of the 3 kept. -/
theorem removeTips_single_root_witness :
    wf tSingle = false ∧ (kept tSingle ["x"] false).length = 3 ∧
    (match removeLoopR tSingle.rooted (workList tSingle ["x"] false) tSingle with
     | .ok t' => t'.tipNames.length == 4 && t'.tipNames.contains "" && t'.kids.length == 1
     | .error _ => false) = true := by decide

/-- A tip that is the root can be removed (0cfc52b): its neighbour takes its place and is
    treated like any node that lost a neighbour; before that commit the call failed
    (`removeTipPinnedRootTip`).  Keeping the tip root works in both. -/
theorem removeTip_root_tip_pinned_fails :
    (match removeTipPinnedRootTip "a" tRootTip with
     | .ok _ => false
     | .error e => e == Err.rootTip) = true ∧
    (match removeLoopR tRootTip.rooted (workList tRootTip ["a"] false) tRootTip with
     | .ok t' => t'.tipNames == ["b", "c", "d", "e"] && t'.kids.length == 4
     | .error _ => false) = true ∧
    (match removeLoopR tRootTip.rooted (workList tRootTip ["b"] false) tRootTip with
     | .ok t' => t'.tipNames == ["a", "c", "d", "e"]
     | .error _ => false) = true := by decide

/-- What the code does with a single-child node `S` just below the root (inputs outside the
    property: "pruning is only required to cope with trees free of single-child inner nodes"):
    when the root's other child, the tip `x`, is removed, case 1b makes `S` the root as it is;
    `S` has one neighbour, so it is a tip for Go and its (usually empty) name joins the tip set.
    Whichever side the tip hangs on.  The check keeps such inputs tie-only. -/
theorem removeTip_single_below_root (x : String) (d : NodeD) (p q : Nat) (e0 e1 : EdgeD) (S : T)
    (hS : S.kids.length = 1) (hx : x ∉ S.leaves) :
    removeTip x (.node d p [(e0, .node ⟨x, []⟩ q []), (e1, S)]) = .ok (.node S.d 0 S.kids) ∧
    removeTip x (.node d p [(e1, S), (e0, .node ⟨x, []⟩ q [])]) = .ok (.node S.d 0 S.kids) ∧
    (T.node S.d 0 S.kids).tipNames = S.name :: S.leaves := by
  have hnf := rmNode_notFound_of_not_mem x S hx
  obtain ⟨ds, ps, ks⟩ := S
  simp only [T.kids_node] at hS
  match ks, hS, hnf with
  | [(e, c)], _, hnf =>
    refine ⟨?_, ?_, ?_⟩
    · simp [removeTip, rmKids, rmNode]
    · simp only [removeTip, rmKids, hnf]
      simp [rmNode]
    · simp [T.tipNames, T.name, T.leaves, leavesL]

/-- merged branch: length = sum (absent counts 0; absent only if both are) -/
theorem fuse_length_sum (e1 e2 : EdgeD) (b : Bool) (h1 : lenOKe e1) (h2 : lenOKe e2) :
    (fuseEdge e1 e2 b).lenOr0 = e1.lenOr0 + e2.lenOr0 ∧
      ((fuseEdge e1 e2 b).len = NIL ↔ e1.len = NIL ∧ e2.len = NIL) := by
  refine ⟨fuse_lenOr0 h1 h2 b, ?_⟩
  constructor
  · intro h
    by_cases hn : (e1.len != NIL || e2.len != NIL) = true
    · have hs : 0 ≤ rmax 0 e1.len + rmax 0 e2.len := Rat.add_nonneg (rmax0_nonneg' _) (rmax0_nonneg' _)
      have : (fuseEdge e1 e2 b).len = rmax 0 e1.len + rmax 0 e2.len := by simp [fuseEdge, hn]
      rw [this] at h; rw [h] at hs; exact absurd hs (by decide)
    · simpa using hn
  · intro ⟨a, c⟩; simp [fuseEdge, a, c]

/-- merged branch: support = max of the two when both ends are inner nodes, none otherwise -/
theorem fuse_support_max (e1 e2 : EdgeD) :
    (fuseEdge e1 e2 true).sup = rmax e1.sup e2.sup ∧ (fuseEdge e1 e2 false).sup = NIL := by
  constructor
  · by_cases hn : (e1.sup != NIL || e2.sup != NIL) = true
    · simp [fuseEdge, hn]
    · have : e1.sup = NIL ∧ e2.sup = NIL := by simpa using hn
      simp [fuseEdge, this.1, this.2, rmax]
  · simp [fuseEdge]

/-- `gotree prune`: priority of the name sources, `-f` > `-c` > `--random` > arguments. -/
theorem prune_priority (f : PruneFlags) (ref : T) (sampled : List String) :
    (∀ l, f.tipfile = some l → f.names ref sampled = l) ∧
    (∀ c, f.tipfile = none → f.comp = some c → f.names ref sampled = specificTips ref c) ∧
    (f.tipfile = none → f.comp = none → f.random > 0 → f.names ref sampled = sampled) ∧
    (f.tipfile = none → f.comp = none → ¬ f.random > 0 → f.names ref sampled = f.args) := by
  refine ⟨fun l h => by simp [PruneFlags.names, h], fun c h1 h2 => by simp [PruneFlags.names, h1, h2],
    fun h1 h2 h3 => by simp [PruneFlags.names, h1, h2, h3], fun h1 h2 h3 => by simp [PruneFlags.names, h1, h2, h3]⟩

/-- `gotree prune` (model of `RunE`): whatever the source of names chosen by the flags, the
    result is the induced subtree of the reference tree on the kept tips (★ applied to `prune`). -/
theorem prune_induced (f : PruneFlags) (ref : T) (sampled : List String) (h₁ : wf ref = true)
    (h₃ : 3 ≤ (kept ref (f.names ref sampled) f.revert).length) :
    ∃ t', prune f ref sampled = .ok (t', sortNames t'.tipNames) ∧
      t'.tipNames.Perm (kept ref (f.names ref sampled) f.revert) ∧
      splitsInduced (kept ref (f.names ref sampled) f.revert) ref t' ∧
      wf t' = true := by
  obtain ⟨t', e, hk, hs, _, hw, _⟩ := removeTips_induced ref (f.names ref sampled) f.revert h₁ h₃
  exact ⟨t', e, hk, hs, hw⟩

/-- `prune -c comp` keeps exactly the tips of the reference tree that are tips of `comp`. -/
theorem prune_comp_keeps_common (ref comp : T) :
    kept ref (specificTips ref comp) false = ref.tipNames.filter comp.tipNames.contains := by
  unfold kept
  apply List.filter_congr
  intro n hn
  by_cases hc : n ∈ comp.tipNames <;> simp [specificTips, nodeTipNames, hn, hc]

/-- `gotree prune` on a whole input (several trees, any combination of -f / -c / --random /
    arguments / -r; `-o` or stdout only changes where the lines go): when every input tree
    satisfies the hypotheses, the command does not fail, writes exactly one tree per input tree,
    in order, and each is the induced subtree of its input for the names the flags select FOR THAT
    TREE (`-c`: the tips specific to that tree). -/
theorem pruneAll_induced (f : PruneFlags) : ∀ (refs : List T) (samples : List (List String)),
    AllGood f refs samples →
    (pruneAll f refs samples).2 = none ∧ (pruneAll f refs samples).1.length = refs.length ∧
      OutputsInduced f refs samples (pruneAll f refs samples).1
  | [], _, _ => by simp [pruneAll, OutputsInduced]
  | ref :: rest, samples, h => by
    obtain ⟨h1, h3, hr⟩ := h
    obtain ⟨t', e, hk, hs, _, hw, _⟩ := removeTips_induced_roottip ref (f.names ref (samples.headD [])) f.revert h1 h3
    obtain ⟨g1, g2, g3⟩ := pruneAll_induced f rest samples.tail hr
    have e' : prune f ref (samples.headD []) = .ok (t', sortNames t'.tipNames) := e
    simp only [pruneAll, e']
    exact ⟨g1, by simp [g2], hk, hs, hw, g3⟩

/-- the first tree that cannot be pruned stops the command: what was written before stays,
    nothing is written for that tree nor for the following ones -/
theorem pruneAll_stops (f : PruneFlags) (ref : T) (rest : List T) (samples : List (List String)) (e : Err)
    (h : prune f ref (samples.headD []) = .error e) :
    pruneAll f (ref :: rest) samples = ([], some e) := by
  simp only [pruneAll, h]

theorem pruneAll_continues (f : PruneFlags) (ref : T) (rest : List T) (samples : List (List String))
    (t' : T) (ix : Index) (h : prune f ref (samples.headD []) = .ok (t', ix)) :
    pruneAll f (ref :: rest) samples =
      (t' :: (pruneAll f rest samples.tail).1, (pruneAll f rest samples.tail).2) := by
  simp only [pruneAll, h]

/-- `--random n`: whatever names were sampled (distinct tips of the tree), exactly that many
    tips go, or stay with `-r` -/
theorem prune_random_count (t : T) (sampled : List String) (hnd : t.tipNames.Nodup)
    (hs : sampled.Nodup) (hsub : ∀ n ∈ sampled, n ∈ t.tipNames) :
    (kept t sampled true).length = sampled.length ∧
      (kept t sampled false).length = t.tipNames.length - sampled.length := by
  have h1 : (kept t sampled true).length = sampled.length := by
    apply List.Perm.length_eq
    apply perm_of_nodup_mem (hnd.filter _) hs
    intro x
    simp only [kept, List.mem_filter, beq_true, List.contains_eq_mem, decide_eq_true_eq]
    exact ⟨fun h => h.2, fun h => ⟨hsub x h, h⟩⟩
  refine ⟨h1, ?_⟩
  have c := filter_length_compl t.tipNames sampled.contains
  have e1 : t.tipNames.filter sampled.contains = kept t sampled true := by
    unfold kept; apply List.filter_congr; intro n _; simp
  have e2 : (t.tipNames.filter fun n => !sampled.contains n) = kept t sampled false := by
    unfold kept; apply List.filter_congr; intro n _; simp
  rw [e1, e2] at c
  omega

/-- the hypotheses of `pruneAll_induced` on two trees with different tip sets under `-c` (every tree
    keeps the tips it shares with the compared tree), and of `prune_random_count` -/
example : AllGood ⟨none, some tRooted, 0, ["zz"], false⟩ [t0, tRootedMulti] [] := by
  simp only [AllGood]; decide

example : t0.tipNames.Nodup ∧ ["b", "e"].Nodup ∧ ∀ n ∈ ["b", "e"], n ∈ t0.tipNames := by decide

/-- `specificTips ref comp` are exactly the tips of `ref` that `comp` does not have. -/
theorem specificTips_mem (ref comp : T) (n : String) :
    n ∈ specificTips ref comp ↔ n ∈ ref.tipNames ∧ n ∉ comp.tipNames := by
  simp [specificTips, nodeTipNames]

/- ## the branch indexes after pruning (`UpdateTipIndex`, `ReinitInternalIndexes` → `UpdateBitSet`) -/

/-- What the model of `UpdateBitSet` / `fillRightBitSet` computes: against an index without repetition that
    knows every tip below the root, the bitset of every branch (rows in `Edges()` order) is the characteristic
    vector of the tips below it — bit `tipid(q)` is set iff `q` is below the branch. -/
theorem bitsets_spec (ix : Index) (t : T) (hnd : ix.Nodup) (hall : ∀ n ∈ leavesL t.kids, n ∈ ix) :
    bitsets ix t = some (t.splits.map fun s => rowOf ix s.below) := by
  simp [bitsets, T.splits, fillK_spec ix hnd t.kids hall]

/-- ★ clause 6 for the branch indexes: after a successful `RemoveTips` (model), the refresh at its end
    (tip index first, bitsets against it) leaves on every branch of the pruned tree the split it induces on the
    NEW tip set, as a bitset of exactly as many bits as there are tips left. -/
theorem removeTips_bitsets (t : T) (S : List String) (rev : Bool) (t' : T) (ix : Index)
    (h : removeTips rev S t = .ok (t', ix)) :
    bitsetsAfter t' = some (t'.splits.map fun s => rowOf ix s.below) ∧ ix.length = t'.tipNames.length ∧
      (∀ q, q ∈ ix ↔ q ∈ t'.tipNames) := by
  unfold removeTips at h
  cases hl : removeLoopR t.rooted (workList t S rev) t with
  | error e => rw [hl] at h; cases h
  | ok t'' =>
    rw [hl] at h
    by_cases hd : hasDup t''.tipNames = true
    · simp [updateTipIndex, hd] at h
    · have hd' : hasDup t''.tipNames = false := by simpa using hd
      simp [updateTipIndex, hd'] at h
      obtain ⟨rfl, rfl⟩ := h
      have hnd : (sortNames t''.tipNames).Nodup :=
        (List.mergeSort_perm _ _).nodup_iff.2 ((hasDup_false_iff _).1 hd')
      have hall : ∀ n ∈ leavesL t''.kids, n ∈ sortNames t''.tipNames := fun n hn =>
        mem_sortNames6.2 (by simp [T.tipNames, hn])
      refine ⟨?_, (List.mergeSort_perm _ _).length_eq, fun q => mem_sortNames6⟩
      simp [bitsetsAfter, updateTipIndex, hd', bitsets_spec _ t'' hnd hall]

/-- … and these rows satisfy the predicate the oracle applies to the implementation's raw bitsets
    (`Spec.bitsetsOK`, with `TipIndex(q)` = rank of `q` in the index): the model of the refresh meets the Spec. -/
theorem removeTips_bitsetsOK (t : T) (S : List String) (rev : Bool) (t' : T) (ix : Index)
    (h : removeTips rev S t = .ok (t', ix)) (rows : List (List Bool)) (hr : bitsetsAfter t' = some rows) :
    bitsetsOK t' ix ((List.range ix.length).map fun (i : Nat) => Int.ofNat i) (rows.map some) = true := by
  obtain ⟨h1, h2, _⟩ := removeTips_bitsets t S rev t' ix h
  rw [h1] at hr
  cases hr
  exact rows_bitsetsOK t' ix h2

/- ## histories on one in-memory tree (`C06.stale`, `Model/C06Stale.lean`) -/

/-- Index built, the tip `a` renamed `b` behind its back (`SetName`), then `RemoveTips`: the call sees the tree
    as it is.  The tips are the old ones with `b` for `a`; the old name `a`, still a key of the stale index, is
    no tip name any more and is IGNORED (`removeTips rev (a :: S) = removeTips rev S`), the new name `b`, unknown to
    the stale index, designates the tip.  (Seeded C06-7 took the tips from the index: `a` removed the tip.) -/
theorem stale_rename (t : T) (a b : String) (ha : a ∈ t.tipNames) (hb : b ∉ t.tipNames) :
    ∃ t₁, applyEdits [.rename a b] t = some t₁ ∧
      t₁.tipNames = t.tipNames.map (fun n => if n == a then b else n) ∧
      a ∉ t₁.tipNames ∧ b ∈ t₁.tipNames ∧
      (∀ S rev, staleRemove [.rename a b] rev (a :: S) t = some (removeTips rev S t₁)) ∧
      (∀ S rev, staleRemove [.rename a b] rev S t = some (removeTips rev S t₁)) := by
  have hab : a ≠ b := fun e => hb (e ▸ ha)
  have happ : applyEdits [.rename a b] t = some (mapTips (fun n => if n == a then b else n) t) := by
    simp [applyEdits, applyEdit, ha]
  have hna : a ∉ (mapTips (fun n => if n == a then b else n) t).tipNames := by
    rw [tipNames_mapTips]
    intro h
    obtain ⟨n, hn, e⟩ := List.mem_map.1 h
    by_cases hna : n = a
    · subst hna
      have e' : b = n := by simpa using e
      exact hab e'.symm
    · have e' : n = a := by simpa [hna] using e
      exact hna e'
  refine ⟨_, happ, tipNames_mapTips _ t, hna, ?_, ?_, ?_⟩
  · rw [tipNames_mapTips]
    exact List.mem_map.2 ⟨a, ha, by simp⟩
  · intro S rev
    unfold staleRemove
    rw [happ]
    change some (removeTips rev (a :: S) _) = _
    rw [removeTips_ignores_absent _ S rev a hna]
  · intro S rev
    unfold staleRemove
    rw [happ]
    rfl

example : t0.tipNames = ["a", "b", "c", "d", "e"] ∧ "z" ∉ t0.tipNames := by decide

/-- `TipNode` after pruning (model `tipNodeOf`): for every name the new index answers, the node returned carries
    that name, has one neighbour and stands in `Tips()` of the pruned tree at the reported position; for any
    other name there is no answer.  The answers satisfy the predicate the oracle applies to the raw answers of
    the implementation (`Spec.tipNodesOK`). -/
theorem removeTips_tipNode (t : T) (S : List String) (rev : Bool) (t' : T) (ix : Index)
    (h : removeTips rev S t = .ok (t', ix)) :
    (∀ q, q ∈ t'.tipNames → ∃ pos, tipNodeOf ix t' q = some (q, 1, pos) ∧ t'.tipNames[pos]? = some q) ∧
    (∀ q, q ∉ t'.tipNames → tipNodeOf ix t' q = none) ∧
    tipNodesOK t' ix ix (ix.map fun _ => (1 : Int)) (ix.map fun q => Int.ofNat (t'.tipNames.idxOf q)) = true := by
  obtain ⟨_, _, hmem⟩ := removeTips_bitsets t S rev t' ix h
  refine ⟨fun q hq => ⟨t'.tipNames.idxOf q, ?_, ?_⟩, fun q hq => ?_, ?_⟩
  · have : q ∈ ix := (hmem q).2 hq
    simp [tipNodeOf, this]
  · have hlt : t'.tipNames.idxOf q < t'.tipNames.length := List.idxOf_lt_length_of_mem hq
    rw [List.getElem?_eq_getElem hlt, List.getElem_idxOf]
  · have : q ∉ ix := fun hq' => hq ((hmem q).1 hq')
    simp [tipNodeOf, this]
  · unfold tipNodesOK
    simp only [beq_self_eq_true, List.length_map, Bool.true_and]
    rw [zip_map_all, List.all_eq_true]
    intro q hq
    have hq' : q ∈ t'.tipNames := (hmem q).1 hq
    have hlt : t'.tipNames.idxOf q < t'.tipNames.length := List.idxOf_lt_length_of_mem hq'
    simp [List.getElem?_eq_getElem hlt, List.getElem_idxOf]

/-- `t0` minus `a` is `(c,d,e,b)`; against the new index `[b,c,d,e]` the four tip branches, in `Edges()` order,
    carry one bit each -/
example :
    (match removeLoopR t0.rooted (workList t0 ["a"] false) t0 with
     | .ok t' => t'.tipNames == ["c", "d", "e", "b"] &&
         bitsets ["b", "c", "d", "e"] t' == some [[false, true, false, false], [false, false, true, false],
           [false, false, false, true], [true, false, false, false]]
     | .error _ => false) = true := by decide

/-- the two refreshes in the other order (seeded C06-5: bitsets built against the index as it was before the
    call, `[a,b,c,d,e]`): on `t0` minus `a` the rows keep the old width 5 for 4 tips left, and bit `tipid` of a
    tip under the NEW index (`b` ↦ 0) is not the bit set on its branch -/
theorem removeTips_bitsets_swapped_fails :
    (match removeLoopR t0.rooted (workList t0 ["a"] false) t0 with
     | .ok t' =>
       t'.tipNames.length == 4 &&
       bitsetsAfterSwapped ["a", "b", "c", "d", "e"] t' == some [[false, false, true, false, false],
         [false, false, false, true, false], [false, false, false, false, true], [false, true, false, false, false]] &&
       bitsetsAfterSwapped ["a", "b", "c", "d", "e"] t' != bitsets ["b", "c", "d", "e"] t'
     | .error _ => false) = true := by decide

end Gotree.C06
