/-
  C12 — the facts of the source the hand-written model assumes, as REVIEWED values (`expected…`), the
  table regenerated from the working tree on every run (`Gotree.Gen.C12`, written by harness/c12/extract.go),
  and the functions that read the model off the table:

  * `interp` runs the passes the `switch algo` of ParsimonyAcr / ParsimonyAsr names for a constant, in the order of
    the source; theorem `dispatch_runAlgo` (Proofs) says that on the regenerated table this IS `runAlgo`;
  * `genIupac` / `genAaCodes` read a tip character the way `parsimonyUPPASS` of asr does, from the goalign tables
    linked into the harness; theorems `iupacCheck` / `aaCodesCheck` say the model's own copies agree on all 256 bytes;
  * `expectedSkeleton`: per numeric pass function the selection predicates (`_ > _`: first maximum, strict;
    `_ == _`: every maximum kept; `_ > 1`: intersection; `_ >= 1`; `_ == 0`: a child lacking the kept state; the
    Tip() tests; variable names play no part), the constants stored and the counters, in source order, compared through
    `rowSig`: every comparison is EVALUATED on probes, so an equivalent spelling is the same row — what
    `argTo`, `maxTo`, `cp`, `inter`, `miss`, `stateNames`, `resolve` of Model/C12.lean and Model/C12R.lean transcribe.
-/
import Gotree.Gen.C12Sites
import Gotree.Model.C12Cli

namespace Gotree.C12
open Gotree

/-- the model's `Algo` for a Go constant as written in command `cmd` (`acr.ALGO_…` in cmd/acr.go) -/
def constAlgo (cmd s : String) : Option Algo :=
  match cmd, s with
  | "acr", "acr.ALGO_DELTRAN" | "asr", "asr.ALGO_DELTRAN" => some .deltran
  | "acr", "acr.ALGO_ACCTRAN" | "asr", "asr.ALGO_ACCTRAN" => some .acctran
  | "acr", "acr.ALGO_DOWNPASS" | "asr", "asr.ALGO_DOWNPASS" => some .downpass
  | "acr", "acr.ALGO_NONE" | "asr", "asr.ALGO_NONE" => some .none
  | _, _ => none

def algoConst : Algo → String
  | .deltran => "ALGO_DELTRAN" | .acctran => "ALGO_ACCTRAN" | .downpass => "ALGO_DOWNPASS" | .none => "ALGO_NONE"

/-- the integers the harness passes to the library (`algoIndex` of harness/c12/c12.go) -/
def expectedConsts : List (String × String × Nat) :=
  ["acr", "asr"].flatMap fun p => [(p, "ALGO_DELTRAN", 0), (p, "ALGO_ACCTRAN", 1), (p, "ALGO_DOWNPASS", 2), (p, "ALGO_NONE", 3)]

def expectedDispatch : List (String × String × String × String) := [
    ("acr", "ALGO_DOWNPASS", "parsimonyDOWNPASS", "randomResolve"),
  ("acr", "ALGO_DELTRAN", "parsimonyDOWNPASS", "false"),
  ("acr", "ALGO_DELTRAN", "parsimonyDELTRAN", "randomResolve"),
  ("acr", "ALGO_ACCTRAN", "parsimonyACCTRAN", "randomResolve"),
  ("acr", "ALGO_NONE", "", ""),
  ("acr", "default", "error", ""),
  ("asr", "ALGO_DOWNPASS", "parsimonyDOWNPASS", "randomResolve"),
  ("asr", "ALGO_DELTRAN", "parsimonyDOWNPASS", "false"),
  ("asr", "ALGO_DELTRAN", "parsimonyDELTRAN", "randomResolve"),
  ("asr", "ALGO_ACCTRAN", "parsimonyACCTRAN", "randomResolve"),
  ("asr", "default", "error", "")]

/-- one pass of the `switch algo`, as a transformer of the annotated tree the up-pass left -/
def passOf (k : Nat) (tv : String → Vec) (t : T) : String → Option (A → A)
  | "parsimonyDOWNPASS" => some fun _ => down k tv none t
  | "parsimonyDELTRAN" => some (deltran k none)
  | "parsimonyACCTRAN" => some (acctran k none)
  | "" => some id
  | _ => none

/-- what the `switch algo` of package `pkg` does for the constant `label`: `none` = no such case (the default
    clause: an error), otherwise the passes named there applied in order to the result of the up-pass -/
def interp (rows : List (String × String × String × String)) (pkg label : String) (k : Nat) (tv : String → Vec) (t : T) : Option A :=
  let calls := rows.filter fun r => r.1 == pkg && r.2.1 == label
  if calls.isEmpty then none
  else calls.foldlM (fun a r => (passOf k tv t r.2.2.1).map fun f => f a) (upA k tv t)

/-- the flag each pass receives as `randomResolve`: only the DOWNPASS that precedes DELTRAN is never random -/
def neverRandom (rows : List (String × String × String × String)) : List (String × String × String) :=
  (rows.filter fun r => r.2.2.2 == "false").map fun r => (r.1, r.2.1, r.2.2.1)

/- ## rows of the pass functions, compared SEMANTICALLY: a comparison is evaluated on probes -/

abbrev Atom := String × String × String
abbrev Row := String × List Atom

/-- numeric literals of the source (`0`, `0.0`, `1` …); counts are small naturals -/
def litVal : String → Option Nat
  | "0" | "0.0" => some 0 | "1" | "1.0" => some 1 | "2" | "2.0" => some 2 | "3" | "3.0" => some 3
  | "4" | "4.0" => some 4 | _ => none

def cmpOp : String → Option (Nat → Nat → Bool)
  | ">" => some fun a b => decide (a > b) | ">=" => some fun a b => decide (a ≥ b)
  | "<" => some fun a b => decide (a < b) | "<=" => some fun a b => decide (a ≤ b)
  | "==" => some fun a b => a == b | "!=" => some fun a b => a != b
  | _ => none

def probes : List Nat := [0, 1, 2, 3, 4, 5]

/-- what a comparison / stored constant MEANS: a comparison between a variable and a numeric literal is its truth
    vector on the probes 0..5 (`c > 1` = `c >= 2` = `1 < c`); between two variables its truth table on the probe
    pairs, the smaller-side-first spellings (`<`, `<=`) turned round first (`max < c` = `c > max`); a stored numeric
    constant is its value (`0.0` = `0`); anything else (nil, true, a package constant) is kept as written -/
def atomSig (a : Atom) : String × List Bool :=
  let (l, op, r) := a
  match cmpOp op with
  | none => (match litVal r with
      | some n => (op ++ " num", probes.map (· == n))
      | none => (l ++ " " ++ op ++ " " ++ r, []))
  | some f =>
    match l == "_", r == "_", litVal l, litVal r with
    | true, true, _, _ =>
      let g : Nat → Nat → Bool := if op == "<" || op == "<=" then fun a b => f b a else f
      ("var-var", probes.flatMap fun x => probes.map fun y => g x y)
    | true, false, _, some n => ("var-lit", probes.map fun x => f x n)
    | false, true, some n, _ => ("var-lit", probes.map fun x => f n x)
    | _, _, _, _ => (l ++ " " ++ op ++ " " ++ r, [])

/-- a row: its text, then the meaning of each of its comparisons -/
def rowSig (r : Row) : List (String × List Bool) := (r.1, []) :: r.2.map atomSig

/-- flat signatures (package, function, rows in order) -/
def entrySig (l : List (String × List Row)) : List (String × List Bool) :=
  l.flatMap fun e => (e.1, []) :: e.2.flatMap rowSig
def skelSig (l : List (String × String × List Row)) : List (String × List Bool) :=
  l.flatMap fun e => (e.1, []) :: (e.2.1, []) :: e.2.2.flatMap rowSig

def expectedEntry : List (String × List Row) := [
    ("acr", [("set", [("_", "=", "true")]), ("if Tip() && !Tip()", []), ("if #", [("_", "!=", "nil")])]),
  ("asr", [("if #", [("_", "!=", "nil")]), ("if #", [("_", "!=", "nil")]), ("if Tip() && !Tip()", []), ("if #", [("_", "!=", "nil")])])]

def expectedSkeleton : List (String × String × List Row) := [
    ("acr", "parsimonyUPPASS", [("set", [("_", "=", "0")]), ("set", [("_", ":=", "0")]), ("if Tip()", []), ("set", [("_", "=", "1")]), ("if #", [("_", "!=", "_")]), ("if #", [("_", "!=", "nil")]), ("set", [("_", ":=", "0")]), ("if #", [("_", "!=", "_")]), ("_++", []), ("set", [("_", ":=", "0")]), ("set", [("_", ":=", "0.0")]), ("if #", [("_", ">", "_")]), ("if #", [("_", "!=", "_")]), ("if #", [("_", "==", "0")]), ("_++", [])]),
  ("acr", "parsimonyDOWNPASS", [("if !Tip()", []), ("if #", [("_", "!=", "_")]), ("set", [("_", ":=", "0")]), ("if #", [("_", "!=", "nil")]), ("_++", []), ("if # && #", [("_", "!=", "_"), ("_", "!=", "_")]), ("_++", []), ("if #", [("_", "!=", "nil")]), ("set", [("_", ":=", "1")]), ("if #", [("_", "!=", "_")]), ("_++", []), ("if #", [("_", "!=", "_")])]),
  ("acr", "computeParsimony", [("set", [("_", ":=", "0.0")]), ("if #", [("_", ">", "_")]), ("if #", [("_", "==", "_")]), ("set", [("_", "=", "1")]), ("set", [("_", "=", "0")])]),
  ("acr", "parsimonyDELTRAN", [("if !Tip()", []), ("if #", [("_", "!=", "nil")]), ("set", [("_", ":=", "true")]), ("if #", [("_", ">", "1")]), ("set", [("_", "=", "false")]), ("if #", [("_", ">", "1")]), ("set", [("_", "=", "1")]), ("set", [("_", "=", "0")]), ("if #", [("_", "!=", "_")])]),
  ("acr", "parsimonyACCTRAN", [("if !Tip()", []), ("if #", [("_", "!=", "_")]), ("set", [("_", ":=", "true")]), ("if #", [("_", ">", "1")]), ("set", [("_", "=", "false")]), ("if #", [("_", ">", "1")]), ("set", [("_", "=", "1")]), ("set", [("_", "=", "0")]), ("if #", [("_", "!=", "_")])]),
  ("acr", "randomlyResolveNodeStates", [("set", [("_", ":=", "0")]), ("if #", [("_", ">=", "1")]), ("_++", []), ("if #", [("_", ">", "1")]), ("set", [("_", ":=", "0")]), ("if #", [("_", ">=", "1")]), ("if #", [("_", "==", "_")]), ("set", [("_", "=", "1")]), ("set", [("_", "=", "0")]), ("_++", []), ("set", [("_", "=", "0")])]),
  ("asr", "parsimonyUPPASS", [("if Tip()", []), ("if #", [("_", "==", "align.NUCLEOTIDS")]), ("if #", [("_", "==", "align.ALL_AMINO")]), ("set", [("_", "=", "1")]), ("if #", [("_", "!=", "_")]), ("if #", [("_", "!=", "nil")]), ("set", [("_", ":=", "0")]), ("if #", [("_", "!=", "_")]), ("_++", []), ("set", [("_", ":=", "0")]), ("set", [("_", ":=", "0.0")]), ("if #", [("_", ">", "_")]), ("if #", [("_", "!=", "_")]), ("if #", [("_", "==", "0")]), ("_++", [])]),
  ("asr", "parsimonyDOWNPASS", [("if !Tip()", []), ("if #", [("_", "!=", "_")]), ("set", [("_", ":=", "0")]), ("if #", [("_", "!=", "nil")]), ("_++", []), ("if # && #", [("_", "!=", "_"), ("_", "!=", "_")]), ("_++", []), ("if #", [("_", "!=", "nil")]), ("set", [("_", ":=", "1")]), ("if #", [("_", "!=", "_")]), ("_++", []), ("if #", [("_", "!=", "_")])]),
  ("asr", "computeParsimony", [("set", [("_", ":=", "0.0")]), ("if #", [("_", ">", "_")]), ("if #", [("_", "==", "_")]), ("set", [("_", "=", "1")]), ("set", [("_", "=", "0")])]),
  ("asr", "parsimonyDELTRAN", [("if !Tip()", []), ("if #", [("_", "!=", "nil")]), ("set", [("_", ":=", "true")]), ("if #", [("_", ">", "1")]), ("set", [("_", "=", "false")]), ("if #", [("_", ">", "1")]), ("set", [("_", "=", "1")]), ("set", [("_", "=", "0")]), ("if #", [("_", "!=", "_")])]),
  ("asr", "parsimonyACCTRAN", [("if !Tip()", []), ("if # && !Tip()", [("_", "!=", "_")]), ("set", [("_", ":=", "true")]), ("if #", [("_", ">", "1")]), ("set", [("_", "=", "false")]), ("if #", [("_", ">", "1")]), ("set", [("_", "=", "1")]), ("set", [("_", "=", "0")]), ("if #", [("_", "!=", "_")])]),
  ("asr", "randomlyResolveNodeStates", [("set", [("_", ":=", "0")]), ("if #", [("_", ">=", "1")]), ("_++", []), ("if #", [("_", ">", "1")]), ("set", [("_", ":=", "0")]), ("if #", [("_", ">=", "1")]), ("if #", [("_", "==", "_")]), ("set", [("_", "=", "1")]), ("set", [("_", "=", "0")]), ("_++", []), ("set", [("_", "=", "0")])])]

/- ## command line -/

def expectedCliDefault : List (String × List String) := [
    ("acr", ["call io.LogError", "return"]),
  ("asr", ["assign err", "call io.LogError", "return"])]

def expectedFlagDefaults : List (String × String × String) := [
    ("acr", "states", "stdin"),
  ("acr", "input", "stdin"),
  ("acr", "output", "stdout"),
  ("acr", "out-states", "none"),
  ("acr", "out-steps", "stdout"),
  ("acr", "algo", "acctran"),
  ("acr", "random-resolve", "false"),
  ("asr", "align", "stdin"),
  ("asr", "phylip", "false"),
  ("asr", "input-strict", "false"),
  ("asr", "input", "stdin"),
  ("asr", "output", "stdout"),
  ("asr", "log", "stdout"),
  ("asr", "algo", "acctran"),
  ("asr", "random-resolve", "false")]

def expectedCliCalls : List (String × List String) := [
    ("acr", ["acr.ParsimonyAcr(t.Tree, tipstates, algo, acrrandomresolve)"]),
  ("asr", ["asr.ParsimonyAsr(t.Tree, align, algo, asrrandomresolve)"])]

/-- every literal of the `--algo` switch selects the constant (of the command's own package) that the model's
    `cliAlgoL` stands for, the four names are there for both commands, and the flag default is the model's -/
def cliAlgosOk (rows : List (String × String × String)) (flags : List (String × String × String)) : Bool :=
  rows.all (fun r => (constAlgo r.1 r.2.2).isSome && cliAlgoL r.2.1 == constAlgo r.1 r.2.2) &&
  ["acr", "asr"].all fun c => ((rows.filter (·.1 == c)).map (·.2.1)) == ["acctran", "deltran", "downpass", "none"] &&
    (flags.filter fun f => f.1 == c && f.2.1 == "algo").map (·.2.2) == [cliDefaultAlgo]

/- ## goalign tables -/

/-- the alphabet of `ParsimonyAsr`: `a.AlphabetCharacters()`, then `-` and `*` -/
def genAlphabet (base : List Nat) : List Nat := base ++ [45, 42]

/-- nucleotides: `possibilities = align.IupacCode[c]`, each looked up in `charToIndex` (absent: ignored) -/
def genIupac (b : Nat) : List Nat :=
  match Gen.C12.iupacCode.find? (·.1 == b) with
  | some (_, l) => l.filterMap fun x => (genAlphabet Gen.C12.nucAlphabet).findIdx? (· == x)
  | none => []

/-- proteins: `c == align.ALL_AMINO` → every character of the alphabet, otherwise `c` itself if known -/
def genAaCodes (b : Nat) : List Nat :=
  if b == Gen.C12.allAmino then List.range Gen.C12.aminoAlphabet.length
  else match (genAlphabet Gen.C12.aminoAlphabet).findIdx? (· == b) with
    | some i => [i]
    | none => []

end Gotree.C12
