-- GENERATED
import Gotree.Model.C14
import Gotree.Model.Core
import Gotree.Model.Dump
import Gotree.Spec.C14
import Gotree.Spec.Splits
import Gotree.Lemmas.C14
import Gotree.Proofs.C14
