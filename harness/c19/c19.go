package c19

import (
	"crypto/sha256"
	"fmt"
	"math/rand"
	"os"
	"path/filepath"
	"regexp"
	"runtime"
	"sort"
	"strconv"
	"strings"
	"sync"
	"time"

	"verifharness/core"

	"github.com/evolbioinfo/gotree/cmd"
	"github.com/evolbioinfo/gotree/tree"
	"github.com/spf13/cobra"
	"github.com/spf13/pflag"
)

// ---------------------------------------------------------------- table cases

func b2s(b bool) string {
	if b {
		return "true"
	}
	return "false"
}

func rowFields(r Row) []string {
	return []string{r.Path, r.Flag, r.Short, b2s(r.Persistent), strconv.Itoa(r.Var), r.Type, r.Def, r.Cur}
}

// encRow: the 8 fields as a StrList, followed by ";"
func encRow(r Row) string { return core.StrList(rowFields(r)) + ";" }

func encRows(rs []Row) string {
	var b strings.Builder
	for _, r := range rs {
		b.WriteString(encRow(r))
	}
	return b.String()
}

// comparableClaim: the default claimed by the free text of the help sentence, normalised the way
// pflag prints a value of the flag's type; "" when the text claims nothing that can be compared
// (strings and loose wording such as "default : normal" on a boolean are not compared).
func comparableClaim(r Row) string {
	if r.UsageDef == "" {
		return ""
	}
	switch r.Type {
	case "bool":
		if v, err := strconv.ParseBool(r.UsageDef); err == nil {
			return strconv.FormatBool(v)
		}
	case "int", "int64":
		if v, err := strconv.ParseInt(r.UsageDef, 10, 64); err == nil {
			return strconv.FormatInt(v, 10)
		}
	case "float64":
		if v, err := strconv.ParseFloat(r.UsageDef, 64); err == nil {
			return strconv.FormatFloat(v, 'g', -1, 64)
		}
	}
	return ""
}

func emitRow(c *core.Ctx, table []Row, i int) {
	r := table[i]
	var peers []Row
	for j, q := range table {
		if j != i && q.Var == r.Var {
			peers = append(peers, q)
		}
	}
	// the inherited (persistent, ancestor's) flags of the same name that this flag hides for its command
	var shadowed []Row
	for _, q := range table {
		if q.Persistent && q.Flag == r.Flag && q.Path != r.Path && strings.HasPrefix(r.Path+" ", q.Path+" ") {
			shadowed = append(shadowed, q)
		}
	}
	e := core.Escape
	c.Emit("C19.row", e(r.Path), e(r.Flag), e(r.Short), b2s(r.Persistent), strconv.Itoa(r.Var), e(r.Type), e(r.Def), e(r.Cur),
		e(comparableClaim(r)), encRows(peers), encRows(shadowed))
}

func emitTable(c *core.Ctx, table []Row) {
	c.Emit("C19.table", encRows(table))
}

// emitOrder: the rows in the order their registrations ran (initorder.go), for the model to run.
func emitOrder(c *core.Ctx, table []Row) {
	ordered, unplaced, problems := orderedTable(c.Repo, table)
	if len(problems) > 12 {
		problems = append(problems[:12], fmt.Sprintf("… %d more", len(problems)-12))
	}
	c.Emit("C19.order", encRows(ordered), encRows(unplaced), core.StrList(problems))
}

func findRow(table []Row, path, flag string) int {
	for i, r := range table {
		if r.Path == path && r.Flag == flag {
			return i
		}
	}
	return -1
}

// ---------------------------------------------------------------- end-to-end cases

// tmpl is a runnable invocation of one command.  Placeholders {name} in Args are replaced by
// the path of the input file of that name; the main input goes to stdin (so that the -i/--input
// option itself can be tested: omitted and "stdin" both read the standard input).
type tmpl struct {
	Name  string   // unique
	Path  string   // command path without the leading "gotree "
	Args  []string // options with non-default values and positional arguments
	Stdin string   // name of the input sent on stdin ("" = nothing)
	Skip  []string // flags that cannot be compared in this template
	Minus string   // derived template: the flag of this name was REMOVED from another template's arguments; only it is compared
	Fails bool     // the invocation is refused by an argument check before any work (network commands offline)
	Base  string   // name of the template this one must give another outcome than (it only adds options with non-default values)
}

type inputs map[string]string // name -> content

func setSupports(t *tree.Tree, r *rand.Rand) {
	for _, e := range t.Edges() {
		if !e.Right().Tip() {
			e.SetSupport(float64(r.Intn(101)) / 100)
		}
	}
}

// yule draws a tree; shape decides the decoration: 0 binary with lengths and supports, 1 without
// supports, 2 multifurcating (short and weakly supported branches collapsed), 3 without lengths
// (every length absent) — the options are exercised on other kinds of trees than the fixed inputs.
func yule(r *rand.Rand, n int, rooted bool, shape int) *tree.Tree {
	rand.Seed(r.Int63())
	t, err := tree.RandomYuleBinaryTree(n, rooted)
	if err != nil {
		panic(err)
	}
	setSupports(t, r)
	switch shape {
	case 1:
		t.ClearSupports()
	case 2:
		t.CollapseShortBranches(0.03, false, false)
		t.CollapseLowSupport(0.2, false)
	case 3:
		for _, e := range t.Edges() {
			e.SetLength(tree.NIL_LENGTH)
		}
	}
	return t
}

// makeInputs: variant 0 is fixed; other variants draw the trees.
func makeInputs(variant int64) inputs {
	in := inputs{}
	if variant == 0 {
		in["tree"] = "((Tip0:0.1234567,Tip1:0.2)0.9123456:0.0512345,(Tip2:0.3000049,(Tip3:0.1,Tip4:0.15)0.6:0.02)0.8004:0.07,((Tip5:0.2,Tip6:0.25)0.95:0.3,Tip7:0.12)0.4:0.01);\n"
		in["tree2"] = "((Tip0:0.1,Tip2:0.2)0.7:0.06,(Tip1:0.3,(Tip3:0.1,Tip4:0.15)0.5:0.03)0.8:0.07,((Tip5:0.2,Tip7:0.25)0.9:0.2,Tip6:0.12)0.3:0.04);\n"
		in["rooted"] = "((Tip0:0.1,Tip1:0.2)0.9:0.05,((Tip2:0.3,Tip3:0.1)0.7:0.2,(Tip4:0.3,(Tip5:0.2,(Tip6:0.1,Tip7:0.4)0.5:0.1)0.6:0.2)0.65:0.05)0.8:0.1);\n"
		in["trees"] = in["tree"] + in["tree2"] +
			"((Tip0:0.1,Tip1:0.2)0.9:0.05,(Tip2:0.3,(Tip3:0.1,Tip4:0.15)0.6:0.02)0.8:0.07,((Tip5:0.2,Tip7:0.25)0.95:0.3,Tip6:0.12)0.4:0.01);\n" +
			"((Tip0:0.1,Tip1:0.2)0.9:0.05,(Tip3:0.3,(Tip2:0.1,Tip4:0.15)0.6:0.02)0.8:0.07,((Tip5:0.2,Tip6:0.25)0.95:0.3,Tip7:0.12)0.4:0.01);\n" +
			"((Tip0:0.1,Tip1:0.2)0.9:0.05,(Tip2:0.3,(Tip3:0.1,Tip4:0.15)0.6:0.02)0.8:0.07,((Tip5:0.2,Tip6:0.25)0.95:0.3,Tip7:0.12)0.4:0.01);\n"
	} else {
		r := rand.New(rand.NewSource(variant))
		n := 8 + r.Intn(5)
		shape := int(variant % 4)
		if shape < 0 {
			shape = -shape
		}
		in["tree"] = yule(r, n, false, shape).Newick() + "\n"
		in["tree2"] = yule(r, n, false, 0).Newick() + "\n"
		in["rooted"] = yule(r, n, true, shape).Newick() + "\n"
		ts := in["tree"] + in["tree2"]
		for i := 0; i < 3; i++ {
			if r.Intn(2) == 0 {
				ts += in["tree"]
			} else {
				ts += yule(r, n, false, shape).Newick() + "\n"
			}
		}
		in["trees"] = ts
	}
	// the remaining inputs refer to Tip0..Tip7 only, which every variant has
	in["other"] = "((X0:0.1,X1:0.2)0.9:0.05,(X2:0.3,X3:0.1)0.7:0.2);\n"
	in["otherunrooted"] = "((X0:0.1,X1:0.2)0.9:0.05,X2:0.3,X3:0.1);\n"
	in["commented"] = "((Tip0[c0]:0.1[e0],Tip1:0.2)n1[cn1]:0.05[e1],(Tip2:0.3,Tip3:0.1)n2:0.2[e2],Tip4:0.3);\n"
	in["single"] = "((Tip0:0.1,Tip1:0.2):0.05,((Tip2:0.3):0.1,Tip3:0.1):0.2,Tip4:0.3);\n"
	in["multif"] = "((Tip0:0.1,Tip1:0.2,Tip2:0.1)0.9:0.05,(Tip3:0.3,Tip4:0.1,Tip5:0.2)0.7:0.2,Tip6:0.3,Tip7:0.1);\n"
	in["named"] = "((Tip0:0.1,Tip1:0.2)clade1:0.05,(Tip2:0.3,(Tip3:0.1,Tip4:0.15)clade3:0.02)clade2:0.07,((Tip5:0.2,Tip6:0.25)clade5:0.3,Tip7:0.12)clade4:0.01);\n"
	nexus := func(trees string) string {
		var b strings.Builder
		b.WriteString("#NEXUS\nBEGIN TREES;\n")
		for i, t := range strings.Split(strings.TrimSpace(trees), "\n") {
			fmt.Fprintf(&b, "TREE t%d = %s\n", i+1, t)
		}
		b.WriteString("END;\n")
		return b.String()
	}
	in["treenexus"] = nexus(in["tree"])
	in["treesnexus"] = nexus(in["trees"])
	// a tie between two ancestral states at inner nodes: ACCTRAN, DELTRAN, DOWNPASS and NONE all give
	// different reconstructions (on unambiguous data they coincide, and an option that silently runs
	// another algorithm than the documented default would go unnoticed)
	in["acrtree"] = "((((Tip0,Tip1),Tip2),(Tip3,Tip4)),(Tip5,(Tip6,Tip7)));\n"
	in["acrstates"] = "Tip0,x\nTip1,y\nTip2,y\nTip3,x\nTip4,x\nTip5,x\nTip6,x\nTip7,x\n"
	in["asralign"] = ">Tip0\nAC\n>Tip1\nCC\n>Tip2\nCC\n>Tip3\nAA\n>Tip4\nAA\n>Tip5\nAA\n>Tip6\nAC\n>Tip7\nAA\n"
	in["zerolen"] = "((Tip0:0,Tip1:0.2)0.9:0,(Tip2:0.000001,Tip3:0.1)0.7:0.2,Tip4:0.3);\n"
	in["tipfile"] = "Tip0\nTip1\nTip2\n"
	in["tipfile2"] = "Tip3\nTip4\n"
	in["mapfile"] = "Tip0\tAlpha\nTip1\tBeta\nTip5\tGamma\n"
	in["annotmap"] = "cladeA:Tip3,Tip4\ncladeB:Tip0\n"
	in["states"] = "Tip0,A\nTip1,A\nTip2,B\nTip3,B\nTip4,A\nTip5,C\nTip6,C\nTip7,B\nTip8,A\nTip9,C\nTip10,B\nTip11,A\nTip12,C\n"
	in["brfile"] = "clade3\nclade5\n"
	in["idgroups"] = "Tip0,Tip0b,Tip0c\nTip5,Tip5b\n"
	var fa, ph strings.Builder
	seqs := []string{"ACGTACGTAC", "ACGTACGTAA", "ACGAACGTAC", "ACGAACGTCC", "ACGAACGTCA", "TCGTACGGAC", "TCGTACGGAA", "TCGTACGTAC", "ACGTACGTAC", "ACGTACGTAC", "ACGTACGTAC", "ACGTACGTAC", "ACGTACGTAC"}
	fmt.Fprintf(&ph, "   %d   %d\n", len(seqs), len(seqs[0]))
	for i, s := range seqs {
		fmt.Fprintf(&fa, ">Tip%d\n%s\n", i, s)
		fmt.Fprintf(&ph, "Tip%d  %s\n", i, s)
	}
	in["fullnamed"] = "((Tip0:0.1,Tip1:0.2)n1:0.05,(Tip2:0.3,Tip3:0.1)n2:0.2,Tip4:0.3)root;\n"
	in["fastanodes"] = ">Tip0\nACGTACGTAC\n>Tip1\nACGTACGTAA\n>Tip2\nACGAACGTAC\n>Tip3\nACGAACGTCC\n>Tip4\nTCGAACGTCA\n>n1\nACGTACGTAC\n>n2\nACGAACGTAC\n>root\nACGAACGTAC\n"
	in["phylipnodes"] = "   8   10\nTip0  ACGTACGTAC\nTip1  ACGTACGTAA\nTip2  ACGAACGTAC\nTip3  ACGAACGTCC\nTip4  TCGAACGTCA\nn1  ACGTACGTAC\nn2  ACGAACGTAC\nroot  ACGAACGTAC\n"
	in["fasta"] = fa.String()
	in["phylip"] = ph.String()
	return in
}

// templates: at least one per runnable command that needs no network.
func templates() []tmpl {
	T := func(name, path string, stdin string, args ...string) tmpl {
		return tmpl{Name: name, Path: path, Stdin: stdin, Args: args}
	}
	B := func(base string, t tmpl) tmpl { t.Base = base; return t }
	S := func(t tmpl, skip ...string) tmpl { t.Skip = append(t.Skip, skip...); return t }
	F := func(t tmpl) tmpl { t.Fails = true; return t }
	return []tmpl{
		T("stats", "stats", "tree"),
		T("stats-edges", "stats edges", "tree"),
		T("stats-nodes", "stats nodes", "tree"),
		T("stats-tips", "stats tips", "tree"),
		T("stats-rooted", "stats rooted", "rooted"),
		T("stats-splits", "stats splits", "tree"),
		T("stats-mono-args", "stats monophyletic", "tree", "Tip3", "Tip4"),
		T("stats-mono-file", "stats monophyletic", "tree", "-l", "{tipfile2}"),
		T("consensus", "compute consensus", "trees"),
		B("consensus", T("consensus-strict", "compute consensus", "trees", "-f", "1")),
		T("setmin", "brlen setmin", "tree"),
		B("setmin", T("setmin-l", "brlen setmin", "tree", "-l", "0.11")),
		T("brlen-add", "brlen add", "tree"),
		B("brlen-add", T("brlen-add-l", "brlen add", "tree", "-l", "0.5")),
		T("brlen-clear", "brlen clear", "tree"),
		T("brlen-cut", "brlen cut", "tree"),
		B("brlen-cut", T("brlen-cut-l", "brlen cut", "tree", "-l", "0.15")),
		T("brlen-round", "brlen round", "tree"),
		B("brlen-round", T("brlen-round-p", "brlen round", "tree", "-p", "1")),
		T("brlen-scale", "brlen scale", "tree"),
		B("brlen-scale", T("brlen-scale-f", "brlen scale", "tree", "-f", "2")),
		T("brlen-set", "brlen set", "tree"),
		B("brlen-set", T("brlen-set-l", "brlen set", "tree", "-l", "0.3")),
		T("brlen-setrand", "brlen setrand", "tree", "--seed", "1"),
		B("brlen-setrand", T("brlen-setrand-range", "brlen setrand", "tree", "--seed", "1", "--min-mean", "0.01", "--max-mean", "0.2")),
		B("brlen-setrand", T("brlen-setrand-mean", "brlen setrand", "tree", "--seed", "1", "-m", "0.3")),
		T("brlen-setrand-min", "brlen setrand", "tree", "--seed", "1", "--min-mean", "0.01"),
		B("brlen-setrand", T("brlen-setrand-window", "brlen setrand", "tree", "--seed", "1", "--min-len", "0.1", "--max-len", "0.25")),
		T("divide", "divide", "trees"),
		B("divide", T("divide-o", "divide", "trees", "-o", "part")),
		// (no derived template without -m: see annotate-tree — trees and compared tree would both be stdin)
		S(T("annotate-map", "annotate", "tree", "-m", "{annotmap}"), "~map-file"),
		B("annotate-map", S(T("annotate-map-comment", "annotate", "tree", "-m", "{annotmap}", "--comment"), "~map-file")),
		// (no derived template without -i: input trees and compared tree would both come from stdin, which
		// the tree reader goroutine and readTree race for — the error text varies from run to run)
		S(T("annotate-tree", "annotate", "named", "-i", "{tree}"), "~input"),
		T("merge", "merge", "other", "-i", "{rooted}"),
		T("compare-trees", "compare trees", "tree", "-c", "{trees}"),
		B("compare-trees", T("compare-trees-l", "compare trees", "tree", "-c", "{trees}", "-l")),
		B("compare-trees", T("compare-trees-w", "compare trees", "tree", "-c", "{trees}", "--weighted")),
		B("compare-trees", T("compare-trees-rf", "compare trees", "tree", "-c", "{trees}", "--rf")),
		T("compare-edges", "compare edges", "tree", "-c", "{tree2}"),
		T("compare-edges-m", "compare edges", "tree", "-c", "{tree2}", "-m"),
		T("compare-tips", "compare tips", "tree", "-c", "{multif}"),
		T("compare-tips-f", "compare tips", "tree", "-f", "{tipfile}"),
		T("collapse-length", "collapse length", "tree"),
		B("collapse-length", T("collapse-length-l", "collapse length", "tree", "-l", "0.06")),
		T("collapse-support", "collapse support", "tree"),
		B("collapse-support", T("collapse-support-s", "collapse support", "tree", "-s", "0.7")),
		T("collapse-depth", "collapse depth", "tree"),
		B("collapse-depth", T("collapse-depth-m", "collapse depth", "tree", "-m", "2", "-M", "3")),
		T("collapse-single", "collapse single", "single"),
		T("collapse-name", "collapse name", "named", "-b", "{brfile}"),
		T("collapse-clade", "collapse clade", "tree", "-n", "clade", "Tip3", "Tip4"),
		T("collapse-clade-l", "collapse clade", "tree", "-n", "clade", "-l", "{tipfile2}"),
		T("comment-clear", "comment clear", "commented"),
		T("comment-transfer", "comment transfer", "commented"),
		T("bipartitiontree", "compute bipartitiontree", "tree", "Tip3", "Tip4"),
		T("bipartitiontree-f", "compute bipartitiontree", "tree", "-f", "{tipfile2}"),
		T("edgetrees", "compute edgetrees", "tree"),
		T("classical", "compute support classical", "tree", "-b", "{trees}"),
		T("fbp", "compute support fbp", "tree", "-b", "{trees}"),
		T("tbe", "compute support tbe", "tree", "-b", "{trees}"),
		T("booster", "compute support booster", "tree", "-b", "{trees}"),
		T("tbe-raw", "compute support tbe", "tree", "-b", "{trees}", "--moved-taxa", "--dist-cutoff", "0.5"),
		T("roccurve", "compute roccurve", "trees", "-r", "{tree}"),
		T("mutations", "compute mutations", "fullnamed", "-a", "{fastanodes}"),
		B("mutations", T("mutations-eems", "compute mutations", "fullnamed", "-a", "{fastanodes}", "--eems")),
		T("mutations-phylip", "compute mutations", "fullnamed", "-a", "{phylipnodes}", "-p"),
		T("acr", "acr", "tree", "--states", "{states}"),
		T("acr-deltran", "acr", "tree", "--states", "{states}", "--algo", "deltran"),
		// enum-like option --algo: inputs on which every value gives another result
		T("acr-tie", "acr", "acrtree", "--states", "{acrstates}"),
		B("acr-tie", T("acr-tie-deltran", "acr", "acrtree", "--states", "{acrstates}", "--algo", "deltran")),
		B("acr-tie-deltran", T("acr-tie-downpass", "acr", "acrtree", "--states", "{acrstates}", "--algo", "downpass")),
		B("acr-tie-downpass", T("acr-tie-none", "acr", "acrtree", "--states", "{acrstates}", "--algo", "none")),
		B("acr-tie-none", T("acr-tie-acctran", "acr", "acrtree", "--states", "{acrstates}", "--algo", "acctran")),
		T("asr-tie", "asr", "acrtree", "-a", "{asralign}"),
		B("asr-tie", T("asr-tie-deltran", "asr", "acrtree", "-a", "{asralign}", "--algo", "deltran")),
		B("asr-tie-deltran", T("asr-tie-downpass", "asr", "acrtree", "-a", "{asralign}", "--algo", "downpass")),
		B("asr-tie-downpass", T("asr-tie-acctran", "asr", "acrtree", "-a", "{asralign}", "--algo", "acctran")),
		T("asr", "asr", "tree", "-a", "{fasta}"),
		T("asr-phylip", "asr", "tree", "-a", "{phylip}", "-p"),
		T("draw-text", "draw text", "tree"),
		B("draw-text", T("draw-text-w", "draw text", "tree", "-w", "60")),
		T("draw-svg", "draw svg", "tree"),
		B("draw-svg", T("draw-svg-r", "draw svg", "tree", "-r")),
		T("draw-png", "draw png", "tree"),
		T("draw-cyjs", "draw cyjs", "tree"),
		T("gen-yule", "generate yuletree", "", "--seed", "1"),
		B("gen-yule", T("gen-yule-l", "generate yuletree", "", "--seed", "1", "-l", "5")),
		T("gen-uniform", "generate uniformtree", "", "--seed", "1"),
		T("gen-balanced", "generate balancedtree", "", "--seed", "1"),
		T("gen-caterpillar", "generate caterpillartree", "", "--seed", "1"),
		T("gen-star", "generate startree", "", "--seed", "1"),
		T("gen-topologies", "generate topologies", "", "--seed", "1", "-l", "5"),
		B("gen-yule", T("gen-yule-rooted", "generate yuletree", "", "--seed", "1", "-r", "-n", "2")),
		T("graft", "graft", "tree", "-c", "{other}", "-l", "Tip3"),
		T("labels", "labels", "named"),
		B("labels", T("labels-internal", "labels", "named", "--internal")),
		T("ltt", "ltt", "rooted"),
		T("matrix", "matrix", "tree"),
		B("matrix", T("matrix-boot", "matrix", "tree", "-m", "boot")),
		B("matrix-boot", T("matrix-none", "matrix", "tree", "-m", "none")),
		T("matrix-avg", "matrix", "trees", "--avg"),
		T("nni", "nni", "tree"),
		T("prune-args", "prune", "tree", "Tip0", "Tip1"),
		T("prune-file", "prune", "tree", "-f", "{tipfile}"),
		B("prune-args", T("prune-revert", "prune", "tree", "-r", "Tip0", "Tip1", "Tip2", "Tip3")),
		T("prune-comp", "prune", "tree", "-c", "{multif}"),
		T("prune-random", "prune", "tree", "--random", "3", "--seed", "1"),
		T("reformat-newick", "reformat newick", "tree"),
		// the two options of `reformat` that write ONE variable (F87): each given a non-default value, so that the
		// documented default of the other one comes AFTER it on the explicit command line
		T("reformat-format-nexus", "reformat newick", "treenexus", "--format", "nexus"),
		T("reformat-if-nexus", "reformat newick", "treenexus", "-f", "nexus"),
		T("reformat-nexus", "reformat nexus", "tree"),
		B("reformat-nexus", T("reformat-nexus-t", "reformat nexus", "tree", "--translate")),
		T("reformat-phyloxml", "reformat phyloxml", "tree"),
		T("rename-map", "rename", "tree", "-m", "{mapfile}"),
		B("rename-map", T("rename-map-r", "rename", "tree", "-m", "{mapfile}", "-r")),
		T("rename-auto", "rename", "tree", "-a", "-m", "outmap.txt"),
		B("rename-auto", T("rename-auto-l", "rename", "tree", "-a", "-m", "outmap.txt", "-l", "7")),
		T("rename-regexp", "rename", "tree", "-e", "Tip(\\d+)", "-b", "Leaf$1"),
		T("rename-internal", "rename", "named", "--internal", "--tips=false", "-e", "clade", "-b", "node"),
		T("repopulate", "repopulate", "tree", "-g", "{idgroups}"),
		T("reroot-midpoint", "reroot midpoint", "tree"),
		T("reroot-outgroup", "reroot outgroup", "tree", "Tip3", "Tip4"),
		T("reroot-outgroup-l", "reroot outgroup", "tree", "-l", "{tipfile2}"),
		B("reroot-outgroup", T("reroot-outgroup-r", "reroot outgroup", "tree", "-r", "Tip3", "Tip4")),
		T("resolve", "resolve", "multif", "--seed", "1"),
		T("resolve-named", "resolve named", "multif", "--seed", "1"),
		T("rotate-sort", "rotate sort", "tree"),
		T("rotate-rand", "rotate rand", "tree", "--seed", "1"),
		T("sample", "sample", "trees", "--seed", "1"),
		B("sample", T("sample-n", "sample", "trees", "--seed", "1", "-n", "3")),
		T("sample-replace", "sample", "trees", "--seed", "1", "-n", "7", "--replace"),
		T("shuffletips", "shuffletips", "tree", "--seed", "1"),
		T("subtree", "subtree", "named", "-n", "clade2"),
		T("support-clear", "support clear", "tree"),
		T("support-round", "support round", "tree"),
		B("support-round", T("support-round-p", "support round", "tree", "-p", "1")),
		T("support-scale", "support scale", "tree"),
		B("support-scale", T("support-scale-f", "support scale", "tree", "-f", "100")),
		T("support-setrand", "support setrand", "tree", "--seed", "1"),
		T("unroot", "unroot", "rooted"),
		T("version", "version", ""),
		// the commands that need the network: only what is decided before the first connection can be
		// run offline (a missing mandatory identifier; an empty tree on stdin).  Anything further
		// (download itol -i <id>, download ncbitax, download panther -f <family>, upload itol < tree)
		// fails in the resolver with an error text that contains ephemeral port numbers: no template.
		F(T("dl-panther-noid", "download panther", "")),
		F(T("dl-itol-noid", "download itol", "")),
		F(T("upload-itol-empty", "upload itol", "")),
	}
}

func findCmd(path string) *cobra.Command {
	c := cmd.RootCmd
	if path == "" {
		return c
	}
	for _, w := range strings.Fields(path) {
		var next *cobra.Command
		for _, s := range c.Commands() {
			if s.Name() == w {
				next = s
			}
		}
		if next == nil {
			return nil
		}
		c = next
	}
	return c
}

// visibleFlags: the flags the command accepts — its local ones, its own persistent ones and the
// persistent ones of its ancestors (nearest definition of a name wins, as cobra merges them).
// Computed without c.InheritedFlags()/LocalFlags(), which would modify the flag sets.
func visibleFlags(c *cobra.Command) []*pflag.Flag {
	var out []*pflag.Flag
	seen := map[string]bool{}
	add := func(f *pflag.Flag) {
		if !seen[f.Name] {
			seen[f.Name] = true
			out = append(out, f)
		}
	}
	c.Flags().VisitAll(add)
	for p := c; p != nil; p = p.Parent() {
		p.PersistentFlags().VisitAll(add)
	}
	sort.Slice(out, func(i, j int) bool { return out[i].Name < out[j].Name })
	return out
}

// given: names of the flags that occur in the arguments of the template
func given(c *cobra.Command, args []string) map[string]bool {
	g := map[string]bool{}
	fl := visibleFlags(c)
	for _, a := range args {
		if strings.HasPrefix(a, "--") {
			n := strings.TrimPrefix(a, "--")
			if i := strings.Index(n, "="); i >= 0 {
				n = n[:i]
			}
			g[n] = true
		} else if strings.HasPrefix(a, "-") && len(a) >= 2 {
			for _, f := range fl {
				if f.Shorthand != "" && strings.ContainsRune(a[1:], rune(f.Shorthand[0])) {
					g[f.Name] = true
				}
			}
		}
	}
	return g
}

// removeFlag drops option `name` (and its value) from the arguments.
func removeFlag(c *cobra.Command, args []string, name string) []string {
	var fl *pflag.Flag
	for _, f := range visibleFlags(c) {
		if f.Name == name {
			fl = f
		}
	}
	if fl == nil {
		return args
	}
	isBool := fl.Value.Type() == "bool"
	var out []string
	for i := 0; i < len(args); i++ {
		a := args[i]
		hit := a == "--"+name || fl.Shorthand != "" && a == "-"+fl.Shorthand
		switch {
		case strings.HasPrefix(a, "--"+name+"="):
		case hit && isBool:
		case hit:
			i++ // its value
		default:
			out = append(out, a)
		}
	}
	return out
}

// allTemplates: the hand-written templates plus, for every option a template gives, the same
// invocation with that option REMOVED (name "<template>~<flag>"): for such a template only the
// removed option is compared (omitted vs its documented default).  Without them an option that
// every template of its command gives — mandatory ones above all (repopulate --id-groups, acr
// --states, graft --graft, subtree --name, …) — would never be run omitted.  The invocation may
// well be refused (the option was mandatory): both runs must then be refused alike.
func allTemplates() []tmpl {
	ts := templates()
	seen := map[string]bool{}
	var extra []tmpl
	for _, t := range ts {
		cc := findCmd(t.Path)
		if cc == nil || t.Fails {
			continue
		}
		var names []string
		for n := range given(cc, t.Args) {
			names = append(names, n)
		}
		sort.Strings(names)
		for _, n := range names {
			if n == "seed" { // a clock seed makes any two runs differ; covered by C19.seed
				continue
			}
			noMinus := false
			for _, sk := range t.Skip {
				if sk == "~"+n {
					noMinus = true
				}
			}
			if noMinus {
				continue
			}
			rest := removeFlag(cc, t.Args, n)
			if len(rest) == len(t.Args) {
				continue
			}
			key := t.Path + "|" + n + "|" + strings.Join(rest, " ") + "|" + t.Stdin
			if seen[key] {
				continue
			}
			seen[key] = true
			extra = append(extra, tmpl{Name: t.Name + "~" + n, Path: t.Path, Args: rest, Stdin: t.Stdin, Minus: n})
		}
	}
	return append(ts, extra...)
}

// explicitArg: how the documented default is passed on the command line.
func explicitArg(f *pflag.Flag) string {
	d := f.DefValue
	switch f.Value.Type() {
	case "stringSlice", "intSlice", "stringArray", "float64Slice", "boolSlice":
		d = strings.TrimSuffix(strings.TrimPrefix(d, "["), "]")
	}
	return "--" + f.Name + "=" + d
}

type runner struct {
	fixed bool // the fixed inputs, on which every template is a valid invocation
	c     *core.Ctx
	in    inputs
	n     int
	mu    sync.Mutex
}

func newRunner(c *core.Ctx, variant int64) *runner {
	r := &runner{c: c, in: makeInputs(variant), fixed: variant == 0}
	if abs, err := filepath.Abs(c.Tmp); err == nil {
		c.Tmp = abs
	}
	return r
}

func (r *runner) close() {}

// subst replaces the {name} placeholders by the path of the run's own copy of that input
// (../in/name relative to the working directory of the run: a command that writes to one of its
// input files — `rename --regexp … -m map` rewrites the map — must not disturb the other runs).
func (r *runner) subst(args []string) []string {
	out := make([]string, len(args))
	for i, a := range args {
		if strings.HasPrefix(a, "{") && strings.HasSuffix(a, "}") {
			a = "../in/" + a[1:len(a)-1]
		}
		out[i] = a
	}
	return out
}

// logStamp: the date/time prefix of Go's log package (warnings of the library)
var logStamp = regexp.MustCompile(`(?m)^\d{4}/\d{2}/\d{2} \d{2}:\d{2}:\d{2} `)

func blob(b []byte) string {
	if len(b) > 3000 {
		return fmt.Sprintf("sha256:%x len=%d", sha256.Sum256(b), len(b))
	}
	return string(b)
}

// invoke runs the binary in a fresh working directory and returns the observable outcome:
// exit class, stdout, and every file it left in the working directory.
func (r *runner) invoke(words []string, args []string, stdin string) string {
	r.mu.Lock()
	r.n++
	top := filepath.Join(r.c.Tmp, fmt.Sprintf("c19run_%d_%d", os.Getpid(), r.n))
	r.mu.Unlock()
	dir := filepath.Join(top, "cwd")
	indir := filepath.Join(top, "in")
	os.MkdirAll(dir, 0755)
	os.MkdirAll(indir, 0755)
	defer os.RemoveAll(top)
	var used []string
	for _, a := range args {
		if strings.HasPrefix(a, "../in/") {
			n := strings.TrimPrefix(a, "../in/")
			if err := os.WriteFile(filepath.Join(indir, n), []byte(r.in[n]), 0644); err != nil {
				panic(err)
			}
			used = append(used, n)
		}
	}
	res := runIn(r.c, dir, r.in[stdin], 30*time.Second, append(append([]string{}, words...), args...)...)
	var b strings.Builder
	switch {
	case res.Timeout:
		b.WriteString("exit=timeout\n")
	default:
		fmt.Fprintf(&b, "exit=%d\n", res.Exit)
	}
	b.WriteString("stdout:\n" + blob([]byte(res.Stdout)))
	ents, _ := os.ReadDir(dir)
	var names []string
	for _, e := range ents {
		names = append(names, e.Name())
	}
	sort.Strings(names)
	for _, n := range names {
		c, _ := os.ReadFile(filepath.Join(dir, n))
		b.WriteString("\nfile " + n + ":\n" + blob(c))
	}
	// an input file the command has rewritten is part of the outcome
	sort.Strings(used)
	for _, n := range used {
		if c, err := os.ReadFile(filepath.Join(indir, n)); err != nil || string(c) != r.in[n] {
			b.WriteString("\ninput in/" + n + " rewritten:\n" + blob(c))
		}
	}
	if res.Exit != 0 || res.Stdout == "" && len(names) == 0 {
		// a failing run: the error message is the observable output (paths of the scratch directories masked)
		se := strings.ReplaceAll(res.Stderr, top, "<run>")
		se = logStamp.ReplaceAllString(se, "<time> ")
		// keep the diagnostics only: the banners some commands log (start time, …) are not an outcome
		var keep []string
		for _, l := range strings.Split(se, "\n") {
			if strings.Contains(l, "rror") || strings.Contains(l, "arning") || strings.Contains(l, "panic") || strings.HasPrefix(l, "goroutine ") {
				keep = append(keep, l)
			}
		}
		se = strings.Join(keep, "\n")
		b.WriteString("\nstderr:\n" + blob([]byte(se)))
	}
	return b.String()
}

// fixedField: "true" = fixed inputs, the template must succeed; "false" = drawn inputs;
// "fails" = the template is an invocation that an argument check refuses
func fixedField(r *runner, t tmpl) string {
	if t.Fails {
		return "fails"
	}
	if t.Minus != "" {
		return "minus"
	}
	return b2s(r.fixed)
}

type e2eCase struct {
	joint  bool // every omitted option spelled out at once
	t      tmpl
	f      *pflag.Flag
	owner  string
	a0, a1 []string
	o0, o1 string
}

// e2e runs the templates: for every flag visible to the command and not fixed by the template,
// outcome(args) vs outcome(args + --flag=<DefValue>).
func e2e(c *core.Ctx, r *runner, ts []tmpl, only func(t tmpl, flag string) bool) {
	var cases []*e2eCase
	base := map[string]*string{}
	for _, t := range ts {
		cc := findCmd(t.Path)
		if cc == nil {
			fmt.Fprintf(os.Stderr, "c19: template %s: no command %q\n", t.Name, t.Path)
			continue
		}
		g := given(cc, t.Args)
		skip := map[string]bool{}
		for _, s := range t.Skip {
			skip[s] = true
		}
		all := r.subst(t.Args)
		nall := 0
		for _, f := range visibleFlags(cc) {
			if g[f.Name] || skip[f.Name] || f.Name == "help" {
				continue
			}
			all = append(all, explicitArg(f))
			nall++
			if t.Minus != "" && f.Name != t.Minus {
				continue
			}
			if only != nil && !only(t, f.Name) {
				continue
			}
			a0 := r.subst(t.Args)
			a1 := append(append([]string{}, a0...), explicitArg(f))
			cases = append(cases, &e2eCase{t: t, f: f, a0: a0, a1: a1})
			base[t.Name] = new(string)
		}
		if nall >= 2 && t.Minus == "" && (only == nil || only(t, "*")) {
			cases = append(cases, &e2eCase{joint: true, t: t, a0: r.subst(t.Args), a1: all})
			base[t.Name] = new(string)
		}
	}
	// run: one base run per template, one explicit run per case; a few at a time
	type job func()
	var jobs []job
	for _, t := range ts {
		if p, ok := base[t.Name]; ok {
			t, p := t, p
			jobs = append(jobs, func() { *p = r.invoke(strings.Fields(t.Path), r.subst(t.Args), t.Stdin) })
		}
	}
	for _, k := range cases {
		k := k
		jobs = append(jobs, func() { k.o1 = r.invoke(strings.Fields(k.t.Path), k.a1, k.t.Stdin) })
	}
	ch := make(chan job)
	var wg sync.WaitGroup
	for w := 0; w < 4; w++ {
		wg.Add(1)
		go func() {
			defer wg.Done()
			for j := range ch {
				j()
			}
		}()
	}
	for _, j := range jobs {
		ch <- j
	}
	close(ch)
	wg.Wait()
	e := core.Escape
	mask := func(a []string) []string {
		out := make([]string, len(a))
		for i, s := range a {
			out[i] = strings.ReplaceAll(s, "../in/", "in/")
		}
		return out
	}
	for _, k := range cases {
		k.o0 = *base[k.t.Name]
		if k.joint {
			c.Emit("C19.e2e", e("gotree "+k.t.Path), "*", "all", "", k.t.Name,
				core.StrList(mask(k.a0)), core.StrList(mask(k.a1)), e(k.o0), e(k.o1), fixedField(r, k.t))
			continue
		}
		c.Emit("C19.e2e", e("gotree "+k.t.Path), e(k.f.Name), e(k.f.Value.Type()), e(k.f.DefValue), k.t.Name,
			core.StrList(mask(k.a0)), core.StrList(mask(k.a1)), e(k.o0), e(k.o1), fixedField(r, k.t))
	}
}

// emitWrites: table (e), the assignments to option variables made after parsing.
func emitWrites(c *core.Ctx) {
	ws, _ := optionWrites(c.Repo)
	var b strings.Builder
	for _, w := range ws {
		b.WriteString(core.StrList([]string{w.Path, w.GoVar, w.File, w.Rhs}) + ";")
	}
	c.Emit("C19.writes", b.String())
}

// emitChanged: table (f), the tests of whether an option was given.
func emitChanged(c *core.Ctx) {
	cs, _ := changedSites(c.Repo)
	var b strings.Builder
	for _, x := range cs {
		b.WriteString(core.StrList([]string{x.Path, x.Flag, x.File}) + ";")
	}
	c.Emit("C19.changed", b.String())
}

// emitReads: one case per (command, flag-bound variable the command's body reads without binding
// it): the registrations of that variable, so that the driver can decide whether leaving out any
// one other command would change what the reader finds there.
func emitReads(c *core.Ctx, table []Row, only string) {
	ordered, _, _ := orderedTable(c.Repo, table)
	reads, _ := unboundReads(c.Repo)
	e := core.Escape
	for _, u := range reads {
		if only != "" && only != u.Path+"/"+u.GoVar {
			continue
		}
		var regs []Row
		for _, r := range ordered {
			if r.GoVar == u.GoVar {
				regs = append(regs, r)
			}
		}
		pos := fmt.Sprintf("cmd/%s:%d", u.File, u.Line)
		if u.Via != "" {
			pos += " via " + u.Via
		}
		c.Emit("C19.reads", e(u.Path), e(u.GoVar), e(pos), encRows(regs))
	}
}

// emitRoundtrip: pflag convention the model relies on — a value is identified with the text
// Value.String() prints, i.e. Set(DefValue) stores a value that prints as DefValue again.
// Mutates the live flag (and restores it), so it runs after everything that reads the table.
func emitRoundtrip(c *core.Ctx, r Row) {
	f := r.flag
	before := f.Value.String()
	val := strings.TrimPrefix(explicitArg(f), "--"+f.Name+"=")
	var errs, after string
	panicked, msg := core.Safe(func() {
		if err := f.Value.Set(val); err != nil {
			errs = err.Error()
		}
		after = f.Value.String()
	})
	if panicked {
		errs = "panic: " + msg
	}
	core.Safe(func() { f.Value.Set(strings.TrimSuffix(strings.TrimPrefix(before, "["), "]")) })
	if r.Type != "stringSlice" && r.Type != "intSlice" {
		core.Safe(func() { f.Value.Set(before) })
	}
	e := core.Escape
	c.Emit("C19.roundtrip", e(r.Path), e(r.Flag), e(r.Type), e(r.Def), e(errs), e(after))
}

// emitHelp: `gotree <path> --help` of the built binary against the values the variables hold.
func emitHelp(c *core.Ctx, table []Row, cc *cobra.Command) {
	byFlag := map[*pflag.Flag]Row{}
	for _, r := range table {
		byFlag[r.flag] = r
	}
	var fl, rowsets strings.Builder
	n := 0
	for _, f := range visibleFlags(cc) {
		r, ok := byFlag[f]
		if !ok || f.Hidden {
			continue
		}
		item := []string{r.Flag, r.Type, r.Cur, r.Path, r.Usage}
		// the rows the model resolves the name from: every definition of the name on the way up
		rs := []Row{r}
		for p := cc; p != nil; p = p.Parent() {
			if g := p.PersistentFlags().Lookup(f.Name); g != nil && g != f {
				item = append(item, g.Usage)
				if q, ok := byFlag[g]; ok {
					rs = append(rs, q)
				}
			}
		}
		fl.WriteString(core.StrList(item) + ";")
		rowsets.WriteString(encRows(rs) + "|")
		n++
	}
	if n == 0 {
		return
	}
	words := strings.Fields(cc.CommandPath())[1:]
	dir := filepath.Join(c.Tmp, fmt.Sprintf("c19help_%d", os.Getpid()))
	os.MkdirAll(dir, 0755)
	defer os.RemoveAll(dir)
	res := runIn(c, dir, "", 30*time.Second, append(words, "--help")...)
	exit := strconv.Itoa(res.Exit)
	if res.Timeout {
		exit = "timeout"
	}
	c.Emit("C19.help", core.Escape(cc.CommandPath()), exit, core.Escape(res.Stdout), fl.String(), rowsets.String())
}

func allCommands() []*cobra.Command {
	var out []*cobra.Command
	var walk func(c *cobra.Command)
	walk = func(c *cobra.Command) {
		out = append(out, c)
		subs := append([]*cobra.Command(nil), c.Commands()...)
		sort.SliceStable(subs, func(i, j int) bool { return subs[i].Name() < subs[j].Name() })
		for _, s := range subs {
			walk(s)
		}
	}
	walk(cmd.RootCmd)
	return out
}

// effects: a template that only adds options with non-default values to another one must give
// another outcome — otherwise the command does not read the variable the option sets (and then
// "omitted = explicit default" holds vacuously, whatever value the command really uses).
func effects(c *core.Ctx, r *runner, ts []tmpl, only string) {
	byName := map[string]tmpl{}
	for _, t := range ts {
		byName[t.Name] = t
	}
	e := core.Escape
	for _, t := range ts {
		if t.Base == "" || only != "" && t.Name != only {
			continue
		}
		b, ok := byName[t.Base]
		if !ok {
			panic("c19: template " + t.Name + ": unknown base " + t.Base)
		}
		ob := r.invoke(strings.Fields(b.Path), r.subst(b.Args), b.Stdin)
		ot := r.invoke(strings.Fields(t.Path), r.subst(t.Args), t.Stdin)
		c.Emit("C19.effect", e("gotree "+t.Path), t.Name, b.Name, core.StrList(t.Args), core.StrList(b.Args), e(ot), e(ob))
	}
}

// preRunCases: what the global options mean after parsing (Model/C19PreRun).
//
//	C19.format  path runs     runs: [args, formatValue ("" = omitted), inputKind, outcome] …
//	C19.seed    path runs     runs: [seedValue ("" = omitted), outcome of a first run, of a second run] …
//	C19.threads path maxcpus runs   runs: [threadsValue ("" = omitted), outcome] …
func preRunCases(c *core.Ctx, r *runner, only string) {
	e := core.Escape
	type fr struct {
		args  []string
		fv    string
		kind  string
		stdin string
	}
	formatSets := []struct {
		name, path string
		runs       []fr
	}{
		{"stats", "stats", []fr{
			{nil, "", "newick", "tree"},
			{[]string{"--format=newick"}, "newick", "newick", "tree"},
			{[]string{"--format=foo"}, "foo", "newick", "tree"},
			{[]string{"--format=NEXUS"}, "NEXUS", "newick", "tree"},
			{[]string{"--format=nexus"}, "nexus", "nexus", "treenexus"},
			{[]string{"--format=nexus"}, "nexus", "newick", "tree"},
			{nil, "", "nexus", "treenexus"},
			{[]string{"--format=foo"}, "foo", "nexus", "treenexus"},
			// omitted vs the documented default spelled out on an input that is NOT in the default format
			// (a reader that guesses the format when the option was not given would part ways here)
			{[]string{"--format=newick"}, "newick", "nexus", "treenexus"},
		}},
		// compute support has a PersistentPreRunE of its own, which must call the root's
		{"fbp", "compute support fbp", []fr{
			{[]string{"-b", "{trees}"}, "", "newick", "tree"},
			{[]string{"-b", "{trees}", "--format=newick"}, "newick", "newick", "tree"},
			{[]string{"-b", "{treesnexus}", "--format=nexus"}, "nexus", "nexus", "treenexus"},
			{[]string{"-b", "{treesnexus}"}, "", "nexus", "treenexus"},
			{[]string{"-b", "{treesnexus}", "--format=newick"}, "newick", "nexus", "treenexus"},
		}},
		// reformat --input-format is bound to the same variable as --format
		{"reformat", "reformat newick", []fr{
			{nil, "", "newick", "tree"},
			{[]string{"--input-format=newick"}, "newick", "newick", "tree"},
			{[]string{"-f", "nexus"}, "nexus", "nexus", "treenexus"},
			{[]string{"--format=nexus"}, "nexus", "nexus", "treenexus"},
			{[]string{"-f", "bar"}, "bar", "newick", "tree"},
			{nil, "", "nexus", "treenexus"},
			{[]string{"--input-format=newick"}, "newick", "nexus", "treenexus"},
			{[]string{"--format=newick"}, "newick", "nexus", "treenexus"},
		}},
	}
	for _, fs := range formatSets {
		if only != "" && only != "format/"+fs.name {
			continue
		}
		var b strings.Builder
		for _, x := range fs.runs {
			o := r.invoke(strings.Fields(fs.path), r.subst(x.args), x.stdin)
			b.WriteString(core.StrList([]string{strings.Join(x.args, " "), x.fv, x.kind, o}) + ";")
		}
		c.Emit("C19.format", e("gotree "+fs.path), fs.name, b.String())
	}
	seedSets := []struct{ name, path, stdin string }{
		{"gen-yule", "generate yuletree", ""},
		{"setrand", "brlen setrand", "tree"},
		// only commands that draw real numbers: two clock-seeded runs coincide with probability 0
		// (sample / shuffletips have few outcomes and would make the comparison a lottery)
		{"support-setrand", "support setrand", "tree"},
		{"gen-uniform", "generate uniformtree", ""},
	}
	for _, ss := range seedSets {
		if only != "" && only != "seed/"+ss.name {
			continue
		}
		var b strings.Builder
		for _, sv := range []string{"", "-1", "7", "0", "-2"} {
			var args []string
			if sv != "" {
				args = []string{"--seed=" + sv}
			}
			o1 := r.invoke(strings.Fields(ss.path), args, ss.stdin)
			time.Sleep(2 * time.Millisecond) // the clock seed is in nanoseconds; be generous
			o2 := r.invoke(strings.Fields(ss.path), args, ss.stdin)
			b.WriteString(core.StrList([]string{sv, o1, o2}) + ";")
		}
		c.Emit("C19.seed", e("gotree "+ss.path), ss.name, b.String())
	}
	if only == "" || only == "threads/compare-trees" {
		var b strings.Builder
		for _, tv := range []string{"", "1", "2", "20000"} {
			args := []string{"-c", "{trees}"}
			if tv != "" {
				args = append(args, "--threads="+tv)
			}
			o := r.invoke([]string{"compare", "trees"}, r.subst(args), "tree")
			b.WriteString(core.StrList([]string{tv, o}) + ";")
		}
		c.Emit("C19.threads", e("gotree compare trees"), "compare-trees", strconv.Itoa(runtime.NumCPU()), b.String())
	}
}

// generatedCases: the commands cobra itself adds at Execute() — `completion {bash,fish,powershell,zsh}`
// with their one option --no-descriptions (default false), and `help` (no option) — do not exist when the
// flag table is dumped (cobra 1.5 creates them in ExecuteC; initDefaultCompletionCmd is unexported), so they
// are no rows of table (a).  They are covered here, through the binary only: option omitted vs
// --no-descriptions=false, as ordinary C19.e2e lines.
func generatedCases(c *core.Ctx, r *runner, only string) {
	e := core.Escape
	for _, sh := range []string{"bash", "zsh", "fish", "powershell"} {
		name := "completion-" + sh
		if only != "" && only != name {
			continue
		}
		o0 := r.invoke([]string{"completion", sh}, nil, "")
		o1 := r.invoke([]string{"completion", sh}, []string{"--no-descriptions=false"}, "")
		c.Emit("C19.e2e", e("gotree completion "+sh), "no-descriptions", "bool", "false", name,
			core.StrList(nil), core.StrList([]string{"--no-descriptions=false"}), e(o0), e(o1), "true")
	}
}

// glueCases: what the anchored commands do with the value of their option (Model/C19Glue).
//
//	C19.glue  set  runs    runs: [value ("" = option omitted), outcome] …  (set-specific meaning, see the driver)
func glueCases(c *core.Ctx, r *runner, only string) {
	type gr struct {
		val   string
		words []string
		args  []string
		stdin string
	}
	ntrees := strconv.Itoa(strings.Count(r.in["trees"], "\n"))
	sets := []struct {
		name, extra string
		runs        []gr
	}{
		{"consensus", "", func() []gr {
			var out []gr
			for _, v := range []string{"", "0.5", "0.4", "0.49999", "0.75", "1", "1.01", "0", "-1"} {
				var a []string
				if v != "" {
					a = []string{"--freq-min=" + v}
				}
				out = append(out, gr{v, []string{"compute", "consensus"}, a, "trees"})
			}
			return out
		}()},
		{"divide", ntrees, []gr{
			{"", []string{"divide"}, nil, "trees"},
			{"prefix", []string{"divide"}, []string{"--output=prefix"}, "trees"},
			{"part", []string{"divide"}, []string{"-o", "part"}, "trees"},
			{"stdout", []string{"divide"}, []string{"-o", "stdout"}, "trees"},
		}},
		{"annotate", "", []gr{
			{"", []string{"annotate"}, []string{"-i", "{tree}"}, "named"},
			{"stdin", []string{"annotate"}, []string{"-i", "{tree}", "--compared=stdin"}, "named"},
			{"none", []string{"annotate"}, []string{"-i", "{tree}", "--compared=none"}, "named"},
			{"-", []string{"annotate"}, []string{"-i", "{tree}", "-c", "-"}, "named"},
		}},
		{"setmin", "", []gr{
			// zero and tiny lengths: a cut-off of 0 (the documented default) must leave them alone
			{"reformat", []string{"reformat", "newick"}, nil, "zerolen"},
			{"", []string{"brlen", "setmin"}, nil, "zerolen"},
			{"0", []string{"brlen", "setmin"}, []string{"--length=0"}, "zerolen"},
			{"-5", []string{"brlen", "setmin"}, []string{"-l", "-5"}, "zerolen"},
		}},
		{"comment-clear", "", []gr{
			{"", []string{"comment", "clear"}, nil, "commented"},
			{"false,false", []string{"comment", "clear"}, []string{"--edges-only=false", "--nodes-only=false"}, "commented"},
			{"true,true", []string{"comment", "clear"}, []string{"--edges-only", "--nodes-only"}, "commented"},
			{"true,false", []string{"comment", "clear"}, []string{"--edges-only"}, "commented"},
			{"false,true", []string{"comment", "clear"}, []string{"--nodes-only"}, "commented"},
		}},
		{"rename-length", "", func() []gr {
			var out []gr
			for _, v := range []string{"", "10", "3", "5", "0", "7"} {
				a := []string{"-a", "-m", "outmap.txt"}
				if v != "" {
					a = append(a, "--length="+v)
				}
				out = append(out, gr{v, []string{"rename"}, a, "tree"})
			}
			return out
		}()},
		{"topologies", "", []gr{
			{"", []string{"generate", "topologies"}, []string{"-i", "{otherunrooted}"}, ""},
			{"10", []string{"generate", "topologies"}, []string{"-i", "{otherunrooted}", "--nbtips=10"}, ""},
			{"4", []string{"generate", "topologies"}, []string{"-i", "{otherunrooted}", "-l", "4"}, ""},
			{"6", []string{"generate", "topologies"}, []string{"-i", "{otherunrooted}", "-l", "6"}, ""},
		}},
		{"merge", "", []gr{
			{"", []string{"merge"}, []string{"-i", "{rooted}"}, "other"},
			{"stdin", []string{"merge"}, []string{"-i", "{rooted}", "--compared=stdin"}, "other"},
			{"none", []string{"merge"}, []string{"-i", "{rooted}", "--compared=none"}, "other"},
		}},
	}
	for _, gs := range sets {
		if only != "" && only != gs.name {
			continue
		}
		var b strings.Builder
		for _, x := range gs.runs {
			o := r.invoke(x.words, r.subst(x.args), x.stdin)
			b.WriteString(core.StrList([]string{x.val, o}) + ";")
		}
		c.Emit("C19.glue", gs.name, gs.extra, b.String())
	}
}

// Replay re-executes request lines on the current code (recorded outputs are ignored).
//
//	C19.table                       the whole table
//	C19.order                       the table in the order the registrations ran (source order)
//	C19.reads <path> <goVar>        a command body reading an option variable it does not bind
//	C19.row <path> <flag>           one row
//	C19.e2e <path> <flag> <type> <DefValue> <template>   one end-to-end comparison (variant 0 inputs);
//	                                flag "*" = every option the template omits spelled out at once
//	C19.effect <path> <template>    a template with non-default options against its base template
//	C19.format|seed|threads <path> <set>   the global options after parsing
//	C19.glue <set>                  option glue of one anchored command
//	C19.sentinels                   table (g)
//	C19.env                         environment variables read by the command layer: set vs unset
//	C19.console <name>              a history of two commands in one console session
//	C19.fname <name>                the same text under input file names with various suffixes
//	C19.io <kind> <name>            what "stdout" / "stdin" mean for one command (kind out | in)
//	C19.help <path>                 help text of one command
//	C19.roundtrip <path> <flag>     Set(DefValue).String() of one flag
func Replay(c *core.Ctx, lines []string) {
	table := Table()
	var r *runner
	defer func() {
		if r != nil {
			r.close()
		}
	}()
	for _, l := range lines {
		f := strings.Split(l, "\t")
		un := func(i int) string {
			if i >= len(f) {
				return ""
			}
			s, err := core.Unescape(f[i])
			if err != nil {
				return f[i]
			}
			return s
		}
		switch f[0] {
		case "C19.table":
			emitTable(c, table)
		case "C19.order":
			emitOrder(c, table)
		case "C19.writes":
			emitWrites(c)
		case "C19.changed":
			emitChanged(c)
		case "C19.sentinels":
			emitSentinels(c)
		case "C19.io":
			if c.Gotree == "" || len(f) < 3 {
				continue
			}
			if r == nil {
				r = newRunner(c, 0)
			}
			ioCases(c, r, f[1]+"/"+f[2])
		case "C19.env":
			if c.Gotree == "" {
				continue
			}
			if r == nil {
				r = newRunner(c, 0)
			}
			envCases(c, r)
		case "C19.console":
			if c.Gotree == "" || len(f) < 2 {
				continue
			}
			if r == nil {
				r = newRunner(c, 0)
			}
			consoleCases(c, r, f[1])
		case "C19.fname":
			if c.Gotree == "" || len(f) < 2 {
				continue
			}
			if r == nil {
				r = newRunner(c, 0)
			}
			fnameCases(c, r, f[1])
		case "C19.reads":
			emitReads(c, table, un(1)+"/"+un(2))
		case "C19.row":
			i := findRow(table, un(1), un(2))
			if i < 0 {
				// the flag is gone: nothing to say about it (the table case covers what exists)
				fmt.Fprintf(os.Stderr, "c19: replay: no flag %s --%s in the current tree\n", un(1), un(2))
				continue
			}
			emitRow(c, table, i)
		case "C19.roundtrip":
			if i := findRow(table, un(1), un(2)); i >= 0 {
				emitRoundtrip(c, table[i])
			}
		case "C19.help":
			if c.Gotree == "" {
				continue
			}
			if cc := findCmd(strings.TrimPrefix(strings.TrimPrefix(un(1), "gotree"), " ")); cc != nil {
				emitHelp(c, table, cc)
			}
		case "C19.glue":
			if c.Gotree == "" {
				continue
			}
			if r == nil {
				r = newRunner(c, 0)
			}
			glueCases(c, r, f[1])
		case "C19.format", "C19.seed", "C19.threads":
			if c.Gotree == "" {
				continue
			}
			if r == nil {
				r = newRunner(c, 0)
			}
			preRunCases(c, r, strings.TrimPrefix(f[0], "C19.")+"/"+f[2])
		case "C19.effect":
			if c.Gotree == "" {
				continue
			}
			if r == nil {
				r = newRunner(c, 0)
			}
			effects(c, r, templates(), f[2])
		case "C19.e2e":
			if c.Gotree == "" {
				continue
			}
			if r == nil {
				r = newRunner(c, 0)
			}
			path, flag, name := strings.TrimPrefix(un(1), "gotree "), un(2), un(5)
			if strings.HasPrefix(name, "completion-") {
				generatedCases(c, r, name)
				continue
			}
			var ts []tmpl
			for _, t := range allTemplates() {
				if t.Path == path && (name == "" || t.Name == name) {
					ts = append(ts, t)
				}
			}
			if len(ts) == 0 {
				fmt.Fprintf(os.Stderr, "c19: replay: no template %q for %q\n", name, path)
				continue
			}
			e2e(c, r, ts, func(t tmpl, fl string) bool { return fl == flag })
		}
	}
}

// Run generates the cases of C19: the whole table (one case per row + one for the table), then
// the end-to-end comparisons.
func Run(c *core.Ctx) {
	if c.Arg == "debug-writes" {
		debugWrites(c.Repo)
		return
	}
	if c.Arg != "" && c.Arg != "race" {
		Replay(c, core.ReadRequests(c.Arg))
		return
	}
	table := Table()
	emitTable(c, table)
	emitOrder(c, table)
	emitWrites(c)
	emitChanged(c)
	emitSentinels(c)
	emitReads(c, table, "")
	for i := range table {
		emitRow(c, table, i)
	}
	if c.Gotree != "" {
		for _, cc := range allCommands() {
			emitHelp(c, table, cc)
		}
	}
	defer func() {
		for _, r := range table {
			emitRoundtrip(c, r)
		}
	}()
	if c.Gotree == "" {
		return
	}
	ts := allTemplates()
	// quick: the fixed inputs; thorough: the fixed inputs for seed shard 0 and drawn inputs otherwise
	variants := []int64{0}
	if !c.Quick() {
		variants = nil
		if c.Seed%1000 == 0 {
			variants = append(variants, 0)
		}
		for k := int64(1); k <= 4; k++ {
			variants = append(variants, c.Seed*7919+k)
		}
	}
	for _, v := range variants {
		r := newRunner(c, v)
		e2e(c, r, ts, nil)
		if v == 0 {
			effects(c, r, ts, "")
			preRunCases(c, r, "")
			glueCases(c, r, "")
			ioCases(c, r, "")
			fnameCases(c, r, "")
			consoleCases(c, r, "")
			envCases(c, r)
			generatedCases(c, r, "")
		}
		r.close()
	}
	reportCoverage(table, ts)
}

// reportCoverage tells (stderr) which runnable commands have no template.
func reportCoverage(table []Row, ts []tmpl) {
	have := map[string]bool{}
	for _, t := range ts {
		have[t.Path] = true
	}
	var missing []string
	var walk func(c *cobra.Command)
	walk = func(c *cobra.Command) {
		if c.Runnable() && c != cmd.RootCmd {
			p := strings.TrimPrefix(c.CommandPath(), "gotree ")
			if !have[p] {
				missing = append(missing, p)
			}
		}
		for _, s := range c.Commands() {
			walk(s)
		}
	}
	walk(cmd.RootCmd)
	sort.Strings(missing)
	fmt.Fprintf(os.Stderr, "c19: runnable commands without a template: %s\n", strings.Join(missing, "; "))
	// (command, flag) pairs that no template leaves out, i.e. that are never run with the option omitted
	omitted := map[string]bool{}
	all := map[string]bool{}
	for _, t := range ts {
		cc := findCmd(t.Path)
		if cc == nil {
			continue
		}
		g := given(cc, t.Args)
		for _, f := range visibleFlags(cc) {
			k := t.Path + " --" + f.Name
			all[k] = true
			if !g[f.Name] && (t.Minus == "" || t.Minus == f.Name) {
				omitted[k] = true
			}
		}
	}
	var never []string
	for k := range all {
		if !omitted[k] {
			never = append(never, k)
		}
	}
	sort.Strings(never)
	fmt.Fprintf(os.Stderr, "c19: (command, flag) pairs never run with the option omitted: %s\n", strings.Join(never, "; "))
}
