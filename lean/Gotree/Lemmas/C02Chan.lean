/-
  C02 — the channel between the reader goroutine and its consumer.
-/
import Gotree.Model.C02Chan
namespace Gotree.C02.Chan

variable {α : Type}

/-- what has been and will be transmitted, in order: constant along every run -/
def content (s : Sys α) : List α := s.got ++ s.buf ++ s.toSend

theorem stepP_content (closes : Bool) (s s' : Sys α) (h : stepP closes s = some s') : content s' = content s := by
  unfold stepP at h
  split at h
  · rename_i x r hs
    split at h
    · cases h; simp [content, hs]
    · cases h
  · split at h
    · cases h; simp [content]
    · cases h

theorem stepC_content (s s' : Sys α) (h : stepC s = some s') : content s' = content s := by
  unfold stepC at h
  split at h
  · rename_i x b hb; cases h; simp [content, hb]
  · cases h

theorem step_content (closes : Bool) (a : Actor) (s s' : Sys α) (h : step closes a s = some s') : content s' = content s := by
  cases a with
  | producer => exact stepP_content closes s s' h
  | consumer => exact stepC_content s s' h

theorem stepP_mu (closes : Bool) (s s' : Sys α) (h : stepP closes s = some s') : mu s' < mu s := by
  unfold stepP at h
  split at h
  · rename_i x r hs
    split at h
    · cases h; simp [mu, hs]; omega
    · cases h
  · split at h
    · rename_i hc; cases h
      have : s.closed = false := by simp at hc; exact hc.1
      simp [mu, this]
    · cases h

theorem stepC_mu (s s' : Sys α) (h : stepC s = some s') : mu s' < mu s := by
  unfold stepC at h
  split at h
  · rename_i x b hb; cases h; simp [mu, hb]
  · cases h

theorem step_mu (closes : Bool) (a : Actor) (s s' : Sys α) (h : step closes a s = some s') : mu s' < mu s := by
  cases a with
  | producer => exact stepP_mu closes s s' h
  | consumer => exact stepC_mu s s' h

/-- no deadlock in the current code: unless the range has ended, one of the two goroutines can move -/
theorem progress (s : Sys α) (h : done s = false) :
    (step true .producer s).isSome = true ∨ (step true .consumer s).isSome = true := by
  simp only [step, stepP, stepC]
  cases hs : s.toSend with
  | cons x r =>
    simp only
    by_cases hb : s.buf.length < cap
    · left; simp [hb]
    · right
      cases hbuf : s.buf with
      | nil => simp [hbuf, cap] at hb
      | cons y b => simp
  | nil =>
    simp only
    cases hc : s.closed with
    | false => left; simp
    | true =>
      right
      cases hbuf : s.buf with
      | nil => simp [done, hs, hbuf, hc] at h
      | cons y b => simp

theorem run_content (closes : Bool) (sched : List Actor) : ∀ s : Sys α, content (run closes sched s) = content s := by
  induction sched with
  | nil => intro s; rfl
  | cons a r ih =>
    intro s
    unfold run
    split
    · rename_i s' h; rw [ih s', step_content closes a s s' h]
    · exact ih s

theorem run_mu_le (closes : Bool) (sched : List Actor) : ∀ s : Sys α, mu (run closes sched s) ≤ mu s := by
  induction sched with
  | nil => intro s; exact Nat.le_refl _
  | cons a r ih =>
    intro s
    unfold run
    split
    · rename_i s' h; have := step_mu closes a s s' h; have := ih s'; omega
    · exact ih s

theorem done_step_none (a : Actor) (s : Sys α) (h : done s = true) : step true a s = none := by
  simp [done] at h
  obtain ⟨⟨h1, h2⟩, h3⟩ := h
  cases a <;> simp [step, stepP, stepC, h1, h2, h3]

/-- a fair tail as long as the measure finishes the run -/
theorem roundRobin_done : ∀ (n : Nat) (s : Sys α), mu s ≤ n → done (run true (roundRobin n) s) = true := by
  intro n
  induction n with
  | zero =>
    intro s h
    have h0 : mu s = 0 := by omega
    simp only [roundRobin, run]
    unfold mu at h0
    have hc : s.closed = true := by
      cases hc : s.closed <;> simp [hc] at h0 ⊢
    simp [hc] at h0
    have h1 : s.toSend = [] := by
      cases ht : s.toSend with
      | nil => rfl
      | cons x r => rw [ht] at h0; simp at h0
    simp [done, h1, h0.2, hc]
  | succ k ih =>
    intro s h
    by_cases hd : done s = true
    · -- already done: nothing moves any more
      simp only [roundRobin, run, done_step_none _ s hd]
      exact ih s (by
        have : mu s = 0 := by
          simp [done] at hd; simp [mu, hd.1.1, hd.1.2, hd.2]
        omega)
    · have hd' : done s = false := by cases h' : done s <;> simp_all
      simp only [roundRobin, run]
      rcases progress s hd' with hp | hc
      · -- the producer moves
        cases hps : step true .producer s with
        | none => rw [hps] at hp; simp at hp
        | some s1 =>
          have m1 := step_mu true .producer s s1 hps
          simp only
          cases hcs : step true .consumer s1 with
          | none => exact ih s1 (by omega)
          | some s2 =>
            have m2 := step_mu true .consumer s1 s2 hcs
            exact ih s2 (by omega)
      · cases hps : step true .producer s with
        | some s1 =>
          have m1 := step_mu true .producer s s1 hps
          simp only
          cases hcs : step true .consumer s1 with
          | none => exact ih s1 (by omega)
          | some s2 =>
            have m2 := step_mu true .consumer s1 s2 hcs
            exact ih s2 (by omega)
        | none =>
          simp only
          cases hcs : step true .consumer s with
          | none => rw [hcs] at hc; simp at hc
          | some s2 =>
            have m2 := step_mu true .consumer s s2 hcs
            exact ih s2 (by omega)

/-- whatever the schedule, the consumer's range ends and it has received exactly the records, in order -/
theorem simulate_correct (sched : List Actor) (recs : List α) :
    done (simulate sched recs) = true ∧ (simulate sched recs).got = recs := by
  unfold simulate
  simp only
  have hd := roundRobin_done (mu (run true sched (init recs))) (run true sched (init recs)) (Nat.le_refl _)
  refine ⟨hd, ?_⟩
  have hc : content (run true (roundRobin (mu (run true sched (init recs)))) (run true sched (init recs))) = recs := by
    rw [run_content, run_content]; simp [content, init]
  simp [done] at hd
  simpa [content, hd.1.1, hd.1.2] using hc

/-- the variant that returns without closing: once everything is received nobody can move, and the
    consumer's range has not ended — it blocks for ever -/
theorem no_close_deadlocks (recs : List α) (sched : List Actor) :
    done (run false sched (init recs)) = false := by
  have : ∀ (sched : List Actor) (s : Sys α), s.closed = false → (run false sched s).closed = false := by
    intro sched
    induction sched with
    | nil => intro s h; exact h
    | cons a r ih =>
      intro s h
      unfold run
      split
      · rename_i s' hs
        apply ih
        cases a with
        | producer =>
          simp only [step, stepP] at hs
          split at hs
          · split at hs
            · cases hs; exact h
            · cases hs
          · simp at hs
        | consumer =>
          simp only [step, stepC] at hs
          split at hs
          · cases hs; exact h
          · cases hs
      · exact ih s h
  have hc := this sched (init recs) rfl
  simp [done, hc]

end Gotree.C02.Chan
