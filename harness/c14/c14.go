// Package c14: distance matrices and length-threshold clusters.
//
// Library ops (real code: tree.ToDistanceMatrix, tree.AvgDistanceMatrix, tree.CutEdgesMaxLength):
//
//	C14.matrix  metric  dump            | tips  matrix
//	C14.avg     metric  dump|dump|…     | ok/err/panic:…  tips  matrix
//	C14.cut     thr     dump            | ok/err/panic:…  bags (Go's bag order, each bag as Tips() lists it)
//
// CLI ops (real binary: cmd/matrix.go, cmd/brlencut.go; see cli.go):
//
//	C14.climatrix  -m value  avg  outmode  dumps|!|…/NOFILE | exit  bytes written
//	C14.clicut     omit|v:value  outmode  dumps/NOFILE      | exit  bytes written
package c14

import (
	"fmt"
	"strconv"
	"strings"

	"verifharness/core"

	"github.com/evolbioinfo/gotree/tree"
)

var metricNames = []string{"brlen", "boots", "none"}

func names(ns []*tree.Node) []string {
	out := make([]string, len(ns))
	for i, n := range ns {
		out[i] = n.Name()
	}
	return out
}

func metricName(metric int) string {
	if metric >= 0 && metric < 3 {
		return metricNames[metric]
	}
	return fmt.Sprintf("int:%d", metric)
}

func metricIndex(s string) int {
	for i, m := range metricNames {
		if m == s {
			return i
		}
	}
	if strings.HasPrefix(s, "int:") {
		n, _ := strconv.Atoi(s[4:])
		return n
	}
	return 0
}

func opts(g *core.G) core.TreeOpts {
	o := core.DefaultOpts()
	o.Lengths = 2
	o.Supports = 2
	if g.Chance(0.2) {
		o.Singles = 0.15
	}
	if g.Chance(0.1) {
		o.MinTips, o.MaxTips = 2, 3
	}
	if g.Chance(0.05) {
		o.MinTips, o.MaxTips = 13, 30 // beyond the insertion-sort region of sort.Slice
	}
	if g.Chance(0.08) {
		o.Supports = 0 // no support anywhere: the boot metric counts 1 per branch
	}
	if g.Chance(0.08) {
		o.Lengths = 0 // no length anywhere
	}
	if g.Chance(0.06) {
		o.LenDenom = 10 // decimal lengths (0.1, 0.7 …): float64 sums round, the oracle allows one rounding per addition
	}
	return o
}

// ---- degenerate shapes -------------------------------------------------------------------------------------

// rootAtTip re-presents the tree with one of the root's leaf children as the root: a root
// with a single neighbour that is itself a tip (what `Reroot` on a tip's branch, `UnRoot` on a
// cherry or reading "(a,(b,c));" rooted at a leaf produce).  Returns n unchanged when the root
// has no leaf child or would leave a single-child inner node.
func rootAtTip(g *core.G, n *core.N) *core.N {
	if len(n.Kids) < 3 {
		return n
	}
	var idx []int
	for i, k := range n.Kids {
		if len(k.Kids) == 0 {
			idx = append(idx, i)
		}
	}
	if len(idx) == 0 {
		return n
	}
	i := idx[g.Intn(len(idx))]
	leaf := n.Kids[i]
	inner := &core.N{Name: n.Name, Comments: n.Comments, PPos: g.Intn(len(n.Kids)), E: leaf.E}
	inner.Kids = append(inner.Kids, n.Kids[:i]...)
	inner.Kids = append(inner.Kids, n.Kids[i+1:]...)
	return &core.N{Name: leaf.Name, Comments: leaf.Comments, Kids: []*core.N{inner}}
}

func leavesOf(n *core.N) []*core.N {
	var out []*core.N
	var rec func(x *core.N, root bool)
	rec = func(x *core.N, root bool) {
		if len(x.Kids) == 0 && !root {
			out = append(out, x)
		}
		for _, k := range x.Kids {
			rec(k, false)
		}
	}
	rec(n, true)
	return out
}

var lookalikes = []string{"1", "01", "001", "10", "1.0", "1e0", "2", "02", "+1", "1 "}

// degenerate applies, with small probabilities, the shapes DESIGN Appendix C and ROUND2 name:
// tip root, two tips (also as a single branch between two tips), duplicate names, look-alike
// names, shuffled parent positions, supports on tip branches.  cli = the tree must survive Newick.
func degenerate(g *core.G, n *core.N, cli bool) *core.N {
	switch r := g.Intn(100); {
	case r < 12:
		n = rootAtTip(g, n)
	case r < 15: // one branch joining two tips: the root is a tip, so is its only neighbour
		e := core.NewE()
		e.Len = float64(g.Intn(20)) / 8
		n = &core.N{Name: "ta", Kids: []*core.N{{Name: "tb", E: e}}}
	case r < 18: // a tip root above a cherry
		e, e1, e2 := core.NewE(), core.NewE(), core.NewE()
		e.Len, e1.Len, e2.Len = float64(g.Intn(20))/8, float64(g.Intn(20))/8, -1
		n = &core.N{Name: "t0", Kids: []*core.N{{E: e, Kids: []*core.N{{Name: "t1", E: e1}, {Name: "t2", E: e2}}}}}
	}
	lv := leavesOf(n)
	if len(lv) >= 2 {
		switch r := g.Intn(100); {
		case r < 6: // duplicate tip name (outside the quantifier: the driver only ties)
			a, b := g.Intn(len(lv)), g.Intn(len(lv))
			if a != b {
				lv[a].Name = lv[b].Name
			}
		case r < 16: // look-alike names
			perm := g.R.Perm(len(lookalikes))
			for i, l := range lv {
				if i < len(perm) && g.Chance(0.7) {
					nm := lookalikes[perm[i]]
					if cli {
						nm = strings.TrimSpace(strings.TrimPrefix(nm, "+"))
						if nm == "1" && i > 0 {
							nm = "100"
						}
					}
					l.Name = nm
				}
			}
			// keep the names unique
			seen := map[string]bool{}
			for i, l := range leavesOf(n) {
				if seen[l.Name] {
					l.Name = fmt.Sprintf("%s_%d", l.Name, i)
				}
				seen[l.Name] = true
			}
			if len(n.Kids) == 1 && seen[n.Name] {
				n.Name = n.Name + "_r"
			}
		}
	}
	if !cli && g.Chance(0.2) {
		// parent positions: where the parent sits in neigh (the walks skip it wherever it is)
		var rec func(x *core.N, root bool)
		rec = func(x *core.N, root bool) {
			if !root && len(x.Kids) > 0 {
				x.PPos = g.Intn(len(x.Kids) + 1)
			}
			for _, k := range x.Kids {
				rec(k, false)
			}
		}
		rec(n, true)
	}
	if !cli && g.Chance(0.1) {
		for _, l := range lv {
			if g.Chance(0.5) {
				l.E.Sup = float64(g.Intn(17)) / 16 // a support on a tip branch: the boot metric reads it
			}
		}
	}
	return n
}

// ---- replay ------------------------------------------------------------------------------------------------

// Replay re-executes the requests of a corpus / replay file on the real code.
func Replay(c *core.Ctx, lines []string) {
	for _, l := range lines {
		f := strings.Split(l, "\t")
		if replayRound7(c, f) {
			continue
		}
		switch {
		case f[0] == "C14.matrix" && len(f) >= 3:
			n, err := core.ParseDump(f[2])
			if err != nil {
				panic(err)
			}
			doMatrix(c, metricIndex(f[1]), n)
		case f[0] == "C14.cut" && len(f) >= 3:
			n, err := core.ParseDump(f[2])
			if err != nil {
				panic(err)
			}
			thr, _ := core.ParseRat(f[1])
			doCut(c, thr, n)
		case f[0] == "C14.avg" && len(f) >= 3:
			var ns []*core.N
			for _, d := range strings.Split(strings.TrimSuffix(f[2], "|"), "|") {
				if d == "" {
					continue
				}
				n, err := core.ParseDump(d)
				if err != nil {
					panic(err)
				}
				ns = append(ns, n)
			}
			doAvg(c, metricIndex(f[1]), ns)
		case f[0] == "C14.avgids" && len(f) >= 4:
			var ns []*core.N
			for _, d := range strings.Split(strings.TrimSuffix(f[2], "|"), "|") {
				if d == "" {
					continue
				}
				n, err := core.ParseDump(d)
				if err != nil {
					panic(err)
				}
				ns = append(ns, n)
			}
			ids := []int{}
			for _, x := range strings.Split(strings.TrimSuffix(f[3], ","), ",") {
				if x == "" {
					continue
				}
				v, _ := strconv.Atoi(x)
				ids = append(ids, v)
			}
			for len(ids) < len(ns) {
				ids = append(ids, 0)
			}
			doAvgIds(c, metricIndex(f[1]), ns, ids)
		case f[0] == "C14.hmatrix" && len(f) >= 4:
			n, err := core.ParseDump(f[2])
			if err != nil {
				panic(err)
			}
			hs, _ := strconv.ParseInt(f[3], 10, 64)
			doHMatrix(c, metricIndex(f[1]), n, hs)
		case f[0] == "C14.hcut" && len(f) >= 4:
			n, err := core.ParseDump(f[2])
			if err != nil {
				panic(err)
			}
			thr, _ := core.ParseRat(f[1])
			hs, _ := strconv.ParseInt(f[3], 10, 64)
			doHCut(c, thr, n, hs)
		case f[0] == "C14.havg" && len(f) >= 4:
			var ns []*core.N
			for _, d := range strings.Split(strings.TrimSuffix(f[2], "|"), "|") {
				if d == "" {
					continue
				}
				n, err := core.ParseDump(d)
				if err != nil {
					panic(err)
				}
				ns = append(ns, n)
			}
			hs, _ := strconv.ParseInt(f[3], 10, 64)
			doHAvg(c, metricIndex(f[1]), ns, hs)
		case f[0] == "C14.climatrix" && len(f) >= 5:
			if c.Gotree == "" {
				continue
			}
			mflag, _ := core.Unescape(f[1])
			doCliMatrix(c, mflag, f[2] == "1", f[3], textOfDumps(f[4]), strings.HasPrefix(f[4], "NOFILE"))
		case f[0] == "C14.clicut" && len(f) >= 4:
			if c.Gotree == "" {
				continue
			}
			lflag, _ := core.Unescape(f[1])
			doCliCut(c, lflag, f[2], textOfDumps(f[3]), strings.HasPrefix(f[3], "NOFILE"))
		}
	}
}

// Run generates the cases of C14.
func Run(c *core.Ctx) {
	if c.Arg != "" {
		Replay(c, core.ReadRequests(c.Arg))
		return
	}
	n := c.Scale(1800, 30000)
	for i := 0; i < n; i++ {
		switch {
		case i%3 == 0:
			matrixCase(c)
		case i%3 == 1:
			cutCase(c)
		default:
			avgCase(c)
		}
	}
	smallCutOrders(c, !c.Quick())
	round7Cases(c)
	if c.Gotree != "" {
		m := c.Scale(300, 5000)
		for i := 0; i < m; i++ {
			if i%2 == 0 {
				cliMatrixCase(c)
			} else {
				cliCutCase(c)
			}
		}
	}
}

// ---- library ops -------------------------------------------------------------------------------------------

func matrixCase(c *core.Ctx) {
	n, _ := c.G.Tree(opts(c.G))
	n = degenerate(c.G, n, false)
	metric := c.G.Intn(3)
	if c.G.Chance(0.06) {
		metric = []int{3, -1, 7, 100}[c.G.Intn(4)] // "all other values will be considered as BRLEN"
	}
	if c.G.Chance(0.25) {
		doHMatrix(c, metric, n, int64(c.G.Intn(1<<30)))
		return
	}
	doMatrix(c, metric, n)
}

func doMatrix(c *core.Ctx, metric int, n *core.N) {
	t, err := core.Build(n)
	if err != nil {
		panic(err)
	}
	var mat [][]float64
	var tips []*tree.Node
	if p, msg := core.Safe(func() { mat, tips = t.ToDistanceMatrix(metric) }); p {
		c.Emit("C14.matrix", metricName(metric), n.Dump(), "PANIC,"+core.Escape(msg)+",", "")
		return
	}
	c.Emit("C14.matrix", metricName(metric), n.Dump(), core.StrList(names(tips)), core.RatMatrix(mat))
}

func avgCase(c *core.Ctx) {
	o := opts(c.G)
	o.MinTips = 3
	if o.MaxTips < o.MinTips {
		o.MaxTips = o.MinTips
	}
	if o.MaxTips > 12 {
		o.MinTips, o.MaxTips = 3, 12
	}
	k := 1 + c.G.Intn(5)
	if c.G.Chance(0.04) {
		k = 0
	}
	var ns []*core.N
	if k > 0 {
		first, _ := c.G.Tree(o)
		if c.G.Chance(0.15) {
			first = rootAtTip(c.G, first)
		}
		ns = append(ns, first)
		ntips := len(first.TipNames())
		mismatch := c.G.Chance(0.15)
		for i := 1; i < k; i++ {
			o2 := o
			o2.MinTips, o2.MaxTips = ntips, ntips
			kind := c.G.Intn(3) // how the odd tree differs: every name / one name / the number of tips
			if mismatch && i == k-1 {
				switch {
				case kind == 0:
					o2.TipPrefix = "u"
				case kind == 2 && ntips > 3 && c.G.Chance(0.5):
					o2.MinTips, o2.MaxTips = ntips-1, ntips-1
				case kind == 2:
					o2.MinTips, o2.MaxTips = ntips+1, ntips+1
				}
			}
			x, _ := c.G.Tree(o2)
			if c.G.Chance(0.15) {
				x = rootAtTip(c.G, x)
			}
			if mismatch && i == k-1 && kind == 1 {
				// same number of tips, ONE taxon differs; its name sorts last, first or in the middle
				lv := leavesOf(x)
				l := lv[c.G.Intn(len(lv))]
				l.Name = []string{"zz", "a", l.Name + "x"}[c.G.Intn(3)]
			}
			ns = append(ns, x)
		}
		if mismatch && k >= 2 && c.G.Chance(0.3) {
			// the odd tree in the middle, not last
			j := 1 + c.G.Intn(k-1)
			ns[j], ns[k-1] = ns[k-1], ns[j]
		}
	}
	metric := c.G.Intn(3)
	if c.G.Chance(0.2) {
		doHAvg(c, metric, ns, int64(c.G.Intn(1<<30)))
		return
	}
	doAvgIds(c, metric, ns, drawIds(c.G, len(ns)))
}

// drawIds: the Id field of the channel records.  ReadMultiTrees numbers 0..n-1, a hand-built channel
// need not: all zero (unset), starting elsewhere, with gaps, descending, arbitrary.  The average must
// not depend on them (theorem avg_ignores_ids).  nil = 0..n-1.
func drawIds(g *core.G, n int) []int {
	ids := make([]int, n)
	switch g.Intn(7) {
	case 0, 1:
		return nil
	case 2: // unset
	case 3:
		for i := range ids {
			ids[i] = 5 + i
		}
	case 4:
		for i := range ids {
			ids[i] = 3 * i
		}
	case 5:
		for i := range ids {
			ids[i] = n - 1 - i
		}
	default:
		for i := range ids {
			ids[i] = g.Intn(20) - 5
		}
	}
	return ids
}

func doAvg(c *core.Ctx, metric int, ns []*core.N) { doAvgIds(c, metric, ns, nil) }

// doAvgIds: ids == nil means 0..n-1 and the op C14.avg; otherwise the op C14.avgids carries them
func doAvgIds(c *core.Ctx, metric int, ns []*core.N, ids []int) {
	op := "C14.avg"
	pre := []string{metricName(metric), core.Dumps(ns)}
	if ids != nil {
		op = "C14.avgids"
		pre = append(pre, core.IntList(ids))
	}
	emit := func(rest ...string) { c.Emit(op, append(append([]string{}, pre...), rest...)...) }
	ch := make(chan tree.Trees, len(ns)+1)
	for i, n := range ns {
		t, err := core.Build(n)
		if err != nil {
			panic(err)
		}
		id := i
		if ids != nil {
			id = ids[i]
		}
		ch <- tree.Trees{Tree: t, Id: id}
	}
	close(ch)
	var mat [][]float64
	var tips []*tree.Node
	var err error
	if p, msg := core.Safe(func() { mat, tips, err = tree.AvgDistanceMatrix(metric, ch) }); p {
		emit("panic:"+core.Escape(msg), "", "")
		return
	}
	if err != nil {
		emit("err", "", "")
		return
	}
	emit("ok", core.StrList(names(tips)), core.RatMatrix(mat))
}

// threshold drawn from the values present (ties), in between, or one of the special values
func drawThreshold(g *core.G, n *core.N, o core.TreeOpts) float64 {
	var lens []float64
	var rec func(x *core.N)
	rec = func(x *core.N) {
		for _, k := range x.Kids {
			if k.E.Len >= 0 {
				lens = append(lens, k.E.Len)
			}
			rec(k)
		}
	}
	rec(n)
	thr := float64(g.Intn(o.LenMax)) / float64(o.LenDenom)
	if len(lens) > 0 && g.Chance(0.6) {
		thr = lens[g.Intn(len(lens))]
		if g.Chance(0.3) {
			thr += 1.0 / 16
		}
	}
	if g.Chance(0.06) {
		thr = []float64{0, -1, -0.5, 1000}[g.Intn(4)] // 0: zero lengths are long, absent ones short; -1: absent ones long too
	}
	return thr
}

func cutCase(c *core.Ctx) {
	o := opts(c.G)
	if o.Lengths == 0 && c.G.Chance(0.5) {
		o.Lengths = 2
	}
	n, _ := c.G.Tree(o)
	n = degenerate(c.G, n, false)
	if c.G.Chance(0.2) {
		doHCut(c, drawThreshold(c.G, n, o), n, int64(c.G.Intn(1<<30)))
		return
	}
	doCut(c, drawThreshold(c.G, n, o), n)
}

func doCut(c *core.Ctx, thr float64, n *core.N) {
	t, err := core.Build(n)
	if err != nil {
		panic(err)
	}
	var bags []*tree.TipBag
	if p, msg := core.Safe(func() { bags, err = t.CutEdgesMaxLength(thr) }); p {
		c.Emit("C14.cut", core.Rat(thr), n.Dump(), "panic:"+core.Escape(msg), "")
		return
	}
	if err != nil {
		c.Emit("C14.cut", core.Rat(thr), n.Dump(), "err", "")
		return
	}
	var out [][]string
	for _, b := range bags {
		nm := names(b.Tips())
		if len(nm) != b.Size() {
			nm = append(nm, fmt.Sprintf("SIZE=%d", b.Size()))
		}
		out = append(out, nm)
	}
	c.Emit("C14.cut", core.Rat(thr), n.Dump(), "ok", core.StrLists(out))
}
