// Package c11: threaded computations are schedule-independent, race-free and terminate.
//
// The runner executes the REAL worker pools (tree.Compare, tree.CompareWeighted, support.FBP,
// support.TBE, and the `gotree compare trees -t` / `gotree compute support … -t` commands) with
// thread counts 1,2,4,16 and more threads than trees, with an erroneous or taxon-mismatched tree
// at every position of the stream.  Every library call runs in a child process (this binary
// re-executed with `-arg child:<file>`) under a wall-clock watchdog: a hang is the outcome
// `timeout`, a death of the process `crash:…`; the child's stderr is scanned for the race
// detector's reports (binary built with -race in the thorough tier).
//
// Request line (also the format of corpus / replay files):
//
//	C11.pool <TAB> kind <TAB> threads <TAB> flags <TAB> ref dump <TAB> items
//
// kind: compare | weighted | fbp | tbe | clicompare | cliweighted | clifbp | clitbe;
// flags: letters, t = tips included, b = --binary (identical only), a = TBE moved-taxa statistics;
// items: each item followed by "|": an α dump, or "!err" (an item carrying an error, no tree).
// The case line adds: outcome, records, outcome of the single-thread run, its records, race
// report, number of items the workers had taken before the consumer read its first result.
package c11

import (
	"bufio"
	"bytes"
	"errors"
	"fmt"
	"io"
	"os"
	"os/exec"
	"path/filepath"
	"runtime"
	"sort"
	"strconv"
	"strings"
	"sync"
	"sync/atomic"
	"time"

	"verifharness/core"

	"github.com/evolbioinfo/gotree/hashmap"
	"github.com/evolbioinfo/gotree/io/newick"
	"github.com/evolbioinfo/gotree/support"
	"github.com/evolbioinfo/gotree/tree"
)

type request struct {
	Kind    string
	Threads int
	Flags   string
	Ref     string
	Items   []string
}

type result struct {
	Outcome string
	Records string
	Race    string
	Took    int
	Order   string // per-item pools: the tree ids in the order the caller received the records
	Prog    int    // fbp, tbe: Supporter.Progress() after the call, +1 (0 = not observed)
}

func (r request) fields() []string {
	var b strings.Builder
	for _, it := range r.Items {
		b.WriteString(it)
		b.WriteByte('|')
	}
	return []string{r.Kind, strconv.Itoa(r.Threads), r.Flags, r.Ref, b.String()}
}

func (r request) op() string {
	if r.Kind == "hashmap" {
		return "C11.hm"
	}
	if r.Kind == "hmseq" {
		return "C11.hmseq"
	}
	return "C11.pool"
}

func (r request) line() string { return r.op() + "\t" + strings.Join(r.fields(), "\t") }

func parseRequest(l string) (request, error) {
	f := strings.Split(l, "\t")
	if len(f) < 6 || (f[0] != "C11.pool" && f[0] != "C11.hm" && f[0] != "C11.hmseq") {
		return request{}, fmt.Errorf("not a C11 request: %q", l)
	}
	th, err := strconv.Atoi(f[2])
	if err != nil {
		return request{}, err
	}
	var items []string
	if f[5] != "" {
		items = strings.Split(strings.TrimSuffix(f[5], "|"), "|")
	}
	return request{Kind: f[1], Threads: th, Flags: f[3], Ref: f[4], Items: items}, nil
}

func (r request) has(c byte) bool { return strings.IndexByte(r.Flags, c) >= 0 }
func (r request) cli() bool       { return strings.HasPrefix(r.Kind, "cli") }

// ---------------------------------------------------------------------------------------------
// child: runs the real library code
// ---------------------------------------------------------------------------------------------

func errClass(e error) string {
	if e == nil {
		return ""
	}
	m := e.Error()
	switch {
	case strings.Contains(m, "verif: injected"):
		return "item"
	case strings.Contains(m, "same tip names"), strings.Contains(m, "same number of tips"):
		return "taxa"
	case strings.Contains(m, "several tips have the same name"):
		return "dup"
	}
	return "other" // an error all the same: the oracle only asks for one, the classes serve the tie
}

var errInjected = errors.New("verif: injected erroneous tree")

func buildItems(r request) ([]tree.Trees, error) {
	out := make([]tree.Trees, len(r.Items))
	for i, it := range r.Items {
		if it == "!err" {
			out[i] = tree.Trees{Tree: nil, Id: i, Err: errInjected}
			continue
		}
		n, err := core.ParseDump(it)
		if err != nil {
			return nil, err
		}
		t, err := core.Build(n)
		if err != nil {
			return nil, err
		}
		out[i] = tree.Trees{Tree: t, Id: i}
	}
	return out, nil
}

func buildRef(r request) (*tree.Tree, error) {
	n, err := core.ParseDump(r.Ref)
	if err != nil {
		return nil, err
	}
	return core.Build(n)
}

// feed sends the items on an unbuffered channel and counts the completed sends: with an
// unbuffered result channel and a consumer that waits, the count settles at the number of
// workers that took an item.
func feed(items []tree.Trees, sent *int32) <-chan tree.Trees {
	ch := make(chan tree.Trees)
	go func() {
		for _, it := range items {
			ch <- it
			atomic.AddInt32(sent, 1)
		}
		close(ch)
	}()
	return ch
}

func settle(sent *int32, n int) int {
	last := atomic.LoadInt32(sent)
	stable := 0
	for i := 0; i < 40 && stable < 3; i++ {
		time.Sleep(150 * time.Microsecond)
		cur := atomic.LoadInt32(sent)
		if cur == last {
			stable++
		} else {
			stable = 0
			last = cur
		}
		if int(cur) == n {
			break
		}
	}
	return int(atomic.LoadInt32(sent))
}

func sortedRats(l []float64) string {
	c := append([]float64(nil), l...)
	sort.Float64s(c)
	return core.RatList(c)
}

func supports(t *tree.Tree) string {
	var l []float64
	for _, e := range t.Edges() {
		l = append(l, e.Support())
	}
	return core.RatList(l)
}

// runLib executes one request on the real library.
func runLib(c *core.Ctx, r request) (res result) {
	res.Took = -1
	if r.Kind == "hashmap" {
		return runHashMap(r)
	}
	if r.Kind == "hmseq" {
		return runHashMapSeq(r)
	}
	ref, err := buildRef(r)
	if err != nil {
		return result{Outcome: "crash:" + core.Escape("harness: "+err.Error())}
	}
	items, err := buildItems(r)
	if err != nil {
		return result{Outcome: "crash:" + core.Escape("harness: "+err.Error())}
	}
	var sent int32
	switch r.Kind {
	case "compare":
		stats, err := tree.Compare(ref, feed(items, &sent), r.has('t'), r.has('b'), r.Threads)
		if err != nil {
			return result{Outcome: "err:" + errClass(err), Took: -1}
		}
		res.Took = settle(&sent, len(items))
		type rec struct {
			id int
			s  string
		}
		var recs []rec
		var order []int
		for st := range stats {
			order = append(order, st.Id)
			recs = append(recs, rec{st.Id, fmt.Sprintf("%d:%d:%d:%d:%v:%s;", st.Id, st.Tree1, st.Tree2, st.Common, st.Sametree, errClass(st.Err))})
		}
		res.Order = core.IntList(order)
		sort.SliceStable(recs, func(i, j int) bool { return recs[i].id < recs[j].id })
		var b strings.Builder
		for _, x := range recs {
			b.WriteString(x.s)
		}
		res.Outcome, res.Records = "ok", b.String()
	case "weighted":
		stats, err := tree.CompareWeighted(ref, feed(items, &sent), r.has('t'), r.has('b'), r.Threads)
		if err != nil {
			return result{Outcome: "err:" + errClass(err), Took: -1}
		}
		res.Took = settle(&sent, len(items))
		type rec struct {
			id int
			s  string
		}
		var recs []rec
		// the consumer keeps what it receives and reads it when the channel is closed: a record whose
		// slices a worker goes on writing after the send (buffers reused from tree to tree) shows
		var kept []tree.WeightedBipartitionStats
		var order []int
		for st := range stats {
			order = append(order, st.Id)
			kept = append(kept, st)
		}
		res.Order = core.IntList(order)
		for _, st := range kept {
			recs = append(recs, rec{st.Id, fmt.Sprintf("%d:%s:%s:%s:%v:%s;", st.Id, sortedRats(st.Tree1), sortedRats(st.Tree2), sortedRats(st.Common), st.Sametree, errClass(st.Err))})
		}
		sort.SliceStable(recs, func(i, j int) bool { return recs[i].id < recs[j].id })
		var b strings.Builder
		for _, x := range recs {
			b.WriteString(x.s)
		}
		res.Outcome, res.Records = "ok", b.String()
	case "fbp":
		// the caller's Supporter: its progress counter is incremented by every worker (supporter.go:28)
		sup := support.NewSupporter()
		if r.has('c') { // cancelled from outside while the workers run: the call must still return
			go func() { time.Sleep(30 * time.Microsecond); sup.Cancel() }()
		}
		err := support.FBP(ref, feed(items, &sent), r.Threads, sup)
		if err != nil {
			return result{Outcome: "err:" + errClass(err), Took: -1, Prog: sup.Progress() + 1}
		}
		res.Outcome, res.Records, res.Prog = "ok", supports(ref), sup.Progress()+1
	case "tbe":
		var logf *os.File
		stats := r.has('a')
		if stats {
			logf, err = os.CreateTemp(c.Tmp, "tbelog")
			if err != nil {
				return result{Outcome: "crash:" + core.Escape("harness: "+err.Error())}
			}
			defer os.Remove(logf.Name())
			defer logf.Close()
		}
		// TBE expects an indexed reference tree (the command's reader has built the indexes)
		if err := ref.ReinitIndexes(); err != nil {
			return result{Outcome: "err:" + errClass(err), Took: -1}
		}
		tsup := support.NewSupporter()
		raw, err := support.TBE(ref, feed(items, &sent), r.Threads, r.has('w'), stats, stats, 0.3, logf, tsup)
		if err != nil {
			return result{Outcome: "err:" + errClass(err), Took: -1, Prog: tsup.Progress() + 1}
		}
		res.Outcome, res.Records, res.Prog = "ok", supports(ref), tsup.Progress()+1
		if r.has('w') && raw != nil { // --out-raw: the clone with the average transfer distances as node names
			defer func() { res.Records += "#raw:" + core.Escape(raw.Newick()) }()
		}
		if stats {
			// the moved-taxa statistics (tallies shared by the workers under a mutex) are part of the result
			logf.Sync()
			if b, err := os.ReadFile(logf.Name()); err == nil {
				res.Records += "#" + core.Escape(string(b))
			}
		}
	default:
		return result{Outcome: "crash:" + core.Escape("harness: unknown kind "+r.Kind)}
	}
	return res
}

// intKey is a hash map key with many colliding hash codes.
type intKey struct{ k, mod int }

func (k intKey) HashCode() uint64 {
	if k.mod > 0 {
		return uint64(k.k%k.mod) * 0x9E3779B97F4A7C15 // few distinct codes: long chains
	}
	return uint64(k.k) * 0x9E3779B97F4A7C15
}
func (k intKey) HashEquals(h hashmap.Hasher) bool { o, ok := h.(intKey); return ok && o.k == k.k }

// runHashMap: r.Threads goroutines fill ONE hashmap.HashMap (flags: "<keys>,<initial capacity>") with
// disjoint keys (key j belongs to goroutine j mod threads) while reading keys of the others; the
// observation is the final content, which must not depend on the number of goroutines.
func runHashMap(r request) (res result) {
	res.Took = -1
	var n, capacity, mod int
	if _, err := fmt.Sscanf(r.Flags, "%d,%d,%d", &n, &capacity, &mod); err != nil {
		return result{Outcome: "crash:" + core.Escape("harness: "+err.Error()), Took: -1}
	}
	hm := hashmap.NewHashMap(uint64(capacity), 0.75)
	var wg sync.WaitGroup
	start := make(chan struct{})
	defer func() {
		if recover() != nil {
			res = result{Outcome: "panic:hashmap", Took: -1}
		}
	}()
	for g := 0; g < r.Threads; g++ {
		wg.Add(1)
		go func(g int) {
			defer wg.Done()
			<-start // all goroutines start together
			for j := g; j < n; j += r.Threads {
				hm.PutValue(intKey{j, mod}, -1)
				hm.Value(intKey{(j * 5) % n, mod})
				hm.PutValue(intKey{j, mod}, j*j) // overwrite: the last value written by the owner stays
				hm.Value(intKey{(j*3 + 1) % n, mod})
			}
		}(g)
	}
	close(start)
	wg.Wait()
	var b strings.Builder
	for j := 0; j < n; j++ {
		v, ok := hm.Value(intKey{j, mod})
		if !ok {
			fmt.Fprintf(&b, "%d:absent,", j)
		} else {
			fmt.Fprintf(&b, "%d:%v,", j, v)
		}
	}
	fmt.Fprintf(&b, ";%d", len(hm.Keys()))
	return result{Outcome: "ok", Records: b.String(), Took: -1}
}

// child: one request per line of the file; answers "R <idx> <outcome> <records> <took>" on stdout,
// "@@REQ <idx>" on stderr before each request (to attribute race reports).
func child(c *core.Ctx, file string) {
	lines := core.ReadRequests(file)
	for i, l := range lines {
		r, err := parseRequest(l)
		fmt.Fprintf(os.Stderr, "\n@@REQ %d\n", i)
		var res result
		if err != nil {
			res = result{Outcome: "crash:" + core.Escape("harness: "+err.Error()), Took: -1}
		} else {
			g0 := runtime.NumGoroutine()
			if p, msg := core.Safe(func() { res = runLib(c, r) }); p {
				res = result{Outcome: "panic:" + core.Escape(msg), Took: -1}
			}
			// goroutines the call left behind (after giving them 30 ms to finish): the reader/feeder blocked
			// for ever on a channel nobody reads any more, a worker that never ends …
			left := 0
			for k := 0; k < 60; k++ {
				if left = runtime.NumGoroutine() - g0; left <= 0 {
					break
				}
				time.Sleep(500 * time.Microsecond)
			}
			if left < 0 {
				left = 0
			}
			res.Order += ";" + strconv.Itoa(left) + ";" + strconv.Itoa(res.Prog-1)
		}
		fmt.Fprintf(c.W, "R\t%d\t%s\t%s\t%d;%s\n", i, res.Outcome, res.Records, res.Took, res.Order)
		c.W.Flush()
	}
	fmt.Fprintf(os.Stderr, "\n@@REQ %d\n", len(lines))
}

// ---------------------------------------------------------------------------------------------
// parent: batches, watchdog, race reports
// ---------------------------------------------------------------------------------------------

func (cfg *config) watchdog() time.Duration {
	d := 8 * time.Second
	if cfg.race {
		// (a race build links cgo, and with cgo the Go runtime does not report "all goroutines are
		// asleep": a deadlock is a hang there, each one costs the whole watchdog)
		d = 60 * time.Second
		if cfg.search {
			d = 20 * time.Second
		}
	}
	if cfg.patient {
		if cfg.race {
			d *= 2
		} else {
			d *= 4
		}
	}
	return d
}

type config struct {
	race     bool
	childBin string // binary re-executed for the library calls (default: this one)
	gotree   string // gotree binary of the command-line kinds (default: c.Gotree)
	nchild   int
	ncli     int
	search   bool // short race search after a broken table
	ncoll    int  // number of collections (0 = by tier)
	patient  bool // confirming a timeout
	nshrunk  int
	hangs    map[string]int
}

func (cfg *config) noteTimeout(kind string) {
	if cfg.hangs == nil {
		cfg.hangs = map[string]int{}
	}
	cfg.hangs[kind]++
}

// a kind that hung three times (twice under the race detector) is not run any further; after four
// confirmed hangs in a race pass nothing more is run in it
func (cfg *config) dead(kind string) bool {
	total := 0
	for _, n := range cfg.hangs {
		total += n
	}
	if cfg.race {
		return cfg.hangs[kind] >= 2 || total >= 4
	}
	return cfg.hangs[kind] >= 3
}

// raceOf extracts the race report (if any) of request idx from the child's stderr.
func raceSegments(stderr string) map[int]string {
	out := map[int]string{}
	cur := -1
	var b strings.Builder
	flush := func() {
		if cur >= 0 {
			s := b.String()
			if k := strings.Index(s, "WARNING: DATA RACE"); k >= 0 {
				rep := s[k:]
				// keep the first lines naming the two accesses
				ls := strings.Split(rep, "\n")
				var keep []string
				for _, l := range ls {
					l = strings.TrimSpace(l)
					if strings.HasPrefix(l, "WARNING") || strings.HasPrefix(l, "Write at") || strings.HasPrefix(l, "Read at") ||
						strings.HasPrefix(l, "Previous") || strings.Contains(l, "gotree/") && len(keep) < 8 {
						keep = append(keep, l)
					}
					if len(keep) >= 8 {
						break
					}
				}
				out[cur] = strings.Join(keep, " / ")
			}
		}
		b.Reset()
	}
	for _, l := range strings.Split(stderr, "\n") {
		if strings.HasPrefix(l, "@@REQ ") {
			flush()
			cur, _ = strconv.Atoi(strings.TrimPrefix(l, "@@REQ "))
			continue
		}
		b.WriteString(l)
		b.WriteByte('\n')
	}
	flush()
	return out
}

// runBatch executes library requests in child processes; every request gets a result.
func runBatch(c *core.Ctx, cfg *config, reqs []request) []result {
	res := make([]result, len(reqs))
	start := 0
	for start < len(reqs) {
		n := runChild(c, cfg, reqs[start:], res[start:])
		last := start + n - 1
		if res[last].Outcome == "timeout" && !cfg.patient {
			// a timeout is confirmed alone with a four times longer watchdog (a loaded machine must not
			// be mistaken for a hang)
			again := &config{race: cfg.race, childBin: cfg.childBin, gotree: cfg.gotree, patient: true, search: cfg.search}
			one := make([]result, 1)
			runChild(c, again, reqs[last:last+1], one)
			res[last] = one[0]
			if one[0].Outcome == "timeout" {
				cfg.noteTimeout(reqs[last].Kind)
			}
		}
		start += n
		// a kind that keeps hanging is not run any further (each hang costs the whole watchdog)
		for start < len(reqs) && cfg.dead(reqs[start].Kind) {
			res[start] = result{Outcome: "skipped", Took: -1}
			start++
		}
	}
	return res
}

func yieldEnv(c *core.Ctx, k int) string {
	return fmt.Sprintf("GOTREE_VERIF_YIELD=%d:%d", c.Seed+int64(k), []int{0, 50, 300, 800}[k%4])
}

// runChild starts one child on reqs and returns how many requests were settled (≥ 1).
func runChild(c *core.Ctx, cfg *config, reqs []request, res []result) int {
	var content strings.Builder
	for _, r := range reqs {
		content.WriteString(r.line())
		content.WriteByte('\n')
	}
	file := c.TmpFile(content.String())
	defer os.Remove(file)
	bin := cfg.childBin
	if bin == "" {
		bin = os.Args[0]
	}
	cmd := exec.Command(bin, "C11", "-arg", "child:"+file, "-tmp", c.Tmp, "-gotree", c.Gotree)
	cmd.Env = append(os.Environ(), "GOMEMLIMIT=2GiB", "GORACE=halt_on_error=0")
	// GOMAXPROCS sweep: successive child processes run with the default, 1, 2, 4 and 16 OS threads
	if mp := []string{"", "2", "4", "16", "1"}[cfg.nchild%5]; mp != "" {
		cmd.Env = append(cmd.Env, "GOMAXPROCS="+mp)
	}
	// the verif yield hook of /repo (tree/yield_verif.go, if present): successive children run with plain
	// Gosched at every scheduling point, then with 5%, 30%, 80% of the points sleeping a few microseconds
	cmd.Env = append(cmd.Env, yieldEnv(c, cfg.nchild))
	cfg.nchild++
	stdout, err := cmd.StdoutPipe()
	if err != nil {
		panic(err)
	}
	var stderr bytes.Buffer
	cmd.Stderr = &stderr
	if err := cmd.Start(); err != nil {
		panic(err)
	}
	lines := make(chan string, 16)
	go func() {
		rd := bufio.NewReaderSize(stdout, 1<<20)
		for {
			l, err := rd.ReadString('\n')
			if l != "" {
				lines <- strings.TrimRight(l, "\n")
			}
			if err != nil {
				break
			}
		}
		close(lines)
	}()
	settled := 0
	timedOut := false
loop:
	for settled < len(reqs) {
		select {
		case l, ok := <-lines:
			if !ok {
				break loop
			}
			f := strings.Split(l, "\t")
			if len(f) != 5 || f[0] != "R" {
				continue
			}
			idx, _ := strconv.Atoi(f[1])
			tf := strings.SplitN(f[4], ";", 2)
			took, _ := strconv.Atoi(tf[0])
			order := ""
			if len(tf) == 2 {
				order = tf[1]
			}
			if idx == settled {
				res[idx] = result{Outcome: f[2], Records: f[3], Took: took, Order: order}
				settled++
			}
		case <-time.After(cfg.watchdog()):
			timedOut = true
			break loop
		}
	}
	if settled < len(reqs) {
		cmd.Process.Kill()
	}
	io.Copy(io.Discard, stdout)
	cmd.Wait()
	se := stderr.String()
	if settled < len(reqs) {
		if timedOut {
			res[settled] = result{Outcome: "timeout", Took: -1}
		} else {
			// the process died: keep the end of its stderr (the Go runtime's report)
			tail := se
			if k := strings.LastIndex(tail, "@@REQ "); k >= 0 {
				tail = tail[k:]
			}
			msg := ""
			for _, l := range strings.Split(tail, "\n") {
				if strings.HasPrefix(l, "fatal error:") || strings.HasPrefix(l, "panic:") {
					msg = l
					break
				}
			}
			if msg == "" {
				msg = "process died"
			}
			res[settled] = result{Outcome: "crash:" + core.Escape(msg), Took: -1}
		}
		settled++
	}
	for idx, rep := range raceSegments(se) {
		if idx < settled && idx < len(res) {
			res[idx].Race = core.Escape(rep)
		}
	}
	return settled
}

// ---------------------------------------------------------------------------------------------
// CLI
// ---------------------------------------------------------------------------------------------

func newickOf(dump string) (string, error) {
	n, err := core.ParseDump(dump)
	if err != nil {
		return "", err
	}
	t, err := core.Build(n)
	if err != nil {
		return "", err
	}
	return t.Newick(), nil
}

func runCLI(c *core.Ctx, cfg *config, r request) result {
	refnw, err := newickOf(r.Ref)
	if err != nil {
		return result{Outcome: "crash:" + core.Escape("harness: "+err.Error()), Took: -1}
	}
	var b strings.Builder
	for _, it := range r.Items {
		if it == "!err" {
			b.WriteString("(a,b;\n") // the reader stops here and sends an item carrying the parse error
			continue
		}
		nw, err := newickOf(it)
		if err != nil {
			return result{Outcome: "crash:" + core.Escape("harness: "+err.Error()), Took: -1}
		}
		b.WriteString(nw + "\n")
	}
	reff := c.TmpFile(refnw + "\n")
	itf := c.TmpFile(b.String())
	logf := c.TmpFile("")
	defer os.Remove(reff)
	defer os.Remove(itf)
	defer os.Remove(logf)
	var args []string
	// the thread option in its forms (cmd/root.go: persistent flag -t/--threads, default 1):
	// L = `--threads N`, E = `--threads=N`, O = omitted (one thread), P = given before the sub-command
	th := []string{"-t", strconv.Itoa(r.Threads)}
	switch {
	case r.has('L'):
		th = []string{"--threads", strconv.Itoa(r.Threads)}
	case r.has('E'):
		th = []string{"--threads=" + strconv.Itoa(r.Threads)}
	case r.has('O') && r.Threads == 1:
		th = nil
	}
	fbpName, tbeName := "fbp", "tbe"
	if r.has('A') { // the alias commands of classical.go / booster.go
		fbpName, tbeName = "classical", "booster"
	}
	switch r.Kind {
	case "clicompare", "cliweighted":
		args = []string{"compare", "trees", "-i", reff, "-c", itf}
		if r.has('t') {
			args = append(args, "--tips")
		}
		if r.has('b') {
			args = append(args, "--binary")
		}
		if r.Kind == "cliweighted" {
			args = append(args, "--weighted")
		} else if r.has('r') {
			args = append(args, "--rf")
		}
	case "clifbp":
		args = []string{"compute", "support", fbpName, "-i", reff, "-b", itf, "-l", logf, "--silent"}
	case "clitbe":
		args = []string{"compute", "support", tbeName, "-i", reff, "-b", itf, "-l", logf, "--silent"}
		if r.has('a') {
			args = append(args, "--moved-taxa")
		}
	default:
		return result{Outcome: "crash:" + core.Escape("harness: unknown kind "+r.Kind), Took: -1}
	}
	if r.has('P') {
		args = append(append([]string{}, th...), args...)
	} else {
		args = append(args, th...)
	}
	if cfg.gotree != "" {
		saved := c.Gotree
		c.Gotree = cfg.gotree
		defer func() { c.Gotree = saved }()
	}
	if cfg.dead(r.Kind) {
		return result{Outcome: "skipped", Took: -1}
	}
	cfg.ncli++
	os.Setenv("GOTREE_VERIF_YIELD", strings.TrimPrefix(yieldEnv(c, cfg.ncli), "GOTREE_VERIF_YIELD="))
	x := c.RunCLI("", cfg.watchdog(), args...)
	if x.Timeout {
		x = c.RunCLI("", 4*cfg.watchdog(), args...)
		if x.Timeout {
			cfg.noteTimeout(r.Kind)
		}
	}
	res := result{Took: -1}
	if k := strings.Index(x.Stderr, "WARNING: DATA RACE"); k >= 0 {
		res.Race = core.Escape(firstLines(x.Stderr[k:], 6))
	}
	switch {
	case x.Timeout:
		res.Outcome = "timeout"
	case x.Exit != 0 && (strings.Contains(x.Stderr, "fatal error:") || strings.Contains(x.Stderr, "panic:") || strings.Contains(x.Stderr, "goroutine ")):
		msg := "exit " + strconv.Itoa(x.Exit)
		for _, l := range strings.Split(x.Stderr, "\n") {
			if strings.HasPrefix(l, "fatal error:") || strings.HasPrefix(l, "panic:") {
				msg = l
				break
			}
		}
		res.Outcome = "crash:" + core.Escape(msg)
	case x.Exit != 0:
		// the error the command reports (cobra prints `Error: <message>`), classified like the library's
		res.Outcome = "err:exit"
		for _, l := range strings.Split(strings.ReplaceAll(x.Stderr, "\r", "\n"), "\n") {
			if strings.HasPrefix(l, "Error: ") {
				switch m := strings.TrimPrefix(l, "Error: "); {
				case strings.Contains(m, "same tip names"), strings.Contains(m, "same number of tips"):
					res.Outcome = "err:taxa"
				case strings.Contains(m, "newick Error"), m == "EOF", strings.Contains(m, "Unterminated tree"):
					res.Outcome = "err:item"
				case strings.Contains(m, "several tips have the same name"):
					res.Outcome = "err:dup"
				default:
					res.Outcome = "err:other" // an error message all the same
				}
				break
			}
		}
	default:
		res.Outcome = "ok"
		ls := strings.Split(strings.TrimRight(x.Stdout, "\n"), "\n")
		if strings.HasSuffix(r.Kind, "compare") || strings.HasSuffix(r.Kind, "weighted") {
			// header line, then one line per tree starting with its id: sort by id
			if len(ls) > 0 && strings.HasPrefix(ls[0], "tree\t") {
				ls = ls[1:]
			}
			// --rf prints one distance per line, without identifier, in the order of the compared trees
			rfOnly := r.Kind == "clicompare" && r.has('r') && !r.has('b')
			sort.SliceStable(ls, func(i, j int) bool {
				if rfOnly {
					return false
				}
				a, _ := strconv.Atoi(strings.SplitN(ls[i], "\t", 2)[0])
				b, _ := strconv.Atoi(strings.SplitN(ls[j], "\t", 2)[0])
				return a < b
			})
			var o strings.Builder
			for _, l := range ls {
				if l == "" {
					continue
				}
				o.WriteString(core.Escape(l))
				o.WriteByte(';')
			}
			res.Records = o.String()
		} else {
			// the tree with supports: re-read and reported like the library runs (supports in Edges() order)
			// the log echoes the thread count the command was given (classical.go:93, booster.go:114)
			if lb, err := os.ReadFile(logf); err == nil {
				for _, l := range strings.Split(string(lb), "\n") {
					if strings.HasPrefix(l, "CPUs") {
						if k := strings.LastIndex(l, ":"); k >= 0 {
							if v, err := strconv.Atoi(strings.TrimSpace(l[k+1:])); err == nil {
								res.Took = v
							}
						}
					}
				}
			}
			res.Records = "unparsed:" + core.Escape(strings.Join(ls, "\n"))
			if len(ls) == 1 {
				if t, err := newick.NewParser(strings.NewReader(ls[0])).Parse(); err == nil {
					res.Records = supports(t)
				}
			}
		}
	}
	return res
}

func firstLines(s string, n int) string {
	ls := strings.Split(s, "\n")
	if len(ls) > n {
		ls = ls[:n]
	}
	for i := range ls {
		ls[i] = strings.TrimSpace(ls[i])
	}
	return strings.Join(ls, " / ")
}

// ---------------------------------------------------------------------------------------------
// groups: one collection run with several thread counts, compared with its single-thread run
// ---------------------------------------------------------------------------------------------

// runAndEmit executes the requests (each with its single-thread reference) and prints the case lines.
func runAndEmit(c *core.Ctx, cfg *config, reqs []request) {
	// reference runs (threads = 1), shared by the requests of one group
	type key struct{ kind, flags, ref, items string }
	refIdx := map[key]int{}
	var all []request
	for _, r := range reqs {
		f := r.fields()
		k := key{r.Kind, r.Flags, r.Ref, f[4]}
		if _, ok := refIdx[k]; !ok {
			r1 := r
			r1.Threads = 1
			refIdx[k] = len(all)
			all = append(all, r1)
		}
	}
	nref := len(all)
	all = append(all, reqs...)
	res := make([]result, len(all))
	var lib []request
	var libPos []int
	for i, r := range all {
		if r.cli() {
			res[i] = runCLI(c, cfg, r)
		} else {
			lib = append(lib, r)
			libPos = append(libPos, i)
		}
	}
	for j, x := range runBatch(c, cfg, lib) {
		res[libPos[j]] = x
	}
	for i, r := range reqs {
		f := r.fields()
		ref := res[refIdx[key{r.Kind, r.Flags, r.Ref, f[4]}]]
		x := res[nref+i]
		if x.Outcome == "skipped" || ref.Outcome == "skipped" {
			continue
		}
		// a run that hung, crashed or panicked is shrunk (fewer trees, fewer threads) and the small
		// failing request is emitted first, so that the replay file holds a minimal input
		if hardFailure(x.Outcome) && cfg.nshrunk < 3 && !cfg.patient {
			cfg.nshrunk++
			if small, sx, sref, ok := shrink(c, cfg, r); ok {
				c.Emit(small.op(), append(small.fields(), sx.Outcome, sx.Records, sref.Outcome, sref.Records, sx.Race, strconv.Itoa(sx.Took)+";"+sx.Order)...)
			}
		}
		if cfg.race && !strings.Contains(f[2], "R") {
			f[2] += "R" // this case ran under the race detector
		}
		c.Emit(r.op(), append(f, x.Outcome, x.Records, ref.Outcome, ref.Records, x.Race, strconv.Itoa(x.Took)+";"+x.Order)...)
	}
}

// buildRace builds race-detector variants of this harness (and of gotree) from the repository under
// test, for replaying a case whose recorded failure is a race report.  Scratch binaries in c.Tmp.
func buildRace(c *core.Ctx, cfg *config, needCLI bool) {
	buildDir := filepath.Dir(c.Tmp)
	harness := filepath.Join(filepath.Dir(buildDir), "harness")
	// a go.mod of our own whose `replace` names the repository under test (harness/mkmod.sh)
	modDir := filepath.Join(c.Tmp, "racemod")
	mk := exec.Command("sh", filepath.Join(harness, "mkmod.sh"), modDir)
	mk.Env = append(os.Environ(), "VERIF_REPO="+c.Repo)
	if out, err := mk.CombinedOutput(); err != nil {
		fmt.Fprintf(os.Stderr, "c11: mkmod failed: %v\n%s\n", err, out)
		return
	}
	mod := filepath.Join(modDir, "go.mod")
	env := append(os.Environ(), "CGO_ENABLED=1")
	vh := filepath.Join(c.Tmp, "vh-race-replay")
	cmd := exec.Command("go", "build", "-race", "-tags", "verif", "-modfile="+mod, "-o", vh, "./cmd/vh-C11")
	cmd.Dir = harness
	cmd.Env = env
	if out, err := cmd.CombinedOutput(); err != nil {
		fmt.Fprintf(os.Stderr, "c11: race build of the harness failed: %v\n%s\n", err, out)
		return
	}
	cfg.childBin = vh
	cfg.race = true
	if needCLI {
		gt := filepath.Join(c.Tmp, "gotree-race-replay")
		cmd := exec.Command("go", "build", "-race", "-tags", "verif", "-o", gt, ".")
		cmd.Dir = c.Repo
		cmd.Env = env
		if out, err := cmd.CombinedOutput(); err != nil {
			fmt.Fprintf(os.Stderr, "c11: race build of gotree failed: %v\n%s\n", err, out)
			return
		}
		cfg.gotree = gt
	}
}

// racePass: a race-detector build of this harness on demand, then the regression corpus (requests up to
// maxLine bytes; 0 = all) and ncoll generated collections under it.  The cases carry the flag letter R.
func racePass(c *core.Ctx, ncoll, maxLine int) {
	rc := &config{}
	buildRace(c, rc, false)
	if rc.childBin == "" {
		return
	}
	defer os.Remove(rc.childBin)
	rc.search = true
	if files, err := filepath.Glob(filepath.Join(filepath.Dir(filepath.Dir(c.Tmp)), "corpus", "C11-*.txt")); err == nil {
		sort.Strings(files)
		for _, f := range files {
			var lines []string
			for _, l := range core.ReadRequests(f) {
				if (maxLine == 0 || len(l) <= maxLine) && !strings.HasPrefix(l, "C11.pool\tcli") {
					lines = append(lines, l)
				}
			}
			replay(c, rc, lines)
		}
	}
	rc.ncoll = ncoll
	generate(c, rc)
}

func hardFailure(outcome string) bool {
	return outcome == "timeout" || strings.HasPrefix(outcome, "crash:") || strings.HasPrefix(outcome, "panic:")
}

func runOne(c *core.Ctx, cfg *config, r request) result {
	if r.cli() {
		return runCLI(c, cfg, r)
	}
	return runBatch(c, cfg, []request{r})[0]
}

// shrink: greedy removal of items and reduction of the thread count while the run still fails hard
// (at most 40 executions).  Returns the shrunk request, its result and the result of its one-thread run.
func shrink(c *core.Ctx, cfg *config, r request) (request, result, result, bool) {
	budget := 40
	fails := func(q request) (result, bool) {
		if budget <= 0 {
			return result{}, false
		}
		budget--
		x := runOne(c, cfg, q)
		return x, hardFailure(x.Outcome)
	}
	cur := r
	var curRes result
	changed := false
	for _, th := range []int{1, 2} {
		if th < cur.Threads {
			q := cur
			q.Threads = th
			if x, bad := fails(q); bad {
				cur, curRes, changed = q, x, true
				break
			}
		}
	}
	for i := len(cur.Items) - 1; i >= 0 && budget > 0; i-- {
		q := cur
		q.Items = append(append([]string{}, cur.Items[:i]...), cur.Items[i+1:]...)
		if x, bad := fails(q); bad {
			cur, curRes, changed = q, x, true
		}
	}
	if !changed {
		return r, result{}, result{}, false
	}
	r1 := cur
	r1.Threads = 1
	return cur, curRes, runOne(c, cfg, r1), true
}

func replay(c *core.Ctx, cfg *config, lines []string) {
	var reqs []request
	needRace, needCLI := false, false
	for _, l := range lines {
		if strings.HasPrefix(l, "C11.table") {
			tableCase(c) // replaying a broken table: extract it again from the repository under test
			continue
		}
		r, err := parseRequest(l)
		if err != nil {
			continue
		}
		reqs = append(reqs, r)
		// a replay file holds the whole case line: field 10 is the recorded race report
		if f := strings.Split(l, "\t"); (len(f) >= 12 && f[10] != "") || strings.Contains(r.Flags, "R") {
			needRace = true
			if r.cli() {
				needCLI = true
			}
		}
	}
	if needRace && !cfg.race {
		buildRace(c, cfg, needCLI)
		defer os.Remove(filepath.Join(c.Tmp, "vh-race-replay"))
		defer os.Remove(filepath.Join(c.Tmp, "gotree-race-replay"))
	}
	runAndEmit(c, cfg, reqs)
}

// Run generates the cases of C11.
func Run(c *core.Ctx) {
	cfg := &config{}
	switch {
	case strings.HasPrefix(c.Arg, "child:"):
		child(c, strings.TrimPrefix(c.Arg, "child:"))
		return
	case c.Arg == "race":
		cfg.race = true
		// the regression corpus first, under the race detector too
		if files, err := filepath.Glob(filepath.Join(filepath.Dir(filepath.Dir(c.Tmp)), "corpus", "C11-*.txt")); err == nil {
			sort.Strings(files)
			for _, f := range files {
				replay(c, cfg, core.ReadRequests(f))
			}
		}
		generate(c, cfg)
	case c.Arg != "":
		replay(c, cfg, core.ReadRequests(c.Arg))
	default:
		generate(c, cfg)
	}
}

func treeOpts(g *core.G, kind string, big bool) core.TreeOpts {
	o := core.DefaultOpts()
	o.MinTips, o.MaxTips = 4, 10
	o.Lengths = 1
	o.Supports = 0
	o.InnerNames = 0
	if g.Chance(0.25) {
		o.Lengths = 3
	}
	if g.Chance(0.15) || (big && g.Chance(0.5)) {
		o.MinTips, o.MaxTips = 10, 24
	}
	if g.Chance(0.05) {
		o.MinTips, o.MaxTips = 2, 3 // tiny references: no internal branch at all
	}
	// degenerate shapes and values: single-child inner nodes, absent lengths
	if g.Chance(0.12) {
		o.Singles = 0.2
	}
	if g.Chance(0.1) {
		o.Lengths = 2
	}
	return o
}

// rootTip turns a tree with n tips into one whose ROOT is a tip (a root with a single neighbour)
// named like the (n+1)-th tip.
func rootTip(g *core.G, n *core.N, o *core.TreeOpts) *core.N {
	if n.E == nil {
		n.E = core.NewE()
		n.E.Len = g.Length(o)
	}
	return &core.N{Name: fmt.Sprintf("%s%d", o.TipPrefix, len(n.TipNames())), Kids: []*core.N{n}}
}

func leaves(n *core.N) []*core.N {
	if len(n.Kids) == 0 {
		return []*core.N{n}
	}
	var out []*core.N
	for _, k := range n.Kids {
		out = append(out, leaves(k)...)
	}
	return out
}

// tableCase re-extracts the goroutine table from the repository under test and reports the rows that
// break the hypotheses of the LTS theorems (exit paths of pool workers without wg.Done, writes to
// captured variables without synchronisation), so that a broken table names its rows in the replay.
func tableCase(c *core.Ctx) (nleaks, nunsync int) {
	gos, err := extractGoroutines(c.Repo)
	return tableEmit(c, gos, err)
}

// tableEmit prints the C11.table case for an extraction result (the extractor's self-test has run in
// `vh gen-tables` of the same check; it is repeated here only when the extraction itself fails).
func tableEmit(c *core.Ctx, gos []*xGo, err error) (nleaks, nunsync int) {
	if err != nil {
		if e2 := selfTest(); e2 != nil {
			err = e2
		}
	}
	if err != nil {
		c.Emit("C11.table", "error", core.StrList([]string{err.Error()}), "")
		return 0, 0
	}
	var leaks, unsync []string
	// the pools outside the four computations the property names (cmd/edgetrees.go, cmd/roccurve.go) are
	// extracted too; their rows are reported apart (4th field) and break nothing
	var all []*xGo
	all, gos = gos, nil
	var outside []string
	for _, g := range all {
		if !strings.HasPrefix(g.File, "cmd/") {
			gos = append(gos, g)
			continue
		}
		for _, e := range g.Exits {
			if g.Counted && !e.Done {
				outside = append(outside, fmt.Sprintf("%s:%d %s: %s at line %d leaves without wg.Done", g.File, g.Line, g.Fn, e.Kind, e.Line))
			}
		}
		for _, l := range g.RetNoClose {
			outside = append(outside, fmt.Sprintf("%s:%d %s: return at line %d leaves the channel it is responsible for open", g.File, g.Line, g.Fn, l))
		}
		for _, w := range g.Writes {
			if w.Sync == "none" {
				outside = append(outside, fmt.Sprintf("%s:%d %s: %s (%s) line %d unsynchronised", g.File, g.Line, g.Fn, w.Var, w.How, w.Line))
			}
		}
	}
	for _, g := range gos {
		for _, e := range g.Exits {
			if g.Counted && !e.Done {
				leaks = append(leaks, fmt.Sprintf("%s:%d %s: %s at line %d leaves without wg.Done", g.File, g.Line, g.Fn, e.Kind, e.Line))
			}
		}
		if g.Counted && !g.AddOK {
			leaks = append(leaks, fmt.Sprintf("%s:%d %s: no wg.Add accounts for this worker before it starts", g.File, g.Line, g.Fn))
		}
		for _, l := range g.RetNoClose {
			leaks = append(leaks, fmt.Sprintf("%s:%d %s: return at line %d leaves the channel it is responsible for open", g.File, g.Line, g.Fn, l))
		}
		for _, c := range g.Closes {
			if g.Waits && !c.Wait {
				leaks = append(leaks, fmt.Sprintf("%s:%d %s: close(%s) at line %d is not preceded by wg.Wait()", g.File, g.Line, g.Fn, c.Name, c.Line))
			}
		}
		for _, w := range g.Writes {
			if w.Sync == "none" {
				unsync = append(unsync, fmt.Sprintf("%s:%d %s: %s (%s) line %d unsynchronised", g.File, g.Line, g.Fn, w.Var, w.How, w.Line))
			}
		}
	}
	// read/write races visible in the table (same rule as `racePairs` of Model/C11.lean)
	compatible := func(a, b string) bool { return a == b && (a == "mutex" || a == "atomic" || a == "itemIndexed") }
	for _, g1 := range gos {
		for _, g2 := range gos {
			if g1.File != g2.File || g1.Fn != g2.Fn || (g1.Line == g2.Line && !g1.Multi) {
				continue
			}
			for _, w := range g1.Accesses {
				for _, r := range g2.Accesses {
					if w.Write && w.Var == r.Var && (w.Form == "whole" || w.Form == r.Form) && !compatible(w.Sync, r.Sync) {
						unsync = append(unsync, fmt.Sprintf("%s %s: %s written at line %d (%s) and accessed at line %d (%s) by concurrent goroutines", g1.File, g1.Fn, w.Var, w.Line, w.Sync, r.Line, r.Sync))
					}
				}
			}
		}
	}
	// package-level variables written below a goroutine of the four pools without synchronisation
	for _, w := range globalWrites {
		if w.Sync == "none" && !strings.HasPrefix(w.File, "cmd/") {
			unsync = append(unsync, fmt.Sprintf("%s:%d %s: package-level %s (%s) written at %s:%d unsynchronised", w.File, w.GoLine, w.Fn, w.Var, w.How, w.At, w.Line))
		}
	}
	for _, cl := range callers {
		if !cl.Ranged {
			leaks = append(leaks, fmt.Sprintf("cmd/comparetrees.go:%d the channel %s returned by tree.%s is not ranged over by its caller", cl.Line, cl.Var, cl.Fn))
		}
		for _, d := range cl.Drains {
			if d != cl.Var {
				leaks = append(leaks, fmt.Sprintf("cmd/comparetrees.go:%d inside the loop over %s (tree.%s) the caller empties another channel: %s", cl.Line, cl.Var, cl.Fn, d))
			}
		}
	}
	if len(callers) < 2 {
		leaks = append(leaks, "cmd/comparetrees.go: the calls of tree.Compare and tree.CompareWeighted were not both found")
	}
	for _, g := range hmMethods {
		if strings.HasPrefix(g.Fn, "Supporter.") {
			for _, a := range g.Accesses {
				if a.Form != "whole" && a.Sync != "mutex" {
					unsync = append(unsync, fmt.Sprintf("%s:%d %s: access to %s (%s) line %d without the lock", g.File, g.Line, g.Fn, a.Var, a.Form, a.Line))
				}
			}
			continue
		}
		for _, w := range g.Writes {
			if w.Sync != "mutex" {
				unsync = append(unsync, fmt.Sprintf("%s:%d %s: write to %s (%s) line %d without the write lock", g.File, g.Line, g.Fn, w.Var, w.How, w.Line))
			}
		}
	}
	c.Emit("C11.table", "ok", core.StrList(leaks), core.StrList(unsync), core.StrList(outside))
	c.Emit("C11.selftest", "broken-shapes") // the driver's model comparison on deliberately broken shapes
	return len(leaks), len(unsync)
}

func generate(c *core.Ctx, cfg *config) {
	g := c.G
	if !cfg.race {
		// the table is extracted while the generated runs execute
		type ext struct {
			gos []*xGo
			err error
		}
		done := make(chan ext, 1)
		go func() {
			gos, err := extractGoroutines(c.Repo)
			done <- ext{gos, err}
		}()
		defer func() {
			x := <-done
			_, nunsync := tableEmit(c, x.gos, x.err)
			switch {
			case nunsync > 0 && cfg.childBin == "":
				// the table shows an unsynchronised shared access: search for a failing run with the race
				// detector right away (race build on demand), on the regression corpus and a focused sweep
				racePass(c, 24, 0)
			case c.Quick() && cfg.childBin == "":
				// the quick tier too has runs under the race detector: the small requests of the regression
				// corpus and a few collections (the build is a few seconds once the Go build cache is warm)
				racePass(c, 3, 4000)
			}
		}()
	}
	ncoll := c.Scale(40, 300)
	if cfg.race {
		ncoll = 50
	}
	if cfg.search {
		ncoll = 24
	}
	if cfg.ncoll > 0 {
		ncoll = cfg.ncoll
	}
	libKinds := []string{"compare", "weighted", "fbp", "tbe"}
	var reqs []request
	flush := func() {
		if len(reqs) > 0 {
			runAndEmit(c, cfg, reqs)
			reqs = nil
		}
	}
	// the hash map shared by the workers, filled concurrently
	nhm := c.Scale(6, 40)
	if cfg.ncoll > 0 && cfg.ncoll <= 5 {
		nhm = 2 // the small race pass of the quick tier
	}
	for i := 0; i < nhm; i++ {
		n := 1 + g.Intn(3000)
		if nhm == 2 {
			n = 1 + g.Intn(400)
		}
		if i%3 == 0 {
			n = 1 + g.Intn(40)
		}
		capacity := []int{0, 1, 2, 16, 64}[g.Intn(5)]
		mod := []int{0, 0, 7, 64}[g.Intn(4)]
		for _, th := range []int{1, 2, 4, 16} {
			reqs = append(reqs, request{Kind: "hashmap", Threads: th, Flags: fmt.Sprintf("%d,%d,%d", n, capacity, mod), Ref: "-"})
		}
	}
	for i := 0; i < ncoll; i++ {
		kind := libKinds[i%4]
		cliToo := c.Gotree != "" && i%3 == 2 && !cfg.search
		o := treeOpts(g, kind, cfg.race)
		refN, _ := g.Tree(o)
		if (kind == "compare" || kind == "weighted") && g.Chance(0.08) {
			refN = rootTip(g, refN, &o) // the root of the reference is a tip
		}
		core.NumberEdges(refN)
		ntips := len(refN.TipNames())
		n := g.Intn(7)
		if (kind == "fbp" || kind == "tbe") && n == 0 {
			n = 1 + g.Intn(4)
		}
		if cfg.race && g.Chance(0.5) {
			n = 12 + g.Intn(20)
		}
		o2 := o
		o2.MinTips, o2.MaxTips = ntips, ntips
		var items []string
		for j := 0; j < n; j++ {
			var x *core.N
			switch g.Intn(4) {
			case 0: // the reference itself (identical tree)
				x = refN.Clone()
			default:
				x, _ = g.Tree(o2)
			}
			core.NumberEdges(x)
			items = append(items, x.Dump())
		}
		flags := ""
		if g.Chance(0.5) {
			flags += "t"
		}
		if g.Chance(0.3) && (kind == "compare" || kind == "weighted") {
			flags += "b"
		}
		if kind == "tbe" && g.Chance(0.5) {
			flags += "a"
		}
		if kind == "tbe" && g.Chance(0.3) {
			flags += "w"
		}
		if kind == "fbp" && g.Chance(0.15) {
			flags += "c"
		}
		cliFlags := ""
		if kind == "compare" && !strings.Contains(flags, "b") && g.Chance(0.7) {
			cliFlags = "r" // gotree compare trees --rf
		}
		threads := []int{1, 2, 4, 16, n + 3}
		if kind == "tbe" {
			// thread counts that do not divide the number of reference branches, and counts above it (a fan-out that
			// hands out the branches in blocks of len/cpu loses the last len%cpu ones)
			threads = append(threads, 5, 7, 13, 32)
		}
		add := func(its []string) {
			for _, th := range threads {
				reqs = append(reqs, request{Kind: kind, Threads: th, Flags: flags, Ref: refN.Dump(), Items: its})
			}
			if cliToo {
				for _, th := range []int{1, 4, 16, 64} {
					v := []string{"", "L", "E", "P", "LP", "A", "AE"}[g.Intn(7)]
					if th == 1 && g.Chance(0.4) {
						v = "O" // no thread option at all: one thread
					}
					reqs = append(reqs, request{Kind: "cli" + kind, Threads: th, Flags: strings.ReplaceAll(flags, "c", "") + cliFlags + v, Ref: refN.Dump(), Items: its})
				}
			}
		}
		add(items)
		// an erroneous / taxon-mismatched tree at every position of the stream (every other collection)
		bad := g.Intn(4)
		for p := 0; p <= n && (i/4)%2 == 0; p++ {
			var b string
			switch bad {
			case 0:
				b = "!err"
			case 3: // the right tips, but one name twice: the tree cannot be indexed
				x, _ := g.Tree(o2)
				if lv := leaves(x); len(lv) >= 2 {
					lv[len(lv)-1].Name = lv[0].Name
				}
				core.NumberEdges(x)
				b = x.Dump()
			case 1: // same number of tips, other names
				o3 := o2
				o3.TipPrefix = "u"
				x, _ := g.Tree(o3)
				core.NumberEdges(x)
				b = x.Dump()
			default: // another number of tips
				o3 := o2
				o3.MinTips, o3.MaxTips = ntips+1, ntips+1
				x, _ := g.Tree(o3)
				core.NumberEdges(x)
				b = x.Dump()
			}
			var its []string
			its = append(its, items[:p]...)
			its = append(its, b)
			its = append(its, items[p:]...)
			if p < n && g.Chance(0.3) {
				// replace instead of insert
				its = append(append(append([]string{}, items[:p]...), b), items[p+1:]...)
			}
			add(its)
		}
		if len(reqs) > 60 {
			flush()
		}
	}
	// TBE with the moved-taxa statistics on bootstrap trees CLOSE to the reference (two to four taxa exchanged),
	// references of 12-20 tips: the tallies shared by the workers under the mutex are non-zero (drawn after the
	// collections above: their stream is unchanged)
	ntal := c.Scale(6, 16)
	if cfg.ncoll > 0 && cfg.ncoll <= 5 {
		ntal = 1
	}
	for i := 0; i < ntal; i++ {
		o := treeOpts(g, "tbe", false)
		o.MinTips, o.MaxTips = 14, 24
		refN, _ := g.Tree(o)
		core.NumberEdges(refN)
		nb := 2 + g.Intn(3)
		var items []string
		for j := 0; j < nb; j++ {
			x := refN.Clone()
			lv := leaves(x)
			// one taxon moved elsewhere (a leaf taken from a node of degree >= 3 and hung below another inner
			// node: transfer distance 1 for the branches in between), else two taxa exchanged
			type slot struct {
				p *core.N
				i int
			}
			var slots []slot
			var inner []*core.N
			var walk func(n *core.N)
			walk = func(n *core.N) {
				if len(n.Kids) > 0 {
					inner = append(inner, n)
				}
				for i, k := range n.Kids {
					if len(k.Kids) == 0 && len(n.Kids) >= 3 {
						slots = append(slots, slot{n, i})
					}
					walk(k)
				}
			}
			walk(x)
			if len(slots) > 0 && g.Chance(0.8) {
				sl := slots[g.Intn(len(slots))]
				leaf := sl.p.Kids[sl.i]
				sl.p.Kids = append(append([]*core.N{}, sl.p.Kids[:sl.i]...), sl.p.Kids[sl.i+1:]...)
				q := inner[g.Intn(len(inner))]
				q.Kids = append(q.Kids, leaf)
			} else if len(lv) >= 2 {
				a, b := g.Intn(len(lv)), g.Intn(len(lv))
				lv[a].Name, lv[b].Name = lv[b].Name, lv[a].Name
			}
			core.NumberEdges(x)
			items = append(items, x.Dump())
		}
		for _, th := range []int{1, 2, 4, 16} {
			reqs = append(reqs, request{Kind: "tbe", Threads: th, Flags: "a", Ref: refN.Dump(), Items: items})
		}
	}
	// histories of calls on one hash map (drawn last: the stream of the collections above is unchanged)
	reqs = append(reqs, genHashMapSeq(c, cfg)...)
	flush()
}
