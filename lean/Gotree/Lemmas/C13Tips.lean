/-
  C13 — the tips-only variant (repair of F60): renaming lemmas, the writer's loop, the round trip.
-/
import Gotree.Model.C13Tips
import Gotree.Lemmas.C13NexTr2

namespace Gotree.C13
open Gotree
open Nex

theorem renameTipsL_length (m : List (String × String)) (k : Kids) : (renameTipsL m k).length = k.length := by
  induction k with
  | nil => rfl
  | cons x r ih => obtain ⟨e, t⟩ := x; simp [renameTipsL, ih]

mutual
theorem leaves_renameTipsN (m : List (String × String)) : ∀ t : T, (renameTipsN m t).leaves = t.leaves.map (renameKey m)
  | .node d p [] => by simp [renameTipsN, T.leaves]
  | .node d p ((e, t) :: r) => by
    have := leavesL_renameTipsL m ((e, t) :: r)
    simp only [renameTipsN, renameTipsL, T.leaves] at this ⊢
    exact this
theorem leavesL_renameTipsL (m : List (String × String)) : ∀ k : Kids, leavesL (renameTipsL m k) = (leavesL k).map (renameKey m)
  | [] => rfl
  | (e, t) :: r => by
    simp only [renameTipsL, leavesL, List.map_append]
    rw [leaves_renameTipsN m t, leavesL_renameTipsL m r]
end

theorem tipNames_renameTips (m : List (String × String)) (t : T) :
    (renameTips m t).tipNames = t.tipNames.map (renameKey m) := by
  cases t with
  | node d p k =>
    simp only [renameTips, T.tipNames, T.kids_node, T.name, T.d_node, renameTipsL_length, leavesL_renameTipsL, List.map_append]
    by_cases h : k.length = 1 <;> simp [h]

mutual
theorem strip_renameTipsN (m : List (String × String)) : ∀ t : T, strip (renameTipsN m t) = renameTipsN m (strip t)
  | .node d p [] => by simp [renameTipsN, strip, stripL]
  | .node d p ((e, t) :: r) => by
    have := stripL_renameTipsL m ((e, t) :: r)
    simp only [renameTipsN, strip, stripL, renameTipsL] at this ⊢
    rw [this]
theorem stripL_renameTipsL (m : List (String × String)) : ∀ k : Kids, stripL (renameTipsL m k) = renameTipsL m (stripL k)
  | [] => rfl
  | (e, t) :: r => by simp only [renameTipsL, stripL]; rw [strip_renameTipsN m t, stripL_renameTipsL m r]
end

theorem strip_renameTips (m : List (String × String)) (t : T) : strip (renameTips m t) = renameTips m (strip t) := by
  cases t with
  | node d p k =>
    simp only [renameTips, strip, stripL_renameTipsL, stripL_length]
    by_cases h : k.length = 1 <;> simp [h]

mutual
theorem renameTipsN_back (f g : List (String × String)) : ∀ t : T,
    (∀ y ∈ t.leaves, renameKey g (renameKey f y) = y) → renameTipsN g (renameTipsN f t) = t
  | .node d p [], h => by
    have := h d.name (by simp [T.leaves])
    simp [renameTipsN, this]
  | .node d p ((e, t) :: r), h => by
    have := renameTipsL_back f g ((e, t) :: r) (by simpa [T.leaves] using h)
    simp only [renameTipsN, renameTipsL] at this ⊢
    rw [this]
theorem renameTipsL_back (f g : List (String × String)) : ∀ k : Kids,
    (∀ y ∈ leavesL k, renameKey g (renameKey f y) = y) → renameTipsL g (renameTipsL f k) = k
  | [], _ => rfl
  | (e, t) :: r, h => by
    simp only [leavesL, List.mem_append] at h
    simp only [renameTipsL]
    rw [renameTipsN_back f g t (fun y hy => h y (Or.inl hy)), renameTipsL_back f g r (fun y hy => h y (Or.inr hy))]
end

theorem renameTips_back (f g : List (String × String)) (t : T)
    (h : ∀ y ∈ t.tipNames, renameKey g (renameKey f y) = y) : renameTips g (renameTips f t) = t := by
  cases t with
  | node d p k =>
    simp only [T.tipNames, T.kids_node, T.name, T.d_node, List.mem_append] at h
    simp only [renameTips, renameTipsL_length]
    rw [renameTipsL_back f g k (fun y hy => h y (Or.inr hy))]
    by_cases hk : k.length = 1
    · have := h d.name (Or.inl (by simp [hk]))
      simp [hk, this]
    · simp [hk]

theorem renameTipsChecked_of_strip_eq (m : List (String × String)) (a b : T) (h : strip a = strip b)
    (hb : (renameTipsChecked m b).isSome = true) :
    renameTipsChecked m a = some (renameTips m a) ∧ strip (renameTips m a) = strip (renameTips m b) ∧
      renameTipsChecked m b = some (renameTips m b) := by
  have hs : strip (renameTips m a) = strip (renameTips m b) := by rw [strip_renameTips, strip_renameTips, h]
  have ht : (renameTips m a).tipNames = (renameTips m b).tipNames := tipNames_of_strip_eq _ _ hs
  simp only [renameTipsChecked, ht] at hb ⊢
  by_cases h2 : hasDup (renameTips m b).tipNames = true
  · simp [h2] at hb
  · simp [h2, hs]

/-- one tree: written with its tips renamed to indices, read back as itself — NO condition on the
    inner names -/
theorem tr_tree_ok_tips (tips0 slice : List String) (t : T)
    (h0 : tips0.Nodup)
    (hsl : slice.Nodup) (hmem : ∀ x, x ∈ slice ↔ x ∈ tips0)
    (htm : ∀ x, x ∈ t.tipNames ↔ x ∈ tips0) (htn : t.tipNames.Nodup) :
    renameTipsChecked (tableOf (mapFrom 0 tips0) slice []) (renameTips (mapFrom 0 tips0) t) = some t := by
  have hM : ∀ x, x ∈ tips0 → ∃ j : Nat, lookup (mapFrom 0 tips0) x = some (toString j) := by
    intro x hx
    obtain ⟨v, hv⟩ := lookup_mapFrom_mem 0 tips0 x hx
    obtain ⟨j, _, hj⟩ := lookup_mapFrom_range 0 tips0 x v hv
    exact ⟨j, by rw [hv, hj]⟩
  have fin : ∀ x, x ∈ tips0 → ∃ j : Nat, renameKey (mapFrom 0 tips0) x = toString j ∧ idxOf (mapFrom 0 tips0) x = toString j := by
    intro x hx
    obtain ⟨j, hj⟩ := hM x hx
    exact ⟨j, by simp [renameKey, hj], by simp [idxOf, hj]⟩
  have idxinj : ∀ a ∈ slice, ∀ b ∈ slice, idxOf (mapFrom 0 tips0) a = idxOf (mapFrom 0 tips0) b → a = b := by
    intro a ha b hb he
    obtain ⟨ja, hja⟩ := hM a ((hmem a).1 ha)
    obtain ⟨jb, hjb⟩ := hM b ((hmem b).1 hb)
    simp only [idxOf, hja, hjb] at he
    rw [he] at hja
    exact lookup_mapFrom_inj 0 tips0 h0 a b _ hja hjb
  have hback : ∀ y ∈ t.tipNames,
      renameKey (tableOf (mapFrom 0 tips0) slice []) (renameKey (mapFrom 0 tips0) y) = y := by
    intro y hy
    have h := (htm y).1 hy
    obtain ⟨j, e1, e2⟩ := fin y h
    rw [e1, ← e2]
    have hl := tableOf_mem (mapFrom 0 tips0) slice [] y hsl idxinj ((hmem y).2 h)
    simp [renameKey, hl]
  have hb := renameTips_back _ _ t hback
  have htips : hasDup t.tipNames = false := (hasDup_false_iff _).2 htn
  simp [renameTipsChecked, hb, htips]

/- ## the writer's loop -/

theorem writeLoopTips_fst (C : NewickCodec) (tr : Bool) (its : List (Nat × T)) (s : WState) (buf : Txt) :
    (writeNexusLoopTips C tr its s buf).1 = stateLoop its s := by
  induction its generalizing s buf with
  | nil => rfl
  | cons it r ih => simp only [writeNexusLoopTips, stateLoop]; exact ih _ _

theorem writeLoopTips_snd (C : NewickCodec) (its : List (Nat × T)) (s : WState) (buf : Txt) :
    (writeNexusLoopTips C true its s buf).2 = buf ++ plainLines C (writtenListTips its s) := by
  induction its generalizing s buf with
  | nil => simp [writeNexusLoopTips, plainLines, writtenListTips]
  | cons it r ih =>
    simp only [writeNexusLoopTips, plainLines, writtenListTips]
    rw [ih]
    simp

/-- the document with a translate table, for a taxa count, a label list, a map and the written trees -/
def trDoc (C : NewickCodec) (n : Nat) (labels : List String) (m : List (String × String)) (W : List (Nat × T)) : Txt :=
  lit1 ++ (natTxt n ++ ';' :: (lit2a ++ (litTaxlabels ++ (labelsText labels ++ ';' :: (lit3a ++ (litTranslate ++
    (joinMap (translateLine m) labels ++ (litTrEnd ++ (plainLines C W ++ lit4)))))))))

theorem writeNexusTips_eq (C : NewickCodec) (its : List (Nat × T)) :
    writeNexusTips C true its =
      trDoc C (stateLoop its {}).map.length (stateLoop its {}).slice (stateLoop its {}).map (writtenListTips its {}) := by
  have h1 := writeLoopTips_fst C true its {} []
  have h2 := writeLoopTips_snd C its {} []
  unfold writeNexusTips trDoc
  simp only [h1, h2, if_true, List.nil_append, List.append_assoc]

theorem scan_trDoc (C : NewickCodec) (n : Nat) (labels : List String) (m : List (String × String)) (W : List (Nat × T))
    (hn : n ≤ 9223372036854775807)
    (hl : ∀ l ∈ labels, tokLabel l ∧ tokLabel (idxOf m l))
    (h : ∀ it ∈ W, ∃ body, C.write it.2 = body ++ [';'] ∧ ∀ c ∈ body, c ≠ '\r') :
    scan (trDoc C n labels m W) = .kw .nexus "#NEXUS" :: docToksTr (toString n) labels m (W.map (cmdOf C)) := by
  unfold scan trDoc
  rw [scanGo_lit lit1 _ (by decide),
    scanGo_word _ (natTxt_word _) ';' (by decide), classify_natTxt _ hn,
    scanGo_lit lit2a _ (by decide), scan_taxlabels _ (fun l hl' => (hl l hl').1), scanGo_lit lit3a _ (by decide),
    scanGo_lit litTranslate _ (by decide), scan_trLines _ _ hl, scanGo_lit litTrEnd _ (by decide),
    scan_lines C _ h]
  have k1 : scanGo lit1 none = [.kw .nexus "#NEXUS", .eol, .kw .begin_ "BEGIN", .kw .taxa "TAXA", .endcmd, .eol,
      .kw .dimensions "DIMENSIONS", .kw .ntax "NTAX", .equal] := by decide
  have k2 : scanGo lit2a none = [.eol] := by decide
  have k3 : scanGo lit3a none = [.eol, .kw .end_ "END", .endcmd, .eol, .kw .begin_ "BEGIN", .kw .trees "TREES", .endcmd, .eol] := by decide
  have k4 : scanGo lit4 none = [.kw .end_ "END", .endcmd, .eol] := by decide
  have k5 : scanGo litTranslate none = [.kw .translate "TRANSLATE", .eol] := by decide
  have k6 : scanGo litTrEnd none = [.endcmd, .eol] := by decide
  rw [k1, k2, k3, k4, k5, k6]
  simp [docToksTr, taxaToks, sepToks, isWs]

/- ## reading back -/

/-- per tree: translating the written tree back through the parsed table gives the original -/
def backOKTips (table : List (String × String)) (labs : List String) : List T → List (Nat × T) → Bool
  | [], [] => true
  | t :: ts, w :: ws =>
    (match renameTipsChecked table w.2 with
     | some b => sameKept b t && okTaxa labs b
     | none => false) && backOKTips table labs ts ws
  | _, _ => false

theorem buildTreesTips_tr (C : NewickCodec) (L : NewickLaws C) (table : List (String × String)) (labs : List String)
    (W : List (Nat × T)) (ts : List T) (i : Nat)
    (hw : ∀ w ∈ W, L.wf w.2 = true) (hb : backOKTips table labs ts W = true) :
    ∃ d, buildTreesTips C (some table) (some labs) ((W.map (cmdOf C)).map fun c => (c.name, c.body)) = some d ∧
      recsAre ts (recsOfTrees (d.map (·.2)) i) i = true := by
  induction W generalizing ts i with
  | nil =>
    cases ts with
    | nil => exact ⟨[], rfl, rfl⟩
    | cons _ _ => simp [backOKTips] at hb
  | cons w ws ih =>
    cases ts with
    | nil => simp [backOKTips] at hb
    | cons t ts =>
      simp only [backOKTips, Bool.and_eq_true] at hb
      have h1 := hw w (by simp)
      obtain ⟨body, hbd, _⟩ := L.write_shape w.2 h1
      have hp : C.parse ((C.write w.2).dropLast ++ [';']) = some (L.norm w.2) := by
        rw [hbd]; simp only [List.dropLast_concat]; rw [← hbd]; exact L.parse_write w.2 h1
      cases hrc : renameTipsChecked table w.2 with
      | none => rw [hrc] at hb; simp at hb
      | some b =>
        rw [hrc] at hb
        simp only [Bool.and_eq_true] at hb
        obtain ⟨e1, e2, e3⟩ := renameTipsChecked_of_strip_eq table (L.norm w.2) w.2 (L.norm_strip w.2 h1) (by rw [hrc]; rfl)
        have hbb : b = renameTips table w.2 := by rw [hrc] at e3; injection e3
        have htn : (renameTips table (L.norm w.2)).tipNames = b.tipNames := by
          rw [hbb]; exact tipNames_of_strip_eq _ _ e2
        have hok : okTaxa labs (renameTips table (L.norm w.2)) = true := by
          have := hb.1.2
          simp only [okTaxa] at this ⊢
          rw [htn]; exact this
        obtain ⟨d, hd, hr⟩ := ih ts (i + 1) (fun x hx => hw x (by simp [hx])) hb.2
        refine ⟨("tree" ++ toString w.1, renameTips table (L.norm w.2)) :: d, ?_, ?_⟩
        · show buildTreesTips C (some table) (some labs) (("tree" ++ toString w.1, (C.write w.2).dropLast) ::
            ((ws.map (cmdOf C)).map fun c => (c.name, c.body))) = _
          simp only [okTaxa] at hok
          simp only [buildTreesTips, hp, e1, hok, Bool.not_true, Bool.false_eq_true, if_false, hd]
        · simp only [List.map_cons, recsOfTrees, recsAre, Out.keptEq, beq_self_eq_true, Bool.true_and, Bool.and_eq_true]
          refine ⟨?_, hr⟩
          apply (sameKept_iff _ _).2
          rw [e2, ← hbb]
          exact (sameKept_iff _ _).1 hb.1.1

/-- `parseTips` on a document with a translate table -/
theorem parseTips_trDoc (C : NewickCodec) (L : NewickLaws C) (n : Nat) (labels : List String)
    (m : List (String × String)) (W : List (Nat × T)) (ts : List T)
    (hn : n ≤ 9223372036854775807) (hlen : n = labels.length)
    (hl : ∀ l ∈ labels, tokLabel l ∧ tokLabel (idxOf m l))
    (hnd : hasDup labels = false)
    (hw : ∀ w ∈ W, L.wf w.2 = true)
    (hs : ∀ w ∈ W, treeTextOK (C.write w.2) = true)
    (hb : backOKTips (tableOf m labels []) labels ts W = true) :
    ∃ d, Nex.parseTips C (trDoc C n labels m W) = .ok d ∧ recsAre ts (recsOfTrees (d.map (·.2)) 0) 0 = true := by
  have hbody : ∀ it ∈ W, ∃ body, C.write it.2 = body ++ [';'] ∧ ∀ c ∈ body, c ≠ '\r' := by
    intro it hit
    obtain ⟨body, hb', hc⟩ := L.write_shape it.2 (hw it hit)
    exact ⟨body, hb', fun c hc' => (hc c hc').2.1⟩
  have hcs : ∀ c ∈ W.map (cmdOf C), c.ok := by
    intro c hc
    obtain ⟨it, hit, rfl⟩ := List.mem_map.1 hc
    exact cmdOf_ok C it (hs it hit)
  have hkw : ∀ l ∈ labels, keywordOf l = none ∧ keywordOf (idxOf m l) = none :=
    fun l hl' => ⟨(hl l hl').1.2, (hl l hl').2.2⟩
  have hscan := scan_trDoc C n labels m W hn hl hbody
  have hnocr : (scan (trDoc C n labels m W)).contains .loneCR = false := by
    rw [hscan]
    rw [List.contains_eq_mem, decide_eq_false_iff_not]
    intro hm
    simp only [docToksTr, taxaToks, trLineToks, List.mem_cons, List.mem_append, List.mem_map, List.mem_flatMap,
      List.not_mem_nil, reduceCtorEq, false_or, or_false] at hm
    rcases hm with (⟨l, _, h⟩ | ⟨l, _, h⟩) | hm
    · exact classify_ne_loneCR l h
    · rcases h with h | h
      · exact classify_ne_loneCR _ h.symm
      · exact classify_ne_loneCR _ h.symm
    · simp only [cmdsToks, List.mem_flatMap] at hm
      obtain ⟨c, hc, hm⟩ := hm
      have hok := hcs c hc
      simp only [treeCmdToks, List.mem_append, List.mem_cons, List.not_mem_nil, or_false, reduceCtorEq, false_or] at hm
      rcases hm with h | h
      · exact classify_ne_loneCR _ h.symm
      · exact parseTreeStr_noCR _ _ _ _ hok.2.1 (by simp) h
  have hfold : labels.foldl insertLabel [] = labels := by
    rw [foldl_insertLabel _ [] (by simpa using hnd)]; simp
  obtain ⟨d, hd, hr⟩ := buildTreesTips_tr C L _ _ W ts 0 hw hb
  refine ⟨d, ?_, hr⟩
  unfold Nex.parseTips
  rw [hscan] at hnocr
  simp only [hscan, hnocr, Bool.false_eq_true, if_false]
  rw [parseLoop_doc_tr _ _ _ _ hkw hcs _ (by
    have := cmdsToks_length (W.map (cmdOf C))
    simp only [docToksTr, taxaToks, List.length_append, List.length_cons, List.length_nil, List.length_map] at this ⊢
    omega)]
  simp only [intVal_natStr, hfold, Option.getD_some, hlen]
  simp only [bne_self_eq_false, Bool.and_false, Bool.false_eq_true, if_false, hd]

/- ## the trees written, the final state -/

theorem loopTips_const (its : List (Nat × T)) (s : WState) (h : ∀ it ∈ its, ∀ x ∈ it.2.tipNames, x ∈ keys s) :
    writtenListTips its s = its.map (fun it => (it.1, renameTips s.map it.2)) := by
  induction its generalizing s with
  | nil => rfl
  | cons it r ih =>
    obtain ⟨h1, h2⟩ := stepState_map_const s it.2 (h it (by simp))
    have := ih (stepState s it.2) (fun x hx y hy => by rw [h2]; exact h x (by simp [hx]) y hy)
    simp only [writtenListTips, List.map_cons, writtenTreeTips, if_true, h1, this]

theorem backOKTips_of (table : List (String × String)) (labs : List String) (w : T → T) (ts : List T) (i : Nat)
    (h : ∀ t ∈ ts, renameTipsChecked table (w t) = some t ∧ okTaxa labs t = true) :
    backOKTips table labs ts ((enumFrom i ts).map fun it => (it.1, w it.2)) = true := by
  induction ts generalizing i with
  | nil => rfl
  | cons t r ih =>
    obtain ⟨h1, h2⟩ := h t (by simp)
    simp only [enumFrom, List.map_cons, backOKTips, h1, h2, Bool.and_true, Bool.and_eq_true]
    exact ⟨(sameKept_iff t t).2 rfl, ih (i + 1) (fun x hx => h x (by simp [hx]))⟩

/-- ★ the repair closes F60: with the tips-only renaming the translate-table round trip holds for trees
    on one tip set with legal, pairwise different tip labels — whatever the inner names are -/
theorem parseTips_writeTips (C : NewickCodec) (L : NewickLaws C) (t0 : T) (rest : List T)
    (htips : ∀ t ∈ t0 :: rest, tipsOK t = true) (hst : sameTaxa (t0 :: rest) = true)
    (hw : ∀ t ∈ t0 :: rest, L.wf (renameTips (mapFrom 0 t0.tipNames) t) = true)
    (hs : ∀ t ∈ t0 :: rest, treeTextOK (C.write (renameTips (mapFrom 0 t0.tipNames) t)) = true) :
    ∃ d, Nex.parseTips C (writeNexusTips C true (enumFrom 0 (t0 :: rest))) = .ok d ∧
      recsAre (t0 :: rest) (recsOfTrees (d.map (·.2)) 0) 0 = true := by
  have htips' : ∀ t ∈ t0 :: rest, t.tipNames.all labelOK = true ∧ hasDup t.tipNames = false ∧ t.tipNames.length ≤ 9223372036854775807 := by
    intro t ht
    have := htips t ht
    simp only [tipsOK, Bool.and_eq_true, Bool.not_eq_true', decide_eq_true_eq] at this
    exact ⟨this.1.1, this.1.2, this.2⟩
  obtain ⟨a1, a2, a3, a4, a5⟩ := nexusState_ok (t0 :: rest) htips' hst
  have h0nd : t0.tipNames.Nodup := (hasDup_false_iff _).1 (htips' t0 (by simp)).2.1
  have hperm : ∀ t ∈ t0 :: rest, ∀ x, x ∈ t.tipNames ↔ x ∈ t0.tipNames :=
    fun t ht x => (sameTaxa_perm _ hst t t0 ht (by simp)).mem_iff
  obtain ⟨hmap, _⟩ := loop_first t0 rest h0nd (fun t ht x hx => (hperm t (by simp [ht]) x).1 hx)
  obtain ⟨hinv, _⟩ := stateLoop_spec (enumFrom 0 (t0 :: rest)) {} inv_empty
  have hslmem : ∀ x, x ∈ (stateLoop (enumFrom 0 (t0 :: rest)) {}).slice ↔ x ∈ t0.tipNames := by
    intro x
    rw [hinv.perm.mem_iff]
    simp only [keys, hmap, keys_mapFrom]
  have hslnd : (stateLoop (enumFrom 0 (t0 :: rest)) {}).slice.Nodup := (hasDup_false_iff _).1 a4
  -- the trees written
  have hs1 : (stepState {} t0).map = mapFrom 0 t0.tipNames := by
    simp [stepState, addTips_fresh t0.tipNames {} h0nd (by simp [keys])]
  have hk1 : keys (stepState {} t0) = t0.tipNames := by simp only [keys, hs1, keys_mapFrom]
  have hmemE : ∀ (i : Nat) (l : List T) (it : Nat × T), it ∈ enumFrom i l → it.2 ∈ l := by
    intro i l
    induction l generalizing i with
    | nil => intro it h; simp [enumFrom] at h
    | cons t r ih =>
      intro it h
      simp only [enumFrom, List.mem_cons] at h
      rcases h with h | h
      · simp [h]
      · exact List.mem_cons_of_mem _ (ih (i + 1) it h)
  have hW : writtenListTips (enumFrom 0 (t0 :: rest)) {} =
      (enumFrom 0 (t0 :: rest)).map (fun it => (it.1, renameTips (mapFrom 0 t0.tipNames) it.2)) := by
    have := loopTips_const (enumFrom 1 rest) (stepState {} t0) (by
      intro it hit x hx
      rw [hk1]
      exact (hperm it.2 (by simp [hmemE 1 rest it hit]) x).1 hx)
    simp only [enumFrom, writtenListTips, List.map_cons, writtenTreeTips, if_true, hs1] at this ⊢
    rw [this]
  have hper : ∀ t ∈ t0 :: rest,
      renameTipsChecked (tableOf (mapFrom 0 t0.tipNames) (stateLoop (enumFrom 0 (t0 :: rest)) {}).slice [])
        (renameTips (mapFrom 0 t0.tipNames) t) = some t :=
    fun t ht => tr_tree_ok_tips t0.tipNames _ t h0nd hslnd hslmem (hperm t ht)
      ((hasDup_false_iff _).1 (htips' t ht).2.1)
  rw [writeNexusTips_eq, hW, hmap]
  apply parseTips_trDoc C L _ _ _ _ (t0 :: rest) (by rw [← hmap]; exact a1) (by rw [← hmap]; exact a2)
  · intro l hl
    refine ⟨labelOK_tokLabel l (a3 l hl), ?_⟩
    obtain ⟨v, hv⟩ := lookup_mapFrom_mem 0 t0.tipNames l ((hslmem l).1 hl)
    obtain ⟨j, _, hj⟩ := lookup_mapFrom_range 0 t0.tipNames l v hv
    simp only [idxOf, hv, hj]
    exact labelOK_tokLabel _ (labelOK_natStr j)
  · exact a4
  · intro w hw'
    obtain ⟨it, hit, rfl⟩ := List.mem_map.1 hw'
    exact hw it.2 (hmemE 0 _ it hit)
  · intro w hw'
    obtain ⟨it, hit, rfl⟩ := List.mem_map.1 hw'
    exact hs it.2 (hmemE 0 _ it hit)
  · exact backOKTips_of _ _ _ _ 0 (fun t ht => ⟨hper t ht, a5 t ht⟩)

end Gotree.C13
