package c01

// extract.go — facts about the SOURCE of the Newick code that the hand-written model (lean/Gotree/Model/C01.lean)
// silently assumes, regenerated on every run (vh gen-tables, go/parser only) into lean/Gotree/Gen/C01Syntax.lean
// and re-decided in Lean against the model functions themselves (Proofs/C01.lean, theorems `…TableCheck`):
//
//	io/newick/newick_token.go   the token constants, the eof sentinel, the characters of isWhitespace / isIdent
//	io/newick/newick_lexer.go   Scan's `switch ch`: which character gives which token (and under which guard)
//	io/newick/newick_parser.go  parseIter: the chain that decides where a comment goes (prevTok set, nil tests, receiver),
//	                            the prevTok sets of the label / tip decision, `len(vals) == 2` and the "/" separator,
//	                            the bit size of every ParseFloat (lexer and parser)
//	tree/edge.go                NIL_SUPPORT, NIL_LENGTH, NIL_PVALUE
//	tree/node.go Node.Newick    the sentinel guards (field, operator, constant), the name guard, the arguments of every
//	                            FormatFloat, the parenthesis condition
//
// What cannot be classified is written as "?" (or the code point 1114112): the Lean decision then fails and the
// check reports the table, after the case stream had its chance to find a failing input through the oracle.

import (
	"fmt"
	"go/ast"
	"go/parser"
	"go/token"
	"math/big"
	"os"
	"path/filepath"
	"strconv"
	"strings"
)

const badRune = 1114112 // not a code point

func xParse(fset *token.FileSet, path string) (*ast.File, error) {
	return parser.ParseFile(fset, path, nil, 0)
}

func xFunc(f *ast.File, recv, name string) *ast.FuncDecl {
	for _, d := range f.Decls {
		fd, ok := d.(*ast.FuncDecl)
		if !ok || fd.Name.Name != name || fd.Body == nil {
			continue
		}
		if recv == "" && fd.Recv == nil {
			return fd
		}
		if recv != "" && fd.Recv != nil && len(fd.Recv.List) == 1 {
			t := fd.Recv.List[0].Type
			if s, ok := t.(*ast.StarExpr); ok {
				t = s.X
			}
			if id, ok := t.(*ast.Ident); ok && id.Name == recv {
				return fd
			}
		}
	}
	return nil
}

func xStrip(e ast.Expr) ast.Expr {
	for {
		p, ok := e.(*ast.ParenExpr)
		if !ok {
			return e
		}
		e = p.X
	}
}

// xFlatten: the leaves of a tree of `op` (parentheses removed)
func xFlatten(e ast.Expr, op token.Token) []ast.Expr {
	e = xStrip(e)
	if b, ok := e.(*ast.BinaryExpr); ok && b.Op == op {
		return append(xFlatten(b.X, op), xFlatten(b.Y, op)...)
	}
	return []ast.Expr{e}
}

func xChar(e ast.Expr) int {
	if l, ok := xStrip(e).(*ast.BasicLit); ok && l.Kind == token.CHAR {
		if r, _, _, err := strconv.UnquoteChar(l.Value[1:len(l.Value)-1], '\''); err == nil {
			return int(r)
		}
	}
	return badRune
}

func xStr(e ast.Expr) string {
	switch v := xStrip(e).(type) {
	case *ast.Ident:
		return v.Name
	case *ast.SelectorExpr:
		return xStr(v.X) + "." + v.Sel.Name
	case *ast.CallExpr:
		if id, ok := v.Fun.(*ast.Ident); ok && id.Name == "len" && len(v.Args) == 1 {
			return "len(" + xStr(v.Args[0]) + ")"
		}
		return xStr(v.Fun) + "()"
	case *ast.IndexExpr:
		return xStr(v.X) + "[]"
	case *ast.StarExpr:
		return "*" + xStr(v.X)
	case *ast.BasicLit:
		return v.Value
	case *ast.UnaryExpr:
		return v.Op.String() + xStr(v.X)
	}
	return "?"
}

// xCmp: `<ident> <op> <y>` → (ident, op, y as text)
func xCmp(e ast.Expr) (x, op, y string, ok bool) {
	b, isb := xStrip(e).(*ast.BinaryExpr)
	if !isb {
		return "", "", "", false
	}
	return xStr(b.X), b.Op.String(), xStr(b.Y), true
}

func leanStrList(l []string) string {
	q := make([]string, len(l))
	for i, s := range l {
		q[i] = strconv.Quote(s)
	}
	return "[" + strings.Join(q, ", ") + "]"
}

func leanNatList(l []int) string {
	q := make([]string, len(l))
	for i, n := range l {
		q[i] = strconv.Itoa(n)
	}
	return "[" + strings.Join(q, ", ") + "]"
}

type xCommentRow struct {
	prev       []string
	edge, node string // "" (not tested), "nil", "nonnil"
	target     string // "edge", "node", "err", "?"
}

func xNilTest(op string) string {
	if op == "!=" {
		return "nonnil"
	}
	if op == "==" {
		return "nil"
	}
	return "?"
}

// xTarget: what the first statement of a block does with the comment
func xTarget(b *ast.BlockStmt) string {
	if b == nil || len(b.List) == 0 {
		return "?"
	}
	switch s := b.List[0].(type) {
	case *ast.ExprStmt:
		if c, ok := s.X.(*ast.CallExpr); ok {
			switch xStr(c.Fun) {
			case "edge.AddComment":
				return "edge"
			case "node.AddComment":
				return "node"
			}
		}
	case *ast.AssignStmt:
		if len(s.Lhs) == 1 && xStr(s.Lhs[0]) == "err" {
			return "err"
		}
	}
	return "?"
}

// xCommentCond: the conjunction `prevTok == A && edge != nil …` / `(prevTok == A || prevTok == B …) && node != nil`
func xCommentCond(e ast.Expr) (r xCommentRow) {
	for _, leaf := range xFlatten(e, token.LAND) {
		alts := xFlatten(leaf, token.LOR)
		for _, a := range alts {
			x, op, y, ok := xCmp(a)
			switch {
			case ok && x == "prevTok" && op == "==":
				r.prev = append(r.prev, y)
			case ok && x == "edge" && y == "nil" && len(alts) == 1:
				r.edge = xNilTest(op)
			case ok && x == "node" && y == "nil" && len(alts) == 1:
				r.node = xNilTest(op)
			default:
				r.prev = append(r.prev, "?")
			}
		}
	}
	return
}

func xRat(lit string) string {
	f, err := strconv.ParseFloat(lit, 64)
	if err != nil {
		return "((0 : Int) : Rat) / ((0 : Nat) : Rat)"
	}
	r := new(big.Rat).SetFloat64(f)
	if r == nil {
		return "((0 : Int) : Rat) / ((0 : Nat) : Rat)"
	}
	return fmt.Sprintf("((%s : Int) : Rat) / ((%s : Nat) : Rat)", r.Num().String(), r.Denom().String())
}

// GenTables writes lean/Gotree/Gen/C01Syntax.lean from the working tree `repo`.
func GenTables(repo, out string) error {
	fset := token.NewFileSet()
	ftok, err := xParse(fset, filepath.Join(repo, "io/newick/newick_token.go"))
	if err != nil {
		return err
	}
	flex, err := xParse(fset, filepath.Join(repo, "io/newick/newick_lexer.go"))
	if err != nil {
		return err
	}
	fpar, err := xParse(fset, filepath.Join(repo, "io/newick/newick_parser.go"))
	if err != nil {
		return err
	}
	fedge, err := xParse(fset, filepath.Join(repo, "tree/edge.go"))
	if err != nil {
		return err
	}
	fnode, err := xParse(fset, filepath.Join(repo, "tree/node.go"))
	if err != nil {
		return err
	}

	// ---- newick_token.go: constants, eof
	var tokens []string
	eof := "0"
	for _, d := range ftok.Decls {
		gd, ok := d.(*ast.GenDecl)
		if !ok {
			continue
		}
		for _, sp := range gd.Specs {
			vs, ok := sp.(*ast.ValueSpec)
			if !ok {
				continue
			}
			if gd.Tok == token.CONST {
				for _, n := range vs.Names {
					tokens = append(tokens, n.Name)
				}
			}
			if gd.Tok == token.VAR && len(vs.Names) == 1 && vs.Names[0].Name == "eof" && len(vs.Values) == 1 {
				if c, ok := vs.Values[0].(*ast.CallExpr); ok && len(c.Args) == 1 {
					eof = strings.ReplaceAll(xStr(c.Args[0]), " ", "")
				}
			}
		}
	}
	if v, err := strconv.ParseInt(eof, 0, 64); err != nil {
		eof = "0"
	} else {
		eof = strconv.FormatInt(v, 10)
	}
	var ws, identEx, identSemi []int
	if fd := xFunc(ftok, "", "isWhitespace"); fd != nil && len(fd.Body.List) == 1 {
		if rs, ok := fd.Body.List[0].(*ast.ReturnStmt); ok && len(rs.Results) == 1 {
			for _, leaf := range xFlatten(rs.Results[0], token.LOR) {
				if x, op, _, ok := xCmp(leaf); ok && x == "ch" && op == "==" {
					ws = append(ws, xChar(leaf.(*ast.BinaryExpr).Y))
				} else {
					ws = append(ws, badRune)
				}
			}
		}
	}
	if fd := xFunc(ftok, "", "isIdent"); fd != nil && len(fd.Body.List) == 1 {
		if rs, ok := fd.Body.List[0].(*ast.ReturnStmt); ok && len(rs.Results) == 1 {
			for _, leaf := range xFlatten(rs.Results[0], token.LAND) {
				alts := xFlatten(leaf, token.LOR)
				if len(alts) == 1 {
					if x, op, _, ok := xCmp(leaf); ok && x == "ch" && op == "!=" {
						identEx = append(identEx, xChar(xStrip(leaf).(*ast.BinaryExpr).Y))
					} else {
						identEx = append(identEx, badRune)
					}
				} else if len(alts) == 2 && xStr(alts[0]) == "ignoreSemiColumn" {
					// `(ignoreSemiColumn || ch != ';')`: excluded unless the flag is set
					if x, op, _, ok := xCmp(alts[1]); ok && x == "ch" && op == "!=" {
						identSemi = append(identSemi, xChar(xStrip(alts[1]).(*ast.BinaryExpr).Y))
					} else {
						identSemi = append(identSemi, badRune)
					}
				} else {
					identEx = append(identEx, badRune)
				}
			}
		}
	}

	// ---- newick_lexer.go: Scan's switch; ParseFloat bit sizes
	var scanRows []string
	var pfBits []int
	if fd := xFunc(flex, "Scanner", "Scan"); fd != nil {
		ast.Inspect(fd.Body, func(n ast.Node) bool {
			sw, ok := n.(*ast.SwitchStmt)
			if !ok || sw.Tag == nil || xStr(sw.Tag) != "ch" {
				return true
			}
			for _, st := range sw.Body.List {
				cc := st.(*ast.CaseClause)
				tok, guard := "?", ""
				if len(cc.Body) == 1 {
					switch s := cc.Body[0].(type) {
					case *ast.ReturnStmt:
						if len(s.Results) >= 1 {
							tok = xStr(s.Results[0])
						}
					case *ast.IfStmt:
						guard = xStr(s.Cond)
						if s.Else == nil && len(s.Body.List) == 1 {
							if r, ok := s.Body.List[0].(*ast.ReturnStmt); ok && len(r.Results) >= 1 {
								tok = xStr(r.Results[0])
							}
						}
					}
				}
				for _, e := range cc.List {
					ch := xChar(e)
					if id, ok := e.(*ast.Ident); ok && id.Name == "eof" {
						continue // the end of the input: `[]` in the model
					}
					scanRows = append(scanRows, fmt.Sprintf("(%d, %s, %s)", ch, strconv.Quote(tok), strconv.Quote(guard)))
				}
			}
			return false
		})
	}
	collectPF := func(root ast.Node) {
		ast.Inspect(root, func(n ast.Node) bool {
			if c, ok := n.(*ast.CallExpr); ok && xStr(c.Fun) == "strconv.ParseFloat" && len(c.Args) == 2 {
				b, err := strconv.Atoi(xStr(c.Args[1]))
				if err != nil {
					b = 0
				}
				pfBits = append(pfBits, b)
			}
			return true
		})
	}
	collectPF(flex)
	collectPF(fpar)

	// ---- newick_parser.go: parseIter
	var rows []xCommentRow
	var tipPrev, labelPrev []string
	splitSep, splitOp, splitN := "?", "?", 0
	if fd := xFunc(fpar, "Parser", "parseIter"); fd != nil {
		ast.Inspect(fd.Body, func(n ast.Node) bool {
			sw, ok := n.(*ast.SwitchStmt)
			if !ok || sw.Tag == nil || xStr(sw.Tag) != "tok" {
				return true
			}
			for _, st := range sw.Body.List {
				cc := st.(*ast.CaseClause)
				var names []string
				for _, e := range cc.List {
					names = append(names, xStr(e))
				}
				switch strings.Join(names, ",") {
				case "OPENBRACK":
					for _, s := range cc.Body {
						is, ok := s.(*ast.IfStmt)
						if !ok || is.Init != nil {
							continue
						}
						for is != nil {
							r := xCommentCond(is.Cond)
							r.target = xTarget(is.Body)
							rows = append(rows, r)
							switch e := is.Else.(type) {
							case *ast.IfStmt:
								is = e
							case *ast.BlockStmt:
								rows = append(rows, xCommentRow{prev: []string{"*"}, target: xTarget(e)})
								is = nil
							default:
								is = nil
							}
						}
					}
				case "IDENT,NUMERIC":
					for _, s := range cc.Body {
						is, ok := s.(*ast.IfStmt)
						if !ok {
							continue
						}
						// `if prevTok == CLOSEPAR { label } else { if prevTok != OPENPAR && prevTok != NEWSIBLING { error } … }`
						for _, leaf := range xFlatten(is.Cond, token.LOR) {
							if x, op, y, ok := xCmp(leaf); ok && x == "prevTok" && op == "==" {
								labelPrev = append(labelPrev, y)
							} else {
								labelPrev = append(labelPrev, "?")
							}
						}
						if eb, ok := is.Else.(*ast.BlockStmt); ok && len(eb.List) > 0 {
							if g, ok := eb.List[0].(*ast.IfStmt); ok {
								for _, leaf := range xFlatten(g.Cond, token.LAND) {
									if x, op, y, ok := xCmp(leaf); ok && x == "prevTok" && op == "!=" && xTarget(g.Body) == "err" {
										tipPrev = append(tipPrev, y)
									} else {
										tipPrev = append(tipPrev, "?")
									}
								}
							}
						}
					}
					ast.Inspect(cc, func(m ast.Node) bool {
						if c, ok := m.(*ast.CallExpr); ok && xStr(c.Fun) == "strings.Split" && len(c.Args) == 2 {
							if s, err := strconv.Unquote(xStr(c.Args[1])); err == nil {
								splitSep = s
							}
						}
						if b, ok := m.(*ast.BinaryExpr); ok && xStr(b.X) == "len(vals)" {
							splitOp = b.Op.String()
							splitN, _ = strconv.Atoi(xStr(b.Y))
						}
						return true
					})
				}
			}
			return false
		})
	}

	// ---- tree/edge.go: sentinels
	nils := map[string]string{}
	for _, d := range fedge.Decls {
		gd, ok := d.(*ast.GenDecl)
		if !ok || gd.Tok != token.CONST {
			continue
		}
		for _, sp := range gd.Specs {
			vs := sp.(*ast.ValueSpec)
			for i, n := range vs.Names {
				if i < len(vs.Values) {
					nils[n.Name] = strings.ReplaceAll(xStr(vs.Values[i]), " ", "")
				}
			}
		}
	}

	// ---- tree/node.go: Node.Newick
	var guards, ffRows, parenRows []string
	var nameGuard []string
	if fd := xFunc(fnode, "Node", "Newick"); fd != nil {
		ast.Inspect(fd.Body, func(n ast.Node) bool {
			switch v := n.(type) {
			case *ast.IfStmt:
				for _, leaf := range xFlatten(v.Cond, token.LAND) {
					alts := xFlatten(leaf, token.LOR)
					if len(alts) > 1 {
						// the parenthesis condition `len(n.neigh) > 1 || parent == nil`
						var parts []string
						for _, a := range alts {
							x, op, y, _ := xCmp(a)
							parts = append(parts, fmt.Sprintf("(%s, %s, %s)", strconv.Quote(x), strconv.Quote(op), strconv.Quote(y)))
						}
						parenRows = append(parenRows, "["+strings.Join(parts, ", ")+"]")
						continue
					}
					x, op, y, ok := xCmp(leaf)
					if !ok {
						continue
					}
					if strings.HasPrefix(y, "NIL_") {
						f := x[strings.LastIndex(x, ".")+1:]
						guards = append(guards, fmt.Sprintf("(%s, %s, %s)", strconv.Quote(f), strconv.Quote(op), strconv.Quote(y)))
					}
					if x == "child.Name()" {
						nameGuard = append(nameGuard, op, y)
					}
				}
			case *ast.CallExpr:
				if xStr(v.Fun) == "strconv.FormatFloat" && len(v.Args) == 4 {
					prec, err1 := strconv.Atoi(strings.ReplaceAll(xStr(v.Args[2]), " ", ""))
					bits, err2 := strconv.Atoi(xStr(v.Args[3]))
					if err1 != nil || err2 != nil {
						prec, bits = 0, 0
					}
					ffRows = append(ffRows, fmt.Sprintf("(%d, %d, %d)", xChar(v.Args[1]), prec, bits))
				}
			}
			return true
		})
	}

	var b strings.Builder
	b.WriteString("-- GENERATED by harness/c01/extract.go (vh gen-tables) from the working tree of the repository; do not edit\n")
	b.WriteString("namespace Gotree.Gen.C01\n\n")
	b.WriteString("/-- the constants of newick_token.go, in order (iota) -/\n")
	b.WriteString("def tokens : List String := " + leanStrList(tokens) + "\n")
	b.WriteString("/-- `var eof = rune(…)` -/\n")
	b.WriteString("def eofRune : Int := " + eof + "\n")
	b.WriteString("/-- isWhitespace: `ch == c` for … -/\n")
	b.WriteString("def whitespace : List Nat := " + leanNatList(ws) + "\n")
	b.WriteString("/-- isIdent: `ch != c` for …, and the characters excluded unless ignoreSemiColumn -/\n")
	b.WriteString("def identExcluded : List Nat := " + leanNatList(identEx) + "\n")
	b.WriteString("def identSemi : List Nat := " + leanNatList(identSemi) + "\n")
	b.WriteString("/-- Scanner.Scan `switch ch`: (character, token returned, guard) -/\n")
	b.WriteString("def scanSwitch : List (Nat × String × String) := [" + strings.Join(scanRows, ", ") + "]\n")
	b.WriteString("/-- bit size of every strconv.ParseFloat of the lexer and the parser -/\n")
	b.WriteString("def parseFloatBits : List Nat := " + leanNatList(pfBits) + "\n")
	b.WriteString("/-- parseIter, case OPENBRACK: (prevTok alternatives, test on edge, test on node, receiver of the comment); `*` = else -/\n")
	var rr []string
	for _, r := range rows {
		rr = append(rr, fmt.Sprintf("(%s, %s, %s, %s)", leanStrList(r.prev), strconv.Quote(r.edge), strconv.Quote(r.node), strconv.Quote(r.target)))
	}
	b.WriteString("def commentChain : List (List String × String × String × String) := [" + strings.Join(rr, ",\n  ") + "]\n")
	b.WriteString("/-- parseIter, case IDENT/NUMERIC: a label after these prevTok, a tip after those (anything else is an error) -/\n")
	b.WriteString("def labelPrev : List String := " + leanStrList(labelPrev) + "\n")
	b.WriteString("def tipPrev : List String := " + leanStrList(tipPrev) + "\n")
	b.WriteString("/-- `vals := strings.Split(lit, sep)`, `len(vals) op n` -/\n")
	b.WriteString(fmt.Sprintf("def splitLabel : String × String × Nat := (%s, %s, %d)\n", strconv.Quote(splitSep), strconv.Quote(splitOp), splitN))
	b.WriteString("/-- tree/edge.go -/\n")
	for _, k := range []string{"NIL_SUPPORT", "NIL_LENGTH", "NIL_PVALUE"} {
		b.WriteString(fmt.Sprintf("def %s : Rat := %s\n", strings.ToLower(strings.Replace(k, "NIL_", "nil_", 1)), xRat(nils[k])))
	}
	b.WriteString("/-- Node.Newick: (field, operator, sentinel) of every presence test; the test on the child's name; the\n    (format, precision, bit size) of every FormatFloat; the alternatives of every parenthesis condition -/\n")
	b.WriteString("def writerGuards : List (String × String × String) := [" + strings.Join(guards, ", ") + "]\n")
	b.WriteString("def writerNameGuard : List String := " + leanStrList(nameGuard) + "\n")
	b.WriteString("def formatFloat : List (Nat × Int × Nat) := [" + strings.Join(ffRows, ", ") + "]\n")
	b.WriteString("def parenConds : List (List (String × String × String)) := [" + strings.Join(parenRows, ", ") + "]\n")
	b.WriteString("\nend Gotree.Gen.C01\n")
	return os.WriteFile(filepath.Join(out, "C01Syntax.lean"), []byte(b.String()), 0644)
}
