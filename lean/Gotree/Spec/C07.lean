/-
  C07 — what "collapse removes exactly the targeted branches" and "resolve only refines"
  mean, as Bool-valued predicates over the tree BEFORE and the tree AFTER (both read
  from α dumps of the implementation), built on the unrooted vocabulary of
  Spec/Splits.lean (`canonSide`, `lightSize`, `distMatrix`, `binary`, `noSingle`).
  Nothing here mentions the model of the operation.  Core Lean only.
-/
import Gotree.Spec.Splits

namespace Gotree.C07
open Gotree

/-- A branch as the property sees it: the split (canonical side over the taxa of the
    tree before), length, support, whether it is a tip branch, the name of the node
    below it, whether it hangs off the root, and the topological depth. -/
structure Ent where
  side : List String
  len : Rat
  sup : Rat
  tip : Bool
  name : String
  root : Bool
  depth : Nat
  id : Int
  /-- PROTECTED: the branch hangs off a root that has exactly two neighbours (a root branch of a rooted
      tree) -/
  prot : Bool
  deriving Repr, BEq

/- `upTip`: the node above is a tip (only possible for the root, when it has a single
   neighbour): the branch is then a tip branch whatever is below.
   `pdeg2`: the node above is the root and has exactly two neighbours. -/
mutual
def entsT (all : List String) : T → List Ent
  | .node _ _ k => entsL all false false false k
def entsL (all : List String) (top upTip pdeg2 : Bool) : Kids → List Ent
  | [] => []
  | (e, c) :: r =>
    ⟨canonSide all c.leaves, e.len, e.sup, c.isLeaf || upTip, c.name, top, lightSize all c.leaves, e.id,
      pdeg2⟩ ::
      (entsT all c ++ entsL all top upTip pdeg2 r)
end

def ents (all : List String) (t : T) : List Ent :=
  entsL all true (t.kids.length == 1) (t.kids.length == 2) t.kids

/-- The documented criteria. -/
inductive Crit
  | len (l : Rat)            -- length <= l        (an absent length is the sentinel -1)
  | sup (s : Rat)            -- support present and < s
  | depth (mn mx : Int)      -- mn <= topological depth <= mx
  | ids (l : List Int)       -- RemoveEdges called directly: the branch is one of those given

def Crit.holds : Crit → Ent → Bool
  | .len l, e => decide (e.len ≤ l)
  | .sup s, e => e.sup != NIL && decide (e.sup < s)
  | .depth mn mx, e => decide (mn ≤ (e.depth : Int)) && decide ((e.depth : Int) ≤ mx)
  | .ids l, e => l.contains e.id

/-- what is compared: split, length, support, name of the node below -/
abbrev Key := List String × Rat × Rat × String

def Ent.key (e : Ent) : Key := (e.side, e.len, e.sup, e.name)

/-- multiset inclusion / difference on lists -/
def msub {α : Type} [BEq α] : List α → List α → Bool
  | [], _ => true
  | x :: r, l => l.contains x && msub r (l.erase x)

def mdiff {α : Type} [BEq α] (l : List α) : List α → List α
  | [] => l
  | x :: r => mdiff (l.erase x) r

def meq {α : Type} [BEq α] (a b : List α) : Bool := a.length == b.length && msub a b

/-- Is the branch in the region where the property makes its exact-set claim?
    Not for the two root branches of a rooted tree. -/
def exactRegion (b : T) (e : Ent) : Bool := !(b.rooted && e.root)

/-- The collapse post-condition.  `rt` = the documented `--tips` behaviour (a tip branch that
    meets the criterion gets length 0, nothing else happens to it).
    * no tip lost, none invented, root node untouched;
    * every branch that is a tip or does not meet the criterion is still there with its
      length, support and node name (MANDATORY);
    * every inner branch that meets the criterion and is not PROTECTED is gone — also in trees with
      single-child inner nodes (strict since fix 82ce8b8);
    * a PROTECTED inner branch that meets the criterion may stay or go (OPTIONAL): the two root
      branches of a rooted tree, where the property makes no claim (the code keeps them unless
      `--root`);
    * nothing else exists afterwards. -/
def collapseOK (crit : Crit) (rt : Bool) (b a : T) : Bool :=
  let all := b.tipNames
  let eb := ents all b
  let ea := ents all a
  let mand := eb.filterMap fun e =>
    if e.tip then some (if rt && crit.holds e then ({ e with len := 0 } : Ent).key else e.key)
    else if crit.holds e then none else some e.key
  let opt := eb.filterMap fun e =>
    if !e.tip && crit.holds e && e.prot then some e.key else none
  sortS a.tipNames == sortS all
    && a.name == b.name
    && msub mand (ea.map Ent.key)
    && msub (mdiff (ea.map Ent.key) mand) opt

/-- Which sub-clause fails (for the detail string). -/
def collapseWhy (crit : Crit) (rt : Bool) (b a : T) : String :=
  let all := b.tipNames
  let eb := ents all b
  let ea := ents all a
  let mand := eb.filterMap fun e =>
    if e.tip then some (if rt && crit.holds e then ({ e with len := 0 } : Ent).key else e.key)
    else if crit.holds e then none else some e.key
  if sortS a.tipNames != sortS all then "tip set changed"
  else if a.name != b.name then "root node changed"
  else if !(msub mand (ea.map Ent.key)) then "a branch that must stay (tip, or criterion not met) is missing or changed"
  else "a branch that meets the criterion survived, or a branch was invented"

/- at most two children below the root -/
mutual
def deg3Below : T → Bool
  | .node _ _ k => decide (k.length ≤ 2) && deg3L k
def deg3L : Kids → Bool
  | [] => true
  | (_, t) :: r => deg3Below t && deg3L r
end

/-- no node with more than three neighbours -/
def deg3 (t : T) : Bool := decide (t.kids.length ≤ 3) && deg3L t.kids

/-- The resolve post-condition:
    same tips, same root; every branch before is a branch after (split, length, support,
    node name); what was added are inner branches of length 0 without support under
    unnamed nodes; all tip-to-tip distances equal; and the result is binary whenever the
    input had no single-child node and a root of degree ≥ 2; in every case (single-child nodes
    included) no node is left with more than three neighbours. -/
def resolveOK (b a : T) : Bool :=
  let all := b.tipNames
  let kb := (ents all b).map Ent.key
  let ka := (ents all a).map Ent.key
  sortS a.tipNames == sortS all
    && a.name == b.name
    && msub kb ka
    && ((mdiff ((ents all a).map fun e => (e.key, e.tip)) ((ents all b).map fun e => (e.key, e.tip))).all
          fun x => x.1.2.1 == 0 && x.1.2.2.1 == NIL && x.1.2.2.2 == "" && !x.2)
    && a.distMatrix == b.distMatrix
    && (!(b.noSingle && 2 ≤ b.kids.length) || a.binary)
    && deg3 a

def resolveWhy (b a : T) : String :=
  let all := b.tipNames
  let kb := (ents all b).map Ent.key
  let ka := (ents all a).map Ent.key
  if sortS a.tipNames != sortS all then "tip set changed"
  else if a.name != b.name then "root node changed"
  else if !(msub kb ka) then "an original branch is missing or changed"
  else if a.distMatrix != b.distMatrix then "a tip-to-tip distance changed"
  else if (b.noSingle && 2 ≤ b.kids.length) && !a.binary then "result is not binary"
  else if !(deg3 a) then "a node is left with more than three neighbours"
  else "an added branch is not (inner, length 0, no support, unnamed node)"

/-- obs_C07 (DESIGN §4.2): split map with lengths/supports/node names, multiset of node
    names, distance matrix, binary?  Two trees are compared through this only. -/
def obsEq (x y : T) : Bool :=
  let all := x.tipNames
  sortS x.tipNames == sortS y.tipNames
    && meq ((ents all x).map Ent.key) ((ents all y).map Ent.key)
    && sortS x.nodeNames == sortS y.nodeNames
    && x.distMatrix == y.distMatrix
    && x.binary == y.binary

end Gotree.C07
