/-
  C10 lemmas, part F: the oracle predicates of Spec/C10.lean (what the driver
  evaluates on the implementation's output) hold of the model's own output.
-/
import Gotree.Lemmas.C10Inv

namespace Gotree.C10
open Gotree

theorem zipAll_map {α β : Type} (f : α → β → Bool) (g : α → β) : ∀ (l : List α),
    zipAll f l (l.map g) = l.all fun a => f a (g a)
  | [] => rfl
  | a :: l => by simp [zipAll, zipAll_map f g l]

theorem absR_zero : absR 0 = 0 := by decide

theorem approxRel_refl (x : Rat) : approxRel x x = true := by
  unfold approxRel
  have : x - x = 0 := by grind
  rw [this, absR_zero, Rat.zero_mul]
  unfold absR
  split
  · simpa using ‹x ≥ 0›
  · have : ¬ x ≥ 0 := ‹_›
    have : 0 ≤ -x := by grind
    simpa using this

theorem approxAbs_refl (x : Rat) : approxAbs x x = true := by
  unfold approxAbs
  have : x - x = 0 := by grind
  rw [this, absR_zero, Rat.zero_mul]
  decide

theorem trivial_iff {all : List String} {s : SplitE} (ht : s.tip = true → s.below.length = 1) :
    (s.tip || decide (depth all s.below ≤ 1)) = !decide (2 ≤ depth all s.below) := by
  by_cases h2 : 2 ≤ depth all s.below
  · have hnt : s.tip = false := by
      cases hst : s.tip with
      | false => rfl
      | true => have := ht hst; have := depth_le_left all s.below; omega
    have : ¬ depth all s.below ≤ 1 := by omega
    simp [h2, hnt, this]
  · have : depth all s.below ≤ 1 := by omega
    simp [h2, this]

/-- the oracle of FBP accepts the supports the definitions give -/
theorem fbpOK_expected (r : T) (bs : List T) (h : hypOK r bs = true) :
    fbpOK r bs (fbpExpected r bs) = true := by
  unfold fbpOK fbpExpected
  rw [zipAll_map, List.all_eq_true]
  intro s hs
  unfold fbpEdgeOK fbpOf
  have ht := trivial_iff (all := r.tipNames) (s := s) (tip_belowL r.kids s hs)
  by_cases h2 : 2 ≤ depth r.tipNames s.below
  · have hc : (s.tip || decide (depth r.tipNames s.below ≤ 1)) = false := by rw [ht]; simp [h2]
    simp only [hc, Bool.false_eq_true, if_false, h2, if_true]
    obtain ⟨a, b, c, _⟩ := edge_facts r bs h s hs h2
    simp [approxRel_refl, unit, a, Rat.le_trans b c]
  · have hc : (s.tip || decide (depth r.tipNames s.below ≤ 1)) = true := by rw [ht]; simp [h2]
    simp [hc, h2]

/-- the oracle of TBE accepts the supports the definitions give -/
theorem tbeOK_expected (r : T) (bs : List T) (h : hypOK r bs = true) :
    tbeOK r bs (tbeExpected r bs) = true := by
  unfold tbeOK tbeExpected
  rw [zipAll_map, List.all_eq_true]
  intro s hs
  unfold tbeEdgeOK tbeOf
  have ht := trivial_iff (all := r.tipNames) (s := s) (tip_belowL r.kids s hs)
  by_cases h2 : 2 ≤ depth r.tipNames s.below
  · have hc : (s.tip || decide (depth r.tipNames s.below ≤ 1)) = false := by rw [ht]; simp [h2]
    simp only [hc, Bool.false_eq_true, if_false, h2, if_true]
    obtain ⟨a, b, c, d⟩ := edge_facts r bs h s hs h2
    have e := tbeSpec_eq_pure r bs h s hs h2
    have hu : unit (tbeSpec r.tipNames s.below bs) = true := by
      simp [unit, Rat.le_trans a b, c]
    have hone : ((tbeSpec r.tipNames s.below bs == 1) == bs.all (containsSplit r.tipNames s.below)) = true := by
      rw [beq_iff_eq, Bool.eq_iff_iff, beq_iff_eq, List.all_eq_true]
      exact d
    rw [← e, approxAbs_refl, hu, hone]
    rfl
  · have hc : (s.tip || decide (depth r.tipNames s.below ≤ 1)) = true := by rw [ht]; simp [h2]
    simp [hc, h2]

theorem zipAll_map_zip {α : Type} (f : α → Rat × Rat → Bool) (g₁ g₂ : α → Rat) : ∀ (l : List α),
    zipAll f l ((l.map g₁).zip (l.map g₂)) = l.all fun a => f a (g₁ a, g₂ a)
  | [] => rfl
  | a :: l => by simp [zipAll, zipAll_map_zip f g₁ g₂ l]

theorem fbpLeTbeOK_expected (r : T) (bs : List T) (h : hypOK r bs = true) :
    fbpLeTbeOK r (fbpExpected r bs) (tbeExpected r bs) = true := by
  unfold fbpLeTbeOK fbpExpected tbeExpected
  rw [zipAll_map_zip, List.all_eq_true]
  intro s hs
  have ht := trivial_iff (all := r.tipNames) (s := s) (tip_belowL r.kids s hs)
  by_cases h2 : 2 ≤ depth r.tipNames s.below
  · have hc : (s.tip || decide (depth r.tipNames s.below ≤ 1)) = false := by rw [ht]; simp [h2]
    obtain ⟨_, b, _, _⟩ := edge_facts r bs h s hs h2
    have hb : fbpOf r bs s ≤ tbeOf r bs s := by
      unfold fbpOf tbeOf; simp only [h2, if_true]; exact b
    have key : fbpOf r bs s * (1125899906842624 : Rat) ≤ tbeOf r bs s * (1125899906842624 : Rat) + 1 := by
      have := Rat.mul_le_mul_of_nonneg_right hb (show (0 : Rat) ≤ 1125899906842624 by decide)
      grind
    rw [hc]
    simpa using key
  · have hc : (s.tip || decide (depth r.tipNames s.below ≤ 1)) = true := by rw [ht]; simp [h2]
    rw [hc]; rfl

end Gotree.C10
