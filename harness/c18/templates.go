package c18

import (
	"fmt"
	"sort"
	"strings"

	"verifharness/core"
)

// generated inputs shared by the templates of one repetition
type inputs struct {
	seed     int64
	tips     []string
	tree     string // one tree, ≥ 10 tips, multifurcations, lengths (some absent / zero), supports
	rooted   string // a rooted binary-ish tree on the same tips
	rooted2  string // a rooted tree on other tips (merge)
	tree2    string // a tree on an overlapping tip set (compare tips, prune)
	multi    string // several trees on the same tips
	named    string // rooted tree with every node named (mutations)
	states   string // tip<TAB>state
	protein  string // fasta, tips only, with X, - and *
	nucl     string // fasta, tips only, with IUPAC codes
	anc      string // fasta for every node of `named`
	tiplist  string
	mapfile  string
	outgroup []string
	nexus    string // `multi` in Nexus format with a TRANSLATE block
	chainmap string // a rename map that permutes the tip names (every new name is also an old name)
	numeric  string // several trees whose tip names are the numbers 0..n-1, in shuffled order
	statesCI string // tip states that differ only by case (A / a / B / b): ties for any case-insensitive ordering
	big      string // one tree of 100-140 tips (many per-branch records: worker pools need them to show an order)
	dupmap   string // a rename map whose lines share their second column (non-injective when read with --revert)
	similar  string // several trees SHARING most of their bipartitions (4 x rooted, tree, one of multi): a consensus with many inner branches, comparisons with common branches
}

func toNewick(n *core.N) string {
	t, err := core.Build(n)
	if err != nil {
		panic(err)
	}
	return t.Newick()
}

func nameInner(n *core.N, k *int) {
	if len(n.Kids) > 0 {
		n.Name = fmt.Sprintf("I%d", *k)
		*k++
		if n.E != nil {
			n.E.Sup = -1
		}
	}
	for _, c := range n.Kids {
		nameInner(c, k)
	}
}

func allNames(n *core.N, out *[]string) {
	*out = append(*out, n.Name)
	for _, c := range n.Kids {
		allNames(c, out)
	}
}

func genInputs(c *core.Ctx, rep int) *inputs {
	g := c.G
	in := &inputs{seed: int64(1 + g.Intn(1000))}
	switch g.Intn(6) { // seeds of every kind, except -1 (= "no seed": the clock is read, by design)
	case 0:
		in.seed = 0
	case 1:
		in.seed = -2 - int64(g.Intn(50))
	case 2:
		in.seed = 1<<40 + int64(g.Intn(1000))
	}
	ntips := 14 + g.Intn(c.Scale(8, 30))
	o := core.DefaultOpts()
	o.MinTips, o.MaxTips = ntips, ntips
	o.Lengths, o.Supports = 2, 2
	o.Rooted = 0
	o.InnerNames = 0
	if rep%3 == 2 {
		// degenerate / decorated shapes: single-child inner nodes, node and branch comments, inner names,
		// and (one time in two) a two-tip tree hanging under the root so that small clades abound
		o.Singles = 0.15
		o.Comments = 0.3
		o.InnerNames = 0.2
		o.Multif = 0.5
	}
	n, _ := g.Tree(o)
	in.tree = toNewick(n)
	in.tips = n.TipNames()
	sort.Strings(in.tips)
	o.Rooted = 1
	o.Multif = 0
	nr, _ := g.Tree(o)
	in.rooted = toNewick(nr)
	o2 := o
	o2.TipPrefix = "u"
	o2.MinTips, o2.MaxTips = 8, 12
	nr2, _ := g.Tree(o2)
	in.rooted2 = toNewick(nr2)
	// overlapping tip set: tips t3.. plus some new ones
	o3 := o
	o3.Rooted = 2
	o3.TipPrefix = "t"
	o3.MinTips, o3.MaxTips = ntips+9, ntips+9
	n3, _ := g.Tree(o3)
	// rename the first 9 (by index) so that the two trees differ on ≥ 8 tips each way
	var ren func(x *core.N)
	ren = func(x *core.N) {
		if len(x.Kids) == 0 {
			var i int
			fmt.Sscanf(x.Name, "t%d", &i)
			if i < 9 {
				x.Name = fmt.Sprintf("w%d", i)
			}
		}
		for _, k := range x.Kids {
			ren(k)
		}
	}
	ren(n3)
	in.tree2 = toNewick(n3)
	// several trees on the same tips
	om := o
	om.Rooted = 0
	om.Multif = 0.2
	var mb strings.Builder
	for i := 0; i < 9; i++ {
		m, _ := g.Tree(om)
		mb.WriteString(toNewick(m) + "\n")
	}
	in.multi = mb.String()
	in.similar = in.rooted + "\n" + in.rooted + "\n" + in.tree + "\n" + in.rooted + "\n" + strings.SplitAfter(in.multi, "\n")[0] + in.rooted + "\n"
	// every node named
	on := o
	on.Rooted = 1
	on.Lengths = 1
	on.Supports = 0
	nn, _ := g.Tree(on)
	k := 0
	nameInner(nn, &k)
	in.named = toNewick(nn)
	// states: few states so that ancestral states are ambiguous; ≥ 8 map entries (one per tip)
	st := []string{"A", "B", "C", "DD", "E"}
	var sb strings.Builder
	for _, t := range in.tips {
		fmt.Fprintf(&sb, "%s\t%s\n", t, st[g.Intn(len(st))])
	}
	in.states = sb.String()
	// protein alignment with X
	aa := "ARNDCQEGHILKMFPSTWYV"
	ncol := 12 + g.Intn(10)
	var pb strings.Builder
	base := make([]byte, ncol)
	for j := range base {
		base[j] = aa[g.Intn(4)]
	}
	for _, t := range in.tips {
		fmt.Fprintf(&pb, ">%s\n", t)
		for j := 0; j < ncol; j++ {
			r := g.Intn(20)
			switch {
			case r < 5:
				pb.WriteByte('X')
			case r == 5:
				pb.WriteByte('-')
			case r == 6:
				pb.WriteByte('*')
			case r < 12:
				pb.WriteByte(aa[g.Intn(len(aa))])
			default:
				pb.WriteByte(base[j])
			}
		}
		pb.WriteByte('\n')
	}
	in.protein = pb.String()
	nt := "ACGT"
	amb := "NRYSWKM"
	var nb strings.Builder
	for _, t := range in.tips {
		fmt.Fprintf(&nb, ">%s\n", t)
		for j := 0; j < ncol; j++ {
			r := g.Intn(10)
			switch {
			case r < 2:
				nb.WriteByte(amb[g.Intn(len(amb))])
			case r == 2:
				nb.WriteByte('-')
			default:
				nb.WriteByte(nt[g.Intn(2)])
			}
		}
		nb.WriteByte('\n')
	}
	in.nucl = nb.String()
	// ancestral alignment: every node of `named`, 2-letter alphabet so that the same mutation emerges several times
	var names []string
	allNames(nn, &names)
	var ab strings.Builder
	for _, nm := range names {
		fmt.Fprintf(&ab, ">%s\n", nm)
		for j := 0; j < ncol; j++ {
			ab.WriteByte("AC"[g.Intn(2)])
		}
		ab.WriteByte('\n')
	}
	in.anc = ab.String()
	// tip list: half of the tips and ≥ 8 names unknown to the tree
	var tl strings.Builder
	for i, t := range in.tips {
		if i%2 == 0 {
			tl.WriteString(t + "\n")
		}
	}
	for i := 0; i < 10; i++ {
		fmt.Fprintf(&tl, "zz%d\n", g.Intn(1000)*10+i)
	}
	in.tiplist = tl.String()
	var mf strings.Builder
	for _, t := range in.tips {
		fmt.Fprintf(&mf, "%s\tnew_%s\n", t, t)
	}
	in.mapfile = mf.String()
	// chained renames: a cyclic shift of the tip names plus a few 2-cycles' worth of chains a->b, b->c
	var cm strings.Builder
	shift := 1 + g.Intn(3)
	for i, t := range in.tips {
		fmt.Fprintf(&cm, "%s\t%s\n", t, in.tips[(i+shift)%len(in.tips)])
	}
	in.chainmap = cm.String()
	onum := om
	onum.TipPrefix = ""
	var nb2 strings.Builder
	for i := 0; i < 4; i++ {
		m, _ := g.Tree(onum)
		nb2.WriteString(toNewick(m) + "\n")
	}
	in.numeric = nb2.String()
	{
		ci := []string{"A", "a", "B", "b"}
		var sb2 strings.Builder
		for _, t := range in.tips {
			fmt.Fprintf(&sb2, "%s\t%s\n", t, ci[g.Intn(len(ci))])
		}
		in.statesCI = sb2.String()
		// every tip is the second column of 3 lines: read with -r the LAST line must win, whatever the run
		var dm strings.Builder
		for k := 0; k < 3; k++ {
			for i, t := range in.tips {
				fmt.Fprintf(&dm, "n%d_%d\t%s\n", k, i, t)
			}
		}
		in.dupmap = dm.String()
	}
	{
		ob := core.DefaultOpts()
		ob.MinTips, ob.MaxTips = 100, 140
		ob.Rooted = 0
		ob.Multif = 0.1
		ob.TipPrefix = "b"
		nbig, _ := g.Tree(ob)
		in.big = toNewick(nbig) + "\n"
	}
	in.outgroup = []string{in.tips[0], in.tips[1]}
	in.nexus = toNexus(in.multi)
	return in
}

// the command templates (CLI): arguments with @in:NAME@ / @out:NAME@ placeholders
func cliTemplates(c *core.Ctx, in *inputs) []*request {
	seed := fmt.Sprint(in.seed)
	var out []*request
	add := func(name string, threaded bool, files map[string]string, args ...string) {
		out = append(out, &request{kind: "cli", tpl: name, threaded: threaded, args: append(args, "--seed", seed), files: files})
	}
	T := map[string]string{"tree": in.tree}
	R := map[string]string{"tree": in.rooted}
	M := map[string]string{"tree": in.multi}
	algos := []string{"acctran", "deltran", "downpass"}
	algo := algos[c.G.Intn(3)]
	// ancestral reconstruction
	add("acr", false, map[string]string{"tree": in.tree, "states": in.states}, "acr", "-i", "@in:tree@", "--states", "@in:states@", "--algo", algo, "-o", "@out:tree@", "--out-states", "@out:states@", "--out-steps", "@out:steps@")
	add("acr-random", false, map[string]string{"tree": in.tree, "states": in.states}, "acr", "-i", "@in:tree@", "--states", "@in:states@", "--algo", algo, "--random-resolve", "--out-states", "@out:states@")
	add("asr-protein", false, map[string]string{"tree": in.tree, "align": in.protein}, "asr", "-i", "@in:tree@", "-a", "@in:align@", "--algo", algo)
	add("asr-protein-random", false, map[string]string{"tree": in.tree, "align": in.protein}, "asr", "-i", "@in:tree@", "-a", "@in:align@", "--algo", algo, "--random-resolve", "-o", "@out:tree@", "--log", "@out:log@")
	add("asr-nucl", false, map[string]string{"tree": in.rooted, "align": in.nucl}, "asr", "-i", "@in:tree@", "-a", "@in:align@", "--algo", algo)
	add("mutations", false, map[string]string{"tree": in.named, "align": in.anc}, "compute", "mutations", "-i", "@in:tree@", "-a", "@in:align@")
	add("mutations-eems", false, map[string]string{"tree": in.named, "align": in.anc}, "compute", "mutations", "-i", "@in:tree@", "-a", "@in:align@", "--eems", "-o", "@out:eems@")
	// tips / names
	add("compare-tips-file", false, map[string]string{"tree": in.tree, "tips": in.tiplist}, "compare", "tips", "-i", "@in:tree@", "-f", "@in:tips@")
	add("compare-tips-tree", false, map[string]string{"tree": in.tree, "tree2": in.tree2}, "compare", "tips", "-i", "@in:tree@", "-c", "@in:tree2@")
	add("rename-auto", false, M, "rename", "-i", "@in:tree@", "-a", "-l", "6", "-m", "@out:map@", "-o", "@out:tree@")
	add("rename-auto-internal", false, map[string]string{"tree": in.named}, "rename", "-i", "@in:tree@", "-a", "--internal", "-m", "@out:map@")
	add("rename-map", false, map[string]string{"tree": in.tree, "map": in.mapfile}, "rename", "-i", "@in:tree@", "-m", "@in:map@")
	add("rename-map-chained", false, map[string]string{"tree": in.tree, "map": in.chainmap}, "rename", "-i", "@in:tree@", "-m", "@in:map@")
	add("rename-map-chained-multi", false, map[string]string{"tree": in.multi, "map": in.chainmap}, "rename", "-i", "@in:tree@", "-m", "@in:map@", "-r")
	add("reformat-nexus-translate-numeric", false, map[string]string{"tree": in.numeric}, "reformat", "nexus", "-i", "@in:tree@", "--translate")
	add("rename-map-revert-noninjective", false, map[string]string{"tree": in.tree, "map": in.dupmap}, "rename", "-i", "@in:tree@", "-m", "@in:map@", "-r")
	add("acr-case-states", false, map[string]string{"tree": in.tree, "states": in.statesCI}, "acr", "-i", "@in:tree@", "--states", "@in:states@", "--algo", "downpass", "--out-states", "@out:states@")
	add("rename-map-revert", false, map[string]string{"tree": in.tree, "map": in.mapfile}, "rename", "-i", "@in:tree@", "-m", "@in:map@", "-r")
	add("rename-regexp", false, T, "rename", "-i", "@in:tree@", "-e", "t(\\d+)", "-b", "leaf$1", "-m", "@out:map@")
	add("rename-quotes", false, T, "rename", "-i", "@in:tree@", "--add-quotes", "-m", "@out:map@")
	add("labels", false, T, "labels", "-i", "@in:tree@")
	add("labels-internal", false, map[string]string{"tree": in.named}, "labels", "-i", "@in:tree@", "--internal")
	add("prune-tree", false, map[string]string{"tree": in.tree, "tree2": in.tree2}, "prune", "-i", "@in:tree@", "-c", "@in:tree2@")
	add("prune-file", false, map[string]string{"tree": in.tree, "tips": in.tiplist}, "prune", "-i", "@in:tree@", "-f", "@in:tips@", "-r")
	add("prune-random", false, T, "prune", "-i", "@in:tree@", "--random", "4")
	add("merge", false, map[string]string{"tree": in.rooted, "tree2": in.rooted2}, "merge", "-i", "@in:tree@", "-c", "@in:tree2@")
	add("shuffletips", false, T, "shuffletips", "-i", "@in:tree@")
	// formats
	add("reformat-nexus", false, M, "reformat", "nexus", "-i", "@in:tree@")
	add("reformat-nexus-translate", false, M, "reformat", "nexus", "-i", "@in:tree@", "--translate")
	add("reformat-phyloxml", false, M, "reformat", "phyloxml", "-i", "@in:tree@")
	add("reformat-newick", false, T, "reformat", "newick", "-i", "@in:tree@", "-o", "@out:tree@")
	if in.nexus != "" {
		N := map[string]string{"tree": in.nexus}
		add("nexus-to-newick", false, N, "reformat", "newick", "-i", "@in:tree@", "--format", "nexus")
		add("nexus-stats", false, N, "stats", "-i", "@in:tree@", "--format", "nexus")
		add("nexus-consensus", false, N, "compute", "consensus", "-i", "@in:tree@", "--format", "nexus", "-f", "0.6")
	}
	// statistics
	add("stats", false, M, "stats", "-i", "@in:tree@")
	add("stats-edges", false, T, "stats", "edges", "-i", "@in:tree@")
	add("stats-nodes", false, T, "stats", "nodes", "-i", "@in:tree@")
	add("stats-tips", false, T, "stats", "tips", "-i", "@in:tree@")
	add("stats-splits", false, T, "stats", "splits", "-i", "@in:tree@")
	add("stats-rooted", false, M, "stats", "rooted", "-i", "@in:tree@")
	add("stats-mono", false, map[string]string{"tree": in.multi, "tips": strings.Join(in.tips[:3], "\n") + "\n"}, "stats", "monophyletic", "-i", "@in:tree@", "-l", "@in:tips@")
	add("matrix", false, T, "matrix", "-i", "@in:tree@")
	add("ltt", false, R, "ltt", "-i", "@in:tree@")
	add("draw-text", false, T, "draw", "text", "-i", "@in:tree@", "-w", "60")
	// comparisons (threaded: records carry the tree id)
	cmp := map[string]string{"tree": in.tree, "multi": in.multi}
	nthreads := []string{"2", "3", "8"}[c.G.Intn(3)] // the templates named in Spec.threadCommands always run with several threads
	add("compare-trees", true, cmp, "compare", "trees", "-i", "@in:tree@", "-c", "@in:multi@", "-t", nthreads)
	add("compare-trees-tips", true, cmp, "compare", "trees", "-i", "@in:tree@", "-c", "@in:multi@", "-l", "-t", "4")
	add("compare-trees-weighted", true, cmp, "compare", "trees", "-i", "@in:tree@", "-c", "@in:multi@", "--weighted", "-t", "4")
	add("compare-trees-rf", true, cmp, "compare", "trees", "-i", "@in:tree@", "-c", "@in:multi@", "--rf", "-t", nthreads)
	add("compare-edges", false, cmp, "compare", "edges", "-i", "@in:tree@", "-c", "@in:multi@")
	add("support-fbp", false, cmp, "compute", "support", "fbp", "-i", "@in:tree@", "-b", "@in:multi@", "-t", nthreads, "--silent", "-o", "@out:tree@")
	add("support-tbe", false, cmp, "compute", "support", "tbe", "-i", "@in:tree@", "-b", "@in:multi@", "-t", nthreads, "--silent", "-o", "@out:tree@")
	add("support-fbp-t1", false, cmp, "compute", "support", "fbp", "-i", "@in:tree@", "-b", "@in:multi@", "-t", "1", "--silent", "-o", "@out:tree@")
	add("support-tbe-t1", false, cmp, "compute", "support", "tbe", "-i", "@in:tree@", "-b", "@in:multi@", "-t", "1", "--silent", "-o", "@out:tree@")
	add("compare-trees-t1", true, cmp, "compare", "trees", "-i", "@in:tree@", "-c", "@in:multi@", "-t", "1")
	add("consensus", false, M, "compute", "consensus", "-i", "@in:tree@", "-f", "0.5")
	// trees that share their bipartitions: the consensus has many inner branches (their order of insertion comes
	// from the traversal of the edge hash table), the comparisons find common branches
	S := map[string]string{"tree": in.similar}
	cmpS := map[string]string{"tree": in.rooted, "multi": in.similar}
	add("consensus-similar", false, S, "compute", "consensus", "-i", "@in:tree@", "-f", "0.5")
	add("consensus-similar-strict", false, S, "compute", "consensus", "-i", "@in:tree@", "-f", "0.6")
	add("compare-trees-similar", true, cmpS, "compare", "trees", "-i", "@in:tree@", "-c", "@in:multi@", "-t", "4")
	add("support-fbp-similar", false, cmpS, "compute", "support", "fbp", "-i", "@in:tree@", "-b", "@in:multi@", "-t", "3", "--silent", "-o", "@out:tree@")
	add("support-tbe-similar", false, cmpS, "compute", "support", "tbe", "-i", "@in:tree@", "-b", "@in:multi@", "-t", "3", "--silent", "-o", "@out:tree@")
	// thread sweeps (see threadSweep): the same command line with -t 1, 2, 3, 5, 7, 8, 64, 200 — counts that do not
	// divide the number of branches / trees, and counts beyond it; reference and compared trees share their branches, so
	// that a branch or a tree left out by a partition of the work shows in the supports / counts
	cmpR := map[string]string{"tree": in.tree, "multi": in.similar}
	add("sweep-support-tbe", false, cmpS, "compute", "support", "tbe", "-i", "@in:tree@", "-b", "@in:multi@", "-t", "@threads@", "--silent", "-o", "@out:tree@")
	add("sweep-support-tbe-unrooted", false, cmpR, "compute", "support", "tbe", "-i", "@in:tree@", "-b", "@in:multi@", "-t", "@threads@", "--silent", "-o", "@out:tree@")
	add("sweep-support-booster-raw", false, cmpS, "compute", "support", "booster", "-i", "@in:tree@", "-b", "@in:multi@", "-t", "@threads@", "--silent", "-o", "@out:tree@", "-r", "@out:raw@")
	add("sweep-support-fbp", false, cmpS, "compute", "support", "fbp", "-i", "@in:tree@", "-b", "@in:multi@", "-t", "@threads@", "--silent", "-o", "@out:tree@")
	add("sweep-support-classical", false, cmpR, "compute", "support", "classical", "-i", "@in:tree@", "-b", "@in:multi@", "-t", "@threads@", "--silent", "-o", "@out:tree@")
	add("sweep-compare-trees", true, cmpS, "compare", "trees", "-i", "@in:tree@", "-c", "@in:multi@", "-t", "@threads@")
	add("sweep-compare-trees-weighted", true, cmpS, "compare", "trees", "-i", "@in:tree@", "-c", "@in:multi@", "--weighted", "-t", "@threads@")
	add("sweep-compare-trees-rf", false, cmpS, "compare", "trees", "-i", "@in:tree@", "-c", "@in:multi@", "--rf", "-t", "@threads@")
	add("sweep-roccurve", false, map[string]string{"tree": in.similar, "true": in.rooted}, "compute", "roccurve", "-i", "@in:tree@", "-r", "@in:true@", "-t", "@threads@", "-s", "0.25")
	add("sweep-edgetrees", false, R, "compute", "edgetrees", "-i", "@in:tree@", "-t", "@threads@")
	add("bipartitiontree", false, map[string]string{"tree": in.tree, "tips": strings.Join(in.tips[:4], "\n") + "\n"}, "compute", "bipartitiontree", "-i", "@in:tree@", "-f", "@in:tips@")
	add("edgetrees", false, T, "compute", "edgetrees", "-i", "@in:tree@")
	// the per-branch records of edgetrees carry no identifier on the standard output: whatever the number of
	// threads they must come out in branch order, byte for byte; with -o prefix the index is in the file name
	B := map[string]string{"tree": in.big}
	for _, th := range []string{"1", "2", "8"} {
		add("edgetrees-stdout-t"+th, false, B, "compute", "edgetrees", "-i", "@in:tree@", "-t", th)
	}
	add("edgetrees-text-t2", false, B, "compute", "edgetrees", "-i", "@in:tree@", "--text-format", "-t", "2")
	add("edgetrees-text-t8", false, B, "compute", "edgetrees", "-i", "@in:tree@", "--text-format", "-t", "8")
	add("edgetrees-prefix-t8", false, B, "compute", "edgetrees", "-i", "@in:tree@", "-o", "@out:et@", "-t", "8")
	add("edgetrees-prefix-text-t2", false, B, "compute", "edgetrees", "-i", "@in:tree@", "-o", "@out:et@", "--text-format", "-t", "2")
	add("edgetrees-deepest-t8", false, B, "compute", "edgetrees", "-i", "@in:tree@", "--deepest", "-t", "8")
	// edits
	add("unroot", false, R, "unroot", "-i", "@in:tree@")
	add("reroot-midpoint", false, map[string]string{"tree": in.named}, "reroot", "midpoint", "-i", "@in:tree@")
	add("reroot-outgroup", false, T, "reroot", "outgroup", "-i", "@in:tree@", in.outgroup[0])
	// non-monophyletic outgroups: tips scattered over the tree (strict = false: the ancestor is searched anyway)
	for k := 0; k < 4; k++ {
		sz := 2 + c.G.Intn(3)
		perm := c.G.R.Perm(len(in.tips))
		og := []string{}
		for _, i := range perm[:sz] {
			og = append(og, in.tips[i])
		}
		files := R
		if k%2 == 1 {
			files = map[string]string{"tree": in.named}
		}
		add(fmt.Sprintf("reroot-outgroup-nonmono-%d", k), false, files, append([]string{"reroot", "outgroup", "-i", "@in:tree@"}, og...)...)
	}
	{
		// the other callers of LeastCommonAncestorUnrooted, on scattered (usually non-monophyletic) tip sets
		perm := c.G.R.Perm(len(in.tips))
		sc := []string{in.tips[perm[0]], in.tips[perm[1]], in.tips[perm[2]]}
		scf := strings.Join(sc, "\n") + "\n"
		add("reroot-outgroup-nonmono-remove", false, R, append([]string{"reroot", "outgroup", "-i", "@in:tree@", "-r"}, sc...)...)
		add("reroot-outgroup-nonmono-file", false, map[string]string{"tree": in.tree, "tips": scf}, "reroot", "outgroup", "-i", "@in:tree@", "-l", "@in:tips@")
		add("stats-mono-scattered", false, map[string]string{"tree": in.multi, "tips": scf}, "stats", "monophyletic", "-i", "@in:tree@", "-l", "@in:tips@")
		add("bipartitiontree-scattered", false, map[string]string{"tree": in.tree, "tips": scf}, "compute", "bipartitiontree", "-i", "@in:tree@", "-f", "@in:tips@")
		add("collapse-clade-nonmono", false, map[string]string{"tree": in.rooted, "tips": scf}, "collapse", "clade", "-i", "@in:tree@", "-l", "@in:tips@", "-n", "CLADE")
		add("consensus-majority", false, M, "compute", "consensus", "-i", "@in:tree@", "-f", "0.7")
	}
	add("collapse-length", false, T, "collapse", "length", "-i", "@in:tree@", "-l", "1")
	add("collapse-support", false, T, "collapse", "support", "-i", "@in:tree@", "-s", "0.5")
	add("collapse-depth", false, T, "collapse", "depth", "-i", "@in:tree@", "-m", "2", "-M", "3")
	add("resolve", false, T, "resolve", "-i", "@in:tree@")
	add("rotate-rand", false, M, "rotate", "rand", "-i", "@in:tree@")
	add("rotate-sort", false, T, "rotate", "sort", "-i", "@in:tree@")
	add("brlen-setrand", false, T, "brlen", "setrand", "-i", "@in:tree@")
	add("brlen-setmin", false, T, "brlen", "setmin", "-i", "@in:tree@", "-l", "0.5")
	add("support-setrand", false, T, "support", "setrand", "-i", "@in:tree@")
	add("comment-clear", false, T, "comment", "clear", "-i", "@in:tree@")
	add("sample", false, M, "sample", "-i", "@in:tree@", "-n", "4")
	add("sample-replace", false, M, "sample", "-i", "@in:tree@", "-n", "12", "--replace")
	add("nni", false, T, "nni", "-i", "@in:tree@")
	add("subtree", false, map[string]string{"tree": in.named}, "subtree", "-i", "@in:tree@", "-n", "^I1$")
	add("divide", false, M, "divide", "-i", "@in:tree@", "-o", "@out:div@")
	add("annotate", false, map[string]string{"tree": in.tree, "tree2": in.named}, "annotate", "-i", "@in:tree@", "-c", "@in:tree2@")
	add("repopulate", false, map[string]string{"tree": in.tree, "groups": in.tips[0] + "," + "x1,x2\n" + in.tips[1] + ",y1\n"}, "repopulate", "-i", "@in:tree@", "-g", "@in:groups@")
	add("graft", false, map[string]string{"tree": in.tree, "tree2": in.rooted2}, "graft", "-i", "@in:tree@", "-c", "@in:tree2@", "-l", in.tips[2])
	// more edits / outputs
	add("brlen-scale", false, T, "brlen", "scale", "-i", "@in:tree@", "-f", "2")
	add("brlen-clear", false, T, "brlen", "clear", "-i", "@in:tree@")
	add("brlen-round", false, T, "brlen", "round", "-i", "@in:tree@", "-p", "2")
	add("support-clear", false, T, "support", "clear", "-i", "@in:tree@")
	add("support-scale", false, T, "support", "scale", "-i", "@in:tree@", "-f", "100")
	add("collapse-single", false, T, "collapse", "single", "-i", "@in:tree@")
	add("collapse-name", false, map[string]string{"tree": in.named, "br": "I2\nI3\n"}, "collapse", "name", "-i", "@in:tree@", "-b", "@in:br@")
	add("collapse-clade", false, map[string]string{"tree": in.tree, "tips": in.tips[0] + "\n"}, "collapse", "clade", "-i", "@in:tree@", "-l", "@in:tips@", "-n", "CLADE", "-c", "@out:clade@")
	add("comment-transfer", false, map[string]string{"tree": in.named}, "comment", "transfer", "-i", "@in:tree@", "--reverse")
	add("annotate-map", false, map[string]string{"tree": in.tree, "map": "clade1:" + in.tips[0] + "," + in.tips[1] + "," + in.tips[2] + "\nclade2:" + in.tips[3] + "," + in.tips[4] + "\n"}, "annotate", "-i", "@in:tree@", "-m", "@in:map@")
	add("draw-svg", false, T, "draw", "svg", "-i", "@in:tree@", "-o", "@out:svg@", "-w", "300", "-H", "300")
	add("draw-png", false, T, "draw", "png", "-i", "@in:tree@", "-o", "@out:png@", "-w", "200", "-H", "200")
	add("draw-cyjs", false, T, "draw", "cyjs", "-i", "@in:tree@", "-o", "@out:html@")
	add("sample-multi-nexus", false, M, "sample", "-i", "@in:tree@", "-n", "3", "-o", "@out:trees@")
	// the remaining runnable commands of the live command tree
	add("brlen-add", false, T, "brlen", "add", "-i", "@in:tree@", "-l", "0.25")
	add("brlen-cut", false, T, "brlen", "cut", "-i", "@in:tree@", "-l", "2")
	add("brlen-set", false, T, "brlen", "set", "-i", "@in:tree@", "-l", "0.5")
	add("support-round", false, T, "support", "round", "-i", "@in:tree@", "-p", "1")
	add("resolve-named", false, map[string]string{"tree": in.named}, "resolve", "named", "-i", "@in:tree@")
	add("version", false, nil, "version")
	add("support-booster", false, cmp, "compute", "support", "booster", "-i", "@in:tree@", "-b", "@in:multi@", "-t", nthreads, "--silent", "-o", "@out:tree@", "-r", "@out:raw@")
	add("support-classical", false, cmp, "compute", "support", "classical", "-i", "@in:tree@", "-b", "@in:multi@", "-t", nthreads, "--silent", "-o", "@out:tree@")
	add("support-tbe-moved", false, cmp, "compute", "support", "tbe", "-i", "@in:tree@", "-b", "@in:multi@", "-t", "1", "--silent", "-o", "@out:tree@", "--moved-taxa", "--per-branches", "--dist-cutoff", "0.9", "-l", "@out:log@")
	add("support-tbe-moved-t4", false, cmp, "compute", "support", "tbe", "-i", "@in:tree@", "-b", "@in:multi@", "-t", "4", "--silent", "-o", "@out:tree@", "--moved-taxa", "--per-branches", "--dist-cutoff", "0.9", "-l", "@out:log@")
	add("support-fbp-log", false, cmp, "compute", "support", "fbp", "-i", "@in:tree@", "-b", "@in:multi@", "-t", "2", "--silent", "-o", "@out:tree@", "-l", "@out:log@")
	add("roccurve", false, map[string]string{"tree": in.multi, "true": in.tree}, "compute", "roccurve", "-i", "@in:tree@", "-r", "@in:true@", "-t", nthreads, "-s", "0.25")
	// generators
	add("gen-yule", false, nil, "generate", "yuletree", "-l", "12", "-n", "3")
	add("gen-yule-unrooted", false, nil, "generate", "yuletree", "-l", "12", "-n", "2", "-r=false")
	add("gen-uniform", false, nil, "generate", "uniformtree", "-l", "11", "-n", "3")
	add("gen-balanced", false, nil, "generate", "balancedtree", "-d", "3", "-n", "2")
	add("gen-caterpillar", false, nil, "generate", "caterpillartree", "-l", "9", "-n", "2")
	add("gen-star", false, nil, "generate", "startree", "-l", "9")
	add("gen-topologies", false, nil, "generate", "topologies", "-l", "5")
	// boundary seeds, whatever in.seed is: every value other than -1 is "a seed was given" — 0, a small negative
	// one, the largest int64 (a test such as `seed <= 0` or `seed < 0` for "no seed" would read the clock)
	base := len(out)
	for _, b := range [][2]string{{"seed0", "0"}, {"seedneg", "-2"}, {"seedmax", "9223372036854775807"}} {
		for _, r := range out[:base] {
			if r.tpl == "gen-yule" || r.tpl == "shuffletips" || r.tpl == "sample" {
				r2 := *r
				r2.tpl = r.tpl + "-" + b[0]
				r2.args = append(append([]string{}, r.args[:len(r.args)-1]...), b[1])
				out = append(out, &r2)
			}
		}
	}
	return out
}
