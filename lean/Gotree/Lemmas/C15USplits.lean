/-
  C15 — `RemoveSingleNodes` keeps the unrooted split map (length and support per split):
  the two branches around a removed node are fused exactly as `Spec/Splits.lean` fuses
  two entries with the same side.  Uses the shared library of C05 (read-only).
  Core Lean only.
-/
import Gotree.Lemmas.C15Single
import Gotree.Lemmas.C05Splits

namespace Gotree.C15
open Gotree Gotree.C14

/-! ## lists of unrooted splits up to what `usplitsAll` computes from them -/

theorem ufoldU_append (l₁ l₂ acc : List USplit) : ufoldU (l₁ ++ l₂) acc = ufoldU l₂ (ufoldU l₁ acc) := by
  simp [ufoldU, List.foldl_append]

theorem ufoldU_good : ∀ (l acc : List USplit), GoodU l → GoodU acc → GoodU (ufoldU l acc)
  | [], _, _, ha => ha
  | s :: l, acc, hl, ha =>
    ufoldU_good l _ (fun x hx => hl x (by simp [hx])) (insertU_good s (hl s (by simp)) acc ha)

theorem ufoldU_sidesNodup : ∀ (l acc : List USplit), SidesNodup acc → SidesNodup (ufoldU l acc)
  | [], _, ha => ha
  | s :: l, acc, ha => ufoldU_sidesNodup l _ (insertU_sidesNodup s acc ha)

structure UEqv (l₁ l₂ : List USplit) : Prop where
  g1 : GoodU l₁
  g2 : GoodU l₂
  eq : ∀ acc, GoodU acc → SidesNodup acc → (ufoldU l₁ acc).Perm (ufoldU l₂ acc)

theorem UEqv.refl {l : List USplit} (h : GoodU l) : UEqv l l := ⟨h, h, fun _ _ _ => List.Perm.refl _⟩

theorem UEqv.symm {l₁ l₂ : List USplit} (h : UEqv l₁ l₂) : UEqv l₂ l₁ :=
  ⟨h.g2, h.g1, fun acc ha hn => (h.eq acc ha hn).symm⟩

theorem UEqv.trans {l₁ l₂ l₃ : List USplit} (h : UEqv l₁ l₂) (h' : UEqv l₂ l₃) : UEqv l₁ l₃ :=
  ⟨h.g1, h'.g2, fun acc ha hn => (h.eq acc ha hn).trans (h'.eq acc ha hn)⟩

theorem UEqv.of_perm {l₁ l₂ : List USplit} (h : l₁.Perm l₂) (hg : GoodU l₁) : UEqv l₁ l₂ :=
  ⟨hg, fun x hx => hg x (h.mem_iff.2 hx), fun acc ha hn => ufoldU_perm h hg acc hn ha⟩

theorem goodU_append {l₁ l₂ : List USplit} (h₁ : GoodU l₁) (h₂ : GoodU l₂) : GoodU (l₁ ++ l₂) := by
  intro x hx
  rcases List.mem_append.mp hx with hx | hx
  · exact h₁ x hx
  · exact h₂ x hx

theorem UEqv.append {a a' b b' : List USplit} (h : UEqv a a') (h' : UEqv b b') : UEqv (a ++ b) (a' ++ b') := by
  refine ⟨goodU_append h.g1 h'.g1, goodU_append h.g2 h'.g2, fun acc ha hn => ?_⟩
  rw [ufoldU_append, ufoldU_append]
  have p1 := h.eq acc ha hn
  have n1 := ufoldU_sidesNodup a acc hn
  have n2 := ufoldU_sidesNodup a' acc hn
  have g2 := ufoldU_good a' acc h.g2 ha
  exact (ufoldU_perm_acc b p1 n1).trans (h'.eq _ g2 n2)

theorem UEqv.cons (x : USplit) (gx : GoodL x.len) {l l' : List USplit} (h : UEqv l l') : UEqv (x :: l) (x :: l') := by
  have := UEqv.append (UEqv.refl (l := [x]) (by intro y hy; simp at hy; subst hy; exact gx)) h
  simpa using this

theorem UEqv.fuse (x y : USplit) (l : List USplit) (hs : x.side = y.side) (gx : GoodL x.len) (gy : GoodL y.len)
    (gl : GoodU l) : UEqv (x :: y :: l) (fuseU x y :: l) := by
  refine ⟨?_, ?_, fun acc ha _ => by rw [ufoldU_fuse x y l acc hs gx gy ha]⟩
  · intro z hz
    simp only [List.mem_cons] at hz
    rcases hz with rfl | rfl | hz
    · exact gx
    · exact gy
    · exact gl z hz
  · intro z hz
    simp only [List.mem_cons] at hz
    rcases hz with rfl | hz
    · exact fuseLen_good gx gy
    · exact gl z hz

/-! ## `RemoveSingleNodes` -/

theorem okE_iff_goodL (e : EdgeD) : okE e ↔ GoodL e.len := Iff.rfl

/-- the code's fusion of a child branch with the branch of its removed parent is the Spec's
    fusion of two entries with the same side (lengths absent or ≥ 0) -/
theorem toU_fuseEdge (all : List String) (lv lv' : List String) (tp tp' : Bool) (ec e : EdgeD)
    (hp : lv'.Perm lv) (ge : GoodL e.len) (gc : GoodL ec.len) :
    toU all ⟨lv', fuseEdge fuseLenGo ec e, tp'⟩ = fuseU (toU all ⟨lv, e, tp⟩) (toU all ⟨lv', ec, tp'⟩) := by
  have hn : NIL = (-1 : Rat) := rfl
  simp only [toU, fuseU, fuseEdge, canonSide_perm_side all hp]
  have hl : fuseLenGo ec.len e.len = fuseLen e.len ec.len := by
    simp only [fuseLenGo, fuseLen, GoodL, hn] at *
    by_cases h1 : ec.len = -1 <;> by_cases h2 : e.len = -1 <;> simp [h1, h2] <;> grind
  have hs : fuseSupGo ec.sup e.sup = fuseSup e.sup ec.sup := by
    simp only [fuseSupGo, fuseSup]
    grind
  rw [hl, hs]

theorem goodU_map {l : List SplitE} (all : List String) (h : ∀ s ∈ l, okE s.e) : GoodU (l.map (toU all)) := by
  intro x hx
  obtain ⟨s, hs, rfl⟩ := List.mem_map.1 hx
  exact h s hs

mutual
theorem rsNode_ueqv (all : List String) : ∀ (t : T), (∀ s ∈ t.splitsBelow, okE s.e) →
    UEqv ((rsNode fuseLenGo t).splitsBelow.map (toU all)) (t.splitsBelow.map (toU all))
  | .node d p k, h => by
    rw [splitsBelow_node] at h
    have := rsKids_ueqv all k p 0 h
    rw [rsNode_eq, splitsBelow_node, splitsBelow_node, splitsL_append]
    exact this
theorem rsKids_ueqv (all : List String) : ∀ (k : Kids) (pp i : Nat), (∀ s ∈ splitsL k, okE s.e) →
    UEqv ((splitsL (rsKids fuseLenGo k pp i).1 ++ splitsL (rsKids fuseLenGo k pp i).2.1).map (toU all))
      ((splitsL k).map (toU all))
  | [], pp, i, _ => by simpa [rsKids, splitsL] using UEqv.refl (l := []) (by intro x hx; cases hx)
  | (e, t) :: r, pp, i, h => by
    have ht2 := rsNode_ok2 t
    have hk2 := rsKids_ok2 r pp (i + 1)
    have hte : okE e := h ⟨t.leaves, e, t.isLeaf⟩ (by simp [splitsL])
    have htb : ∀ s ∈ t.splitsBelow, okE s.e := fun s hs => h s (by simp [splitsL, hs])
    have hrb : ∀ s ∈ splitsL r, okE s.e := fun s hs => h s (by simp [splitsL, hs])
    have iht := rsNode_ueqv all t htb
    have ihr := rsKids_ueqv all r pp (i + 1) hrb
    have hokr := hk2.ok hrb
    have hokt := ht2.ok htb
    rw [rsKids_cons]
    split
    · rename_i ec c heq
      have hkne : (rsNode fuseLenGo t).kids ≠ [] := by simp [heq]
      have hl' : (rsNode fuseLenGo t).leaves = c.leaves := by
        rw [leaves_eq_of_kids_ne _ hkne, heq]; simp [leavesL]
      have hsb : (rsNode fuseLenGo t).splitsBelow = ⟨c.leaves, ec, c.isLeaf⟩ :: c.splitsBelow := by
        rw [splitsBelow_eq, heq]; simp [splitsL]
      have hperm : c.leaves.Perm t.leaves := hl' ▸ ht2.perm
      have hec : okE ec := hokt ⟨c.leaves, ec, c.isLeaf⟩ (by rw [hsb]; simp)
      have hcb : ∀ s ∈ c.splitsBelow, okE s.e := fun s hs => hokt s (by rw [hsb]; simp [hs])
      rw [hsb] at iht
      -- names for the pieces
      have gC := goodU_map all hcb
      have gA1 := goodU_map all hokr.1
      have gA2 := goodU_map all hokr.2
      have gR := goodU_map all hrb
      simp only [splitsL, List.map_cons, List.map_append] at ihr iht ⊢
      rw [toU_fuseEdge all t.leaves c.leaves t.isLeaf c.isLeaf ec e hperm hte hec]
      -- right-hand side: X :: (T ++ R) with T ≃ Y :: C, R ≃ A1 ++ A2; fuse X and Y
      have step1 : UEqv (toU all ⟨t.leaves, e, t.isLeaf⟩ :: (t.splitsBelow.map (toU all) ++ (splitsL r).map (toU all)))
          (toU all ⟨t.leaves, e, t.isLeaf⟩ :: ((toU all ⟨c.leaves, ec, c.isLeaf⟩ :: c.splitsBelow.map (toU all)) ++
            ((splitsL (rsKids fuseLenGo r pp (i + 1)).1).map (toU all) ++ (splitsL (rsKids fuseLenGo r pp (i + 1)).2.1).map (toU all)))) :=
        UEqv.cons (toU all ⟨t.leaves, e, t.isLeaf⟩) hte (UEqv.append iht.symm ihr.symm)
      have step2 := UEqv.fuse (toU all ⟨t.leaves, e, t.isLeaf⟩) (toU all ⟨c.leaves, ec, c.isLeaf⟩)
        (c.splitsBelow.map (toU all) ++ ((splitsL (rsKids fuseLenGo r pp (i + 1)).1).map (toU all) ++
          (splitsL (rsKids fuseLenGo r pp (i + 1)).2.1).map (toU all)))
        (by simp [toU, canonSide_perm_side all hperm]) hte hec (goodU_append gC (goodU_append gA1 gA2))
      have hfg : GoodL (fuseU (toU all ⟨t.leaves, e, t.isLeaf⟩) (toU all ⟨c.leaves, ec, c.isLeaf⟩)).len :=
        fuseLen_good hte hec
      refine UEqv.trans (UEqv.of_perm ?_ ?_) (UEqv.trans step2.symm (by simpa using step1.symm))
      · -- A1 ++ (F :: C ++ A2)  ~  F :: (C ++ (A1 ++ A2))
        refine List.perm_middle.trans (List.Perm.cons _ ?_)
        exact List.perm_append_comm_assoc _ _ _
      · refine goodU_append gA1 ?_
        intro x hx
        simp only [List.mem_cons, List.mem_append] at hx
        rcases hx with rfl | hx | hx
        · exact hfg
        · exact gC x hx
        · exact gA2 x hx
    · have hside : toU all ⟨(rsNode fuseLenGo t).leaves, e, (rsNode fuseLenGo t).isLeaf⟩ = toU all ⟨t.leaves, e, t.isLeaf⟩ := by
        simp [toU, canonSide_perm_side all ht2.perm]
      have gT' := goodU_map all hokt
      have gA1 := goodU_map all hokr.1
      have gA2 := goodU_map all hokr.2
      simp only [splitsL, List.map_cons, List.map_append, List.cons_append, List.append_assoc] at ihr ⊢
      rw [hside]
      exact UEqv.cons (toU all ⟨t.leaves, e, t.isLeaf⟩) hte (UEqv.append iht ihr)
end

theorem removeSingle_ueqv (t : T) (h : lengthsOK t = true) :
    UEqv ((removeSingle t).splits.map (toU t.tipNames)) (t.splits.map (toU t.tipNames)) := by
  rw [removeSingle_splits]
  exact rsKids_ueqv t.tipNames t.kids 0 0 ((lengthsOK_iff t).mp h)

/-- the unrooted split map (every split with its length and support, trivial ones included) -/
theorem removeSingle_usplitsAll' (t : T) (h : lengthsOK t = true) :
    (removeSingle t).usplitsAll.Perm t.usplitsAll :=
  usplitsAll_perm_of_ufold (removeSingle_tips' t)
    ((removeSingle_ueqv t h).eq [] (by intro x hx; cases hx) (by simp [SidesNodup]))

theorem removeSingle_usplits' (t : T) (h : lengthsOK t = true) : (removeSingle t).usplits.Perm t.usplits :=
  usplits_perm_of (removeSingle_tips' t) (removeSingle_usplitsAll' t h)

end Gotree.C15
