/-
  C09 — lemmas about `splitItems` (Model/C09Items.lean): the channel of `tree.Consensus` with error records.
-/
import Gotree.Model.C09Items

namespace Gotree.C09
open Gotree

theorem splitItems_trees (ts : List T) : splitItems (ts.map Item.tree) = (ts, none) := by
  induction ts with
  | nil => rfl
  | cons t r ih => simp only [List.map_cons, splitItems, ih]

theorem splitItems_append_bad (pre : List T) (m : String) (rest : List Item) :
    splitItems (pre.map Item.tree ++ Item.bad m :: rest) = (pre, some m) := by
  induction pre with
  | nil => rfl
  | cons t r ih => simp only [List.map_cons, List.cons_append, splitItems, ih]

theorem splitItems_some_of_bad (items : List Item) (h : items.any Item.isBad = true) :
    ∃ ts m, splitItems items = (ts, some m) := by
  induction items with
  | nil => simp at h
  | cons i r ih =>
    cases i with
    | bad m => exact ⟨[], m, rfl⟩
    | tree t =>
      have hr : r.any Item.isBad = true := by simpa [Item.isBad] using h
      obtain ⟨ts, m, e⟩ := ih hr
      exact ⟨t :: ts, m, by simp only [splitItems, e]⟩

end Gotree.C09
