/-
  C20 — the rose-tree model of RandomUniformBinaryTree (`roseTree`, compared with the α dump of
  the generated tree) has, at every step, exactly the branch clusters that `utree` keeps.
  Core Lean (+ Std.Data.String.ToNat for the injectivity of `toString` on `Nat`).
-/
import Gotree.Lemmas.C20
import Std.Data.String.ToNat

namespace Gotree.C20
open Gotree List

/-! ### tip names -/

theorem tipName_inj {i j : Nat} (h : tipName i = tipName j) : i = j := by
  unfold tipName at h
  have h2 : ("Tip" ++ toString i).toList = ("Tip" ++ toString j).toList := by rw [h]
  rw [String.toList_append, String.toList_append] at h2
  have h3 := List.append_cancel_left h2
  have h4 : toString i = toString j := String.toList_inj.mp h3
  exact Nat.repr_injective h4

/-! ### leaf sets below the branches -/

mutual
def belowsT : T → List (List String)
  | .node _ _ ks => belowsL ks
def belowsL : Kids → List (List String)
  | [] => []
  | (_, t) :: r => t.leaves :: (belowsT t ++ belowsL r)
end

/-- the clusters (among `m` tips) of the branches of a tree, in `Edges()` order -/
def branchClusters (m : Nat) (t : T) : List (List Nat) := (belowsL t.kids).map (clN m)

/- every inner node below has at least two children -/
mutual
def binT : T → Bool
  | .node _ _ ks => (ks.isEmpty || decide (2 ≤ ks.length)) && binL ks
def binL : Kids → Bool
  | [] => true
  | (_, t) :: r => binT t && binL r
end

theorem leaves_node_cons (d : NodeD) (p : Nat) (k : EdgeD × T) (ks : Kids) :
    (T.node d p (k :: ks)).leaves = leavesL (k :: ks) := by
  simp [T.leaves]

theorem leaves_node_of_ne_nil (d : NodeD) (p : Nat) (ks : Kids) (h : ks ≠ []) :
    (T.node d p ks).leaves = leavesL ks := by
  cases ks with
  | nil => exact absurd rfl h
  | cons k ks => exact leaves_node_cons d p k ks

theorem T.leaves_ne_nil' : ∀ (t : T), t.leaves ≠ []
  | .node d p [] => by simp [T.leaves]
  | .node d p ((e, t) :: r) => by
    rw [leaves_node_cons]; simp only [leavesL]
    intro h
    exact T.leaves_ne_nil' t (List.append_eq_nil_iff.mp h).1

mutual
theorem belowsT_sub : ∀ (t : T) (S : List String), S ∈ belowsT t → ∀ y ∈ S, y ∈ t.leaves
  | .node d p [], S, h => by simp [belowsT, belowsL] at h
  | .node d p (k :: ks), S, h => by
    rw [leaves_node_cons]
    simp only [belowsT] at h
    exact belowsL_sub (k :: ks) S h
theorem belowsL_sub : ∀ (ks : Kids) (S : List String), S ∈ belowsL ks → ∀ y ∈ S, y ∈ leavesL ks
  | [], S, h => by simp [belowsL] at h
  | (e, t) :: r, S, h => by
    simp only [belowsL, List.mem_cons, List.mem_append] at h
    intro y hy
    simp only [leavesL, List.mem_append]
    rcases h with rfl | h | h
    · exact Or.inl hy
    · exact Or.inl (belowsT_sub t S h y hy)
    · exact Or.inr (belowsL_sub r S h y hy)
end

mutual
theorem belowsT_ne_nil : ∀ (t : T) (S : List String), S ∈ belowsT t → S ≠ []
  | .node d p ks, S, h => by simp only [belowsT] at h; exact belowsL_ne_nil ks S h
theorem belowsL_ne_nil : ∀ (ks : Kids) (S : List String), S ∈ belowsL ks → S ≠ []
  | [], S, h => by simp [belowsL] at h
  | (e, t) :: r, S, h => by
    simp only [belowsL, List.mem_cons, List.mem_append] at h
    rcases h with rfl | h | h
    · exact T.leaves_ne_nil' t
    · exact belowsT_ne_nil t S h
    · exact belowsL_ne_nil r S h
end

/-! ### `clN` -/

theorem mem_clN {m q : Nat} {S : List String} : q ∈ clN m S ↔ q < m ∧ tipName q ∈ S := by
  simp [clN]

theorem clN_succ (m : Nat) (S : List String) :
    clN (m + 1) S = clN m S ++ (if tipName m ∈ S then [m] else []) := by
  simp only [clN, List.range_succ, List.filter_append]
  congr 1
  by_cases h : tipName m ∈ S <;> simp [h]

theorem clN_congr {m : Nat} {S1 S2 : List String} (h : ∀ q, q < m → (tipName q ∈ S1 ↔ tipName q ∈ S2)) :
    clN m S1 = clN m S2 := by
  simp only [clN]
  apply List.filter_congr
  intro q hq
  have := h q (List.mem_range.1 hq)
  by_cases h1 : tipName q ∈ S1 <;> simp_all

theorem clN_perm {m : Nat} {S1 S2 : List String} (h : S1.Perm S2) : clN m S1 = clN m S2 :=
  clN_congr fun _ _ => h.mem_iff

/-- the names are `Tip0 … Tip(m-1)` -/
def WfNames (m : Nat) (S : List String) : Prop := ∀ y ∈ S, ∃ q, q < m ∧ y = tipName q

theorem fresh_of_wf {m : Nat} {S : List String} (h : WfNames m S) : tipName m ∉ S := by
  intro hm
  obtain ⟨q, hq, e⟩ := h _ hm
  have := tipName_inj e
  omega

theorem clN_succ_of_wf {m : Nat} {S : List String} (h : WfNames m S) : clN (m + 1) S = clN m S := by
  rw [clN_succ]; simp [fresh_of_wf h]

theorem clN_ne_nil {m : Nat} {S : List String} (h : WfNames m S) (hS : S ≠ []) : clN m S ≠ [] := by
  obtain ⟨y, hy⟩ := List.exists_mem_of_ne_nil _ hS
  obtain ⟨q, hq, rfl⟩ := h y hy
  intro e
  have : q ∈ clN m S := mem_clN.2 ⟨hq, hy⟩
  rw [e] at this; simp at this

theorem subset_iff' {b c : List Nat} : subset b c = true ↔ ∀ y ∈ b, y ∈ c := by
  simp [subset]

theorem subset_clN_of_sub {m : Nat} {S S' : List String} (h : ∀ y ∈ S, y ∈ S') :
    subset (clN m S) (clN m S') = true := by
  rw [subset_iff']
  intro q hq
  have := mem_clN.1 hq
  exact mem_clN.2 ⟨this.1, h _ this.2⟩

theorem subset_false_of_witness {b c : List Nat} {q : Nat} (h1 : q ∈ b) (h2 : q ∉ c) : subset b c = false := by
  cases hs : subset b c with
  | false => rfl
  | true => exact absurd (subset_iff'.1 hs q h1) h2

theorem subset_trans' {a b c : List Nat} (h1 : subset a b = true) (h2 : subset b c = true) :
    subset a c = true := by
  rw [subset_iff'] at *
  intro y hy; exact h2 y (h1 y hy)

theorem extCl_of_not_subset {b s : List Nat} (i : Nat) (h : subset b s = false) : extCl b i s = s := by
  simp [extCl, h]

theorem extCl_of_subset {b s : List Nat} (i : Nat) (h : subset b s = true) : extCl b i s = s ++ [i] := by
  simp [extCl, h]

/-! ### invariants of the forest below a node -/

structure RInv (m : Nat) (ks : Kids) : Prop where
  nodup : (leavesL ks).Nodup
  wf : WfNames m (leavesL ks)
  bin : binL ks = true

theorem RInv.tail {m : Nat} {e : EdgeD} {c : T} {r : Kids} (h : RInv m ((e, c) :: r)) : RInv m r := by
  refine ⟨?_, ?_, ?_⟩
  · have := h.nodup; simp only [leavesL] at this; exact (List.nodup_append.1 this).2.1
  · intro y hy; exact h.wf y (by simp [leavesL, hy])
  · have := h.bin; simp only [binL, Bool.and_eq_true] at this; exact this.2

theorem RInv.head_leaves {m : Nat} {e : EdgeD} {c : T} {r : Kids} (h : RInv m ((e, c) :: r)) :
    c.leaves.Nodup ∧ WfNames m c.leaves ∧ (∀ y, y ∈ c.leaves → y ∈ leavesL r → False) := by
  have hn := h.nodup; simp only [leavesL] at hn
  have hn' := List.nodup_append.1 hn
  exact ⟨hn'.1, fun y hy => h.wf y (by simp [leavesL, hy]), fun y h1 h2 => hn'.2.2 y h1 y h2 rfl⟩

theorem RInv.sub {m : Nat} {e : EdgeD} {d : NodeD} {p : Nat} {k : EdgeD × T} {ks : Kids} {r : Kids}
    (h : RInv m ((e, .node d p (k :: ks)) :: r)) : RInv m (k :: ks) := by
  obtain ⟨h1, h2, _⟩ := h.head_leaves
  rw [leaves_node_cons] at h1 h2
  refine ⟨h1, h2, ?_⟩
  have := h.bin
  obtain ⟨ek, tk⟩ := k
  simp only [binL, binT, Bool.and_eq_true] at this ⊢
  exact this.1.2

/-- a proper subtree misses a leaf of the tree (binary, distinct leaves) -/
theorem belowsT_strict (c : T) (hb : binT c = true) (hn : c.leaves.Nodup) :
    ∀ S ∈ belowsT c, ∃ y ∈ c.leaves, y ∉ S := by
  intro S hS
  cases c with
  | node d p ks =>
    cases ks with
    | nil => simp [belowsT, belowsL] at hS
    | cons k1 ks =>
      cases ks with
      | nil => simp [binT] at hb
      | cons k2 ks =>
        obtain ⟨e1, t1⟩ := k1
        obtain ⟨e2, t2⟩ := k2
        rw [leaves_node_cons] at hn ⊢
        simp only [leavesL] at hn ⊢
        have hn1 := List.nodup_append.1 hn
        have hn2 := List.nodup_append.1 hn1.2.1
        simp only [belowsT, belowsL, List.mem_cons, List.mem_append] at hS
        -- S lies inside the leaves of one child; take a leaf of another child
        have hin1 : (∀ y ∈ S, y ∈ t1.leaves) ∨ (∀ y ∈ S, y ∈ t2.leaves ++ leavesL ks) := by
          rcases hS with rfl | hS | rfl | hS | hS
          · exact Or.inl fun y hy => hy
          · exact Or.inl (belowsT_sub t1 S hS)
          · exact Or.inr fun y hy => by simp [hy]
          · exact Or.inr fun y hy => by simp [belowsT_sub t2 S hS y hy]
          · exact Or.inr fun y hy => by simp [belowsL_sub ks S hS y hy]
        rcases hin1 with h1 | h2
        · obtain ⟨y, hy⟩ := List.exists_mem_of_ne_nil _ (T.leaves_ne_nil' t2)
          refine ⟨y, by simp [hy], ?_⟩
          intro hyS
          exact hn1.2.2 y (h1 y hyS) y (by simp [hy]) rfl
        · obtain ⟨y, hy⟩ := List.exists_mem_of_ne_nil _ (T.leaves_ne_nil' t1)
          refine ⟨y, by simp [hy], ?_⟩
          intro hyS
          exact hn1.2.2 y hy y (h2 y hyS) rfl

theorem roseGraftL_length (m : Nat) (b : List Nat) (x : String) : ∀ (ks : Kids),
    (roseGraftL m b x ks).length = ks.length
  | [] => rfl
  | (e, c) :: r => by
    unfold roseGraftL
    split
    · simp
    · split
      · simp
      · simp [roseGraftL_length m b x r]

/-! ### one graft -/

def GraftOK (m : Nat) (b : List Nat) (x : String) (ks : Kids) : Prop :=
  ((belowsL (roseGraftL m b x ks)).map (clN (m + 1))).Perm
      (((belowsL ks).map (clN m)).map (extCl b m) ++ [[m], b]) ∧
  (leavesL (roseGraftL m b x ks)).Perm (x :: leavesL ks) ∧
  binL (roseGraftL m b x ks) = true

theorem map_clN_succ {m : Nat} (l : List (List String)) (h : ∀ S ∈ l, WfNames m S) :
    l.map (clN (m + 1)) = l.map (clN m) :=
  List.map_congr_left fun S hS => clN_succ_of_wf (h S hS)

theorem map_ext_id {m : Nat} {b : List Nat} (l : List (List String))
    (h : ∀ S ∈ l, subset b (clN m S) = false) :
    (l.map (clN m)).map (extCl b m) = l.map (clN m) := by
  rw [List.map_map]
  apply List.map_congr_left
  intro S hS
  simp [Function.comp, extCl_of_not_subset m (h S hS)]

theorem wf_sub {m : Nat} {S S' : List String} (h : WfNames m S') (hs : ∀ y ∈ S, y ∈ S') : WfNames m S :=
  fun y hy => h y (hs y hy)

theorem perm_shuffle {α : Type} (X Y Z : List α) : (X ++ (Z ++ Y)).Perm (List.append (X ++ Y) Z) := by
  show (X ++ (Z ++ Y)).Perm ((X ++ Y) ++ Z)
  rw [List.append_assoc]
  exact List.Perm.append_left _ List.perm_append_comm

theorem perm_assoc' {α : Type} (X Y Z : List α) : (X ++ (Y ++ Z)).Perm (List.append (X ++ Y) Z) := by
  show (X ++ (Y ++ Z)).Perm ((X ++ Y) ++ Z)
  rw [List.append_assoc]

theorem belowsL_cons (e : EdgeD) (c : T) (r : Kids) :
    belowsL ((e, c) :: r) = c.leaves :: (belowsT c ++ belowsL r) := by simp [belowsL]

mutual
theorem graftT_ok (m : Nat) (b : List Nat) (x : String) (hx : x = tipName m) :
    ∀ (c : T), RInv m c.kids → b ∈ (belowsT c).map (clN m) → GraftOK m b x c.kids
  | .node d p ks, h, hb => by
    simp only [belowsT] at hb
    exact graftL_ok m b x hx ks h hb
theorem graftL_ok (m : Nat) (b : List Nat) (x : String) (hx : x = tipName m) :
    ∀ (ks : Kids), RInv m ks → b ∈ (belowsL ks).map (clN m) → GraftOK m b x ks
  | [], _, hb => by simp [belowsL] at hb
  | (e, c) :: r, h, hb => by
    obtain ⟨hcn, hcw, hdisj⟩ := h.head_leaves
    have hr := h.tail
    have hbin : binT c = true ∧ binL r = true := by
      have := h.bin; simpa only [binL, Bool.and_eq_true] using this
    -- names below `c`, below `r`
    have hwT : ∀ S ∈ belowsT c, WfNames m S := fun S hS => wf_sub hcw (belowsT_sub c S hS)
    have hwL : ∀ S ∈ belowsL r, WfNames m S := fun S hS => wf_sub hr.wf (belowsL_sub r S hS)
    have hxc : x ∉ c.leaves := hx ▸ fresh_of_wf hcw
    have hcne : clN m c.leaves ≠ [] := clN_ne_nil hcw (T.leaves_ne_nil' c)
    -- a non-empty cluster inside `c` is contained in no cluster of `r`
    have houtside : ∀ (b' : List Nat), b' ≠ [] → subset b' (clN m c.leaves) = true →
        ∀ S ∈ belowsL r, subset b' (clN m S) = false := by
      intro b' hne hsub S hS
      obtain ⟨q, hq⟩ := List.exists_mem_of_ne_nil _ hne
      apply subset_false_of_witness hq
      intro hqS
      have h1 := (mem_clN.1 (subset_iff'.1 hsub q hq)).2
      have h2 := belowsL_sub r S hS _ (mem_clN.1 hqS).2
      exact hdisj _ h1 h2
    simp only [belowsL, List.map_cons, List.map_append, List.mem_cons, List.mem_append] at hb
    unfold GraftOK roseGraftL
    by_cases h1 : (clN m c.leaves == b) = true
    · -- the branch itself
      have hbe : clN m c.leaves = b := by simpa using h1
      rw [if_pos h1]
      have hstrict : ∀ S ∈ belowsT c, subset b (clN m S) = false := by
        intro S hS
        obtain ⟨y, hy, hyS⟩ := belowsT_strict c hbin.1 hcn S hS
        obtain ⟨q, hq, rfl⟩ := hcw y hy
        apply subset_false_of_witness (q := q)
        · rw [← hbe]; exact mem_clN.2 ⟨hq, hy⟩
        · intro hqS; exact hyS (mem_clN.1 hqS).2
      have hout : ∀ S ∈ belowsL r, subset b (clN m S) = false :=
        houtside b (hbe ▸ hcne) (by rw [← hbe]; exact subset_refl _)
      refine ⟨?_, ?_, ?_⟩
      · simp only [belowsL, belowsT, T.leaf, List.map_cons, List.map_append,
          List.append_nil, List.nil_append, leavesL, T.leaves, List.singleton_append]
        rw [map_ext_id _ hstrict, map_ext_id _ hout, map_clN_succ _ hwT, map_clN_succ _ hwL]
        have e1 : clN (m + 1) (x :: c.leaves) = b ++ [m] := by
          rw [clN_succ, hx]; simp only [List.mem_cons, true_or, if_true]
          congr 1
          rw [← hbe]
          apply clN_congr
          intro q hq
          simp only [List.mem_cons]
          constructor
          · rintro (e | e)
            · have := tipName_inj e; omega
            · exact e
          · exact Or.inr
        have e2 : clN (m + 1) [x] = [m] := by
          rw [clN_succ, hx]; simp only [List.mem_singleton, if_true]
          have : clN m [tipName m] = [] := by
            simp only [clN, List.filter_eq_nil_iff]
            intro q hq
            have := List.mem_range.1 hq
            simp only [List.contains_iff_mem, List.mem_singleton]
            intro e; have := tipName_inj e; omega
          simp [this]
        have e3 : clN (m + 1) c.leaves = b := by rw [clN_succ_of_wf hcw, hbe]
        rw [e1, e2, e3, extCl_of_subset m (by rw [hbe]; exact subset_refl b), hbe]
        apply List.Perm.cons
        have hperm : ∀ (X Y : List (List Nat)), ([m] :: b :: X ++ Y).Perm ((X ++ Y) ++ [[m], b]) :=
          fun X Y => by simpa using (List.perm_append_comm (l₁ := [[m], b]) (l₂ := X ++ Y))
        exact hperm _ _
      · simp [leavesL, T.leaf, T.leaves]
      · simp [binL, binT, T.leaf, hbin.1, hbin.2]
    · rw [if_neg h1]
      have hne : clN m c.leaves ≠ b := by simpa using h1
      by_cases h2 : subset b (clN m c.leaves) = true
      · -- a branch below `c`
        rw [if_pos h2]
        have hbT : b ∈ (belowsT c).map (clN m) := by
          rcases hb with e | hb | hb
          · exact absurd e.symm hne
          · exact hb
          · exfalso
            obtain ⟨S, hS, rfl⟩ := List.mem_map.1 hb
            have hne' : clN m S ≠ [] := clN_ne_nil (hwL S hS) (belowsL_ne_nil r S hS)
            have := houtside (clN m S) hne' h2 S hS
            rw [subset_refl] at this; cases this
        cases c with
        | node dc pc kc =>
          cases kc with
          | nil => simp [belowsT, belowsL] at hbT
          | cons k0 kc =>
            have hsub := h.sub
            obtain ⟨ih1, ih2, ih3⟩ := graftT_ok m b x hx (.node dc pc (k0 :: kc)) hsub hbT
            simp only [T.kids_node] at ih1 ih2 ih3
            have hlen : (roseGraftL m b x (k0 :: kc)) ≠ [] := by
              intro e
              have := roseGraftL_length m b x (k0 :: kc)
              rw [e] at this; simp at this
            have hout : ∀ S ∈ belowsL r, subset b (clN m S) = false := by
              obtain ⟨S0, hS0, rfl⟩ := List.mem_map.1 hbT
              exact houtside _ (clN_ne_nil (hwT S0 hS0) (belowsT_ne_nil _ S0 hS0)) h2
            have hnewleaves : (T.node dc pc (roseGraftL m b x (k0 :: kc))).leaves.Perm (x :: (T.node dc pc (k0 :: kc)).leaves) := by
              rw [leaves_node_of_ne_nil _ _ _ hlen, leaves_node_cons]; exact ih2
            refine ⟨?_, ?_, ?_⟩
            · have e1 : clN (m + 1) (T.node dc pc (roseGraftL m b x (k0 :: kc))).leaves =
                  clN m (T.node dc pc (k0 :: kc)).leaves ++ [m] := by
                rw [clN_perm hnewleaves, clN_succ, hx]
                simp only [List.mem_cons, true_or, if_true]
                congr 1
                apply clN_congr
                intro q hq
                simp only [List.mem_cons]
                constructor
                · rintro (e | e)
                  · have := tipName_inj e; omega
                  · exact e
                · exact Or.inr
              have hT' : belowsT (roseGraft m b x (T.node dc pc (k0 :: kc))) =
                  belowsL (roseGraftL m b x (k0 :: kc)) := by simp [roseGraft, belowsT]
              have hT : belowsT (T.node dc pc (k0 :: kc)) = belowsL (k0 :: kc) := by simp [belowsT]
              have hL' : (roseGraft m b x (T.node dc pc (k0 :: kc))).leaves =
                  (T.node dc pc (roseGraftL m b x (k0 :: kc))).leaves := by simp [roseGraft]
              rw [belowsL_cons, belowsL_cons, hT', hL']
              simp only [List.map_cons, List.map_append]
              rw [map_ext_id _ hout, map_clN_succ _ hwL, extCl_of_subset m h2, e1, hT]
              apply List.Perm.cons
              refine (ih1.append_right _).trans ?_
              rw [List.append_assoc]
              exact perm_shuffle _ _ _
            · simp only [roseGraft, leavesL]
              exact (hnewleaves.append_right _)
            · simp only [roseGraft, binL, binT, Bool.and_eq_true]
              have hb0 := hbin.1
              simp only [binT, Bool.and_eq_true] at hb0
              refine ⟨⟨?_, ih3⟩, hbin.2⟩
              have h2len : 2 ≤ (k0 :: kc).length := by simpa using hb0.1
              simp [roseGraftL_length]
              right; simp at h2len; omega
      · -- a branch further right
        rw [if_neg h2]
        have h2' : subset b (clN m c.leaves) = false := by simpa using h2
        have hnotT : ∀ S ∈ belowsT c, subset b (clN m S) = false := by
          intro S hS
          cases hs : subset b (clN m S) with
          | false => rfl
          | true =>
            have := subset_trans' hs (subset_clN_of_sub (m := m) (belowsT_sub c S hS))
            rw [this] at h2'; cases h2'
        have hbL : b ∈ (belowsL r).map (clN m) := by
          rcases hb with e | hb | hb
          · rw [e, subset_refl] at h2'; cases h2'
          · obtain ⟨S, hS, rfl⟩ := List.mem_map.1 hb
            have := hnotT S hS
            rw [subset_refl] at this; cases this
          · exact hb
        obtain ⟨ih1, ih2, ih3⟩ := graftL_ok m b x hx r hr hbL
        refine ⟨?_, ?_, ?_⟩
        · simp only [belowsL, List.map_cons, List.map_append]
          rw [map_ext_id _ hnotT, map_clN_succ _ hwT, extCl_of_not_subset m h2', clN_succ_of_wf hcw]
          apply List.Perm.cons
          exact (List.Perm.append_left _ ih1).trans (perm_assoc' _ _ _)
        · simp only [leavesL]
          exact (ih2.append_left _).trans List.perm_middle
        · simp only [binL, Bool.and_eq_true]
          exact ⟨hbin.1, ih3⟩
end

/-! ### the loop -/

theorem roseLoop_snd (ds : List Nat) (i : Nat) (t : T) (E : List (List Nat)) :
    (roseLoop ds i (t, E)).2 = utreeLoop ds i E := by
  induction ds generalizing i t E with
  | nil => rfl
  | cons j ds ih => simp only [roseLoop, utreeLoop]; exact ih _ _ _

theorem roseLoop_snoc (ds : List Nat) (j i : Nat) (t : T) (E : List (List Nat)) :
    roseLoop (ds ++ [j]) i (t, E) =
      (roseGraft (i + ds.length) ((roseLoop ds i (t, E)).2.getD j []) (tipName (i + ds.length))
          (roseLoop ds i (t, E)).1,
        graft (roseLoop ds i (t, E)).2 (i + ds.length) j) := by
  induction ds generalizing i t E with
  | nil => simp [roseLoop]
  | cons k ds ih =>
    simp only [List.cons_append, roseLoop, List.length_cons]
    rw [ih]
    have : i + 1 + ds.length = i + (ds.length + 1) := by omega
    rw [this]

theorem clN_singleton {m q : Nat} (h : q < m) : clN m [tipName q] = [q] := by
  induction m with
  | zero => omega
  | succ m ih =>
    rw [clN_succ]
    by_cases hq : q < m
    · have : tipName m ∉ [tipName q] := by
        simp only [List.mem_singleton]; intro e; have := tipName_inj e; omega
      simp [ih hq, this]
    · have hqm : q = m := by omega
      subst hqm
      have : clN q [tipName q] = [] := by
        simp only [clN, List.filter_eq_nil_iff]
        intro a ha
        have := List.mem_range.1 ha
        simp only [List.contains_iff_mem, List.mem_singleton]
        intro e; have := tipName_inj e; omega
      simp [this]

theorem roseInit_inv (rooted : Bool) :
    RInv 2 (roseInit rooted).kids ∧ branchClusters 2 (roseInit rooted) = utreeInit rooted := by
  cases rooted
  · refine ⟨⟨?_, ?_, ?_⟩, ?_⟩
    · simp [roseInit, leavesL, T.leaf, T.leaves]
    · intro y hy
      simp [roseInit, leavesL, T.leaf, T.leaves] at hy
      exact ⟨1, by omega, hy⟩
    · simp [roseInit, binL, binT, T.leaf]
    · simp [branchClusters, roseInit, belowsL, belowsT, T.leaf, T.leaves, utreeInit,
        clN_singleton (show 1 < 2 by omega)]
  · refine ⟨⟨?_, ?_, ?_⟩, ?_⟩
    · simp only [roseInit, if_true, T.kids_node, leavesL, T.leaf, T.leaves, List.append_nil]
      simp only [List.singleton_append, List.nodup_cons, List.mem_singleton, List.not_mem_nil,
        not_false_eq_true, List.nodup_nil, and_true]
      intro e; have := tipName_inj e; omega
    · intro y hy
      simp [roseInit, leavesL, T.leaf, T.leaves] at hy
      rcases hy with rfl | rfl
      · exact ⟨1, by omega, rfl⟩
      · exact ⟨0, by omega, rfl⟩
    · simp [roseInit, binL, binT, T.leaf]
    · simp [branchClusters, roseInit, belowsL, belowsT, T.leaf, T.leaves, utreeInit,
        clN_singleton (show 1 < 2 by omega), clN_singleton (show 0 < 2 by omega)]

theorem kids_roseGraft (m : Nat) (b : List Nat) (x : String) (t : T) :
    (roseGraft m b x t).kids = roseGraftL m b x t.kids := by
  cases t; simp [roseGraft]

/-- at every step the branches of the rose tree have exactly the clusters the `edges` slice of
    `utree` holds -/
theorem roseLoop_inv (rooted : Bool) (m : Nat) (d : List Nat)
    (hb : inBounds (loopBounds (utreeInit rooted).length m) d = true) :
    RInv (2 + m) (roseLoop d 2 (roseInit rooted, utreeInit rooted)).1.kids ∧
    (branchClusters (2 + m) (roseLoop d 2 (roseInit rooted, utreeInit rooted)).1).Perm
      (utreeLoop d 2 (utreeInit rooted)) := by
  induction m generalizing d with
  | zero =>
    have : d = [] := by simpa [loopBounds] using length_of_inBounds hb
    subst this
    obtain ⟨h1, h2⟩ := roseInit_inv rooted
    simp only [roseLoop, utreeLoop, Nat.add_zero]
    exact ⟨h1, by rw [h2]⟩
  | succ m ih =>
    rw [loopBounds] at hb
    obtain ⟨d', j, rfl, hb', hj⟩ := inBounds_snoc_elim hb
    obtain ⟨hR, hP⟩ := ih d' hb'
    obtain ⟨hinv, hlen, hdl⟩ := utreeLoop_inv (utreeInit rooted) 2 (utreeInit_inv rooted) m d' hb'
    have hj' : j < (utreeLoop d' 2 (utreeInit rooted)).length := by omega
    rw [roseLoop_snoc, utreeLoop_snoc, roseLoop_snd, hdl]
    simp only []
    have hgetD : (utreeLoop d' 2 (utreeInit rooted)).getD j [] = (utreeLoop d' 2 (utreeInit rooted))[j] := by
      simp [List.getD_eq_getElem?_getD, hj']
    rw [hgetD]
    have hbmem : (utreeLoop d' 2 (utreeInit rooted))[j] ∈
        (belowsL (roseLoop d' 2 (roseInit rooted, utreeInit rooted)).1.kids).map (clN (2 + m)) :=
      hP.mem_iff.2 (List.getElem_mem hj')
    obtain ⟨g1, g2, g3⟩ := graftL_ok (2 + m) _ (tipName (2 + m)) rfl _ hR hbmem
    refine ⟨⟨?_, ?_, ?_⟩, ?_⟩
    · rw [kids_roseGraft]
      refine g2.nodup_iff.2 ?_
      rw [List.nodup_cons]
      exact ⟨fresh_of_wf hR.wf, hR.nodup⟩
    · rw [kids_roseGraft]
      intro y hy
      have := g2.mem_iff.1 hy
      rcases List.mem_cons.1 this with rfl | h
      · exact ⟨2 + m, by omega, rfl⟩
      · obtain ⟨q, hq, e⟩ := hR.wf y h
        exact ⟨q, by omega, e⟩
    · rw [kids_roseGraft]; exact g3
    · rw [show 2 + (m + 1) = (2 + m) + 1 by omega]
      unfold branchClusters
      rw [kids_roseGraft, graft_spec _ _ _ hj']
      refine g1.trans ?_
      exact (hP.map _).append_right _


/-! ### `RerootFirst` on the generated unrooted tree -/

theorem belowsL_append : ∀ (a b : Kids), belowsL (a ++ b) = belowsL a ++ belowsL b
  | [], b => rfl
  | (e, t) :: r, b => by simp [belowsL, belowsL_append r b]

/-- the root is `Tip0` with one neighbour, and that neighbour has two children -/
def RootShape (t : T) : Prop :=
  ∃ e dc pc k1 k2, t = .node ⟨tipName 0, []⟩ 0 [(e, .node dc pc [k1, k2])]

theorem roseGraftL_single (m : Nat) (b : List Nat) (x : String) (e : EdgeD) (c : T) :
    roseGraftL m b x [(e, c)] =
      if clN m c.leaves == b then [(e, .node ⟨"", []⟩ 1 [(EdgeD.blank, T.leaf x), (EdgeD.blank, c)])]
      else if subset b (clN m c.leaves) then [(e, roseGraft m b x c)] else [(e, c)] := by
  simp [roseGraftL]

theorem roseGraft_node (m : Nat) (b : List Nat) (x : String) (d : NodeD) (p : Nat) (ks : Kids) :
    roseGraft m b x (.node d p ks) = .node d p (roseGraftL m b x ks) := by
  simp [roseGraft]

theorem rootShape_graft (m : Nat) (b : List Nat) (x : String) (t : T) (h : RootShape t) :
    RootShape (roseGraft m b x t) := by
  obtain ⟨e, dc, pc, k1, k2, rfl⟩ := h
  rw [roseGraft_node, roseGraftL_single]
  split
  · exact ⟨e, _, _, _, _, rfl⟩
  · split
    · rw [roseGraft_node]
      have hl := roseGraftL_length m b x [k1, k2]
      generalize roseGraftL m b x [k1, k2] = l at hl
      match l, hl with
      | [a1, a2], _ => exact ⟨e, dc, pc, a1, a2, rfl⟩
    · exact ⟨e, dc, pc, k1, k2, rfl⟩

theorem rootShape_first (j : Nat) :
    RootShape (roseGraft 2 ((utreeInit false).getD j []) (tipName 2) (roseInit false)) ∨
    roseGraft 2 ((utreeInit false).getD j []) (tipName 2) (roseInit false) = roseInit false := by
  have hi : roseInit false = .node ⟨tipName 0, []⟩ 0 [(EdgeD.blank, T.leaf (tipName 1))] := by simp [roseInit]
  have hl : (T.leaf (tipName 1)).leaves = [tipName 1] := by simp [T.leaf, T.leaves]
  rw [hi, roseGraft_node, roseGraftL_single, hl, clN_singleton (show 1 < 2 by omega)]
  cases j with
  | zero =>
    left
    have : ([1] == (utreeInit false).getD 0 []) = true := by simp [utreeInit]
    rw [if_pos this]
    exact ⟨_, _, _, _, _, rfl⟩
  | succ j =>
    right
    have h1 : (utreeInit false).getD (j + 1) [] = ([] : List Nat) := by simp [utreeInit]
    rw [h1]
    simp [subset, T.leaf, roseGraft_node, roseGraftL]

theorem roseReroot_clusters (n : Nat) (hn : 1 ≤ n) (t : T) (h : RootShape t) :
    (branchClusters n (roseReroot t)).Perm ([0] :: (branchClusters n t).tail) := by
  obtain ⟨e, dc, pc, k1, k2, rfl⟩ := h
  simp only [roseReroot, List.length_cons, List.length_nil, BEq.rfl, if_true, branchClusters, T.kids_node]
  rw [belowsL_append]
  simp only [belowsL, belowsT, T.leaves, List.map_append, List.map_cons, List.nil_append, List.append_nil,
    List.tail_cons]
  have h0 : clN n [tipName 0] = [0] := clN_singleton (by omega)
  rw [h0]
  have hk : belowsL (List.take pc [k1, k2]) ++ belowsL (List.drop pc [k1, k2]) = belowsL [k1, k2] := by
    rw [← belowsL_append, List.take_append_drop]
  refine List.perm_middle.trans (List.Perm.cons _ ?_)
  rw [← List.map_append, hk]
  simp [belowsL]

theorem roseLoop_shape (m : Nat) (d : List Nat) (hb : inBounds (loopBounds 1 (m + 1)) d = true) :
    RootShape (roseLoop d 2 (roseInit false, utreeInit false)).1 := by
  induction m generalizing d with
  | zero =>
    have hl := length_of_inBounds hb
    simp [loopBounds] at hl
    match d, hl with
    | [j], _ =>
      have hj : j = 0 := by simp [loopBounds, inBounds] at hb; omega
      subst hj
      simp only [roseLoop]
      rcases rootShape_first 0 with h | h
      · exact h
      · exfalso
        have hi : roseInit false = .node ⟨tipName 0, []⟩ 0 [(EdgeD.blank, T.leaf (tipName 1))] := by simp [roseInit]
        have hl : (T.leaf (tipName 1)).leaves = [tipName 1] := by simp [T.leaf, T.leaves]
        have : ([1] == (utreeInit false).getD 0 []) = true := by simp [utreeInit]
        rw [hi, roseGraft_node, roseGraftL_single, hl, clN_singleton (show 1 < 2 by omega), if_pos this] at h
        simp [T.leaf] at h
  | succ m ih =>
    rw [loopBounds] at hb
    obtain ⟨d', j, rfl, hb', _⟩ := inBounds_snoc_elim hb
    rw [roseLoop_snoc]
    exact rootShape_graft _ _ _ _ (ih d' hb')

end Gotree.C20
