package c19

// reads.go — which flag-bound package variables does each command read without the command (or an
// ancestor, through a persistent flag) registering a flag on them?  Such a command gets whatever
// default some *other* command's registration left there: "registering the options of one command
// changes the behaviour of another command" in its purest form, and invisible in the flag table
// (the reading command has no row for the variable).
//
// Syntactic (go/parser): the function literals of the command literal (Run, RunE, PreRun…,
// PersistentPreRun…, PostRun…) and, transitively, the bodies of the package-level functions of
// package cmd they call (openWriteFile, readTrees, readTree, tbe, …; depth ≤ 6, each function once
// per command).  An identifier counts as a read of the package variable unless the function
// declares a parameter or a local of that name.  Function values passed around and methods are
// not followed.

import (
	"go/ast"
	"go/parser"
	"go/token"
	"os"
	"path/filepath"
	"sort"
	"strings"
)

type unboundRead struct {
	Path, CmdVar, GoVar, File string
	Line                      int
	Via                       string   // "" = in the command's own function literal, else the chain of helpers
	BoundBy                   []string // "path --flag" of the registrations of that variable
}

// localNames: parameters, results, := and var declarations inside a function
func localNames(ft *ast.FuncType, body *ast.BlockStmt) map[string]bool {
	local := map[string]bool{}
	addFields := func(fl *ast.FieldList) {
		if fl == nil {
			return
		}
		for _, f := range fl.List {
			for _, n := range f.Names {
				local[n.Name] = true
			}
		}
	}
	if ft != nil {
		addFields(ft.Params)
		addFields(ft.Results)
	}
	if body == nil {
		return local
	}
	ast.Inspect(body, func(n ast.Node) bool {
		switch x := n.(type) {
		case *ast.AssignStmt:
			if x.Tok == token.DEFINE {
				for _, l := range x.Lhs {
					if li, ok := l.(*ast.Ident); ok {
						local[li.Name] = true
					}
				}
			}
		case *ast.ValueSpec:
			for _, li := range x.Names {
				local[li.Name] = true
			}
		case *ast.RangeStmt:
			if x.Tok == token.DEFINE {
				for _, e := range []ast.Expr{x.Key, x.Value} {
					if li, ok := e.(*ast.Ident); ok {
						local[li.Name] = true
					}
				}
			}
		case *ast.FuncLit:
			addFields(x.Type.Params)
			addFields(x.Type.Results)
		}
		return true
	})
	return local
}

func unboundReads(repo string) (out []unboundRead, problems []string) {
	sites, paths, problems := initSites(repo)
	bound := map[string][]regSite{} // Go variable -> its registrations
	for _, s := range sites {
		if s.GoVar != "" {
			bound[s.GoVar] = append(bound[s.GoVar], s)
		}
	}
	dir := filepath.Join(repo, "cmd")
	ents, _ := os.ReadDir(dir)
	fset := token.NewFileSet()
	var files []*ast.File
	for _, e := range ents {
		n := e.Name()
		if !strings.HasSuffix(n, ".go") || strings.HasSuffix(n, "_test.go") || !compiled(dir, n) {
			continue
		}
		f, err := parser.ParseFile(fset, filepath.Join(dir, n), nil, 0)
		if err != nil {
			problems = append(problems, err.Error())
			continue
		}
		files = append(files, f)
	}
	funcs := map[string]*ast.FuncDecl{}
	for _, f := range files {
		for _, d := range f.Decls {
			if fd, ok := d.(*ast.FuncDecl); ok && fd.Recv == nil && fd.Name.Name != "init" {
				funcs[fd.Name.Name] = fd
			}
		}
	}
	for _, f := range files {
		for _, d := range f.Decls {
			gd, ok := d.(*ast.GenDecl)
			if !ok {
				continue
			}
			for _, sp := range gd.Specs {
				vs, ok := sp.(*ast.ValueSpec)
				if !ok {
					continue
				}
				for i, id := range vs.Names {
					if i >= len(vs.Values) {
						continue
					}
					u, ok := vs.Values[i].(*ast.UnaryExpr)
					if !ok {
						continue
					}
					cl, ok := u.X.(*ast.CompositeLit)
					if !ok {
						continue
					}
					path, ok := paths[id.Name]
					if !ok {
						continue
					}
					// variables this command may set: its own registrations and the persistent ones of its ancestors
					mine := map[string]bool{}
					for _, s := range sites {
						sp, ok := paths[s.CmdVar]
						if !ok {
							continue
						}
						if sp == path || s.Persistent && strings.HasPrefix(path+" ", sp+" ") {
							mine[s.GoVar] = true
						}
					}
					seen := map[string]bool{}
					visited := map[string]bool{}
					var scan func(ft *ast.FuncType, body *ast.BlockStmt, via string, depth int)
					scan = func(ft *ast.FuncType, body *ast.BlockStmt, via string, depth int) {
						if body == nil || depth > 6 {
							return
						}
						local := localNames(ft, body)
						var visit func(n ast.Node) bool
						visit = func(n ast.Node) bool {
							switch x := n.(type) {
							case *ast.SelectorExpr:
								// x.f: f is never a package variable of cmd; look at x only
								ast.Inspect(x.X, visit)
								return false
							case *ast.KeyValueExpr:
								// struct literal keys are field names
								if _, ok := x.Key.(*ast.Ident); ok {
									ast.Inspect(x.Value, visit)
									return false
								}
							case *ast.CallExpr:
								if fn, ok := x.Fun.(*ast.Ident); ok && !local[fn.Name] {
									if fd, ok := funcs[fn.Name]; ok && !visited[fn.Name] {
										visited[fn.Name] = true
										v := fn.Name
										if via != "" {
											v = via + ">" + fn.Name
										}
										scan(fd.Type, fd.Body, v, depth+1)
									}
								}
							case *ast.Ident:
								noteRead(x, local, seen, bound, mine, paths, fset, path, id.Name, via, &out)
							}
							return true
						}
						ast.Inspect(body, visit)
					}
					for _, el := range cl.Elts {
						kv, ok := el.(*ast.KeyValueExpr)
						if !ok {
							continue
						}
						if fl, ok := kv.Value.(*ast.FuncLit); ok {
							scan(fl.Type, fl.Body, "", 0)
						}
					}
				}
			}
		}
	}
	sort.Slice(out, func(i, j int) bool {
		if out[i].Path != out[j].Path {
			return out[i].Path < out[j].Path
		}
		return out[i].GoVar < out[j].GoVar
	})
	return
}

func noteRead(idn *ast.Ident, local, seen map[string]bool, bound map[string][]regSite, mine map[string]bool,
	paths map[string]string, fset *token.FileSet, path, cmdVar, via string, out *[]unboundRead) {
	if local[idn.Name] || seen[idn.Name] || mine[idn.Name] {
		return
	}
	regs, ok := bound[idn.Name]
	if !ok {
		return
	}
	seen[idn.Name] = true
	var by []string
	for _, s := range regs {
		by = append(by, paths[s.CmdVar]+" --"+s.Flag)
	}
	pos := fset.Position(idn.Pos())
	*out = append(*out, unboundRead{Path: path, CmdVar: cmdVar, GoVar: idn.Name, File: filepath.Base(pos.Filename),
		Line: pos.Line, Via: via, BoundBy: by})
}
