/-
  C01 — blanks between the trees of one text (what `Parser.More` + `Parse` meet in the loop of ReadMultiTrees
  when a line holds several trees, or blanks follow the last `;`): lexer facts used by `parseWhileMore_writes_sep`.
-/
import Gotree.Lemmas.C01
import Gotree.Lemmas.C01Witness

namespace Gotree.C01
open Gotree Gotree.Newick

/-- the input does not begin with a blank of the lexer -/
def NoLeadWs (l : List Char) : Prop := ∀ c r, l = c :: r → isWhitespace c = false

theorem dropWhile_ws_append (ws rest : List Char) (h : ws.all isWhitespace = true) (hr : NoLeadWs rest) :
    (ws ++ rest).dropWhile isWhitespace = rest := by
  induction ws with
  | nil =>
    cases rest with
    | nil => rfl
    | cons c r => simp [hr c r rfl]
  | cons w ws ih =>
    simp only [List.all_cons, Bool.and_eq_true] at h
    simp [h.1, ih h.2]

theorem scan_not_ws (C : Codec) (ign : Bool) (c : Char) (r : List Char) (hc : isWhitespace c = false) :
    (scan C ign (c :: r)).1 ≠ .ws := by
  simp only [scan, hc]
  repeat' split
  all_goals simp_all

/-- `scanIgnoreWhitespace` jumps over a run of blanks: the reader stands at the first non-blank character -/
theorem skipWs_ws (C : Codec) (ws rest : List Char) (h : ws.all isWhitespace = true) (hr : NoLeadWs rest) :
    skipWs C (ws ++ rest) = rest := by
  cases ws with
  | nil =>
    cases rest with
    | nil => simp [skipWs, scan]
    | cons c r =>
      have := scan_not_ws C false c r (hr c r rfl)
      simp [skipWs, this]
  | cons w ws =>
    simp only [List.all_cons, Bool.and_eq_true] at h
    have hd := dropWhile_ws_append ws rest h.2 hr
    simp [skipWs, scan, h.1, hd]

theorem wf01_wf01r (isFloat : List Char → Bool) (dom : Rat → Bool) (t : T) (ht : WF01 isFloat dom t = true) :
    WF01r isFloat dom t = true := by
  cases t with
  | node d pp ks =>
    simp only [WF01, Bool.and_eq_true, decide_eq_true_eq] at ht
    obtain ⟨⟨⟨hlen, hin⟩, hcs⟩, hkids⟩ := ht
    simp only [WF01r, Bool.and_eq_true, decide_eq_true_eq, Bool.or_eq_true, bne_iff_ne, ne_eq]
    exact ⟨⟨⟨⟨by omega, Or.inl (by omega)⟩, hin⟩, hcs⟩, hkids⟩

theorem wf01_kids_ne (isFloat : List Char → Bool) (dom : Rat → Bool) (t : T) (ht : WF01 isFloat dom t = true) : t.kids ≠ [] := by
  cases t with
  | node d pp ks =>
    simp only [WF01, Bool.and_eq_true, decide_eq_true_eq] at ht
    intro hnil
    simp only [T.kids_node] at hnil
    rw [hnil] at ht
    simp at ht


end Gotree.C01
