package c11

// Package-level state reached from a goroutine: the second regenerated fact that decides race-freedom.
//
// extract.go follows the variables a `go func` literal CAPTURES.  A worker can also reach shared memory
// without capturing anything: through a package-level variable written by a function it calls (seeded
// change C11-10: `tax_hash` reusing one package-level FNV hasher, three calls below the workers of
// Compare / FBP).  For every goroutine of the scoped files this pass walks the body and, transitively
// (no depth limit, each function once), every statically resolved callee declared in the parsed packages
// (interface methods: every method of that name and arity), and records every
//
//	assignment / ++ / -- whose root is a package-level variable of the module,
//	method call on a package-level variable that may write it (pointer receiver, or interface value),
//	sync/atomic update of a package-level variable,
//
// with the synchronisation in force: `mutex` when a Lock of the function (or of a caller, at the call)
// precedes it without a non-deferred Unlock in between, `atomic`, else `none`.  Values of the types of
// sync, sync/atomic, log and os (which synchronise themselves) are skipped.  Calls into packages that are
// not parsed (io, io/newick, …), through function values and through closures are not followed.

import (
	"fmt"
	"go/ast"
	"go/importer"
	"go/parser"
	"go/token"
	"go/types"
	"path/filepath"
	"sort"
	"strings"
)

// repository being extracted (paths of the table are relative to it)
var extractRepo string

type xGlobal struct {
	File, Fn string // the goroutine: file and enclosing function
	GoLine   int
	Multi    bool
	Var      string // pkg.name
	How      string // assign / incdec / call M / atomic.F, and the call chain
	Sync     string
	Line     int
	At       string // file of the access
}

// filled by extractGoroutines
var globalWrites []xGlobal

const modulePath = "github.com/evolbioinfo/gotree"

func pkgLevelVar(o types.Object) (*types.Var, bool) {
	v, ok := o.(*types.Var)
	if !ok || v.IsField() || v.Pkg() == nil || v.Parent() != v.Pkg().Scope() {
		return nil, false
	}
	if !strings.HasPrefix(v.Pkg().Path(), modulePath) {
		return nil, false
	}
	return v, true
}

func selfSynchronised(t types.Type) bool {
	if p, ok := t.(*types.Pointer); ok {
		t = p.Elem()
	}
	n, ok := t.(*types.Named)
	if !ok || n.Obj().Pkg() == nil {
		return false
	}
	switch n.Obj().Pkg().Path() {
	case "sync", "sync/atomic", "log", "os":
		return true
	}
	return false
}

type gvisit struct {
	x    *extractor
	g    *xGo
	seen map[string]bool
	out  []xGlobal
}

func objOf(info *types.Info, id *ast.Ident) types.Object {
	if o := info.Uses[id]; o != nil {
		return o
	}
	return info.Defs[id]
}

func staticCallee(info *types.Info, call *ast.CallExpr) (*types.Func, ast.Expr) {
	switch f := call.Fun.(type) {
	case *ast.Ident:
		if fn, ok := info.Uses[f].(*types.Func); ok {
			return fn, nil
		}
	case *ast.SelectorExpr:
		if sel, ok := info.Selections[f]; ok {
			if fn, ok := sel.Obj().(*types.Func); ok {
				return fn, f.X
			}
		}
		if fn, ok := info.Uses[f.Sel].(*types.Func); ok {
			return fn, nil
		}
	}
	return nil, nil
}

// body walks one function body.  outerHeld: a lock is held by a caller at the call site.
func (v *gvisit) body(info *types.Info, body ast.Node, via string, outerHeld bool) {
	fset := v.x.fset
	// lock events of this body, by position
	type ev struct {
		pos   token.Pos
		delta int
	}
	var evs []ev
	deferred := map[*ast.CallExpr]bool{}
	ast.Inspect(body, func(n ast.Node) bool {
		if d, ok := n.(*ast.DeferStmt); ok {
			deferred[d.Call] = true
		}
		return true
	})
	ast.Inspect(body, func(n ast.Node) bool {
		call, ok := n.(*ast.CallExpr)
		if !ok {
			return true
		}
		if fn, _ := staticCallee(info, call); fn != nil {
			switch fn.FullName() {
			case "(*sync.Mutex).Lock", "(*sync.RWMutex).Lock":
				if !deferred[call] {
					evs = append(evs, ev{call.Pos(), 1})
				}
			case "(*sync.Mutex).Unlock", "(*sync.RWMutex).Unlock":
				if !deferred[call] {
					evs = append(evs, ev{call.Pos(), -1})
				}
			}
		}
		return true
	})
	held := func(p token.Pos) bool {
		if outerHeld {
			return true
		}
		n := 0
		for _, e := range evs {
			if e.pos < p {
				n += e.delta
			}
		}
		return n > 0
	}
	record := func(vr *types.Var, how string, pos token.Pos, sync string) {
		if sync == "" {
			sync = "none"
			if held(pos) {
				sync = "mutex"
			}
		}
		if via != "" {
			seg := strings.Split(via, "/")
			if len(seg) > 4 {
				seg = append([]string{"…"}, seg[len(seg)-4:]...)
			}
			how += " via " + strings.Join(seg, "/")
		}
		p := fset.Position(pos)
		at := p.Filename
		if extractRepo != "" {
			if rel, err := filepath.Rel(extractRepo, at); err == nil {
				at = filepath.ToSlash(rel)
			}
		}
		v.out = append(v.out, xGlobal{File: v.g.File, Fn: v.g.Fn, GoLine: v.g.Line, Multi: v.g.Multi || v.g.Counted,
			Var: vr.Pkg().Name() + "." + vr.Name(), How: how, Sync: sync, Line: p.Line, At: at})
	}
	lhs := func(e ast.Expr, pos token.Pos, form string) {
		id, _, f := rootIdent(e)
		if id == nil {
			return
		}
		if vr, ok := pkgLevelVar(objOf(info, id)); ok && !selfSynchronised(vr.Type()) {
			if form == "" {
				form = f
			}
			record(vr, form, pos, "")
		}
	}
	ast.Inspect(body, func(n ast.Node) bool {
		switch s := n.(type) {
		case *ast.AssignStmt:
			if s.Tok != token.DEFINE {
				for _, l := range s.Lhs {
					lhs(l, s.Pos(), "")
				}
			}
		case *ast.IncDecStmt:
			lhs(s.X, s.Pos(), "incdec")
		case *ast.CallExpr:
			fn, recv := staticCallee(info, s)
			if fn == nil {
				return true
			}
			if fn.Pkg() != nil && fn.Pkg().Path() == "sync/atomic" && len(s.Args) > 0 &&
				(strings.HasPrefix(fn.Name(), "Add") || strings.HasPrefix(fn.Name(), "Store") || strings.HasPrefix(fn.Name(), "Swap") || strings.HasPrefix(fn.Name(), "CompareAndSwap")) {
				if id, _, _ := rootIdent(s.Args[0]); id != nil {
					if vr, ok := pkgLevelVar(objOf(info, id)); ok {
						record(vr, "atomic."+fn.Name(), s.Pos(), "atomic")
					}
				}
				return true
			}
			// a method called on a package-level variable may write it
			if recv != nil {
				if id, _, _ := rootIdent(recv); id != nil {
					if vr, ok := pkgLevelVar(objOf(info, id)); ok && !selfSynchronised(vr.Type()) {
						if sig, ok := fn.Type().(*types.Signature); ok && sig.Recv() != nil {
							rt := sig.Recv().Type()
							_, ptr := rt.(*types.Pointer)
							_, iface := rt.Underlying().(*types.Interface)
							if ptr || iface {
								record(vr, "call "+fn.Name(), s.Pos(), "")
							}
						}
					}
				}
			}
			// follow the callee
			full := fn.FullName()
			var cands []string
			if sig, ok := fn.Type().(*types.Signature); ok && sig.Recv() != nil {
				if _, iface := sig.Recv().Type().Underlying().(*types.Interface); iface {
					for name, d := range v.x.decls {
						if d.decl.Recv != nil && d.decl.Name.Name == fn.Name() && d.decl.Body != nil &&
							d.decl.Type.Params.NumFields() == sig.Params().Len() {
							cands = append(cands, name)
						}
					}
					sort.Strings(cands)
				}
			}
			if len(cands) == 0 {
				cands = []string{full}
			}
			for _, name := range cands {
				d, ok := v.x.decls[name]
				if !ok || d.decl.Body == nil || v.seen[name] {
					continue
				}
				v.seen[name] = true
				v.body(d.info, d.decl.Body, strings.TrimPrefix(via+"/"+shortName(name), "/"), held(s.Pos()))
			}
		}
		return true
	})
}

// globalsOf: the package-level writes reachable from one goroutine
func (x *extractor) globalsOf(g *xGo, info *types.Info, lit *ast.FuncLit) []xGlobal {
	v := &gvisit{x: x, g: g, seen: map[string]bool{}}
	v.body(info, lit.Body, "", false)
	// one row per (variable, kind of write, synchronisation, place)
	seen := map[string]bool{}
	var out []xGlobal
	for _, w := range v.out {
		k := fmt.Sprint(w.Var, w.How, w.Sync, w.Line, w.At)
		if !seen[k] {
			seen[k] = true
			out = append(out, w)
		}
	}
	return out
}

// ---- self-test of this pass: a source with seeded package-level writes two calls below a worker ----

const selfTestGlobalsSrc = `package selftest

import (
	"hash"
	"hash/fnv"
	"sync"
	"sync/atomic"
)

var hasher hash.Hash64 = fnv.New64a()
var counter, guardedCnt int
var acnt int64
var gmu sync.Mutex
var table = map[string]int{}
var once sync.Once

type shaper interface{ shape(s string) uint64 }
type impl struct{}

func (impl) shape(s string) uint64 { counter++; return leaf(s) }

func leaf(s string) uint64 { hasher.Reset(); hasher.Write([]byte(s)); return hasher.Sum64() }
func mid(s string, sh shaper) uint64 {
	gmu.Lock()
	guardedCnt++
	gmu.Unlock()
	atomic.AddInt64(&acnt, 1)
	once.Do(func() {})
	table[s] = 1
	local := 0
	local++
	_ = local
	return sh.shape(s)
}
func work(in <-chan string) {
	var wg sync.WaitGroup
	for i := 0; i < 2; i++ {
		wg.Add(1)
		go func() {
			defer wg.Done()
			for s := range in {
				_ = mid(s, impl{})
			}
		}()
	}
	wg.Wait()
}
`

const selfTestGlobalsWant = "selftest.guardedCnt/incdec/mutex selftest.acnt/atomic.AddInt64/atomic selftest.table/elem/none " +
	"selftest.counter/incdec/none selftest.hasher/call Reset/none selftest.hasher/call Write/none selftest.hasher/call Sum64/none"

func selfTestGlobals() error {
	x := &extractor{fset: token.NewFileSet(), decls: map[string]*fnDecl{}}
	f, err := parser.ParseFile(x.fset, "selftestglobals.go", selfTestGlobalsSrc, 0)
	if err != nil {
		return err
	}
	info := &types.Info{Types: map[ast.Expr]types.TypeAndValue{}, Uses: map[*ast.Ident]types.Object{},
		Defs: map[*ast.Ident]types.Object{}, Selections: map[*ast.SelectorExpr]*types.Selection{}}
	var terr error
	conf := types.Config{Importer: importer.ForCompiler(x.fset, "source", nil), Error: func(e error) {
		if terr == nil {
			terr = e
		}
	}}
	conf.Check(modulePath+"/selftest", x.fset, []*ast.File{f}, info)
	if terr != nil {
		return terr
	}
	for _, d := range f.Decls {
		if fd, ok := d.(*ast.FuncDecl); ok {
			if fn, ok := info.Defs[fd.Name].(*types.Func); ok {
				x.decls[fn.FullName()] = &fnDecl{decl: fd, info: info}
			}
		}
	}
	var rows []string
	for _, d := range f.Decls {
		fd, ok := d.(*ast.FuncDecl)
		if !ok || fd.Body == nil {
			continue
		}
		ast.Inspect(fd.Body, func(n ast.Node) bool {
			if gs, ok := n.(*ast.GoStmt); ok {
				if lit, ok := gs.Call.Fun.(*ast.FuncLit); ok {
					for _, w := range x.globalsOf(&xGo{File: "selftestglobals.go", Fn: fd.Name.Name}, info, lit) {
						how := w.How
						if i := strings.Index(how, " via "); i >= 0 {
							how = how[:i]
						}
						rows = append(rows, w.Var+"/"+how+"/"+w.Sync)
					}
				}
			}
			return true
		})
	}
	if got := strings.Join(rows, " "); got != selfTestGlobalsWant {
		return fmt.Errorf("extractor self-test (package-level writes): got\n%s\nwant\n%s", got, selfTestGlobalsWant)
	}
	return nil
}
