/-
  C14 round 2 — Part 2: the loop of `pathLengths` over the children of a node (one of them
  possibly being `prev`), and the walk up from a tip: what it writes inside the subtree, and
  the call it makes on the parent of the subtree's top node.  Core Lean only.
-/
import Gotree.Lemmas.C14Walk

namespace Gotree.C14
open Gotree Gotree.C14.Go

/-- the function folded over `cur.neigh` by `pathLengths` -/
def plStep (g : G) (ids : Array Nat) (metric : Int) (fuel cur : Nat) (prev : Option Nat) (acc : Rat) :
    Array Rat → Nat × Nat → Option (Array Rat) :=
  fun lengths cb =>
    if some cb.1 != prev then
      match g.edges[cb.2]? with
      | none => none
      | some e => pathLengths g ids metric fuel cb.1 (some cur) lengths (acc + weight metric e.d)
    else some lengths

theorem pathLengths_succ (g : G) (ids : Array Nat) (metric : Int) (fuel cur : Nat) (prev : Option Nat)
    (L : Array Rat) (acc : Rat) (nd : GNode) (h : g.nodes[cur]? = some nd) :
    pathLengths g ids metric (fuel + 1) cur prev L acc =
      if nd.neigh.length == 1 && prev.isSome then
        (if ids.getD cur 0 < L.size then some (L.set! (ids.getD cur 0) acc) else none)
      else nd.neigh.foldlM (plStep g ids metric fuel cur prev acc) L := by
  rw [pathLengths, h]
  rfl

/-- the call made for the parent entry of node `n` (parent `p`) -/
def callUp (g : G) (ids : Array Nat) (metric : Int) (f n p : Nat) (L : Array Rat) (acc : Rat) : Option (Array Rat) :=
  match g.edges[n - 1]? with
  | none => none
  | some e => pathLengths g ids metric f p (some n) L (acc + weight metric e.d)

/-! ## children with their indices -/

def kidsIdx : Nat → Kids → List (Nat × (EdgeD × T))
  | _, [] => []
  | n, (e, t) :: r => (n, (e, t)) :: kidsIdx (n + t.size) r

theorem kidIdx_eq : ∀ (n : Nat) (k : Kids), kidIdx n k = (kidsIdx n k).map (·.1)
  | _, [] => rfl
  | n, (e, t) :: r => by simp [kidIdx, kidsIdx, kidIdx_eq (n + t.size) r]

structure KidOK (g : G) (p m : Nat) (ks : Kids) (x : Nat × (EdgeD × T)) : Prop where
  gt : p < x.1
  nodes : Sub g.nodes x.1 (flatT (some p) x.1 x.2.2)
  edges : Sub g.edges x.1 (gedgesT x.1 x.2.2)
  edge : g.edges[x.1 - 1]? = some ⟨p, x.1, x.2.1⟩
  size : x.2.2.size ≤ T.sizeL ks
  leaves : ∀ i ∈ leafIdxT x.1 x.2.2, i ∈ leafIdxL m ks
  mem : x.2 ∈ ks

theorem kids_ok (g : G) : ∀ (ks : Kids) (n p : Nat), p < n → Sub g.nodes n (flatL p n ks) →
    Sub g.edges (n - 1) (gedgesL p n ks) → ∀ x ∈ kidsIdx n ks, KidOK g p n ks x
  | [], _, _, _, _, _, x, hx => by simp [kidsIdx] at hx
  | (e, t) :: r, n, p, hp, hs, he, x, hx => by
    rw [flatL_cons] at hs
    rw [gedgesL_cons] at he
    have h2 := hs.right
    rw [flatT_length] at h2
    have hn1 : n - 1 + 1 = n := by omega
    have he1 := he.head
    have he2 := he.tail
    rw [hn1] at he2
    have he3 := he2.right
    have hsz := gedgesT_length n t
    have hidx : n + (gedgesT n t).length = n + t.size - 1 := by omega
    rw [hidx] at he3
    simp only [kidsIdx, List.mem_cons] at hx
    rcases hx with rfl | hx
    · exact ⟨hp, hs.left, he2.left, he1, by rw [sizeL_cons]; exact Nat.le_add_right _ _,
        fun i hi => by simp [leafIdxL, hi], by simp⟩
    · have ih := kids_ok g r (n + t.size) p (by omega) h2 he3 x hx
      exact ⟨ih.gt, ih.nodes, ih.edges, ih.edge, by rw [sizeL_cons]; have := ih.size; omega,
        fun i hi => by simp [leafIdxL, ih.leaves i hi], by simp [ih.mem]⟩

/-- what the loop writes for one child: nothing when the child is `prev` -/
def stepW (w : EdgeD → Rat) (prev : Option Nat) (acc : Rat) (x : Nat × (EdgeD × T)) : List (Nat × Rat) :=
  if some x.1 == prev then [] else wdT w x.1 x.2.2 (acc + w x.2.1)

theorem loop_kids (g : G) (ids : Array Nat) (metric : Int) (fuel cur m : Nat) (ks : Kids) (prev : Option Nat) (acc : Rat) :
    ∀ (l : List (Nat × (EdgeD × T))) (L : Array Rat),
    (∀ x ∈ l, KidOK g cur m ks x) → (∀ x ∈ l, some x.1 ≠ prev → x.2.2.size ≤ fuel) →
    (∀ i ∈ leafIdxL m ks, ids.getD i 0 < L.size) →
    (l.map fun x => (x.1, x.1 - 1)).foldlM (plStep g ids metric fuel cur prev acc) L
      = some (applyW ids L (l.flatMap (stepW (weight metric) prev acc)))
  | [], L, _, _, _ => by simp [applyW]
  | x :: l, L, hok, hf, hid => by
    have hx := hok x (by simp)
    simp only [List.map_cons, List.foldlM_cons, List.flatMap_cons]
    rw [applyW_append]
    by_cases hsk : some x.1 = prev
    · have h1 : plStep g ids metric fuel cur prev acc L (x.1, x.1 - 1) = some L := by
        simp [plStep, hsk]
      have h2 : stepW (weight metric) prev acc x = [] := by simp [stepW, hsk]
      rw [h1, h2]
      simp only [Option.bind_eq_bind, Option.bind_some]
      exact loop_kids g ids metric fuel cur m ks prev acc l L (fun y hy => hok y (by simp [hy]))
        (fun y hy => hf y (by simp [hy])) hid
    · have hne : (some x.1 != prev) = true := by simpa using hsk
      have hne' : (some x.1 == prev) = false := by simpa using hsk
      have h1 : plStep g ids metric fuel cur prev acc L (x.1, x.1 - 1) =
          some (applyW ids L (wdT (weight metric) x.1 x.2.2 (acc + weight metric x.2.1))) := by
        simp only [plStep, hne, if_true, hx.edge]
        exact pathLengths_down g ids metric x.2.2 fuel x.1 cur L _ (hf x (by simp) hsk) hx.gt hx.nodes hx.edges
          (fun i hi => hid i (hx.leaves i hi))
      have h2 : stepW (weight metric) prev acc x = wdT (weight metric) x.1 x.2.2 (acc + weight metric x.2.1) := by
        simp [stepW, hne']
      rw [h1, h2]
      simp only [Option.bind_eq_bind, Option.bind_some]
      exact loop_kids g ids metric fuel cur m ks prev acc l _ (fun y hy => hok y (by simp [hy]))
        (fun y hy => hf y (by simp [hy])) (fun i hi => by rw [applyW_size]; exact hid i hi)

/-! ## index ranges, membership, splitting at a child -/

mutual
theorem leafIdxT_range : ∀ (t : T) (n : Nat), ∀ i ∈ leafIdxT n t, n ≤ i ∧ i < n + t.size
  | .node d pp [], n, i, hi => by
    simp [leafIdxT] at hi; subst hi; rw [size_node]; omega
  | .node d pp (x :: k), n, i, hi => by
    simp only [leafIdxT] at hi
    have := leafIdxL_range (x :: k) (n + 1) i hi
    rw [size_node]; omega
theorem leafIdxL_range : ∀ (k : Kids) (n : Nat), ∀ i ∈ leafIdxL n k, n ≤ i ∧ i < n + T.sizeL k
  | [], _, i, hi => by simp [leafIdxL] at hi
  | (e, t) :: r, n, i, hi => by
    simp only [leafIdxL, List.mem_append] at hi
    rw [sizeL_cons]
    rcases hi with hi | hi
    · have := leafIdxT_range t n i hi; omega
    · have := leafIdxL_range r (n + t.size) i hi; omega
end

/-- the child whose subtree holds a given leaf index, with the children before and after -/
theorem split_at_leaf : ∀ (ks : Kids) (m i : Nat), i ∈ leafIdxL m ks →
    ∃ k1 e t k2, ks = k1 ++ (e, t) :: k2 ∧ i ∈ leafIdxT (m + T.sizeL k1) t ∧
      kidsIdx m ks = kidsIdx m k1 ++ (m + T.sizeL k1, (e, t)) :: kidsIdx (m + T.sizeL k1 + t.size) k2 ∧
      leafIdxL m ks = leafIdxL m k1 ++ leafIdxT (m + T.sizeL k1) t ++ leafIdxL (m + T.sizeL k1 + t.size) k2
  | [], _, _, hi => by simp [leafIdxL] at hi
  | (e, t) :: r, m, i, hi => by
    simp only [leafIdxL, List.mem_append] at hi
    by_cases h : i ∈ leafIdxT m t
    · exact ⟨[], e, t, r, rfl, by simpa [T.sizeL] using h, by simp [kidsIdx, T.sizeL], by simp [leafIdxL, T.sizeL]⟩
    · obtain ⟨k1, e', t', k2, h1, h2, h3, h4⟩ := split_at_leaf r (m + t.size) i (hi.resolve_left h)
      have hs : m + T.sizeL ((e, t) :: k1) = m + t.size + T.sizeL k1 := by rw [sizeL_cons]; omega
      refine ⟨(e, t) :: k1, e', t', k2, by simp [h1], by rw [hs]; exact h2, ?_, ?_⟩
      · rw [hs]; simp [kidsIdx, h3]
      · rw [hs]; simp [leafIdxL, h4]

theorem sizeL_append : ∀ (a b : Kids), T.sizeL (a ++ b) = T.sizeL a + T.sizeL b
  | [], b => by simp [T.sizeL]
  | (e, t) :: a, b => by
    rw [List.cons_append, sizeL_cons, sizeL_cons, sizeL_append a b]; omega

end Gotree.C14
