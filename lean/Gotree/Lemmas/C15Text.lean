/-
  C15 — "same text, including comments": the Newick text of a clone, computed by the writer
  model of C01 (`Gotree.Newick.write`, imported read-only), is the text of its source, because
  the writer never looks at a parent position.  Core Lean only.
-/
import Gotree.Lemmas.C15Copy
import Gotree.Model.C01

namespace Gotree.C15
open Gotree

mutual
theorem writeNode_zeroPpos (C : Newick.Codec) (nr : Bool) : ∀ (t : T),
    Newick.writeNode C nr (zeroPpos t) = Newick.writeNode C nr t
  | .node d p k => by
    simp only [zeroPpos, Newick.writeNode, zeroPposL_length, writeKids_zeroPpos C true k]
theorem writeKids_zeroPpos (C : Newick.Codec) (first : Bool) : ∀ (k : Kids),
    Newick.writeKids C first (zeroPposL k) = Newick.writeKids C first k
  | [] => by simp [zeroPposL, Newick.writeKids]
  | (e, t) :: r => by
    simp only [zeroPposL, Newick.writeKids, writeNode_zeroPpos C true t, zeroPpos_d, writeKids_zeroPpos C false r]
end

theorem write_zeroPpos (C : Newick.Codec) (t : T) : Newick.write C (zeroPpos t) = Newick.write C t := by
  simp only [Newick.write, writeNode_zeroPpos, zeroPpos_d]

end Gotree.C15
