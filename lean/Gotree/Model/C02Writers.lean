/-
  C02 — "written back": the three writers the harness calls on every delivered tree, as functions of the tree
  value.  `Tree.Newick()` is the writer model of C01 (`Gotree.Newick.write`, with the transcription of
  `strconv.FormatFloat(x,'f',-1,64)` of its `goCodec`); `Tree.Nexus()` (tree/tree.go) wraps it in a TAXA and a
  TREES block; `phyloxml.WritePhyloXML` / `writePhylogeny` / `writeClade` (io/phyloxml/phyloxml.go) are modelled
  as a list of structured lines (so that well-nestedness can be stated) and rendered to text.

  Go statements that index or dereference:  `n.Edges()[i]` in `writeClade` (i ranges over `n.Neigh()`; in a tree
  VALUE `T` a node's branches and neighbours are the same list, so the index is in range by construction — the
  model has no panic site there, which is an assumption about the pointer structure stated in checks/C02.json);
  `e.Length()` on the branch above a clade is guarded by `prev != nil && e != nil` (modelled: `Option EdgeD`).
-/
import Gotree.Model.C01

namespace Gotree.C02.Writers
open Gotree

/-- `strconv.FormatFloat(x,'f',-1,64)` (`Edge.LengthString`, `Edge.SupportString`) -/
def fmtF (x : Rat) : String := String.ofList (Gotree.Newick.goCodec.fmt x)

/-- `Tree.Newick()` -/
def newickText (t : T) : String := Gotree.Newick.writeStr Gotree.Newick.goCodec t

/-- `Tree.Nexus()`: `tips := t.Tips()` — a tip ROOT counts (same order as `T.tipNames`) -/
def nexusText (t : T) : String :=
  "#NEXUS\nBEGIN TAXA;\n DIMENSIONS NTAX=" ++ toString t.tipNames.length ++ ";\n TAXLABELS" ++
  String.join (t.tipNames.map fun n => " " ++ n) ++
  ";\nEND;\nBEGIN TREES;\n  TREE tree1 = " ++ newickText t ++ "\nEND;\n"

/-- one line written by `writeClade` -/
inductive PxLine where
  | opn (lvl : Nat)
  | name (lvl : Nat) (s : String)
  | len (lvl : Nat) (s : String)
  | conf (lvl : Nat) (s : String)
  | cls (lvl : Nat)
  deriving Repr, DecidableEq

/-- the lines between `<clade>` and the sub-clades: the name, and — below a parent — the data of the branch above -/
def pxContent (lvl : Nat) (above : Option EdgeD) (isTip : Bool) (d : NodeD) : List PxLine :=
  (if d.name != "" then [.name lvl d.name] else []) ++
  (match above with
   | some e =>          -- `if prev != nil && e != nil`
     (if e.len != NIL then [.len lvl (fmtF e.len)] else []) ++
     (if !isTip && e.sup != NIL then [.conf lvl (fmtF e.sup)] else [])
   | none => [])

mutual
/-- `writeClade(n, prev, e, buf, level)`; `above` = the branch to the parent (`none` at the root) -/
def pxNode (lvl : Nat) (above : Option EdgeD) : T → List PxLine
  | .node d _ kids =>
    -- `n.Tip()`: exactly one neighbour
    let isTip : Bool := kids.length + (if above.isSome then 1 else 0) == 1
    PxLine.opn lvl :: (pxContent lvl above isTip d ++ (pxKids (lvl + 1) kids ++ [PxLine.cls lvl]))
/-- the loop over the neighbours other than `prev` -/
def pxKids (lvl : Nat) : Kids → List PxLine
  | [] => []
  | (e, t) :: r => pxNode lvl (some e) t ++ pxKids lvl r
end

/-- `tab`: two blanks, and two more per level -/
def tab (lvl : Nat) : String := String.ofList (List.replicate (2 + 2 * lvl) ' ')

def PxLine.render : PxLine → String
  | .opn l => tab l ++ "<clade>\n"
  | .name l s => tab l ++ "<name>" ++ s ++ "</name>\n"
  | .len l s => tab l ++ "<branch_length>" ++ s ++ "</branch_length>\n"
  | .conf l s => tab l ++ "<confidence type=\"bootstrap\">" ++ s ++ "</confidence>\n"
  | .cls l => tab l ++ "</clade>\n"

/-- `writePhylogeny`: `t.Rooted()` is "the root has two neighbours" -/
def phylogenyLines (t : T) : List PxLine := pxNode 1 none t

def pxHeader : String :=
  "<?xml version=\"1.0\" encoding=\"UTF-8\"?>\n<phyloxml xmlns:xsi=\"http://www.w3.org/2001/XMLSchema-instance\" \n          xsi:schemaLocation=\"http://www.phyloxml.org http://www.phyloxml.org/1.10/phyloxml.xsd\"\n          xmlns=\"http://www.phyloxml.org\">\n"

/-- `phyloxml.WritePhyloXML` on a channel that delivers this one tree -/
def phyloxmlText (t : T) : String :=
  pxHeader ++ "  <phylogeny rooted=\"" ++ (if t.kids.length == 2 then "true" else "false") ++ "\">\n" ++
  String.join ((phylogenyLines t).map PxLine.render) ++ "  </phylogeny>\n</phyloxml>\n"

/-- the `<clade>` / `</clade>` lines are well nested and every other line stands inside a clade:
    `d` = number of clades open -/
def wellNested : List PxLine → Nat → Bool
  | [], d => d == 0
  | .opn _ :: r, d => wellNested r (d + 1)
  | .cls _ :: r, d => d != 0 && wellNested r (d - 1)
  | _ :: r, d => d != 0 && wellNested r d

def PxLine.isContent : PxLine → Bool
  | .opn _ => false | .cls _ => false | _ => true

def nOpen (ls : List PxLine) : Nat := ls.countP fun l => match l with | .opn _ => true | _ => false

end Gotree.C02.Writers
